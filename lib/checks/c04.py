"""C04 — Only headers obeying height, time, version, difficulty and PoW rules pass
(spec/Header.tla, spec/Difficulty.tla; engine `header`)."""
import json, os, shutil, threading
import vlib
from vlib import Report, ToolError, log

PID = "C04"
ENGINES = ["header"]


def _rejected_event(r, trace_path):
    """Index (1-based) and content of the first event the trace specification refused."""
    import re
    m = re.search(r'"TRACE-REJECTED at event",\s*(\d+)', r.out)
    if not m:
        return None, None
    d = int(m.group(1))
    evs = vlib.read_ndjson(trace_path)
    return d, (evs[d - 1] if d <= len(evs) else None)


def validate(module, trace_path, what):
    r = vlib.tlc("trace/" + module, workers=1, coverage=False, env={"TRACE": trace_path}, xss="1g", xmx="4g", timeout=1500)
    if r.finished:
        return True, r, None, None
    if "TRACE-REJECTED" in r.out:
        d, ev = _rejected_event(r, trace_path)
        return False, r, d, ev
    print(r.out[-4000:])
    raise ToolError("%s failed without a verdict (%s)" % (module, what))


def header_sig(ev):
    """header:<entry point>:<mutation>:<real verdict>[:skip_pow][:opts=SYNC|MINE|...]
    (calls made with Options::NONE carry no opts suffix)."""
    if ev is None:
        return "header:trace:eof"
    mut = ev.get("mut", "?")
    rest = [o for o in ev.get("opts", []) if o != "SKIP_POW"]
    if ev.get("k") == "Wire":
        # header:wire:<wrapping>:<what is wrong with the header>:<real verdict>, e.g.
        # header:wire:CompactBlock:future_time:accept
        future = ev.get("tsc") in ("limit_plus", "far")
        what = ("future_time" if future else "ts_" + str(ev.get("tsc"))) if mut == "valid" else \
            (mut + ("+future_time" if future else ""))
        verdict = str(ev.get("verdict")) + ("+stored" if ev.get("verdict") != "accept" and any(ev.get("stored", [])) else "")
        return "header:wire:%s:%s:%s%s" % (ev.get("w"), what, verdict, (":opts=" + "+".join(rest)) if rest else "")
    return "header:%s:%s:%s%s%s" % (ev.get("k"), mut, ev.get("verdict"), ":skip_pow" if ev.get("skip") else "",
                                    (":opts=" + "+".join(rest)) if rest else "")


def diff_sig(ev):
    if ev is None:
        return "difficulty:trace:eof"
    k = ev.get("k")
    if k == "GraphWeight":
        # difficulty:graph_weight:<chain type>:eb<edge bits>:<before | during-or-after the C31 phase-out start>
        return "difficulty:graph_weight:%s:eb%s:%s" % (ev.get("ct"), ev.get("eb"), "from_year1" if ev.get("h", 0) >= 524160 else "before_year1")
    if k == "Version":
        return "difficulty:header_version:%s:returned_v%s" % (ev.get("ct"), ev.get("ret"))
    if k == "Params":
        return "difficulty:chain_params:%s" % ev.get("ct")
    if k == "PowDiff":
        return "difficulty:to_difficulty:%s:%s:%s" % (ev.get("ct"), "secondary" if ev.get("eb") == 29 else "primary", ev.get("src", "?"))
    return "difficulty:trace:%s:%s:len%s" % (ev.get("ct"), ev.get("src", "?"), "<61" if len(ev.get("w", [])) < 61 else ">=61")


def wire_plans(wd):
    """Direction A for the wire-entry layer: TLC (MC_Header_wire) checks WireDecided / WireEntryDecided on short
    chains and emits the plans wrapping x timestamp class x (valid | other mutation) the harness executes."""
    r = vlib.tlc("mc/MC_Header", "mc/MC_Header_wire", workers=1, coverage=False, timeout=1500)
    if r.invariant_violated:
        print(r.out[-3000:])
        raise ToolError("Header.tla invariant %s violated inside the model (MC_Header_wire)" % r.invariant_violated)
    vlib.tlc_ok(r, "MC_Header_wire")
    plans = sorted((json.loads(x) for x in r.printed("WPLAN")), key=lambda p_: (p_["mut"] != "valid", p_["mut"], p_["w"], p_["tsc"]))   # the otherwise valid header first
    if len(plans) < 4 * 6 * 2 or len({p_["w"] for p_ in plans}) != 4 or len({p_["tsc"] for p_ in plans}) != 6:
        raise ToolError("MC_Header_wire emitted %d plans" % len(plans))
    pp = os.path.join(wd, "wplans.ndjson")
    vlib.write_ndjson(pp, plans)
    return pp, plans, r


def run_chain(wd, name, seed, length, sync=1, wplans=None):
    d = os.path.join(wd, name)
    os.makedirs(d, exist_ok=True)
    tp = os.path.join(d, "trace.ndjson")
    dp = os.path.join(d, "dtrace.ndjson")
    p = vlib.harness(["header", "chain", "--dir", os.path.join(d, "chains"), "--out", tp, "--diffout", dp,
                      "--seed", seed, "--len", length, "--sync", sync] + (["--wplans", wplans] if wplans else []), timeout=1500)
    info = json.loads(p.stdout.strip().splitlines()[-1])
    info["seed"], info["len"] = seed, length
    shutil.rmtree(os.path.join(d, "chains"), ignore_errors=True)
    return tp, dp, info


def check_body_sync(rep, info):
    """Every honest block was handed to the second node by body sync (Options::SYNC, partly through the
    orphan pool): it must hold all of them and be at the honest chain's height and total work."""
    if info.get("body_synced", 0) > 0 and not info["body_head_ok"]:
        rep.violation("header:BodySync:honest:not_on_honest_chain:opts=SYNC",
                      {"kind": "chain", "seed": info["seed"], "len": info["len"], "event_index": None, "event": None},
                      "after header sync + body sync of all %d honest blocks the node is not on the honest chain" % info["body_synced"])


def check_chain_trace(rep, tp, seed, length, what):
    ok, r, d, ev = validate("HeaderTrace", tp, what)
    if not ok:
        rep.violation(header_sig(ev), {"kind": "chain", "seed": seed, "len": length, "event_index": d, "event": ev},
                      "real verdict differs from Header.tla at event %s: %s" % (d, json.dumps(ev)[:600]))
    return ok


def check_diff_trace(rep, dp, case, what):
    ok, r, d, ev = validate("DifficultyTrace", dp, what)
    if not ok:
        c = dict(case)
        c.update({"event_index": d, "event": ev})
        fn = {"GraphWeight": "graph_weight", "Version": "header_version / valid_header_version", "Params": "a global.rs chain constant",
              "PowDiff": "ProofOfWork::to_difficulty"}.get((ev or {}).get("k"), "next_difficulty")
        rep.violation(diff_sig(ev), c, "%s differs from Difficulty.tla at event %s: %s" % (fn, d, json.dumps(ev)[:400]))
    return ok


def replay_dcases(rep, wd, cases, tag):
    cp = os.path.join(wd, "dcases_%s.ndjson" % tag)
    vlib.write_ndjson(cp, cases)
    outp = os.path.join(wd, "dreplay_%s.ndjson" % tag)
    p = vlib.harness(["header", "diff-replay", "--cases", cp, "--out", outp])
    info = json.loads(p.stdout.strip().splitlines()[-1])
    seen = set()
    for mm in vlib.read_ndjson(outp):
        c = mm["case"]
        algo = "wtema" if c["v"] >= 5 else ("dma:padded" if c["n"] < 61 else "dma:full")
        sig = "difficulty:replay:%s:%s:%s" % (c["ct"], mm["what"], algo)
        if sig in seen:      # one replay file per distinct signature
            continue
        seen.add(sig)
        rep.violation(sig, {"kind": "dcase", "case": c, "expected": mm["expected"], "observed": mm["observed"]}, json.dumps(mm)[:500])
    return info


def run(tier, replay):
    rep = Report(PID, tier, "model_checking")
    wd = vlib.workdir(PID, clean=True)
    thorough = tier == "thorough"
    seed = vlib.seed()

    if replay:
        obj = json.load(open(replay))
        case = obj["case"]
        kind = case.get("kind")
        if kind == "dcase":
            replay_dcases(rep, wd, [case["case"]], "replay")
        elif kind == "chain":
            tp, dp, info = run_chain(wd, "replay", case["seed"], case["len"], wplans=wire_plans(wd)[0])
            check_chain_trace(rep, tp, case["seed"], case["len"], "replay")
            check_body_sync(rep, info)
            check_diff_trace(rep, dp, {"kind": "chain", "seed": case["seed"], "len": case["len"]}, "replay")
        elif kind == "crecord":
            cp = os.path.join(wd, "const.ndjson")
            vlib.harness(["header", "const-record", "--out", cp, "--seed", case["seed"], "--n", case["n"]])
            check_diff_trace(rep, cp, {"kind": "crecord", "seed": case["seed"], "n": case["n"]}, "replay")
        elif kind == "srecord":
            sp = os.path.join(wd, "store.ndjson")
            vlib.harness(["header", "store-record", "--dir", os.path.join(wd, "stores"), "--out", sp, "--seed", case["seed"]])
            check_diff_trace(rep, sp, {"kind": "srecord", "seed": case["seed"]}, "replay")
        elif kind == "drecord":
            dp = os.path.join(wd, "drand.ndjson")
            vlib.harness(["header", "diff-record", "--out", dp, "--seed", case["seed"], "--n", case["n"]])
            check_diff_trace(rep, dp, {"kind": "drecord", "seed": case["seed"], "n": case["n"]}, "replay")
        else:
            raise ToolError("unknown replay kind %r" % kind)
        rep.coverage = {"states": 1, "transitions": 1, "traces_validated_against_impl": 1, "samples": [obj["signature"]]}
        return rep.finish()

    # ---- (B) the real code runs while TLC works on the models: record now, validate below ----
    length = 30 if thorough else 16
    nrand = 3000 if thorough else 600
    nconst = 1500 if thorough else 300
    recorded = {}
    wpp, wplans, wr = wire_plans(wd)

    def record():
        try:
            recorded["chain"] = run_chain(wd, "chain0", seed, length, wplans=wpp)
            if thorough:
                recorded["chain1"] = run_chain(wd, "chain1", seed + 1000003, 70, sync=1)
                recorded["chain2"] = run_chain(wd, "chain2", seed + 2000003, 16, sync=1, wplans=wpp)
            dp = os.path.join(wd, "drand.ndjson")
            p = vlib.harness(["header", "diff-record", "--out", dp, "--seed", seed, "--n", nrand])
            recorded["drand"] = (dp, json.loads(p.stdout.strip().splitlines()[-1]))
            cp = os.path.join(wd, "const.ndjson")
            p = vlib.harness(["header", "const-record", "--out", cp, "--seed", seed, "--n", nconst])
            recorded["const"] = (cp, json.loads(p.stdout.strip().splitlines()[-1]))
            sp = os.path.join(wd, "store.ndjson")
            p = vlib.harness(["header", "store-record", "--dir", os.path.join(wd, "stores"), "--out", sp, "--seed", seed])
            recorded["store"] = (sp, json.loads(p.stdout.strip().splitlines()[-1]))
            shutil.rmtree(os.path.join(wd, "stores"), ignore_errors=True)
        except BaseException as e:  # re-raised in the main thread
            recorded["error"] = e

    th = threading.Thread(target=record)
    th.start()

    # ---- (M) Header.tla: all honest chains x every single-field mutation ----
    states, trans = wr.distinct, wr.generated
    hcfgs = ["mc/MC_Header_thorough", "mc/MC_Header_thorough3"] if thorough else ["mc/MC_Header", "mc/MC_Header_short"]
    hstats = {"mc/MC_Header_wire": {"states": wr.distinct, "depth": wr.depth, "wall_s": round(wr.wall, 1), "plans": len(wplans)}}
    for cfg in hcfgs:
        r = vlib.tlc("mc/MC_Header", cfg, workers=4, coverage=False, timeout=3000)
        if r.invariant_violated:
            print(r.out[-3000:])
            raise ToolError("Header.tla invariant %s violated inside the model (%s)" % (r.invariant_violated, cfg))
        vlib.tlc_ok(r, cfg)
        if r.depth is None or r.depth < 11:
            raise ToolError("MC_Header did not reach the chains it is meant to enumerate (%s)" % cfg)
        hstats[cfg] = {"states": r.distinct, "depth": r.depth, "wall_s": round(r.wall, 1)}
        states += r.distinct
        trans += r.generated

    # ---- (M + A) Difficulty.tla: retarget properties on every enumerated window; the same
    #      windows with the specification's value are replayed on the real next_difficulty ----
    dcfg = "mc/MC_Difficulty_thorough" if thorough else "mc/MC_Difficulty"
    r = vlib.tlc("mc/MC_Difficulty", dcfg, workers=4, coverage=False, timeout=3000)
    if r.invariant_violated:
        print(r.out[-3000:])
        raise ToolError("Difficulty.tla invariant %s violated inside the model" % r.invariant_violated)
    vlib.tlc_ok(r, dcfg)
    states += r.distinct
    trans += r.generated
    dstat = {"config": dcfg, "states": r.distinct, "wall_s": round(r.wall, 1)}
    cases = [json.loads(x) for x in r.printed("DCASE")]
    if len(cases) < 1000 or len(cases) < r.distinct - 1000:
        raise ToolError("too few difficulty cases emitted (%d of %d states)" % (len(cases), r.distinct))
    dinfo = replay_dcases(rep, wd, cases, "mc")
    if dinfo["compared"] < 1000 or dinfo["wtema"] == 0 or dinfo["dma_padded"] == 0 or dinfo["dma"] == dinfo["dma_padded"]:
        raise ToolError("difficulty replay is vacuous: %s" % dinfo)

    th.join()
    if "error" in recorded:
        raise recorded["error"]

    # ---- (B) validate the recorded executions ----
    chains = [k for k in ("chain", "chain1", "chain2") if k in recorded]
    infos = {}
    all_d = os.path.join(wd, "dall.ndjson")
    with open(all_d, "w") as f:
        f.write(open(recorded["drand"][0]).read())
    ntr = 0
    for k in chains:
        tp, dp, info = recorded[k]
        infos[k] = info
        s = {"chain": seed, "chain1": seed + 1000003, "chain2": seed + 2000003}[k]
        ln = {"chain": length, "chain1": 70, "chain2": 16}[k]
        ok = check_chain_trace(rep, tp, s, ln, k)
        if ok:
            check_body_sync(rep, info)
        ntr += 1
        # chain-derived difficulty events are validated on their own so that the replay re-runs the chain
        check_diff_trace(rep, dp, {"kind": "chain", "seed": s, "len": ln}, k)
        ntr += 1
    check_diff_trace(rep, recorded["drand"][0], {"kind": "drecord", "seed": seed, "n": nrand}, "random windows")
    ntr += 1
    # graph_weight / header_version / chain constants / to_difficulty on the four chain types
    check_diff_trace(rep, recorded["const"][0], {"kind": "crecord", "seed": seed, "n": nconst}, "consensus functions")
    ntr += 1
    # store::DifficultyIter over written headers (secondary and primary mixed, more than a window deep)
    check_diff_trace(rep, recorded["store"][0], {"kind": "srecord", "seed": seed}, "store-backed windows")
    ntr += 1
    sinfo = recorded["store"][1]
    if sinfo["windows_ge61"] < 50 or sinfo["windows_lt61"] < 50 or sinfo["windows_mixing_secondary_and_primary"] < 100:
        raise ToolError("store-record is vacuous: %s" % sinfo)
    cinfo = recorded["const"][1]
    if min(cinfo["version"], cinfo["graph_weight"], cinfo["pow_diff"]) < 400 or cinfo["pow_diff_out_of_range"] * 10 > cinfo["pow_diff"]:
        raise ToolError("const-record is vacuous: %s" % cinfo)

    main = infos["chain"]
    by = main["by_mutation"]
    # anti-vacuity of the scenario itself (tool problem, never a verdict)
    if main["height"] >= length and not rep.violations:
        need = ["ts_equal", "ts_next", "total_plus1", "scaling_plus1", "prev_root_bad", "version_plus", "nonce_stale",
                "proof_tampered", "proof_forged", "edge_bits_below", "edge_bits_up", "outputs_none", "too_heavy", "ts_future",
                "honest"]
        missing = [m for m in need if m not in by]
        if missing:
            raise ToolError("scenario delivered no mutation of class %s" % missing)
        if main["pow_low_found"] == 0 or main["pow_exact_found"] == 0 or main["max_target"] <= 20:
            raise ToolError("scenario never exercised the proof-of-work target clause: %s" %
                            {k: main[k] for k in ("pow_low_found", "pow_exact_found", "max_target")})
        # every entry point must have been driven with every option set the node uses, each with
        # accepted and refused headers, and with headers whose only defect is the cycle
        byo = main["by_options_accept_reject_orphan"]
        paths = ["Header:NONE", "Sync:NONE", "Sync:SYNC", "Block:NONE", "Block:SYNC", "Block:MINE"]
        thin = [p_ for p_ in paths if p_ not in byo or byo[p_][0] == 0 or byo[p_][1] == 0
                or main["forged_by_path"].get(p_, 0) == 0]
        if thin:
            raise ToolError("scenario did not drive %s with accepted, refused and forged-proof headers: %s" % (thin, byo))
        # every wrapping must have delivered an otherwise valid header that was taken (time-stamped the
        # node's clock) and one that was refused (far beyond the limit); the classes next to the limit
        # are run too but not required here (they depend on the wall clock staying within the margin)
        wv = main["wire_valid_accept_reject"]
        thinw = [w_ for w_ in ("Header", "Headers", "Block", "CompactBlock")
                 if wv.get(w_ + ":now", [0, 0])[0] == 0 or wv.get(w_ + ":far", [0, 0])[1] == 0]
        if thinw or main["wire_plans_run"] < len(wplans):
            raise ToolError("wire plans not exercised for %s: %s run, %s" % (thinw, main["wire_plans_run"], wv))
        # the side branch: three headers deep, its retarget differing from the trunk's at the same height,
        # every branch header taken, the one claiming the trunk's difficulty refused
        if main["fork_len"] != 3 or main["fork_targets_differ"] == 0 or by.get("fork_honest", [0, 0])[0] < 4 \
                or by.get("fork_trunk_difficulty", [0, 0])[1] == 0 or "fork_total_plus1" not in by:
            raise ToolError("side branch not exercised: %s" % {k: main[k] for k in ("fork_len", "fork_targets_differ", "fork_targets")})
        if main["pow_diff_events"] < main["height"]:
            raise ToolError("no to_difficulty events along the chain: %s" % main["pow_diff_events"])
        if byo["Block:SYNC"][2] == 0 or main["body_synced"] < length:
            raise ToolError("body sync never went through the orphan pool: %s" % byo["Block:SYNC"])

    sample_events = vlib.read_ndjson(recorded["chain"][0])
    sample = [e for e in sample_events if e.get("mut") in ("pow_low", "ts_equal")][:2] + \
        [e for e in sample_events if e.get("k") == "Wire" and e.get("w") == "CompactBlock" and e.get("tsc") == "far"][:1]
    rep.coverage = {
        "states": states, "transitions": trans,
        "traces_validated_against_impl": ntr + dinfo["compared"],
        "samples": [{"difficulty_case": cases[len(cases) // 2]}, {"header_events": sample}],
        "exhaustive": True,
        "model": {"header": hstats, "difficulty": dstat},
        "difficulty_replay": dinfo,
        "difficulty_trace_events": recorded["drand"][1]["events"] + sum(infos[k]["diff_events"] for k in chains),
        "consensus_function_events": cinfo,
        "store_backed_windows": sinfo,
        "to_difficulty_events_along_chains": sum(infos[k]["pow_diff_events"] for k in chains),
        "side_branch": {k: {kk: infos[k][kk] for kk in ("fork_len", "fork_targets_differ", "fork_targets")} for k in chains},
        "header_trace": {k: {kk: infos[k][kk] for kk in ("events", "height", "delivered", "accepted", "max_target",
                                                          "pow_exact_found", "pow_low_found", "sync_chunks", "forged_found",
                                                          "body_synced", "body_head_ok")} for k in chains},
        "wire": {"plans_generated_by_tlc": len(wplans), "plans_executed": main["wire_plans_run"], "rebuilt_for_clock": main["wire_retries"],
                 "valid_header_by_wrapping_and_timestamp_class_accept_reject": main["wire_valid_accept_reject"],
                 "limit_plus_margin_s": 20},
        "deliveries_by_entry_point_and_options_accept_reject_orphan": main["by_options_accept_reject_orphan"],
        "forged_proof_deliveries_by_path": main["forged_by_path"],
        "verdicts_by_mutation_accept_reject": by,
        "checker_cmd": "tlc mc/MC_Header; tlc mc/MC_Difficulty; tlc trace/HeaderTrace; tlc trace/DifficultyTrace",
    }
    rep.assumptions = [
        "cycle verification (pow::verify_size), the blake2b header hash and the header-MMR root are primitives: the trace carries "
        "powValid / rootOK flags measured with them (C05, C07 cover them); powDiff is measured with to_difficulty, and every such "
        "value (each header of the chains, random proofs on the four chain types) is bound to Difficulty.tla's ProofDifficultyOK "
        "through an own packing + blake2b of the nonces: the quotient is decided from the longest hash prefix (<= 30 bits) whose "
        "product with the scale fits 32 bits, so the value is free inside that bracket (exact for almost every AutomatedTesting "
        "header; one part in 2^k for large mainnet weights) and quotients >= 2*10^9 are not compared",
        "TLC integers are 32-bit: windows with sum(difficulty)*60 >= 2^31, scaling sum*90 >= 2^31, WTEMA difficulty > 149130 "
        "or timestamps >= 2^31 are not covered",
        "options: every entry point is driven with NONE / SYNC / MINE (what servers/src passes) and SKIP_POW combinations; "
        "Header.tla gives SYNC and MINE no meaning (MC_Header!OptionsIrrelevant), so any dependence of the real verdict on them "
        "is a mismatch; the orphan pool is observed through the Orphan result and the final chain only",
        "wire layer: the four wrappings are read with the real Untrusted* readers (ser::deserialize, ProtocolVersion::local) and "
        "handed to the pipeline call of servers/src/common/adapters.rs re-enacted by the harness (the adapter itself, the p2p codec "
        "framing - C19 - and compact blocks with kernel ids are not run); the future-time limit is relative to the wall clock: the "
        "reader's clock is bracketed by whole-second readings before/after the read and either bracket end may decide; accept-side "
        "classes are built at limit-1s and limit exactly, the reject-side class next to the limit 20 s beyond it (and 2 h beyond)",
        "real-PoW chains run under AutomatedTesting only (cuckatoo, edge_bits 10, proof size 8); Mainnet/Testnet/UserTesting "
        "constants are bound through the pure function next_difficulty and the model only",
        "next_difficulty outside its domain (empty window; fewer than 2 headers for WTEMA) panics and is left free: no header "
        "of a chain has such a window",
        "block bodies are coinbase-only; body validation is out of scope (bodyOK flag)",
    ]
    return rep.finish()
