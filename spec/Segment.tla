------------------------------ MODULE Segment ------------------------------
(***************************************************************************)
(* C16, component level: a SEGMENT of an MMR (core/src/core/pmmr/segment.rs)*)
(* produced from a store in any prune / compaction state must validate      *)
(* against the definitional MMR root of MMR.tla, and every single           *)
(* corruption of a part its reconstruction depends on must be refused.      *)
(*                                                                         *)
(* This module is an ORACLE and CASE GENERATOR (no interesting behaviour):  *)
(*   * a source state  s = [nl, rm, comp, late]  over the explicit forest   *)
(*     of MMR.tla with nl leaves: rm = leaves spent at the archive header   *)
(*     (the complement of the unspent bitmap), comp <= rm = spent leaves a  *)
(*     compaction has processed (PMMRBackend usage protocol: pruned         *)
(*     subtrees = maximal subtrees all of whose leaves are in comp; only    *)
(*     their ROOT keeps its hash, and a height-0 root keeps its data),      *)
(*     late = leaves spent after the archive header (absent from the        *)
(*     source's leaf_set, present in the bitmap);                           *)
(*   * FromPMMR      - transcription of Segment::from_pmmr +                *)
(*                     SegmentProof::generate (what the producer includes); *)
(*   * SegRoot, FirstUnprunedParent, ReconstructRoot, Validate -            *)
(*     transcriptions of Segment::root / first_unpruned_parent /            *)
(*     SegmentProof::reconstruct_root / validate / validate_with;           *)
(*   * Corruptions   - single-element corruptions of a segment;             *)
(*   * DependsOn     - DECLARATIVE definition (not derived from the         *)
(*                     transcription) of the parts the root depends on.     *)
(* Hashes are the symbolic injective terms of MMR.tla.  Positions 0-based   *)
(* as in the code unless a name ends in 1.  Leaf indices are 0-based        *)
(* insertion indices; the data of leaf i is i.                              *)
(***************************************************************************)
EXTENDS Naturals, Integers, Sequences, FiniteSets, TLC

CONSTANT MaxLeaves

M == INSTANCE MMR WITH m <- <<>>, TermLeaves <- MaxLeaves

Forest[n \in 0..MaxLeaves] == IF n = 0 THEN M!Empty ELSE M!AppendLeaf(Forest[n-1])

N(idx, l, r) == M!NodeTerm(idx, l, r)
L(pos, d)    == M!LeafTerm(pos, d)
Junk         == <<"J">>

Pow2(k)   == M!Pow2(k)
IsLeaf(p) == M!IsLeafC(p)
I2P(n)    == M!InsertionToPmmrIndexC(n)
SizeOf(nl) == I2P(nl)                       \* MMR size with nl leaves
LeafIdx(p) == M!NLeavesC(p + 1) - 1         \* pmmr::n_leaves(pos0 + 1) - 1
LeavesUnder(p) == LeafIdx(M!LeftmostC(p)) .. LeafIdx(M!RightmostC(p))

MinOf(S) == CHOOSE x \in S : \A y \in S : x <= y
RECURSIVE SortedSeq(_)
SortedSeq(S) == IF S = {} THEN <<>> ELSE LET x == MinOf(S) IN <<x>> \o SortedSeq(S \ {x})
DropAt(sq, k) == SubSeq(sq, 1, k-1) \o SubSeq(sq, k+1, Len(sq))
Rev(sq) == [i \in 1..Len(sq) |-> sq[Len(sq) + 1 - i]]

Opt(t) == [some |-> TRUE, v |-> t]
NoneV  == [some |-> FALSE, v |-> <<>>]

-----------------------------------------------------------------------------
(* The source: store/src/pmmr.rs seen through ReadonlyPMMR::at(backend, size) *)

F(s)        == Forest[s.nl]
ParOf(s, p) == F(s).par[p+1]
Pruned(s, p)     == LeavesUnder(p) \subseteq s.comp
PrunedRoot(s, p) == Pruned(s, p) /\ (ParOf(s, p) = -1 \/ ~Pruned(s, ParOf(s, p)))
Compacted(s, p)  == Pruned(s, p) /\ ~PrunedRoot(s, p)          \* is_compacted
HashTerm(s, p)   == F(s).tm[p+1]
InLeafSet(s, p)  == LeafIdx(p) \notin (s.rm \cup s.late)
\* ReadonlyPMMR::get_hash: leaves through the leaf_set, inner nodes from the file
PmmrGetHash(s, p) == IF IsLeaf(p) THEN InLeafSet(s, p) /\ ~Compacted(s, p) ELSE ~Compacted(s, p)
Unspent(s) == (0..(s.nl - 1)) \ s.rm                             \* the bitmap at the archive header
RootTerm(s) == M!RootTerm(F(s))

-----------------------------------------------------------------------------
(* SegmentIdentifier *)

Cap(h) == Pow2(h)
USize(h, idx, nl) == LET off == idx * Cap(h) IN
                     IF nl <= off THEN 0 ELSE IF nl - off < Cap(h) THEN nl - off ELSE Cap(h)
FullSeg(h, idx, nl) == USize(h, idx, nl) = Cap(h)
FirstPos(h, idx)    == I2P(idx * Cap(h))
LastPos(h, idx, nl) == IF FullSeg(h, idx, nl) THEN I2P(idx * Cap(h) + Cap(h) - 1) + h ELSE SizeOf(nl) - 1
NumSegs(h, nl)      == (nl + Cap(h) - 1) \div Cap(h)

-----------------------------------------------------------------------------
(* Producer: Segment::from_pmmr(id, pmmr, prunable) and SegmentProof::generate *)

FromPMMR(s, h, idx, prunable) ==
  LET nl   == s.nl
      size == SizeOf(nl)
  IN IF USize(h, idx, nl) = 0 THEN [ok |-> FALSE, err |-> "NonExistent"]
     ELSE
     LET first == FirstPos(h, idx)
         last  == LastPos(h, idx, nl)
         rng   == first..last
         leafPs  == {p \in rng : IsLeaf(p) /\ ~Compacted(s, p)}
         missLeaf == ~prunable /\ \E p \in rng : IsLeaf(p) /\ Compacted(s, p)
         hashPs0 == IF prunable THEN {p \in rng : ~IsLeaf(p) /\ ~Compacted(s, p)} ELSE {}
         fb    == M!FamilyBranchC(last, size)
         empty == leafPs = {} /\ hashPs0 = {}
         ks    == {k \in 1..Len(fb) : ~Compacted(s, fb[k][1])}
         k0    == IF empty /\ ks # {} THEN MinOf(ks) ELSE 0
         hashPs == IF k0 > 0 THEN {fb[k0][1]} ELSE hashPs0
         start1 == IF k0 > 0 THEN 1 + fb[k0][1] ELSE 0           \* Option<u64> start_pos, 0 = None
         \* 1. siblings along the path from the (unpruned) subtree root to the peak
         sibK  == SortedSeq({k \in 1..Len(fb) : fb[k][1] >= start1})
         sibsOK == \A i \in 1..Len(sibK) : PmmrGetHash(s, fb[sibK[i]][2])
         \* 2. bagged peaks to the right
         peakPos == IF Len(fb) > 0 THEN fb[Len(fb)][1] ELSE last
         pk    == F(s).pk
         pkT   == [i \in 1..Len(pk) |-> HashTerm(s, pk[i])]
         rhsI  == {i \in 1..Len(pk) : pk[i] > peakPos}
         \* 3. peaks to the left, nearest first
         lefts == Rev(SortedSeq({p \in {pk[i] : i \in 1..Len(pk)} : p < first}))
         leftsOK == \A i \in 1..Len(lefts) : PmmrGetHash(s, lefts[i])
         lp == SortedSeq(leafPs)
         hp == SortedSeq(hashPs)
     IN IF missLeaf THEN [ok |-> FALSE, err |-> "MissingLeaf"]
        ELSE IF ~sibsOK \/ ~leftsOK THEN [ok |-> FALSE, err |-> "MissingHash"]
        ELSE [ok |-> TRUE, err |-> "",
              h |-> h, idx |-> idx,
              leaf_pos  |-> lp,
              leaf_data |-> [i \in 1..Len(lp) |-> LeafIdx(lp[i])],
              hash_pos  |-> hp,
              hashes    |-> [i \in 1..Len(hp) |-> HashTerm(s, hp[i])],
              proof     |-> [i \in 1..Len(sibK) |-> HashTerm(s, fb[sibK[i]][2])]
                            \o (IF rhsI = {} THEN <<>> ELSE <<M!BagRight(pkT, MinOf(rhsI), size)>>)
                            \o [i \in 1..Len(lefts) |-> HashTerm(s, lefts[i])],
              \* the same proof by reference (for the harness): node position, or the bag of peaks from a position on
              proof_ref |-> [i \in 1..Len(sibK) |-> <<"P", fb[sibK[i]][2]>>]
                            \o (IF rhsI = {} THEN <<>> ELSE <<<<"B", pk[MinOf(rhsI)]>>>>)
                            \o [i \in 1..Len(lefts) |-> <<"P", lefts[i]>>]]

-----------------------------------------------------------------------------
(* Consumer: Segment::root.  bm = [none |-> BOOLEAN, set |-> unspent leaf indices] *)

SegGetHash(seg, p) ==
  LET ks == {k \in 1..Len(seg.hash_pos) : seg.hash_pos[k] = p}
  IN IF ks = {} THEN NoneV ELSE Opt(seg.hashes[MinOf(ks)])

LeafRequired(bm, pos, size) ==
  LET idx1 == M!NLeavesC(pos + 1) - 1
      idx2 == IF M!IsLeftSiblingC(pos) THEN idx1 + 1 ELSE idx1 - 1
  IN bm.none \/ idx1 \in bm.set \/ idx2 \in bm.set \/ pos = size - 1

Fail == [ok |-> FALSE, stack |-> <<>>]

RECURSIVE RootLoop(_, _, _, _, _, _, _)
\* positions pos..last in order with the code's stack of Option<Hash> and its consuming leaf iterator (ptr)
RootLoop(seg, size, bm, pos, last, stack, ptr) ==
  IF pos > last THEN [ok |-> TRUE, stack |-> stack]
  ELSE LET ht == M!HeightC(pos) IN
    IF ht = 0 THEN
      IF LeafRequired(bm, pos, size)
      THEN LET ks == {k \in ptr..Len(seg.leaf_pos) : seg.leaf_pos[k] = pos}
           IN IF ks = {} THEN Fail                                   \* MissingLeaf
              ELSE LET k == MinOf(ks)
                   IN RootLoop(seg, size, bm, pos + 1, last, Append(stack, Opt(L(pos, seg.leaf_data[k]))), k + 1)
      ELSE RootLoop(seg, size, bm, pos + 1, last, Append(stack, NoneV), ptr)
    ELSE
      LET n    == Len(stack)
          r    == stack[n]
          l    == stack[n-1]
          lpos == pos - Pow2(ht)        \* left_child_pos - 1
          rpos == pos - 1               \* right_child_pos - 1
          rest == SubSeq(stack, 1, n - 2)
          lh   == IF l.some THEN l ELSE SegGetHash(seg, lpos)
          rh   == IF r.some THEN r ELSE SegGetHash(seg, rpos)
      IN IF ~bm.none
         THEN IF ~l.some /\ ~r.some THEN RootLoop(seg, size, bm, pos + 1, last, Append(rest, NoneV), ptr)
              ELSE IF ~lh.some \/ ~rh.some THEN Fail                 \* MissingHash
              ELSE RootLoop(seg, size, bm, pos + 1, last, Append(rest, Opt(N(pos, lh.v, rh.v))), ptr)
         ELSE IF ~l.some \/ ~r.some THEN Fail
              ELSE RootLoop(seg, size, bm, pos + 1, last, Append(rest, Opt(N(pos, l.v, r.v))), ptr)

RECURSIVE BagSegPeaks(_, _, _, _, _, _)
\* not-full (final) segment: bag the peaks inside the segment right to left
BagSegPeaks(seg, bm, size, pks, stack, acc) ==
  IF pks = <<>> THEN [ok |-> TRUE, opt |-> acc]
  ELSE IF stack = <<>> THEN [ok |-> FALSE, opt |-> NoneV]
  ELSE LET top == stack[Len(stack)]
           lh  == IF ~top.some /\ ~bm.none THEN SegGetHash(seg, Head(pks)) ELSE top
       IN IF ~lh.some THEN [ok |-> FALSE, opt |-> NoneV]
          ELSE BagSegPeaks(seg, bm, size, Tail(pks), SubSeq(stack, 1, Len(stack) - 1),
                           IF acc.some THEN Opt(N(size, lh.v, acc.v)) ELSE lh)

\* [ok, opt]: ok = FALSE is Err(..); opt = NoneV is Ok(None)
SegRoot(seg, nl, bm) ==
  LET size  == SizeOf(nl)
      first == FirstPos(seg.h, seg.idx)
      last  == LastPos(seg.h, seg.idx, nl)
      lp    == RootLoop(seg, size, bm, first, last, <<>>, 1)
  IN IF ~lp.ok THEN [ok |-> FALSE, opt |-> NoneV]
     ELSE IF FullSeg(seg.h, seg.idx, nl)
          THEN [ok |-> TRUE, opt |-> lp.stack[Len(lp.stack)]]      \* a full segment has >= 1 position
          ELSE LET pk  == M!PeaksC(size)
                   in_ == Rev(SortedSeq({p \in {pk[i] : i \in 1..Len(pk)} : p >= first /\ p <= last}))
               IN IF in_ = <<>> THEN [ok |-> FALSE, opt |-> NoneV]   \* identifier beyond the MMR: Err(NonExistent)
                                                                      \* (used to be hash.unwrap() on None: a panic; repaired)
                  ELSE BagSegPeaks(seg, bm, size, in_, lp.stack, NoneV)

RECURSIVE FUPLoop(_, _, _, _, _, _)
FUPLoop(seg, nl, bm, pos0, fb, k) ==
  LET hh == SegGetHash(seg, pos0) IN
  IF hh.some THEN [ok |-> TRUE, v |-> hh.v, pos1 |-> 1 + pos0]
  ELSE IF k > Len(fb) THEN [ok |-> FALSE, v |-> <<>>, pos1 |-> 0]
  ELSE LET p0 == fb[k][1]
           lo == M!NLeavesC(1 + M!LeftmostC(p0)) - 1
           hr == M!NLeavesC(1 + M!RightmostC(p0))
           hi == IF hr < nl THEN hr ELSE nl
           card == Cardinality(bm.set \cap (lo..(hi - 1)))
       IN IF card = 0 THEN FUPLoop(seg, nl, bm, p0, fb, k + 1)
          ELSE [ok |-> FALSE, v |-> <<>>, pos1 |-> 0]

FirstUnprunedParent(seg, nl, bm) ==
  LET r    == SegRoot(seg, nl, bm)
      last == LastPos(seg.h, seg.idx, nl)
  IN IF ~r.ok THEN [ok |-> FALSE, v |-> <<>>, pos1 |-> 0]
     ELSE IF r.opt.some THEN [ok |-> TRUE, v |-> r.opt.v, pos1 |-> 1 + last]
     ELSE FUPLoop(seg, nl, bm, last, M!FamilyBranchC(last, SizeOf(nl)), 1)

-----------------------------------------------------------------------------
(* SegmentProof::reconstruct_root *)

RECURSIVE RecSibs(_, _, _, _, _)
\* ks: indices into fb still to be climbed; returns [ok, v, rest (unused proof hashes)]
RecSibs(fb, ks, root, proof, dummy) ==
  IF ks = <<>> THEN [ok |-> TRUE, v |-> root, rest |-> proof]
  ELSE IF proof = <<>> THEN [ok |-> FALSE, v |-> <<>>, rest |-> <<>>]
  ELSE LET p0 == fb[Head(ks)][1]
           s0 == fb[Head(ks)][2]
           nr == IF M!IsLeftSiblingC(s0) THEN N(p0, Head(proof), root) ELSE N(p0, root, Head(proof))
       IN RecSibs(fb, Tail(ks), nr, Tail(proof), dummy)

RECURSIVE RecLefts(_, _, _, _)
RecLefts(n, root, proof, size) ==
  IF n = 0 THEN [ok |-> TRUE, v |-> root]
  ELSE IF proof = <<>> THEN [ok |-> FALSE, v |-> <<>>]
  ELSE RecLefts(n - 1, N(size, Head(proof), root), Tail(proof), size)

ReconstructRoot(proof, nl, first, last, segRoot, unpruned1) ==
  LET size == SizeOf(nl)
      fb   == M!FamilyBranchC(last, size)
      ks   == SortedSeq({k \in 1..Len(fb) : fb[k][1] >= unpruned1})
      a    == RecSibs(fb, ks, segRoot, proof, 0)
      peakPos == IF Len(fb) > 0 THEN fb[Len(fb)][1] ELSE last
      pk   == M!PeaksC(size)
      hasRhs == \E i \in 1..Len(pk) : pk[i] > peakPos
      nLeft  == Cardinality({i \in 1..Len(pk) : pk[i] < first})
  IN IF ~a.ok THEN [ok |-> FALSE, v |-> <<>>]
     ELSE IF hasRhs /\ a.rest = <<>> THEN [ok |-> FALSE, v |-> <<>>]
     ELSE LET b  == IF hasRhs THEN N(size, a.v, Head(a.rest)) ELSE a.v
              rs == IF hasRhs THEN Tail(a.rest) ELSE a.rest
          IN RecLefts(nLeft, b, rs, size)

\* with = [none |-> TRUE] or [none |-> FALSE, pos, other, left]  (validate / validate_with)
NoWith == [none |-> TRUE, pos |-> 0, other |-> <<>>, left |-> FALSE]
Validate(seg, nl, bm, mmrRoot, with) ==
  LET fup == FirstUnprunedParent(seg, nl, bm) IN
  IF ~fup.ok THEN FALSE
  ELSE LET rr == ReconstructRoot(seg.proof, nl, FirstPos(seg.h, seg.idx), LastPos(seg.h, seg.idx, nl), fup.v, fup.pos1)
       IN IF ~rr.ok THEN FALSE
          ELSE (IF with.none THEN rr.v
                ELSE IF with.left THEN N(with.pos, with.other, rr.v) ELSE N(with.pos, rr.v, with.other)) = mmrRoot

-----------------------------------------------------------------------------
(* Single-element corruptions of a segment.  op = [kind, k, q]              *)

ApplyOp(seg, op) ==
  CASE op.kind = "leaf_data"  -> [seg EXCEPT !.leaf_data[op.k] = @ + 1000]
    [] op.kind = "leaf_pos"   -> [seg EXCEPT !.leaf_pos[op.k] = op.q]
    [] op.kind = "omit_leaf"  -> [seg EXCEPT !.leaf_pos = DropAt(@, op.k), !.leaf_data = DropAt(@, op.k)]
    [] op.kind = "omit_pair"  -> [seg EXCEPT !.leaf_pos = DropAt(DropAt(@, op.k), op.k), !.leaf_data = DropAt(DropAt(@, op.k), op.k)]
    [] op.kind = "hash"       -> [seg EXCEPT !.hashes[op.k] = Junk]
    [] op.kind = "drop_hash"  -> [seg EXCEPT !.hash_pos = DropAt(@, op.k), !.hashes = DropAt(@, op.k)]
    [] op.kind = "proof"      -> [seg EXCEPT !.proof[op.k] = Junk]
    [] op.kind = "drop_proof" -> [seg EXCEPT !.proof = DropAt(@, op.k)]
    [] op.kind = "id_idx"     -> [seg EXCEPT !.idx = op.q]
    [] op.kind = "id_h"       -> [seg EXCEPT !.h = op.q]

\* positions a leaf position may be moved to while the list stays strictly ascending (the wire format
\* and Segment::from_parts both demand it)
PosMoves(seg, k, last) ==
  LET lo == IF k = 1 THEN 0 ELSE seg.leaf_pos[k-1] + 1
      hi == IF k = Len(seg.leaf_pos) THEN last + 1 ELSE seg.leaf_pos[k+1] - 1
  IN {q \in lo..hi : q # seg.leaf_pos[k] /\ (q >= seg.leaf_pos[k] - 2 /\ q <= seg.leaf_pos[k] + 2)}

Ops(seg, nl) ==
  LET last == LastPos(seg.h, seg.idx, nl) IN
  {[kind |-> "leaf_data", k |-> k, q |-> 0] : k \in 1..Len(seg.leaf_pos)}
  \cup UNION {{[kind |-> "leaf_pos", k |-> k, q |-> q] : q \in PosMoves(seg, k, last)} : k \in 1..Len(seg.leaf_pos)}
  \cup {[kind |-> "omit_leaf", k |-> k, q |-> 0] : k \in 1..Len(seg.leaf_pos)}
  \* both leaves of a sibling pair omitted (their parent's hash is among the hashes a producer sends)
  \cup {[kind |-> "omit_pair", k |-> k, q |-> 0] : k \in {j \in 1..(Len(seg.leaf_pos) - 1) :
                  seg.leaf_pos[j+1] = seg.leaf_pos[j] + 1 /\ M!IsLeftSiblingC(seg.leaf_pos[j])}}
  \cup {[kind |-> "hash", k |-> k, q |-> 0] : k \in 1..Len(seg.hash_pos)}
  \cup {[kind |-> "drop_hash", k |-> k, q |-> 0] : k \in 1..Len(seg.hash_pos)}
  \cup {[kind |-> "proof", k |-> k, q |-> 0] : k \in 1..Len(seg.proof)}
  \cup {[kind |-> "drop_proof", k |-> k, q |-> 0] : k \in 1..Len(seg.proof)}
  \cup {[kind |-> "id_idx", k |-> 0, q |-> q] : q \in {seg.idx + 1} \cup (IF seg.idx > 0 THEN {seg.idx - 1} ELSE {})}
  \cup {[kind |-> "id_h", k |-> 0, q |-> q] : q \in {seg.h + 1} \cup (IF seg.h > 0 THEN {seg.h - 1} ELSE {})}

-----------------------------------------------------------------------------
(* What the reconstruction DEPENDS ON, stated declaratively (property text): *)
(* data and position of every leaf the bitmap requires (unspent, sibling of  *)
(* an unspent leaf, or the last position of the MMR; every leaf when there   *)
(* is no bitmap); the hash of every maximal subtree without a required leaf  *)
(* that hangs below a node with one (or is a whole peak of the final         *)
(* segment); for a segment without any required leaf the hash that stands    *)
(* for it; every proof hash.                                                *)

HasReq(bm, p, size) == \E i \in LeavesUnder(p) : LeafRequired(bm, I2P(i), size)

NeededHashPos(s, seg, bm) ==
  LET nl == s.nl
      size  == SizeOf(nl)
      first == FirstPos(seg.h, seg.idx)
      last  == LastPos(seg.h, seg.idx, nl)
      rng   == first..last
      anyReq == \E p \in rng : IsLeaf(p) /\ LeafRequired(bm, p, size)
      chain == <<last>> \o [k \in 1..Len(M!FamilyBranchC(last, size)) |-> M!FamilyBranchC(last, size)[k][1]]
      present == {k \in 1..Len(chain) : \E j \in 1..Len(seg.hash_pos) : seg.hash_pos[j] = chain[k]}
  IN IF bm.none THEN {}
     ELSE IF FullSeg(seg.h, seg.idx, nl) /\ ~anyReq
          THEN (IF present = {} THEN {} ELSE {chain[MinOf(present)]})
          ELSE {p \in rng : /\ ~HasReq(bm, p, size)
                            /\ \/ (ParOf(s, p) # -1 /\ ParOf(s, p) \in rng /\ HasReq(bm, ParOf(s, p), size))
                               \/ (ParOf(s, p) = -1 /\ ~FullSeg(seg.h, seg.idx, nl))}

DependsOn(s, seg, bm, op) ==
  LET size == SizeOf(s.nl) IN
  CASE op.kind \in {"leaf_data", "leaf_pos", "omit_leaf"} -> LeafRequired(bm, seg.leaf_pos[op.k], size)
    [] op.kind = "omit_pair" -> LeafRequired(bm, seg.leaf_pos[op.k], size)     \* siblings are required together
    [] op.kind \in {"hash", "drop_hash"} -> seg.hash_pos[op.k] \in NeededHashPos(s, seg, bm)
    [] op.kind \in {"proof", "drop_proof"} -> TRUE
    [] OTHER -> FALSE

\* number of proof hashes the MMR definition calls for: siblings from the unpruned parent up to
\* its peak, one bagged right-hand side if there are peaks to the right, every peak to the left
ExpectedProofLen(s, seg) ==
  LET nl == s.nl
      size == SizeOf(nl)
      first == FirstPos(seg.h, seg.idx)
      last == LastPos(seg.h, seg.idx, nl)
      fb == M!FamilyBranchC(last, size)
      top == IF Len(seg.leaf_pos) = 0 /\ Len(seg.hash_pos) = 1 /\ seg.hash_pos[1] > last THEN seg.hash_pos[1] ELSE last
      peakPos == IF Len(fb) > 0 THEN fb[Len(fb)][1] ELSE last
      pk == F(s).pk
  IN Cardinality({k \in 1..Len(fb) : fb[k][1] > top})
     + (IF \E i \in 1..Len(pk) : pk[i] > peakPos THEN 1 ELSE 0)
     + Cardinality({i \in 1..Len(pk) : pk[i] < first})

-----------------------------------------------------------------------------
(* Properties of one (source state, identifier) pair *)

BmOf(s, prunable) == IF prunable THEN [none |-> FALSE, set |-> Unspent(s)] ELSE [none |-> TRUE, set |-> {}]

SegOK(s, h, idx, prunable) ==
  LET g  == FromPMMR(s, h, idx, prunable)
      bm == BmOf(s, prunable)
  IN g.ok =>
      /\ Validate(g, s.nl, bm, RootTerm(s), NoWith)                                   \* honest => valid
      /\ Len(g.proof) = ExpectedProofLen(s, g)
      /\ \A op \in Ops(g, s.nl) :
            DependsOn(s, g, bm, op) => ~Validate(ApplyOp(g, op), s.nl, bm, RootTerm(s), NoWith)
      \* validate_with: the extra hashing step binds the other root, its side and the index
      /\ LET w  == [none |-> FALSE, pos |-> SizeOf(s.nl), other |-> <<"O">>, left |-> FALSE]
             wl == [w EXCEPT !.left = TRUE]
         IN /\ Validate(g, s.nl, bm, N(w.pos, RootTerm(s), w.other), w)
            /\ Validate(g, s.nl, bm, N(w.pos, w.other, RootTerm(s)), wl)
            /\ ~Validate(g, s.nl, bm, N(w.pos, w.other, RootTerm(s)), w)
            /\ ~Validate(g, s.nl, bm, N(w.pos, RootTerm(s), Junk), w)
            /\ ~Validate(g, s.nl, bm, N(w.pos + 1, RootTerm(s), w.other), w)
            /\ ~Validate(g, s.nl, bm, RootTerm(s), w)

\* a producer may only refuse for the reasons the code has
ProducerOK(s, h, idx, prunable) ==
  LET g == FromPMMR(s, h, idx, prunable) IN
  /\ (g.err = "NonExistent") = (idx >= NumSegs(h, s.nl))
  /\ (g.err = "MissingHash") => h = 0                \* only a height-0 segment can lack a (leaf) sibling
  /\ (g.err = "MissingLeaf") => ~prunable /\ s.comp # {}

StateOK(s, hs) ==
  \A h \in hs : \A idx \in 0..NumSegs(h, s.nl) :
     /\ SegOK(s, h, idx, TRUE) /\ ProducerOK(s, h, idx, TRUE)
     /\ (s.rm = {} /\ s.late = {}) => (SegOK(s, h, idx, FALSE) /\ ProducerOK(s, h, idx, FALSE))
=============================================================================
