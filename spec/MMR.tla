------------------------------- MODULE MMR -------------------------------
(***************************************************************************)
(* Merkle Mountain Range: the DEFINING CONSTRUCTION (an explicit forest    *)
(* grown by Append) next to a TRANSCRIPTION of the closed-form position    *)
(* arithmetic and of the Merkle-proof verifier of                          *)
(*   core/src/core/pmmr/pmmr.rs, core/src/core/merkle_proof.rs.            *)
(* Positions are 0-based as in the code.  Hashes are symbolic, injective   *)
(* terms: leaf  <<"L", pos, data>>, parent <<"N", pos, l, r>>, and peaks   *)
(* are bagged right-to-left with the MMR size <<"N", size, l, r>>.         *)
(* Property C07 = every closed form equals the construction, honest proofs *)
(* verify and every single corruption of a proof is refused.               *)
(***************************************************************************)
EXTENDS Naturals, Integers, Sequences, FiniteSets

CONSTANTS MaxLeaves,      \* bound on Append
          TermLeaves      \* hash terms / proofs are kept only while nl <= TermLeaves

VARIABLE m
(* m is one record:
     ht  : Seq(Nat)   height of node at pos p is ht[p+1]
     par : Seq(Int)   parent position or -1
     lc, rc : Seq(Int) children or -1 (leaves)
     pk  : Seq(Nat)   current peaks, left to right
     lp  : Seq(Nat)   position of the i-th leaf (1-based index i)
     tm  : Seq(term)  hash term of every node (only while nl <= TermLeaves, else <<>>)
*)
vars == <<m>>

Size(s) == Len(s.ht)
NL(s)   == Len(s.lp)

Empty == [ht |-> <<>>, par |-> <<>>, lc |-> <<>>, rc |-> <<>>, pk |-> <<>>, lp |-> <<>>, tm |-> <<>>]

Data(i) == i \* the data of the i-th leaf (0-based insertion index) is its index; distinct by construction

LeafTerm(pos, d) == <<"L", pos, d>>
NodeTerm(idx, l, r) == <<"N", idx, l, r>>

KeepTerms(s) == NL(s) <= TermLeaves

RECURSIVE Merge(_)
Merge(s) ==
  LET n == Len(s.pk) IN
  IF n >= 2 /\ s.ht[s.pk[n] + 1] = s.ht[s.pk[n-1] + 1]
  THEN LET p == Len(s.ht)
           l == s.pk[n-1]
           r == s.pk[n]
       IN Merge([s EXCEPT !.ht  = Append(@, s.ht[r+1] + 1),
                          !.par = Append([@ EXCEPT ![l+1] = p, ![r+1] = p], -1),
                          !.lc  = Append(@, l),
                          !.rc  = Append(@, r),
                          !.pk  = Append(SubSeq(@, 1, n-2), p),
                          !.tm  = IF Len(@) = p THEN Append(@, NodeTerm(p, @[l+1], @[r+1])) ELSE <<>>])
  ELSE s

\* The defining Append: a new leaf, then merge equal-height neighbours.
AppendLeaf(s) ==
  LET p == Len(s.ht)
      d == Data(NL(s))
      keep == NL(s) + 1 <= TermLeaves
  IN Merge([s EXCEPT !.ht  = Append(@, 0),
                     !.par = Append(@, -1),
                     !.lc  = Append(@, -1),
                     !.rc  = Append(@, -1),
                     !.pk  = Append(@, p),
                     !.lp  = Append(@, p),
                     !.tm  = IF keep /\ Len(@) = p THEN Append(@, LeafTerm(p, d)) ELSE <<>>])

\* PMMR::rewind to the size the MMR had with k leaves: every per-position array is cut at that size
\* (positions are assigned in insertion order, so the size is the position of leaf k+1), parents that
\* were cut are forgotten, the peaks are the parentless nodes left.  RewindIsPrefix (below) states that
\* this is exactly the MMR of the first k leaves - what every rewind of a backend relies on.
SizeAt(s, k) == IF k = NL(s) THEN Size(s) ELSE s.lp[k + 1]
RECURSIVE PeaksOf(_, _, _)
PeaksOf(par, p, acc) == IF p > Len(par) THEN acc ELSE PeaksOf(par, p + 1, IF par[p] = -1 THEN Append(acc, p - 1) ELSE acc)
Truncate(s, k) ==
  LET sz == SizeAt(s, k)
      par2 == [p \in 1..sz |-> IF s.par[p] >= sz THEN -1 ELSE s.par[p]]
  IN [ht |-> SubSeq(s.ht, 1, sz), par |-> par2, lc |-> SubSeq(s.lc, 1, sz), rc |-> SubSeq(s.rc, 1, sz),
      pk |-> PeaksOf(par2, 1, <<>>), lp |-> SubSeq(s.lp, 1, k),
      tm |-> IF k <= TermLeaves /\ Len(s.tm) >= sz THEN SubSeq(s.tm, 1, sz) ELSE <<>>]

\* Pruning (PMMR::prune / Backend::remove) is not a transition of this module: the root, the peaks and
\* the proof paths below are functions of the forest m alone, and m keeps the hash term of every node.
\* The replay therefore demands that removing any set of leaves from a real backend leaves the root and
\* the proofs of the remaining leaves exactly as emitted here (hashes of removed leaves are retained).
Init == m = Empty
Push == NL(m) < MaxLeaves /\ m' = AppendLeaf(m)
Rewind(k) == k \in 0..NL(m) /\ m' = Truncate(m, k)
Next == Push
Spec == Init /\ [][Next]_vars
\* with rewinds (separate configuration: the construction invariants above are checked without them)
NextRW == Push \/ \E k \in 0..NL(m) : Rewind(k)
SpecRW == Init /\ [][NextRW]_vars

RECURSIVE BuildN(_)
BuildN(k) == IF k = 0 THEN Empty ELSE AppendLeaf(BuildN(k - 1))
\* the state is always the MMR of its leaf count, whatever pushes and rewinds led to it; with terms kept
\* only up to TermLeaves the comparison is on the structure when terms were dropped
SameShape(a, b) == a.ht = b.ht /\ a.par = b.par /\ a.lc = b.lc /\ a.rc = b.rc /\ a.pk = b.pk /\ a.lp = b.lp
RewindIsPrefix == \A k \in 0..NL(m) : LET t == Truncate(m, k) b == BuildN(k) IN
                     SameShape(t, b) /\ (KeepTerms(m) => t.tm = b.tm)

-----------------------------------------------------------------------------
(* Definitional observers over the constructed forest s *)

Ht(s, p)  == s.ht[p+1]
Par(s, p) == s.par[p+1]
IsLeafD(s, p) == s.ht[p+1] = 0
Sibling(s, p) == LET q == Par(s, p) IN IF s.lc[q+1] = p THEN s.rc[q+1] ELSE s.lc[q+1]
IsLeftD(s, p) == LET q == Par(s, p) IN s.lc[q+1] = p

RECURSIVE BagRight(_, _, _)
\* bag peaks ts (sequence of terms, left to right) right-to-left with size
BagRight(ts, n, size) ==
  IF n = Len(ts) THEN ts[n] ELSE NodeTerm(size, ts[n], BagRight(ts, n+1, size))

RootTerm(s) == IF Size(s) = 0 THEN "ZERO" ELSE BagRight([i \in 1..Len(s.pk) |-> s.tm[s.pk[i]+1]], 1, Size(s))

RECURSIVE LeftmostD(_, _), RightmostD(_, _)
LeftmostD(s, p)  == IF s.lc[p+1] = -1 THEN p ELSE LeftmostD(s, s.lc[p+1])
RightmostD(s, p) == IF s.rc[p+1] = -1 THEN p ELSE RightmostD(s, s.rc[p+1])

\* The path of a Merkle proof for leaf p by definition: siblings up to the peak,
\* then the bagged right-hand peaks (if any), then the left peaks nearest first.
RECURSIVE BranchD(_, _)
BranchD(s, p) == IF Par(s, p) = -1 THEN <<>> ELSE <<Sibling(s, p)>> \o BranchD(s, Par(s, p))
RECURSIVE PeakOf(_, _)
PeakOf(s, p) == IF Par(s, p) = -1 THEN p ELSE PeakOf(s, Par(s, p))
PeakIdx(s, q) == CHOOSE i \in 1..Len(s.pk) : s.pk[i] = q

ProofPathD(s, p) ==
  LET sibs == [i \in 1..Len(BranchD(s, p)) |-> s.tm[BranchD(s, p)[i] + 1]]
      k    == PeakIdx(s, PeakOf(s, p))
      n    == Len(s.pk)
      rhs  == IF k < n THEN <<BagRight([i \in 1..n |-> s.tm[s.pk[i]+1]], k+1, Size(s))>> ELSE <<>>
      lefts == [i \in 1..(k-1) |-> s.tm[s.pk[k - i] + 1]]
  IN sibs \o rhs \o lefts

-----------------------------------------------------------------------------
(* Transcription of the closed forms (pmmr.rs) — 64-bit tricks rewritten    *)
(* over naturals.                                                          *)

RECURSIVE Pow2(_)
Pow2(k) == IF k = 0 THEN 1 ELSE 2 * Pow2(k-1)
RECURSIVE BitLen(_)
BitLen(x) == IF x = 0 THEN 0 ELSE 1 + BitLen(x \div 2)
RECURSIVE PopCount(_)
PopCount(x) == IF x = 0 THEN 0 ELSE (x % 2) + PopCount(x \div 2)
Bit(x, k) == (x \div Pow2(k)) % 2     \* k-th bit of x

RECURSIVE PMHLoop(_, _, _)
PMHLoop(size, peakSize, peakMap) ==
  IF peakSize = 0 THEN <<peakMap, size>>
  ELSE IF size >= peakSize THEN PMHLoop(size - peakSize, peakSize \div 2, 2 * peakMap + 1)
       ELSE PMHLoop(size, peakSize \div 2, 2 * peakMap)
\* peak_map_height
PeakMapHeight(size) == IF size = 0 THEN <<0, 0>> ELSE PMHLoop(size, Pow2(BitLen(size)) - 1, 0)

RECURSIVE PSHLoop(_, _, _)
PSHLoop(size, peakSize, acc) ==
  IF peakSize = 0 THEN <<acc, size>>
  ELSE IF size >= peakSize THEN PSHLoop(size - peakSize, peakSize \div 2, Append(acc, peakSize))
       ELSE PSHLoop(size, peakSize \div 2, acc)
PeakSizesHeight(size) == IF size = 0 THEN <<<<>>, 0>> ELSE PSHLoop(size, Pow2(BitLen(size)) - 1, <<>>)

RECURSIVE PrefixSumsMinus1(_, _, _)
PrefixSumsMinus1(sq, i, acc) == IF i > Len(sq) THEN <<>> ELSE <<acc + sq[i] - 1>> \o PrefixSumsMinus1(sq, i+1, acc + sq[i])
\* peaks(size): empty when the next node is not a leaf
PeaksC(size) == LET r == PeakSizesHeight(size) IN IF r[2] = 0 THEN PrefixSumsMinus1(r[1], 1, 0) ELSE <<>>

NLeavesC(size) == LET r == PeakMapHeight(size) IN IF r[2] = 0 THEN r[1] ELSE r[1] + 1
InsertionToPmmrIndexC(n) == 2 * n - PopCount(n)
RoundUpToLeafPosC(p) == LET r == PeakMapHeight(p) IN InsertionToPmmrIndexC(IF r[2] = 0 THEN r[1] ELSE r[1] + 1)
LeafToInsertionIndexC(p) == LET r == PeakMapHeight(p) IN IF r[2] = 0 THEN r[1] ELSE -1   \* -1 = None
HeightC(p) == PeakMapHeight(p)[2]
IsLeafC(p) == HeightC(p) = 0
FamilyC(p) == LET r == PeakMapHeight(p)
                  peak == Pow2(r[2])
              IN IF Bit(r[1], r[2]) # 0 THEN <<p + 1, p + 1 - 2 * peak>> ELSE <<p + 2 * peak, p + 2 * peak - 1>>
IsLeftSiblingC(p) == LET r == PeakMapHeight(p) IN Bit(r[1], r[2]) = 0

RECURSIVE FBLoop(_, _, _, _, _)
FBLoop(cur, size, peakMap, h, acc) ==
  IF ~(cur + 1 < size) THEN acc
  ELSE LET peak == Pow2(h)
           ncur == IF Bit(peakMap, h) # 0 THEN cur + 1 ELSE cur + 2 * peak
           sib  == IF Bit(peakMap, h) # 0 THEN ncur - 2 * peak ELSE ncur - 1
       IN IF ncur >= size THEN acc ELSE FBLoop(ncur, size, peakMap, h + 1, Append(acc, <<ncur, sib>>))
FamilyBranchC(p, size) == LET r == PeakMapHeight(p) IN FBLoop(p, size, r[1], r[2], <<>>)

RightmostC(p) == p - HeightC(p)
LeftmostC(p) == p + 2 - 2 * Pow2(HeightC(p))

-----------------------------------------------------------------------------
(* Transcription of MerkleProof::verify / verify_consume over symbolic terms *)

SeqIndex(sq, x) == IF \E i \in 1..Len(sq) : sq[i] = x THEN CHOOSE i \in 1..Len(sq) : sq[i] = x ELSE 0

RECURSIVE VerifyC(_, _, _, _, _, _)
\* root: term, nodeTerm: hash term of the current node BEFORE indexing? No: the code hashes
\* element with index at each level; we carry `elem` = [leaf |-> d] or [l |->, r |->] (un-indexed pair).
VerifyC(root, elem, nodePos, path, mmrSize, peaksPos) ==
  LET idx == IF nodePos >= mmrSize THEN mmrSize ELSE nodePos
      nodeHash == IF elem.k = "leaf" THEN LeafTerm(idx, elem.d) ELSE NodeTerm(idx, elem.l, elem.r)
  IN IF path = <<>> THEN root = nodeHash
     ELSE LET sibling == Head(path)
              fam == FamilyC(nodePos)
              x == SeqIndex(peaksPos, nodePos)
              parent == IF x # 0
                        THEN (IF x = Len(peaksPos) THEN [k |-> "node", l |-> sibling, r |-> nodeHash]
                                                   ELSE [k |-> "node", l |-> nodeHash, r |-> sibling])
                        ELSE IF fam[1] >= mmrSize THEN [k |-> "node", l |-> sibling, r |-> nodeHash]
                        ELSE IF IsLeftSiblingC(fam[2]) THEN [k |-> "node", l |-> sibling, r |-> nodeHash]
                                                       ELSE [k |-> "node", l |-> nodeHash, r |-> sibling]
          IN VerifyC(root, parent, fam[1], Tail(path), mmrSize, peaksPos)

Verify(root, d, pos, path, mmrSize) == VerifyC(root, [k |-> "leaf", d |-> d], pos, path, mmrSize, PeaksC(mmrSize))

-----------------------------------------------------------------------------
(* Invariants: closed forms = construction.  Checked for the nodes created  *)
(* by the latest Append (older nodes were checked in earlier states; only   *)
(* size-dependent forms are re-checked in full for small sizes).            *)

NewFrom(s) == IF NL(s) = 0 THEN 0 ELSE s.lp[NL(s)]
NewNodes(s) == IF NL(s) = 0 THEN {} ELSE NewFrom(s)..(Size(s)-1)

RECURSIVE SumPow2Ht(_, _)
SumPow2Ht(s, i) == IF i > Len(s.pk) THEN 0 ELSE Pow2(Ht(s, s.pk[i])) + SumPow2Ht(s, i+1)

SizeFormsOK ==
  /\ PeaksC(Size(m)) = m.pk
  /\ NLeavesC(Size(m)) = NL(m)
  /\ PeakMapHeight(Size(m)) = <<SumPow2Ht(m, 1), 0>>
  /\ \A sz \in NewFrom(m)+1..Size(m)-1 :      \* sizes strictly inside the merge sequence are not valid MMR sizes
        /\ PeaksC(sz) = <<>>
        /\ NLeavesC(sz) = NL(m)

NodeFormsOK ==
  \A p \in NewNodes(m) :
    /\ HeightC(p) = Ht(m, p)
    /\ IsLeafC(p) = IsLeafD(m, p)
    /\ RightmostC(p) = RightmostD(m, p)
    /\ LeftmostC(p) = LeftmostD(m, p)
    /\ IsLeafD(m, p) => /\ LeafToInsertionIndexC(p) = NL(m) - 1
                        /\ InsertionToPmmrIndexC(NL(m) - 1) = p
                        /\ PeakMapHeight(p)[1] = NL(m) - 1
    /\ ~IsLeafD(m, p) => LeafToInsertionIndexC(p) = -1
    /\ RoundUpToLeafPosC(p) = (IF IsLeafD(m, p) THEN p ELSE Size(m))   \* next leaf position
    \* children of the new node: their family is now defined by the construction
    /\ ~IsLeafD(m, p) =>
         /\ FamilyC(m.lc[p+1]) = <<p, m.rc[p+1]>>
         /\ FamilyC(m.rc[p+1]) = <<p, m.lc[p+1]>>
         /\ IsLeftSiblingC(m.lc[p+1])
         /\ ~IsLeftSiblingC(m.rc[p+1])

RECURSIVE BranchPairsD(_, _)
BranchPairsD(s, p) == IF Par(s, p) = -1 THEN <<>> ELSE <<<<Par(s, p), Sibling(s, p)>>>> \o BranchPairsD(s, Par(s, p))

BranchFormsOK ==
  \A i \in 1..NL(m) : (NL(m) <= TermLeaves \/ i = NL(m) \/ i = 1) =>
      FamilyBranchC(m.lp[i], Size(m)) = BranchPairsD(m, m.lp[i])

\* Proof soundness on symbolic terms (injective hashing): honest proof verifies; each
\* single corruption is refused.
Corruptions(s, i) ==
  LET p == s.lp[i]
      path == ProofPathD(s, p)
      junk == <<"J">>
  IN  {[d |-> Data(i-1) + 1000, pos |-> p, path |-> path]}                         \* other element
      \cup {[d |-> Data(i-1), pos |-> s.lp[j], path |-> path] : j \in (1..NL(s)) \ {i}} \* other leaf position
      \cup {[d |-> Data(i-1), pos |-> p, path |-> [path EXCEPT ![k] = junk]] : k \in 1..Len(path)}
      \cup (IF Len(path) > 0 THEN {[d |-> Data(i-1), pos |-> p, path |-> SubSeq(path, 1, Len(path)-1)],
                                    [d |-> Data(i-1), pos |-> p, path |-> Tail(path)]} ELSE {})
      \cup {[d |-> Data(i-1), pos |-> p, path |-> Append(path, junk)],
            [d |-> Data(i-1), pos |-> p, path |-> <<junk>> \o path]}

ProofsOK ==
  (KeepTerms(m) /\ NL(m) > 0) =>
    \A i \in 1..NL(m) :
      /\ Verify(RootTerm(m), Data(i-1), m.lp[i], ProofPathD(m, m.lp[i]), Size(m))
      /\ \A c \in Corruptions(m, i) : ~Verify(RootTerm(m), c.d, c.pos, c.path, Size(m))

TypeOK == /\ Len(m.ht) = Len(m.par) /\ Len(m.lc) = Len(m.ht) /\ Len(m.rc) = Len(m.ht)
          /\ NL(m) <= MaxLeaves
=============================================================================
