----------------------------- MODULE CodecConn -----------------------------
(***************************************************************************)
(* C19 - the connection level above the codec: the reader loop of          *)
(* p2p/src/conn.rs `poll` (one `codec.read()` per iteration, `try_break!`  *)
(* on its result, the MessageHandler, `Shutdown::Both` behind the loop).   *)
(* Codec.tla produces the results (`out`); this module adds                *)
(*                                                                         *)
(*   proc    results of `read` the loop has dealt with so far              *)
(*   handed  what the MessageHandler got, in order                         *)
(*   sock    "open" | "closed"  (the reader shut the socket down)          *)
(*                                                                         *)
(* and states what "a frame ... is refused" means for a live connection:   *)
(* the loop ends at the refused frame, the socket is closed by the reader  *)
(* and nothing that follows the frame in the byte stream is interpreted.   *)
(***************************************************************************)
EXTENDS Codec

VARIABLES proc, handed, sock
cvars == <<vars, proc, handed, sock>>

ForHandler(o) == o.r \in {"msg", "headers", "att"}
HandedOf(o) == SelectSeq(o, ForHandler)

CInit == Init /\ proc = 0 /\ handed = <<>> /\ sock = "open"

\* inside one `codec.read()`; the next read is only issued once the last result was dealt with
CodecStep == /\ sock = "open" /\ proc = Len(out)
             /\ Next
             /\ UNCHANGED <<proc, handed, sock>>

\* the loop body behind `codec.read()`: unknown types are skipped, messages go to the handler,
\* an error takes the `break` of try_break! and the socket is shut down
Dispatch == /\ sock = "open" /\ proc < Len(out)
            /\ LET o == out[proc + 1] IN
               /\ proc' = proc + 1
               /\ handed' = IF ForHandler(o) THEN Append(handed, o) ELSE handed
               /\ sock' = IF FatalRes(o) THEN "closed" ELSE sock
            /\ UNCHANGED vars

\* clean end of stream: read fails with UnexpectedEof between two frames, same exit
EndOfStream == /\ sock = "open" /\ done /\ proc = Len(out)
               /\ sock' = "closed"
               /\ UNCHANGED <<vars, proc, handed>>

CNext == CodecStep \/ Dispatch \/ EndOfStream
CSpec == CInit /\ [][CNext]_cvars

---------------------------------------------------------------------------
\* index of the first error result (Len + 1 if none)
FirstErr(o) == LET e == {j \in 1..Len(o) : o[j].r = "err"} IN
               IF e = {} THEN Len(o) + 1 ELSE CHOOSE j \in e : \A k \in e : j <= k
CTypeOK == proc \in 0..Len(out) /\ sock \in {"open", "closed"}
\* nothing behind a refused frame (or any other error) reaches the handler
NothingAfterRefusal == handed = HandedOf(SubSeq(out, 1, Min(proc, FirstErr(out) - 1)))
\* the connection is closed as soon as the loop has seen the error
ClosedOnRefusal == (\E j \in 1..proc : out[j].r = "err") => sock = "closed"
\* and only then, or at the end of the stream
NoSpuriousClose == sock = "closed" => (done \/ \E j \in 1..proc : out[j].r = "err")
\* nothing is read from the socket behind the 11 header bytes of a frame refused on its header
StopsAtRefusal == \A j \in 1..Len(out) :
                    out[j].why \in {"magic", "toolarge"} => pos = StartOf(stream, out[j].fi) + HDR
\* what the handler got is what the frames before the first refused one carry
ConnFaithful == sock = "closed" =>
                  LET e == ExpectedSeq(stream)  v == Visible(stream, out) IN
                  /\ SeqAgrees(v, e)
                  /\ Len(handed) = Len(HandedOf(out))
=============================================================================
