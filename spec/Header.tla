------------------------------- MODULE Header -------------------------------
(***************************************************************************)
(* Header acceptance of grin (property C04, first sentence), in the shape   *)
(* of the implementation:                                                   *)
(*   chain/src/pipe.rs : validate_header, validate_pow_only,                *)
(*        process_block_header, process_block_headers (header sync),        *)
(*        process_block (header stage, then body stage)                     *)
(*   chain/src/txhashset/txhashset.rs : HeaderExtension::validate_root      *)
(*   core/src/core/block.rs : UntrustedBlockHeader::read, UntrustedBlock    *)
(*   core/src/core/compact_block.rs : UntrustedCompactBlock                 *)
(* together with the declarative rule set `Rules` the property states.      *)
(*                                                                         *)
(* A header is a record                                                     *)
(*   id, prev      identity of the header / of the header its prev_hash     *)
(*                 names (-1: no such header exists anywhere)               *)
(*   height, ts, version, total (total_difficulty), scaling                 *)
(*   eb            edge_bits of the proof                                   *)
(*   powValid      the proof is a valid cycle for this header's contents    *)
(*   powDiff       pow.to_difficulty(height): difficulty reached by it      *)
(*   outs, kerns   output / kernel MMR leaf counts committed to             *)
(*   rootOK        prev_root = root of the header MMR of its ancestors      *)
(*   bodyOK        roots and sizes are those of the body delivered with it  *)
(* Hashes, cycles and MMR roots are abstract flags (primitives, see C05 and *)
(* C07); everything the rules compute with is an integer.                   *)
(* State: `known` = the headers the node has stored (id -> header).         *)
(*                                                                         *)
(* Every entry point takes the caller's `opts`, a subset of `Options`       *)
(* (chain::types::Options; NONE = {}).  The node passes {} for broadcast    *)
(* headers/blocks, {"SYNC"} for header sync (sync_block_headers) and for    *)
(* blocks requested by body sync, {"MINE"} for blocks it mined itself       *)
(* (servers/src/common/adapters.rs, grin/sync/body_sync.rs, mining/).       *)
(* The property knows no option: the verdict is a function of the header    *)
(* and the stored chain alone.  Only SKIP_POW (test chains; never passed by *)
(* the node) drops the proof-of-work / difficulty clauses; SYNC and MINE    *)
(* are carried to the adapter callbacks and must not reach any rule         *)
(* (MC_Header!OptionsIrrelevant).                                           *)
(*                                                                         *)
(* Wire-entry layer (`Receive`): a header ENTERS the node from a peer in    *)
(* one of four wrappings (p2p/src/msg.rs) - a Header message, a Headers     *)
(* batch (items read as UntrustedBlockHeader), a Block (UntrustedBlock) or  *)
(* a CompactBlock (UntrustedCompactBlock) - and is then handed to the       *)
(* pipeline call the adapter makes for that message.  The node's clock      *)
(* `now` is an input of the model: whatever the wrapping, a header from the *)
(* network is taken only if, on top of `Rules`, its timestamp is not more   *)
(* than FTL seconds ahead of that clock (`WireRules`).  The chain pipeline  *)
(* never looks at the clock; the rule lives in the readers only, so every   *)
(* wrapping must go through it.                                             *)
(***************************************************************************)
EXTENDS Difficulty, Integers

CONSTANTS CT,     \* chain type name the node runs under
          FTL     \* future time limit in seconds (global::DEFAULT_FUTURE_TIME_LIMIT = 300)

VARIABLE known
hvars == <<known>>

P == ChainParams[CT]

Options == {"SKIP_POW", "SYNC", "MINE"}
NodeOptionSets == {{}, {"SYNC"}, {"MINE"}}      \* what the node really passes
SkipPow(opts) == "SKIP_POW" \in opts             \* the ONLY way `opts` enters a verdict

IsSecondary(eb) == eb = SECOND_POW_EDGE_BITS
IsPrimary(eb)   == eb # SECOND_POW_EDGE_BITS /\ eb >= P.minEdgeBits

(***************************************************************************)
(* store::DifficultyIter from header `id` back to genesis, LATEST first:    *)
(* difficulty of a header = its total_difficulty minus its parent's (the    *)
(* genesis header: its own total).  next_difficulty reads at most           *)
(* DMA_WINDOW+1 entries, so the walk stops there.                           *)
(***************************************************************************)
RECURSIVE WindowFrom(_, _, _)
WindowFrom(kn, id, left) ==
  IF left = 0 \/ id \notin DOMAIN kn THEN <<>>
  ELSE LET h == kn[id]
           pt == IF h.prev \in DOMAIN kn THEN kn[h.prev].total ELSE 0
       IN <<Entry(h.ts, h.total - pt, h.scaling, IsSecondary(h.eb))>> \o WindowFrom(kn, h.prev, left - 1)

Window(kn, id) == WindowFrom(kn, id, DMA_WINDOW + 1)

NetworkDifficulty(kn, h) == NextDifficulty(P, h.height, Window(kn, h.prev))

Weight(nOut, nKern) == nOut * OUTPUT_WEIGHT + nKern * KERNEL_WEIGHT

(***************************************************************************)
(* pipe::validate_header in the code's order; the result is "ok" or the     *)
(* name of the first failing check.  `nd` (the network difficulty) is only  *)
(* evaluated when the difficulty clauses are reached.                       *)
(***************************************************************************)
(* pipe::validate_pow_only (without SKIP_POW): edge bits class, then the cycle *)
PowOnly(h) ==
  IF ~IsPrimary(h.eb) /\ ~IsSecondary(h.eb) THEN "low_edge_bits"
  ELSE IF ~h.powValid THEN "invalid_pow" ELSE "ok"

ValidateWith(h, kn, opts, nd) ==
  IF h.prev \notin DOMAIN kn THEN "unknown_prev" ELSE
  LET prev    == kn[h.prev]
      numOut  == SatSub(h.outs, prev.outs)
      numKern == SatSub(h.kerns, prev.kerns)
  IN IF h.height # prev.height + 1 THEN "height"
     ELSE IF ~ValidHeaderVersion(P, h.height, h.version) THEN "version"
     ELSE IF h.ts <= prev.ts THEN "time"
     ELSE IF numOut = 0 \/ numKern = 0 THEN "mmr_size"
     ELSE IF Weight(numOut, numKern) > P.maxBlockWeight THEN "too_heavy"
     ELSE IF SkipPow(opts) THEN "ok"
     ELSE IF PowOnly(h) # "ok" THEN PowOnly(h)
     ELSE IF h.total <= prev.total THEN "difficulty_too_low"
     ELSE IF h.powDiff < h.total - prev.total THEN "difficulty_too_low"
     ELSE IF h.total - prev.total # nd.diff THEN "wrong_total_difficulty"
     ELSE IF h.version < LAST_HF_VERSION /\ h.scaling # nd.scal THEN "invalid_scaling"
     ELSE "ok"

ValidateHeader(h, kn, opts) == ValidateWith(h, kn, opts, NetworkDifficulty(kn, h))

(* header stage = validate_header, then HeaderExtension::validate_root before apply_header *)
HeaderStage(h, kn, opts) ==
  LET v == ValidateHeader(h, kn, opts) IN
  IF v # "ok" THEN v ELSE IF ~h.rootOK THEN "invalid_root" ELSE "ok"

(***************************************************************************)
(* The rule set as the property states it (order-free).  HeaderRulesEquiv   *)
(* (MC_Header) checks that the sequential code-shaped validation accepts    *)
(* exactly the headers satisfying it.                                       *)
(***************************************************************************)
RulesWith(h, kn, nd) ==
  /\ h.prev \in DOMAIN kn
  /\ LET prev == kn[h.prev]
     IN /\ h.height = prev.height + 1
        /\ h.ts > prev.ts
        /\ h.version = HeaderVersion(P, h.height)
        /\ h.total > prev.total
        /\ h.total - prev.total = nd.diff
        /\ (h.version < LAST_HF_VERSION => h.scaling = nd.scal)
        /\ (IsPrimary(h.eb) \/ IsSecondary(h.eb)) /\ h.powValid
        /\ h.powDiff >= h.total - prev.total
        /\ h.outs > prev.outs /\ h.kerns > prev.kerns
        /\ Weight(h.outs - prev.outs, h.kerns - prev.kerns) <= P.maxBlockWeight
        /\ h.rootOK

Rules(h, kn) == RulesWith(h, kn, NetworkDifficulty(kn, h))

(* UntrustedBlockHeader::read : the clauses applied to every header read from the network *)
ReadCheck(h, now) ==
  IF h.ts > now + FTL THEN "future_time"
  ELSE IF ~ValidHeaderVersion(P, h.height, h.version) THEN "version"
  ELSE IF ~IsPrimary(h.eb) /\ ~IsSecondary(h.eb) THEN "edge_bits"
  ELSE IF ~h.powValid THEN "invalid_pow"
  ELSE IF Weight(h.outs, h.kerns) > P.maxBlockWeight * (h.height + 1) THEN "global_weight"
  ELSE "ok"

-----------------------------------------------------------------------------
(* Actions: one per public call.  `res` is the result the call returns. *)
Store(kn, h) == IF h.id \in DOMAIN kn THEN kn ELSE [i \in DOMAIN kn \cup {h.id} |-> IF i = h.id THEN h ELSE kn[i]]

(* Chain::process_block_header: a header already stored is success without re-validation *)
ProcessHeaderRes(h, kn, opts) == IF h.id \in DOMAIN kn THEN "ok" ELSE HeaderStage(h, kn, opts)

ProcessBlockHeader(h, opts, res) ==
  /\ res = ProcessHeaderRes(h, known, opts)
  /\ known' = IF res = "ok" THEN Store(known, h) ELSE known

(* Chain::sync_block_headers: every header of the chunk is validated in order against the
   store extended by its predecessors in the chunk, then the whole chunk is applied to the
   header MMR (prev_root of each); all or nothing. *)
RECURSIVE SyncRes(_, _, _)
SyncRes(hs, kn, opts) ==
  IF hs = <<>> THEN "ok"
  ELSE LET v == HeaderStage(hs[1], kn, opts) IN
       IF v # "ok" THEN v ELSE SyncRes(Tail(hs), Store(kn, hs[1]), opts)

RECURSIVE StoreAll(_, _)
StoreAll(kn, hs) == IF hs = <<>> THEN kn ELSE StoreAll(Store(kn, hs[1]), Tail(hs))

SyncBlockHeaders(hs, opts, res) ==
  /\ res = SyncRes(hs, known, opts)
  /\ known' = IF res = "ok" THEN StoreAll(known, hs) ELSE known

(* Chain::process_block with a body that is valid on its own: header stage first (committed
   even if the body is then refused), then the body must be the one the header commits to.
   Which bodies the node holds is not part of this state: when the parent's body is missing
   the block is parked in the orphan pool ("orphan", re-processed later with the same options
   without a call of its own) - but only after its header passed the header stage. *)
ProcessBlock(h, opts, res) ==
  LET hr == ProcessHeaderRes(h, known, opts)
      \* pipe::process_block runs validate_pow_only up front, also for a header already stored
      pw == IF SkipPow(opts) THEN "ok" ELSE PowOnly(h)
  IN
  /\ res \in IF hr # "ok" THEN {hr}
             ELSE {"orphan", IF pw # "ok" THEN pw ELSE IF ~h.bodyOK THEN "body_mismatch" ELSE "ok"}
  /\ known' = IF hr = "ok" THEN Store(known, h) ELSE known

(* deserialising an UntrustedBlockHeader: no state *)
ReadUntrusted(h, now, res) ==
  /\ res = ReadCheck(h, now)
  /\ UNCHANGED known

-----------------------------------------------------------------------------
(***************************************************************************)
(* Wire-entry layer.                                                        *)
(***************************************************************************)
Wrappings == {"Header", "Headers", "Block", "CompactBlock"}

(* the options the adapter passes to the pipeline for each message
   (servers/src/common/adapters.rs: header_received, headers_received, block_received -
   NONE for a broadcast block, SYNC for one requested by body sync -, compact_block_received) *)
WireOpts(w) == CASE w = "Headers" -> {{"SYNC"}}
                 [] w = "Block"   -> {{}, {"SYNC"}}
                 [] OTHER         -> {{}}

(* the property's statement for a header coming from a peer, the same for every wrapping *)
WireRulesWith(h, kn, nd, now) == RulesWith(h, kn, nd) /\ h.ts <= now + FTL
WireRules(h, kn, now) == WireRulesWith(h, kn, NetworkDifficulty(kn, h), now)

(* reading the message: every wrapping reads its header(s) through the UntrustedBlockHeader
   clauses (a Headers batch: item by item, the first refusal refuses the message) *)
RECURSIVE WireRead(_, _)
WireRead(hs, now) ==
  IF hs = <<>> THEN "ok"
  ELSE LET r == ReadCheck(hs[1], now) IN IF r # "ok" THEN r ELSE WireRead(Tail(hs), now)

(* A message of wrapping w carrying the headers hs (one header unless w = "Headers") arrives
   while the node's clock shows `now`.  A message the reader refuses never reaches the chain. *)
Receive(w, hs, now, opts, res) ==
  LET rd == WireRead(hs, now) IN
  IF rd # "ok" THEN res = rd /\ UNCHANGED known
  ELSE CASE w = "Header"  -> ProcessBlockHeader(hs[1], opts, res)
         [] w = "Headers" -> SyncBlockHeaders(hs, opts, res)
         [] OTHER         -> ProcessBlock(hs[1], opts, res)   \* Block; CompactBlock after hydration
=============================================================================
