----------------------------- MODULE HeaderSync -----------------------------
(***************************************************************************)
(* The header sync protocol between two grin nodes over one header tree.   *)
(*                                                                         *)
(*   A  the syncing node  servers/src/grin/sync/{syncer,header_sync}.rs    *)
(*                        (sync_head selection, get_locator_heights,       *)
(*                        get_locator), chain.rs get_locator_hashes,       *)
(*                        adapters.rs headers_received ->                  *)
(*                        Chain::sync_block_headers ->                     *)
(*                        pipe::process_block_headers                      *)
(*   B  the serving node  adapters.rs locate_headers / find_common_header  *)
(*                        over its header MMR (= the chain of its header   *)
(*                        head)                                            *)
(*                                                                         *)
(* The tree vocabulary is that of Chain.tla (ids, Parent, Height, Work,    *)
(* IsAnc, LCA) but the tree is stored as a list of BRANCHES (runs of       *)
(* consecutive ids hanging off an older header), so that every operator is *)
(* arithmetic in the number of branches and the same module is evaluated   *)
(* by TLC with the model constants (MaxLocators 4, MaxHeaders 3, chains of *)
(* 6-12 headers) and with the constants of the code (20 / 512, chains of   *)
(* hundreds to thousands of headers).  The naive definitions (Parent       *)
(* recursion) are kept next to the closed forms and compared               *)
(* (TreeFormsOK).                                                          *)
(*                                                                         *)
(* Headers are valid by construction (header validity is Header.tla /      *)
(* C04); what is modelled is WHICH headers travel and what the receiver    *)
(* does with them: all-or-nothing batches, header head only with more      *)
(* work, sync head tracking, the locator back-off, the serving node's      *)
(* answer, reorganisations of B between and inside rounds, restarts of     *)
(* the sync state of A, and arbitrary (unsolicited / unconnected) batches  *)
(* pushed at A.                                                            *)
(***************************************************************************)
EXTENDS Naturals, Integers, Sequences, FiniteSets, TLC

CONSTANTS
  MaxLocators,   \* p2p::MAX_LOCATORS      (code: 20)
  MaxHeaders,    \* p2p::MAX_BLOCK_HEADERS (code: 512)
  Lens,          \* branch lengths that minting may choose
  Diffs,         \* per-branch difficulty of each header of the branch
  MaxIds,        \* bound on the number of headers besides genesis
  MaxReorgs,     \* bound on reorganisations / extensions of B after the initial chains
  MaxResets,     \* bound on restarts of A's sync state (HeaderSync -> NoSync/BodySync -> HeaderSync)
  MaxByz,        \* bound on arbitrary batches pushed at A
  Variant        \* "code" = as the code is; "no_genesis" / "ge_work" / "no_parent_check" = deliberately wrong
                 \* variants (used by configurations that MUST violate a property: anti-vacuity)

ASSUME MaxLocators >= 2 /\ MaxHeaders >= 1

VARIABLES
  br,     \* the tree: sequence of branches [from, len, diff, first]; ids first..first+len-1, genesis = 0
  a,      \* syncing node  [hdrs, hhead, sync, insync]
  b,      \* serving node  [hdrs, hhead]
  net,    \* [phase, loc, batch, fresh]: "mintA" | "mintB" | "idle" | "req" | "resp"
  a0,     \* A's header head before any sync (constant after minting)
  used,   \* [reorg, reset, byz] budgets consumed
  rounds, \* honest rounds completed since the last disturbance
  last    \* observation of the last step (action, arguments, result)
vars == <<br, a, b, net, a0, used, rounds, last>>

-----------------------------------------------------------------------------
(* The tree *)

N == IF br = <<>> THEN 1 ELSE br[Len(br)].first + br[Len(br)].len    \* number of headers incl. genesis
Ids == 0..(N - 1)
BranchOf(i) == CHOOSE k \in 1..Len(br) : br[k].first <= i /\ i < br[k].first + br[k].len
Parent(i) == IF i = 0 THEN 0 ELSE LET k == BranchOf(i) IN IF i = br[k].first THEN br[k].from ELSE i - 1

RECURSIVE Height(_)
Height(i) == IF i = 0 THEN 0 ELSE LET k == BranchOf(i) IN Height(br[k].from) + (i - br[k].first) + 1
RECURSIVE Work(_)
Work(i) == IF i = 0 THEN 0 ELSE LET k == BranchOf(i) IN Work(br[k].from) + ((i - br[k].first) + 1) * br[k].diff
\* the ancestor of i at height h (h <= Height(i)): what the header MMR of a node whose header head is i
\* returns for get_header_hash_by_height(h)
RECURSIVE AtHeight(_, _)
AtHeight(i, h) == IF i = 0 THEN 0
                  ELSE LET k == BranchOf(i)
                           h0 == Height(br[k].from)
                       IN IF h > h0 THEN br[k].first + (h - h0 - 1) ELSE AtHeight(br[k].from, h)
IsAnc(x, y) == Height(x) <= Height(y) /\ AtHeight(y, Height(x)) = x      \* x is y or an ancestor of y
RECURSIVE LCA(_, _)
LCA(x, y) == IF x = 0 \/ y = 0 THEN 0
             ELSE LET kx == BranchOf(x)
                      ky == BranchOf(y)
                  IN IF kx = ky THEN (IF x < y THEN x ELSE y)
                     ELSE IF kx > ky THEN LCA(br[kx].from, y) ELSE LCA(x, br[ky].from)
PathSet(i) == {AtHeight(i, h) : h \in 0..Height(i)}
\* the k headers ending in x, in chain order (k <= Height(x))
LastK(x, k) == [j \in 1..k |-> AtHeight(x, Height(x) - k + j)]

\* naive definitions, compared with the closed forms in small configurations
RECURSIVE PathN(_)
PathN(i) == IF i = 0 THEN <<0>> ELSE Append(PathN(Parent(i)), i)
RECURSIVE WorkN(_)
WorkN(i) == IF i = 0 THEN 0 ELSE WorkN(Parent(i)) + br[BranchOf(i)].diff
TreeFormsOK == \A i \in Ids :
                  /\ Len(PathN(i)) = Height(i) + 1
                  /\ \A h \in 0..Height(i) : AtHeight(i, h) = PathN(i)[h + 1]
                  /\ WorkN(i) = Work(i)
                  /\ \A j \in Ids : LET p == PathN(i)
                                        q == PathN(j)
                                        com == {h \in 1..Len(p) : h <= Len(q) /\ p[h] = q[h]}
                                    IN LCA(i, j) = p[Cardinality(com)]

Min(x, y) == IF x < y THEN x ELSE y
CeilDiv(x, y) == (x + y - 1) \div y
Range(s) == {s[j] : j \in 1..Len(s)}
RECURSIVE Pow2(_)
Pow2(k) == IF k = 0 THEN 1 ELSE 2 * Pow2(k - 1)

-----------------------------------------------------------------------------
(* A: the locator (header_sync.rs get_locator_heights, chain.rs get_locator_hashes) *)

(* fn get_locator_heights(height):
     let mut current = height; let mut heights = vec![];
     while current > 0 {
        heights.push(current);
        if heights.len() >= MAX_LOCATORS - 1 { break; }
        let next = 2u64.pow(heights.len());
        current = if current > next { current - next } else { 0 }
     }
     heights.push(0);                                                                   *)
RECURSIVE LocLoop(_, _)
LocLoop(cur, acc) ==
  IF cur = 0 THEN acc
  ELSE LET acc2 == Append(acc, cur) IN
       IF Len(acc2) >= MaxLocators - 1 THEN acc2
       ELSE LET next == Pow2(Len(acc2)) IN LocLoop(IF cur > next THEN cur - next ELSE 0, acc2)
LocatorHeights(h) == IF Variant = "no_genesis" THEN LocLoop(h, <<>>) ELSE Append(LocLoop(h, <<>>), 0)

\* get_locator_hashes(sync_head, heights): the header MMR is rewound (read-only) onto the chain of the
\* sync head, which may be a fork of the header head's chain; one hash per height
LocatorOf(s) == LET hs == LocatorHeights(Height(s)) IN [j \in 1..Len(hs) |-> AtHeight(s, hs[j])]

\* syncer.rs: sync_head = the one recorded in SyncStatus::HeaderSync, else the header head
SyncHead(nd) == IF nd.insync THEN nd.sync ELSE nd.hhead

-----------------------------------------------------------------------------
(* B: the answer (adapters.rs locate_headers, find_common_header) *)

NoCommon == -1
\* first locator hash that B has stored AND that sits at its height on B's header MMR
CommonIdx(loc, nd) == {j \in 1..Len(loc) : loc[j] \in nd.hdrs /\ IsAnc(loc[j], nd.hhead)}
FindCommon(loc, nd) == LET S == CommonIdx(loc, nd) IN
                       IF S = {} THEN NoCommon ELSE loc[CHOOSE j \in S : \A k \in S : j <= k]
\* up to MAX_BLOCK_HEADERS headers of B's header chain following the common header, never above B's header head
Serve(loc, nd) == LET c == FindCommon(loc, nd) IN
                  IF c = NoCommon THEN <<>>
                  ELSE LET cnt == Min(MaxHeaders, Height(nd.hhead) - Height(c))
                       IN [j \in 1..cnt |-> AtHeight(nd.hhead, Height(c) + j)]

-----------------------------------------------------------------------------
(* A: a batch arrives (adapters.rs headers_received -> Chain::sync_block_headers ->
   pipe::process_block_headers).
     empty batch                      nothing happens (the adapter answers false)
     status is not HeaderSync         the batch is ignored
     every header is validated against its predecessor, which must be stored already or be an earlier header
       of the same batch, and saved; any failure rolls the whole batch back (nothing stored)
     the header MMR is put on the chain of the LAST header; the header head moves to it iff it has MORE
       work than the header head, otherwise the MMR is rolled back (the headers stay stored)
     the new sync head is the last header iff the old sync head is not on the last header's chain, or the
       last header has more work than the old sync head                                                    *)
ParentKnown(nd, seq, j) ==
  \/ Variant = "no_parent_check" /\ j = 1
  \/ (j > 1 /\ seq[j - 1] = Parent(seq[j]))                              \* the usual case first (cheap)
  \/ Parent(seq[j]) \in nd.hdrs
  \/ \E m \in 1..(j - 1) : seq[m] = Parent(seq[j])
BatchOK(nd, seq) == \A j \in 1..Len(seq) : seq[j] # 0 /\ ParentKnown(nd, seq, j)
MoreWork(x, y) == IF Variant = "ge_work" THEN Work(x) >= Work(y) ELSE Work(x) > Work(y)

Receive(nd, seq) ==
  IF seq = <<>> THEN [nd |-> nd, res |-> "empty"]
  ELSE IF ~nd.insync THEN [nd |-> nd, res |-> "ignored"]
  ELSE IF ~BatchOK(nd, seq) THEN [nd |-> nd, res |-> "reject"]
  ELSE LET lst == seq[Len(seq)]
           alt == ~IsAnc(nd.sync, lst)
       IN [nd |-> [nd EXCEPT !.hdrs = @ \cup Range(seq),
                             !.hhead = IF MoreWork(lst, nd.hhead) THEN lst ELSE @,
                             !.sync = IF alt \/ Work(lst) > Work(nd.sync) THEN lst ELSE @],
           res |-> "ok"]

-----------------------------------------------------------------------------
(* Actions *)

Budget == used.reorg + used.reset + used.byz

\* A's own chain: la headers of difficulty da on genesis; A has never synced
MintA(la, da) ==
  /\ net.phase = "mintA"
  /\ la <= MaxIds
  /\ br' = IF la = 0 THEN <<>> ELSE <<[from |-> 0, len |-> la, diff |-> da, first |-> 1]>>
  /\ a' = [hdrs |-> 0..la, hhead |-> la, sync |-> la, insync |-> FALSE]
  /\ a0' = la
  /\ net' = [net EXCEPT !.phase = "mintB"]
  /\ last' = [k |-> "MintA", x |-> la, y |-> da, res |-> "-"]
  /\ UNCHANGED <<b, used, rounds>>

\* B's chain: it shares A's chain up to height f and continues with lb headers of its own
MintB(f, lb, db) ==
  /\ net.phase = "mintB"
  /\ f \in 0..a0
  /\ N + lb <= MaxIds + 1
  /\ br' = IF lb = 0 THEN br ELSE Append(br, [from |-> f, len |-> lb, diff |-> db, first |-> N])
  /\ b' = [hdrs |-> (0..f) \cup (N..(N + lb - 1)), hhead |-> IF lb = 0 THEN f ELSE N + lb - 1]
  /\ net' = [net EXCEPT !.phase = "idle"]
  /\ last' = [k |-> "MintB", x |-> f, y |-> lb, res |-> "-"]
  /\ UNCHANGED <<a, a0, used, rounds>>

\* B reorganises onto (or simply extends with) a new branch hanging off ANY header of the tree;
\* a node's header head only ever moves to more work
Reorg(from, len, d) ==
  /\ net.phase \in {"idle", "resp"}
  /\ used.reorg < MaxReorgs
  /\ len > 0 /\ N + len <= MaxIds + 1
  /\ Work(from) + len * d > Work(b.hhead)
  /\ br' = Append(br, [from |-> from, len |-> len, diff |-> d, first |-> N])
  /\ b' = [hdrs |-> b.hdrs \cup PathSet(from) \cup (N..(N + len - 1)), hhead |-> N + len - 1]
  /\ net' = [net EXCEPT !.fresh = FALSE]
  /\ used' = [used EXCEPT !.reorg = @ + 1]
  /\ rounds' = 0
  /\ last' = [k |-> "Reorg", x |-> from, y |-> len, res |-> "-"]
  /\ UNCHANGED <<a, a0>>

\* HeaderSync::check_run: nothing to do unless the peer claims more work than the sync head;
\* the status becomes HeaderSync{sync_head}; request_headers sends the locator
BuildLocator ==
  /\ net.phase = "idle"
  /\ LET s == SyncHead(a) IN
       /\ Work(b.hhead) > Work(s)
       /\ a' = [a EXCEPT !.insync = TRUE, !.sync = s]
       /\ net' = [phase |-> "req", loc |-> LocatorOf(s), batch |-> <<>>, fresh |-> TRUE]
       /\ last' = [k |-> "Build", x |-> s, y |-> 0, res |-> "-"]
  /\ UNCHANGED <<br, b, a0, used, rounds>>

LocateHeaders ==
  /\ net.phase = "req"
  /\ net' = [net EXCEPT !.phase = "resp", !.batch = Serve(net.loc, b)]
  /\ last' = [k |-> "Locate", x |-> FindCommon(net.loc, b), y |-> 0, res |-> "-"]
  /\ UNCHANGED <<br, a, b, a0, used, rounds>>

ReceiveHeaders ==
  /\ net.phase = "resp"
  /\ LET r == Receive(a, net.batch) IN
       /\ a' = r.nd
       /\ last' = [k |-> "Receive", x |-> 0, y |-> 0, res |-> r.res]
  /\ net' = [phase |-> "idle", loc |-> <<>>, batch |-> <<>>, fresh |-> TRUE]
  /\ rounds' = IF net.fresh THEN rounds + 1 ELSE 0
  /\ UNCHANGED <<br, b, a0, used>>

\* the sync state leaves HeaderSync (body sync starts, or the node decides it is synced) while a request may be
\* under way; the next check_run starts again from the header head
ResetSync ==
  /\ net.phase \in {"idle", "resp"}
  /\ a.insync
  /\ used.reset < MaxResets
  /\ a' = [a EXCEPT !.insync = FALSE]
  /\ net' = [net EXCEPT !.fresh = FALSE]
  /\ used' = [used EXCEPT !.reset = @ + 1]
  /\ rounds' = 0
  /\ last' = [k |-> "Reset", x |-> 0, y |-> 0, res |-> "-"]
  /\ UNCHANGED <<br, b, a0>>

\* an arbitrary run of k consecutive headers of the tree ending in x - optionally with its g-th header left out
\* (1 < g < k; g = 0: nothing left out) - is pushed at A (an unsolicited, late or hostile Headers message): it is
\* stored only if every header connects to what A has or to an earlier header of the batch, and then entirely
Gapped(x, k, g) == LET s == LastK(x, k) IN
                   IF g = 0 THEN s ELSE [j \in 1..(k - 1) |-> IF j < g THEN s[j] ELSE s[j + 1]]
Byz(x, k, g) ==
  /\ net.phase = "idle"
  /\ used.byz < MaxByz
  /\ k \in 1..Height(x) /\ k <= MaxHeaders
  /\ (g = 0 \/ (1 < g /\ g < k))
  /\ LET r == Receive(a, Gapped(x, k, g)) IN
       /\ a' = r.nd
       /\ last' = [k |-> "Byz", x |-> x, y |-> k, z |-> g, res |-> r.res]
  /\ used' = [used EXCEPT !.byz = @ + 1]
  /\ rounds' = 0
  /\ UNCHANGED <<br, b, net, a0>>

Init == /\ br = <<>>
        /\ a = [hdrs |-> {0}, hhead |-> 0, sync |-> 0, insync |-> FALSE]
        /\ b = [hdrs |-> {0}, hhead |-> 0]
        /\ net = [phase |-> "mintA", loc |-> <<>>, batch |-> <<>>, fresh |-> TRUE]
        /\ a0 = 0
        /\ used = [reorg |-> 0, reset |-> 0, byz |-> 0]
        /\ rounds = 0
        /\ last = [k |-> "Init", x |-> 0, y |-> 0, res |-> "-"]

Protocol == BuildLocator \/ LocateHeaders \/ ReceiveHeaders
Disturb == \/ \E from \in Ids, len \in Lens, d \in Diffs : Reorg(from, len, d)
           \/ ResetSync
           \/ \E x \in Ids, k \in 1..MaxHeaders, g \in 0..MaxHeaders : Byz(x, k, g)
Next == \/ \E la \in Lens, da \in Diffs : MintA(la, da)
        \/ \E f \in 0..a0, lb \in Lens, db \in Diffs : MintB(f, lb, db)
        \/ Protocol
        \/ Disturb

Spec == Init /\ [][Next]_vars
\* once the budgets of disturbances are used up only protocol steps remain
FairSpec == Spec /\ WF_vars(Next)

-----------------------------------------------------------------------------
(* Properties *)

Minted == net.phase \notin {"mintA", "mintB"}

TypeOK == /\ a.hdrs \subseteq Ids /\ a.hhead \in a.hdrs /\ a.sync \in a.hdrs /\ a.insync \in BOOLEAN
          /\ b.hdrs \subseteq Ids /\ b.hhead \in b.hdrs
          /\ net.phase \in {"mintA", "mintB", "idle", "req", "resp"}
          /\ \A k \in 1..Len(br) : br[k].from < br[k].first /\ br[k].len > 0

\* --- safety ---
\* A only ever stores headers of the tree that connect down to genesis, and every one of them is a header
\* that B has (B's tree) or one of A's own initial chain
StoredOnTree == /\ \A i \in a.hdrs : Parent(i) \in a.hdrs
                /\ a.hdrs \subseteq (0..a0) \cup b.hdrs
                /\ \A i \in b.hdrs : Parent(i) \in b.hdrs
\* the sync head never has more work than the header head
SyncLeHead == Work(a.sync) <= Work(a.hhead)
\* the request: at most MAX_LOCATORS hashes of the sync head's own chain, strictly descending heights,
\* starting with the sync head itself and ALWAYS ending with genesis
LocatorShape == net.phase = "req" =>
                  LET loc == net.loc IN
                  /\ Len(loc) >= 1 /\ Len(loc) <= MaxLocators
                  /\ loc[1] = a.sync
                  /\ loc[Len(loc)] = 0
                  /\ \A j \in 1..Len(loc) : IsAnc(loc[j], a.sync)
                  /\ \A j \in 1..(Len(loc) - 1) : Height(loc[j]) > Height(loc[j + 1])
\* the back-off: unless the cap on the number of locators cut it short, the common header found by B is no
\* further below the sync head than twice the depth of the fork
BackoffQuality == net.phase = "req" =>
                    LET c == FindCommon(net.loc, b)
                        d == Height(a.sync) - Height(LCA(a.sync, b.hhead))
                    IN /\ c # NoCommon
                       /\ (Len(net.loc) < MaxLocators \/ Height(net.loc[Len(net.loc) - 1]) <= Height(LCA(a.sync, b.hhead)))
                            => Height(a.sync) - Height(c) <= 2 * d
\* the answer: a non-empty contiguous run of headers B has, which starts right after a header that A has
\* stored and that A named in its locator
AnswerContiguous == net.phase = "resp" =>
                      LET s == net.batch IN
                      /\ s # <<>>
                      /\ Len(s) <= MaxHeaders
                      /\ Range(s) \subseteq b.hdrs
                      /\ \A j \in 2..Len(s) : Parent(s[j]) = s[j - 1]
                      /\ Parent(s[1]) \in a.hdrs
                      /\ Parent(s[1]) \in Range(net.loc)
                      /\ (net.fresh => IsAnc(s[Len(s)], b.hhead))
\* action properties
HeadMonotone == [][(br' = br /\ a'.hhead # a.hhead) => Work(a'.hhead) > Work(a.hhead)]_vars
HonestAccepted == [][(net.phase = "resp" /\ net'.phase = "idle") => last'.res \in {"ok", "ignored"}]_vars
RejectLeavesState == [][last'.res \in {"reject", "empty", "ignored"} => a' = a]_vars
NeverForgets == [][a.hdrs \subseteq a'.hdrs /\ b.hdrs \subseteq b'.hdrs]_vars

\* --- progress ---
DueOf(aa, bb) == Work(bb.hhead) > Work(SyncHead(aa))
Due == DueOf(a, b)
Quiescent == net.phase = "idle" /\ ~Due
\* number of request/response rounds still needed: the common header moves up by MAX_BLOCK_HEADERS per round
PhiOf(aa, bb) == IF ~DueOf(aa, bb) THEN 0
                 ELSE CeilDiv(Height(bb.hhead) - Height(FindCommon(LocatorOf(SyncHead(aa)), bb)), MaxHeaders)
Phi == IF ~Minted THEN 0 ELSE PhiOf(a, b)
\* an undisturbed round (request built, answered by the B that is still there, received) brings A exactly one
\* round closer: either the sync head advances along B's chain or it jumps onto B's chain at the common point
RoundProgress == [][(net.phase = "resp" /\ net'.phase = "idle" /\ net.fresh) =>
                       /\ PhiOf(a', b) = PhiOf(a, b) - 1
                       /\ a'.insync /\ IsAnc(a'.sync, b.hhead)
                       /\ Height(a'.sync) = Min(Height(FindCommon(net.loc, b)) + MaxHeaders, Height(b.hhead))]_vars
\* hence: after the last disturbance at most ceil(height of B's head / MAX_BLOCK_HEADERS) rounds
RoundsBound == Minted => rounds + Phi <= CeilDiv(Height(b.hhead), MaxHeaders)
\* and when nothing is left to request A is on B's header head, provided B has more work than A ever had
Converged == (Quiescent /\ Work(b.hhead) > Work(a0)) => a.hhead = b.hhead
NotBehind == Quiescent => Work(a.hhead) >= Work(b.hhead)
\* liveness (FairSpec): the budgets of disturbances are finite, so eventually the protocol runs undisturbed
EventuallySynced == <>[]Quiescent
=============================================================================
