------------------------------- MODULE Wire -------------------------------
(***************************************************************************)
(* FORMAT GRAMMAR of grin's consensus / wire encodings (property C10).     *)
(* This is not a state machine: it is a transcription of the Writeable /   *)
(* Readable implementations of                                             *)
(*   core/src/ser.rs, core/src/core/{transaction,block,compact_block,id},  *)
(*   core/src/pow/types.rs, core/src/core/pmmr/segment.rs,                 *)
(*   chain/src/txhashset/bitmap_accumulator.rs, chain/src/types.rs,        *)
(*   p2p/src/{msg,types}.rs                                                *)
(* as three pure functions per type                                        *)
(*   Lay(ty, x, v)     the byte layout written for value x at protocol     *)
(*                     version v  (sequence of LEAVES, see below)          *)
(*   HLay(ty, x)       the layout fed to the hash writer (identity hash)   *)
(*   Dec(ty, s, v, g)  the reader: leaves -> value or Fail, INCLUDING the  *)
(*                     canonical-form rules it enforces                    *)
(* plus Perts(..) = the perturbations of a valid layout that touch a       *)
(* canonical-form rule.  TLC enumerates type x shape x version and checks  *)
(*   RoundTrip   Dec(Lay(x,v),v) = Norm_v(x) with nothing left over        *)
(*   ReEncode    Lay(Dec(Lay(x,v),v), v) = Lay(x,v)                        *)
(*   HashStable  identity hash layout unchanged by a round trip at any v   *)
(*               and independent of the version the hash writer reports    *)
(*   PertsRefused every perturbed layout is refused                        *)
(* and prints every case; the harness (harness/wire) renders the leaves to *)
(* bytes and compares them with the real encoder / decoder / hash.         *)
(*                                                                         *)
(* LEAVES (big-endian primitives; "sym" = symbolic value instantiated with *)
(* seeded bytes by the harness, the same bytes used to build the real      *)
(* value; "cls" = value class of a symbolic number):                       *)
(*   [k: u8|u16|u32|u64|i64, v: n]            literal                      *)
(*   [k: u8|.., sym, cls]                     symbolic number              *)
(*   [k: bytes, n, sym]                       n raw bytes                  *)
(*   [k: zeros, n] / [k: nonzero, n]          reserved bytes (/perturbed)  *)
(*   [k: bitpack, w, cnt, sym, cls, padbits, pad]  cnt numbers of w bits,  *)
(*        packed LSB-first into a little-endian bit string, zero padded    *)
(*        to a byte boundary (PackBytes below is the definition)           *)
(*   [k: sorted, items: <<[key, body, rk, aux]>>, op]  items written in    *)
(*        ascending order of blake2b(render(key)); rk is the model's       *)
(*        stand-in for that order; op is a perturbation applied afterwards *)
(*   [k: bitidx, sym, nbits, npos, neg, oob] / [k: bitraw, sym, nbits,npos]*)
(*        index list / raw bytes of a bit set bound to sym                 *)
(* Hash functions, curve points and signatures are primitives, never       *)
(* modelled: order under a hash is an abstract rank.                       *)
(***************************************************************************)
EXTENDS Naturals, Integers, Sequences, FiniteSets, TLC, SequencesExt

CONSTANT StrictAddr   \* TRUE: PeerAddr follows the property statement (unknown family tags refused, value
                      \* preserved); FALSE: PeerAddr as the code has it (any tag # 0 is IPv6) - see the report

\* The decoder Dec below is ONE function of (type, leaves, version): grin has three implementations of the
\* Reader trait that must all realise it - BinReader (ser::deserialize, store and tests), BufReader (the p2p
\* codec reads every message body through it) and StreamingReader (handshake).  Each has its own integer,
\* fixed-bytes, length-prefixed-bytes and (possibly overridden) read_empty_bytes / expect_u8 code, so every
\* case and every perturbation is decoded through each of them and must give the outcome Dec states.
Readers      == <<"bin", "buf", "stream">>

Versions     == {1, 2, 3, 1000}   \* 1000 = ProtocolVersion::local(); local_db() = 1
LocalVersion == 1000
DbVersion    == 1

InputW == 1
OutputW == 21
KernelW == 3
MaxBlockW(chain) == IF chain = "main" THEN 40000 ELSE 250
ProofSize(chain) == IF chain = "main" THEN 42 ELSE 8
MaxLocators == 20
MaxPeerAddrs == 256
ProofLen == 675

-----------------------------------------------------------------------------
(* leaves *)
Lit(k, n)        == [k |-> k, v |-> n]
TagL(n, bad)     == [k |-> "u8", v |-> n, role |-> "tag", bad |-> bad]
Cnt(k, n, last, lim) == [k |-> k, v |-> n, role |-> "count", last |-> last, lim |-> lim]
NV(s, c)         == [sym |-> s, cls |-> c]
Num(k, nv)       == [k |-> k, sym |-> nv.sym, cls |-> nv.cls]
Bytes(n, s)      == [k |-> "bytes", n |-> n, sym |-> s]
Zeros(n)         == [k |-> "zeros", n |-> n]

Drop(s, n) == SubSeq(s, n + 1, Len(s))
At(s, i)   == IF i >= 1 /\ i <= Len(s) THEN s[i] ELSE [k |-> "eof"]
IsLit(l, k)   == l.k = k /\ "v" \in DOMAIN l
IsNum(l, k)   == l.k = k /\ "sym" \in DOMAIN l /\ "cls" \in DOMAIN l
IsBytes(l, n) == l.k = "bytes" /\ l.n = n
IsZeros(l, n) == l.k = "zeros" /\ l.n = n
SV(l)         == [sym |-> l.sym, cls |-> l.cls]

Fail       == [ok |-> FALSE]
Ok(val, r) == [ok |-> TRUE, val |-> val, r |-> r]

RECURSIVE Flatten(_)
Flatten(ss) == IF ss = <<>> THEN <<>> ELSE Head(ss) \o Flatten(Tail(ss))

-----------------------------------------------------------------------------
(* Bit packing of proof nonces, pow/types.rs pack_bits / read_number.      *)
(* Defined concretely; checked by TLC for small widths (MC_Wire PackOK).   *)
BitOf(n, j) == (n \div (2^j)) % 2
Stream(w, vals) == [i \in 1..(w * Len(vals)) |-> BitOf(vals[((i-1) \div w) + 1], (i-1) % w)]
PadLen(nbits) == (8 - (nbits % 8)) % 8
ByteOf(bits, b) == LET B(k) == bits[8*b + k + 1] IN
    B(0) + 2*B(1) + 4*B(2) + 8*B(3) + 16*B(4) + 32*B(5) + 64*B(6) + 128*B(7)
PackBytes(w, vals, padv) ==
    LET bits == Stream(w, vals) \o padv
    IN [b \in 1..(Len(bits) \div 8) |-> ByteOf(bits, b-1)]
UnpackBits(bytes) == [i \in 1..(8 * Len(bytes)) |-> BitOf(bytes[((i-1) \div 8) + 1], (i-1) % 8)]
Unpack(w, cnt, bytes) ==
    LET bits == UnpackBits(bytes)
        Val(i) == LET V(j) == bits[(i-1)*w + j + 1] * (2^j)
                      S[j \in 0..w] == IF j = 0 THEN 0 ELSE S[j-1] + V(j-1)
                  IN S[w]
    IN IF Len(bytes) # (w*cnt + 7) \div 8 THEN Fail
       ELSE IF \E i \in (w*cnt+1)..(8*Len(bytes)) : bits[i] # 0 THEN Fail   \* padding must be zero
       ELSE Ok([i \in 1..cnt |-> Val(i)], <<>>)

-----------------------------------------------------------------------------
(* Kernel features: transaction.rs write_v1 / write_v2 / read_v1 / read_v2 *)
FeeCls == {"fee_min", "fee_any", "fee_max"}
LockCls == {"zero", "any", "max"}
RelOK  == {"rel_one", "rel_any", "rel_week"}     \* 1 ..= WEEK_HEIGHT
RelBad == {"rel_zero", "rel_over"}
KFBad == <<4, 255>>

KFLayV1(f) ==
    CASE f.t = "Plain"        -> <<TagL(0, KFBad), Num("u64", f.fee), Zeros(8)>>
      [] f.t = "Coinbase"     -> <<TagL(1, KFBad), Zeros(16)>>
      [] f.t = "HeightLocked" -> <<TagL(2, KFBad), Num("u64", f.fee), Num("u64", f.lock)>>
      [] f.t = "NRD"          -> <<TagL(3, KFBad), Num("u64", f.fee), Zeros(6), Num("u16", f.rel)>>
KFLayV2(f) ==
    CASE f.t = "Plain"        -> <<TagL(0, KFBad), Num("u64", f.fee)>>
      [] f.t = "Coinbase"     -> <<TagL(1, KFBad)>>
      [] f.t = "HeightLocked" -> <<TagL(2, KFBad), Num("u64", f.fee), Num("u64", f.lock)>>
      [] f.t = "NRD"          -> <<TagL(3, KFBad), Num("u64", f.fee), Num("u16", f.rel)>>
\* KernelFeatures::write: hash mode first, then the version range.
\* hv is the version the writer reports (the HashWriter reports local()).
KFWrite(f, hv, mode) == IF mode = "hash" THEN KFLayV1(f) ELSE IF hv <= 1 THEN KFLayV1(f) ELSE KFLayV2(f)
KFLay(f, v) == KFWrite(f, v, "full")
KFHLay(f)   == KFWrite(f, LocalVersion, "hash")

DecKF(s, v, g) ==
    LET t == At(s, 1) IN
    IF ~IsLit(t, "u8") THEN Fail
    ELSE IF v <= 1 THEN
      CASE t.v = 0 -> IF IsNum(At(s,2), "u64") /\ IsZeros(At(s,3), 8)
                      THEN Ok([t |-> "Plain", fee |-> SV(s[2])], Drop(s, 3)) ELSE Fail
        [] t.v = 1 -> IF IsZeros(At(s,2), 16) THEN Ok([t |-> "Coinbase"], Drop(s, 2)) ELSE Fail
        [] t.v = 2 -> IF IsNum(At(s,2), "u64") /\ IsNum(At(s,3), "u64")
                      THEN Ok([t |-> "HeightLocked", fee |-> SV(s[2]), lock |-> SV(s[3])], Drop(s, 3)) ELSE Fail
        [] t.v = 3 -> IF g.nrd /\ IsNum(At(s,2), "u64") /\ IsZeros(At(s,3), 6) /\ IsNum(At(s,4), "u16")
                         /\ At(s,4).cls \in RelOK
                      THEN Ok([t |-> "NRD", fee |-> SV(s[2]), rel |-> SV(s[4])], Drop(s, 4)) ELSE Fail
        [] OTHER -> Fail
    ELSE
      CASE t.v = 0 -> IF IsNum(At(s,2), "u64") THEN Ok([t |-> "Plain", fee |-> SV(s[2])], Drop(s, 2)) ELSE Fail
        [] t.v = 1 -> Ok([t |-> "Coinbase"], Drop(s, 1))
        [] t.v = 2 -> IF IsNum(At(s,2), "u64") /\ IsNum(At(s,3), "u64")
                      THEN Ok([t |-> "HeightLocked", fee |-> SV(s[2]), lock |-> SV(s[3])], Drop(s, 3)) ELSE Fail
        [] t.v = 3 -> IF g.nrd /\ IsNum(At(s,2), "u64") /\ IsNum(At(s,3), "u16") /\ At(s,3).cls \in RelOK
                      THEN Ok([t |-> "NRD", fee |-> SV(s[2]), rel |-> SV(s[3])], Drop(s, 3)) ELSE Fail
        [] OTHER -> Fail

(* TxKernel = features, excess (33), excess_sig (64) *)
KernWrite(x, hv, mode) == KFWrite(x.feat, hv, mode) \o <<Bytes(33, x.excess), Bytes(64, x.sig)>>
KernLay(x, v) == KernWrite(x, v, "full")
KernHLay(x)   == KernWrite(x, LocalVersion, "hash")
DecKern(s, v, g) ==
    LET a == DecKF(s, v, g) IN
    IF ~a.ok THEN Fail
    ELSE IF IsBytes(At(a.r, 1), 33) /\ IsBytes(At(a.r, 2), 64)
         THEN Ok([feat |-> a.val, excess |-> a.r[1].sym, sig |-> a.r[2].sym], Drop(a.r, 2))
         ELSE Fail

(* OutputFeatures / Input / OutputIdentifier / Output *)
OFBad == <<2, 255>>
OutIdLay(x) == <<TagL(x.f, OFBad), Bytes(33, x.c)>>      \* same for Input, all versions, hash mode too
DecOutId(s) ==
    IF IsLit(At(s,1), "u8") /\ At(s,1).v \in {0, 1} /\ IsBytes(At(s,2), 33)
    THEN Ok([f |-> s[1].v, c |-> s[2].sym], Drop(s, 2)) ELSE Fail
CommitLay(x) == <<Bytes(33, x.c)>>
DecCommit(s) == IF IsBytes(At(s,1), 33) THEN Ok([c |-> s[1].sym], Drop(s, 1)) ELSE Fail
\* RangeProof: u64 length prefix then the proof bytes.  Only full-length (675 byte)
\* proofs are in scope (see the report: RangeProof::read pads short proofs).
OutputLay(x) == OutIdLay(x) \o <<Lit("u64", ProofLen), Bytes(ProofLen, x.proof)>>
DecOutput(s) ==
    LET a == DecOutId(s) IN
    IF ~a.ok THEN Fail
    ELSE IF IsLit(At(a.r,1), "u64") /\ At(a.r,1).v = ProofLen /\ IsBytes(At(a.r,2), ProofLen)
         THEN Ok([f |-> a.val.f, c |-> a.val.c, proof |-> a.r[2].sym], Drop(a.r, 2)) ELSE Fail

-----------------------------------------------------------------------------
(* Sorted lists (hashable_ord!: order and equality are those of the hash of *)
(* the hashing form).                                                       *)
NoOp == <<"none", 0>>
SortedNode(what, items) == [k |-> "sorted", what |-> what, items |-> items, op |-> NoOp]
Item(key, body, rk, aux) == [key |-> key, body |-> body, rk |-> rk, aux |-> aux]
Listed(nd) ==
    LET it == nd.items IN
    CASE nd.op[1] = "none" -> it
      [] nd.op[1] = "swap" -> [j \in 1..Len(it) |-> IF j = nd.op[2] THEN it[j+1]
                                                    ELSE IF j = nd.op[2] + 1 THEN it[j-1] ELSE it[j]]
      [] nd.op[1] = "dup"  -> [j \in 1..Len(it) |-> IF j = nd.op[2] + 1 THEN it[j-1] ELSE it[j]]
\* verify_sorted_and_unique: strictly ascending
Ascending(its) == \A j \in 1..(Len(its) - 1) : its[j].rk < its[j+1].rk
ByRank(seq, Rk(_)) == SortSeq(seq, LAMBDA a, b : Rk(a) < Rk(b))

(* TransactionBody.  Value:                                                *)
(*  [inputs |-> [var |-> "FC"|"CO", items |-> <<[f, c, ri, rc]>> or <<[c, rc]>>], *)
(*   outputs |-> <<[f, c, proof, r]>>, kernels |-> <<[feat, excess, sig, r]>>]    *)
(* ri = rank of the Input (features+commit) hash, rc = rank of the commit  *)
(* hash; items are listed in the variant's own canonical order.            *)
Weight(ni, no, nk) == ni * InputW + no * OutputW + nk * KernelW

InputsNode(inp, v) ==
    IF v <= 2
    THEN SortedNode("inputs_fc", [j \in 1..(IF inp.var = "FC" THEN Len(inp.items) ELSE 0) |->   \* CO is writable below v3 only when empty
             LET x == inp.items[j] IN Item(OutIdLay(x), OutIdLay(x), x.ri, [ri |-> x.ri, rc |-> x.rc])])
    ELSE \* commit only: FC at v >= 3 is converted and RE-SORTED by commit hash (Inputs::write)
         LET its == ByRank(inp.items, LAMBDA x : x.rc)
         IN SortedNode("inputs_co", [j \in 1..Len(its) |->
             LET x == its[j] IN Item(CommitLay(x), CommitLay(x), x.rc, [rc |-> x.rc])])
OutputsNode(outs) == SortedNode("outputs", [j \in 1..Len(outs) |->
    LET x == outs[j] IN Item(OutIdLay(x), OutputLay(x), x.r, [r |-> x.r])])
KernelsNode(ks, v) == SortedNode("kernels", [j \in 1..Len(ks) |->
    LET x == ks[j] IN Item(KernHLay(x), KernLay(x, v), x.r, [r |-> x.r])])

BodyWritable(b, v) == ~(b.inputs.var = "CO" /\ Len(b.inputs.items) > 0 /\ v <= 2)   \* UnsupportedProtocolVersion

BodyLay(b, v, maxw) ==
    LET ni == Len(b.inputs.items)
        no == Len(b.outputs)
        nk == Len(b.kernels)
    IN << Cnt("u64", ni, no = 0 /\ nk = 0, -1),
          Cnt("u64", no, nk = 0, -1),
          Cnt("u64", nk, TRUE, (maxw - ni * InputW - no * OutputW) \div KernelW),
          InputsNode(b.inputs, v), OutputsNode(b.outputs), KernelsNode(b.kernels, v) >>

\* parse every item body of a sorted node with P, require exact consumption
DecItems(nd, P(_)) ==
    IF nd.k # "sorted" THEN Fail
    ELSE LET its == Listed(nd)
             rs  == [j \in 1..Len(its) |-> P(its[j].body)]
         IN IF \E j \in 1..Len(its) : ~rs[j].ok \/ rs[j].r # <<>> THEN Fail
            ELSE Ok([j \in 1..Len(its) |-> [val |-> rs[j].val, aux |-> its[j].aux, rk |-> its[j].rk]], <<>>)

DecBody(s, v, g) ==
    IF ~(IsLit(At(s,1), "u64") /\ IsLit(At(s,2), "u64") /\ IsLit(At(s,3), "u64")) THEN Fail
    ELSE LET ni == s[1].v   no == s[2].v   nk == s[3].v IN
    IF Weight(ni, no, nk) > MaxBlockW(g.chain) THEN Fail          \* TooLargeReadErr
    ELSE LET ins  == IF v <= 2 THEN DecItems(At(s,4), DecOutId) ELSE DecItems(At(s,4), DecCommit)
             outs == DecItems(At(s,5), DecOutput)
             kers == DecItems(At(s,6), LAMBDA b : DecKern(b, v, g))
    IN IF ~ins.ok \/ ~outs.ok \/ ~kers.ok THEN Fail
       ELSE IF Len(ins.val) # ni \/ Len(outs.val) # no \/ Len(kers.val) # nk THEN Fail   \* read_multi CountError
       ELSE IF ~(Ascending(ins.val) /\ Ascending(outs.val) /\ Ascending(kers.val)) THEN Fail  \* verified, never sorted
       ELSE Ok([inputs |-> IF v <= 2
                    THEN [var |-> "FC", items |-> [j \in 1..ni |-> [f |-> ins.val[j].val.f, c |-> ins.val[j].val.c,
                                                                  ri |-> ins.val[j].aux.ri, rc |-> ins.val[j].aux.rc]]]
                    ELSE [var |-> "CO", items |-> [j \in 1..ni |-> [c |-> ins.val[j].val.c, rc |-> ins.val[j].aux.rc]]],
                outputs |-> [j \in 1..no |-> [f |-> outs.val[j].val.f, c |-> outs.val[j].val.c,
                                              proof |-> outs.val[j].val.proof, r |-> outs.val[j].aux.r]],
                kernels |-> [j \in 1..nk |-> [feat |-> kers.val[j].val.feat, excess |-> kers.val[j].val.excess,
                                              sig |-> kers.val[j].val.sig, r |-> kers.val[j].aux.r]]],
               Drop(s, 6))

\* what a round trip at v preserves: inputs are compared by commitment where v omits features
NormInputs(inp, v) ==
    IF v <= 2 THEN (IF inp.var = "CO" THEN [var |-> "FC", items |-> <<>>] ELSE inp)   \* CO is only writable when empty
    ELSE [var |-> "CO", items |-> LET its == ByRank(inp.items, LAMBDA x : x.rc)
                                  IN [j \in 1..Len(its) |-> [c |-> its[j].c, rc |-> its[j].rc]]]
NormBody(b, v) == [b EXCEPT !.inputs = NormInputs(b.inputs, v)]

(* Transaction = offset (32) + body; Transaction::read adds validate_read  *)
TxLay(x, v, maxw) == <<Bytes(32, x.offset)>> \o BodyLay(x.body, v, maxw - OutputW - KernelW)
CommitsOf(seq) == {seq[j].c : j \in 1..Len(seq)}
DecTx(s, v, g) ==
    IF ~IsBytes(At(s,1), 32) THEN Fail
    ELSE LET b == DecBody(Drop(s, 1), v, g) IN
    IF ~b.ok THEN Fail
    ELSE LET y == b.val IN
         IF Weight(Len(y.inputs.items), Len(y.outputs), Len(y.kernels)) > MaxBlockW(g.chain) - OutputW - KernelW THEN Fail
         ELSE IF CommitsOf(y.inputs.items) \cap CommitsOf(y.outputs) # {} THEN Fail          \* cut-through
         ELSE IF \E j \in 1..Len(y.outputs) : y.outputs[j].f = 1 THEN Fail                    \* verify_features
         ELSE IF \E j \in 1..Len(y.kernels) : y.kernels[j].feat.t = "Coinbase" THEN Fail
         ELSE Ok([offset |-> s[1].sym, body |-> y], b.r)

-----------------------------------------------------------------------------
(* Proof / ProofOfWork / BlockHeader (pow/types.rs, block.rs)               *)
PadBits(eb, ps) == PadLen(eb * ps)
PackLeaf(p) == [k |-> "bitpack", w |-> p.eb, cnt |-> p.ps, sym |-> p.nonces.sym, cls |-> p.nonces.cls,
                padbits |-> PadBits(p.eb, p.ps), pad |-> "zero"]
ProofWrite(p, mode) == (IF mode = "hash" THEN <<>> ELSE <<[k |-> "u8", v |-> p.eb, role |-> "edge_bits"]>>)
                       \o <<PackLeaf(p)>>
ProofLay(p) == ProofWrite(p, "full")
ProofHLay(p) == ProofWrite(p, "hash")
PackLenBytes(eb, ps) == (eb * ps + 7) \div 8
ProofReadable(eb, ps) == eb >= 1 /\ eb <= 63 /\ PackLenBytes(eb, ps) >= 8
DecProof(s, g) ==
    LET e == At(s,1)   b == At(s,2)   ps == ProofSize(g.chain) IN
    IF ~IsLit(e, "u8") THEN Fail
    ELSE IF e.v = 0 \/ e.v > 63 THEN Fail
    ELSE IF PackLenBytes(e.v, ps) < 8 THEN Fail
    ELSE IF b.k # "bitpack" THEN Fail
    ELSE IF b.w # e.v \/ b.cnt # ps THEN Fail
    ELSE IF b.pad # "zero" THEN Fail                                   \* padding bits must be zero
    ELSE Ok([eb |-> e.v, ps |-> ps, nonces |-> SV(b)], Drop(s, 2))

PowPre(w) == <<Num("u64", w.td), Num("u32", w.ss)>>
PowWrite(w, mode) == (IF mode = "hash" THEN <<>> ELSE PowPre(w) \o <<Num("u64", w.nonce)>>) \o ProofWrite(w.proof, mode)
PowLay(w) == PowWrite(w, "full")
DecPow(s, g) ==
    IF ~(IsNum(At(s,1), "u64") /\ IsNum(At(s,2), "u32") /\ IsNum(At(s,3), "u64")) THEN Fail
    ELSE LET p == DecProof(Drop(s, 3), g) IN
         IF ~p.ok THEN Fail
         ELSE Ok([td |-> SV(s[1]), ss |-> SV(s[2]), nonce |-> SV(s[3]), proof |-> p.val], p.r)

HdrHashes == <<"prev_hash", "prev_root", "output_root", "range_proof_root", "kernel_root", "total_kernel_offset">>
TsOK == {"ts_any", "ts_zero", "ts_max", "ts_min"}
HdrPre(h) == <<Num("u16", h.version), Num("u64", h.height), Num("i64", h.ts)>>
             \o [j \in 1..6 |-> Bytes(32, h[HdrHashes[j]])]
             \o <<Num("u64", h.oms), Num("u64", h.kms)>>
HdrWrite(h, mode) == (IF mode = "hash" THEN <<>> ELSE HdrPre(h)) \o PowWrite(h.pow, mode)
HdrLay(h)  == HdrWrite(h, "full")
HdrHLay(h) == HdrWrite(h, "hash")          \* = the packed proof nonces only
DecHdr(s, g) ==
    IF ~(IsNum(At(s,1), "u16") /\ IsNum(At(s,2), "u64") /\ IsNum(At(s,3), "i64")
         /\ (\A j \in 4..9 : IsBytes(At(s,j), 32)) /\ IsNum(At(s,10), "u64") /\ IsNum(At(s,11), "u64")) THEN Fail
    ELSE LET w == DecPow(Drop(s, 11), g) IN
         IF ~w.ok THEN Fail
         ELSE IF s[3].cls \notin TsOK THEN Fail                         \* timestamp outside chrono's range
         ELSE Ok([version |-> SV(s[1]), height |-> SV(s[2]), ts |-> SV(s[3]),
                  prev_hash |-> s[4].sym, prev_root |-> s[5].sym, output_root |-> s[6].sym,
                  range_proof_root |-> s[7].sym, kernel_root |-> s[8].sym, total_kernel_offset |-> s[9].sym,
                  oms |-> SV(s[10]), kms |-> SV(s[11]), pow |-> w.val], w.r)

(* Block = header + body (no hash-mode body); CompactBlock = header, nonce, body *)
BlockLay(x, v, maxw) == HdrLay(x.header) \o BodyLay(x.body, v, maxw)
DecBlockH(s, v, g, H(_, _)) ==
    LET h == H(s, g) IN
    IF ~h.ok THEN Fail
    ELSE LET b == DecBody(h.r, v, g) IN
         IF ~b.ok THEN Fail ELSE Ok([header |-> h.val, body |-> b.val], b.r)
DecBlock(s, v, g) == DecBlockH(s, v, g, DecHdr)

KidsNode(kids) == SortedNode("kern_ids", [j \in 1..Len(kids) |->
    LET x == kids[j] IN Item(<<Bytes(6, x.id)>>, <<Bytes(6, x.id)>>, x.r, [r |-> x.r])])
DecKid(s) == IF IsBytes(At(s,1), 6) THEN Ok([id |-> s[1].sym], Drop(s, 1)) ELSE Fail
CBlockLay(x, v) ==
    HdrLay(x.header) \o
    << Num("u64", x.nonce),
       Cnt("u64", Len(x.out_full), Len(x.kern_full) = 0 /\ Len(x.kern_ids) = 0, -1),
       Cnt("u64", Len(x.kern_full), Len(x.kern_ids) = 0, -1),
       Cnt("u64", Len(x.kern_ids), TRUE, -1),
       OutputsNode(x.out_full), KernelsNode(x.kern_full, v), KidsNode(x.kern_ids) >>
DecCBlockH(s, v, g, H(_, _)) ==
    LET h == H(s, g) IN
    IF ~h.ok THEN Fail
    ELSE LET t == h.r IN
    IF ~(IsNum(At(t,1), "u64") /\ IsLit(At(t,2), "u64") /\ IsLit(At(t,3), "u64") /\ IsLit(At(t,4), "u64")) THEN Fail
    ELSE LET outs == DecItems(At(t,5), DecOutput)
             kers == DecItems(At(t,6), LAMBDA b : DecKern(b, v, g))
             kids == DecItems(At(t,7), DecKid)
    IN IF ~outs.ok \/ ~kers.ok \/ ~kids.ok THEN Fail
       ELSE IF Len(outs.val) # t[2].v \/ Len(kers.val) # t[3].v \/ Len(kids.val) # t[4].v THEN Fail
       ELSE IF ~(Ascending(outs.val) /\ Ascending(kers.val) /\ Ascending(kids.val)) THEN Fail
       ELSE Ok([header |-> h.val, nonce |-> SV(t[1]),
                out_full |-> [j \in 1..Len(outs.val) |-> [f |-> outs.val[j].val.f, c |-> outs.val[j].val.c,
                                                       proof |-> outs.val[j].val.proof, r |-> outs.val[j].aux.r]],
                kern_full |-> [j \in 1..Len(kers.val) |-> [feat |-> kers.val[j].val.feat, excess |-> kers.val[j].val.excess,
                                                        sig |-> kers.val[j].val.sig, r |-> kers.val[j].aux.r]],
                kern_ids |-> [j \in 1..Len(kids.val) |-> [id |-> kids.val[j].val.id, r |-> kids.val[j].aux.r]]],
               Drop(t, 7))
DecCBlock(s, v, g) == DecCBlockH(s, v, g, DecHdr)

(* The NETWORK readers (block.rs UntrustedBlockHeader / UntrustedBlock, compact_block.rs UntrustedCompactBlock): what a   *)
(* peer's bytes go through.  Same layouts; each has its OWN field sequence in the code: header through                    *)
(* read_block_header plus the admission rules (not too far in the future, version valid at the height, primary or          *)
(* secondary edge bits, valid proof of work, MMR sizes within the height's bound), then the body (or nonce + compact body) *)
(* and validate_read.  The proof of work is a primitive: the value class "mined" says the harness solved it for this       *)
(* header; only admissible headers are generated, every other header is refused here (an over-approximation that is never  *)
(* compared).  The canonical-form rules are those of the trusted readers - a network reader must refuse every perturbed    *)
(* body exactly as the trusted one does, never re-sort or de-duplicate it.                                                 *)
Admissible(h) == /\ h.version.cls = "one" /\ h.height.cls = "zero" /\ h.ts.cls = "ts_zero"
                 /\ h.oms.cls = "zero" /\ h.kms.cls = "zero" /\ h.pow.proof.nonces.cls = "mined"
DecUHdr(s, g) == LET h == DecHdr(s, g) IN IF h.ok /\ Admissible(h.val) THEN h ELSE Fail
DecUBlock(s, v, g) ==
    LET b == DecBlockH(s, v, g, DecUHdr) IN
    IF ~b.ok THEN Fail
    ELSE IF CommitsOf(b.val.body.inputs.items) \cap CommitsOf(b.val.body.outputs) # {} THEN Fail   \* validate_read: cut-through
    ELSE b
DecUCBlock(s, v, g) == DecCBlockH(s, v, g, DecUHdr)

-----------------------------------------------------------------------------
(* Flat records: a grammar is a sequence of [f, k] / [f, k = "bytes", n]   *)
FlatG(ty) ==
    CASE ty = "Tip" -> <<[f |-> "height", k |-> "u64"], [f |-> "last_block_h", k |-> "bytes", n |-> 32],
                         [f |-> "prev_block_h", k |-> "bytes", n |-> 32], [f |-> "total_difficulty", k |-> "u64"]>>
      [] ty = "CommitPos" -> <<[f |-> "pos", k |-> "u64"], [f |-> "height", k |-> "u64"]>>
      [] ty = "Ping" -> <<[f |-> "total_difficulty", k |-> "u64"], [f |-> "height", k |-> "u64"]>>
      [] ty = "Pong" -> <<[f |-> "total_difficulty", k |-> "u64"], [f |-> "height", k |-> "u64"]>>
      [] ty = "GetPeerAddrs" -> <<[f |-> "capabilities", k |-> "u32"]>>
      [] ty = "TxHashSetRequest" -> <<[f |-> "hash", k |-> "bytes", n |-> 32], [f |-> "height", k |-> "u64"]>>
      [] ty = "TxHashSetArchive" -> <<[f |-> "hash", k |-> "bytes", n |-> 32], [f |-> "height", k |-> "u64"],
                                      [f |-> "bytes", k |-> "u64"]>>
      [] ty = "SegmentIdentifier" -> <<[f |-> "height", k |-> "u8"], [f |-> "idx", k |-> "u64"]>>
      [] ty = "SegmentRequest" -> <<[f |-> "block_hash", k |-> "bytes", n |-> 32], [f |-> "height", k |-> "u8"],
                                    [f |-> "idx", k |-> "u64"]>>
      [] ty = "HeaderEntry" -> <<[f |-> "hash", k |-> "bytes", n |-> 32], [f |-> "timestamp", k |-> "u64"],
                                 [f |-> "total_difficulty", k |-> "u64"], [f |-> "secondary_scaling", k |-> "u32"],
                                 [f |-> "is_secondary", k |-> "u8"]>>   \* header MMR leaf (block.rs); the flag is one byte, 0 or 1 (class "bool")
FlatTypes == {"Tip", "CommitPos", "Ping", "Pong", "GetPeerAddrs", "TxHashSetRequest", "TxHashSetArchive",
              "SegmentIdentifier", "SegmentRequest", "HeaderEntry"}
FlatLay(gr, x) == [j \in 1..Len(gr) |-> IF gr[j].k = "bytes" THEN Bytes(gr[j].n, x[gr[j].f]) ELSE Num(gr[j].k, x[gr[j].f])]
FlatDec(gr, s) ==
    IF Len(s) < Len(gr) THEN Fail
    ELSE IF \E j \in 1..Len(gr) : ~(IF gr[j].k = "bytes" THEN IsBytes(s[j], gr[j].n) ELSE IsNum(s[j], gr[j].k)) THEN Fail
    ELSE Ok([f \in {gr[j].f : j \in 1..Len(gr)} |->
                LET j == CHOOSE j \in 1..Len(gr) : gr[j].f = f
                IN IF gr[j].k = "bytes" THEN s[j].sym ELSE SV(s[j])], Drop(s, Len(gr)))
FlatVal(gr, pfx, cls) == [f \in {gr[j].f : j \in 1..Len(gr)} |->
    LET j == CHOOSE j \in 1..Len(gr) : gr[j].f = f
    IN IF gr[j].k = "bytes" THEN pfx \o f ELSE NV(pfx \o f, IF f = "capabilities" THEN "caps" ELSE IF f = "is_secondary" THEN "bool" ELSE cls)]

(* PeerAddr (p2p/types.rs).  The property asks for unknown type tags to be  *)
(* refused: tag 0 = IPv4, tag 1 = IPv6.                                     *)
\* IPv6 value classes (the 16 bytes are symbolic; the class says how they are drawn).  The decoded VALUE is
\* the written one for every class: in particular ::1 (loopback), :: and the IPv4-compatible range ::a.b.c.d
\* stay IPv6 (std's to_ipv4() would fold them into 0.0.0.1 / 0.0.0.0 / a.b.c.d), and so does the mapped range
\* ::ffff:a.b.c.d under the property statement (StrictAddr).
Ip6Classes == {"ip6_native", "ip6_loopback", "ip6_unspecified", "ip6_compat"} \cup (IF StrictAddr THEN {"ip6_mapped"} ELSE {})
PABad == IF StrictAddr THEN <<2, 255>> ELSE <<>>
AddrLay(a) == IF a.fam = 4 THEN <<TagL(0, PABad), Bytes(4, a.ip), Num("u16", a.port)>>
              ELSE <<TagL(1, PABad), [k |-> "bytes", n |-> 16, sym |-> a.ip, cls |-> a.ipcls], Num("u16", a.port)>>
DecAddr(s) ==
    LET t == At(s,1) IN
    IF ~IsLit(t, "u8") THEN Fail
    ELSE IF t.v = 0 THEN (IF IsBytes(At(s,2), 4) /\ IsNum(At(s,3), "u16")
                          THEN Ok([fam |-> 4, ip |-> s[2].sym, port |-> SV(s[3])], Drop(s, 3)) ELSE Fail)
    ELSE IF t.v = 1 \/ ~StrictAddr THEN (IF IsBytes(At(s,2), 16) /\ IsNum(At(s,3), "u16")
                          THEN Ok([fam |-> 6, ip |-> s[2].sym, ipcls |-> s[2].cls, port |-> SV(s[3])], Drop(s, 3)) ELSE Fail)
    ELSE Fail

DecMany(s, n, P(_)) ==
    LET st[i \in 0..n] ==
          IF i = 0 THEN Ok(<<>>, s)
          ELSE LET prev == st[i-1] IN
               IF ~prev.ok THEN Fail
               ELSE LET a == P(prev.r) IN IF ~a.ok THEN Fail ELSE Ok(Append(prev.val, a.val), a.r)
    IN st[n]

PeerAddrsLay(x) == <<Cnt("u32", Len(x.peers), TRUE, MaxPeerAddrs)>> \o Flatten([j \in 1..Len(x.peers) |-> AddrLay(x.peers[j])])
DecPeerAddrs(s) ==
    IF ~IsLit(At(s,1), "u32") THEN Fail
    ELSE IF s[1].v > MaxPeerAddrs THEN Fail
    ELSE LET m == DecMany(Drop(s, 1), s[1].v, DecAddr) IN
         IF ~m.ok THEN Fail ELSE Ok([peers |-> m.val], m.r)

DecHash(s) == IF IsBytes(At(s,1), 32) THEN Ok(s[1].sym, Drop(s, 1)) ELSE Fail
LocatorLay(x) == <<Cnt("u8", Len(x.hashes), TRUE, MaxLocators)>> \o [j \in 1..Len(x.hashes) |-> Bytes(32, x.hashes[j])]
DecLocator(s) ==
    IF ~IsLit(At(s,1), "u8") THEN Fail
    ELSE IF s[1].v > MaxLocators THEN Fail
    ELSE LET m == DecMany(Drop(s, 1), s[1].v, DecHash) IN
         IF ~m.ok THEN Fail ELSE Ok([hashes |-> m.val], m.r)

(* Hand / Shake: user agent is a u64-length-prefixed string *)
UaLay(x) == <<Lit("u64", x.ualen), [k |-> "bytes", n |-> x.ualen, sym |-> x.ua, cls |-> "ascii"]>>
HandLay(x) == <<Num("u32", x.version), Num("u32", x.capabilities), Num("u64", x.nonce), Num("u64", x.total_difficulty)>>
              \o AddrLay(x.sender_addr) \o AddrLay(x.receiver_addr) \o UaLay(x) \o <<Bytes(32, x.genesis)>>
DecUa(s) == IF IsLit(At(s,1), "u64") /\ At(s,2).k = "bytes" /\ At(s,2).n = s[1].v
            THEN Ok([ualen |-> s[1].v, ua |-> s[2].sym], Drop(s, 2)) ELSE Fail
DecHand(s) ==
    IF ~(IsNum(At(s,1), "u32") /\ IsNum(At(s,2), "u32") /\ IsNum(At(s,3), "u64") /\ IsNum(At(s,4), "u64")) THEN Fail
    ELSE LET a == DecAddr(Drop(s, 4)) IN IF ~a.ok THEN Fail
    ELSE LET b == DecAddr(a.r) IN IF ~b.ok THEN Fail
    ELSE LET u == DecUa(b.r) IN IF ~u.ok THEN Fail
    ELSE IF ~IsBytes(At(u.r, 1), 32) THEN Fail
    ELSE Ok([version |-> SV(s[1]), capabilities |-> SV(s[2]), nonce |-> SV(s[3]), total_difficulty |-> SV(s[4]),
             sender_addr |-> a.val, receiver_addr |-> b.val, ualen |-> u.val.ualen, ua |-> u.val.ua,
             genesis |-> u.r[1].sym], Drop(u.r, 1))
ShakeLay(x) == <<Num("u32", x.version), Num("u32", x.capabilities), Num("u64", x.total_difficulty)>>
               \o UaLay(x) \o <<Bytes(32, x.genesis)>>
DecShake(s) ==
    IF ~(IsNum(At(s,1), "u32") /\ IsNum(At(s,2), "u32") /\ IsNum(At(s,3), "u64")) THEN Fail
    ELSE LET u == DecUa(Drop(s, 3)) IN IF ~u.ok THEN Fail
    ELSE IF ~IsBytes(At(u.r, 1), 32) THEN Fail
    ELSE Ok([version |-> SV(s[1]), capabilities |-> SV(s[2]), total_difficulty |-> SV(s[3]),
             ualen |-> u.val.ualen, ua |-> u.val.ua, genesis |-> u.r[1].sym], Drop(u.r, 1))

(* Headers message: u16 count + headers.  There is no Readable for it (the *)
(* codec streams the items), so only the layout is bound.                  *)
HeadersLay(x) == <<Cnt("u16", Len(x.headers), TRUE, -1)>> \o Flatten([j \in 1..Len(x.headers) |-> HdrLay(x.headers[j])])

-----------------------------------------------------------------------------
(* Segments (pmmr/segment.rs): positions are written 1-based and must be    *)
(* strictly increasing.                                                     *)
PosLeaf(p) == [k |-> "u64", v |-> 1 + p, role |-> "pos"]
SegProofLay(hs) == <<Cnt("u64", Len(hs), TRUE, -1)>> \o [j \in 1..Len(hs) |-> Bytes(32, hs[j])]
SegLay(x, v, LeafLay(_, _)) ==
    <<Num("u8", x.id.height), Num("u64", x.id.idx)>>
    \o <<Cnt("u64", Len(x.hashes), FALSE, -1)>> \o [j \in 1..Len(x.hpos) |-> PosLeaf(x.hpos[j])]
    \o [j \in 1..Len(x.hashes) |-> Bytes(32, x.hashes[j])]
    \o <<Cnt("u64", Len(x.leaves), FALSE, -1)>> \o [j \in 1..Len(x.lpos) |-> PosLeaf(x.lpos[j])]
    \o Flatten([j \in 1..Len(x.leaves) |-> LeafLay(x.leaves[j], v)])
    \o SegProofLay(x.proof)
RECURSIVE DecPositions(_, _, _)
DecPositions(s, n, last) ==
    IF n = 0 THEN Ok(<<>>, s)
    ELSE IF ~IsLit(At(s,1), "u64") THEN Fail
    ELSE IF s[1].v <= last THEN Fail                               \* SortError: 0, unsorted or duplicate
    ELSE LET b == DecPositions(Drop(s, 1), n - 1, s[1].v) IN
         IF ~b.ok THEN Fail ELSE Ok(<<s[1].v - 1>> \o b.val, b.r)
DecSeg(s, P(_)) ==
    IF ~(IsNum(At(s,1), "u8") /\ IsNum(At(s,2), "u64") /\ IsLit(At(s,3), "u64")) THEN Fail
    ELSE LET hp == DecPositions(Drop(s, 3), s[3].v, 0) IN IF ~hp.ok THEN Fail
    ELSE LET hh == DecMany(hp.r, s[3].v, DecHash) IN IF ~hh.ok THEN Fail
    ELSE IF ~IsLit(At(hh.r, 1), "u64") THEN Fail
    ELSE LET nl == hh.r[1].v
             lp == DecPositions(Drop(hh.r, 1), nl, 0) IN IF ~lp.ok THEN Fail
    ELSE LET ld == DecMany(lp.r, nl, P) IN IF ~ld.ok THEN Fail
    ELSE IF ~IsLit(At(ld.r, 1), "u64") THEN Fail
    ELSE LET ph == DecMany(Drop(ld.r, 1), ld.r[1].v, DecHash) IN IF ~ph.ok THEN Fail
    ELSE Ok([id |-> [height |-> SV(s[1]), idx |-> SV(s[2])], hpos |-> hp.val, hashes |-> hh.val,
             lpos |-> lp.val, leaves |-> ld.val, proof |-> ph.val], ph.r)

(* BitmapSegment / BitmapBlock (bitmap_accumulator.rs)                      *)
ChunkBits == 1024
BlockChunks == 64
Threshold == 4096
BmBad == <<3, 255>>
BlockMode(b) == IF b.npos < Threshold THEN 1 ELSE IF b.nch * ChunkBits - b.npos < Threshold THEN 2 ELSE 0
BmBlockLay(b) ==
    LET nbits == b.nch * ChunkBits
        m == BlockMode(b)
    IN <<Lit("u8", b.nch), TagL(m, BmBad)>> \o
       (CASE m = 1 -> <<Lit("u16", b.npos), [k |-> "bitidx", sym |-> b.sym, nbits |-> nbits, npos |-> b.npos, neg |-> FALSE, oob |-> FALSE]>>
          [] m = 2 -> <<Lit("u16", nbits - b.npos), [k |-> "bitidx", sym |-> b.sym, nbits |-> nbits, npos |-> b.npos, neg |-> TRUE, oob |-> FALSE]>>
          [] m = 0 -> <<[k |-> "bitraw", sym |-> b.sym, nbits |-> nbits, npos |-> b.npos]>>)
\* The segment height is a literal: it decides the capacity of the segment (2^height chunks of 1024 bits),
\* BitmapSegment::max_chunks / validate_blocks.  Heights above BmMaxHeight are refused by the reader.
BmMaxHeight == 13
BmCapacity(h) == 2^h
BmHeightLeaf(h) == [k |-> "u8", v |-> h, role |-> "seg_height"]
BmSegLay(x) ==
    <<BmHeightLeaf(x.id.height), Num("u64", x.id.idx), [k |-> "u16", v |-> Len(x.blocks), role |-> "nblocks"]>>
    \o Flatten([j \in 1..Len(x.blocks) |-> BmBlockLay(x.blocks[j])]) \o SegProofLay(x.proof)
DecBmBlock(s) ==
    IF ~(IsLit(At(s,1), "u8") /\ IsLit(At(s,2), "u8")) THEN Fail
    ELSE IF s[1].v > BlockChunks THEN Fail
    ELSE LET nbits == s[1].v * ChunkBits   m == s[2].v IN
    IF m = 0 THEN (IF At(s,3).k = "bitraw" /\ At(s,3).nbits = nbits
                   THEN Ok([nch |-> s[1].v, npos |-> s[3].npos, sym |-> s[3].sym], Drop(s, 3)) ELSE Fail)
    ELSE IF m \in {1, 2} THEN
        (IF IsLit(At(s,3), "u16") /\ At(s,4).k = "bitidx" /\ At(s,4).nbits = nbits /\ At(s,4).neg = (m = 2)
            /\ ~At(s,4).oob                                            \* index >= n_bits refused
            /\ s[3].v = (IF m = 1 THEN s[4].npos ELSE nbits - s[4].npos)
         THEN Ok([nch |-> s[1].v, npos |-> s[4].npos, sym |-> s[4].sym], Drop(s, 4)) ELSE Fail)
    ELSE Fail
\* ceiling division: a segment of height < 6 (fewer than 64 chunks) still occupies ONE block
BmMaxBlocks(h) == (BmCapacity(h) + BlockChunks - 1) \div BlockChunks
DecBmSeg(s) ==
    IF ~(IsLit(At(s,1), "u8") /\ IsNum(At(s,2), "u64") /\ IsLit(At(s,3), "u16")) THEN Fail
    ELSE LET h == s[1].v   nb == s[3].v IN
    IF nb = 0 THEN Fail
    ELSE IF h > BmMaxHeight THEN Fail                                  \* max_chunks: TooLargeReadErr
    ELSE IF nb > BmMaxBlocks(h) THEN Fail
    ELSE LET bl == DecMany(Drop(s, 3), nb, DecBmBlock) IN IF ~bl.ok THEN Fail
    ELSE IF \E j \in 1..(nb - 1) : bl.val[j].nch # BlockChunks THEN Fail
    ELSE IF bl.val[nb].nch = 0 THEN Fail
    ELSE IF (nb - 1) * BlockChunks + bl.val[nb].nch > BmCapacity(h) THEN Fail   \* validate_blocks: more chunks than the height holds
    ELSE IF ~IsLit(At(bl.r, 1), "u64") THEN Fail
    ELSE LET ph == DecMany(Drop(bl.r, 1), bl.r[1].v, DecHash) IN IF ~ph.ok THEN Fail
    ELSE Ok([id |-> [height |-> h, idx |-> SV(s[2])], blocks |-> bl.val, proof |-> ph.val], ph.r)

-----------------------------------------------------------------------------
(* PIBD sync messages (p2p/msg.rs): the segment responses wrap a segment    *)
(* between the block hash and (for outputs / bitmap) the root of the OTHER   *)
(* MMR.  Segment<RangeProof> has a length-prefixed leaf (only full-length    *)
(* proofs are in scope, as for Output).                                      *)
RProofLay(x) == <<Lit("u64", ProofLen), Bytes(ProofLen, x.proof)>>
DecRProof(s) == IF IsLit(At(s,1), "u64") /\ At(s,1).v = ProofLen /\ IsBytes(At(s,2), ProofLen)
                THEN Ok([proof |-> s[2].sym], Drop(s, 2)) ELSE Fail
SegLeafLay(lt, y, w) == CASE lt = "kernel" -> KernLay(y, w) [] lt = "outid" -> OutIdLay(y) [] lt = "rproof" -> RProofLay(y)
SegLeafDec(lt, b, v, g) == CASE lt = "kernel" -> DecKern(b, v, g) [] lt = "outid" -> DecOutId(b) [] lt = "rproof" -> DecRProof(b)
SegRespLay(x, v, lt) == <<Bytes(32, x.block_hash)>> \o SegLay(x.segment, v, LAMBDA y, w : SegLeafLay(lt, y, w))
DecSegResp(s, v, g, lt) ==
    IF ~IsBytes(At(s,1), 32) THEN Fail
    ELSE LET a == DecSeg(Drop(s, 1), LAMBDA b : SegLeafDec(lt, b, v, g)) IN
         IF ~a.ok THEN Fail ELSE Ok([block_hash |-> s[1].sym, segment |-> a.val], a.r)
OutSegRespLay(x, v) == SegRespLay(x.response, v, "outid") \o <<Bytes(32, x.output_bitmap_root)>>
DecOutSegResp(s, v, g) ==
    LET a == DecSegResp(s, v, g, "outid") IN
    IF ~a.ok THEN Fail
    ELSE IF ~IsBytes(At(a.r, 1), 32) THEN Fail
    ELSE Ok([response |-> a.val, output_bitmap_root |-> a.r[1].sym], Drop(a.r, 1))
BmSegRespLay(x) == <<Bytes(32, x.block_hash)>> \o BmSegLay(x.segment) \o <<Bytes(32, x.output_root)>>
DecBmSegResp(s) ==
    IF ~IsBytes(At(s,1), 32) THEN Fail
    ELSE LET a == DecBmSeg(Drop(s, 1)) IN
    IF ~a.ok THEN Fail
    ELSE IF ~IsBytes(At(a.r, 1), 32) THEN Fail
    ELSE Ok([block_hash |-> s[1].sym, segment |-> a.val, output_root |-> a.r[1].sym], Drop(a.r, 1))

(* PeerError: code + length-prefixed utf8 message; BlockSums: two commitments; MerkleProof: mmr size, u64 path   *)
(* count (at most MaxMerklePath entries), hashes                                                                 *)
MaxMerklePath == 128
PeerErrorLay(x) == <<Num("u32", x.code), Lit("u64", x.msglen), [k |-> "bytes", n |-> x.msglen, sym |-> x.msg, cls |-> "ascii"]>>
DecPeerError(s) == IF IsNum(At(s,1), "u32") /\ IsLit(At(s,2), "u64") /\ At(s,3).k = "bytes" /\ At(s,3).n = s[2].v
                   THEN Ok([code |-> SV(s[1]), msglen |-> s[2].v, msg |-> s[3].sym], Drop(s, 3)) ELSE Fail
BlockSumsLay(x) == <<Bytes(33, x.utxo_sum), Bytes(33, x.kernel_sum)>>
DecBlockSums(s) == IF IsBytes(At(s,1), 33) /\ IsBytes(At(s,2), 33)
                   THEN Ok([utxo_sum |-> s[1].sym, kernel_sum |-> s[2].sym], Drop(s, 2)) ELSE Fail
MerkleProofLay(x) == <<Num("u64", x.mmr_size), Cnt("u64", Len(x.path), TRUE, MaxMerklePath)>> \o [j \in 1..Len(x.path) |-> Bytes(32, x.path[j])]
DecMerkleProof(s) ==
    IF ~(IsNum(At(s,1), "u64") /\ IsLit(At(s,2), "u64")) THEN Fail
    ELSE IF s[2].v > MaxMerklePath THEN Fail
    ELSE LET m == DecMany(Drop(s, 2), s[2].v, DecHash) IN
         IF ~m.ok THEN Fail ELSE Ok([mmr_size |-> SV(s[1]), path |-> m.val], m.r)

-----------------------------------------------------------------------------
(* Dispatch.  g = [nrd |-> BOOLEAN, chain |-> "auto" | "main"]              *)

Writable(ty, x, v) ==
    CASE ty \in {"TransactionBody"} -> BodyWritable(x, v)
      [] ty = "Transaction" -> BodyWritable(x.body, v)
      [] ty = "Block" -> BodyWritable(x.body, v)
      [] OTHER -> TRUE

Lay(ty, x, v, g) ==
    CASE ty = "KernelFeatures" -> KFLay(x, v)
      [] ty = "TxKernel" -> KernLay(x, v)
      [] ty \in {"Input", "OutputIdentifier"} -> OutIdLay(x)
      [] ty = "Output" -> OutputLay(x)
      [] ty = "TransactionBody" -> BodyLay(x, v, MaxBlockW(g.chain))
      [] ty = "Transaction" -> TxLay(x, v, MaxBlockW(g.chain))
      [] ty = "Proof" -> ProofLay(x)
      [] ty = "ProofOfWork" -> PowLay(x)
      [] ty = "BlockHeader" -> HdrLay(x)
      [] ty = "Block" -> BlockLay(x, v, MaxBlockW(g.chain))
      [] ty = "CompactBlock" -> CBlockLay(x, v)
      [] ty \in FlatTypes -> FlatLay(FlatG(ty), x)
      [] ty = "PeerAddr" -> AddrLay(x)
      [] ty = "PeerAddrs" -> PeerAddrsLay(x)
      [] ty = "Locator" -> LocatorLay(x)
      [] ty = "Hand" -> HandLay(x)
      [] ty = "Shake" -> ShakeLay(x)
      [] ty = "Headers" -> HeadersLay(x)
      [] ty = "SegmentProof" -> SegProofLay(x.proof)
      [] ty = "SegmentOutId" -> SegLay(x, v, LAMBDA y, w : OutIdLay(y))
      [] ty = "SegmentKernel" -> SegLay(x, v, LAMBDA y, w : KernLay(y, w))
      [] ty = "BitmapSegment" -> BmSegLay(x)
      [] ty = "SegmentRangeProof" -> SegLay(x, v, LAMBDA y, w : RProofLay(y))
      [] ty = "SegmentResponseKernel" -> SegRespLay(x, v, "kernel")
      [] ty = "SegmentResponseRangeProof" -> SegRespLay(x, v, "rproof")
      [] ty = "OutputSegmentResponse" -> OutSegRespLay(x, v)
      [] ty = "OutputBitmapSegmentResponse" -> BmSegRespLay(x)
      [] ty = "PeerError" -> PeerErrorLay(x)
      [] ty = "BlockSums" -> BlockSumsLay(x)
      [] ty = "MerkleProof" -> MerkleProofLay(x)

Dec(ty, s, v, g) ==
    CASE ty = "KernelFeatures" -> DecKF(s, v, g)
      [] ty = "TxKernel" -> DecKern(s, v, g)
      [] ty \in {"Input", "OutputIdentifier"} -> DecOutId(s)
      [] ty = "Output" -> DecOutput(s)
      [] ty = "TransactionBody" -> DecBody(s, v, g)
      [] ty = "Transaction" -> DecTx(s, v, g)
      [] ty = "Proof" -> DecProof(s, g)
      [] ty = "ProofOfWork" -> DecPow(s, g)
      [] ty = "BlockHeader" -> DecHdr(s, g)
      [] ty = "Block" -> DecBlock(s, v, g)
      [] ty = "CompactBlock" -> DecCBlock(s, v, g)
      [] ty \in FlatTypes -> FlatDec(FlatG(ty), s)
      [] ty = "PeerAddr" -> DecAddr(s)
      [] ty = "PeerAddrs" -> DecPeerAddrs(s)
      [] ty = "Locator" -> DecLocator(s)
      [] ty = "Hand" -> DecHand(s)
      [] ty = "Shake" -> DecShake(s)
      [] ty = "SegmentProof" -> LET a == (IF IsLit(At(s,1), "u64") THEN DecMany(Drop(s, 1), s[1].v, DecHash) ELSE Fail)
                                IN IF a.ok THEN Ok([proof |-> a.val], a.r) ELSE Fail
      [] ty = "SegmentOutId" -> DecSeg(s, DecOutId)
      [] ty = "SegmentKernel" -> DecSeg(s, LAMBDA b : DecKern(b, v, g))
      [] ty = "BitmapSegment" -> DecBmSeg(s)
      [] ty = "SegmentRangeProof" -> DecSeg(s, DecRProof)
      [] ty = "SegmentResponseKernel" -> DecSegResp(s, v, g, "kernel")
      [] ty = "SegmentResponseRangeProof" -> DecSegResp(s, v, g, "rproof")
      [] ty = "OutputSegmentResponse" -> DecOutSegResp(s, v, g)
      [] ty = "OutputBitmapSegmentResponse" -> DecBmSegResp(s)
      [] ty = "PeerError" -> DecPeerError(s)
      [] ty = "BlockSums" -> DecBlockSums(s)
      [] ty = "MerkleProof" -> DecMerkleProof(s)

HasDecoder(ty) == ty # "Headers"

\* via = "trusted": the Readable of the type itself; via = "untrusted": the network reader of the same layout
UntrustedTypes == {"BlockHeader", "Block", "CompactBlock"}
DecVia(via, ty, s, v, g) ==
    IF via = "untrusted"
    THEN CASE ty = "BlockHeader" -> DecUHdr(s, g) [] ty = "Block" -> DecUBlock(s, v, g) [] ty = "CompactBlock" -> DecUCBlock(s, v, g)
    ELSE Dec(ty, s, v, g)

Norm(ty, x, v) ==
    CASE ty = "TransactionBody" -> NormBody(x, v)
      [] ty = "Transaction" -> [x EXCEPT !.body = NormBody(x.body, v)]
      [] ty = "Block" -> [x EXCEPT !.body = NormBody(x.body, v)]
      [] OTHER -> x

(* Identity hashes named by the property: header, kernel, output, block.   *)
(* hv = the version the hash writer reports (HashWriter: local()).         *)
HashTypes == {"TxKernel", "Input", "OutputIdentifier", "Output", "BlockHeader", "Block", "CompactBlock", "Proof"}
HWrite(ty, x, hv) ==
    CASE ty = "TxKernel" -> KernWrite(x, hv, "hash")
      [] ty \in {"Input", "OutputIdentifier", "Output"} -> OutIdLay(x)   \* an output is identified by its OutputIdentifier
      [] ty = "BlockHeader" -> HdrWrite(x, "hash")
      [] ty \in {"Block", "CompactBlock"} -> HdrWrite(x.header, "hash")
      [] ty = "Proof" -> ProofWrite(x, "hash")
HLay(ty, x) == HWrite(ty, x, LocalVersion)

-----------------------------------------------------------------------------
(* Perturbations touching a canonical-form rule.  Each is a rewrite of ONE  *)
(* leaf (possibly inside an item of a sorted node) and must be refused.     *)
LeafPerts(l) ==
    (IF l.k = "zeros" THEN {[cls |-> "reserved_nonzero", leaf |-> [k |-> "nonzero", n |-> l.n]]} ELSE {})
    \cup (IF "role" \in DOMAIN l /\ l.role = "tag"
          THEN {[cls |-> "unknown_tag", leaf |-> Lit("u8", l.bad[j])] : j \in 1..Len(l.bad)} ELSE {})
    \cup (IF "role" \in DOMAIN l /\ l.role = "count" /\ l.last
          THEN {[cls |-> "count_mismatch", leaf |-> Lit(l.k, l.v + 1)]} ELSE {})
    \cup (IF "role" \in DOMAIN l /\ l.role = "count" /\ l.lim >= 0
          THEN {[cls |-> "count_over_limit", leaf |-> Lit(l.k, l.lim + 1)]} ELSE {})
    \cup (IF "role" \in DOMAIN l /\ l.role = "nblocks"
          THEN {[cls |-> "count_zero", leaf |-> Lit(l.k, 0)]} ELSE {})
    \cup (IF "role" \in DOMAIN l /\ l.role = "seg_height"
          THEN {[cls |-> "segment_height_range", leaf |-> Lit("u8", e)] : e \in {BmMaxHeight + 1, 64, 255}} ELSE {})
    \cup (IF "role" \in DOMAIN l /\ l.role = "edge_bits"
          THEN {[cls |-> "edge_bits_range", leaf |-> Lit("u8", e)] : e \in {0, 64, 255}} ELSE {})
    \cup (IF l.k = "bitpack" /\ l.padbits > 0
          THEN {[cls |-> "padding_nonzero", leaf |-> [l EXCEPT !.pad = "nonzero"]]} ELSE {})
    \cup (IF l.k = "bitidx" /\ l.npos > 0 /\ l.nbits < 65536 /\ ~l.neg
          THEN {[cls |-> "index_out_of_range", leaf |-> [l EXCEPT !.oob = TRUE]]} ELSE {})
    \cup (IF "cls" \in DOMAIN l /\ l.cls \in RelOK
          THEN {[cls |-> "nrd_height_range", leaf |-> [l EXCEPT !.cls = c]] : c \in RelBad} ELSE {})
    \cup (IF l.k = "sorted" /\ Len(l.items) >= 2
          THEN {[cls |-> "unsorted", leaf |-> [l EXCEPT !.op = <<"swap", i>>]] : i \in {1, Len(l.items) - 1}}
               \cup {[cls |-> "duplicate", leaf |-> [l EXCEPT !.op = <<"dup", i>>]] : i \in {1, Len(l.items) - 1}}
          ELSE {})
\* positions of a segment: swap two neighbours / repeat one
PosPerts(lay) ==
    {[cls |-> "positions_unsorted", at |-> i, lay |-> [lay EXCEPT ![i] = lay[i+1], ![i+1] = lay[i]]] :
        i \in {i \in 1..(Len(lay) - 1) : "role" \in DOMAIN lay[i] /\ lay[i].role = "pos"
                                         /\ "role" \in DOMAIN lay[i+1] /\ lay[i+1].role = "pos"}}
    \cup {[cls |-> "positions_duplicate", at |-> i, lay |-> [lay EXCEPT ![i+1] = lay[i]]] :
        i \in {i \in 1..(Len(lay) - 1) : "role" \in DOMAIN lay[i] /\ lay[i].role = "pos"
                                         /\ "role" \in DOMAIN lay[i+1] /\ lay[i+1].role = "pos"}}
    \cup {[cls |-> "positions_zero", at |-> i, lay |-> [lay EXCEPT ![i] = [lay[i] EXCEPT !.v = 0]]] :
        i \in {i \in 1..Len(lay) : "role" \in DOMAIN lay[i] /\ lay[i].role = "pos"
                                   /\ (i = 1 \/ ~("role" \in DOMAIN lay[i-1] /\ lay[i-1].role = "pos"))}}

\* items of a sorted node that get inner-leaf perturbations: first and last only
InnerItems(l) == IF Len(l.items) = 0 THEN {} ELSE {1, Len(l.items)}
Perts(lay) ==
    UNION { {[cls |-> p.cls, at |-> i, lay |-> [lay EXCEPT ![i] = p.leaf]] : p \in LeafPerts(lay[i])} : i \in 1..Len(lay) }
    \cup UNION { UNION { UNION { {[cls |-> p.cls, at |-> i,
                          lay |-> [lay EXCEPT ![i] = [lay[i] EXCEPT !.items =
                                     [lay[i].items EXCEPT ![j] = [lay[i].items[j] EXCEPT !.body = [lay[i].items[j].body EXCEPT ![m] = p.leaf]]]]]]
                                  : p \in LeafPerts(lay[i].items[j].body[m])}
                               : m \in 1..Len(lay[i].items[j].body) }
                       : j \in InnerItems(lay[i]) }
               : i \in {i \in 1..Len(lay) : lay[i].k = "sorted"} }
    \cup PosPerts(lay)
=============================================================================
