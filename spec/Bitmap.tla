------------------------------- MODULE Bitmap -------------------------------
(***************************************************************************)
(* Property C15: the unspent-output bitmap commitment is independent of    *)
(* the path taken.                                                         *)
(*                                                                         *)
(* Code: chain/src/txhashset/bitmap_accumulator.rs (BitmapAccumulator) and *)
(* the protocol by which chain/src/txhashset/txhashset.rs drives it        *)
(* (apply_block, rewind, rewind_single_block, apply_to_bitmap_accumulator, *)
(* TxHashSet::open).                                                       *)
(*                                                                         *)
(* State: uns  - the set of unspent output leaf indices (0-based insertion *)
(*               indices of the output MMR; the leaf set),                 *)
(*        size - number of output leaves,                                  *)
(*        acc  - the IMPLEMENTATION-SHAPED accumulator: the sequence of    *)
(*               chunks held by the chunk MMR; a chunk is the set of bit   *)
(*               offsets (0..NBITS-1) set in it.  A chunk appended lands   *)
(*               at the next free MMR leaf slot whatever chunk index the   *)
(*               caller had in mind (as in append_chunk).                  *)
(* The definitional oracle FromScratch(set, size) is kept apart from the   *)
(* incremental algorithm (rewind_prior / pad_left / apply_from), so that   *)
(* TLC checks the design: AccIsFromScratch must hold after every sequence  *)
(* of block applications, rewinds and restarts.                            *)
(* Hash terms of the chunk MMR come from MMR.tla (leaf <<"L", pos, i>> =   *)
(* hash_with_index(pos) over the 128-byte serialisation of chunk i).       *)
(***************************************************************************)
EXTENDS Naturals, Integers, Sequences, FiniteSets, FiniteSetsExt, SequencesExt

CONSTANTS Pool,            \* leaf indices that may ever be unspent in the model
          Sizes,           \* output-leaf counts a block boundary may have
          NBITS,           \* bits per chunk (1024)
          UseLoop,         \* TRUE: actions use the literal apply_from loop; FALSE: its closed form
          Proto,           \* "code" | "no_size_on_rewind" | "no_created_on_apply" | "iter_from_min" (design probes)
          RequireLastLeaf  \* environment fact: at every block boundary the last output leaf is unspent

VARIABLES uns, size, acc
vars == <<uns, size, acc>>

M == INSTANCE MMR WITH m <- <<>>, MaxLeaves <- 64, TermLeaves <- 64

-----------------------------------------------------------------------------
(* bitmap_accumulator.rs, transcribed *)

ChunkIdx(i) == i \div NBITS                 \* chunk_idx
ChunkStartIdx(i) == i - (i % NBITS)         \* chunk_start_idx: idx & !(NBITS - 1)

Sorted(S) == SetToSortSeq(S, LAMBDA a, b : a < b)

\* apply_from, literal: `it` is the iterator handed in (a sequence), filtered by x < sz;
\* chunks are appended at the end of `a`.
RECURSIVE AFLoop(_, _, _, _, _, _)
AFLoop(a, it, k, cidx, chunk, sz) ==
  IF k > Len(it) THEN (IF chunk # {} THEN Append(a, chunk) ELSE a)      \* if chunk.any() { append }
  ELSE LET x == it[k] IN
       IF x >= sz THEN AFLoop(a, it, k + 1, cidx, chunk, sz)            \* .filter(|&x| x < size)
       ELSE IF x < cidx * NBITS THEN AFLoop(a, it, k + 1, cidx, chunk, sz)            \* skip
       ELSE IF x < (cidx + 1) * NBITS THEN AFLoop(a, it, k + 1, cidx, chunk \cup {x % NBITS}, sz)
       ELSE AFLoop(Append(a, chunk), it, k, cidx + 1, {}, sz)           \* append (maybe all-zero), next chunk
ApplyFromL(a, S, fromIdx, sz) == AFLoop(a, Sorted(S), 1, ChunkIdx(fromIdx), {}, sz)

\* apply_from, closed form of the loop (checked equal to the loop by LoopEqClosed)
ChunkOf(T, j) == {x % NBITS : x \in {y \in T : ChunkIdx(y) = j}}
ApplyFromC(a, S, fromIdx, sz) ==
  LET c == ChunkIdx(fromIdx)
      T == {x \in S : x < sz /\ x >= c * NBITS}
  IN IF T = {} THEN a
     ELSE LET k == Max({ChunkIdx(x) : x \in T})
          IN a \o [j \in 1..(k - c + 1) |-> ChunkOf(T, c + j - 1)]

ApplyFrom(a, S, fromIdx, sz) == IF UseLoop THEN ApplyFromL(a, S, fromIdx, sz) ELSE ApplyFromC(a, S, fromIdx, sz)

\* rewind_prior: truncate to the chunks before the one holding fromIdx (no-op when shorter)
RewindPrior(a, fromIdx) == SubSeq(a, 1, IF Len(a) < ChunkIdx(fromIdx) THEN Len(a) ELSE ChunkIdx(fromIdx))
\* pad_left: all-zero chunks up to the chunk holding fromIdx
PadLeft(a, fromIdx) == a \o [j \in 1..(ChunkIdx(fromIdx) - Len(a)) |-> {}]

\* BitmapAccumulator::apply(invalidated_idx, idx, size): only the first invalidated index is used
AccApply(a, inval, S, sz) ==
  IF inval = <<>> THEN a
  ELSE LET f == inval[1] IN ApplyFrom(PadLeft(RewindPrior(a, f), f), S, f, sz)

\* BitmapAccumulator::init(idx, size)
AccInit(S, sz) == ApplyFrom(<<>>, S, 0, sz)

\* as_bitmap
AsBitmap(a) == UNION {{(j - 1) * NBITS + o : o \in a[j]} : j \in 1..Len(a)}

-----------------------------------------------------------------------------
(* Definitional oracle: the committed object for (set, size) is the list of *)
(* NBITS-bit chunks covering the indices below size, interior all-zero      *)
(* chunks kept, trailing all-zero chunks omitted, in a chunk MMR.           *)

FromScratch(S, sz) ==
  LET T == {x \in S : x < sz}
  IN IF T = {} THEN <<>>
     ELSE [j \in 1..(Max({ChunkIdx(x) : x \in T}) + 1) |-> ChunkOf(T, j - 1)]

RECURSIVE MMROf(_)
MMROf(n) == IF n = 0 THEN M!Empty ELSE M!AppendLeaf(MMROf(n - 1))
\* root of a chunk MMR with n leaves; leaf i (0-based) is the term <<"L", pos, i>>; "ZERO" when empty
RootTermN(n) == M!RootTerm(MMROf(n))
\* a commitment = (root term shape, chunk contents)
Commitment(a) == <<RootTermN(Len(a)), a>>

-----------------------------------------------------------------------------
(* txhashset.rs protocol: which indices the caller declares affected        *)

\* 1-based position of the i-th (0-based) leaf, and the code's mapping back
Pos1OfLeaf(i) == M!InsertionToPmmrIndexC(i) + 1
MMRSizeOfLeaves(n) == M!InsertionToPmmrIndexC(n)
IdxOfPos(p) == LET n == M!NLeavesC(p) IN IF n = 0 THEN 0 ELSE n - 1      \* n_leaves(pos).saturating_sub(1)

LeafIter(U, fromIdx) == {x \in U : x >= fromIdx}                         \* leaf_idx_iter(from_idx)

\* apply_to_bitmap_accumulator(output_pos) with the leaf set U and leaf count sz already updated
ToAccumulator(a, affectedPos, U, sz) ==
  LET idx == {IdxOfPos(p) : p \in affectedPos}
      minIdx == IF idx = {} THEN 0 ELSE Min(idx)
      start == IF Proto = "iter_from_min" THEN minIdx ELSE ChunkStartIdx(minIdx)
  IN AccApply(a, Sorted(idx), LeafIter(U, start), sz)

\* what ToAccumulator hands to the accumulator (for the replay binding)
InvalOf(affectedPos) == Sorted({IdxOfPos(p) : p \in affectedPos})

St(u, s, a) == [uns |-> u, size |-> s, acc |-> a]

\* apply_block: `created` = the created leaves that stay unspent (size..newSize-1 are created;
\* only their end points are declared here - apply() reads only the smallest affected index),
\* `spent` = leaves spent by the block's inputs.
ApplyAffected(st, spent, newSize) ==
  {Pos1OfLeaf(i) : i \in spent}
    \cup (IF newSize > st.size /\ Proto # "no_created_on_apply" THEN {Pos1OfLeaf(st.size), Pos1OfLeaf(newSize - 1)} ELSE {})
ApplyBlockF(st, spent, created, newSize) ==
  LET u2 == (st.uns \ spent) \cup created
  IN St(u2, newSize, ToAccumulator(st.acc, ApplyAffected(st, spent, newSize), u2, newSize))

\* rewind (+ rewind_single_block for every rewound block): the MMR is cut back to newSize leaves,
\* `respent` = leaves spent by the rewound blocks that become unspent again; each rewound block
\* contributes its spent positions and the output MMR size it rewound to (the smallest = the target).
RewindAffected(newSize, respent) ==
  {Pos1OfLeaf(i) : i \in respent}
    \cup (IF Proto # "no_size_on_rewind" THEN {MMRSizeOfLeaves(newSize)} ELSE {})
RewindToF(st, newSize, respent) ==
  LET u2 == {x \in st.uns : x < newSize} \cup respent
  IN St(u2, newSize, ToAccumulator(st.acc, RewindAffected(newSize, respent), u2, newSize))

\* TxHashSet::open: rebuild from the leaf set
ReopenF(st) == St(st.uns, st.size, AccInit(LeafIter(st.uns, 0), st.size))

LastLeafOK(u, s) == RequireLastLeaf => (s = 0 \/ s - 1 \in u)

-----------------------------------------------------------------------------
Cur == St(uns, size, acc)
Become(st) == uns' = st.uns /\ size' = st.size /\ acc' = st.acc

Init ==
  /\ size \in Sizes
  /\ uns \in SUBSET {i \in Pool : i < size}
  /\ LastLeafOK(uns, size)
  /\ acc = AccInit(LeafIter(uns, 0), size)

ApplyBlock(spent, created, newSize) ==
  /\ newSize \in Sizes /\ newSize >= size
  /\ spent \subseteq uns
  /\ created \subseteq {i \in Pool : size <= i /\ i < newSize}
  /\ RequireLastLeaf => (newSize > size /\ newSize - 1 \in created)     \* every block creates an output; its own outputs cannot be spent in it
  /\ Become(ApplyBlockF(Cur, spent, created, newSize))

RewindTo(newSize, respent) ==
  /\ newSize \in Sizes /\ newSize <= size
  /\ respent \subseteq ({i \in Pool : i < newSize} \ uns)
  /\ newSize = size => respent = {}                                       \* nothing rewound, nothing unspent
  /\ LastLeafOK({x \in uns : x < newSize} \cup respent, newSize)
  /\ Become(RewindToF(Cur, newSize, respent))

Reopen == Become(ReopenF(Cur))

Next ==
  \/ \E ns \in Sizes : \E sp \in SUBSET uns : \E cr \in SUBSET {i \in Pool : size <= i /\ i < ns} : ApplyBlock(sp, cr, ns)
  \/ \E ns \in Sizes : \E rs \in SUBSET ({i \in Pool : i < ns} \ uns) : RewindTo(ns, rs)
  \/ Reopen

Spec == Init /\ [][Next]_vars

-----------------------------------------------------------------------------
TypeOK ==
  /\ size \in Sizes
  /\ uns \subseteq {i \in Pool : i < size}
  /\ \A j \in 1..Len(acc) : acc[j] \subseteq 0..(NBITS - 1)

\* C15 on the model: whatever the path, the incremental accumulator IS the from-scratch one
AccIsFromScratch == acc = FromScratch(uns, size)
AsBitmapIsLeafSet == AsBitmap(acc) = uns
RootIsFromScratch == Commitment(acc) = Commitment(FromScratch(uns, size))
RestartSame == AccInit(LeafIter(uns, 0), size) = acc
LastLeafUnspent == LastLeafOK(uns, size)

\* the closed form used when UseLoop = FALSE (trace validation on dense sets) equals the loop
LoopEqClosed ==
  \A f \in Pool \cup {0} :
    LET a == PadLeft(RewindPrior(acc, f), f)
        S == LeafIter(uns, ChunkStartIdx(f))
    IN /\ ApplyFromL(a, S, f, size) = ApplyFromC(a, S, f, size)
       /\ ApplyFromL(a, uns, f, size) = ApplyFromC(a, uns, f, size)        \* iterator starting below the chunk: skipped
       /\ \A s2 \in Sizes : ApplyFromL(<<>>, uns, 0, s2) = ApplyFromC(<<>>, uns, 0, s2)

\* position <-> index mapping used by apply_to_bitmap_accumulator
PosMapOK == \A i \in Pool : IdxOfPos(Pos1OfLeaf(i)) = i
SizeMapOK == \A s \in Sizes : IdxOfPos(MMRSizeOfLeaves(s)) = (IF s = 0 THEN 0 ELSE s - 1)
=============================================================================
