\* C13 (relative locks): trunk to height 8, 2 further blocks anywhere with 1-in-1-out spends carrying NRD kernels
\* (2 excess keys, relative heights 1 and 2), every order of 3 deliveries
SPECIFICATION MCSpec
CONSTANTS
  Trunk = 8
  MaxBlocks = 2
  Diffs = {1}
  Pool <- Pool2
  PoolVal <- PoolVal2
  Maturity = 3
  Flags = {}
  MaxDeliveries = 3
  HeadersFirst = FALSE
  SimProfile = "mixed"
  TxShapes = "nrd"
VIEW View
CONSTRAINT RecentParents
INVARIANTS TypeOK HeadValidated HeadMaxWork BodiesValid UnspentIsReplay IndexConsistent NoDupUnspent SpentIdxInv SumsInv MaturityLockInv NrdInv OrphansRetried OnlyValidRemembered
PROPERTIES MCHeadMonotone MCRejectLeavesState
