\* exhaustive, interleaved monitor, one block, a peer that comes and goes: safety, and liveness under weak fairness of the three parts of the monitor iteration and of the clock: every stem-accepted transaction ends up public, confirmed or overtaken
SPECIFICATION MCFairSpec
CONSTANTS
  Atoms <- AtomsTiny
  Subs <- SubsTiny
  Utxo0 = {1, 2, 3, 4}
  BlockSet <- BlockChoices
  AggSecs = 1
  EmbargoSecs = 2
  Jitter = 0
  EpochSecs = 2
  Ticks = {1}
  MaxTxWeight = 226
  MaxBlockWeight = 250
  Peers = {1}
  AlwaysStemOurs = TRUE
  MaxBlocks = 1
  MaxSteps = 0
  AtomicMonitor = FALSE
  Churn = TRUE
  Restem = TRUE
  AnnounceStem = FALSE
  ExpireInStemEpoch = TRUE
  FluffAll = TRUE
  DropOnFluffError = FALSE
  MaxBlockTxs = 1
  SimProfile = "mixed"
VIEW View
INVARIANTS TypeOK PoolValid S1_StemValid StemAgesOrdered S2_NoEarlyAnnounce S3_BoundedResidence S3_Strict S5_FluffTakesAll
PROPERTIES MCS4 MCNoSilentDrop MCRejectKeepsPools MCEpochOnlyAtRollover Live
