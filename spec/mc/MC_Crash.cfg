SPECIFICATION Spec
CONSTANT Scenarios <- ScenariosFromFile
INVARIANTS TypeOK WriteOrder EndsWithCommit SysWriteOrder SysEndsWithCommit LayersAgree Recoverable
