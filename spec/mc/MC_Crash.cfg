SPECIFICATION Spec
CONSTANT Scenarios <- ScenariosFromFile
INVARIANTS TypeOK WriteOrder EndsWithCommit Recoverable
