SPECIFICATION MCSpec
CONSTANTS
  MaxH <- MaxHFromEnv
  Stops <- StopsFromEnv
  Threshold = 20
  Interval = 10
  Horizon = 20
  CompactMin = 81
  ArchiveFrom = "body"
  CompactAligned = TRUE
  MaxSteps = 9
INVARIANTS Emit ServedStateHeld ArchiveAtOrBelowBody
