SPECIFICATION MCSpec
CONSTANTS
  MaxLeaves = 5
  WithSubtrees = FALSE
  MaxSteps = 40
  Mut = "climb"
  FullRewindSets = FALSE
VIEW ViewNoLen
INVARIANT Refinement
CHECK_DEADLOCK FALSE
