\* tiny exhaustive run with -coverage: every action of the specification is taken (anti-vacuity)
SPECIFICATION MCSpec
CONSTANTS
  MaxLocators = 4
  MaxHeaders = 3
  Lens = {0, 1, 3}
  Diffs = {1, 2}
  MaxIds = 6
  MaxReorgs = 1
  MaxResets = 1
  MaxByz = 1
  Variant = "code"
  ProbeHeights = {}
  FullChainUpTo = 0
VIEW View
INVARIANTS TypeOK StoredOnTree
