\* random behaviours for direction A (run with -simulate): rich bodies, flags, forks, any order
SPECIFICATION MCSimSpec
CONSTANTS
  Trunk = 0
  MaxBlocks = 7
  Diffs = {1, 2, 3}
  Pool <- Pool5
  PoolVal <- PoolVal5
  Maturity = 3
  Flags = {}
  MaxDeliveries = 18
  HeadersFirst = TRUE
  SimProfile = "plain"
  TxShapes = "none"
INVARIANTS Emit
