\* re-spends: trunk of 4 (odd leaf count), blocks spending outputs created by their parent, sibling forks that reorg them out
SPECIFICATION MCSimSpec
CONSTANTS
  Trunk = 4
  MaxBlocks = 6
  Diffs = {1, 2, 3}
  Pool <- Pool5
  PoolVal <- PoolVal5
  Maturity = 3
  Flags = {}
  MaxDeliveries = 10
  HeadersFirst = FALSE
  SimProfile = "respend"
  TxShapes = "full"
INVARIANTS Emit
