SPECIFICATION SSpec
CONSTANTS
  Pm = 8
  Graphs <- NoGraphs
INVARIANTS STypeOK ShapesHonest LengthIsConsensus SameAsOperator EmitPlan
