\* C13 thorough
SPECIFICATION MCSpec
CONSTANTS
  Trunk = 3
  MaxBlocks = 2
  Diffs = {1, 2}
  Pool <- Pool3
  PoolVal <- PoolVal3
  Maturity = 3
  Flags = {}
  MaxDeliveries = 4
  HeadersFirst = FALSE
  SimProfile = "mixed"
  TxShapes = "locks"
VIEW View
INVARIANTS TypeOK HeadValidated HeadMaxWork BodiesValid UnspentIsReplay IndexConsistent NoDupUnspent SpentIdxInv SumsInv MaturityLockInv OrphansRetried OnlyValidRemembered
PROPERTIES MCHeadMonotone MCRejectLeavesState
