---------------------------- MODULE MC_Locks ----------------------------
EXTENDS Locks, Json, IOUtils, TLC
ProtosFromFile == JsonDeserialize(IOEnv.PROTOS)
=========================================================================
