---------------------------- MODULE MC_Locks ----------------------------
EXTENDS Locks, Json, IOUtils
ProtosFromFile == JsonDeserialize(IOEnv.PROTOS)
ViewsFromFile == JsonDeserialize(IOEnv.VIEWS)
=========================================================================
