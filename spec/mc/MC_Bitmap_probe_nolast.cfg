SPECIFICATION MCSpec
CONSTANTS
  Pool = {0, 1, 1023, 1024, 1025, 2047, 2048, 2049, 3000}
  Sizes = {0, 1, 2, 1023, 1024, 1025, 1026, 2047, 2048, 2049, 2050, 3000, 3001}
  NBITS = 1024
  UseLoop = TRUE
  Proto = "code"
  RequireLastLeaf = FALSE
  MaxSteps = 4
  EmitAt = 5
VIEW view
INVARIANTS TypeOK AccIsFromScratch
