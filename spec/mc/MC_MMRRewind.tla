---------------------------- MODULE MC_MMRRewind ----------------------------
EXTENDS MC_MMR

\* histories of pushes and rewinds (simulation), each with the case of its final state
VARIABLE hist
RWLen == 24
\* (the bound mentions a variable so that TLC does not fold the random draw into a constant)
SimRW == \E r \in {RandomElement(1..(4 + Len(hist) - Len(hist)))} :
           IF r <= 3 \/ NL(m) = 0
           THEN Push /\ hist' = Append(hist, [op |-> "push", k |-> NL(m) + 1])
           ELSE \E k \in {RandomElement(0..(NL(m) - 1))} : Rewind(k) /\ hist' = Append(hist, [op |-> "rewind", k |-> k])
SimRWSpec == Init /\ hist = <<>> /\ [][SimRW]_<<m, hist>>
EmitRW == (Len(hist) = RWLen /\ NL(m) > 0) => PrintT(<<"MMRHIST", ToJson([ops |-> hist, final |-> Case(m)])>>)
\* exhaustive rewind configuration (hist unused)
RWInit == Init /\ hist = <<>>
RWNext == NextRW /\ UNCHANGED hist
RWSpec == RWInit /\ [][RWNext]_<<m, hist>>
=============================================================================
