\* careless variant (env_size() from the live pages instead of the last page number): data that is REWRITTEN makes the file grow
\* (freed pages are not reusable under a pinned reader) while the live size stays below 90 % - the enlargement is never asked
\* for and a batch within the promised head-room runs out of space: must violate NoMapFull (anti-vacuity; the counterexample
\* is run on the real Store by h_kv rewrite, where it must NOT reproduce)
SPECIFICATION MCSpec
CONSTANTS
  NS = 1
  NK = 1
  Vals = {1}
  MaxDepth = 2
  NR = 1
  NT = 2
  Writers = {1}
  ItThreads = {1}
  RdThreads = {2}
  MapInit = 10
  UsedInit = 8
  Chunk = 10
  PutCost = 1
  TxnBeforeGate = FALSE
  NestedCloseClearsMark = FALSE
  ReadNotCounted = FALSE
  SqueezedFits = TRUE
  ReopenClampsMap = FALSE
  LiveSized = TRUE
  Page = 1
  PageBySkipCur = FALSE
  PageFreshSnap = FALSE
  BatchMax = 1
  MaxOps = 19
  WithReads = FALSE
  Stride = 1
  Offset = 0
VIEW View
INVARIANTS TypeOK NoMapFull
