\* action coverage (-coverage 1): the main configuration to depth 4
SPECIFICATION MCSpec
CONSTANTS
  Atoms <- AtomsTiny
  Subs <- SubsTiny
  Utxo0 = {1, 2, 3, 4}
  BlockSet <- BlockChoices
  AggSecs = 1
  EmbargoSecs = 2
  Jitter = 1
  EpochSecs = 2
  Ticks = {1, 2}
  MaxTxWeight = 226
  MaxBlockWeight = 250
  Peers = {1}
  AlwaysStemOurs = TRUE
  MaxBlocks = 1
  MaxSteps = 4
  AtomicMonitor = TRUE
  Churn = TRUE
  Restem = TRUE
  AnnounceStem = FALSE
  ExpireInStemEpoch = TRUE
  FluffAll = TRUE
  DropOnFluffError = FALSE
  MaxBlockTxs = 1
  SimProfile = "mixed"
VIEW View
INVARIANTS TypeOK PoolValid S1_StemValid StemAgesOrdered S2_NoEarlyAnnounce S3_BoundedResidence S3_Strict S5_FluffTakesAll
PROPERTIES MCS4 MCNoSilentDrop MCRejectKeepsPools MCEpochOnlyAtRollover
