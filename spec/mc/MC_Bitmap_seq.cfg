SPECIFICATION MCSpec
CONSTANTS
  Pool = {1023, 1024, 2048}
  Sizes = {0, 1024, 1025, 2049}
  NBITS = 1024
  UseLoop = TRUE
  Proto = "code"
  RequireLastLeaf = TRUE
  MaxSteps = 4
  EmitAt = 5
INVARIANTS Emit
