\* scripted scenarios 1-14, 22, 23 (capacity 2)
SPECIFICATION MCScriptSpec
CONSTANTS
  Atoms <- AtomsFull
  Subs <- SubsFull
  DupCommits <- DupFull
  DupCreators <- DupCreatorsFull
  DupSpenders <- DupSpendersFull
  Trunk = 5
  Maturity = 3
  MaxPool = 2
  MaxStem = 2
  FeeBase = 1000
  MaxTxWeight = 226
  MaxBlockWeight = 250
  MineWeight = 120
  FeeFirst = TRUE
  TimedAlways = TRUE
  StemRecheck = "always"
  FeeOnRemainder = TRUE
  EvictMode = "nodeps"
  ReconcileMature = TRUE
  NrdEnabled = FALSE
  NrdHeight = 9
  ShortReorg = FALSE
  MaxBlocks = 6
  MaxSteps = 40
  MaxBlockTxs = 3
  MaxReorgDepth = 2
  SimProfile = "mixed"
INVARIANTS Emit PoolJointlyValid StemJointlyValid PoolMatureUnlocked NoUnderpaid NoOverweight AdmitMatureUnlocked MineableAccepted
