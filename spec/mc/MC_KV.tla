------------------------------ MODULE MC_KV ------------------------------
(* Bounded model checking of KV.tla and direction-A behaviour generation (C18).        *)
(* nops counts state-changing actions; hist records them with the projection of the    *)
(* state after each (the expected result of EVERY inside and outside read there).      *)
(* Read actions never change the state; WithReads = FALSE leaves them out of the       *)
(* exploration (their results are pinned by LookupTopDown / the projections anyway).   *)
EXTENDS KV, TLC, Json
CONSTANTS MaxOps, WithReads, Stride, Offset
VARIABLES nops, hist

\* expected results of all reads in a state: per key space the ordered <<key,value>> list
InProj  == IF Depth = 0 THEN <<>> ELSE [sp \in Spaces |-> IterRes(TopView, sp)]
OutProj == [sp \in Spaces |-> IterRes(committed, sp)]

MCInit == Init /\ nops = 0 /\ hist = <<>>
Book == /\ nops < MaxOps
        /\ nops' = nops + 1
        /\ hist' = Append(hist, [a |-> act', d |-> Depth', in |-> InProj', out |-> OutProj'])
NoBook == WithReads /\ UNCHANGED <<nops, hist>>

MBegin        == \E t \in Threads : Begin(t) /\ Book
MBeginWait    == \E t \in Threads : BeginWait(t) /\ Book
MAdmit        == \E t \in Threads : Admit(t) /\ Book
MParkNested   == \E t \in Threads : ParkNested(t) /\ Book
MResizeRefused == ResizeRefused /\ Book
MChild        == Child /\ Book
MCommitChild  == CommitChild /\ Book
MDropChild    == DropChild /\ Book
MCommit       == Commit /\ Book
MDrop         == Drop /\ Book
MResize       == Resize /\ Book
MCrash        == Crash /\ Book
MPut          == \E sp \in Spaces, key \in Keys, v \in Vals : Put(sp, key, v) /\ Book
MDel          == \E sp \in Spaces, key \in Keys : Del(sp, key) /\ Book
MOutIterOpen  == \E t \in Threads, r \in Readers, sp \in Spaces : OutIterOpen(t, r, sp) /\ Book
MOutIterNext  == \E r \in Readers : OutIterNext(r) /\ Book
MOutIterClose == \E r \in Readers : OutIterClose(r) /\ Book
MReadBegin    == \E t \in Threads, sp \in Spaces, key \in Keys : ReadBegin(t, sp, key) /\ Book
MReadEnd      == \E t \in Threads : ReadEnd(t) /\ Book
MGet          == \E sp \in Spaces, key \in Keys : Get(sp, key) /\ NoBook
MExists       == \E sp \in Spaces, key \in Keys : Exists(sp, key) /\ NoBook
MIter         == \E sp \in Spaces : Iter(sp) /\ NoBook
MOutGet       == \E t \in Threads, sp \in Spaces, key \in Keys : OutGet(t, sp, key) /\ NoBook
MOutExists    == \E t \in Threads, sp \in Spaces, key \in Keys : OutExists(t, sp, key) /\ NoBook
MOutIter      == \E t \in Threads, sp \in Spaces : OutIter(t, sp) /\ NoBook

MCNext == \/ MBegin \/ MBeginWait \/ MAdmit \/ MParkNested \/ MResizeRefused \/ MChild \/ MCommitChild \/ MDropChild \/ MCommit \/ MDrop
          \/ MResize \/ MCrash
          \/ MPut \/ MDel \/ MOutIterOpen \/ MOutIterNext \/ MOutIterClose \/ MReadBegin \/ MReadEnd
          \/ MGet \/ MExists \/ MIter \/ MOutGet \/ MOutExists \/ MOutIter
MCSpec == MCInit /\ [][MCNext]_<<vars, nops, hist>>

\* random walks (simulation mode): same actions, thinned so that nesting gets deep
P(n) == RandomElement(1..100) <= n
SimNext == \/ MBegin \/ MBeginWait \/ MAdmit \/ (MPut /\ P(14)) \/ (MDel /\ P(20)) \/ MChild
           \/ MCommitChild \/ (MDropChild /\ P(60)) \/ (MCommit /\ P(50)) \/ (MDrop /\ P(20))
           \/ (MCrash /\ P(5)) \/ (MOutIterOpen /\ P(15)) \/ (MOutIterNext /\ P(60)) \/ (MOutIterClose /\ P(30))
           \/ (MReadBegin /\ P(8)) \/ (MReadEnd /\ P(30))
SimSpec == MCInit /\ [][SimNext]_<<vars, nops, hist>>

View == <<state, nops>>

\* the gate protocol without process death and without a horizon (deadlock checking): every reachable state
\* within LiveBound has a successor - some thread can always move, in particular towards the enlargement
LiveNext == NextNoCrash /\ UNCHANGED <<nops, hist>>
LiveSpec == MCInit /\ [][LiveNext]_<<vars, nops, hist>>
LiveView == state
LiveBound == used <= MapInit + 1

\* one behaviour per distinct horizon state (exhaustive mode) ...
\* (Stride, Offset) thin the output deterministically: every Stride-th distinct horizon state
Emit == (nops = MaxOps /\ TLCGet("distinct") % Stride = Offset % Stride) => PrintT(<<"KVBEH", ToJson(hist)>>)
\* ... or at the end of every random walk (simulation mode; -depth = MaxOps + 1)
EmitSim == (TLCGet("level") > MaxOps) => PrintT(<<"KVBEH", ToJson(hist)>>)
==========================================================================
