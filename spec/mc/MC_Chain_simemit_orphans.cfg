\* orphan pool: siblings (valid and body-invalid with valid headers) parked at the same height with children
\* waiting on top, bodies delivered deepest first, no transactions
SPECIFICATION MCSimSpec
CONSTANTS
  Trunk = 1
  MaxBlocks = 7
  Diffs = {1, 2, 5}
  Pool = {}
  PoolVal <- PoolNoneVal
  Maturity = 3
  Flags = {"badRoot", "badSize", "badKernelRoot", "badRproofRoot", "badKernelSize"}
  MaxDeliveries = 20
  HeadersFirst = TRUE
  SimProfile = "orphans"
  TxShapes = "none"
INVARIANTS Emit
