---------------------------- MODULE MC_Bitmap ----------------------------
(* Model-checking / behaviour-generation wrapper for Bitmap.tla (C15).      *)
(* hist records, for every step, what txhashset.rs hands to the accumulator *)
(* (inval, start) and the expected projection (oracle FromScratch).         *)
EXTENDS Bitmap, TLC, Json
CONSTANTS MaxSteps,   \* steps after Init
          EmitAt      \* a behaviour is printed when hist reaches this length
VARIABLE hist
mcvars == <<uns, size, acc, hist>>
view == <<uns, size, acc>>

Proj(st) == [size |-> st.size, uns |-> st.uns, chunks |-> FromScratch(st.uns, st.size), acc |-> st.acc]
StepRec(k, affectedPos, st) ==
  LET idx == {IdxOfPos(p) : p \in affectedPos}
  IN [k |-> k, inval |-> InvalOf(affectedPos),
      start |-> IF idx = {} THEN 0 ELSE ChunkStartIdx(Min(idx))] @@ Proj(st)

MCInit == Init /\ hist = <<[k |-> "Init", inval |-> <<>>, start |-> 0] @@ Proj(Cur)>>

Bound == Len(hist) <= MaxSteps

MCApply ==
  Bound /\ \E ns \in Sizes : \E sp \in SUBSET uns : \E cr \in SUBSET {i \in Pool : size <= i /\ i < ns} :
    /\ ApplyBlock(sp, cr, ns)
    /\ hist' = Append(hist, StepRec("Apply", ApplyAffected(Cur, sp, ns), ApplyBlockF(Cur, sp, cr, ns)))
MCRewind ==
  Bound /\ \E ns \in Sizes : \E rs \in SUBSET ({i \in Pool : i < ns} \ uns) :
    /\ RewindTo(ns, rs)
    /\ hist' = Append(hist, StepRec("Rewind", RewindAffected(ns, rs), RewindToF(Cur, ns, rs)))
MCReopen == Bound /\ Reopen /\ hist' = Append(hist, StepRec("Reopen", {}, ReopenF(Cur)))

MCNext == MCApply \/ MCRewind \/ MCReopen
MCSpec == MCInit /\ [][MCNext]_mcvars

\* one line per complete behaviour
Emit == Len(hist) = EmitAt => PrintT(<<"BMBEH", ToJson(hist)>>)
\* root term of the chunk MMR for n = 0..8 chunks (entry n+1)
ASSUME PrintT(<<"BMROOT", ToJson([n \in 1..9 |-> RootTermN(n - 1)])>>)
==========================================================================
