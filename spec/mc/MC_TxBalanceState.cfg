SPECIFICATION SSpec
CONSTANTS
  MaxBlocks = 12
  Minted = 7
  BatchPlanChoices <- QuickBatchPlans
  HistoryChoices <- QuickHistories
  VariantChoices <- QuickVariants
  LargePlanChoices <- QuickLargePlans
INVARIANTS AllStateChecks FamiliesKill EmitState
