\* MUST VIOLATE EventuallySynced: without genesis in the locator a node on a disjoint fork never converges
SPECIFICATION MCFairSpec
CONSTANTS
  MaxLocators = 4
  MaxHeaders = 3
  Lens = {0, 1, 2, 4}
  Diffs = {1, 2}
  MaxIds = 6
  MaxReorgs = 0
  MaxResets = 0
  MaxByz = 0
  Variant = "no_genesis"
  FullChainUpTo = 0
INVARIANTS TypeOK
PROPERTIES EventuallySynced
