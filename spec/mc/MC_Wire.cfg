SPECIFICATION Spec
CONSTANTS
  Tier = "quick"
  StrictAddr = TRUE
INVARIANTS RoundTrip ReEncode HashStable PertsRefused NrdOffRefused WritableOK
