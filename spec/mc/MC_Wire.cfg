SPECIFICATION Spec
CONSTANTS
  Tier = "quick"
  StrictAddr = FALSE
INVARIANTS RoundTrip ReEncode HashStable PertsRefused NrdOffRefused WritableOK
