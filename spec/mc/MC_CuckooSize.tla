---------------------------- MODULE MC_CuckooSize ----------------------------
(* C05, clause "exactly the required number of nonces", decided through    *)
(* the node's entry point pow::verify_size(header).                        *)
(*                                                                         *)
(* The machine is shaped like the code path:                               *)
(*   Init            a header arrives: chain type, header version of its   *)
(*                   height, edge bits, and a nonce list whose LENGTH and  *)
(*                   shape the sender chose                                *)
(*   CreateContext   global::create_pow_context(height, edge_bits,         *)
(*                   nonces.len()): the verifier is selected, and is told  *)
(*                   the header's OWN nonce count as its "proof size"      *)
(*   VerifyCtx       ctx.verify(proof): accept iff Accept with K = the     *)
(*                   chain type's proof size Pm                            *)
(* The graphs are synthetic (rings, open walks, two rings, matchings, per  *)
(* graph definition); the required size is the model constant Pm.  TLC     *)
(* checks LengthIsConsensus (accept iff a genuine cycle of exactly Pm      *)
(* edges, ascending, under the selected definition) and prints one PLAN    *)
(* line per header class with the expected verdict and with what a         *)
(* verifier trusting the context's own size would have answered; the       *)
(* harness realises every plan in real header-seeded graphs.               *)
EXTENDS Cuckoo, TLC, Json

CONSTANT Pm              \* required proof size in the model (even, >= 8)

VARIABLES h,             \* the header class (a plan)
          pc,            \* "header" -> "ctx" -> "done"
          ctx,           \* "unset" | [variant (or "none": no definition for this header), proof_size]
          verdict        \* "unset" | "accept" | "reject"
svars == <<g, path, closed, h, pc, ctx, verdict>>

Shapes == {"cycle", "open", "unsorted", "two_cycles", "garbage"}
EbClasses == {"le29", "gt29"}
EbOf(c) == IF c = "le29" THEN 10 ELSE 30
NoGraphs == <<>>
Versions == 1..5

-----------------------------------------------------------------------------
(* Synthetic graphs: edge tables on the edge indices 0..L-1 only.          *)

\* smallest length of a ring in this definition that is > L / >= L
Even(n) == n % 2 = 0
RingLenOK(var, L) == L >= 1 /\ (Bipartite(var) => (Even(L) /\ L >= 2))
NextRing(var, L) == IF Bipartite(var) THEN (IF Even(L) THEN L + 2 ELSE L + 1) ELSE L + 1

\* edge i (0-based) of a ring of L edges whose node numbers start at `off`
RingEdge(var, L, i, off) ==
    IF ~Bipartite(var) THEN <<off + i, off + ((i + 1) % L)>>
    ELSE LET hh == L \div 2
             j == i \div 2
         IN IF var = "cuckatoo"
            THEN (IF Even(i) THEN <<2 * (off + j), 2 * (off + j)>>
                             ELSE <<2 * (off + ((j + 1) % hh)) + 1, 2 * (off + j) + 1>>)
            ELSE (IF Even(i) THEN <<off + j, off + j>>
                             ELSE <<off + ((j + 1) % hh), off + j>>)
Ring(var, L) == [i \in 1..L |-> RingEdge(var, L, i - 1, 0)]
\* the first L edges of the next larger ring: one open walk
Open(var, L) == [i \in 1..L |-> RingEdge(var, NextRing(var, L), i - 1, 0)]
\* two node-disjoint rings of a and L - a edges
SplitOf(var, L) == IF Bipartite(var) THEN 2 * (L \div 4) ELSE L \div 2
TwoRings(var, L) == LET a == SplitOf(var, L) IN
    [i \in 1..L |-> IF i <= a THEN RingEdge(var, a, i - 1, 0) ELSE RingEdge(var, L - a, i - 1 - a, L)]
\* no two edges meet
Matching(var, L) == [i \in 1..L |-> IF var = "cuckatoo" THEN <<2 * i, 2 * i>>
                                    ELSE IF Bipartite(var) THEN <<i, i>> ELSE <<2 * i, 2 * i + 1>>]

LenOfPlan(p) == LenClass(p.lc, Pm)
TableOf(p) == LET L == LenOfPlan(p) IN
    CASE p.shape \in {"cycle", "unsorted"} -> Ring(p.gof, L)
      [] p.shape = "open" -> Open(p.gof, L)
      [] p.shape = "two_cycles" -> TwoRings(p.gof, L)
      [] OTHER -> Matching(p.gof, L)
\* the header-seeded graph under definition var: the shape lives in definition p.gof; under any
\* other definition the same edge indices are unrelated edges
GraphBy(p, var) == [variant |-> var, K |-> Pm, N |-> 16,
                    E |-> IF var = p.gof THEN TableOf(p) ELSE Matching(var, LenOfPlan(p))]
NoncesOf(p) == LET L == LenOfPlan(p) IN
    IF p.shape = "unsorted" THEN [i \in 1..L |-> L - i] ELSE [i \in 1..L |-> i - 1]

\* which plans make sense
PlanOK(p) ==
    LET L == LenOfPlan(p)
        sv == SelectVariant(p.chain, p.version, EbOf(p.ebc))
    IN /\ CASE p.shape = "cycle" -> RingLenOK(p.gof, L)
            [] p.shape = "unsorted" -> RingLenOK(p.gof, L) /\ L >= 2
            [] p.shape = "open" -> L >= 1
            [] p.shape = "two_cycles" -> p.lc = "eq"
            [] OTHER -> TRUE
       \* the shape is built in the selected definition; a full-length cycle also in every other one
       /\ \/ p.gof = sv
          \/ p.shape = "cycle" /\ p.lc = "eq"

Plans == {p \in [chain : Chains, version : Versions, ebc : EbClasses, lc : LenClasses, shape : Shapes, gof : Variants] : PlanOK(p)}

\* definitional sanity of the selection boundary and of the weight rule (evaluated once by TLC)
ASSUME SelectBoundary
ASSUME WeightRuleOK

-----------------------------------------------------------------------------
SInit == /\ g = 0 /\ path = <<>> /\ closed = FALSE
         /\ h \in Plans
         /\ pc = "header" /\ ctx = "unset" /\ verdict = "unset"

Sv == SelectVariant(h.chain, h.version, EbOf(h.ebc))

CreateContext == /\ pc = "header"
                 /\ ctx' = [variant |-> Sv, proof_size |-> Len(NoncesOf(h))]
                 /\ pc' = "ctx"
                 /\ UNCHANGED <<g, path, closed, h, verdict>>

VerifyCtx == /\ pc = "ctx"
             /\ verdict' = IF ctx.variant = "none" THEN "reject"
                           ELSE IF Accept(GraphBy(h, ctx.variant), NoncesOf(h)) THEN "accept" ELSE "reject"
             /\ pc' = "done"
             /\ UNCHANGED <<g, path, closed, h, ctx>>

SNext == CreateContext \/ VerifyCtx
SSpec == SInit /\ [][SNext]_svars

-----------------------------------------------------------------------------
Genuine(p, var) == /\ var # "none"
                   /\ Ascending(NoncesOf(p))
                   /\ IsCycleAnyLen(GraphBy(p, var), RangeOf(NoncesOf(p)))

\* THE CLAUSE: only a genuine cycle of exactly the required length is accepted
LengthIsConsensus == pc = "done" =>
    (verdict = "accept" <=> (Genuine(h, Sv) /\ Len(NoncesOf(h)) = Pm))

\* the machine computes the operator the trace specification uses
SameAsOperator == pc = "done" =>
    verdict = VerifySizeVerdict(h.chain, h.version, EbOf(h.ebc), Pm, LAMBDA var : GraphBy(h, var), NoncesOf(h))

\* what a verifier that took the context's own proof size as the required length would answer
Vacuous(p, c) == IF c.variant = "none" THEN "reject"
                 ELSE IF AcceptLen(GraphBy(p, c.variant), NoncesOf(p), c.proof_size) THEN "accept" ELSE "reject"

\* the shapes are what their names say
ShapesHonest == pc = "header" =>
    /\ h.shape = "cycle" => Genuine(h, h.gof)
    /\ h.shape = "unsorted" => ~Ascending(NoncesOf(h)) /\ IsCycleAnyLen(GraphBy(h, h.gof), RangeOf(NoncesOf(h)))
    /\ h.shape \in {"open", "two_cycles", "garbage"} =>
          ~IsCycleAnyLen(GraphBy(h, h.gof), RangeOf(NoncesOf(h)))
    /\ h.shape = "two_cycles" =>
          LET G == GraphBy(h, h.gof)
              S == RangeOf(NoncesOf(h))
          IN (\A j \in JunctionsOf(G, S) : GoodJunction(G, S, j)) /\ ~Connected(G, S)

STypeOK == /\ pc \in {"header", "ctx", "done"}
           /\ verdict \in {"unset", "accept", "reject"}
           /\ pc = "done" <=> verdict # "unset"

EmitPlan == pc = "done" =>
    PrintT(<<"PLAN", ToJson([chain |-> h.chain, version |-> h.version, ebc |-> h.ebc, lc |-> h.lc,
                             shape |-> h.shape, gof |-> h.gof, sv |-> Sv,
                             expect |-> verdict, vacuous |-> Vacuous(h, ctx)])>>)
=============================================================================
