SPECIFICATION Spec
CONSTANTS
  Parts = {"algebra"}
  Seeds = {"s1"}
  Comps = {"c0", "c1"}
  HardComps = {}
  Amts = {"a0"}
  MaxDepth = 4
  VKMaxDepth = 0
  MaxOuts = 1
  Fmts = {"new", "legacy"}
  PerGroup = 1
  CraftDepths = {}
  KeyNames = {"d1", "d2", "r1", "r2"}
  MaxTerms = 5
  MaxIO = 1
  MaxUnit = 0
  FeeClasses = {"f1"}
  ScaleClasses = {"one"}
  KernClasses = {"Plain"}
  ViaClasses = {"transaction"}
  CbFeeClasses = {"cf0"}
  AlgStride = 211
  CbStride = 1
  ShapeStride = 1
  PairStride = 1
  WalPicks = 1
INVARIANTS TypeOK AlgSumIsValue AlgPermutation AlgAddSubRestores AlgSplitSums AlgCommitHom AlgZeroOperands AlgSignHom EmitAlg
