SPECIFICATION MCSpec
CONSTANTS
  Pool = {0, 1023, 1024, 2047, 2048}
  Sizes = {0, 1, 1024, 1025, 2048, 2049}
  NBITS = 1024
  UseLoop = TRUE
  Proto = "code"
  RequireLastLeaf = TRUE
  MaxSteps = 3
  EmitAt = 4
INVARIANTS Emit
