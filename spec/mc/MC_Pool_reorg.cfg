\* exhaustive with reorgs (depth 1, blocks of <= 1 tx), 3 steps
SPECIFICATION MCSpec
CONSTANTS
  Atoms <- AtomsSmall
  Subs <- SubsSmall
  DupCommits <- DupSmall
  DupCreators <- DupCreatorsSmall
  DupSpenders <- DupSpendersSmall
  Trunk = 5
  Maturity = 3
  MaxPool = 1
  MaxStem = 2
  FeeBase = 1000
  MaxTxWeight = 226
  MaxBlockWeight = 250
  MineWeight = 120
  FeeFirst = TRUE
  TimedAlways = TRUE
  StemRecheck = "always"
  FeeOnRemainder = TRUE
  EvictMode = "nodeps"
  ReconcileMature = TRUE
  NrdEnabled = FALSE
  NrdHeight = 9
  ShortReorg = FALSE
  MaxBlocks = 2
  MaxSteps = 3
  MaxBlockTxs = 1
  MaxReorgDepth = 1
  SimProfile = "mixed"
VIEW View
INVARIANTS PoolJointlyValid StemJointlyValid PoolMatureUnlocked NoUnderpaid NoOverweight AdmitMatureUnlocked MineableAccepted
