\* careless variant (write_txn() before enter_tx()): the batch parked at the resize gate owns the write transaction,
\* the enlargement is refused and the batch carries on against the full map - must violate NoMapFull (anti-vacuity)
SPECIFICATION MCSpec
CONSTANTS
  NS = 1
  NK = 1
  Vals = {1}
  MaxDepth = 2
  NR = 1
  NT = 2
  Writers = {1}
  ItThreads = {1}
  RdThreads = {2}
  MapInit = 10
  UsedInit = 7
  Chunk = 10
  PutCost = 1
  TxnBeforeGate = TRUE
  NestedCloseClearsMark = FALSE
  ReadNotCounted = FALSE
  SqueezedFits = TRUE
  ReopenClampsMap = FALSE
  LiveSized = FALSE
  Page = 1
  PageBySkipCur = FALSE
  PageFreshSnap = FALSE
  BatchMax = 1
  MaxOps = 22
  WithReads = FALSE
  Stride = 1
  Offset = 0
VIEW View
INVARIANTS TypeOK NoMapFull
