\* random behaviours for direction A (run with -simulate): rich bodies, flags, forks, any order
SPECIFICATION MCSimSpec
CONSTANTS
  Trunk = 3
  MaxBlocks = 5
  Diffs = {1, 2, 3}
  Pool <- Pool5
  PoolVal <- PoolVal5
  Maturity = 3
  Flags = {"badRoot", "badSums", "badPrevRoot", "badSize", "badKernelRoot", "badTime", "badRproofRoot", "badKernelSize"}
  MaxDeliveries = 12
  HeadersFirst = FALSE
  SimProfile = "mixed"
  TxShapes = "full"
INVARIANTS Emit
