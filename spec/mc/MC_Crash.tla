---------------------------- MODULE MC_Crash ----------------------------
EXTENDS Crash, Json, IOUtils, TLC
\* step lists recorded from the real runs
ScenariosFromFile == JsonDeserialize(IOEnv.STEPS)
=========================================================================
