\* MUST VIOLATE StoredOnTree: variant that does not require the first header's parent (anti-vacuity)
SPECIFICATION MCSpec
CONSTANTS
  MaxLocators = 4
  MaxHeaders = 3
  Lens = {0, 1, 2, 4}
  Diffs = {1, 2}
  MaxIds = 8
  MaxReorgs = 1
  MaxResets = 1
  MaxByz = 1
  Variant = "no_parent_check"
  FullChainUpTo = 0
VIEW View
INVARIANTS TypeOK StoredOnTree
