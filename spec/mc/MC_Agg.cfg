SPECIFICATION Spec
CONSTANTS
  Libraries <- LibrariesT
  Rewards <- RewardsC
  MaxFamily = 4
  PrevOffsets = {0, 16384}
  MaxFamilyOf <- MaxFamilyQ
INVARIANTS OperandsValid ShapesCovered CancellationsCovered VariantsCovered CarelessKilled ShapeVerdicts AggregateFaithful DeaggregateRemainder PlanChecks BlockValid LibrariesNonDegenerate
