SPECIFICATION Spec
CONSTANTS
  HDR = 11
  HSBODY = 81
  BUFSZ = 8192
  Buffered = TRUE
  Plans <- ProbePlans
INVARIANTS TypeOK NoOverread HandoverExact
