SPECIFICATION Spec
CONSTANTS
  HDR = 11
  HSBODY = 60
  BUFSZ = 8192
  Buffered = TRUE
  Plans <- ProbePlans
INVARIANTS TypeOK NoOverread HandoverExact
