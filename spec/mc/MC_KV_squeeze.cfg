\* the letter of the property (no assumption on a batch opened under the thread's own iterator): the enlargement that is due
\* cannot take place before that batch - violates NoMapFull; the counterexample is reproduced on the real Store (h_kv squeeze)
SPECIFICATION MCSpec
CONSTANTS
  NS = 1
  NK = 1
  Vals = {1}
  MaxDepth = 1
  NR = 1
  NT = 1
  Writers = {1}
  ItThreads = {1}
  RdThreads = {}
  MapInit = 10
  UsedInit = 9
  Chunk = 10
  PutCost = 1
  TxnBeforeGate = FALSE
  NestedCloseClearsMark = FALSE
  ReadNotCounted = FALSE
  SqueezedFits = FALSE
  ReopenClampsMap = FALSE
  LiveSized = FALSE
  Page = 1
  PageBySkipCur = FALSE
  PageFreshSnap = FALSE
  BatchMax = 1
  MaxOps = 14
  WithReads = FALSE
  Stride = 1
  Offset = 0
VIEW View
INVARIANTS TypeOK NoMapFull
