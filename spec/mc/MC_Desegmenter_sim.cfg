SPECIFICATION MCSpecSim
CONSTANTS
  Kinds = {"honest", "alt_leaf", "omit_leaf", "wrong_id", "wrong_tree", "stale"}
  BatchSize = 4
  ValidateFirst = TRUE
  RootCheck = TRUE
  ResetClearsBitmap = TRUE
  MaxAdds = 12
  MaxBad = 4
  MaxDup = 3
INVARIANTS Emit NeverFinaliseWrongRoots OnlyGoodCached SameFinalState
