SPECIFICATION RSpec
CONSTANTS
  Nodes = {"n1", "n2"}
  Versions = {1000}
  Genesis = {"g1"}
  RingCap = 100
  MaxConns = 200
  Script <- ScriptFull
INVARIANTS TypeOK Negotiated GenesisRefused SelfRefused NoFalseRefusal InFlightRemembered BeyondCap Emit
