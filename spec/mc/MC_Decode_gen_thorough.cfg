SPECIFICATION GSpec
CONSTANTS
  ModelDecoders = {}
  ModelLens = {}
  Env = {}
  SweepFirst = 1000
  MaxFields = 128
  TruncEveryMax = 100000
  RepeatMaxBytes = 8000000
INVARIANTS StepsAgree IdentWellFormed PlanWellFormed Emit
