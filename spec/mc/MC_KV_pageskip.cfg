\* careless variant (load_next_keys() skips skip_cur instead of skip_total keys): fine for two pages, from the third page on the
\* second page is read again - must violate PageWalk (anti-vacuity of the paging part of OutIterNext)
SPECIFICATION MCSpec
CONSTANTS
  NS = 1
  NK = 3
  Vals = {1}
  MaxDepth = 1
  NR = 1
  NT = 1
  Writers = {1}
  ItThreads = {1}
  RdThreads = {}
  MapInit = 10
  UsedInit = 0
  Chunk = 10
  PutCost = 0
  TxnBeforeGate = FALSE
  NestedCloseClearsMark = FALSE
  ReadNotCounted = FALSE
  SqueezedFits = TRUE
  ReopenClampsMap = FALSE
  LiveSized = FALSE
  Page = 1
  PageBySkipCur = TRUE
  PageFreshSnap = FALSE
  BatchMax = 1
  MaxOps = 10
  WithReads = FALSE
  Stride = 1
  Offset = 0
VIEW View
INVARIANTS TypeOK PageWalk
