------------------------- MODULE MC_HeaderSync -------------------------
EXTENDS HeaderSync, Json
(* Bounded configurations of HeaderSync.tla, the unit-test vectors of the code's locator heights, and the
   behaviour generator for direction A (TLC -simulate; one JSON behaviour per finished walk). *)

VARIABLES hist,   \* observation only: one record per state left behind (the action that led to it, its expected values)
          fin     \* simulation only: the walk has been closed
mcvars == <<br, a, b, net, a0, used, rounds, last, hist, fin>>

\* --- the vectors of servers/src/grin/sync/header_sync.rs test_get_locator_heights (MAX_LOCATORS = 20) ---
ASSUME (MaxLocators = 20 /\ Variant = "code") =>
         /\ LocatorHeights(0) = <<0>>
         /\ LocatorHeights(1) = <<1, 0>>
         /\ LocatorHeights(2) = <<2, 0>>
         /\ LocatorHeights(3) = <<3, 1, 0>>
         /\ LocatorHeights(10) = <<10, 8, 4, 0>>
         /\ LocatorHeights(100) = <<100, 98, 94, 86, 70, 38, 0>>
         /\ LocatorHeights(1000) = <<1000, 998, 994, 986, 970, 938, 874, 746, 490, 0>>
         /\ LocatorHeights(10000) = <<10000, 9998, 9994, 9986, 9970, 9938, 9874, 9746, 9490, 8978, 7954, 5906, 1810, 0>>
         \* the cap: 19 heights and genesis
         /\ Len(LocatorHeights(2000000)) = 20
         /\ LocatorHeights(2000000)[19] = 2000000 - (Pow2(19) - 2)
\* the shape for every height the bounded configurations can reach
ASSUME Variant = "code" =>
         \A h \in 0..(MaxIds + 40) :
            LET hs == LocatorHeights(h) IN
            /\ hs[1] = h /\ hs[Len(hs)] = 0 /\ Len(hs) <= MaxLocators
            /\ \A j \in 1..(Len(hs) - 1) : hs[j] > hs[j + 1]
            /\ \A j \in 2..(Len(hs) - 1) : hs[j - 1] - hs[j] = Pow2(j - 1)

\* the spec's locator heights for a list of probe heights, printed once (compared by the driver with the code's
\* get_locator_heights: also far above any chain the harness can build, where the cap of MAX_LOCATORS applies)
CONSTANT ProbeHeights
ASSUME ProbeHeights = {} \/ PrintT(<<"LOCHEIGHTS", ToJson([h \in ProbeHeights |-> LocatorHeights(h)])>>)

\* --- projection written into the behaviours ---
Stored(nd) == [k \in 1..Len(br) |-> Cardinality({i \in nd.hdrs : i > 0 /\ BranchOf(i) = k})]
ChainOf(x) == [j \in 1..(Height(x) + 1) |-> AtHeight(x, j - 1)]
CONSTANT FullChainUpTo      \* the header chain of A is written out in every step while the tree is this small
ProjA == [hhead |-> a.hhead, sync |-> SyncHead(a), insync |-> a.insync, stored |-> Stored(a),
          bhead |-> b.hhead, due |-> Due, phi |-> Phi,
          chain |-> IF N <= FullChainUpTo \/ Quiescent THEN ChainOf(a.hhead) ELSE <<>>]
StepRec == [k |-> last.k, x |-> last.x, y |-> last.y, z |-> IF last.k = "Byz" THEN last.z ELSE 0, res |-> last.res,
            loc |-> IF last.k = "Build" THEN net.loc ELSE <<>>,
            heights |-> IF last.k = "Build" THEN LocatorHeights(Height(a.sync)) ELSE <<>>,
            batch |-> IF last.k = "Locate" THEN net.batch ELSE IF last.k = "Byz" THEN Gapped(last.x, last.y, last.z) ELSE <<>>,
            nbr |-> Len(br),
            proj |-> ProjA]

MCInit == Init /\ hist = <<>> /\ fin = FALSE
\* exhaustive configurations: no history
\* (one named disjunct per action of the specification, so that -coverage reports each)
cMintA == (\E la \in Lens, da \in Diffs : MintA(la, da)) /\ UNCHANGED <<hist, fin>>
cMintB == (\E f \in 0..a0, lb \in Lens, db \in Diffs : MintB(f, lb, db)) /\ UNCHANGED <<hist, fin>>
cReorg == (\E from \in Ids, len \in Lens, d \in Diffs : Reorg(from, len, d)) /\ UNCHANGED <<hist, fin>>
cBuildLocator == BuildLocator /\ UNCHANGED <<hist, fin>>
cLocateHeaders == LocateHeaders /\ UNCHANGED <<hist, fin>>
cReceiveHeaders == ReceiveHeaders /\ UNCHANGED <<hist, fin>>
cResetSync == ResetSync /\ UNCHANGED <<hist, fin>>
cByz == (\E x \in Ids, k \in 1..MaxHeaders, g \in 0..MaxHeaders : Byz(x, k, g)) /\ UNCHANGED <<hist, fin>>
MCNext == cMintA \/ cMintB \/ cReorg \/ cBuildLocator \/ cLocateHeaders \/ cReceiveHeaders \/ cResetSync \/ cByz
MCSpec == MCInit /\ [][MCNext]_mcvars
\* the same with the fork depths drawn from Lens instead of every height (configurations with the constants of
\* the code, where chains are hundreds of headers long)
cMintBLens == (\E dep \in Lens, lb \in Lens, db \in Diffs : dep <= a0 /\ MintB(a0 - dep, lb, db)) /\ UNCHANGED <<hist, fin>>
cReorgLens == (\E dep \in Lens, len \in Lens, d \in Diffs :
                 \/ dep <= Height(b.hhead) /\ Reorg(AtHeight(b.hhead, Height(b.hhead) - dep), len, d)
                 \/ dep = 0 /\ Reorg(a.hhead, len, d)) /\ UNCHANGED <<hist, fin>>
MCNextLens == cMintA \/ cMintBLens \/ cReorgLens \/ cBuildLocator \/ cLocateHeaders \/ cReceiveHeaders \/ cResetSync
MCSpecLens == MCInit /\ [][MCNextLens]_mcvars
MCFairSpec == MCSpec /\ WF_mcvars(MCNext)

\* --- simulation: one random successor per step ---
Fits == {l \in Lens : N + l <= MaxIds + 1}
SimMintA == \E la \in {RandomElement(Lens)} : \E da \in {RandomElement(Diffs)} : MintA(la, da)
SimMintB ==
  \E r \in {RandomElement(1..8)} :
  \E dep \in {IF r <= 2 THEN 0 ELSE IF r = 3 THEN 1 ELSE IF r = 4 THEN 2 ELSE IF r = 5 THEN 3
              ELSE IF r = 6 THEN RandomElement(0..7) ELSE IF r = 7 THEN RandomElement(Lens) ELSE RandomElement(0..a0)} :
  \E f \in {IF dep >= a0 THEN 0 ELSE a0 - dep} :
  \E ahead \in {{p \in Fits \X Diffs : Work(f) + p[1] * p[2] > Work(a0)}} :            \* mostly: B has more work than A
  \E p \in {IF ahead # {} /\ RandomElement(1..8) <= 7 THEN RandomElement(ahead) ELSE RandomElement(Fits \X Diffs)} :
     MintB(f, p[1], p[2])
SimReorg ==
  \E r \in {RandomElement(1..8)} :
  \E dep \in {IF RandomElement(1..3) = 1 THEN RandomElement(Lens) ELSE RandomElement(1..4)} :
  \E from \in {IF r <= 2 THEN b.hhead                                                     \* B simply grows
               ELSE IF r <= 5 THEN AtHeight(b.hhead, IF Height(b.hhead) > dep THEN Height(b.hhead) - dep ELSE 0)
               ELSE IF r = 6 THEN a.hhead                                                 \* B adopts A's chain and grows it
               ELSE RandomElement(Ids)} :
  \E cand \in {{p \in (Fits \ {0}) \X Diffs : Work(from) + p[1] * p[2] > Work(b.hhead)}} :
     cand # {} /\ \E p \in {RandomElement(cand)} : Reorg(from, p[1], p[2])
SimByz ==
  \E r \in {RandomElement(1..5)} :
  \* a batch whose first header connects to what A has but whose last does not (its parent is left out):
  \* nothing of it may be stored
  \E partial \in {{x \in b.hdrs \ a.hdrs : Height(x) >= 3 /\ MaxHeaders >= 3 /\ AtHeight(x, Height(x) - 3) \in a.hdrs
                                          /\ AtHeight(x, Height(x) - 1) \notin a.hdrs}} :
  IF r <= 2 /\ partial # {} THEN (\E x \in {RandomElement(partial)} : Byz(x, 3, 2))
  ELSE
  \E pool \in {IF r <= 4 /\ (b.hdrs \ a.hdrs) # {} THEN b.hdrs \ a.hdrs ELSE Ids \ {0}} :
     pool # {} /\
     \E x \in {RandomElement(pool)} :
     \E k \in {RandomElement(1..Min(Min(MaxHeaders, Height(x)), 6))} :
     \E g \in {IF k >= 3 /\ RandomElement(1..2) = 1 THEN RandomElement(2..(k - 1)) ELSE 0} : Byz(x, k, g)
SimDisturb == \E r \in {RandomElement(1..4)} :
                 IF r <= 2 THEN SimReorg ELSE IF r = 3 THEN ResetSync ELSE SimByz
Finish == /\ Quiescent /\ ~fin
          /\ fin' = TRUE
          /\ last' = [k |-> "Finish", x |-> 0, y |-> 0, res |-> "-"]
          /\ UNCHANGED <<br, a, b, net, a0, used, rounds>>
\* (ENABLED of a RandomElement expression would draw again: use the deterministic enabling condition instead)
SimDisturbAny == used.reorg < MaxReorgs \/ (used.reset < MaxResets /\ a.insync) \/ used.byz < MaxByz
SimStep ==
  IF net.phase = "mintA" THEN SimMintA
  ELSE IF net.phase = "mintB" THEN SimMintB
  ELSE \E coin \in {RandomElement(1..5)} :
         IF Quiescent
         THEN (IF coin <= 3 /\ Budget < MaxReorgs + MaxResets + MaxByz /\ SimDisturbAny THEN SimDisturb ELSE Finish)
         ELSE (IF coin = 1 /\ net.phase \in {"idle", "resp"} THEN (SimDisturb \/ Protocol) ELSE Protocol)
SimNext == ~fin /\ SimStep /\ (fin' = fin \/ last'.k = "Finish") /\ hist' = Append(hist, StepRec)
MCSimSpec == MCInit /\ [][SimNext]_mcvars

Behaviour == [ml |-> MaxLocators, mb |-> MaxHeaders, br |-> br, a0 |-> a0, steps |-> hist,
              quiescent |-> Quiescent, same |-> a.hhead = b.hhead,
              works |-> [k \in 1..Len(br) |-> Work(br[k].first + br[k].len - 1)]]
Emit == fin => PrintT(<<"SYNCBEH", ToJson(Behaviour)>>)

\* the action properties restated over mcvars
MCHeadMonotone == [][(br' = br /\ a'.hhead # a.hhead) => Work(a'.hhead) > Work(a.hhead)]_mcvars
MCHonestAccepted == [][(net.phase = "resp" /\ net'.phase = "idle") => last'.res \in {"ok", "ignored"}]_mcvars
MCRejectLeavesState == [][last'.res \in {"reject", "empty", "ignored"} => a' = a]_mcvars
MCNeverForgets == [][a.hdrs \subseteq a'.hdrs /\ b.hdrs \subseteq b'.hdrs]_mcvars
MCRoundProgress == [][(net.phase = "resp" /\ net'.phase = "idle" /\ net.fresh) =>
                       /\ PhiOf(a', b) = PhiOf(a, b) - 1
                       /\ a'.insync /\ IsAnc(a'.sync, b.hhead)
                       /\ Height(a'.sync) = Min(Height(FindCommon(net.loc, b)) + MaxHeaders, Height(b.hhead))]_mcvars
View == <<br, a, b, net, a0, used, rounds>>
=========================================================================
