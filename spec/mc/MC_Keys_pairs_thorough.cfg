SPECIFICATION Spec
CONSTANTS
  Parts = {"rewind"}
  Seeds = {"s1", "s2"}
  Comps = {"c0", "nmax", "h0"}
  HardComps = {"h0"}
  Amts = {"a0", "amax"}
  MaxDepth = 2
  VKMaxDepth = 2
  MaxOuts = 2
  Fmts = {"new", "legacy"}
  PerGroup = 1
  CraftDepths = {}
  KeyNames = {"d1"}
  MaxTerms = 1
  MaxIO = 1
  MaxUnit = 0
  FeeClasses = {"f1"}
  ScaleClasses = {"one"}
  KernClasses = {"Plain"}
  ViaClasses = {"transaction"}
  CbFeeClasses = {"cf0"}
  AlgStride = 1
  CbStride = 1
  ShapeStride = 1
  PairStride = 401
  WalPicks = 1
INVARIANTS TypeOK KeychainMatrixOK ViewMatrixOK NeverGarbage OtherSeedNothing OwnFormatOnly ProofsVerify Determinism NoCollision SwappedProofNothing EmitPair
