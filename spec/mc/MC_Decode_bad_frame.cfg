SPECIFICATION Spec
CONSTANTS
  ModelDecoders = {"Codec::read"}
  ModelLens = {12}
  Env <- BadEnv
CONSTRAINT Bounded
INVARIANTS FrameLimitOK
