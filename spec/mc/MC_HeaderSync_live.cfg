\* liveness under weak fairness of the next-state relation: once the (finite) disturbances are over the protocol reaches and stays in a state with nothing left to request
SPECIFICATION MCFairSpec
CONSTANTS
  MaxLocators = 4
  MaxHeaders = 3
  Lens = {0, 1, 2, 4}
  Diffs = {1, 2}
  MaxIds = 7
  MaxReorgs = 1
  MaxResets = 1
  MaxByz = 0
  Variant = "code"
  ProbeHeights = {}
  FullChainUpTo = 0
INVARIANTS TypeOK
PROPERTIES EventuallySynced
