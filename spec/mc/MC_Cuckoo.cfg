SPECIFICATION Spec
CONSTANTS
  Graphs <- GraphsFromFile
INVARIANTS TypeOK WalkSimple ClosedIsCycle FormsAgree Balanced ClosedAccepted Emit
