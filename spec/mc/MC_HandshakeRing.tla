------------------------- MODULE MC_HandshakeRing -------------------------
(* C19, direction A for the nonce ring of Handshake.tla at the REAL capacity (RingCap = 100):    *)
(* one scripted behaviour of node "n1" (the Handshake object under test; "n2" is a raw peer)     *)
(* whose outbound initiations exceed the capacity.  TLC walks the script through the actions of  *)
(* Handshake.tla, checks the invariants on the way and prints the history with the outcome of    *)
(* every connection; `h_codec handshake` performs the same connections on ONE real `Handshake`   *)
(* and compares every outcome.                                                                   *)
(* Script entries:  "lost"  n1 dials, the connection breaks before the Hand is delivered         *)
(*                  "raw"   n1 dials the raw peer, which answers with a Shake                    *)
(*                  "in"    the raw peer dials n1 with a fresh nonce                             *)
(*                  "self"  n1 dials one of its own addresses (accept runs on the same object)   *)
EXTENDS Handshake, Json

CONSTANTS Script          \* sequence of entries, see the configs
VARIABLE hist
rvars == <<vars, hist>>

Me == "n1"
Peer == "n2"
Kind == Script[nconn + 1]

RInit == Init /\ ver = [n \in Nodes |-> 1000] /\ gen = [n \in Nodes |-> "g1"] /\ hist = <<>>
RStart == /\ nconn < Len(Script)
          /\ IF Kind = "in" THEN Start(Peer, Me)
             ELSE IF Kind = "self" THEN Start(Me, Me)
             ELSE Start(Me, Peer)
          /\ UNCHANGED hist
RStep == /\ nconn > 0
         /\ IF Script[nconn] = "lost" THEN Lose ELSE (Accept \/ Finish)
         /\ UNCHANGED hist
RReset == /\ Reset
          /\ hist' = Append(hist, [k |-> nconn, kind |-> Script[nconn], ring_len |-> Len(ring[Me]),
                                   resA |-> c.resA, resI |-> c.resI])
RNext == RStart \/ RStep \/ RReset
RSpec == RInit /\ [][RNext]_rvars

\* the scripted walk really goes beyond the capacity of the ring
Finished == nconn = Len(Script) /\ c.stage = "idle"
BeyondCap == Finished => Len(SelectSeq(Script, LAMBDA x : x # "in")) > RingCap
Emit == Finished => PrintT(<<"HSRING", ToJson([script |-> Script, conns |-> hist])>>)

\* scripts ---------------------------------------------------------------------------------------
Rep(n, x) == [i \in 1..n |-> x]
\* quick: 95 broken dials (free), two ordinary connections, then self-dials across the capacity
ScriptFast == Rep(40, "lost") \o <<"raw">> \o Rep(30, "lost") \o <<"in">> \o Rep(25, "lost") \o Rep(9, "self")
\* every dial delivers its Hand: raw peers, inbound connections and self-dials interleaved
ScriptFull == [i \in 1..116 |-> IF i % 9 = 0 THEN "in" ELSE IF i % 4 = 0 \/ i > 100 THEN "self" ELSE "raw"]
=============================================================================
