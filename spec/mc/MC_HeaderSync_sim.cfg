\* random behaviours for direction A (run with -simulate), model constants; replayed on real chains by the harness variant whose extracted functions are compiled with MAX_LOCATORS = 4, MAX_BLOCK_HEADERS = 3
SPECIFICATION MCSimSpec
CONSTANTS
  MaxLocators = 4
  MaxHeaders = 3
  Lens = {0, 1, 2, 3, 4, 5, 6, 7, 8, 9, 10, 12}
  Diffs = {1, 2, 3}
  MaxIds = 30
  MaxReorgs = 2
  MaxResets = 1
  MaxByz = 3
  Variant = "code"
  ProbeHeights = {0, 1, 2, 3, 4, 5, 6, 7, 8, 9, 10, 11, 12, 13, 14, 15, 16, 17, 29, 30, 31, 32, 61, 62, 63, 64, 100, 125, 126, 127, 128, 254, 255, 256, 510, 511, 512, 513, 1000, 1022, 1023, 1024, 2046, 2047, 4094, 4095, 10000, 65534, 65535, 524285, 524286, 524287, 524288, 1048574, 1048575, 1048576, 2000000, 100000000}
  FullChainUpTo = 64
INVARIANTS Emit
