\* careless variant: the lock-height test sits behind the capacity test, an over-capacity pool admits a tx locked to a future height; must violate AdmitMatureUnlocked
SPECIFICATION MCSpecRec
CONSTANTS
  Atoms <- AtomsSmall
  Subs <- SubsSmall
  DupCommits <- DupSmall
  DupCreators <- DupCreatorsSmall
  DupSpenders <- DupSpendersSmall
  Trunk = 5
  Maturity = 3
  MaxPool = 1
  MaxStem = 2
  FeeBase = 1000
  MaxTxWeight = 226
  MaxBlockWeight = 250
  MineWeight = 120
  FeeFirst = TRUE
  TimedAlways = FALSE
  StemRecheck = "always"
  FeeOnRemainder = TRUE
  EvictMode = "nodeps"
  ReconcileMature = TRUE
  NrdEnabled = FALSE
  NrdHeight = 9
  ShortReorg = FALSE
  MaxBlocks = 2
  MaxSteps = 3
  MaxBlockTxs = 1
  MaxReorgDepth = 0
  SimProfile = "mixed"
VIEW View
INVARIANTS EmitAdmitMatureUnlocked
