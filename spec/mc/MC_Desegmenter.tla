-------------------------- MODULE MC_Desegmenter --------------------------
(* Model checking and arrival-order generation for Desegmenter.tla.         *)
(* Cfg comes from a JSON file (IOEnv.DESEG_CFG): either the synthetic       *)
(* 3-segments-per-tree configuration (exhaustive check of the invariants)   *)
(* or the description of a real source chain's archive header (simulation:  *)
(* emits arrival orders that the harness executes on a real receiver).      *)
EXTENDS Desegmenter, Json, IOUtils, SequencesExt

CONSTANTS MaxAdds, MaxBad, MaxDup

VARIABLES hist, nadd, nbad, ndup
mcvars == <<vars, hist, nadd, nbad, ndup>>

CfgFromFile == JsonDeserialize(IOEnv.DESEG_CFG)
MaxLen == MaxAdds + 8

\* component cases for the expected bitmap MMR size (chunk boundaries and their neighbours); printed once per run
OutputCounts == {1, 2, 1023, 1024, 1025, 2047, 2048, 2049, 3072, 4096, 5000}
BmCases == SetToSeq({[outputs |-> n, output_mmr_size |-> M!InsertionToPmmrIndexC(n), chunks |-> BitmapChunks(n),
                      bitmap_mmr_size |-> ExpectedBitmapMMRSize(n)] : n \in OutputCounts})
ASSUME PrintT(<<"BMSIZE", ToJson(BmCases)>>)

MCInit == InitWith(CfgFromFile) /\ hist = <<>> /\ nadd = 0 /\ nbad = 0 /\ ndup = 0

Delivered(t, idx, k) == \E i \in 1..Len(hist) : hist[i].k = "Add" /\ hist[i].tree = t /\ hist[i].idx = idx /\ hist[i].kind = k

MCAdd(t, idx, k) ==
  /\ nadd < MaxAdds /\ Len(hist) < MaxLen
  /\ idx < NSeg(t)
  /\ k # "honest" => nbad < MaxBad
  /\ (k = "honest" /\ Delivered(t, idx, k)) => ndup < MaxDup
  /\ AddSegment(t, idx, k)
  /\ hist' = Append(hist, [k |-> "Add", tree |-> t, idx |-> idx, kind |-> k])
  /\ nadd' = nadd + 1
  /\ nbad' = IF k # "honest" THEN nbad + 1 ELSE nbad
  /\ ndup' = IF k = "honest" /\ Delivered(t, idx, k) THEN ndup + 1 ELSE ndup

MCApply == ApplyNext /\ hist' = Append(hist, [k |-> "Apply"]) /\ UNCHANGED <<nadd, nbad, ndup>>
MCFinalize == Finalize /\ hist' = Append(hist, [k |-> "Finalize"]) /\ UNCHANGED <<nadd, nbad, ndup>>
MCReset == Reset /\ Len(hist) < MaxLen /\ hist' = Append(hist, [k |-> "Restart"]) /\ UNCHANGED <<nadd, nbad, ndup>>

\* the archive path: only on a node without state, result visible in `finalised`
MCArchive(k) == nadd = 0 /\ ArchiveWrite(k) /\ hist' = Append(hist, [k |-> "ArchiveWrite", kind |-> k]) /\ UNCHANGED <<nadd, nbad, ndup>>

MCSegNext ==
          \/ \E t \in Trees : \E idx \in 0..NSeg(t), k \in Kinds : MCAdd(t, idx, k)
          \/ (Len(hist) < MaxLen /\ MCApply)
          \/ MCFinalize
          \/ MCReset
MCNext == MCSegNext \/ \E k \in ArchiveKinds : (Len(hist) < 2 /\ MCArchive(k))
MCSpec == MCInit /\ [][MCNext]_mcvars
\* arrival orders for the PIBD scenarios (the archive scenarios are fixed ones)
MCSpecSim == MCInit /\ [][MCSegNext]_mcvars

View == vars

Done == finalised # "no" \/ Len(hist) >= MaxLen
Emit == Done => PrintT(<<"ORDER", ToJson(hist)>>)
=============================================================================
