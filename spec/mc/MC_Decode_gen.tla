-------------------------- MODULE MC_Decode_gen --------------------------
(* Mutation-plan enumeration (Decode.tla part 2).  Input: the abstract      *)
(* layouts exported by `h_decode layouts` (IOEnv.LAYOUTS, NDJSON).  States: *)
(* root -> one state per layout -> one state per (layout, field); the Emit  *)
(* "invariant" prints one PLAN record per (layout, field) state, one        *)
(* layout-level PLAN per layout state, and the BOUNDS table (the harness    *)
(* takes its allocation bounds from the specification, not from itself).    *)
EXTENDS Decode, Json, IOUtils, SequencesExt

CONSTANTS SweepFirst,      \* how many u8 fields per layout get the full 0..255 sweep
          MaxFields,       \* layouts longer than this are mutated at head, tail and a sample
          TruncEveryMax    \* encodings up to this many bytes are also truncated at every byte offset

Recs == ndJsonDeserialize(IOEnv.LAYOUTS)
LayIdx == {i \in 1..Len(Recs) : Recs[i].t = "layout"}
TargetIdx == {i \in 1..Len(Recs) : Recs[i].t = "target"}
NLay == Cardinality(LayIdx)
Off == Cardinality(TargetIdx)          \* targets come first in the file
LayoutAt(n) == Recs[Off + n]            \* n in 1..NLay; LayoutAt(n).id = n - 1

\* donor of a splice: a layout of another decoder, a fixed stride away
Donor(n) == LET cand == {m \in 1..NLay : LayoutAt(m).dec # LayoutAt(n).dec /\ Len(LayoutAt(m).kinds) > 0}
                pick == CHOOSE m \in cand : \A m2 \in cand : ((m - n - 7) % NLay) <= ((m2 - n - 7) % NLay)
            IN LayoutAt(pick)

VARIABLES lay, fld
gvars == <<lay, fld, vars>>
GInit == lay = 0 /\ fld = 0 /\ Init   \* (the protocol variables of Decode.tla are unused here)
\* the harness implements exactly the catalogue of post-decode steps of the specification
StepsAgree == \A i \in TargetIdx : Recs[i].steps = PostSteps(Recs[i].dec)
IdentWellFormed == \A n \in 1..NLay : IdentOK(LayoutAt(n))
PickLayout == lay = 0 /\ UNCHANGED vars /\ \E n \in 1..NLay : lay' = n /\ fld' = 0
PickField == lay > 0 /\ fld = 0 /\ \E i \in FieldsOf(LayoutAt(lay), MaxFields) : fld' = i /\ UNCHANGED <<lay, vars>>
GNext == PickLayout \/ PickField
GSpec == GInit /\ [][GNext]_gvars

Ops(n, i) == FieldOps(LayoutAt(n), i, Donor(n), SweepFirst)
PlanWellFormed == (lay > 0 /\ fld > 0) => PlanOK(LayoutAt(lay), fld, Ops(lay, fld))

BoundsTable == [i \in TargetIdx |->
                  [dec |-> Recs[i].dec,
                   auto |-> [a |-> AllocA(Recs[i].dec, "auto"), b |-> AllocB(Recs[i].dec, "auto")],
                   main |-> [a |-> AllocA(Recs[i].dec, "main"), b |-> AllocB(Recs[i].dec, "main")]]]

Emit ==
    /\ (lay = 0 => PrintT(<<"BOUNDS", ToJson([i \in 1..Off |-> BoundsTable[i]])>>))
    /\ (lay > 0 /\ fld = 0 =>
          PrintT(<<"PLAN", ToJson([lay |-> LayoutAt(lay).id, f |-> 1,
                                   ops |-> IF LayoutAt(lay).len <= TruncEveryMax THEN <<[op |-> "trunc_every"]>> ELSE <<>>])>>))
    /\ (lay > 0 /\ fld = 0 /\ LayoutAt(lay).ih > 0 =>
          PrintT(<<"PLAN", ToJson([lay |-> LayoutAt(lay).id, f |-> LayoutAt(lay).ih, ops |-> SetToSeq(IdentOps(LayoutAt(lay)))])>>))
    /\ (lay > 0 /\ fld = 0 /\ LayoutAt(lay).pf > 0 =>
          PrintT(<<"PLAN", ToJson([lay |-> LayoutAt(lay).id, f |-> LayoutAt(lay).pf, ops |-> SetToSeq(ProofOps(LayoutAt(lay)))])>>))
    /\ (lay > 0 /\ fld > 0 =>
          PrintT(<<"PLAN", ToJson([lay |-> LayoutAt(lay).id, f |-> fld, ops |-> SetToSeq(Ops(lay, fld))])>>))
==========================================================================
