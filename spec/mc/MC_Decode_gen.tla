-------------------------- MODULE MC_Decode_gen --------------------------
(* Mutation-plan enumeration (Decode.tla part 2).  Input: the abstract      *)
(* layouts exported by `h_decode layouts` (IOEnv.LAYOUTS, NDJSON).  States: *)
(* root -> one state per layout -> one state per (layout, field); the Emit  *)
(* "invariant" prints one PLAN record per (layout, field) state, one        *)
(* layout-level PLAN per layout state, and the BOUNDS table (the harness    *)
(* takes its allocation bounds from the specification, not from itself).    *)
EXTENDS Decode, Json, IOUtils, SequencesExt

CONSTANTS SweepFirst,      \* how many u8 fields per layout get the full 0..255 sweep
          MaxFields,       \* layouts longer than this are mutated at head, tail and a sample
          TruncEveryMax,   \* encodings up to this many bytes are also truncated at every byte offset
          RepeatMaxBytes   \* a repeated group is re-encoded with at most this many bytes of copies

Recs == ndJsonDeserialize(IOEnv.LAYOUTS)
LayIdx == {i \in 1..Len(Recs) : Recs[i].t = "layout"}
TargetIdx == {i \in 1..Len(Recs) : Recs[i].t = "target"}
FamilyIdx == {i \in 1..Len(Recs) : Recs[i].t = "family"}
NLay == Cardinality(LayIdx)
NTargets == Cardinality(TargetIdx)     \* targets come first in the file, then the families, then the layouts
Off == NTargets + Cardinality(FamilyIdx)
LayoutAt(n) == Recs[Off + n]            \* n in 1..NLay; LayoutAt(n).id = n - 1

\* donor of a splice: a layout of another decoder, a fixed stride away
Donor(n) == LET cand == {m \in 1..NLay : LayoutAt(m).dec # LayoutAt(n).dec /\ Len(LayoutAt(m).kinds) > 0}
                pick == CHOOSE m \in cand : \A m2 \in cand : ((m - n - 7) % NLay) <= ((m2 - n - 7) % NLay)
            IN LayoutAt(pick)

VARIABLES lay, fld
gvars == <<lay, fld, vars>>
GInit == lay = 0 /\ fld = 0 /\ Init   \* (the protocol variables of Decode.tla are unused here)
\* the harness implements exactly the catalogue of post-decode steps of the specification
StepsAgree == \A i \in TargetIdx : Recs[i].steps = PostSteps(Recs[i].dec)
IdentWellFormed == \A n \in 1..NLay : IdentOK(LayoutAt(n)) /\ GroupsOK(LayoutAt(n)) /\ EraOK(LayoutAt(n))
PickLayout == lay = 0 /\ UNCHANGED vars /\ \E n \in 1..NLay : lay' = n /\ fld' = 0
PickField == lay > 0 /\ fld = 0 /\ \E i \in FieldsOf(LayoutAt(lay), MaxFields) : fld' = i /\ UNCHANGED <<lay, vars>>
GNext == PickLayout \/ PickField
GSpec == GInit /\ [][GNext]_gvars

Ops(n, i) == FieldOps(LayoutAt(n), i, Donor(n), SweepFirst)
PlanWellFormed == (lay > 0 /\ fld > 0) => PlanOK(LayoutAt(lay), fld, Ops(lay, fld))

BoundsOf(d, ct) == [a |-> AllocA(d, ct), b |-> AllocB(d, ct), da |-> DecA(d, ct)]
BoundsTable == [i \in TargetIdx |-> [dec |-> Recs[i].dec, auto |-> BoundsOf(Recs[i].dec, "auto"), main |-> BoundsOf(Recs[i].dec, "main"),
                                     test |-> BoundsOf(Recs[i].dec, "test")]]
\* per chain type, by frame type 0..29 (29 = any unknown type): the largest announced length the header check admits and the
\* constant of the body's decoder
FrameRow(ct) == [k \in 1..30 |-> [ty |-> k - 1, admit |-> FrameAdmit(k - 1, ct), a |-> FrameBodyA(k - 1)]]
FramesTable == [auto |-> FrameRow("auto"), main |-> FrameRow("main"), test |-> FrameRow("test")]
\* (family, chain type, count) of the many-valid-items inputs
BigOf(i) == UNION {{[fam |-> Recs[i].fam, ct |-> Recs[i].cts[j], n |-> n] : n \in BigCounts(Recs[i], Recs[i].cts[j])} : j \in 1..Len(Recs[i].cts)}

Emit ==
    /\ (lay = 0 => PrintT(<<"BOUNDS", ToJson([i \in 1..NTargets |-> BoundsTable[i]])>>))
    /\ (lay = 0 => PrintT(<<"FRAMES", ToJson(FramesTable)>>))
    /\ (lay = 0 => \A i \in FamilyIdx : \A b \in BigOf(i) : PrintT(<<"BIG", ToJson(b)>>))
    /\ (lay > 0 /\ fld = 0 =>
          \A o \in RepeatOps(LayoutAt(lay), RepeatMaxBytes) :
              PrintT(<<"PLAN", ToJson([lay |-> LayoutAt(lay).id, f |-> o.c, ops |-> <<o>>])>>))
    /\ (lay > 0 /\ fld = 0 /\ LayoutAt(lay).hv > 0 =>
          PrintT(<<"PLAN", ToJson([lay |-> LayoutAt(lay).id, f |-> LayoutAt(lay).hv, ops |-> SetToSeq(EraOps(LayoutAt(lay)))])>>))
    /\ (lay > 0 /\ fld = 0 /\ LayoutAt(lay).fty >= 0 =>
          PrintT(<<"PLAN", ToJson([lay |-> LayoutAt(lay).id, f |-> 4, ops |-> SetToSeq(FrameLenOps(LayoutAt(lay)) \cup SilentOps(LayoutAt(lay)))])>>))
    /\ (lay > 0 /\ fld = 0 =>
          PrintT(<<"PLAN", ToJson([lay |-> LayoutAt(lay).id, f |-> 1,
                                   ops |-> IF LayoutAt(lay).len <= TruncEveryMax THEN <<[op |-> "trunc_every"]>> ELSE <<>>])>>))
    /\ (lay > 0 /\ fld = 0 /\ LayoutAt(lay).ih > 0 =>
          PrintT(<<"PLAN", ToJson([lay |-> LayoutAt(lay).id, f |-> LayoutAt(lay).ih, ops |-> SetToSeq(IdentOps(LayoutAt(lay)))])>>))
    /\ (lay > 0 /\ fld = 0 /\ LayoutAt(lay).pf > 0 =>
          PrintT(<<"PLAN", ToJson([lay |-> LayoutAt(lay).id, f |-> LayoutAt(lay).pf, ops |-> SetToSeq(ProofOps(LayoutAt(lay)))])>>))
    /\ (lay > 0 /\ fld > 0 =>
          PrintT(<<"PLAN", ToJson([lay |-> LayoutAt(lay).id, f |-> fld, ops |-> SetToSeq(Ops(lay, fld))])>>))
==========================================================================
