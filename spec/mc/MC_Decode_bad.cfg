SPECIFICATION Spec
CONSTANTS
  ModelDecoders = {"Ping::read", "Segment<TxKernel>::read", "Codec::read"}
  ModelLens = {0, 1, 4}
  Env <- BadEnv
CONSTRAINT Bounded
INVARIANTS OutcomeOK ConsumedOK AllocBounded Progress InCallOK StepKnown
