SPECIFICATION Spec
CONSTANTS
  ChainParams <- GrinChainParams
  CT = "AutomatedTesting"
  FTL = 300
  MaxLen = 14
  StepDeltas = {1, 60}
  Prefix = 0
  Now = 1790000000
INVARIANTS HonestAccepted MutantsDecided HeaderRulesEquiv SkipPowDecided OptionsIrrelevant WireDecided ReadDecided ChainOK
