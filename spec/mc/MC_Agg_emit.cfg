SPECIFICATION Spec
CONSTANTS
  Libraries <- LibrariesT
  Rewards <- RewardsC
  MaxFamily = 4
  PrevOffset = 16384
CONSTRAINT NoPlans
INVARIANTS Emit
