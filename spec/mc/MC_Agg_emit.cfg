SPECIFICATION Spec
CONSTANTS
  Libraries <- LibrariesT
  Rewards <- RewardsC
  MaxFamily = 4
  PrevOffsets = {0, 16384}
  MaxFamilyOf <- MaxFamilyQ
  PlanChoices <- NoPlanChoices
CONSTRAINT NoPlans
INVARIANTS Emit
