SPECIFICATION Spec
CONSTANTS
  MaxIn = 2
  MaxOut = 2
  MaxKern = 1
  Vals = {0, 1, 2, 3}
  NBlind = 3
  RPatterns <- Pat1
  Fees = {1, 2}
  Offsets <- OffsetsC
  Splits <- SplitsSmall
  PrevOffsets = {0, 1}
  MaxCorrupt = 1
INVARIANTS TablesAgree ValidImpliesNoValueCreated BasesAreValid SingleCorruptionRefused RefusedConservingIsStructural ValidSplit FeeShiftIsNoValue RestImpliesNoValueCreated
