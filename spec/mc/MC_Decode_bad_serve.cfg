SPECIFICATION Spec
CONSTANTS
  ModelDecoders = {"SegmentRequest::read"}
  ModelLens = {4}
  Env <- BadEnv
CONSTRAINT Bounded
INVARIANTS ServeBounded
