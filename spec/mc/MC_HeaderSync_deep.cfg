\* undisturbed protocol on long chains (up to 20 headers, forks of every depth): multi-round syncs, locator back-off into the cap
SPECIFICATION MCSpec
CONSTANTS
  MaxLocators = 4
  MaxHeaders = 3
  Lens = {0, 1, 2, 3, 4, 5, 6, 7, 8, 9, 10, 11, 12, 13, 14}
  Diffs = {1, 2}
  MaxIds = 20
  MaxReorgs = 0
  MaxResets = 0
  MaxByz = 0
  Variant = "code"
  ProbeHeights = {}
  FullChainUpTo = 0
VIEW View
INVARIANTS TypeOK StoredOnTree SyncLeHead LocatorShape BackoffQuality AnswerContiguous RoundsBound Converged NotBehind
PROPERTIES MCHeadMonotone MCHonestAccepted MCRejectLeavesState MCNeverForgets MCRoundProgress
