\* careless variant (the per-thread transaction count is a mark that ANY close wipes): a thread holding an iterator is
\* made to wait at the gate for the enlargement that waits for its iterator - must violate NoHolderParked (anti-vacuity)
SPECIFICATION MCSpec
CONSTANTS
  NS = 1
  NK = 1
  Vals = {1}
  MaxDepth = 1
  NR = 1
  NT = 2
  Writers = {1, 2}
  ItThreads = {1, 2}
  RdThreads = {1, 2}
  MapInit = 10
  UsedInit = 9
  Chunk = 10
  PutCost = 1
  TxnBeforeGate = FALSE
  NestedCloseClearsMark = TRUE
  ReadNotCounted = FALSE
  SqueezedFits = TRUE
  ReopenClampsMap = FALSE
  LiveSized = FALSE
  Page = 1
  PageBySkipCur = FALSE
  PageFreshSnap = FALSE
  BatchMax = 1
  MaxOps = 14
  WithReads = FALSE
  Stride = 1
  Offset = 0
VIEW View
INVARIANTS TypeOK NoHolderParked GateLive PageWalk
