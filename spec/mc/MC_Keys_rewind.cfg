SPECIFICATION Spec
CONSTANTS
  Parts = {"rewind"}
  Seeds = {"s1", "s2", "s3"}
  Comps = {"c0", "c1", "nmax", "h0", "hmax"}
  HardComps = {"h0", "hmax"}
  Amts = {"a0", "a1", "a60", "a63", "amax"}
  MaxDepth = 4
  VKMaxDepth = 1
  MaxOuts = 1
  Fmts = {"new", "legacy", "wallet1", "sw2"}
  PerGroup = 1
  CraftDepths = {0, 3, 4}
  KeyNames = {"d1"}
  MaxTerms = 1
  MaxIO = 1
  MaxUnit = 0
  FeeClasses = {"f1"}
  ScaleClasses = {"one"}
  KernClasses = {"Plain"}
  ViaClasses = {"transaction"}
  CbFeeClasses = {"cf0"}
  AlgStride = 1
  CbStride = 1
  ShapeStride = 1
  PairStride = 1
  WalPicks = 1
INVARIANTS TypeOK RewindMatrixAll ProofsVerify SiblingsOK SignOK EmitOut
