SPECIFICATION Spec
CONSTANTS
  LocalVersion = 1000
  ChanCap = 100
  VersionFromInfo = TRUE
  WriteOnce = FALSE
  Scenarios <- ProbeScenarios
INVARIANTS TypeOK GotFaithful
