SPECIFICATION Spec
CONSTANTS
  MaxIn = 1
  MaxOut = 1
  MaxKern = 1
  Vals = {0, 1, 2}
  NBlind = 3
  RPatterns <- Pat1
  Fees = {1}
  Offsets <- OffsetsC
  Splits <- SplitsSmall
  PrevOffsets = {0}
  MaxCorrupt = 1
  BlockTotalFees <- FeeViaFeeFields
INVARIANTS AllChecks
