--------------------------- MODULE MC_TxBalance ---------------------------
EXTENDS TxBalance, Json
\* Direction A generator: one NDJSON case per visited body (base or corrupted), with the
\* specification's verdict.  Used with -simulate (stratified random walks root -> group -> values
\* -> base -> corruption, seeded from VERIF_SEED) so that every (group x corruption class) cell is
\* drawn from, and with the small exhaustive emit config.
OffsetsC == {-1, 0, 1}
SplitsC == {-2, -1, 1, 2}
SplitsSmall == {-2, 1}
Pat1 == {<<0, 1>>}
Pat3 == {<<0, 0>>, <<0, 1>>, <<1, 2>>}
Pat9 == (0..2) \X (0..2)
Case == [grp |-> grp, body |-> body, ctx |-> ctx, applied |-> applied,
         expect |-> [valid |-> Valid(body, ctx), rule |-> FirstFailing(body, ctx),
                     nvc |-> NoValueCreated(body, ctx), degenerate |-> Degenerate(body, ctx)]]
Emit == HasBody => PrintT(<<"TXCASE", ToJson(Case)>>)
\* In simulation every walk is followed to a body with MaxCorrupt corruptions; emit all bodies on the way.
===========================================================================
