--------------------------- MODULE MC_TxBalance ---------------------------
EXTENDS TxBalance, Json, IOUtils
\* Model-checking instance of TxBalance.tla and direction-A case generator.
OffsetsC == {-1, 0, 1}
SplitsC == {-2, -1, 1, 2}
SplitsSmall == {-2, 1}
Pat1 == {<<0, 1>>}
Pat3 == {<<0, 0>>, <<0, 1>>, <<1, 2>>}
Pat9 == (0..2) \X (0..2)

\* ---- representatives: Reps seed-selected value choices per group and one seed-selected base per
\* value choice, so that the emit run walks every (group x corruption class x position) cell.
Seed == IF "VERIF_SEED" \in DOMAIN IOEnv THEN atoi(IOEnv.VERIF_SEED) ELSE 1
Reps == IF "TXBAL_REPS" \in DOMAIN IOEnv THEN atoi(IOEnv.TXBAL_REPS) ELSE 1
Pick(S, k) ==   \* k elements of S starting at a seed-dependent index of its canonical enumeration
  IF S = {} THEN {}
  ELSE LET q == SetToSeq(S) n == Len(q)
       IN  {q[1 + ((Seed * 7919 + i * 104729) % n)] : i \in 1..k}
\* every fee-magnitude value choice is replayed (they are few); the others are sampled
RepValueChoices(g) == IF g.big THEN AllValueChoices(g) ELSE Pick(AllValueChoices(g), Reps)
RepBases(g, w) ==   \* prefer bases on which libsecp can compute every sum (the converse direction is exercised)
  LET A == AllBases(g, w)
      N == {bc \in A : ~Degenerate(bc.body, bc.ctx)}
  IN  Pick(IF N # {} THEN N ELSE A, 1)
\* all single corruptions of a representative, and PairK seed-selected second corruptions on top of each
PairK == IF "TXBAL_PAIRS" \in DOMAIN IOEnv THEN atoi(IOEnv.TXBAL_PAIRS) ELSE 1
SampledCorruptions(b, c, a) ==
  IF a = <<>> THEN Corruptions(b, c)
  ELSE LET S == Corruptions(b, c) q == SetToSeq(S) n == Len(q)
       IN  {q[1 + ((Seed * 31 + Len(b.ins) * 7 + Len(b.outs) * 13 + Len(b.kerns) * 17 + i * 104729) % n)] : i \in 1..PairK}

\* ---- realisations: the representations / weightings a case may be run under, with the verdict under each.
\* (co, tx) resp. (co, block) is the base run; `must` marks the runs that show something the base run cannot
\* (an input whose claimed features only exist in the FeaturesAndCommit representation; a body at / just over the
\* weight bound of AsLimitedTransaction); of the others the driver runs one for some cases, rotating.
ClaimsFeatures(b) == \E i \in 1..Len(b.ins) : "f" \in DOMAIN b.ins[i]
Realisations ==
  IF ctx.as = "tx"
  THEN LET rv == RestValid(body, ctx)
       IN  [k \in 1..6 |->
             LET iv == IF k <= 3 THEN "co" ELSE "fc"
                 w  == <<"tx", "limited", "nolimit">>[1 + ((k - 1) % 3)]
             IN  [iv |-> iv, w |-> w, valid |-> RuleWeight(body, TxWeightBound(w)) /\ rv, rule |-> FirstFailingW(body, ctx, w),
                  must |-> \/ k = 1
                           \/ iv = "fc" /\ ClaimsFeatures(body)
                           \* the weight rule at its boundary: a body exactly at the bound of AsLimitedTransaction, and one unit over
                           \/ iv = "co" /\ w = "limited" /\ Weight(body) \in {TxWeightBound(w), TxWeightBound(w) + 1}]]
  ELSE LET v == Valid(body, ctx) ff == FirstFailing(body, ctx)
       IN  [k \in 1..2 |-> [iv |-> <<"co", "fc">>[k], w |-> "block", valid |-> v, rule |-> ff,
                            must |-> (k = 1) \/ ClaimsFeatures(body)]]
Case == [grp |-> grp, body |-> body, ctx |-> ctx, applied |-> applied,
         expect |-> [valid |-> Valid(body, ctx), rule |-> FirstFailing(body, ctx), rest_valid |-> RestValid(body, ctx),
                     nvc |-> NoValueCreated(body, ctx), degenerate |-> Degenerate(body, ctx)],
         runs |-> Realisations]
Emit == HasBody => PrintT(<<"TXCASE", ToJson(Case)>>)
===========================================================================
