SPECIFICATION MCSpec
CONSTANTS
  MaxLeaves = 6
  WithSubtrees = FALSE
  MaxSteps = 40
  Mut = "none"
  FullRewindSets = FALSE
VIEW ViewNoLen
INVARIANT Refinement
CHECK_DEADLOCK FALSE
