---------------------------- MODULE MC_Chain ----------------------------
EXTENDS Chain, Json
(* Bounded configurations of Chain.tla and the behaviour generator for direction A. *)
PoolNoneVal == <<>>
Pool2 == {100, 102}
PoolVal2 == (100 :> 3 @@ 102 :> 2)
Pool3 == {100, 101, 102}
PoolVal3 == (100 :> 3 @@ 101 :> 3 @@ 102 :> 2)
Pool5 == {100, 101, 102, 103, 104}
PoolVal5 == (100 :> 3 @@ 101 :> 3 @@ 102 :> 2 @@ 103 :> 1 @@ 104 :> 4)

\* long trunk in which every block k >= 8 spends coinbase k-4 and pool output 200+k-4 into 200+k (TrunkTx):
\* value(200+k) = 3 + 4 * ((k - 8) \div 4); further pool outputs so that the last trunk outputs and the
\* coinbases (4, or 5 with a fee) can be spent by balanced 1-in-1-out transactions
TrunkPoolIds == {200 + k : k \in 8..85}
TrunkPoolVal(c) == 3 + 4 * ((c - 208) \div 4)
PoolC == {100, 101, 102, 103, 104} \cup TrunkPoolIds \cup {382, 383, 384, 385}
PoolValC == [c \in PoolC |-> IF c \in {100, 101} THEN 3 ELSE IF c = 102 THEN 2 ELSE IF c \in {103, 104} THEN 4
                              ELSE IF c >= 300 THEN TrunkPoolVal(c - 100) - 1 ELSE TrunkPoolVal(c)]

CONSTANT SimProfile   \* "mixed" | "flags" | "locks" | "plain" | "deep" | "respend" | "nrd": bias of the simulation-only minting

VARIABLE hist      \* observation only: the delivered steps with the projection after each
mcvars == <<tree, n, ndel, last, hist>>

Unspent(nd) == {[c |-> nd.u.outs[i].c, h |-> nd.u.outs[i].h] : i \in nd.u.unspent}
\* k (the delivery counter) only picks the ancestor whose output MMR size bounds the second enumeration
Proj(nd, k) == [head |-> nd.head, hhead |-> nd.hhead, unspent |-> Unspent(nd), nleaves |-> Len(nd.u.outs),
             nkernels |-> KernelCount(nd.head),
             \* head of the recent-kernel (NRD) index per excess key: the height of its latest occurrence on the best chain, -1 = none
             nrdtop |-> IF ShapeNrd THEN [kk \in NrdKeys |-> IF nd.nrd[kk] = <<>> THEN -1 ELSE nd.nrd[kk][Len(nd.nrd[kk])]] ELSE <<>>,
             enum |-> EnumOf(nd.u),
             enumAt |-> LET a == AncAt(nd.head, k % (Height(nd.head) + 1)) IN [b |-> a, cs |-> EnumUpTo(nd, a)],
             orph |-> nd.orph, hdrs |-> nd.hdrs, bodies |-> nd.bodies,
             bestsums |-> {b \in nd.sums : IsAnc(b, nd.head)}, tail |-> nd.tail]

\* Valid() without re-deriving the trunk: every trunk block was accepted by the model's own pipeline at
\* Init (TrunkStored, conjoined to the simulation Init), and BodiesValid says stored blocks are valid
TrunkStored == \A k \in 0..Trunk : k \in n.bodies
RECURSIVE ValidT(_)
ValidT(b) == IF b <= Trunk THEN TRUE
             ELSE /\ ValidT(Parent(b)) /\ HeaderOK(b) /\ BodyOK(b)
                  /\ UtxoOK(Replay(Parent(b)), b)
                  /\ NrdOKb(b)
                  /\ LateOK(b)
ValidIdsT == (0..Trunk) \cup {b \in Ids : b > Trunk /\ ValidT(b)}

\* commitments unspent at block b by the definitional oracle (what a read-only rewind to b must expose)
UnspentAt(b) == LET u == Replay(b) IN {u.outs[i].c : i \in u.unspent}

\* Simulation-only minting: one random well-formed block per step (RandomElement), biased towards
\* empty and unflagged blocks so that a good share of every tree is valid.
BalancedTxs(id, h) == {t \in TxChoices(h) \ {NoTx} :
                         /\ t.ins \cap t.outs = {} /\ id \notin t.ins
                         /\ SumVal(t.ins) = SumVal(t.outs) + Fee}
\* (random draws are bound with \E over a singleton so that each is evaluated exactly once)
MintSim ==
  LET id == Cardinality(Ids) IN
  \E vb \in {ValidIdsT} :
  \E rp \in {RandomElement(1..10)} :
  \E lv \in {CHOOSE b \in vb : \A x \in vb : x <= b} :
  \E p \in {IF SimProfile = "compact"
             THEN (IF rp <= 3 THEN RandomElement({b \in Ids : Height(b) >= Trunk - 20})           \* forks down to the horizon of a compaction at the trunk head
                   ELSE IF rp <= 5 /\ lv > Trunk THEN Parent(lv) ELSE lv)
             ELSE IF SimProfile = "orphans"
             THEN (IF rp <= 5 /\ lv # 0 THEN Parent(lv) ELSE lv)                                  \* siblings at one height, short lines on top
             ELSE IF SimProfile = "deep" /\ rp <= 6 THEN RandomElement({b \in Ids : Height(b) <= 4})   \* fork points far below the head
             ELSE IF SimProfile \in {"respend", "nrd"} /\ rp <= 4 /\ lv # 0 THEN Parent(lv)        \* sibling of the latest valid block
             ELSE IF SimProfile \in {"respend", "nrd"} /\ rp <= 9 THEN lv
             ELSE IF rp <= 2 THEN RandomElement(Ids)                                    \* mostly extend the latest valid block
             ELSE IF rp <= 4 THEN RandomElement(vb)
             ELSE CHOOSE b \in vb : \A x \in vb : x <= b} :
  \E d \in {RandomElement(Diffs)} :
  \E f0 \in {IF Flags # {} /\ RandomElement(1..6) <= (IF SimProfile \in {"flags", "orphans"} THEN 3 ELSE 1) THEN RandomElement(Flags) ELSE "ok"} :
  \E r \in {RandomElement(1..10)} :
  \E bt \in {BalancedTxs(id, Height(p) + 1)} :
  \E u \in {IF p \in vb THEN Replay(p) ELSE GenesisU} :
  \E live \in {{u.outs[i].c : i \in u.unspent}} :
  \E mature \in {{u.outs[i].c : i \in {j \in u.unspent : ~u.outs[j].cb \/ u.outs[j].h + Maturity <= Height(p) + 1}}} :
  \E good \in {{t \in bt : t.ins \subseteq mature /\ t.outs \cap live = {} /\ LockH(t) <= Height(p) + 1}} :
  \E edge \in {{t \in bt : (\A c \in t.ins : c < 100) \/ t.lock # 0}} :
  \E fresh \in {{t \in good : t.ins \cap tree[p].tx.outs # {}}} :           \* spends an output created by the parent block
  \E nrdtx \in {{t \in bt : IsNrd(t) /\ NrdKey(t) = 1 /\ t.ins \subseteq mature /\ t.outs \cap live = {}}} :   \* same excess again and again
  \E old \in {{t \in good : \E c \in t.ins : \E i \in LeafOf(u, c) : u.outs[i].h + Horizon + 5 < Trunk}} :   \* spends an output from far below the horizon
  \E stale \in {{t \in bt : \E c \in t.ins : c \notin live /\ \E k \in 1..Trunk : c \in tree[k].tx.ins}} :     \* re-spends an output spent (and pruned) long ago
  \E t \in {IF SimProfile = "compact"
             THEN (IF r <= 1 \/ bt = {} THEN NoTx
                   ELSE IF r <= 5 /\ old # {} THEN RandomElement(old)
                   ELSE IF r <= 7 /\ good # {} THEN RandomElement(good)
                   ELSE IF r <= 9 /\ stale # {} THEN RandomElement(stale)
                   ELSE RandomElement(bt))
             ELSE IF SimProfile = "nrd"
             THEN (IF r <= 1 \/ bt = {} THEN NoTx
                   ELSE IF r <= 8 /\ nrdtx # {} THEN RandomElement(nrdtx)
                   ELSE IF good # {} THEN RandomElement(good) ELSE NoTx)
             ELSE IF SimProfile = "respend"
             THEN (IF r <= 1 \/ bt = {} THEN NoTx
                   ELSE IF r <= 6 /\ fresh # {} THEN RandomElement(fresh)
                   ELSE IF good # {} THEN RandomElement(good) ELSE NoTx)
             ELSE IF SimProfile = "locks"
             THEN (IF r <= 2 \/ bt = {} THEN NoTx
                   ELSE IF r <= 5 /\ good # {} THEN RandomElement(good)
                   ELSE IF edge # {} THEN RandomElement(edge) ELSE RandomElement(bt))
             ELSE (IF r <= 3 \/ bt = {} THEN NoTx
                   ELSE IF r <= 8 /\ good # {} THEN RandomElement(good)
                   ELSE RandomElement(bt))} :
  \* blocks corrupted at a late stage keep their transaction: the failure comes after the inputs were pruned
  \E t1 \in {IF f0 \in LateFlags \cup {"ok"} THEN t ELSE NoTx} :
  \* a second transaction (second kernel) in the two-transaction shapes: mostly one that is valid next to t1, sometimes
  \* one with a lock height / NRD kernel at the edge, so that the pair has one passing and one failing kernel
  \E r2 \in {RandomElement(1..10)} :
  \E cand2 \in {IF ShapeTwo /\ HasTx(t1) /\ f0 = "ok" THEN Tx2Choices(Height(p) + 1, t1) \cap bt ELSE {}} :
  \E good2 \in {cand2 \cap good} :
  \E edge2 \in {{x \in cand2 : x.ins \subseteq mature /\ x.outs \cap live = {} /\ x.lock # 0}} :
  \E t2 \in {IF r2 <= 3 \/ cand2 = {} THEN NoTx
              ELSE IF r2 <= 6 /\ good2 # {} THEN RandomElement(good2)
              ELSE IF edge2 # {} THEN RandomElement(edge2)
              ELSE IF good2 # {} THEN RandomElement(good2) ELSE NoTx} :
         Mint2(p, d, t1, t2, f0)
\* one random delivery per step, biased towards blocks whose body is not stored yet and whose
\* parent header is known
DeliverSim ==
  LET fresh == {b \in Ids \ {0} : b \notin n.bodies}
      ready == {b \in fresh : Parent(b) \in n.hdrs}
      ready2 == {b \in fresh : Parent(b) \in n.bodies}
      hpend == {b \in Ids \ {0} : HeaderChainOK(b) /\ b \notin n.hdrs}
  IN IF HeadersFirst /\ ~HeadersDone
     THEN DeliverHeader(CHOOSE b \in hpend : \A x \in hpend : b <= x)
     ELSE
     \E r \in {RandomElement(1..10)} :
     \E parked \in {{n.orph[i] : i \in 1..Len(n.orph)}} :
     \E notyet \in {fresh \ parked} :
     \E deepest \in {{x \in notyet : \A y \in notyet : Height(y) <= Height(x)}} :
     \E b \in {IF SimProfile = "orphans" /\ r <= 8 /\ deepest # {} THEN RandomElement(deepest)       \* children before parents: orphans pile up
                ELSE IF r <= 4 /\ ready2 # {} THEN RandomElement(ready2)
                ELSE IF r <= 6 /\ ready # {} THEN RandomElement(ready)
                ELSE IF r <= 8 /\ fresh # {} THEN RandomElement(fresh)
                ELSE RandomElement({x \in Ids \ {0} : SimProfile # "compact" \/ x + 30 > Trunk})} :
     \E hb \in {RandomElement(1..8)} :
        IF hb <= 2 /\ ~HeadersFirst /\ SimProfile # "orphans" THEN DeliverHeader(b)
        ELSE IF hb = 3 /\ ~HeadersFirst /\ Height(b) >= 2 /\ SimProfile # "orphans"
             THEN (\E k \in {RandomElement(2..(IF Height(b) >= 3 THEN 3 ELSE 2))} :
                   \E sh \in {IF RandomElement(1..2) = 1 THEN n.hhead ELSE RandomElement(n.hdrs)} :      \* the caller's sync head
                     DeliverHeadersFrom(b, k, sh))
        ELSE DeliverBlock(b)
SimNext == \/ MintSim
           \/ (AllMinted /\ DeliverSim)
           \/ (SimProfile # "orphans" /\ \E r \in {RandomElement(1..6)} : r = 1 /\ Reopen)
           \/ (TxShapes # "none" /\ \E r \in {RandomElement(1..7)} : r = 1 /\          \* a restart on a damaged output_pos index
                  \E live \in {{n.u.outs[i].c : i \in n.u.unspent} \ {0}} :
                  \E r1 \in {RandomElement(0..2)} : \E r2 \in {RandomElement(1..3)} :
                  \E del \in {{c \in live : (c + r1) % r2 = 0}} :                      \* all / a half / a third of the entries lost
                  \E keys \in {(AllCommits \ {0})} :
                  \E k1 \in {RandomElement(keys)} : \E k2 \in {RandomElement(keys)} :
                  \E l1 \in {RandomElement(1..(Len(n.u.outs) + 1))} : \E l2 \in {RandomElement(1..(Len(n.u.outs) + 1))} :
                  \E ns \in {RandomElement(0..2)} :
                  \E st \in {IF ns = 0 THEN <<>> ELSE IF ns = 1 \/ k1 = k2 THEN (k1 :> l1) ELSE (k1 :> l1) @@ (k2 :> l2)} :
                    (del # {} \/ st # <<>>) /\ Reindex(del, st))
           \/ (TxShapes # "none" /\ \E r \in {RandomElement(1..5)} : r = 1 /\                       \* a pool-facing query about a random transaction
                  \E bt \in {BalancedTxs(9999, Height(n.head) + 1)} : bt # {} /\
                  \E live \in {{n.u.outs[i].c : i \in n.u.unspent}} :
                  \E cand \in {{t \in bt : t.ins \subseteq live}} :                                  \* mostly spends of existing outputs (mature or not)
                  \E t \in {IF cand # {} /\ RandomElement(1..3) <= 2 THEN RandomElement(cand) ELSE RandomElement(bt)} :
                  \* in the two-transaction shapes: mostly about the aggregate of two transactions
                  \E c2 \in {IF ShapeTwo THEN Tx2Choices(Height(n.head) + 1, t) \cap bt ELSE {}} :
                  \E c2l \in {{x \in c2 : x.ins \subseteq live}} :
                  \E t2 \in {IF c2 = {} \/ RandomElement(1..4) = 1 THEN NoTx
                              ELSE IF c2l # {} /\ RandomElement(1..3) <= 2 THEN RandomElement(c2l) ELSE RandomElement(c2)} :
                    QueryTx2(t, t2))
           \/ (SimProfile = "compact" /\ \E r \in {RandomElement(1..3)} : r = 1 /\ CompactCall)
           \/ (SimProfile = "compact" /\ AllMinted /\ ndel = 0 /\                               \* headers run ahead of the bodies first
                  \E cand \in {{x \in ValidIdsT : Height(x) - Trunk \in {2, 3} /\ IsAnc(Trunk, x)}} :
                    cand # {} /\ \E b \in {CHOOSE x \in cand : \A y \in cand : Height(y) <= Height(x)} :
                      DeliverHeaders(b, Height(b) - Trunk))
           \/ (SimProfile = "compact" /\ last.k = "Compact" /\                                   \* right after a compaction: rewind to the horizon itself
                  \E b \in {CHOOSE x \in Ids : IsAnc(x, n.head) /\ Height(x) = n.hz} : Probe(b))
           \/ (SimProfile \in {"compact", "reset"} /\ \E r \in {RandomElement(1..6)} : r = 1 /\
                  \E b \in {RandomElement({x \in Ids : IsAnc(x, n.head) /\ Height(x) >= n.hz /\ Height(x) + 25 >= Height(n.head)})} : Probe(b))
           \/ (SimProfile \in {"compact", "reset"} /\ \E r \in {RandomElement(1..(IF SimProfile = "reset" THEN 3 ELSE 8))} : r = 1 /\
                  \E cand \in {{x \in n.hdrs : Height(LCA(n.head, x)) >= n.hz /\ Height(x) + 25 >= Height(n.head)}} :
                  \E b \in {RandomElement(cand)} : ResetHead(b))
Recorded == {"ProcessHeader", "ProcessBlock", "Reopen", "Reindex", "SyncHeaders", "Compact", "ResetHead", "Probe", "QueryTx"}
HistRec == [k |-> last'.k, b |-> last'.b, res |-> last'.res, proj |-> Proj(n', ndel'),
            cnt |-> IF last'.k = "SyncHeaders" THEN last'.cnt ELSE 0,
            sh |-> IF last'.k = "SyncHeaders" THEN last'.sh ELSE 0,
            ret |-> IF last'.k = "SyncHeaders" THEN last'.ret ELSE "-",
            uat |-> IF last'.k = "Probe" THEN UnspentAt(last'.b) ELSE {},
            notes |-> IF last'.k = "ProcessBlock" THEN last'.notes ELSE <<>>,
            why |-> IF last'.k = "ProcessBlock" THEN last'.why ELSE "-",
            del |-> IF last'.k = "Reindex" THEN last'.del ELSE {},
            stale |-> IF last'.k = "Reindex" THEN last'.stale ELSE {},
            tx |-> IF last'.k = "QueryTx" THEN last'.tx ELSE NoTx,
            tx2 |-> IF last'.k = "QueryTx" THEN last'.tx2 ELSE NoTx]
MCSimSpec == Init /\ TrunkStored /\ hist = <<>> /\ [][SimNext /\ hist' = IF last'.k \in Recorded
                     THEN Append(hist, HistRec)
                     ELSE hist]_mcvars

MCInit == Init /\ hist = <<>>
\* with the operator action (only for configurations that check the C02 invariants)
NextR == Next \/ (\E b \in Ids : ResetHead(b))
MCNextR == /\ NextR
           /\ hist' = hist
MCSpecR == MCInit /\ [][MCNextR]_mcvars
\* with restarts on a damaged output_pos index (Reindex)
MCSpecX == MCInit /\ [][NextX /\ hist' = hist]_mcvars
MCNext == /\ Next
          /\ hist' = IF last'.k \in Recorded
                     THEN Append(hist, HistRec)
                     ELSE hist
MCSpec == MCInit /\ [][MCNext]_mcvars

View == <<tree, n, ndel>>
\* optional state constraint for configurations with a long trunk: forks start near the trunk head
RecentParents == \A b \in Ids : b > Trunk => tree[b].parent >= Trunk - 1

Done == AllMinted /\ ndel = MaxDeliveries
Behaviour == [trunk |-> Trunk, pool |-> [c \in Pool |-> PoolVal[c]], tree |-> [b \in Ids |-> tree[b]], steps |-> hist, shapes |-> TxShapes,
              valid |-> ValidIdsT, works |-> [b \in Ids |-> Work(b)]]
Emit == Done => PrintT(<<"CHAINBEH", ToJson(Behaviour)>>)

\* the action properties restated over mcvars
MCHeadMonotone == [][n'.head # n.head => Work(n'.head) > Work(n.head)]_mcvars
MCRejectLeavesState == [][(n'.head = n.head /\ last'.k # "Compact") => BestProj(n') = BestProj(n)]_mcvars
MCCompactIsStutter == [][last'.k = "Compact" =>
                         /\ n'.head = n.head /\ n'.hhead = n.hhead /\ n'.u = n.u /\ n'.opos = n.opos
                         /\ n'.nrd = n.nrd /\ n'.hdrs = n.hdrs /\ n'.orph = n.orph
                         /\ n'.tail >= n.tail /\ n'.head \in n'.bodies]_mcvars
=========================================================================
