---------------------------- MODULE MC_Chain ----------------------------
EXTENDS Chain, Json
(* Bounded configurations of Chain.tla and the behaviour generator for direction A. *)
PoolNoneVal == <<>>
Pool3 == {100, 101, 102}
PoolVal3 == (100 :> 3 @@ 101 :> 3 @@ 102 :> 2)
Pool5 == {100, 101, 102, 103, 104}
PoolVal5 == (100 :> 3 @@ 101 :> 3 @@ 102 :> 2 @@ 103 :> 1 @@ 104 :> 4)

VARIABLE hist      \* observation only: the delivered steps with the projection after each
mcvars == <<tree, n, ndel, last, hist>>

Unspent(nd) == {[c |-> nd.u.outs[i].c, h |-> nd.u.outs[i].h] : i \in nd.u.unspent}
Proj(nd) == [head |-> nd.head, hhead |-> nd.hhead, unspent |-> Unspent(nd), nleaves |-> Len(nd.u.outs),
             orph |-> nd.orph, hdrs |-> nd.hdrs, bodies |-> nd.bodies,
             bestsums |-> {b \in nd.sums : IsAnc(b, nd.head)}]

MCInit == Init /\ hist = <<>>
MCNext == /\ Next
          /\ hist' = IF last'.k \in {"ProcessHeader", "ProcessBlock", "Reopen"}
                     THEN Append(hist, [k |-> last'.k, b |-> last'.b, res |-> last'.res, proj |-> Proj(n')])
                     ELSE hist
MCSpec == MCInit /\ [][MCNext]_mcvars

View == <<tree, n, ndel>>

Done == AllMinted /\ ndel = MaxDeliveries
Behaviour == [trunk |-> Trunk, tree |-> [b \in Ids |-> tree[b]], steps |-> hist,
              valid |-> ValidIds, works |-> [b \in Ids |-> Work(b)]]
Emit == Done => PrintT(<<"CHAINBEH", ToJson(Behaviour)>>)

\* the action properties restated over mcvars
MCHeadMonotone == [][n'.head # n.head => Work(n'.head) > Work(n.head)]_mcvars
MCRejectLeavesState == [][(n'.head = n.head) => BestProj(n') = BestProj(n)]_mcvars
=========================================================================
