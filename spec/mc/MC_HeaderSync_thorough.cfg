\* thorough exhaustive: model constants (4 locators, batches of 3), trees of up to 9 headers, every disturbance once
SPECIFICATION MCSpec
CONSTANTS
  MaxLocators = 4
  MaxHeaders = 3
  Lens = {0, 1, 2, 3, 5}
  Diffs = {1, 2}
  MaxIds = 9
  MaxReorgs = 1
  MaxResets = 1
  MaxByz = 1
  Variant = "code"
  ProbeHeights = {}
  FullChainUpTo = 0
VIEW View
INVARIANTS TypeOK StoredOnTree SyncLeHead LocatorShape BackoffQuality AnswerContiguous RoundsBound Converged NotBehind
PROPERTIES MCHeadMonotone MCHonestAccepted MCRejectLeavesState MCNeverForgets MCRoundProgress
