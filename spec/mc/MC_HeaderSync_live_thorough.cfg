\* liveness, larger
SPECIFICATION MCFairSpec
CONSTANTS
  MaxLocators = 4
  MaxHeaders = 3
  Lens = {0, 1, 2, 3, 5}
  Diffs = {1, 2}
  MaxIds = 9
  MaxReorgs = 1
  MaxResets = 1
  MaxByz = 0
  Variant = "code"
  ProbeHeights = {}
  FullChainUpTo = 0
INVARIANTS TypeOK
PROPERTIES EventuallySynced
