\* liveness, larger
SPECIFICATION MCFairSpec
CONSTANTS
  MaxLocators = 4
  MaxHeaders = 3
  Lens = {0, 1, 2, 4}
  Diffs = {1, 2}
  MaxIds = 8
  MaxReorgs = 1
  MaxResets = 1
  MaxByz = 1
  Variant = "code"
  ProbeHeights = {}
  FullChainUpTo = 0
INVARIANTS TypeOK
PROPERTIES EventuallySynced
