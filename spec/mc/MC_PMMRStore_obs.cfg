SPECIFICATION Spec
CONSTANTS
  MaxLeaves = 9
  MaxUnits = 3
  MaxAppends = 3
  MaxRemoves = 0
  Stride = 16
INVARIANTS FormsOK ProofsVerify
