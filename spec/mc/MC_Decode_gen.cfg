SPECIFICATION GSpec
CONSTANTS
  ModelDecoders = {}
  ModelLens = {}
  Env = {}
  SweepFirst = 2
  MaxFields = 48
  TruncEveryMax = 400
INVARIANTS PlanWellFormed Emit
