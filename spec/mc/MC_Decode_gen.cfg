SPECIFICATION GSpec
CONSTANTS
  ModelDecoders = {}
  ModelLens = {}
  Env = {}
  SweepFirst = 4
  MaxFields = 48
  TruncEveryMax = 1500
  RepeatMaxBytes = 3000000
INVARIANTS StepsAgree IdentWellFormed PlanWellFormed Emit
