SPECIFICATION GSpec
CONSTANTS
  ModelDecoders = {}
  ModelLens = {}
  Env = {}
  SweepFirst = 4
  MaxFields = 48
  TruncEveryMax = 400
INVARIANTS StepsAgree IdentWellFormed PlanWellFormed Emit
