\* reset_chain_head: trunk 3 + 2 blocks anywhere with 1-in-1-out spends, 4 deliveries / resets in every order;
\* the C02 invariants must survive an operator reset to any stored header (C03's HeadMaxWork/HeadMonotone do not apply)
SPECIFICATION MCSpecR
CONSTANTS
  Trunk = 3
  MaxBlocks = 2
  Diffs = {1, 3}
  Pool <- Pool2
  PoolVal <- PoolVal2
  Maturity = 3
  Flags = {}
  MaxDeliveries = 4
  HeadersFirst = FALSE
  SimProfile = "mixed"
  TxShapes = "small"
VIEW View
CONSTRAINT RecentParents
INVARIANTS TypeOK HeadValidated BodiesValid UnspentIsReplay IndexConsistent NoDupUnspent EnumInv SpentIdxInv SumsInv MaturityLockInv OnlyValidRemembered RewindInv
