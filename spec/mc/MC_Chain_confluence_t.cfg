\* C03: every fork tree of 5 blocks, difficulties {1,2}, headers first, bodies in every order with duplicates
SPECIFICATION MCSpec
CONSTANTS
  Trunk = 0
  MaxBlocks = 5
  Diffs = {1, 2}
  Pool = {}
  PoolVal <- PoolNoneVal
  Maturity = 3
  Flags = {}
  MaxDeliveries = 11
  HeadersFirst = TRUE
  SimProfile = "mixed"
  TxShapes = "none"
VIEW View
INVARIANTS TypeOK HeadValidated HeadMaxWork BodiesValid UnspentIsReplay IndexConsistent SpentIdxInv SumsInv Confluence OrphansRetried OnlyValidRemembered
PROPERTIES MCHeadMonotone MCRejectLeavesState
