\* careless variant (the environment is reopened with an explicit map size of one chunk, corrected upwards to the data size):
\* a restart eats the head-room - must violate HeadroomKept IterInOrder (anti-vacuity)
SPECIFICATION MCSpec
CONSTANTS
  NS = 1
  NK = 1
  Vals = {1}
  MaxDepth = 1
  NR = 1
  NT = 1
  Writers = {1}
  ItThreads = {1}
  RdThreads = {}
  MapInit = 10
  UsedInit = 9
  Chunk = 10
  PutCost = 1
  TxnBeforeGate = FALSE
  NestedCloseClearsMark = FALSE
  ReadNotCounted = FALSE
  SqueezedFits = TRUE
  ReopenClampsMap = TRUE
  LiveSized = FALSE
  Page = 1
  PageBySkipCur = FALSE
  PageFreshSnap = FALSE
  BatchMax = 1
  MaxOps = 14
  WithReads = FALSE
  Stride = 1
  Offset = 0
VIEW View
INVARIANTS TypeOK
PROPERTIES HeadroomKept IterInOrder
