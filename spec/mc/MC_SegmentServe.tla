-------------------------- MODULE MC_SegmentServe --------------------------
(* Model checking of SegmentServe.tla (exhaustive over the stop heights) and   *)
(* generation of serving plans (simulation) that the harness executes on a     *)
(* real Chain fed with the blocks of a source chain (IOEnv.SERVE_MAXH blocks). *)
EXTENDS SegmentServe, Json, IOUtils

CONSTANTS MaxSteps

VARIABLES hist
mcvars == <<svars, hist>>

MaxHFromEnv == atoi(IOEnv.SERVE_MAXH)
\* heights around every archive boundary, the chain end, and the first height at which compaction works
StopsFromEnv == {h \in 1..MaxHFromEnv : h % 10 \in {0, 1, 2, 9} \/ h = MaxHFromEnv \/ h % 10 = 5}

\* the exhaustive check needs only the two sides of every archive boundary
StopsX == {h \in 1..MaxHFromEnv : h % 10 \in {0, 9} \/ h = MaxHFromEnv \/ h = 81}

MCInit == SInit /\ hist = <<>>
MCNext == Len(hist) < MaxSteps /\ SNext /\ hist' = Append(hist, last')
MCSpec == MCInit /\ [][MCNext]_mcvars

\* exhaustive check: no history, no step bound
MCSpecX == MCInit /\ [][SNext /\ UNCHANGED hist]_mcvars

Done == Len(hist) >= MaxSteps
Emit == Done => PrintT(<<"SERVEPLAN", ToJson(hist)>>)
=============================================================================
