\* deep forks: a 55-block trunk, 3 further blocks anywhere (fork points far below the head), difficulties {1,60}
SPECIFICATION MCSimSpec
CONSTANTS
  Trunk = 55
  MaxBlocks = 3
  Diffs = {1, 60}
  Pool = {}
  PoolVal <- PoolNoneVal
  Maturity = 3
  Flags = {}
  MaxDeliveries = 7
  HeadersFirst = FALSE
  SimProfile = "deep"
  TxShapes = "none"
INVARIANTS Emit
