\* C06 quick: all corruption flags, 2 blocks, 3 deliveries
SPECIFICATION MCSpec
CONSTANTS
  Trunk = 3
  MaxBlocks = 2
  Diffs = {1}
  Pool <- Pool3
  PoolVal <- PoolVal3
  Maturity = 3
  Flags = {"badRoot", "badSums", "badPrevRoot", "badSize", "badKernelRoot", "badTime"}
  MaxDeliveries = 3
  HeadersFirst = FALSE
  SimProfile = "mixed"
  TxShapes = "small"
VIEW View
INVARIANTS TypeOK HeadValidated HeadMaxWork BodiesValid UnspentIsReplay IndexConsistent NoDupUnspent SpentIdxInv SumsInv MaturityLockInv OrphansRetried OnlyValidRemembered
PROPERTIES MCHeadMonotone MCRejectLeavesState
