SPECIFICATION MCSpec
CONSTANTS
  MaxLeaves = 4
  MaxUnits = 3
  MaxAppends = 2
  MaxRemoves = 2
  Stride = 16
  FinishUnits = 3
  MaxLen = 1000
  SampleK = 16
  FinishLen = 0
  RemoveFanout = 0
VIEW View
INVARIANTS Emit
ACTION_CONSTRAINT OrderedRemoves
