SPECIFICATION Spec
CONSTANTS
  ChainParams <- GrinChainParams
  Deltas = {1, 60, 7200}
  Diffs = {3, 140000}
  Scals = {20, 1856}
  Bases = {5, 1600000000}
  ShortLens = {0, 1, 2, 3}
  LongLens = {59, 60, 61, 62}
  Splits = {1, 30}
  ShortPairs <- QuickShortPairs
  LongPairs <- QuickLongPairs
INVARIANTS CasesInRange RetargetMin RetargetStep PaddingTotal Emit
