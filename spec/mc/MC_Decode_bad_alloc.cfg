SPECIFICATION Spec
CONSTANTS
  ModelDecoders = {"Ping::read", "Segment<TxKernel>::read"}
  ModelLens = {0, 1, 4}
  Env <- BadEnv
CONSTRAINT Bounded
INVARIANTS AllocBounded
