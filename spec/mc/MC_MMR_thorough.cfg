SPECIFICATION Spec
CONSTANTS
  MaxLeaves = 4100
  TermLeaves = 40
INVARIANTS TypeOK SizeFormsOK NodeFormsOK BranchFormsOK ProofsOK ViewsOK RewindableOK ValidateOK AnyPosOK
