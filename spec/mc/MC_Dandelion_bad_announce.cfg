\* careless variant: tx_accepted also fires for a stem-accepted tx; must violate S2_NoEarlyAnnounce
SPECIFICATION MCSpec
CONSTANTS
  Atoms <- AtomsTiny
  Subs <- SubsTiny
  Utxo0 = {1, 2, 3, 4}
  BlockSet <- BlockChoices
  AggSecs = 1
  EmbargoSecs = 2
  Jitter = 1
  EpochSecs = 2
  Ticks = {1, 2}
  MaxTxWeight = 226
  MaxBlockWeight = 250
  Peers = {1}
  AlwaysStemOurs = TRUE
  MaxBlocks = 0
  MaxSteps = 0
  AtomicMonitor = TRUE
  Churn = FALSE
  Restem = TRUE
  AnnounceStem = TRUE
  ExpireInStemEpoch = TRUE
  FluffAll = TRUE
  DropOnFluffError = FALSE
  MaxBlockTxs = 1
  SimProfile = "mixed"
VIEW View
INVARIANTS S2_NoEarlyAnnounce
