---------------------------- MODULE MC_Keys ----------------------------
(* Bounded configurations and the Direction-A case generator for Keys.tla.  *)
(* Selection of the emitted cases is done here (pseudo-random in the run    *)
(* seed IOEnv.KEYS_SEL, but always covering every depth x mode x builder x  *)
(* amount class), so that every emitted case is replayed >= 5 times.        *)
EXTENDS Keys, Json, IOUtils

CONSTANTS PerGroup, CraftDepths, AlgStride, ShapeStride, CbStride, PairStride, WalPicks

SelSeed == IF "KEYS_SEL" \in DOMAIN IOEnv THEN atoi(IOEnv.KEYS_SEL) % 1000 ELSE 1

CompSeq == <<"c0", "c1", "nmax", "h0", "hmax", "nr", "hr">>      \* fixed order; Comps is a prefix-closed subset
NormSeq == <<"c0", "c1", "nmax", "nr">>
AmtSeq  == <<"a0", "a1", "a60", "a63", "amax", "arand">>
SeedSeq == <<"s1", "s2", "s3">>
FmtSeq  == <<"new", "legacy", "wallet1", "sw2", "b0", "dp5", "dp255", "dpm1">>
Idx(seq, x) == CHOOSE i \in DOMAIN seq : seq[i] = x
NC == Cardinality(Comps)
NN == Cardinality(Comps \ HardComps)
NS == Cardinality(Seeds)
RECURSIVE Pow(_, _)
Pow(b, e) == IF e = 0 THEN 1 ELSE b * Pow(b, e - 1)
RECURSIVE Code(_, _, _)
\* positional code of a sequence of classes
Code(p, seq, base) == IF p = <<>> THEN 0
                      ELSE (Idx(seq, p[1]) - 1) + base * Code(SubSeq(p, 2, Len(p)), seq, base)
\* the class sets used by the configs are prefixes of CompSeq / NormSeq w.r.t. index only if
\* every class index is < base: use a dense re-indexing instead
CompList == SelectSeq(CompSeq, LAMBDA x : x \in Comps)
NormList == SelectSeq(NormSeq, LAMBDA x : x \in Comps)
AmtList  == SelectSeq(AmtSeq, LAMBDA x : x \in Amts)
SeedList == SelectSeq(SeedSeq, LAMBDA x : x \in Seeds)

GCode(a) == ((Len(a.path) * 2 + ModeByte(a.mode)) * 2 + (IF a.fam = "new" THEN 0 ELSE 1)) * 8 + Idx(AmtList, a.amt)
FCode(a) == GCode(a) * 8 + Idx(FmtSeq, a.fmt)
Target(g, j, size) == (SelSeed * 7919 + g * 104729 + j * 15485863) % size

AllNormal(p) == \A i \in DOMAIN p : p[i] \notin HardComps
MemberIdx(a, list, base) == (Idx(SeedList, a.seed) - 1) * Pow(base, Len(a.path)) + Code(a.path, list, base)
HonestSel(a) ==
  \/ \E j \in 1..PerGroup : MemberIdx(a, CompList, NC) = Target(GCode(a), j, NS * Pow(NC, Len(a.path)))
  \/ (a.fam = "new" /\ a.mode = "None" /\ AllNormal(a.path)
        /\ MemberIdx(a, NormList, NN) = Target(GCode(a), 13, NS * Pow(NN, Len(a.path))))
\* the malformed-header formats are crafted with the new generation's nonce (that is where they are
\* decided by check_output) at the depths where they matter: the clamp of the depth byte at 4 (and
\* 3, where the clamped depth is wrong), a depth byte one too small at 1 and 4, byte 0 at 0 and 2
HeaderFmts == {"b0", "dp5", "dp255", "dpm1"}
\* (a configuration that sets CraftDepths crafts them at those depths instead)
FmtDepths(fmt) ==
  CASE fmt \in {"dp5", "dp255"} -> {3, 4}
    [] fmt = "dpm1" -> {1, 4}
    [] fmt = "b0" -> {0, 2}
    [] OTHER -> CraftDepths
CraftSel(a) ==
  /\ Len(a.path) \in (IF a.fmt \in HeaderFmts /\ CraftDepths # {} THEN CraftDepths ELSE FmtDepths(a.fmt))
  /\ a.fmt \in HeaderFmts => a.fam = "new"
  /\ Idx(AmtList, a.amt) = ((FCode(a) + SelSeed) % Len(AmtList)) + 1
  /\ MemberIdx(a, CompList, NC) = Target(FCode(a), 1, NS * Pow(NC, Len(a.path)))
SelectedOut(a) == IF Honest(a) THEN HonestSel(a) ELSE CraftSel(a)

\* view keys attached to a case: every prefix of the path, its siblings, one level deeper, other seeds
CaseViewKeys(a) ==
  LET pre == {SubSeq(a.path, 1, k) : k \in 0..Len(a.path)}
      sib == {[q EXCEPT ![Len(q)] = NextIn(Comps, q[Len(q)])] : q \in pre \ {<<>>}}
      deep == IF Len(a.path) < MaxDepth THEN {Append(a.path, ZeroComp)} ELSE {} IN
  [kind : {"view"}, seed : {a.seed}, prefix : pre \cup sib \cup deep]
    \cup [kind : {"view"}, seed : Seeds \ {a.seed}, prefix : {<<>>}]

RowOf(rw, o) == [kind |-> rw.kind, seed |-> rw.seed, prefix |-> rw.prefix, exp |-> Rewind(rw, o.commit, o.proof).t]
\* extra-data rows of a case: <<created with, verified / rewound with>>, rewound by the creating wallet
ExtraPairs == {<<"e1", "e1">>, <<"e1", "none">>, <<"none", "e1">>, <<"e1", "e2">>}
ExtraRow(o, x, y) ==
  LET ox == MkOutX(o.args, x)
      own == [kind |-> o.args.fam, seed |-> o.args.seed, prefix |-> <<>>] IN
  [c |-> x, r |-> y, verifies |-> VerifiesX(ox.commit, ox.proof, y), exp |-> RewindX(own, ox.commit, y, ox.proof).t]
SibRow(o, b) ==
  [seed |-> b.seed, path |-> b.path, amt |-> b.amt, mode |-> b.mode,
   sigok |-> SigVerifies(SigOf(b, "m1"), "m1", o.commit)]
OutCase(o) ==
  [kind |-> "out", args |-> o.args,
   rew |-> {RowOf(rw, o) : rw \in KeychainRewinders},
   view |-> {RowOf(vk, o) : vk \in CaseViewKeys(o.args)},
   sib |-> {SibRow(o, b) : b \in {b \in Siblings(o.args) : b # o.args}},
   \* identifier paddings under which every expectation of this record is unchanged
   pads |-> {ZeroComp} \cup (IF PadEquivalent(o, JunkComp) THEN {JunkComp} ELSE {}),
   extra |-> IF Honest(o.args) THEN {ExtraRow(o, xy[1], xy[2]) : xy \in ExtraPairs} ELSE {}]
EmitOut == \A o \in outs : SelectedOut(o.args) => PrintT(<<"KCASE", ToJson(OutCase(o))>>)
\* (the formats configuration also contains honest outputs, for the padding / extra-data invariants; they
\* are emitted by the rewind configuration)
EmitCraft == \A o \in outs : (o.args.fmt \in HeaderFmts /\ SelectedOut(o.args)) => PrintT(<<"KCASE", ToJson(OutCase(o))>>)

\* ---- pairs of outputs differing in at least two coordinates (the one-coordinate neighbours are the
\* siblings of every case): commitments differ unless the arguments are equal, a proof moved to the
\* other commitment neither verifies nor rewinds, each wallet recovers exactly its own output
NDiff(a, b) == (IF a.seed # b.seed THEN 1 ELSE 0) + (IF a.path # b.path THEN 1 ELSE 0)
               + (IF a.amt # b.amt THEN 1 ELSE 0) + (IF a.mode # b.mode THEN 1 ELSE 0)
ACode(a) == FCode(a) * 64 + MemberIdx(a, CompList, NC)
PairCase(o1, o2) ==
  [kind |-> "pair", a |-> o1.args, b |-> o2.args,
   same_commit |-> o1.commit = o2.commit,
   swapped_verifies |-> Verifies(o2.commit, o1.proof),
   \* o1's proof presented with o2's commitment / o1's proof with its own commitment, to every keychain rewinder
   swapped |-> {[kind |-> rw.kind, seed |-> rw.seed, exp |-> Rewind(rw, o2.commit, o1.proof).t] : rw \in KeychainRewinders},
   own |-> {[kind |-> rw.kind, seed |-> rw.seed, exp |-> Rewind(rw, o1.commit, o1.proof).t] : rw \in KeychainRewinders}]
SelectedPair(o1, o2) ==
  /\ Honest(o1.args) /\ Honest(o2.args) /\ NDiff(o1.args, o2.args) >= 2
  /\ (ACode(o1.args) * 31 + ACode(o2.args) * 17 + SelSeed * 7) % PairStride = 0
EmitPair ==
  \A o1, o2 \in outs : (o1 # o2 /\ SelectedPair(o1, o2)) => PrintT(<<"KCASE", ToJson(PairCase(o1, o2))>>)

\* ---- algebra cases
TermCode(t) == (IF t.s = 1 THEN 0 ELSE 1) * 5 + (CASE t.n = "d1" -> 0 [] t.n = "d2" -> 1 [] t.n = "r1" -> 2 [] t.n = "r2" -> 3 [] OTHER -> 4)
RECURSIVE ECode(_)
ECode(e) == IF e = <<>> THEN 0 ELSE TermCode(e[1]) + 1 + 11 * ECode(SubSeq(e, 2, Len(e)))
SelectedExpr(e) == Len(e) >= 1 /\ (Len(e) <= 2 \/ (ECode(e) * 7 + SelSeed * 31) % AlgStride = 0)
AlgCase(e) ==
  [kind |-> "alg", terms |-> e, zero |-> IsZero(Val(e)),
   cuts |-> [k \in 0..Len(e) |-> [k |-> k, pzero |-> IsZero(Val(SubSeq(e, 1, k))), szero |-> IsZero(Val(SubSeq(e, k + 1, Len(e))))]],
   addx |-> {[n |-> x, pluszero |-> IsZero(VAdd(Val(e), Unit(x))), minuszero |-> IsZero(VAdd(Val(e), VNeg(Unit(x))))] : x \in KeyNames}
              \cup {[n |-> "z", pluszero |-> IsZero(Val(e)), minuszero |-> IsZero(Val(e))]}]
EmitAlg == SelectedExpr(expr) => PrintT(<<"KCASE", ToJson(AlgCase(expr))>>)

\* ---- builder cases
SeqCode(s) == Len(s) * 27 + (IF Len(s) >= 1 THEN s[1] ELSE 0) + 3 * (IF Len(s) >= 2 THEN s[2] ELSE 0) + 9 * (IF Len(s) >= 3 THEN s[3] ELSE 0)
StrCode(x) == CASE x \in {"f1", "one", "Plain", "transaction"} -> 0
                [] x \in {"ftyp", "grin", "HeightLocked", "with_kernel"} -> 1
                [] x \in {"fmax", "max", "partial"} -> 2
                [] x = "exchange" -> 4
                [] OTHER -> 3
ShapeCode(sh) == ((((SeqCode(sh.ins) * 108 + SeqCode(sh.outs)) * 4 + StrCode(sh.fee)) * 4 + StrCode(sh.scale)) * 2 + StrCode(sh.kern)) * 5 + StrCode(sh.via)
CbCode(sh) == ((CASE sh.cbfee = "cf0" -> 0 [] sh.cbfee = "cf1" -> 1 [] sh.cbfee = "cftyp" -> 2 [] sh.cbfee = "cfmax40" -> 3 [] OTHER -> 4) * 2
              + (IF sh.fam = "new" THEN 0 ELSE 1)) * 10 + sh.depth * 2 + (IF sh.block THEN 1 ELSE 0)
SelectedShape(sh) == IF IsCb(sh) THEN (CbCode(sh) * 7 + SelSeed * 31) % CbStride = 0
                     ELSE (ShapeCode(sh) * 7 + SelSeed * 31) % ShapeStride = 0
ShapeCase(sh) ==
  IF IsCb(sh) THEN [kind |-> "cb", shape |-> sh, recoverable |-> CbRecoverable(sh)]
  ELSE [kind |-> "tx", shape |-> sh,
        \* exchange: the elements party B contributes (1-based positions)
        partyB |-> [ins |-> {n[2] : n \in {m \in PartyB(sh) : m[1] = "in"}}, outs |-> {n[2] : n \in {m \in PartyB(sh) : m[1] = "out"}}]]
EmitShape == (shape # <<>> /\ SelectedShape(shape)) => PrintT(<<"KCASE", ToJson(ShapeCase(shape))>>)

\* ---- wallet-constructor pairs: a covering selection of related constructors
IsPrefixB(x, y) == Len(x) < Len(y) /\ \A i \in 1..Len(x) : x[i] = y[i]
PairClass(c1, c2) ==
  CASE c1.k = "seed" /\ c2.k = "seed" ->
         (IF c1.b = c2.b THEN "seed_same"
          ELSE IF Len(c1.b) = 4 /\ Len(c2.b) = 4 /\ c1.b[1] = c2.b[1] /\ c1.b[2] = c2.b[2] THEN "seed_shared32"
          ELSE IF Len(c1.b) = 2 /\ Len(c2.b) = 2 /\ c1.b[1] = c2.b[1] THEN "seed_shared16"
          ELSE IF IsPrefixB(c1.b, c2.b) THEN "seed_prefix"
          ELSE "other")
    [] c1.k = "mnemonic" /\ c2.k = "mnemonic_seed" ->
         (IF c1.w = c2.w /\ c1.p = c2.p THEN "mn_is_seed_of_mn"
          ELSE IF c1.w = c2.w THEN "mn_seed_other_pass" ELSE "other")
    [] c1.k = "mnemonic" /\ c2.k = "mnemonic" ->
         (IF c1 = c2 THEN "mn_same"
          ELSE IF c1.w = c2.w THEN "mn_other_pass"
          ELSE IF c1.p = c2.p THEN "mn_other_words" ELSE "other")
    [] c1.k = "masked" /\ c2.k = "seed" ->
         (IF c1.b # c2.b THEN "other" ELSE IF SameWallet(c1, c2) THEN "masked_twice_vs_base" ELSE "masked_vs_base")
    [] c1.k = "masked" /\ c2.k = "masked" ->
         (IF c1.m = c2.m THEN "other"
          ELSE IF Len(c1.m) = 2 /\ Len(c2.m) = 2 /\ c1.m[1] = c2.m[2] /\ c1.m[2] = c2.m[1] THEN "masked_commute"
          ELSE "masked_vs_masked")
    [] OTHER -> "other"
CtorCode(c) ==
  CASE c.k = "seed" -> Len(c.b) * 16 + Code(c.b, <<"p", "q">>, 2)
    [] c.k = "masked" -> 100 + Len(c.m) * 4 + Code(c.m, <<"m1", "m2">>, 2)
    [] OTHER -> 200 + (IF c.k = "mnemonic" THEN 0 ELSE 6) + (IF c.w = "w1" THEN 0 ELSE 3)
                + (CASE c.p = "" -> 0 [] c.p = "x" -> 1 [] OTHER -> 2)
\* every class is always represented: the classes in WalAlways by all their pairs, the others by
\* WalPicks pairs chosen pseudo-randomly in the run seed
WalClasses == {"seed_same", "seed_shared32", "seed_shared16", "seed_prefix", "mn_is_seed_of_mn", "mn_seed_other_pass",
               "mn_same", "mn_other_pass", "mn_other_words", "masked_vs_base", "masked_twice_vs_base", "masked_commute",
               "masked_vs_masked"}
WalAlways == {"masked_commute"}
ClassPairs(cl) == {pr \in Ctors \X Ctors : PairClass(pr[1], pr[2]) = cl}
WalHash(pr, j) == ((CtorCode(pr[1]) * 13 + CtorCode(pr[2]) * 7 + j * 101) * (SelSeed + 17)) % 1009
Pick(S, j) == CHOOSE p \in S : \A q \in S : WalHash(p, j) <= WalHash(q, j)
WalSelection ==
  UNION {IF cl \in WalAlways THEN ClassPairs(cl) ELSE {Pick(ClassPairs(cl), j) : j \in 1..WalPicks} : cl \in WalClasses}
SelectedWal(c1, c2) == <<c1, c2>> \in WalSelection
WalCase(c1, c2) == [kind |-> "wal", c1 |-> c1, c2 |-> c2, class |-> PairClass(c1, c2), same |-> SameWallet(c1, c2)]
EmitWal ==
  ("wallet" \in Parts /\ world # <<>> /\ "c1" \in DOMAIN world /\ SelectedWal(world.c1, world.c2)) =>
    PrintT(<<"KCASE", ToJson(WalCase(world.c1, world.c2))>>)
=======================================================================
