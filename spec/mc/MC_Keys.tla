---------------------------- MODULE MC_Keys ----------------------------
(* Bounded configurations and the Direction-A case generator for Keys.tla.  *)
(* Selection of the emitted cases is done here (pseudo-random in the run    *)
(* seed IOEnv.KEYS_SEL, but always covering every depth x mode x builder x  *)
(* amount class), so that every emitted case is replayed >= 5 times.        *)
EXTENDS Keys, Json, IOUtils

CONSTANTS PerGroup, CraftDepths, AlgStride, ShapeStride, CbStride

SelSeed == IF "KEYS_SEL" \in DOMAIN IOEnv THEN atoi(IOEnv.KEYS_SEL) % 1000 ELSE 1

CompSeq == <<"c0", "c1", "nmax", "h0", "hmax", "nr", "hr">>      \* fixed order; Comps is a prefix-closed subset
NormSeq == <<"c0", "c1", "nmax", "nr">>
AmtSeq  == <<"a0", "a1", "a60", "a63", "amax", "arand">>
SeedSeq == <<"s1", "s2", "s3">>
FmtSeq  == <<"new", "legacy", "wallet1", "sw2">>
Idx(seq, x) == CHOOSE i \in DOMAIN seq : seq[i] = x
NC == Cardinality(Comps)
NN == Cardinality(Comps \ HardComps)
NS == Cardinality(Seeds)
RECURSIVE Pow(_, _)
Pow(b, e) == IF e = 0 THEN 1 ELSE b * Pow(b, e - 1)
RECURSIVE Code(_, _, _)
\* positional code of a sequence of classes
Code(p, seq, base) == IF p = <<>> THEN 0
                      ELSE (Idx(seq, p[1]) - 1) + base * Code(SubSeq(p, 2, Len(p)), seq, base)
\* the class sets used by the configs are prefixes of CompSeq / NormSeq w.r.t. index only if
\* every class index is < base: use a dense re-indexing instead
CompList == SelectSeq(CompSeq, LAMBDA x : x \in Comps)
NormList == SelectSeq(NormSeq, LAMBDA x : x \in Comps)
AmtList  == SelectSeq(AmtSeq, LAMBDA x : x \in Amts)
SeedList == SelectSeq(SeedSeq, LAMBDA x : x \in Seeds)

GCode(a) == ((Len(a.path) * 2 + ModeByte(a.mode)) * 2 + (IF a.fam = "new" THEN 0 ELSE 1)) * 8 + Idx(AmtList, a.amt)
FCode(a) == GCode(a) * 4 + Idx(FmtSeq, a.fmt)
Target(g, j, size) == (SelSeed * 7919 + g * 104729 + j * 15485863) % size

AllNormal(p) == \A i \in DOMAIN p : p[i] \notin HardComps
MemberIdx(a, list, base) == (Idx(SeedList, a.seed) - 1) * Pow(base, Len(a.path)) + Code(a.path, list, base)
HonestSel(a) ==
  \/ \E j \in 1..PerGroup : MemberIdx(a, CompList, NC) = Target(GCode(a), j, NS * Pow(NC, Len(a.path)))
  \/ (a.fam = "new" /\ a.mode = "None" /\ AllNormal(a.path)
        /\ MemberIdx(a, NormList, NN) = Target(GCode(a), 13, NS * Pow(NN, Len(a.path))))
CraftSel(a) ==
  /\ Len(a.path) \in CraftDepths
  /\ Idx(AmtList, a.amt) = ((FCode(a) + SelSeed) % Len(AmtList)) + 1
  /\ MemberIdx(a, CompList, NC) = Target(FCode(a), 1, NS * Pow(NC, Len(a.path)))
SelectedOut(a) == IF Honest(a) THEN HonestSel(a) ELSE CraftSel(a)

\* view keys attached to a case: every prefix of the path, its siblings, one level deeper, other seeds
CaseViewKeys(a) ==
  LET pre == {SubSeq(a.path, 1, k) : k \in 0..Len(a.path)}
      sib == {[q EXCEPT ![Len(q)] = NextIn(Comps, q[Len(q)])] : q \in pre \ {<<>>}}
      deep == IF Len(a.path) < MaxDepth THEN {Append(a.path, ZeroComp)} ELSE {} IN
  [kind : {"view"}, seed : {a.seed}, prefix : pre \cup sib \cup deep]
    \cup [kind : {"view"}, seed : Seeds \ {a.seed}, prefix : {<<>>}]

RowOf(rw, o) == [kind |-> rw.kind, seed |-> rw.seed, prefix |-> rw.prefix, exp |-> Rewind(rw, o.commit, o.proof).t]
OutCase(o) ==
  [kind |-> "out", args |-> o.args,
   rew |-> {RowOf(rw, o) : rw \in KeychainRewinders},
   view |-> {RowOf(vk, o) : vk \in CaseViewKeys(o.args)},
   sib |-> {b \in Siblings(o.args) : b # o.args}]
EmitOut == \A o \in outs : SelectedOut(o.args) => PrintT(<<"KCASE", ToJson(OutCase(o))>>)

\* ---- algebra cases
TermCode(t) == (IF t.s = 1 THEN 0 ELSE 1) * 5 + (CASE t.n = "d1" -> 0 [] t.n = "d2" -> 1 [] t.n = "r1" -> 2 [] t.n = "r2" -> 3 [] OTHER -> 4)
RECURSIVE ECode(_)
ECode(e) == IF e = <<>> THEN 0 ELSE TermCode(e[1]) + 1 + 11 * ECode(SubSeq(e, 2, Len(e)))
SelectedExpr(e) == Len(e) >= 1 /\ (Len(e) <= 2 \/ (ECode(e) * 7 + SelSeed * 31) % AlgStride = 0)
AlgCase(e) ==
  [kind |-> "alg", terms |-> e, zero |-> IsZero(Val(e)),
   cuts |-> [k \in 0..Len(e) |-> [k |-> k, pzero |-> IsZero(Val(SubSeq(e, 1, k))), szero |-> IsZero(Val(SubSeq(e, k + 1, Len(e))))]],
   addx |-> {[n |-> x, pluszero |-> IsZero(VAdd(Val(e), Unit(x))), minuszero |-> IsZero(VAdd(Val(e), VNeg(Unit(x))))] : x \in KeyNames}]
EmitAlg == SelectedExpr(expr) => PrintT(<<"KCASE", ToJson(AlgCase(expr))>>)

\* ---- builder cases
SeqCode(s) == Len(s) * 27 + (IF Len(s) >= 1 THEN s[1] ELSE 0) + 3 * (IF Len(s) >= 2 THEN s[2] ELSE 0) + 9 * (IF Len(s) >= 3 THEN s[3] ELSE 0)
StrCode(x) == CASE x \in {"f1", "one", "Plain", "transaction"} -> 0
                [] x \in {"ftyp", "grin", "HeightLocked", "with_kernel"} -> 1
                [] x \in {"fmax", "max", "partial"} -> 2
                [] OTHER -> 3
ShapeCode(sh) == ((((SeqCode(sh.ins) * 108 + SeqCode(sh.outs)) * 4 + StrCode(sh.fee)) * 4 + StrCode(sh.scale)) * 2 + StrCode(sh.kern)) * 4 + StrCode(sh.via)
CbCode(sh) == ((CASE sh.cbfee = "cf0" -> 0 [] sh.cbfee = "cf1" -> 1 [] sh.cbfee = "cftyp" -> 2 [] sh.cbfee = "cfmax40" -> 3 [] OTHER -> 4) * 2
              + (IF sh.fam = "new" THEN 0 ELSE 1)) * 10 + sh.depth * 2 + (IF sh.block THEN 1 ELSE 0)
SelectedShape(sh) == IF IsCb(sh) THEN (CbCode(sh) * 7 + SelSeed * 31) % CbStride = 0
                     ELSE (ShapeCode(sh) * 7 + SelSeed * 31) % ShapeStride = 0
ShapeCase(sh) ==
  IF IsCb(sh) THEN [kind |-> "cb", shape |-> sh, recoverable |-> CbRecoverable(sh)]
  ELSE [kind |-> "tx", shape |-> sh]
EmitShape == (shape # <<>> /\ SelectedShape(shape)) => PrintT(<<"KCASE", ToJson(ShapeCase(shape))>>)
=======================================================================
