SPECIFICATION Spec
CONSTANTS
  HDR = 11
  BH = 257
  BHMAX = 310
  BATCH = 32
  CHUNK = 48000
  MaxBlockSize = 7788
  TimeoutPerChunk = TRUE
  SerErrorsFatal = TRUE
  VersionSkew = 0
  Streams <- StreamsCov
INVARIANTS TypeOK Faithful PrefixOK NoDesync RefusalCheap BufferBounded NoOverread BackToNone DoneClean NoInvented BodyTimeoutInBody
