\* pushes and rewinds to every earlier leaf count: the state is always the MMR of its leaf count
SPECIFICATION RWSpec
CONSTANTS
  MaxLeaves = 40
  TermLeaves = 40
INVARIANTS TypeOK RewindIsPrefix SizeFormsOK
