SPECIFICATION Spec
CONSTANTS
  Tier = "thorough"
  StrictAddr = FALSE
INVARIANTS RoundTrip ReEncode HashStable PertsRefused NrdOffRefused WritableOK
