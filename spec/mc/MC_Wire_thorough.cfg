SPECIFICATION Spec
CONSTANTS
  Tier = "thorough"
  StrictAddr = TRUE
INVARIANTS RoundTrip ReEncode HashStable PertsRefused NrdOffRefused WritableOK
