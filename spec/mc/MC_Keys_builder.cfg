SPECIFICATION Spec
CONSTANTS
  Parts = {"builder", "wallet"}
  Seeds = {"s1"}
  Comps = {"c0", "c1"}
  HardComps = {}
  Amts = {"a1", "amax"}
  MaxDepth = 4
  VKMaxDepth = 0
  MaxOuts = 1
  Fmts = {"new", "legacy"}
  PerGroup = 1
  CraftDepths = {}
  KeyNames = {"d1"}
  MaxTerms = 1
  MaxIO = 3
  MaxUnit = 2
  FeeClasses = {"f1", "ftyp", "fmax"}
  ScaleClasses = {"one", "grin", "max"}
  KernClasses = {"Plain", "HeightLocked"}
  ViaClasses = {"transaction", "with_kernel", "partial", "block", "exchange"}
  CbFeeClasses = {"cf0", "cf1", "cftyp", "cfmax40", "cfmax64"}
  AlgStride = 1
  CbStride = 5
  ShapeStride = 113
  PairStride = 1
  WalPicks = 1
INVARIANTS TypeOK BuilderBalances ExchangeOK CoinbaseOK WalletsOK EmitShape EmitWal
