SPECIFICATION MCSpec
CONSTANTS
  NS = 1
  NK = 1
  Vals = {1}
  MaxDepth = 2
  NR = 1
  NT = 2
  Writers = {1}
  ItThreads = {1}
  RdThreads = {2}
  MapInit = 10
  UsedInit = 8
  Chunk = 10
  PutCost = 1
  TxnBeforeGate = FALSE
  NestedCloseClearsMark = FALSE
  ReadNotCounted = FALSE
  SqueezedFits = TRUE
  ReopenClampsMap = FALSE
  LiveSized = FALSE
  Page = 1
  PageBySkipCur = FALSE
  PageFreshSnap = FALSE
  BatchMax = 1
  MaxOps = 19
  WithReads = FALSE
  Stride = 1
  Offset = 0
VIEW View
INVARIANTS TypeOK ShadowAgrees LookupTopDown NoMapFull WaiterOwnsNothing CountAgrees MarkAgrees NoRemapUnderTxn NoHolderParked GateLive PageWalk
PROPERTIES CommitAtomic ChildFolds DropNoTrace SnapStable ResizeStutter CrashDurable ResizeGate HeadroomKept IterInOrder
