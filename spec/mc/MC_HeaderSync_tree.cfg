\* the closed forms of the branch-list tree (Height, Work, AtHeight, LCA) equal the naive Parent recursion
SPECIFICATION MCSpec
CONSTANTS
  MaxLocators = 4
  MaxHeaders = 3
  Lens = {0, 1, 2, 3}
  Diffs = {1, 2}
  MaxIds = 7
  MaxReorgs = 1
  MaxResets = 0
  MaxByz = 0
  Variant = "code"
  ProbeHeights = {}
  FullChainUpTo = 0
VIEW View
INVARIANTS TypeOK TreeFormsOK
