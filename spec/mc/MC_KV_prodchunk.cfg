\* a fresh production database: the map LMDB starts with is smaller than one allocation chunk; the first batch() has to enlarge it
\* to one chunk (needs_resize: `map_size < alloc_chunk_size`) before anything is written - nothing else ever does
SPECIFICATION MCSpec
CONSTANTS
  NS = 1
  NK = 1
  Vals = {1}
  MaxDepth = 2
  NR = 1
  NT = 2
  Writers = {1}
  ItThreads = {1}
  RdThreads = {2}
  MapInit = 4
  UsedInit = 0
  Chunk = 10
  PutCost = 1
  TxnBeforeGate = FALSE
  NestedCloseClearsMark = FALSE
  ReadNotCounted = FALSE
  SqueezedFits = TRUE
  ReopenClampsMap = FALSE
  LiveSized = FALSE
  Page = 1
  PageBySkipCur = FALSE
  PageFreshSnap = FALSE
  BatchMax = 1
  MaxOps = 13
  WithReads = FALSE
  Stride = 1
  Offset = 0
VIEW View
INVARIANTS TypeOK ShadowAgrees LookupTopDown NoMapFull WaiterOwnsNothing CountAgrees MarkAgrees NoRemapUnderTxn NoHolderParked GateLive PageWalk
PROPERTIES CommitAtomic ChildFolds DropNoTrace SnapStable ResizeStutter CrashDurable ResizeGate HeadroomKept IterInOrder
