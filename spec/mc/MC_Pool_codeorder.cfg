\* exhaustive, property version (fee first, victims without dependants), small universe, capacity 2
SPECIFICATION MCSpecRec
CONSTANTS
  Atoms <- AtomsSmall
  Subs <- SubsSmall
  DupCommits <- DupSmall
  DupCreators <- DupCreatorsSmall
  DupSpenders <- DupSpendersSmall
  Trunk = 5
  Maturity = 3
  MaxPool = 1
  MaxStem = 2
  FeeBase = 1000
  MaxTxWeight = 226
  MaxBlockWeight = 250
  MineWeight = 120
  FeeFirst = FALSE
  TimedAlways = TRUE
  StemRecheck = "always"
  FeeOnRemainder = TRUE
  EvictMode = "nodeps"
  ReconcileMature = TRUE
  NrdEnabled = FALSE
  NrdHeight = 9
  ShortReorg = FALSE
  MaxBlocks = 2
  MaxSteps = 4
  MaxBlockTxs = 1
  MaxReorgDepth = 0
  SimProfile = "mixed"
VIEW View
INVARIANTS EmitNoUnderpaid
