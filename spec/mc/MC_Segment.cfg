SPECIFICATION Spec
CONSTANTS
  MaxLeaves = 40
  Heights = {0, 1, 2, 3}
  ExhLeaves = 4
  FromFile = TRUE
  EmitOn = TRUE
INVARIANTS Inv
