\* NRD kernels: trunk to height 8, 6 further blocks with forks, NRD kernels reused across blocks and forks
SPECIFICATION MCSimSpec
CONSTANTS
  Trunk = 8
  MaxBlocks = 6
  Diffs = {1, 2}
  Pool <- Pool5
  PoolVal <- PoolVal5
  Maturity = 3
  Flags = {}
  MaxDeliveries = 13
  HeadersFirst = FALSE
  SimProfile = "nrd"
  TxShapes = "nrd2"
INVARIANTS Emit
