\* random push / rewind histories for the replay on real backends
SPECIFICATION SimRWSpec
CONSTANTS
  MaxLeaves = 40
  TermLeaves = 40
INVARIANTS EmitRW
