------------------------------ MODULE MC_Header ------------------------------
(***************************************************************************)
(* Bounded model of Header.tla: every honest chain of at most MaxLen        *)
(* headers whose block times are drawn from StepDeltas (AutomatedTesting:   *)
(* a hard fork every 3 blocks, so 14 headers cross all five header versions *)
(* and the DMA -> WTEMA switch at height 12), and for every such chain and  *)
(* every next honest header EVERY single-field mutation of it.              *)
(* Invariants: the honest header is accepted, every mutation class gets the *)
(* verdict the property demands, and the code-shaped sequential validation  *)
(* accepts exactly the headers satisfying the declarative rule set.         *)
(***************************************************************************)
EXTENDS Header, TLC, Json

CONSTANTS MaxLen, StepDeltas, Now,
          Prefix   \* the first Prefix headers all use the smallest block time (keeps the enumeration small)

VARIABLE tip
mvars == <<known, tip>>

Genesis == [id |-> 0, prev |-> -1, height |-> 0, ts |-> 870652800, version |-> 1, total |-> 3, scaling |-> 1,
            eb |-> P.minEdgeBits, powValid |-> TRUE, powDiff |-> 20, outs |-> 1, kerns |-> 1,
            rootOK |-> TRUE, bodyOK |-> TRUE]

ND == NextDifficulty(P, known[tip].height + 1, Window(known, tip))

Honest(d, nd) ==
  LET prev == known[tip] IN
  [id |-> tip + 1, prev |-> tip, height |-> prev.height + 1, ts |-> prev.ts + d,
   version |-> HeaderVersion(P, prev.height + 1), total |-> prev.total + nd.diff, scaling |-> nd.scal,
   eb |-> P.minEdgeBits, powValid |-> TRUE, powDiff |-> nd.diff, outs |-> prev.outs + 1, kerns |-> prev.kerns + 1,
   rootOK |-> TRUE, bodyOK |-> TRUE]

MId == 100000   \* identity of a mutated header: never stored
M(name, benign, h) == [name |-> name, benign |-> benign, h |-> [h EXCEPT !.id = MId]]

(* every single-field mutation of header h (whose parent is prev); `benign` = the property
   still allows the header *)
Mutants(h, prev) ==
  { M("height_plus",   FALSE, [h EXCEPT !.height = @ + 1]),
    M("height_minus",  FALSE, [h EXCEPT !.height = @ - 1]),
    M("height_plus3",  FALSE, [h EXCEPT !.height = @ + 3]),
    M("ts_equal",      FALSE, [h EXCEPT !.ts = prev.ts]),
    M("ts_before",     FALSE, [h EXCEPT !.ts = prev.ts - 1]),
    M("ts_next",       TRUE,  [h EXCEPT !.ts = prev.ts + 1]),
    M("ts_future",     TRUE,  [h EXCEPT !.ts = Now + FTL + 3600]),     \* validate_header has no future-time rule
    M("version_plus",  FALSE, [h EXCEPT !.version = @ + 1]),
    M("version_minus", FALSE, [h EXCEPT !.version = @ - 1]),
    M("prev_unknown",  FALSE, [h EXCEPT !.prev = -1]),
    M("prev_grandparent", FALSE, [h EXCEPT !.prev = prev.prev]),
    M("prev_root_bad", FALSE, [h EXCEPT !.rootOK = FALSE]),
    M("total_plus1",   FALSE, [h EXCEPT !.total = @ + 1, !.powDiff = @ + 1]),
    M("total_minus1",  FALSE, [h EXCEPT !.total = @ - 1]),
    M("total_eq_prev", FALSE, [h EXCEPT !.total = prev.total]),
    M("total_below_prev", FALSE, [h EXCEPT !.total = prev.total - 1]),
    M("scaling_plus1", h.version >= LAST_HF_VERSION, [h EXCEPT !.scaling = @ + 1]),
    M("scaling_zero",  h.version >= LAST_HF_VERSION \/ h.scaling = 0, [h EXCEPT !.scaling = 0]),
    M("nonce_stale",   FALSE, [h EXCEPT !.powValid = FALSE]),
    M("proof_tampered", FALSE, [h EXCEPT !.powValid = FALSE, !.powDiff = @ + 100]),
    M("edge_bits_below", FALSE, [h EXCEPT !.eb = P.minEdgeBits - 1]),
    M("edge_bits_up",  TRUE,  [h EXCEPT !.eb = P.minEdgeBits + 1, !.powDiff = @ * 2]),
    M("edge_bits_29",  FALSE, [h EXCEPT !.eb = SECOND_POW_EDGE_BITS, !.powValid = FALSE]),
    M("edge_bits_29_mined", TRUE, [h EXCEPT !.eb = SECOND_POW_EDGE_BITS]),   \* a real secondary proof is allowed
    M("pow_low",       FALSE, [h EXCEPT !.powDiff = @ - 1]),
    M("pow_exact",     TRUE,  h),
    M("pow_high",      TRUE,  [h EXCEPT !.powDiff = @ + 7]),
    M("outputs_none",  FALSE, [h EXCEPT !.outs = prev.outs]),
    M("outputs_less",  FALSE, [h EXCEPT !.outs = prev.outs - 1]),
    M("kernels_none",  FALSE, [h EXCEPT !.kerns = prev.kerns]),
    M("too_heavy",     FALSE, [h EXCEPT !.outs = prev.outs + 12]),          \* 12*21+3 = 255 > 250
    M("heaviest",      TRUE,  [h EXCEPT !.outs = prev.outs + 11, !.kerns = prev.kerns + 6]),  \* 231+18 = 249
    M("outputs_plus1", TRUE,  [h EXCEPT !.outs = @ + 1, !.bodyOK = FALSE]) }  \* header-level rules only

Init == known = (0 :> Genesis) /\ tip = 0

Extend(d) ==
  /\ tip < MaxLen
  /\ ProcessBlockHeader(Honest(d, ND), {}, "ok")
  /\ tip' = tip + 1

MinDelta == CHOOSE d \in StepDeltas : \A e \in StepDeltas : d <= e
Next == \E d \in StepDeltas : (tip < Prefix => d = MinDelta) /\ Extend(d)
Spec == Init /\ [][Next]_mvars

-----------------------------------------------------------------------------
AccO(h, opts, nd) == IF ValidateWith(h, known, opts, nd) # "ok" THEN FALSE ELSE h.rootOK
Acc(h, nd) == AccO(h, {}, nd)

HonestAccepted ==
  LET nd == ND IN \A d \in StepDeltas : Acc(Honest(d, nd), nd)

MutantsDecided ==
  LET nd == ND IN
  \A d \in StepDeltas \ {1} :        \* (with d = 1 ts_next is the honest header itself; still benign)
    \A m \in Mutants(Honest(d, nd), known[tip]) : Acc(m.h, nd) = m.benign

HeaderRulesEquiv ==
  LET nd == ND IN
  \A d \in StepDeltas :
    \A m \in Mutants(Honest(d, nd), known[tip]) : Acc(m.h, nd) = RulesWith(m.h, known, nd)

(* SKIP_POW skips exactly the proof-of-work / difficulty / scaling clauses *)
PowClasses == {"total_plus1", "total_minus1", "total_eq_prev", "total_below_prev", "scaling_plus1", "scaling_zero",
               "nonce_stale", "proof_tampered", "edge_bits_below", "edge_bits_29", "pow_low"}
SkipPowDecided ==
  LET nd == ND IN
  \A d \in StepDeltas \ {1} :
    \A m \in Mutants(Honest(d, nd), known[tip]) :
      (ValidateWith(m.h, known, {"SKIP_POW"}, nd) = "ok" /\ m.h.rootOK) = (m.benign \/ m.name \in PowClasses)

(* The verdict does not depend on the options the node passes: header sync and body sync
   (SYNC), self-mined blocks (MINE) and broadcast (none) give every honest header and every
   mutation the same verdict (hence, with MutantsDecided, the one the property demands), at
   every entry point; and SYNC / MINE change nothing next to SKIP_POW either. *)
OptionsIrrelevant ==
  LET nd == ND
      os == (SUBSET {"SYNC", "MINE"}) \ {{}}
  IN
  \A d \in StepDeltas :
    LET h == Honest(d, nd) IN
    /\ \A o \in os : AccO(h, o, nd)
    /\ d = MinDelta =>       \* the entry points themselves (these recompute the network difficulty)
         LET bad == [h EXCEPT !.id = MId, !.powValid = FALSE] IN
         \A o \in os :
           /\ ProcessHeaderRes(h, known, o) = "ok" /\ SyncRes(<<h>>, known, o) = "ok"
           /\ ProcessHeaderRes(bad, known, o) = "invalid_pow" /\ SyncRes(<<h, bad>>, known, o) = "invalid_pow"
    /\ \A m \in Mutants(h, known[tip]) :
         LET v0 == ValidateWith(m.h, known, {}, nd)
             vs == ValidateWith(m.h, known, {"SKIP_POW"}, nd)
         IN \A o \in os :
              /\ ValidateWith(m.h, known, o, nd) = v0
              /\ ValidateWith(m.h, known, o \cup {"SKIP_POW"}, nd) = vs

(* the read-time clauses: future time limit, version, edge bits, proof, global weight bound *)
ReadDecided ==
  LET nd == ND IN
  \A d \in StepDeltas \ {1} :
    LET h == Honest(d, nd) IN
    /\ ReadCheck(h, Now) = "ok"
    /\ \A m \in Mutants(h, known[tip]) :
         (ReadCheck(m.h, Now) = "ok") =
           (m.name \notin {"ts_future", "version_plus", "version_minus", "nonce_stale", "proof_tampered",
                           "edge_bits_below", "edge_bits_29"}
            /\ (m.name \in {"height_plus", "height_minus", "height_plus3"} => HeaderVersion(P, m.h.height) = m.h.version))
    /\ ReadCheck([h EXCEPT !.ts = Now + FTL], Now) = "ok"
    /\ ReadCheck([h EXCEPT !.ts = Now + FTL + 1], Now) = "future_time"
    /\ ReadCheck([h EXCEPT !.outs = 12 * (h.height + 1)], Now) = "global_weight"   \* 252(h+1)+3k > 250(h+1)

(***************************************************************************)
(* Wire-entry layer: wrapping x timestamp class x (otherwise valid / some   *)
(* other single-field mutation).  The classes are relative to the node's    *)
(* clock `Now` (a model input); here the boundaries are exact, the harness  *)
(* realises `limit_plus` with a safety margin against the wall clock.       *)
(***************************************************************************)
TsClasses == {"past", "now", "limit_minus", "limit", "limit_plus", "far"}
AcceptTs  == {"past", "now", "limit_minus", "limit"}
TsOf(c, h) == CASE c = "past"        -> h.ts
                [] c = "now"         -> Now
                [] c = "limit_minus" -> Now + FTL - 1
                [] c = "limit"       -> Now + FTL
                [] c = "limit_plus"  -> Now + FTL + 1
                [] OTHER             -> Now + FTL + 7200
WireMuts == {"valid", "height_plus", "version_plus", "prev_unknown", "prev_root_bad", "total_plus1", "scaling_plus1",
             "proof_tampered", "edge_bits_below", "too_heavy", "heaviest", "outputs_plus1"}
WirePlans == {[w |-> w, tsc |-> c, mut |-> m] : w \in Wrappings, c \in TsClasses, m \in WireMuts}

WireCases(h0, prev) == {M("valid", TRUE, h0)} \cup {m \in Mutants(h0, prev) : m.name \in WireMuts}

(* Whatever the wrapping (and whichever options its adapter passes), a header from a peer is
   taken iff the mutation is one the property allows AND its timestamp is at most FTL ahead
   of the node's clock; and that is exactly the declarative statement WireRules. *)
WireDecided ==
  LET nd == ND
      h0 == Honest(MinDelta, nd)
  IN \A m \in WireCases(h0, known[tip]) : \A c \in TsClasses :
       LET h    == [m.h EXCEPT !.ts = TsOf(c, m.h)]
           want == m.benign /\ c \in AcceptTs
       IN /\ want = WireRulesWith(h, known, nd, Now)
          /\ \A w \in Wrappings : \A o \in WireOpts(w) :
                (WireRead(<<h>>, Now) = "ok" /\ AccO(h, o, nd)) = want

(* the same at the entry points themselves, for the otherwise valid header (these recompute
   the network difficulty): what `Receive` hands to the pipeline and what comes back *)
WireEntryDecided ==
  LET h0 == [Honest(MinDelta, ND) EXCEPT !.id = MId] IN
  \A c \in TsClasses :
    LET h  == [h0 EXCEPT !.ts = TsOf(c, h0)]
        rd == WireRead(<<h>>, Now)
    IN /\ (rd = "ok") = (c \in AcceptTs)
       /\ (rd # "ok") => rd = "future_time"
       /\ (rd = "ok") => /\ ProcessHeaderRes(h, known, {}) = "ok"
                          /\ SyncRes(<<h>>, known, {"SYNC"}) = "ok"
                          /\ WireRules(h, known, Now)
       /\ (rd # "ok") => ~WireRules(h, known, Now)

(* direction A generator: the plans the harness executes on the real readers + pipeline *)
EmitWirePlans == tip = 1 => \A p \in WirePlans : PrintT(<<"WPLAN", ToJson(p)>>)

(* the chain built so far is a chain: heights, strictly increasing time and work *)
ChainOK ==
  \A i \in DOMAIN known \ {0} :
    LET h == known[i] IN
    /\ h.prev \in DOMAIN known
    /\ h.height = known[h.prev].height + 1 /\ h.ts > known[h.prev].ts /\ h.total > known[h.prev].total
    /\ h.version = HeaderVersion(P, h.height)

(* the chain crosses every header version (anti-vacuity; violated = reached, used by a separate cfg) *)
NeverV5 == \A i \in DOMAIN known : known[i].version < LAST_HF_VERSION
=============================================================================
