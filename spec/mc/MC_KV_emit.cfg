SPECIFICATION MCSpec
CONSTANTS
  NS = 2
  NK = 3
  Vals = {1, 2}
  MaxDepth = 3
  NR = 1
  NT = 2
  Writers = {1}
  ItThreads = {1}
  RdThreads = {}
  MapInit = 10
  UsedInit = 0
  Chunk = 10
  PutCost = 0
  TxnBeforeGate = FALSE
  NestedCloseClearsMark = FALSE
  ReadNotCounted = FALSE
  SqueezedFits = TRUE
  ReopenClampsMap = FALSE
  LiveSized = FALSE
  Page = 2
  PageBySkipCur = FALSE
  PageFreshSnap = FALSE
  BatchMax = 1
  MaxOps = 4
  WithReads = FALSE
  Stride = 1
  Offset = 0
VIEW View
INVARIANTS Emit
