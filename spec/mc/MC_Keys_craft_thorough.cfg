SPECIFICATION Spec
CONSTANTS
  Parts = {"rewind"}
  Seeds = {"s1", "s2", "s3"}
  Comps = {"c0", "c1", "nmax", "h0"}
  HardComps = {"c0", "c1", "nmax", "h0"}
  Amts = {"a0", "a1", "a63", "amax"}
  MaxDepth = 4
  VKMaxDepth = 1
  MaxOuts = 1
  Fmts = {"new", "legacy", "b0", "dp5", "dp255", "dpm1"}
  PerGroup = 2
  CraftDepths = {0, 1, 2, 3, 4}
  KeyNames = {"d1"}
  MaxTerms = 1
  MaxIO = 1
  MaxUnit = 0
  FeeClasses = {"f1"}
  ScaleClasses = {"one"}
  KernClasses = {"Plain"}
  ViaClasses = {"transaction"}
  CbFeeClasses = {"cf0"}
  AlgStride = 1
  CbStride = 1
  ShapeStride = 1
  PairStride = 1
  WalPicks = 1
INVARIANTS TypeOK KeychainMatrixOK ViewMatrixOK NeverGarbage OtherSeedNothing OwnFormatOnly ProofsVerify SiblingsOK SignOK ExtraDataBinds PaddingIgnored EmitCraft
