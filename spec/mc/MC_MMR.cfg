SPECIFICATION Spec
CONSTANTS
  MaxLeaves = 520
  TermLeaves = 20
INVARIANTS TypeOK SizeFormsOK NodeFormsOK BranchFormsOK ProofsOK ViewsOK RewindableOK ValidateOK AnyPosOK
