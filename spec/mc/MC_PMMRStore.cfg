SPECIFICATION Spec
CONSTANTS
  MaxLeaves = 5
  MaxUnits = 3
  MaxAppends = 3
  MaxRemoves = 2
  Stride = 16
INVARIANTS TypeOK BoundariesOK NoLiveLeafGone FormsOK ProofsVerify
PROPERTIES CommittedStutter WorkIsPrivate
ACTION_CONSTRAINT OrderedRemoves
