SPECIFICATION Spec
CONSTANTS
  MaxLeaves = 8
  MaxUnits = 3
  MaxAppends = 3
  MaxRemoves = 3
  Stride = 16
INVARIANTS TypeOK BoundariesOK NoLiveLeafGone
PROPERTIES CommittedStutter WorkIsPrivate
