\* C02/C06/C13: trunk of 3 empty blocks (already processed), 2 further blocks anywhere with 1-in-1-out
\* spends of any commitment, corruption flags, headers and bodies in any order, reopen
SPECIFICATION MCSpec
CONSTANTS
  Trunk = 3
  MaxBlocks = 2
  Diffs = {1, 2}
  Pool <- Pool3
  PoolVal <- PoolVal3
  Maturity = 3
  Flags = {"badRoot", "badSums", "badPrevRoot"}
  MaxDeliveries = 4
  HeadersFirst = FALSE
  SimProfile = "mixed"
  TxShapes = "small"
VIEW View
INVARIANTS TypeOK HeadValidated HeadMaxWork BodiesValid UnspentIsReplay IndexConsistent NoDupUnspent EnumInv SpentIdxInv SumsInv MaturityLockInv OrphansRetried OnlyValidRemembered
PROPERTIES MCHeadMonotone MCRejectLeavesState
