\* random behaviours for direction A (run with -simulate): submissions, blocks, clock and peers interleave with the three parts of a monitor iteration (replayed through the private functions one by one)
SPECIFICATION MCSimSpec
CONSTANTS
  Atoms <- AtomsFull
  Subs <- SubsFull
  Utxo0 = {1, 2, 3, 4}
  BlockSet <- BlockAll
  AggSecs = 1
  EmbargoSecs = 3
  Jitter = 0
  EpochSecs = 4
  Ticks = {1, 2}
  MaxTxWeight = 226
  MaxBlockWeight = 250
  Peers = {1, 2}
  AlwaysStemOurs = TRUE
  MaxBlocks = 3
  MaxSteps = 24
  AtomicMonitor = FALSE
  Churn = TRUE
  Restem = TRUE
  AnnounceStem = FALSE
  ExpireInStemEpoch = TRUE
  FluffAll = TRUE
  DropOnFluffError = FALSE
  MaxBlockTxs = 1
  SimProfile = "mixed"
INVARIANTS Emit TypeOK PoolValid S1_StemValid StemAgesOrdered S2_NoEarlyAnnounce S3_BoundedResidence S3_Strict S5_FluffTakesAll
