--------------------------- MODULE MC_CodecConn ---------------------------
(* Bounded instances of CodecConn.tla: streams with a refused frame in the middle. *)
EXTENDS MC_Codec, CodecConn
StreamsConn == MidRefusal \cup {<<Ping, Unknown(99, 1), Ping>>, <<HeadersF(33, 33, 0), Ping>>, <<Archive(1), Ping>>, <<EmptyHeaders>>}
\* probe (SerErrorsFatal = FALSE): skipping Error::Serialization like a timeout lets the valid frame
\* behind a refused bare header through - NothingAfterRefusal / ClosedOnRefusal must FAIL
StreamsConnProbe == {<<Raw(3, FALSE, 0, 0, 0, 0), Ping>>, <<Raw(3, TRUE, Limit(3) + 1, 0, 0, 0), Ping>>}
===========================================================================
