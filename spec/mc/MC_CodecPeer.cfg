SPECIFICATION Spec
CONSTANTS
  LocalVersion = 1000
  ChanCap = 100
  VersionFromInfo = TRUE
  WriteOnce = TRUE
  Scenarios <- AllScenarios
INVARIANTS TypeOK VersionUsed NothingGarbled HandedFaithful GotFaithful
