\* compaction: an 85-block trunk with a spend every 4th block, 6 further blocks forking at most 8 below
\* the trunk head (above the horizon of any compaction), Compact / Reopen interleaved with the deliveries
SPECIFICATION MCSimSpec
CONSTANTS
  Trunk = 85
  MaxBlocks = 6
  Diffs = {1, 3, 9}
  Pool <- PoolC
  PoolVal <- PoolValC
  Maturity = 3
  Flags = {}
  MaxDeliveries = 12
  HeadersFirst = FALSE
  SimProfile = "compact"
  TxShapes = "small"
INVARIANTS Emit
