SPECIFICATION Spec
CONSTANTS
  ChainParams <- GrinChainParams
  CT = "AutomatedTesting"
  FTL = 300
  MaxLen = 6
  StepDeltas = {1, 60}
  Prefix = 1
  Now = 1790000000
INVARIANTS WireDecided WireEntryDecided EmitWirePlans ChainOK
