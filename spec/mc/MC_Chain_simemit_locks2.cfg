\* C13: two transactions (two kernels) per block and per pool query, lock heights {0,h,h+1} on each, 1-in-1-out
SPECIFICATION MCSimSpec
CONSTANTS
  Trunk = 3
  MaxBlocks = 5
  Diffs = {1, 2, 3}
  Pool <- Pool5
  PoolVal <- PoolVal5
  Maturity = 3
  Flags = {}
  MaxDeliveries = 12
  HeadersFirst = FALSE
  SimProfile = "locks"
  TxShapes = "locks2"
INVARIANTS Emit
