SPECIFICATION MCSpec
CONSTANTS
  MaxLeaves = 14
  WithSubtrees = TRUE
  MaxSteps = 45
  Mut = "none"
  FullRewindSets = FALSE
INVARIANT Refinement
INVARIANT EmitEnd
CHECK_DEADLOCK FALSE
