\* MUST VIOLATE AnswerContiguous (empty answer, A is stuck): variant whose locator does not end with genesis
SPECIFICATION MCSpec
CONSTANTS
  MaxLocators = 4
  MaxHeaders = 3
  Lens = {0, 1, 2, 4}
  Diffs = {1, 2}
  MaxIds = 8
  MaxReorgs = 1
  MaxResets = 1
  MaxByz = 1
  Variant = "no_genesis"
  ProbeHeights = {}
  FullChainUpTo = 0
VIEW View
INVARIANTS TypeOK AnswerContiguous
