SPECIFICATION Spec
CONSTANTS
  MaxIn = 2
  MaxOut = 2
  MaxKern = 1
  Vals = {0, 1, 2}
  NBlind = 3
  RPatterns <- Pat1
  Fees = {1, 2}
  Offsets <- OffsetsC
  Splits <- SplitsSmall
  PrevOffsets = {0, 1}
  MaxCorrupt = 2
INVARIANTS AllChecks
