SPECIFICATION Spec
CONSTANTS
  MaxIn = 3
  MaxOut = 3
  MaxKern = 2
  Vals = {0, 1, 2, 3}
  Blinds = {1, 2, 3}
  Fees = {1, 2}
  Offsets <- OffsetsC
  Splits <- SplitsC
  PrevOffsets = {0, 1}
  MaxCorrupt = 0
INVARIANTS ValidImpliesNoValueCreated BasesAreValid SingleCorruptionRefused RefusedConservingIsStructural
