SPECIFICATION Spec
CONSTANTS
  LocalVersion = 1000
  ChanCap = 100
  VersionFromInfo = FALSE
  WriteOnce = TRUE
  Scenarios <- ProbeScenarios
INVARIANTS TypeOK NothingGarbled
