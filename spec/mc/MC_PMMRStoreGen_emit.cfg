SPECIFICATION MCSpec
CONSTANTS
  MaxLeaves = 6
  MaxUnits = 3
  MaxAppends = 3
  MaxRemoves = 2
  Stride = 16
  FinishUnits = 3
  MaxLen = 1000
  RemoveFanout = 0
VIEW View
INVARIANTS Emit
ACTION_CONSTRAINT OrderedRemoves
