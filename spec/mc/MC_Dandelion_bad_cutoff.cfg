\* careless variant: the fluff phase aggregates only the entries older than the aggregation time; must violate S5_FluffTakesAll
SPECIFICATION MCSpec
CONSTANTS
  Atoms <- AtomsTiny
  Subs <- SubsTiny
  Utxo0 = {1, 2, 3, 4}
  BlockSet <- BlockChoices
  AggSecs = 1
  EmbargoSecs = 2
  Jitter = 0
  EpochSecs = 2
  Ticks = {1}
  MaxTxWeight = 226
  MaxBlockWeight = 250
  Peers = {1}
  AlwaysStemOurs = TRUE
  MaxBlocks = 0
  MaxSteps = 0
  AtomicMonitor = TRUE
  Churn = FALSE
  Restem = TRUE
  AnnounceStem = FALSE
  ExpireInStemEpoch = TRUE
  FluffAll = FALSE
  DropOnFluffError = FALSE
  MaxBlockTxs = 1
  SimProfile = "mixed"
VIEW View
INVARIANTS S5_FluffTakesAll
