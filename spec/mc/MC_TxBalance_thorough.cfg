SPECIFICATION Spec
CONSTANTS
  MaxIn = 3
  MaxOut = 3
  MaxKern = 2
  Vals = {0, 1, 2, 3}
  NBlind = 3
  RPatterns <- Pat3
  Fees = {1, 2}
  Offsets <- OffsetsC
  Splits <- SplitsSmall
  PrevOffsets = {0, 1}
  MaxCorrupt = 1
INVARIANTS AllChecks
