\* C13 quick: lock heights one below / at / above and coinbase spends around maturity on 2 blocks anywhere
SPECIFICATION MCSpec
CONSTANTS
  Trunk = 3
  MaxBlocks = 2
  Diffs = {1, 2}
  Pool <- Pool2
  PoolVal <- PoolVal2
  Maturity = 3
  Flags = {}
  MaxDeliveries = 3
  HeadersFirst = FALSE
  SimProfile = "mixed"
  TxShapes = "locks"
VIEW View
INVARIANTS TypeOK HeadValidated HeadMaxWork BodiesValid UnspentIsReplay IndexConsistent NoDupUnspent SpentIdxInv SumsInv MaturityLockInv OrphansRetried OnlyValidRemembered
PROPERTIES MCHeadMonotone MCRejectLeavesState
