-------------------------- MODULE MC_ChainConc --------------------------
EXTENDS ChainConc
Blk(p, h, d, t) == [parent |-> p, height |-> h, diff |-> d, tx |-> t, flag |-> "ok"]
Tx(i, o) == [ins |-> i, outs |-> o, lock |-> 0]
PoolC == {100, 101, 102}
PoolValC == (100 :> 3 @@ 101 :> 3 @@ 102 :> 2)
\* trunk 1..3 (empty); 4 and 5 compete on top of 3 spending the genesis coinbase differently,
\* 5 is heavier; 6 extends 5 and spends 5's tx output; 7 extends 4
TreeA == (0 :> Blk(0, 0, 1, NoTx) @@ 1 :> Blk(0, 1, 1, NoTx) @@ 2 :> Blk(1, 2, 1, NoTx) @@ 3 :> Blk(2, 3, 1, NoTx)
          @@ 4 :> Blk(3, 4, 1, Tx({0}, {100})) @@ 5 :> Blk(3, 4, 2, Tx({0}, {101}))
          @@ 6 :> Blk(5, 5, 1, Tx({101}, {102})) @@ 7 :> Blk(4, 5, 1, NoTx))
PB(b) == [k |-> "ProcessBlock", b |-> b]
PH(b) == [k |-> "ProcessHeader", b |-> b]
ThreadsA == {1, 2, 3}
ProgA == (1 :> <<PB(4), PB(7)>> @@ 2 :> <<PB(6), PB(5)>> @@ 3 :> <<PH(5), PB(6)>>)
ProgB == (1 :> <<PB(7), PB(4)>> @@ 2 :> <<PB(5), PB(6)>> @@ 3 :> <<PB(4), PB(7)>>)
\* orphan pool of capacity 2: a line 4-5-6-7 on the trunk, headers announced by thread 1, bodies delivered from the
\* far end: 7, 6, 5 pile up in the pool (the third insertion evicts), 4 connects whatever is left
TreeE == (0 :> Blk(0, 0, 1, NoTx) @@ 1 :> Blk(0, 1, 1, NoTx) @@ 2 :> Blk(1, 2, 1, NoTx) @@ 3 :> Blk(2, 3, 1, NoTx)
          @@ 4 :> Blk(3, 4, 1, NoTx) @@ 5 :> Blk(4, 5, 1, NoTx) @@ 6 :> Blk(5, 6, 1, NoTx) @@ 7 :> Blk(6, 7, 1, NoTx))
ProgE == (1 :> <<PH(4), PH(5), PH(6), PH(7), PB(7)>> @@ 2 :> <<PB(6), PB(5)>> @@ 3 :> <<PB(4)>>)
\* vacuity probe (expected to be VIOLATED under MC_ChainConc_evict_probe.cfg): block 7 was answered "orphan" and has
\* been evicted - it is neither in the pool nor stored when everything is done
NeverEvicted == ~(AllDone /\ 7 \notin n.bodies /\ ~(\E i \in 1..Len(n.orph) : n.orph[i] = 7) /\ results[1][5] = "orphan")
=========================================================================
