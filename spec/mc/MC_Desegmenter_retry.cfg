SPECIFICATION MCSpec
CONSTANTS
  Kinds = {"honest", "poison_spent", "split_root"}
  BatchSize = 2
  ValidateFirst = TRUE
  RootCheck = TRUE
  ResetClearsBitmap = TRUE
  MaxAdds = 100000
  MaxBad = 100000
  MaxDup = 100000
VIEW View
INVARIANTS TypeOK NeverFinaliseWrongRoots GoodRetryHasRoots
