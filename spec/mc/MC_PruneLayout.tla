--------------------------- MODULE MC_PruneLayout ---------------------------
EXTENDS PruneLayout, Json, TLC
VARIABLE hist        \* history of steps (hidden from the fingerprint by VIEW)

CONSTANT MaxSteps

Proj == [n |-> n, bm |-> SortedSeq(pl.bm), sc |-> pl.sc, lsc |-> pl.lsc, hf |-> hf, df |-> df,
         ls |-> SortedSeq(ls), ts |-> GetTotalShift(pl), tls |-> GetTotalLeafShift(pl)]
Step(k, a) == hist' = Append(hist, [k |-> k, a |-> a, p |-> Proj'])

MCInit == Init /\ hist = <<>>
MCNext ==
    /\ Len(hist) < MaxSteps
    /\ \/ AppendLeaf /\ Step("Append", <<>>)
       \/ \E l \in ls : Remove(l) /\ Step("Remove", <<l>>)
       \/ \E k \in cut..n : \E rw \in RWChoices(k) : Compact(k, rw) /\ Step("Compact", <<SizeOf(k), SortedSeq(rw), SortedSeq(RemovedPreCutoff(SizeOf(k), {1 + l : l \in rw}))>>)
       \/ \E k \in cut..n : \E rw \in RWChoices(k) : Rewind(k, rw) /\ Step("Rewind", <<SizeOf(k), SortedSeq(rw)>>)
       \/ Reopen /\ Step("Reopen", <<>>)
       \/ \E p0 \in 0..U : AppendPrunedSubtree(p0) /\ Step("Subtree", <<p0>>)
       \/ \E p0 \in 0..U : SubtreeThenDiscard(p0) /\ Step("SubtreeDiscard", <<p0>>)
MCSpec == MCInit /\ [][MCNext]_<<vars, hist>>
View == <<vars, Len(hist)>>
ViewNoLen == vars

\* one line per behaviour that ends in a state worth replaying (something was compacted)
\* BFS: one shortest behaviour per distinct state in which something has been compacted away
EmitStates == (cmp # {}) => PrintT(<<"BEH", ToJson(hist)>>)
\* simulation: one line per random walk, at its last step
EmitEnd == (Len(hist) = MaxSteps) => PrintT(<<"BEH", ToJson(hist)>>)
SimSpec == MCSpec
=============================================================================
