---------------------------- MODULE MC_Pool ----------------------------
EXTENDS Pool, Json, FiniteSetsExt
(* Bounded configurations of Pool.tla and the behaviour generator for direction A. *)

A(i, o, f) == [ins |-> i, outs |-> o, fee |-> f, shift |-> 0, lock |-> 0, nrd |-> FALSE, feat |-> "plain", kord |-> 0]
\* The universe (Trunk = 5, FeeBase = 1000; weights: 1in/1out = 25, 1in/2out = 46, 2in/1out = 26).
\*  1 A  coinbase 1 -> 100,101   exact fee        2 B  coinbase 2 -> 102          over
\*  3 C  100 -> 103 (child of A)                  4 D  101,102 -> 104 (child of A and B)
\*  5 E  coinbase 1 -> 105 (conflicts with A)     6    coinbase 3 -> 106 under by 1
\*  7    coinbase 3 -> 107 fee 37500>>1 (under once shifted)   8  coinbase 3 -> 108 fee 50000>>1 (exact)
\*  9    coinbase 4 (immature until next height 7)             10 coinbase 0, kernel locked to height 7
\* 11    coinbase 3 -> 11 outputs (weight 235 > 226)           12 J 103 -> 122 (grandchild), high fee
\* 13    NRD kernel (feature disabled)            14 coinbase 5 (immature until next height 8)
\* 15    coinbase 0 -> 125 paying 1000 (far below the minimum 25000)
\* 16 P  coinbase 2 -> 126 fee rate 10000       17 126 -> 127 fee rate 1000 (child)   18 127 -> 128 rate 4000 (grandchild)
\* 19    coinbase 0 -> 129 fee rate 3000
\* 20    coinbase 0 -> 102 : the SAME OUTPUT COMMITMENT as atom 2 (same value, same key), disjoint input and kernel
\* 21    coinbase 3 -> 126 : the same output commitment as atom 16 (which has the dependants 17 and 18)
\* 22    coinbase 0 -> 130 exact fee, no shift (with 8: 75000 >> 1 < 50000 - the aggregate's shift is the MAXIMUM of its kernels')
\* 23    coinbase 4 (immature) + 100 (output of A)    24  coinbase 0 (mature) + coinbase 5 (immature)
\* 25    coinbase 5 (immature) + 102 (output of B / 20): height-dependent rules on transactions with SEVERAL inputs
\* 26,27 coinbase 0 / 3 -> 5 outputs each (weight 109): with A the pool outweighs a block (264 + 24 > 250)
\* 28    coinbase 0 + coinbase 2 -> 144 (weight 26: with A and 8 one over what fits under MineWeight 120)
\* 29    second NRD kernel (spends coinbase 4)
\* 30    coinbase 3 (mature) + coinbase 4 (immature): as 24, with the commitments in the other byte order (in 24 the
\*       immature one comes last among the inputs, in 30 first)
\* 31    coinbase 0 -> 147, exact fee, the OUTPUT flagged COINBASE     32  coinbase 0 -> 148 with a COINBASE kernel (fee 0, as every
\*       coinbase kernel; {2, 32} pays the minimum of the aggregate): both fail standalone validation (verify_features)
\* 33    coinbase 3 -> 149, kernel locked to height 8, sorting AFTER the kernel of 10 (locked to 7) in an aggregate
\* 34    coinbase 2 -> 150, kernel locked to height 8, sorting BEFORE the kernel of 10
AtomsFull ==
  <<A({1}, {100, 101}, 46000), A({2}, {102}, 50000), A({100}, {103}, 25000), A({101, 102}, {104}, 26000),
    A({1}, {105}, 75000), A({3}, {106}, 24999),
    [A({3}, {107}, 37500) EXCEPT !.shift = 1], [A({3}, {108}, 50000) EXCEPT !.shift = 1],
    A({4}, {109}, 25000), [A({0}, {110}, 25000) EXCEPT !.lock = 7, !.kord = 2],
    A({3}, 111..121, 235000), A({103}, {122}, 100000),
    [A({0}, {123}, 25000) EXCEPT !.nrd = TRUE], A({5}, {124}, 30000), A({0}, {125}, 1000),
    A({2}, {126}, 250000), A({126}, {127}, 25000), A({127}, {128}, 100000), A({0}, {129}, 75000),
    A({0}, {102}, 50000), A({3}, {126}, 250000),
    A({0}, {130}, 25000), A({4, 100}, {131}, 26000), A({0, 5}, {132}, 26000), A({5, 102}, {133}, 26000),
    A({0}, 134..138, 109000), A({3}, 139..143, 109000), A({0, 2}, {144}, 26000),
    [A({4}, {145}, 25000) EXCEPT !.nrd = TRUE], A({3, 4}, {146}, 26000),
    [A({0}, {147}, 25000) EXCEPT !.feat = "cbout"], [A({0}, {148}, 0) EXCEPT !.feat = "cbker"],
    [A({3}, {149}, 25000) EXCEPT !.lock = 8, !.kord = 3], [A({2}, {150}, 25000) EXCEPT !.lock = 8, !.kord = 1]>>
\* {2, 6}, {16, 7}, {2, 15}: an UNDER-paying atom aggregated with a well-paying one; the aggregate as a whole pays enough
\* (74999 >= 50000; (250000 + 37500) >> 1 >= 50000; 51000 >= 50000), the remainder left after deaggregating the pooled
\* partner does not
\* {22, 8}: exact payer without shift + exact payer with shift 1: under-pays as an aggregate; {2, 9}, {2, 10}: an immature
\* spend / a locked kernel inside an aggregate; {1, 3, 12}, {1, 2, 19}: three kernels, two of them pooled separately
\* {2, 32}, {1, 31}: a coinbase kernel / a coinbase-flagged output inside an aggregate; {10, 33}, {10, 34}: two height-locked
\* kernels with different lock heights (7 and 8) in one transaction, the lower lock sorting first / last
SubsFull == {{a} : a \in 1..34} \cup {{2, 32}, {1, 31}, {10, 33}, {10, 34}} \cup {{1, 2}, {1, 3}, {3, 12}, {2, 8}, {2, 6}, {16, 7}, {2, 15}}
            \cup {{22, 8}, {2, 9}, {2, 10}, {1, 3, 12}, {1, 2, 19}}

\* small universe for exhaustive checking: parent with two outputs, second parent, child, two-parent child,
\* conflicting spend, under-payer, immature coinbase spend, locked kernel
AtomsSmall ==
  <<A({1}, {100, 101}, 46000), A({2}, {102}, 50000), A({100}, {103}, 25000), A({101, 102}, {104}, 26000),
    A({1}, {105}, 75000), A({3}, {106}, 1000), A({4}, {109}, 25000), [A({0}, {110}, 25000) EXCEPT !.lock = 7],
    A({0}, {102}, 50000)>>                 \* 9: the same output commitment as atom 2, disjoint input and kernel
SubsSmall == {{a} : a \in 1..9} \cup {{1, 2}, {1, 3}, {2, 6}}     \* {2, 6}: over-payer + under-payer, 51000 >= 50000

\* output commitments created by more than one atom, their creators and spenders (Pool.tla checks them against Atoms)
DupFull == {102, 126}
DupCreatorsFull == [c \in {102, 126} |-> IF c = 102 THEN {2, 20} ELSE {16, 21}]
DupSpendersFull == [c \in {102, 126} |-> IF c = 102 THEN {4, 25} ELSE {17}]
DupSmall == {102}
DupCreatorsSmall == [c \in {102} |-> {2, 9}]
DupSpendersSmall == [c \in {102} |-> {4}]
CONSTANTS MaxBlockTxs, MaxReorgDepth, SimProfile

VARIABLES hist, script
mcvars == <<chain, txpool, stempool, cache, pending, last, nsteps, hist, script>>

\* ---------------- scripted scenarios: the scripts (used by the recorder below and by MCScriptSpec) ----------------
Sub(t) == [k |-> "Submit", t |-> t, stem |-> FALSE, form |-> "commit"]
StemSub(t) == [k |-> "Submit", t |-> t, stem |-> TRUE, form |-> "commit"]
SubF(t, f) == [k |-> "Submit", t |-> t, stem |-> FALSE, form |-> f]
StemSubF(t, f) == [k |-> "Submit", t |-> t, stem |-> TRUE, form |-> f]
Blk(b) == [k |-> "Connect", b |-> b]
Rg(d, bs) == [k |-> "Reorg", d |-> d, bs |-> bs]
Hdr(b) == [k |-> "Header", b |-> b]
Scripts == <<
  \* 1: two pool parents (1 and 2), child 4 spending an output of each, capacity 2 forces an eviction
  <<Sub({1}), Sub({2}), Sub({4}), Sub({19}), Sub({12})>>,
  \* 2: parent 16 (high fee), child 17 (low fee, own bucket), grandchild 18, then 5: eviction
  <<Sub({16}), Sub({17}), Sub({18}), Sub({5}), Sub({19})>>,
  \* 3: stem tx 3 depends on pooled tx 1; pool fills; eviction of 1 must not leave 3 dangling in the stempool
  <<Sub({1}), StemSub({3}), Sub({2}), Sub({8}), Sub({19}), StemSub({12})>>,
  \* 4: coinbase maturity and lock height one block early / at the boundary (C13 pool clause)
  <<Sub({9}), Sub({10}), Sub({14}), StemSub({9}), Blk({}), Sub({9}), Sub({10}), Sub({14}), Blk({9}), Sub({14}), StemSub({14}), Sub({14})>>,
  \* 5: duplicates, aggregated forms of pooled txs, deaggregation, conflicts
  <<Sub({1}), Sub({1}), Sub({1, 2}), Sub({2}), Sub({1, 3}), Sub({3}), Sub({5}), StemSub({5}), Sub({3, 12}), Blk({1, 2}), Sub({1}), Sub({12})>>,
  \* 6: reorgs: a confirmed tx returns through the reorg cache; a conflicting spend on the new branch keeps it out
  <<Sub({1}), Sub({2}), Blk({1}), Rg(1, <<{}, {}>>), Blk({2}), Rg(1, <<{16}, {}>>), Sub({3})>>,
  \* 7: header-first propagation: the header chain is one ahead of the body chain; maturity and lock height
  \*    stay relative to the body head
  <<Hdr({}), Sub({9}), Sub({10}), StemSub({9}), Sub({14}), Sub({2}), Blk({}), Sub({9}), Sub({10}), Hdr({9}), Sub({14}), StemSub({14}),
    Blk({9}), Sub({14})>>,
  \* 8: the minimum fee is demanded of the REMAINDER that is admitted after deaggregation: an under-paying tx (6: short
  \*    by 1; 7: short once shifted; 15: far below) submitted aggregated with a pooled well-paying tx (2, 16) is refused
  \*    although the aggregate as a whole pays enough; as stem tx (no deaggregation) it conflicts with the pooled part
  <<Sub({2}), Sub({6}), Sub({2, 6}), Sub({16}), Sub({16, 7}), Sub({2, 15}), StemSub({2, 6}), Sub({15})>>,
  \* 9: output-commitment collisions with disjoint inputs and kernels, stem first: stem tx 2 must leave the stempool when
  \*    fluff tx 20 (same output 102) enters the public pool; 2 is then refused both ways; stem chain 16 -> 17: fluff 21
  \*    (same output 126 as 16) throws 16 out while 17 now spends the 126 of 21; block {20}
  <<StemSub({2}), Sub({20}), Sub({2}), StemSub({2}), StemSub({16}), StemSub({17}), Sub({21}), Blk({20}), StemSub({2})>>,
  \* 10: the same collisions, fluff first: stem 2 refused on top of public 20, and as fluff; stem 21, then fluff 16
  \*    (same output 126) throws it out; a BLOCK holding 21 (no kernel, no input in common with the pool) throws out 16
  <<Sub({20}), StemSub({2}), Sub({2}), StemSub({21}), Sub({16}), Blk({21}), Sub({17})>>,
  \* 11: an output created (16), spent (17) and created AGAIN (21) inside the public pool: jointly valid once cut through
  \*     (a block of the three is accepted), so 21 is admitted - and the set offered for mining must still assemble
  <<Sub({16}), Sub({17}), Sub({21})>>,
  \* 12: the same three in a pool over capacity (2): the victim must not be 17, the spender that keeps the two creators
  \*     of output 126 apart (without it the public pool no longer aggregates)
  <<Sub({21}), Sub({17}), Sub({16}), Sub({20})>>,
  \* 13: declared input features that lie: the spend of an immature coinbase labelled Plain is refused with an empty and
  \*     with a non-empty pool, as fluff and as stem; a pool output labelled Coinbase and (one block later) the now mature
  \*     coinbase labelled Plain are admitted like their truthful forms
  <<SubF({9}, "mislabelled"), Sub({1}), SubF({9}, "mislabelled"), StemSubF({14}, "mislabelled"), SubF({3}, "mislabelled"),
    Blk({1}), SubF({9}, "mislabelled"), SubF({2}, "declared")>>,
  \* 14: the height-dependent admission rules with the public pool OVER capacity (3 entries, capacity 2; a non-stem
  \*     OverCapacity means "admit, then evict"): kernel locked to a future height, immature coinbase spends (also with
  \*     lying input features), NRD kernel - all refused; then a valid one (admitted, one entry evicted)
  <<Sub({1}), Sub({2}), Sub({8}), Sub({10}), Sub({9}), Sub({13}), Sub({14}), SubF({9}, "mislabelled"), SubF({10}, "declared"),
    Sub({19})>>
  ,
  \* 15 (ShortReorg): a heavier but shorter fork lowers the height: the spend of coinbase 5 admitted at maturity is immature again
  <<Blk({}), Blk({}), Sub({14}), Sub({10}), Rg(2, <<{}>>), Sub({19}), Blk({}), Sub({14})>>,
  \* 16 (capacity 3): coinbase maturity and lock height of transactions with SEVERAL inputs, one block early and at the
  \*     boundary: immature coinbase + pool output (23), mature + immature coinbase (24), immature coinbase + pool output
  \*     of another parent (25), as fluff, as stem, with lying input features, inside an aggregate whose other half is
  \*     pooled ({2, 9} immature, {2, 10} locked); after block {2} tx 25 spends a PLAIN unspent output next to the immature
  \*     coinbase (the looked-up outputs are sorted plain first)
  <<Sub({1}), Sub({23}), SubF({23}, "mislabelled"), Sub({24}), Sub({30}), SubF({30}, "declared"), StemSub({30}), Sub({2}), Sub({25}), StemSub({23}), Sub({2, 9}), Sub({2, 10}),
    Blk({2}), Sub({23}), Sub({24}), StemSub({25}), Sub({25}), Blk({1}), SubF({25}, "declared"), StemSub({24})>>,
  \* 17: the fee shift of an aggregate is the maximum of its kernels': 22 (exact, no shift) + 8 (exact at shift 1) under-pays
  \*     as fluff and as stem; once 8 is pooled the remainder 22 is admitted
  <<Sub({22, 8}), StemSub({22, 8}), Sub({8}), Sub({22, 8}), Sub({22})>>,
  \* 18: submissions of three kernels of which two are pooled as separate entries: with cut-through between the parts the
  \*     remainder is no transaction ({1, 3, 12}); without, the remainder 19 is admitted ({1, 2, 19})
  <<Sub({1}), Sub({3}), Sub({1, 3, 12}), Sub({2}), Sub({1, 2, 19}), Sub({19})>>,
  \* 19 (MineWeight 120 = 96 + coinbase): a pool of weight 97 - one entry has to stay out of the template; after block {8}
  \*     the rest (72) fits
  <<Sub({1}), Sub({8}), Sub({28}), Blk({8}), Sub({3})>>,
  \* 20 (MineWeight 300 > MaxBlockWeight 250, capacity 50): the miner's configured limit never lifts the consensus limit;
  \*     the pool (26, 27, 1, 2, 3: 292 + coinbase) outweighs a block
  <<Sub({26}), Sub({27}), Sub({1}), Sub({2}), Sub({3}), Blk({26, 27}), Sub({12})>>,
  \* 21 (NRD enabled, Trunk 7): NRD kernels are refused while the head's header version is below 4 (heights 7, 8), admitted
  \*     from height 9 on as fluff and as stem, mined, and the stem one fluffed
  <<Sub({13}), StemSub({29}), Sub({1}), Blk({}), Blk({1}), Sub({13}), StemSub({29}), Blk({13}), Sub({29})>>,
  \* 22: the lock height of a transaction is the MAXIMUM of its kernels' lock heights: aggregates of 10 (locked to 7) with 33 / 34
  \*     (locked to 8; kernel of 33 after, of 34 before that of 10) - neither half pooled, so nothing is deaggregated - are
  \*     refused below both locks (next height 6), BETWEEN the locks (next height 7: 10 alone would be admitted), as fluff, as
  \*     stem and with the public pool over capacity; admitted, offered for mining and mined once the next height is 8
  <<Sub({10, 33}), StemSub({10, 34}), Sub({33}), Blk({}),
    Sub({10, 33}), Sub({10, 34}), StemSub({10, 33}), StemSub({10, 34}), StemSub({34}),
    Sub({1}), Sub({3}), Sub({9}), Sub({10, 33}), Blk({1, 3, 9}),
    StemSub({10, 34}), Sub({10, 33}), Blk({10, 33})>>,
  \* 23: transactions that fail standalone validation for their FEATURES - an output flagged COINBASE (31), a COINBASE kernel
  \*     riding with a well-paying kernel ({2, 32}) - are refused as fluff, as stem, with declared input features, with a
  \*     non-empty pool, as the remainder of a deaggregation ({1, 31} with 1 pooled) and with the pool over capacity
  <<Sub({31}), StemSub({31}), SubF({31}, "declared"), Sub({2, 32}), StemSub({2, 32}), Sub({32}),
    Sub({1}), Sub({31}), Sub({1, 31}), StemSub({31}), StemSub({2, 32}),
    Sub({16}), Sub({8}), Sub({31}), Sub({2, 32}), StemSubF({31}, "mislabelled")>>
>>
\* which scripts a configuration runs (its constants have to fit the script)
ScriptSet == IF NrdEnabled THEN {21} ELSE IF MineWeight > MaxBlockWeight THEN {20} ELSE IF ShortReorg THEN 15..19 ELSE (1..14) \cup {22, 23}
ScriptForm == LET a == Scripts[script][nsteps + 1] IN a.form

\* tmpl: what mine_block::get_block has to build its template on in this state (Pool!TemplateFor: the BODY head, also while
\* a header is pending); the set it carries depends on the bucket order (left free) and is judged by Pool!TemplateOK
Proj == [txpool |-> txpool, stempool |-> stempool, height |-> Height,
         tmpl |-> [prev |-> TemplateFor({}).prev, height |-> TemplateFor({}).height, pending |-> pending # <<>>]]
\* how the inputs of a submission are written on the wire (not a parameter of Pool!Submit, see there): commitments only
\* (what the tx builder produces), with the true output features declared, or with every declared feature flipped
Forms == <<"commit", "commit", "declared", "mislabelled", "mislabelled">>
Step == IF last'.k = "Submit"
        THEN [k |-> "Submit", t |-> last'.t, stem |-> last'.stem, relay |-> last'.relay, res |-> last'.res,
              why |-> last'.why, evict |-> last'.evict, pre |-> last'.pre, allowed |-> last'.allowed,
              codevictim |-> last'.codevictim, proj |-> Proj',
              form |-> IF script > 0 THEN ScriptForm ELSE Forms[RandomElement(1..Len(Forms))]]
        ELSE [k |-> last'.k, d |-> last'.d, bs |-> last'.bs, proj |-> Proj']
Record == script' = script /\ hist' = IF last'.k \in {"Submit", "Connect", "Reorg", "Header"} THEN Append(hist, Step) ELSE hist

\* ---------------- exhaustive ----------------
BlockChoices == UNION {kSubset(n, AtomIds) : n \in 0..MaxBlockTxs}
Branches(n) == [1..n -> BlockChoices]
MCNextBase ==
  \/ \E t \in Subs, stem \in BOOLEAN : Submit(t, stem, TRUE)
  \/ \E t \in Subs : Submit(t, TRUE, FALSE)
  \/ \E B \in BlockChoices : ConnectBlock(B)
  \/ \E B \in BlockChoices : HeaderFirst(B)
  \/ \E d \in 1..MaxReorgDepth : \E bs \in Branches(d + 1) : Reorg(d, bs)
  \/ ShortReorg /\ \E bs \in Branches(1) : Reorg(2, bs)
MCInit == Init /\ hist = <<>> /\ script = 0
MCNext == MCNextBase /\ UNCHANGED <<hist, script>>
MCNextRec == MCNextBase /\ Record
MCSpecRec == MCInit /\ [][MCNextRec]_mcvars
MCSpec == MCInit /\ [][MCNext]_mcvars
View == <<chain, txpool, stempool, cache, pending, last, nsteps>>

\* ---------------- simulation (behaviour generation) ----------------
Rate(x) == FeeOf(x) \div WeightOf(TxOf(x))
PosIn(s, x) == CHOOSE i \in 1..Len(s) : s[i] = x
\* the generator's guess of the victim (the property leaves the choice free): the entry the code's bucket rule picks when
\* that one has no dependants, else lowest fee rate, youngest
Guess(pre, allowed) ==
  IF CodeVictim(pre) \in allowed THEN CodeVictim(pre)
  ELSE CHOOSE x \in allowed : \A y \in allowed : y # x =>
     \/ Rate(x) < Rate(y)
     \/ Rate(x) = Rate(y) /\ PosIn(pre, x) > PosIn(pre, y)
Cands == (IF Mineable # {} THEN {Mineable} ELSE {}) \cup {{}}
RandBlock(ch) ==
  LET a1 == RandomElement(AtomIds)
      a2 == RandomElement(AtomIds)
      a3 == RandomElement(AtomIds)
      b1 == IF ValidBlock({a1}, ch) THEN {a1} ELSE {}
      b2 == IF ValidBlock(b1 \cup {a2}, ch) THEN b1 \cup {a2} ELSE b1
  IN IF ValidBlock(b2 \cup {a3}, ch) THEN b2 \cup {a3} ELSE b2
SimSubmit ==
  \E r \in {RandomElement(1..10)} :
  \E c4 \in {{RandomElement(Subs), RandomElement(Subs), RandomElement(Subs), RandomElement(Subs)}} :
  \E good \in {{t \in c4 : Fluff(t).res # "reject"}} :
  \* aggregated forms of something that is in the public pool right now (the deaggregation path)
  \E deagg \in {{t \in Subs : Cardinality(t) > 1 /\ t \notin SeqToSet(txpool) /\ \E x \in SeqToSet(txpool) : x \subseteq t}} :
  \* transactions creating an output commitment that a pooled (public or stem) tx with disjoint kernels also creates
  \E coll \in {{t \in Subs : \E x \in SeqToSet(txpool \o stempool) : x \cap t = {} /\ Created(x) \cap Created(t) # {}}} :
  \* submissions that only a height-dependent rule keeps out right now (lock height, coinbase maturity) or NRD kernels
  \E timed \in {{t \in Subs : (\E a \in t : Atoms[a].nrd) \/ Screen(TxOf(t), AtomsIn(txpool)) \in {"locked", "immature"}}} :
  \E t0 \in {IF r <= 6 /\ good # {} THEN RandomElement(good)
             ELSE IF r = 8 /\ timed # {} THEN RandomElement(timed)
             ELSE IF r = 10 /\ deagg # {} THEN RandomElement(deagg)
             ELSE IF r = 9 /\ coll # {} THEN RandomElement(coll) ELSE RandomElement(c4)} :
  \* no NRD kernel one block before the header version admits them: the property lets a pool admit it there (the next
  \* block may carry it), the code does not yet (see Pool!NrdRefused) - both are legitimate
  \E t \in {IF NrdEnabled /\ Height = NrdHeight - 1 /\ (\E a \in t0 : Atoms[a].nrd) THEN {1} ELSE t0} :
  \E st \in {RandomElement(1..10)} :
     /\ Submit(t, st <= 3, st # 1)
     /\ (last'.evict /\ last'.allowed # {}) => last'.victim = Guess(last'.pre, last'.allowed)
SimConnect ==
  \E r \in {RandomElement(1..10)} :
  \E hf \in {pending = <<>> /\ RandomElement(1..4) = 1} :
  \E B \in {IF pending # <<>> THEN pending[1] ELSE IF r <= 3 /\ ValidBlock(Mineable, chain) THEN Mineable
             ELSE IF r <= 5 THEN {}
             ELSE IF r <= 7 /\ stempool # <<>> /\ ValidBlock(AtomsIn(stempool), chain) THEN AtomsIn(stempool)
             ELSE RandBlock(chain)} :
     IF hf THEN HeaderFirst(B) ELSE ConnectBlock(B)
SimReorg ==
  \E d \in {IF Len(chain) >= 2 /\ RandomElement(1..3) = 1 THEN 2 ELSE 1} :
  \E short \in {ShortReorg /\ d = 2 /\ RandomElement(1..2) = 1} :
  \E base \in {SubSeq(chain, 1, Len(chain) - d)} :
  \E b1 \in {IF RandomElement(1..2) = 1 THEN {} ELSE RandBlock(base)} :
  \E b2 \in {IF short \/ RandomElement(1..2) = 1 THEN {} ELSE RandBlock(Append(base, b1))} :
  \E b3 \in {IF ~short /\ d = 2 /\ RandomElement(1..3) = 1 THEN RandBlock(Append(Append(base, b1), b2)) ELSE {}} :
     Reorg(d, IF short THEN <<b1>> ELSE IF d = 1 THEN <<b1, b2>> ELSE <<b1, b2, b3>>)
SimNext ==
  \E r \in {RandomElement(1..20)} :
  \E canConnect \in {Len(chain) < MaxBlocks} :
  \E canReorg \in {Len(chain) >= 1 /\ Len(chain) < MaxBlocks /\ pending = <<>>} :
  \E ps \in {IF SimProfile = "submit" THEN 20 ELSE IF SimProfile = "blocks" THEN 9 ELSE 14} :
  \E pc \in {IF SimProfile = "blocks" THEN 15 ELSE 18} :
     IF r <= ps \/ ~canConnect THEN SimSubmit
     ELSE IF r <= pc \/ ~canReorg THEN SimConnect
     ELSE SimReorg
MCSimSpec == MCInit /\ [][SimNext /\ Record]_mcvars

\* ---------------- scripted scenarios (deterministic replay files for the boundary cases) ----------------
ScriptInit == Init /\ hist = <<>> /\ script \in ScriptSet
ScriptNext ==
  /\ nsteps < Len(Scripts[script])
  /\ LET a == Scripts[script][nsteps + 1]
     IN IF a.k = "Submit"
        THEN /\ Submit(a.t, a.stem, TRUE)
             /\ (last'.evict /\ last'.allowed # {}) => last'.victim = Guess(last'.pre, last'.allowed)
        ELSE IF a.k = "Reorg" THEN Reorg(a.d, a.bs)
        ELSE IF a.k = "Header" THEN HeaderFirst(a.b)
        ELSE ConnectBlock(a.b)
  /\ Record
MCScriptSpec == ScriptInit /\ [][ScriptNext]_mcvars
ScriptDone == script > 0 /\ nsteps = Len(Scripts[script])

Done == nsteps = MaxSteps \/ ScriptDone
Behaviour == [cfg |-> [trunk |-> Trunk, maxpool |-> MaxPool, maxstem |-> MaxStem, mineweight |-> MineWeight,
                       feebase |-> FeeBase, maturity |-> Maturity, nrd |-> NrdEnabled, nrdheight |-> NrdHeight,
                       maxblockweight |-> MaxBlockWeight],
              atoms |-> Atoms, steps |-> hist, script |-> script]
Emit == Done => PrintT(<<"POOLBEH", ToJson(Behaviour)>>)
\* for configurations that are EXPECTED to violate an invariant (code-order fee test, careless eviction):
\* print the behaviour that reaches the violation so that it can be replayed on the real code
EmitBad(inv, tag) == inv \/ PrintT(<<tag, ToJson(Behaviour)>>) = FALSE
EmitNoUnderpaid == EmitBad(NoUnderpaid, "POOLCEX")
EmitPoolJointlyValid == EmitBad(PoolJointlyValid, "POOLCEX")
EmitStemJointlyValid == EmitBad(StemJointlyValid, "POOLCEX")
EmitAdmitMatureUnlocked == EmitBad(AdmitMatureUnlocked, "POOLCEX")
=========================================================================
