SPECIFICATION Spec
CONSTANTS
  Tier = "quick"
  StrictAddr = TRUE
INVARIANTS Emit EmitPack
