SPECIFICATION Spec
CONSTANTS
  Tier = "quick"
  StrictAddr = FALSE
INVARIANTS Emit EmitPack
