SPECIFICATION Spec
CONSTANTS
  Tier = "thorough"
  StrictAddr = FALSE
INVARIANTS Emit EmitPack
