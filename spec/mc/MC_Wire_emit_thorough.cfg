SPECIFICATION Spec
CONSTANTS
  Tier = "thorough"
  StrictAddr = TRUE
INVARIANTS Emit EmitPack
