---------------------------- MODULE MC_Segment ----------------------------
(* Case enumeration for Segment.tla: cases are successors of one root state *)
(* (so TLC's workers share them).  A case is a source state                 *)
(* [nl, rm, comp, late]; for it every identifier of heights Heights and     *)
(* every index (plus one non-existent index) is produced, validated,        *)
(* corrupted in every single way and emitted as one JSON line that the      *)
(* harness realises on real PMMRBackend / VecBackend MMRs.                  *)
EXTENDS Segment, Json, IOUtils, SequencesExt

CONSTANTS Heights,        \* segment heights
          ExhLeaves,      \* exhaustive part: every nl <= ExhLeaves, every rm, every comp <= rm
          FromFile,       \* TRUE: additional cases are read from IOEnv.CASES (ndjson of [nl, rm, comp, late])
          EmitOn          \* TRUE: print one SEGCASE line per case

VARIABLE c
vars == <<c>>

RootState == [nl |-> 0, rm |-> {}, comp |-> {}, late |-> {}]

FileCases == IF FromFile
             THEN LET recs == ndJsonDeserialize(IOEnv.CASES)
                  IN {[nl |-> recs[i].nl, rm |-> ToSet(recs[i].rm), comp |-> ToSet(recs[i].comp), late |-> ToSet(recs[i].late)] : i \in 1..Len(recs)}
             ELSE {}

ExhCases == UNION {UNION {{[nl |-> n, rm |-> r, comp |-> k, late |-> {}] : k \in SUBSET r} : r \in SUBSET (0..(n-1))} : n \in 1..ExhLeaves}

Init == c = RootState
Next == c = RootState /\ c' \in (ExhCases \cup FileCases)
Spec == Init /\ [][Next]_vars

-----------------------------------------------------------------------------
OpRec(s, g, bm, op) == [kind |-> op.kind, k |-> op.k, q |-> op.q,
                        dep |-> DependsOn(s, g, bm, op),
                        v   |-> Validate(ApplyOp(g, op), s.nl, bm, RootTerm(s), NoWith)]

SegRec(s, h, idx, prunable) ==
  LET g  == FromPMMR(s, h, idx, prunable)
      bm == BmOf(s, prunable)
      w  == [none |-> FALSE, pos |-> SizeOf(s.nl), other |-> <<"O">>, left |-> FALSE]
      wl == [w EXCEPT !.left = TRUE]
  IN IF ~g.ok THEN [h |-> h, idx |-> idx, prunable |-> prunable, ok |-> FALSE, err |-> g.err]
     ELSE [h |-> h, idx |-> idx, prunable |-> prunable, ok |-> TRUE, err |-> "",
           leaf_pos |-> g.leaf_pos, hash_pos |-> g.hash_pos, proof_ref |-> g.proof_ref,
           honest |-> Validate(g, s.nl, bm, RootTerm(s), NoWith),
           prooflen_ok |-> Len(g.proof) = ExpectedProofLen(s, g),
           with_ok |-> /\ Validate(g, s.nl, bm, N(w.pos, RootTerm(s), w.other), w)
                       /\ Validate(g, s.nl, bm, N(w.pos, w.other, RootTerm(s)), wl)
                       /\ ~Validate(g, s.nl, bm, N(w.pos, w.other, RootTerm(s)), w)
                       /\ ~Validate(g, s.nl, bm, N(w.pos, RootTerm(s), Junk), w)
                       /\ ~Validate(g, s.nl, bm, N(w.pos + 1, RootTerm(s), w.other), w)
                       /\ ~Validate(g, s.nl, bm, RootTerm(s), w),
           ops |-> SetToSeq({OpRec(s, g, bm, op) : op \in Ops(g, s.nl)})]


CaseRec(s) ==
  LET ids == SetToSeq({<<h, idx, p>> \in Heights \X (0..s.nl) \X BOOLEAN :
                         /\ idx <= NumSegs(h, s.nl)
                         /\ (~p => (s.rm = {} /\ s.late = {}))})
  IN [nl |-> s.nl, rm |-> SortedSeq(s.rm), comp |-> SortedSeq(s.comp), late |-> SortedSeq(s.late),
      size |-> SizeOf(s.nl),
      segs |-> [i \in 1..Len(ids) |-> SegRec(s, ids[i][1], ids[i][2], ids[i][3])]]

ProducerRecOK(s, sg) ==
  /\ (sg.err = "NonExistent") = (sg.idx >= NumSegs(sg.h, s.nl))
  /\ (sg.err = "MissingHash") => sg.h = 0
  /\ (sg.err = "MissingLeaf") => ~sg.prunable /\ s.comp # {}

RecOK(s, rec) ==
  \A i \in 1..Len(rec.segs) :
    LET sg == rec.segs[i] IN
    /\ ProducerRecOK(s, sg)
    /\ sg.ok => /\ sg.honest /\ sg.prooflen_ok /\ sg.with_ok
                /\ \A j \in 1..Len(sg.ops) : sg.ops[j].dep => ~sg.ops[j].v

\* The property of Segment.tla (StateOK) evaluated through the emitted record, so that what is
\* checked and what the harness replays are the same values.
Inv == c.nl > 0 => LET rec == CaseRec(c) IN
                   /\ RecOK(c, rec)
                   /\ (EmitOn => PrintT(<<"SEGCASE", ToJson(rec)>>))

\* The same property in its readable form (small configs only: it recomputes everything)
InvStateOK == c.nl > 0 => StateOK(c, Heights)
=============================================================================
