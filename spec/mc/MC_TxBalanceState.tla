------------------------- MODULE MC_TxBalanceState -------------------------
EXTENDS TxBalanceState, Json, IOUtils
\* Model-checking instance of TxBalanceState.tla (+ TxBalanceBatch.tla) and plan generator for the
\* batch / full-state sections of C01.  One run checks AllStateChecks on every chosen plan and
\* prints it (the chosen sets are small).
Seed == IF "VERIF_SEED" \in DOMAIN IOEnv THEN atoi(IOEnv.VERIF_SEED) ELSE 1
Pick(S, k, salt) ==   \* k elements of S starting at a seed-dependent index of its canonical enumeration
  IF S = {} THEN {}
  ELSE LET q == SetToSeq(S) n == Len(q)
       IN  {q[1 + ((Seed * 7919 + salt * 31 + i * 104729) % n)] : i \in 1..k}

\* ---- batch plans
SeedSizes == {2 + ((Seed * 7919 + i * 104729) % 1500) : i \in 1..3}
SeedPlans(kind) ==
  UNION {{Plan(kind, "batch", n, {(Seed * 7919 + n \div 3) % n}), Plan(kind, "batch", n, {})} :
           n \in (IF kind = "sig" THEN SeedSizes ELSE {2 + (s % 150) : s \in SeedSizes})}
QuickBatchPlans ==
  FamilyPlans("sig", "batch", {16, 100, 256, 1000, 2048, 5000}, 1, TRUE)
  \cup FamilyPlans("sig", "batch", {1024}, 2, FALSE)
  \cup FamilyPlans("proof", "batch", {16, 64, 256, 1000, 1024}, 1, TRUE)
  \cup SeedPlans("sig") \cup SeedPlans("proof")
  \cup {Plan("sig", "tx", 1025, {}), Plan("sig", "tx", 1025, {1024}), Plan("sig", "tx", 1026, {0})}
  \cup {Plan("proof", "tx", 9, {}), Plan("proof", "tx", 9, {8}), Plan("proof", "tx", 9, {0}), Plan("proof", "tx", 17, {16})}
\* every batch size up to a bound with the last item forged, more boundaries, every boundary position
ThoroughBatchPlans ==
  QuickBatchPlans
  \cup {Plan("sig", "batch", n, {n - 1}) : n \in 1..1100}
  \cup {Plan("proof", "batch", n, {n - 1}) : n \in 1..130}
  \cup FamilyPlans("sig", "batch", {16, 32, 64, 100, 128, 256, 500, 512, 1000, 1024}, 2, FALSE)
  \cup FamilyPlans("sig", "batch", {2048, 4096, 5000}, 1, FALSE)
  \cup FamilyPlans("proof", "batch", {16, 32, 64, 100, 128, 256, 500, 512, 1000, 1024}, 1, FALSE)
  \cup {Plan("sig", "tx", 2049, {2048}), Plan("sig", "tx", 2050, {1024}), Plan("sig", "tx", 5001, {5000})}
  \cup {Plan("proof", "tx", 33, {32}), Plan("proof", "tx", 65, {64}), Plan("proof", "tx", 65, {0})}

\* ---- histories and their corruptions
PlainAll == {nl \in AllHistories : nl[2] = "plain"}
SeedLayout(n) == Pick({nl \in AllHistories : nl[1] = n /\ nl[2] # "plain"}, 1, n)
QuickHistories == PlainAll \cup UNION {SeedLayout(n) : n \in 1..MaxBlocks}
OfClass(S, c) == {v \in S : v.cls = c}
QuickVariants(n, L) ==
  LET A == AllVariants(n, L)
  IN  IF L = "plain"
      THEN OfClass(A, "kernel_minting") \cup OfClass(A, "proof_swapped")
           \cup Pick(OfClass(A, "kernel_sig_swapped"), 2, n) \cup Pick(OfClass(A, "excess_replaced"), 1, n)
           \cup Pick(OfClass(A, "amount_inflated"), 1, n)
      ELSE Pick(OfClass(A, "kernel_minting"), 3, n) \cup Pick(OfClass(A, "proof_swapped"), 3, n)
           \cup Pick(OfClass(A, "kernel_sig_swapped"), 2, n) \cup Pick(OfClass(A, "excess_replaced"), 1, n)
           \cup Pick(OfClass(A, "amount_inflated"), 1, n) \cup Pick(OfClass(A, "offset_shifted"), 1, n)

\* ---- large plans: the batch boundaries of the two walks, and of the chunk size a batch verifier may use
LargeOf(items, cap, ps) == {[items |-> items, n |-> p.n, cap |-> cap,
                             idx |-> IF p.forged = {} THEN -1 ELSE CHOOSE i \in p.forged : TRUE] : p \in ps}
BoundaryOnly(ps, lo) == {p \in ps : p.n >= lo}
QuickLargePlans ==
  LargeOf("kernel", 1000, BoundaryOnly(FamilyPlans("state", "walk", {1024, KernelBatch}, 1, TRUE), 1000))
ThoroughLargePlans ==
  QuickLargePlans
  \cup LargeOf("kernel", 1000, BoundaryOnly(FamilyPlans("state", "walk", {KernelBatch}, 1, FALSE), 1000))
  \cup LargeOf("output", 250, BoundaryOnly(FamilyPlans("state", "walk", {ProofBatch}, 1, TRUE), 900))

\* ---- sensitivity of the plan families, evaluated once (in the root state)
FamiliesKill ==
  sphase = "root" =>
    /\ \A B \in {1024, KernelBatch, ProofBatch, 16, 100} : FamilyKillsAll(B, 1, TRUE)
    /\ \A B \in 2..5 : \A n \in 0..24 : WalksAgree(n, B)
    \* the large plans alone tell the careless walks of the validator from the definition
    /\ \A c \in {"leaf_only_flush", "chunks_exact", "skip_last", "skip_first", "boundary_item_dropped", "boundary_prev_dropped"} :
         \E p \in QuickLargePlans : p.idx >= 0 /\ p.items = "kernel"
            /\ Accepts(CarelessChecked(c, p.n, IF c = "chunks_exact" THEN 1024 ELSE KernelBatch), {p.idx})

\* ---- emission
SetSeq(S) == SetToSeq(S)
BatchCase == [sect |-> "batch", kind |-> bplan.kind, route |-> bplan.route, n |-> bplan.n,
              forged |-> SetSeq(bplan.forged), expect |-> [ok |-> BatchOK(bplan.n, bplan.forged)]]
StateCase ==
  LET bs == Cur
  IN  [sect |-> "state", n |-> hplan.n, layout |-> hplan.layout, cls |-> hplan.var.cls,
       h |-> hplan.var.h, slot |-> hplan.var.slot, blocks |-> bs,
       pipeline_upto |-> IF hplan.var.cls = "base" THEN hplan.n ELSE hplan.var.h - 1,
       nk |-> Len(Kernels(bs)), nu |-> Len(Unspent(bs)),
       \* the corrupted block is first offered to the block pipeline under every option set
       pipe |-> IF hplan.var.cls = "base" THEN <<>>
                ELSE LET opts == SetToSeq(PipelineOptions)
                     IN  [i \in 1..Len(opts) |-> [h |-> hplan.var.h, opt |-> opts[i], accept |-> PipelineAccepts(bs, hplan.var.h, opts[i])]],
       expect |-> [fast |-> FastValid(bs), full |-> FullValid(bs), rule |-> StateFirstFailing(bs),
                   nvc |-> StateNoValueCreated(bs)]]
LargeCase ==
  [sect |-> "large", items |-> lplan.items, n |-> lplan.n, idx |-> lplan.idx,
   cls |-> IF lplan.idx < 0 THEN "base" ELSE LargeCls(lplan.items),
   blocks |-> LargeBlocks(lplan.items, LargeCls(lplan.items), lplan.n, lplan.idx, lplan.cap),
   pipeline_upto |-> 0,
   expect |-> [fast |-> TRUE, full |-> LargeFullValid(lplan),
               rule |-> IF lplan.idx < 0 THEN "none" ELSE IF lplan.items = "kernel" THEN "signatures" ELSE "range_proofs",
               nvc |-> lplan.idx < 0]]
EmitState ==
  /\ sphase = "batch" => PrintT(<<"STPLAN", ToJson(BatchCase)>>)
  /\ sphase \in {"hist", "state"} => PrintT(<<"STPLAN", ToJson(StateCase)>>)
  /\ sphase = "large" => PrintT(<<"STPLAN", ToJson(LargeCase)>>)
===========================================================================
