SPECIFICATION MCSpec
CONSTANTS
  Pool = {0, 1, 1023, 1024, 1025, 2047, 2048, 2049, 3071, 3072}
  Sizes = {0, 1, 2, 1024, 1025, 1026, 2048, 2049, 2050, 3072, 3073}
  NBITS = 1024
  UseLoop = TRUE
  Proto = "code"
  RequireLastLeaf = TRUE
  MaxSteps = 100
  EmitAt = 5
INVARIANTS Emit
