SPECIFICATION Spec
CONSTANTS
  MaxIn = 3
  MaxOut = 3
  MaxKern = 2
  Vals = {0, 1, 2, 3}
  NBlind = 3
  RPatterns <- Pat9
  Fees = {1, 2}
  Offsets <- OffsetsC
  Splits <- SplitsC
  PrevOffsets = {0, 1, 2}
  MaxCorrupt = 2
  ValueChoices <- RepValueChoices
  Bases <- RepBases
  CorruptionChoices <- SampledCorruptions
INVARIANTS Emit
