SPECIFICATION Spec
CONSTANTS
  ModelDecoders = {"Codec::read"}
  ModelLens = {0, 1, 4}
  Env <- BadEnv
CONSTRAINT Bounded
INVARIANTS Progress
