\* the deadlock clause alone (used to see whether a protocol that splits its view ALSO admits a deadlock)
SPECIFICATION Spec
CONSTANTS
  ProtosIn <- ProtosFromFile
  ViewsIn <- ViewsFromFile
  NThreads = 3
  OpsPerThread = 1
INVARIANTS NoDeadlock LockSane
