SPECIFICATION Spec
CONSTANTS
  MaxLeaves = 34
  TermLeaves = 34
INVARIANTS Emit
