\* MUST VIOLATE MCHeadMonotone: variant whose header head moves on equal work (anti-vacuity)
SPECIFICATION MCSpec
CONSTANTS
  MaxLocators = 4
  MaxHeaders = 3
  Lens = {0, 1, 2, 4}
  Diffs = {1, 2}
  MaxIds = 8
  MaxReorgs = 1
  MaxResets = 1
  MaxByz = 1
  Variant = "ge_work"
  ProbeHeights = {}
  FullChainUpTo = 0
VIEW View
INVARIANTS TypeOK
PROPERTIES MCHeadMonotone
