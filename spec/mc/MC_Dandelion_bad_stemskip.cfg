\* careless variant: the monitor skips process_expired_entries in stem epochs; must violate S3_BoundedResidence
SPECIFICATION MCSpec
CONSTANTS
  Atoms <- AtomsTiny
  Subs <- SubsTiny
  Utxo0 = {1, 2, 3, 4}
  BlockSet <- BlockChoices
  AggSecs = 1
  EmbargoSecs = 2
  Jitter = 0
  EpochSecs = 2
  Ticks = {1}
  MaxTxWeight = 226
  MaxBlockWeight = 250
  Peers = {1}
  AlwaysStemOurs = TRUE
  MaxBlocks = 0
  MaxSteps = 0
  AtomicMonitor = TRUE
  Churn = FALSE
  Restem = TRUE
  AnnounceStem = FALSE
  ExpireInStemEpoch = FALSE
  FluffAll = TRUE
  DropOnFluffError = FALSE
  MaxBlockTxs = 1
  SimProfile = "mixed"
VIEW View
INVARIANTS S3_BoundedResidence
