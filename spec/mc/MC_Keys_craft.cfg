SPECIFICATION Spec
CONSTANTS
  Parts = {"rewind"}
  Seeds = {"s1", "s2"}
  Comps = {"c0", "c1", "h0"}
  HardComps = {"h0"}
  Amts = {"a0", "amax"}
  MaxDepth = 4
  VKMaxDepth = 1
  MaxOuts = 1
  Fmts = {"new", "legacy", "b0", "dp5", "dp255", "dpm1"}
  PerGroup = 1
  CraftDepths = {}
  KeyNames = {"d1"}
  MaxTerms = 1
  MaxIO = 1
  MaxUnit = 0
  FeeClasses = {"f1"}
  ScaleClasses = {"one"}
  KernClasses = {"Plain"}
  ViaClasses = {"transaction"}
  CbFeeClasses = {"cf0"}
  AlgStride = 1
  CbStride = 1
  ShapeStride = 1
  PairStride = 1
  WalPicks = 1
INVARIANTS TypeOK RewindMatrixAll ProofsVerify SiblingsOK SignOK ExtraDataBinds PaddingIgnored EmitCraft
