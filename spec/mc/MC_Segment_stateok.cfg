SPECIFICATION Spec
CONSTANTS
  MaxLeaves = 12
  Heights = {0, 1, 2, 3}
  ExhLeaves = 4
  FromFile = FALSE
  EmitOn = FALSE
INVARIANTS InvStateOK Inv
