SPECIFICATION MCSpec
CONSTANTS
  MaxLeaves = 8
  WithSubtrees = TRUE
  MaxSteps = 40
  FullRewindSets = FALSE
VIEW ViewNoLen
INVARIANT Refinement
CHECK_DEADLOCK FALSE
