SPECIFICATION Spec
CONSTANTS
  MaxLeaves = 8
  MaxUnits = 4
  MaxAppends = 3
  MaxRemoves = 2
  Stride = 16
INVARIANTS TypeOK BoundariesOK NoLiveLeafGone
PROPERTIES CommittedStutter WorkIsPrivate
