\* exhaustive: three independent transactions of which only two fit into one transaction
SPECIFICATION MCSpec
CONSTANTS
  Atoms <- AtomsHeavy
  Subs <- SubsHeavy
  Utxo0 = {1, 2, 3, 4}
  BlockSet <- BlockChoices
  AggSecs = 1
  EmbargoSecs = 2
  Jitter = 0
  EpochSecs = 2
  Ticks = {1}
  MaxTxWeight = 60
  MaxBlockWeight = 250
  Peers = {1}
  AlwaysStemOurs = TRUE
  MaxBlocks = 0
  MaxSteps = 0
  AtomicMonitor = TRUE
  Churn = FALSE
  Restem = TRUE
  AnnounceStem = FALSE
  ExpireInStemEpoch = TRUE
  FluffAll = TRUE
  DropOnFluffError = FALSE
  MaxBlockTxs = 1
  SimProfile = "mixed"
VIEW View
INVARIANTS TypeOK PoolValid S1_StemValid StemAgesOrdered S2_NoEarlyAnnounce S3_BoundedResidence S3_Strict S5_FluffTakesAll
PROPERTIES MCS4 MCNoSilentDrop MCRejectKeepsPools MCEpochOnlyAtRollover
