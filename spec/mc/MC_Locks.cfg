SPECIFICATION Spec
CONSTANTS
  ProtosIn <- ProtosFromFile
  ViewsIn <- ViewsFromFile
  NThreads = 3
  OpsPerThread = 1
INVARIANTS NoDeadlock LockSane ViewsOK GuardedOK ViewsRecorded
