SPECIFICATION Spec
CONSTANTS
  ProtosIn <- ProtosFromFile
  NThreads = 3
  OpsPerThread = 1
INVARIANTS NoDeadlock LockSane
