\* exhaustive with the constants of the code, one reorganisation of B and one restart of A
SPECIFICATION MCSpecLens
CONSTANTS
  MaxLocators = 20
  MaxHeaders = 512
  Lens = {0, 3, 700}
  Diffs = {1, 2}
  MaxIds = 2900
  MaxReorgs = 1
  MaxResets = 1
  MaxByz = 0
  Variant = "code"
  ProbeHeights = {}
  FullChainUpTo = 0
VIEW View
INVARIANTS TypeOK StoredOnTree SyncLeHead LocatorShape BackoffQuality AnswerContiguous RoundsBound Converged NotBehind
PROPERTIES MCHeadMonotone MCHonestAccepted MCRejectLeavesState MCNeverForgets MCRoundProgress
