---------------------------- MODULE MC_MMR ----------------------------
EXTENDS MMRViews, TLC, Json
\* Direction A generator: one line per small MMR with its root term and every leaf's proof path.
Case(s) == [size |-> Size(s), nl |-> NL(s), root |-> RootTerm(s), peaks |-> s.pk,
            proofs |-> [i \in 1..NL(s) |-> [pos |-> s.lp[i], d |-> Data(i-1), path |-> ProofPathD(s, s.lp[i])]]]
\* ... plus what the replay needs for the views (MMRViews.tla): removal patterns, the size of the view at every
\* earlier leaf count (its root / peaks / proofs are those of the case of that leaf count: ViewsOK), the size
\* RewindablePMMR::rewind(q) must land on, and which single altered hash PMMR::validate must refuse.
CaseV(s) == Case(s) @@
  [rms    |-> [j \in 1..Len(RmPatterns(s)) |->
                 [name |-> RmPatterns(s)[j].name,
                  pos  |-> [x \in 1..Len(RmPatterns(s)[j].ix) |-> s.lp[RmPatterns(s)[j].ix[x]]]]],
   views  |-> [k \in 1..NL(s) |-> [k |-> k, size |-> SizeAt(s, k)]],
   rwsize |-> [q \in 1..(Size(s) + 1) |-> RewindSizeD(s, q - 1)],
   vbound |-> [p \in 1..Size(s) |-> BoundByValidateD(s, p - 1)],
   peakterms |-> [i \in 1..Len(s.pk) |-> s.tm[s.pk[i] + 1]],
   nodes  |-> s.tm]
Emit == (KeepTerms(m) /\ NL(m) > 0) => PrintT(<<"MMRCASE", ToJson(CaseV(m))>>)

=======================================================================
