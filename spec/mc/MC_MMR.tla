---------------------------- MODULE MC_MMR ----------------------------
EXTENDS MMR, TLC, Json
\* Direction A generator: one line per small MMR with its root term and every leaf's proof path.
Case(s) == [size |-> Size(s), nl |-> NL(s), root |-> RootTerm(s), peaks |-> s.pk,
            proofs |-> [i \in 1..NL(s) |-> [pos |-> s.lp[i], d |-> Data(i-1), path |-> ProofPathD(s, s.lp[i])]]]
Emit == (KeepTerms(m) /\ NL(m) > 0) => PrintT(<<"MMRCASE", ToJson(Case(m))>>)

=======================================================================
