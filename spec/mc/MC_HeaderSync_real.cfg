\* exhaustive with the constants of the code (MAX_LOCATORS 20, MAX_BLOCK_HEADERS 512): every combination of chain lengths / fork depths from Lens, undisturbed
SPECIFICATION MCSpecLens
CONSTANTS
  MaxLocators = 20
  MaxHeaders = 512
  Lens = {0, 1, 3, 40, 600, 1100}
  Diffs = {1, 2}
  MaxIds = 2300
  MaxReorgs = 0
  MaxResets = 0
  MaxByz = 0
  Variant = "code"
  ProbeHeights = {}
  FullChainUpTo = 0
VIEW View
INVARIANTS TypeOK StoredOnTree SyncLeHead LocatorShape BackoffQuality AnswerContiguous RoundsBound Converged NotBehind
PROPERTIES MCHeadMonotone MCHonestAccepted MCRejectLeavesState MCNeverForgets MCRoundProgress
