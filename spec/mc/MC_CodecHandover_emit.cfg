SPECIFICATION EmitSpec
CONSTANTS
  HDR = 11
  HSBODY = 81
  BUFSZ = 8192
  Buffered = FALSE
  Plans <- AllPlans
INVARIANTS Emit
