--------------------------- MODULE MC_CodecPeer ---------------------------
(* Bounded instance of CodecPeer.tla and the scenario generator: every scenario is replayed on   *)
(* a real `Peer` (Peer::accept / Peer::connect with a recording NetAdapter) facing a raw peer of  *)
(* version rv that writes with the negotiated version and reads with the real Codec (h_codec peer).*)
EXTENDS CodecPeer, Json

In(m) == <<"in", m>>
Out(m) == <<"out", m>>
Scripts == {
  \* requests answered through Consumed::Response, transactions in both directions
  <<In("ping"), In("tx"), In("stemtx"), Out("ping"), Out("stemtx"), In("getpeers")>>,
  \* version-dependent answers, blocks in both directions
  <<In("gettx"), In("getblock"), Out("cblock"), Out("header"), In("block")>>,
  \* a batched header list as an answer
  <<In("getheaders"), Out("getheaders"), In("header"), In("cblock"), Out("stemtx")>>,
  \* consecutive sends: the writer thread takes each message from the channel once
  <<Out("stemtx"), Out("stemtx"), Out("ping"), In("ping"), Out("stemtx")>>}
RemoteVersions == {1, 2, 3, 1000, 2000}
AllScenarios == {[role |-> r, rv |-> v, ops |-> o] : r \in {"accept", "connect"}, v \in RemoteVersions, o \in Scripts}
\* probes: (a) ProtocolVersion::local() instead of info.version, (b) a writer that writes a message again
ProbeScenarios == {[role |-> "accept", rv |-> 1, ops |-> <<In("tx"), Out("stemtx")>>]}

Case(x) == [role |-> x.role, rv |-> x.rv, ops |-> x.ops, nv |-> Min(LocalVersion, x.rv),
            handed |-> Names(x.ops, "in"), answers |-> Responses(Names(x.ops, "in")), sends |-> Names(x.ops, "out")]
EmitSpec == Init /\ [][FALSE]_vars
Emit == PrintT(<<"PEERCASE", ToJson(Case(sc))>>)
===========================================================================
