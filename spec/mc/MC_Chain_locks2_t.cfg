\* C13 thorough: two transactions per block (lock heights on each kernel), one further block
SPECIFICATION MCSpec
CONSTANTS
  Trunk = 3
  MaxBlocks = 1
  Diffs = {1}
  Pool <- Pool3
  PoolVal <- PoolVal3
  Maturity = 3
  Flags = {}
  MaxDeliveries = 3
  HeadersFirst = FALSE
  SimProfile = "mixed"
  TxShapes = "locks2"
VIEW View
INVARIANTS TypeOK HeadValidated HeadMaxWork BodiesValid UnspentIsReplay IndexConsistent NoDupUnspent SpentIdxInv SumsInv MaturityLockInv OrphansRetried OnlyValidRemembered
PROPERTIES MCHeadMonotone MCRejectLeavesState
