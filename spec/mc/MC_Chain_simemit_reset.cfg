\* reset_chain_head / read-only rewind probes interleaved with deliveries on a short chain with spends
SPECIFICATION MCSimSpec
CONSTANTS
  Trunk = 4
  MaxBlocks = 6
  Diffs = {1, 2, 5}
  Pool <- Pool3
  PoolVal <- PoolVal3
  Maturity = 3
  Flags = {}
  MaxDeliveries = 14
  HeadersFirst = FALSE
  SimProfile = "reset"
  TxShapes = "small"
INVARIANTS Emit
