SPECIFICATION Spec
CONSTANTS
  Libraries <- LibrariesT
  Rewards <- RewardsC
  MaxFamily = 5
  PrevOffsets = {0, 16384}
  MaxFamilyOf <- MaxFamilyT
  PlanChoices <- NoPlanChoices
CONSTRAINT NoPlans
INVARIANTS Emit
