SPECIFICATION Spec
CONSTANTS
  Libraries <- LibrariesT
  Rewards <- RewardsC
  MaxFamily = 5
  PrevOffset = 16384
CONSTRAINT NoPlans
INVARIANTS Emit
