SPECIFICATION Spec
CONSTANTS
  MaxLeaves = 70
  TermLeaves = 70
INVARIANTS Emit
