\* careless variant: the fluff phase empties the stempool although the aggregate was refused; must violate MCS4
SPECIFICATION MCSpec
CONSTANTS
  Atoms <- AtomsHeavy2
  Subs <- SubsHeavy2
  Utxo0 = {1, 2, 3, 4}
  BlockSet <- BlockChoices
  AggSecs = 1
  EmbargoSecs = 2
  Jitter = 0
  EpochSecs = 2
  Ticks = {1}
  MaxTxWeight = 40
  MaxBlockWeight = 250
  Peers = {1}
  AlwaysStemOurs = TRUE
  MaxBlocks = 0
  MaxSteps = 0
  AtomicMonitor = TRUE
  Churn = FALSE
  Restem = TRUE
  AnnounceStem = FALSE
  ExpireInStemEpoch = TRUE
  FluffAll = TRUE
  DropOnFluffError = TRUE
  MaxBlockTxs = 1
  SimProfile = "mixed"
VIEW View
PROPERTIES MCS4
