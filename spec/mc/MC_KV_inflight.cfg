\* single-key reads caught in flight on a second thread (ReadBegin .. ReadEnd) while the first thread's batches, children
\* and iterators go on: the read yields what was committed when it was opened
SPECIFICATION MCSpec
CONSTANTS
  NS = 1
  NK = 2
  Vals = {1, 2}
  MaxDepth = 2
  NR = 1
  NT = 2
  Writers = {1}
  ItThreads = {1, 2}
  RdThreads = {2}
  MapInit = 10
  UsedInit = 0
  Chunk = 10
  PutCost = 0
  TxnBeforeGate = FALSE
  NestedCloseClearsMark = FALSE
  ReadNotCounted = FALSE
  SqueezedFits = TRUE
  ReopenClampsMap = FALSE
  LiveSized = FALSE
  Page = 1
  PageBySkipCur = FALSE
  PageFreshSnap = FALSE
  BatchMax = 1
  MaxOps = 7
  WithReads = FALSE
  Stride = 1
  Offset = 0
VIEW View
INVARIANTS TypeOK ShadowAgrees LookupTopDown NoMapFull WaiterOwnsNothing CountAgrees MarkAgrees NoRemapUnderTxn NoHolderParked GateLive PageWalk
PROPERTIES CommitAtomic ChildFolds DropNoTrace SnapStable ResizeStutter CrashDurable ResizeGate HeadroomKept IterInOrder
