\* random behaviours with the NRD feature enabled: head heights 7..11, NRD kernels admissible from height 9
SPECIFICATION MCSimSpec
CONSTANTS
  Atoms <- AtomsFull
  Subs <- SubsFull
  DupCommits <- DupFull
  DupCreators <- DupCreatorsFull
  DupSpenders <- DupSpendersFull
  Trunk = 7
  Maturity = 3
  MaxPool = 3
  MaxStem = 2
  FeeBase = 1000
  MaxTxWeight = 226
  MaxBlockWeight = 250
  MineWeight = 120
  FeeFirst = TRUE
  TimedAlways = TRUE
  StemRecheck = "always"
  FeeOnRemainder = TRUE
  EvictMode = "nodeps"
  ReconcileMature = TRUE
  NrdEnabled = TRUE
  NrdHeight = 9
  ShortReorg = FALSE
  MaxBlocks = 4
  MaxSteps = 14
  MaxBlockTxs = 3
  MaxReorgDepth = 2
  SimProfile = "blocks"
INVARIANTS Emit PoolJointlyValid StemJointlyValid PoolMatureUnlocked NoUnderpaid NoOverweight AdmitMatureUnlocked MineableAccepted
