SPECIFICATION MCSpec
CONSTANTS
  MaxLeaves = 6
  WithSubtrees = TRUE
  MaxSteps = 40
  Mut = "discard"
  FullRewindSets = FALSE
VIEW ViewNoLen
INVARIANT Refinement
CHECK_DEADLOCK FALSE
