SPECIFICATION EmitSpec
CONSTANTS
  LocalVersion = 1000
  ChanCap = 100
  VersionFromInfo = TRUE
  WriteOnce = TRUE
  Scenarios <- AllScenarios
INVARIANTS Emit
