\* the letter of the property (no bound on a batch): the map is enlarged only between batches, ONE batch that needs more than
\* what is free runs out of space - violates NoMapFull; the counterexample is reproduced on the real Store (h_kv bigbatch)
SPECIFICATION MCSpec
CONSTANTS
  NS = 1
  NK = 1
  Vals = {1}
  MaxDepth = 1
  NR = 1
  NT = 1
  Writers = {1}
  ItThreads = {1}
  RdThreads = {}
  MapInit = 10
  UsedInit = 0
  Chunk = 10
  PutCost = 1
  TxnBeforeGate = FALSE
  NestedCloseClearsMark = FALSE
  ReadNotCounted = FALSE
  SqueezedFits = TRUE
  ReopenClampsMap = FALSE
  LiveSized = FALSE
  Page = 1
  PageBySkipCur = FALSE
  PageFreshSnap = FALSE
  BatchMax = 11
  MaxOps = 14
  WithReads = FALSE
  Stride = 1
  Offset = 0
VIEW View
INVARIANTS TypeOK NoMapFull
