SPECIFICATION Spec
CONSTANTS
  Libraries <- LibrariesT
  Rewards <- RewardsC
  MaxFamily = 5
  PrevOffset = 16384
INVARIANTS OperandsValid ShapesCovered CarelessKilled ShapeVerdicts AggregateFaithful DeaggregateRemainder PlanChecks BlockValid LibrariesNonDegenerate
