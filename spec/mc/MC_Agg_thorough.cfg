SPECIFICATION Spec
CONSTANTS
  Libraries <- LibrariesT
  Rewards <- RewardsC
  MaxFamily = 5
  PrevOffsets = {0, 16384}
  MaxFamilyOf <- MaxFamilyT
INVARIANTS OperandsValid ShapesCovered CancellationsCovered VariantsCovered CarelessKilled ShapeVerdicts AggregateFaithful DeaggregateRemainder PlanChecks HydrateIdentity HydrateViaPoolIdentity BlockValid LibrariesNonDegenerate
