SPECIFICATION MCSpecX
CONSTANTS
  MaxH <- MaxHFromEnv
  Stops <- StopsX
  Threshold = 20
  Interval = 10
  Horizon = 20
  CompactMin = 81
  ArchiveFrom = "body"
  CompactAligned = FALSE
  MaxSteps = 0
INVARIANTS ServedStateHeld
