\* C02 quick: trunk 3 + 2 blocks anywhere, 1-in-1-out spends of any commitment, every delivery order of 4 deliveries incl. reopen
SPECIFICATION MCSpec
CONSTANTS
  Trunk = 3
  MaxBlocks = 2
  Diffs = {1, 2}
  Pool <- Pool3
  PoolVal <- PoolVal3
  Maturity = 3
  Flags = {}
  MaxDeliveries = 4
  HeadersFirst = FALSE
  SimProfile = "mixed"
  TxShapes = "small"
VIEW View
INVARIANTS TypeOK HeadValidated HeadMaxWork BodiesValid UnspentIsReplay IndexConsistent NoDupUnspent EnumInv SpentIdxInv SumsInv MaturityLockInv OrphansRetried OnlyValidRemembered
PROPERTIES MCHeadMonotone MCRejectLeavesState
