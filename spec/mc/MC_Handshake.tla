--------------------------- MODULE MC_Handshake ---------------------------
EXTENDS Handshake, Json
\* Case generator: the two decision functions on every argument combination.
B == {TRUE, FALSE}
OverLens == {"1073741824", "4294967296", "4294967312", "9223372036854775807", "9223372036854775808", "18446744073709551615"}
G(same) == IF same THEN "g1" ELSE "g2"
AcceptCases ==
  {[role |-> "accept", lv |-> l, rv |-> r, same_genesis |-> sg, nonce_in_ring |-> nr, extra |-> x, over |-> "",
    expect |-> AcceptOutcome(l, "g1", IF nr THEN <<5, 7>> ELSE <<5>>,
                             [version |-> r, genesis |-> G(sg), nonce |-> 7, extra |-> x, over |-> ""])]
     : l \in Versions, r \in Versions, sg \in B, nr \in B, x \in {0}}
  \cup \* a Hand frame whose body is longer than the message (1 byte, up to the 4 x 128 limit)
  {[role |-> "accept", lv |-> 1000, rv |-> r, same_genesis |-> TRUE, nonce_in_ring |-> FALSE, extra |-> x, over |-> "",
    expect |-> AcceptOutcome(1000, "g1", <<5>>, [version |-> r, genesis |-> "g1", nonce |-> 7, extra |-> x, over |-> ""])]
     : r \in {1, 1000}, x \in {1, 300}}
  \cup \* a Hand header announcing more than the limit of its type (4 x 128), up to the end of the u64 range
  {[role |-> "accept", lv |-> 1000, rv |-> 1000, same_genesis |-> TRUE, nonce_in_ring |-> FALSE, extra |-> 0, over |-> w,
    expect |-> AcceptOutcome(1000, "g1", <<5>>, [version |-> 1000, genesis |-> "g1", nonce |-> 7, extra |-> 0, over |-> w])]
     : w \in {"513"} \cup OverLens}
InitiateCases ==
  {[role |-> "initiate", lv |-> l, rv |-> r, same_genesis |-> sg, nonce_in_ring |-> FALSE, extra |-> 0, over |-> "",
    expect |-> InitiateOutcome(l, "g1", [version |-> r, genesis |-> G(sg), nonce |-> 0, extra |-> 0, over |-> ""])]
     : l \in Versions, r \in Versions, sg \in B}
  \cup
  {[role |-> "initiate", lv |-> 1000, rv |-> r, same_genesis |-> TRUE, nonce_in_ring |-> FALSE, extra |-> x, over |-> "",
    expect |-> InitiateOutcome(1000, "g1", [version |-> r, genesis |-> "g1", nonce |-> 0, extra |-> x, over |-> ""])]
     : r \in {1, 1000}, x \in {1, 250}}
  \cup \* the same for the Shake (4 x 88)
  {[role |-> "initiate", lv |-> 1000, rv |-> 1000, same_genesis |-> TRUE, nonce_in_ring |-> FALSE, extra |-> 0, over |-> w,
    expect |-> InitiateOutcome(1000, "g1", [version |-> 1000, genesis |-> "g1", nonce |-> 0, extra |-> 0, over |-> w])]
     : w \in {"353"} \cup OverLens}
EmitInit == Init /\ ver = [n \in Nodes |-> 1000] /\ gen = [n \in Nodes |-> "g1"]
EmitSpec == EmitInit /\ [][FALSE]_vars
Emit == \A x \in AcceptCases \cup InitiateCases : PrintT(<<"HSCASE", ToJson(x)>>)
=========================================================================
