--------------------------- MODULE MC_Handshake ---------------------------
EXTENDS Handshake, Json
\* Case generator: the two decision functions on every argument combination.
B == {TRUE, FALSE}
G(same) == IF same THEN "g1" ELSE "g2"
AcceptCases ==
  {[role |-> "accept", lv |-> l, rv |-> r, same_genesis |-> sg, nonce_in_ring |-> nr,
    expect |-> AcceptOutcome(l, "g1", IF nr THEN <<5, 7>> ELSE <<5>>,
                             [version |-> r, genesis |-> G(sg), nonce |-> 7])]
     : l \in Versions, r \in Versions, sg \in B, nr \in B}
InitiateCases ==
  {[role |-> "initiate", lv |-> l, rv |-> r, same_genesis |-> sg, nonce_in_ring |-> FALSE,
    expect |-> InitiateOutcome(l, "g1", [version |-> r, genesis |-> G(sg), nonce |-> 0])]
     : l \in Versions, r \in Versions, sg \in B}
EmitInit == Init /\ ver = [n \in Nodes |-> 1000] /\ gen = [n \in Nodes |-> "g1"]
EmitSpec == EmitInit /\ [][FALSE]_vars
Emit == \A x \in AcceptCases \cup InitiateCases : PrintT(<<"HSCASE", ToJson(x)>>)
=========================================================================
