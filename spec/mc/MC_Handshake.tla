--------------------------- MODULE MC_Handshake ---------------------------
EXTENDS Handshake, Json
\* Case generator: the two decision functions on every argument combination.
B == {TRUE, FALSE}
G(same) == IF same THEN "g1" ELSE "g2"
AcceptCases ==
  {[role |-> "accept", lv |-> l, rv |-> r, same_genesis |-> sg, nonce_in_ring |-> nr, extra |-> x,
    expect |-> AcceptOutcome(l, "g1", IF nr THEN <<5, 7>> ELSE <<5>>,
                             [version |-> r, genesis |-> G(sg), nonce |-> 7, extra |-> x])]
     : l \in Versions, r \in Versions, sg \in B, nr \in B, x \in {0}}
  \cup \* a Hand frame whose body is longer than the message (1 byte, up to the 4 x 128 limit)
  {[role |-> "accept", lv |-> 1000, rv |-> r, same_genesis |-> TRUE, nonce_in_ring |-> FALSE, extra |-> x,
    expect |-> AcceptOutcome(1000, "g1", <<5>>, [version |-> r, genesis |-> "g1", nonce |-> 7, extra |-> x])]
     : r \in {1, 1000}, x \in {1, 300}}
InitiateCases ==
  {[role |-> "initiate", lv |-> l, rv |-> r, same_genesis |-> sg, nonce_in_ring |-> FALSE, extra |-> 0,
    expect |-> InitiateOutcome(l, "g1", [version |-> r, genesis |-> G(sg), nonce |-> 0, extra |-> 0])]
     : l \in Versions, r \in Versions, sg \in B}
  \cup
  {[role |-> "initiate", lv |-> 1000, rv |-> r, same_genesis |-> TRUE, nonce_in_ring |-> FALSE, extra |-> x,
    expect |-> InitiateOutcome(1000, "g1", [version |-> r, genesis |-> "g1", nonce |-> 0, extra |-> x])]
     : r \in {1, 1000}, x \in {1, 250}}
EmitInit == Init /\ ver = [n \in Nodes |-> 1000] /\ gen = [n \in Nodes |-> "g1"]
EmitSpec == EmitInit /\ [][FALSE]_vars
Emit == \A x \in AcceptCases \cup InitiateCases : PrintT(<<"HSCASE", ToJson(x)>>)
=========================================================================
