--------------------------- MODULE MC_Difficulty ---------------------------
(***************************************************************************)
(* Bounded enumeration of difficulty windows for Difficulty.tla (C04):      *)
(*  - checks MinOK / StepOK / VectorOK on every enumerated window           *)
(*  - direction A generator: one DCASE line per window with the spec's      *)
(*    result; the harness feeds the same window to the real                 *)
(*    consensus::next_difficulty under the same chain type.                 *)
(* A window is described by run-length segments, EARLIEST first:            *)
(*   seg = [n, dt, d, sec]: n entries, each dt seconds after its            *)
(*   predecessor (the very first entry has timestamp `base`), difficulty d, *)
(*   is_secondary sec; all entries carry secondary_scaling `scal`.          *)
(***************************************************************************)
EXTENDS Difficulty, TLC, Json

CONSTANTS Deltas, Diffs, Scals, Bases,   \* value sets
          ShortLens,                     \* lengths enumerated entry by entry (subset of 0..3)
          LongLens,                      \* lengths enumerated as two segments (around the full window)
          Splits,                        \* size of the recent segment in a two-segment window
          ShortPairs, LongPairs          \* {<<chain type, height>>} used for short / long windows

VARIABLE c
vars == <<c>>

Seg(n, dt, d, sec) == [n |-> n, dt |-> dt, d |-> d, sec |-> sec]

RECURSIVE SegTotal(_)
SegTotal(segs) == IF segs = <<>> THEN 0 ELSE segs[1].n + SegTotal(Tail(segs))

\* seconds from `base` to the j-th entry (earliest first), plus the first segment's dt
RECURSIVE Off(_, _)
Off(segs, j) == IF j <= segs[1].n THEN j * segs[1].dt
                ELSE segs[1].n * segs[1].dt + Off(Tail(segs), j - segs[1].n)
RECURSIVE SegAt(_, _)
SegAt(segs, j) == IF j <= segs[1].n THEN segs[1] ELSE SegAt(Tail(segs), j - segs[1].n)

\* the window, LATEST first
Expand(base, scal, segs) ==
  LET N == SegTotal(segs) IN
  [i \in 1..N |->
      LET j == N + 1 - i
          s == SegAt(segs, j)
      IN Entry(base + Off(segs, j) - segs[1].dt, s.d, scal, s.sec)]

EntrySegs == {Seg(1, dt, d, sec) : dt \in Deltas, d \in Diffs, sec \in BOOLEAN}

ShortSegs(n) ==
  IF n = 0 THEN {<<>>}
  ELSE IF n = 1 THEN {<<Seg(1, 0, d, sec)>> : d \in Diffs, sec \in BOOLEAN}
  ELSE IF n = 2 THEN {<<Seg(1, 0, s1.d, s1.sec), s2>> : s1 \in EntrySegs, s2 \in EntrySegs}
  ELSE {<<Seg(1, 0, s1.d, s1.sec), s2, s3>> : s1 \in EntrySegs, s2 \in EntrySegs, s3 \in EntrySegs}

LongSegs(n) ==
  {<<Seg(n - k, s1.dt, s1.d, s1.sec), Seg(k, s2.dt, s2.d, s2.sec)>> :
      k \in {x \in Splits : x < n}, s1 \in EntrySegs, s2 \in EntrySegs}

Group(kind, pr, b, sc) == [kind |-> kind, ct |-> pr[1], h |-> pr[2], base |-> b, scal |-> sc]
Groups == {Group("short", pr, b, sc) : pr \in ShortPairs, b \in Bases, sc \in Scals}
          \cup {Group("long", pr, b, sc) : pr \in LongPairs, b \in Bases, sc \in Scals}
SegsOf(g) == IF g.kind = "short" THEN UNION {ShortSegs(n) : n \in ShortLens}
             ELSE UNION {LongSegs(n) : n \in LongLens}
\* a case carries its expanded window and (when defined) the spec's result, computed once
Case(g, sg) ==
  LET w == Expand(g.base, g.scal, sg)
      p == ChainParams[g.ct]
      def == Defined(p, g.h, w)
  IN [kind |-> "case", ct |-> g.ct, h |-> g.h, base |-> g.base, scal |-> g.scal, segs |-> sg,
      w |-> w, def |-> def, r |-> IF def THEN NextDifficulty(p, g.h, w) ELSE [diff |-> 0, scal |-> 0]]

\* <<chain type, height>> pairs: around every fork height / ratio step of each schedule
QuickShortPairs == {<<"AutomatedTesting", 1>>, <<"AutomatedTesting", 3>>, <<"AutomatedTesting", 11>>,
                    <<"AutomatedTesting", 12>>, <<"AutomatedTesting", 13>>,
                    <<"UserTesting", 2>>, <<"UserTesting", 12>>,
                    <<"Testnet", 2>>, <<"Testnet", 642239>>, <<"Testnet", 642240>>,
                    <<"Mainnet", 1>>, <<"Mainnet", 11648>>, <<"Mainnet", 1048319>>, <<"Mainnet", 1048320>>}
QuickLongPairs  == {<<"AutomatedTesting", 11>>, <<"UserTesting", 5>>,
                    <<"Testnet", 61>>, <<"Testnet", 642239>>,
                    <<"Mainnet", 60>>, <<"Mainnet", 11648>>, <<"Mainnet", 262080>>, <<"Mainnet", 1048319>>}
ThoroughShortPairs == QuickShortPairs \cup
                   {<<"AutomatedTesting", 2>>, <<"AutomatedTesting", 40>>, <<"UserTesting", 11>>,
                    <<"Testnet", 185040>>, <<"Testnet", 700000>>, <<"Mainnet", 61>>, <<"Mainnet", 262079>>,
                    <<"Mainnet", 786240>>, <<"Mainnet", 1048321>>, <<"Mainnet", 2000000>>}
ThoroughLongPairs  == QuickLongPairs \cup
                   {<<"AutomatedTesting", 1>>, <<"AutomatedTesting", 12>>, <<"UserTesting", 11>>, <<"Testnet", 298080>>,
                    <<"Mainnet", 11647>>, <<"Mainnet", 524160>>, <<"Mainnet", 1000000>>, <<"Mainnet", 1048320>>}

\* three levels so that TLC's workers share the enumeration: root -> groups -> cases
Init == c = [kind |-> "root"]
Next == \/ c.kind = "root" /\ c' \in Groups
        \/ c.kind \in {"short", "long"} /\ \E sg \in SegsOf(c) : c' = Case(c, sg)
Spec == Init /\ [][Next]_vars

P(cc) == ChainParams[cc.ct]
IsCase == c.kind = "case"

\* The enumeration stays inside the 32-bit exactness range (else the model run is meaningless).
CasesInRange == IsCase /\ c.def => InRange(P(c), c.h, c.w)
RetargetMin  == IsCase /\ c.def => MinOK(P(c), c.h, c.w)
RetargetStep == IsCase /\ c.def => StepOK(P(c), c.h, c.w)
PaddingTotal == IsCase /\ Len(c.w) >= 1 => VectorOK(P(c), c.w)
Deterministic == IsCase /\ c.def => c.r = NextDifficulty(P(c), c.h, c.w)

RECURSIVE TsSum(_, _)
TsSum(w, i) == IF i > Len(w) THEN 0 ELSE (w[i].ts % 1000) + TsSum(w, i + 1)

Emit ==
  IsCase =>
  PrintT(<<"DCASE", ToJson([ct |-> c.ct, h |-> c.h, base |-> c.base, scal |-> c.scal, segs |-> c.segs,
                            n |-> Len(c.w), chk |-> TsSum(c.w, 1), def |-> c.def,
                            v |-> HeaderVersion(P(c), c.h), diff |-> c.r.diff, rscal |-> c.r.scal])>>)
=============================================================================
