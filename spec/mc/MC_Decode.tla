---------------------------- MODULE MC_Decode ----------------------------
(* Bounded model of the call protocol of Decode.tla.                       *)
(*  MC_Decode.cfg      Env = {ok, err}: the contract machine; TLC checks    *)
(*                     that the per-step obligations (out in {ok, err},     *)
(*                     each Read consumes >= 1 byte, consumption within the *)
(*                     input) imply the per-call summary the trace          *)
(*                     specification relies on: reads <= used <= len.       *)
(*  MC_Decode_bad.cfg  Env = all outcomes, Read(0) allowed: the monitor is  *)
(*                     not vacuous - TLC must find a violation.             *)
EXTENDS Decode
GoodEnv == GoodOutcomes
BadEnv == AllOutcomes
\* (the step index does not interact with the other variables: the first steps of a long catalogue suffice)
Bounded == reads <= 4 /\ pstep <= 4
==========================================================================
