SPECIFICATION Spec
CONSTANTS
  ChainParams <- GrinChainParams
  CT = "AutomatedTesting"
  FTL = 300
  MaxLen = 14
  StepDeltas = {1, 60, 7200}
  Prefix = 4
  Now = 1790000000
INVARIANTS HonestAccepted MutantsDecided HeaderRulesEquiv SkipPowDecided OptionsIrrelevant WireDecided ReadDecided ChainOK
