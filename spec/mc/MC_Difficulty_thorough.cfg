SPECIFICATION Spec
CONSTANTS
  ChainParams <- GrinChainParams
  Deltas = {1, 30, 60, 120, 7200}
  Diffs = {3, 140000}
  Scals = {13, 1856}
  Bases = {5, 1600000000}
  ShortLens = {0, 1, 2, 3}
  LongLens = {59, 60, 61, 62}
  Splits = {1, 30, 58}
  ShortPairs <- ThoroughShortPairs
  LongPairs <- ThoroughLongPairs
INVARIANTS CasesInRange RetargetMin RetargetStep PaddingTotal Emit
