\* behaviours for direction A, exhaustive to depth MaxSteps (history hidden by VIEW): one per distinct state at that depth
SPECIFICATION MCSpecRec
CONSTANTS
  Atoms <- AtomsTiny
  Subs <- SubsTiny
  Utxo0 = {1, 2, 3, 4}
  BlockSet <- BlockChoices
  AggSecs = 1
  EmbargoSecs = 2
  Jitter = 0
  EpochSecs = 2
  Ticks = {1, 2}
  MaxTxWeight = 226
  MaxBlockWeight = 250
  Peers = {1}
  AlwaysStemOurs = TRUE
  MaxBlocks = 1
  MaxSteps = 6
  AtomicMonitor = TRUE
  Churn = TRUE
  Restem = TRUE
  AnnounceStem = FALSE
  ExpireInStemEpoch = TRUE
  FluffAll = TRUE
  DropOnFluffError = FALSE
  MaxBlockTxs = 1
  SimProfile = "mixed"
VIEW View
INVARIANTS Emit
