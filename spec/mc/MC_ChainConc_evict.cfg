SPECIFICATION CSpec
CONSTANTS
  Trunk = 3
  MaxBlocks = 4
  Diffs = {1, 2}
  Pool <- PoolC
  PoolVal <- PoolValC
  Maturity = 3
  Flags = {}
  MaxDeliveries = 0
  HeadersFirst = FALSE
  TxShapes = "small"
  TreeIn <- TreeE
  Threads <- ThreadsA
  MaxOrphans = 2
  Prog <- ProgE
INVARIANTS ConcSafe HeadStored PoolBounded FinalSequential
PROPERTIES ConcHeadMonotone
