SPECIFICATION SSpec
CONSTANTS
  MaxBlocks = 12
  Minted = 7
  BatchPlanChoices <- ThoroughBatchPlans
  LargePlanChoices <- ThoroughLargePlans
INVARIANTS AllStateChecks FamiliesKill EmitState
