SPECIFICATION MCSpec
CONSTANTS
  MaxLeaves = 5
  WithSubtrees = FALSE
  MaxSteps = 40
  Mut = "rewind"
  FullRewindSets = FALSE
VIEW ViewNoLen
INVARIANT Refinement
CHECK_DEADLOCK FALSE
