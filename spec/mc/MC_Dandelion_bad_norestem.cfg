\* careless variant: the stempool is not re-validated when a tx enters the public pool; must violate S1_StemValid
SPECIFICATION MCSpec
CONSTANTS
  Atoms <- AtomsTiny
  Subs <- SubsTiny
  Utxo0 = {1, 2, 3, 4}
  BlockSet <- BlockChoices
  AggSecs = 1
  EmbargoSecs = 2
  Jitter = 1
  EpochSecs = 2
  Ticks = {1, 2}
  MaxTxWeight = 226
  MaxBlockWeight = 250
  Peers = {1}
  AlwaysStemOurs = TRUE
  MaxBlocks = 0
  MaxSteps = 0
  AtomicMonitor = TRUE
  Churn = FALSE
  Restem = FALSE
  AnnounceStem = FALSE
  ExpireInStemEpoch = TRUE
  FluffAll = TRUE
  DropOnFluffError = FALSE
  MaxBlockTxs = 1
  SimProfile = "mixed"
VIEW View
INVARIANTS S1_StemValid
