------------------------------ MODULE MC_Agg ------------------------------
EXTENDS Agg, Json
\* Libraries of valid transactions over <= 8 commitments each (L7: 16).  Blinding scalars are distinct
\* powers of two and offsets multiples of 256 (or zero) so that no sum of COMMITMENTS the code forms is
\* the point at infinity (LibrariesNonDegenerate); values balance by construction (OperandsValid).
\* Offsets may cancel (L7): the zero offset is a value like any other.
In(v, r) == [v |-> v, r |-> r]
Out(v, r) == [v |-> v, r |-> r, cb |-> FALSE, pf |-> TRUE]
K(kind, fee, x, sid) == TB!MkKernel(kind, fee, x, sid)
\* a transaction with the excess(es) derived from the blinding scalars: x = sum r_out - sum r_in - off
Tx1(ins, outs, kind, fee, off, sid) ==
  [ins |-> ins, outs |-> outs, off |-> off,
   kerns |-> <<K(kind, fee, TB!Sum(outs, TB!R) - TB!Sum(ins, TB!R) - off, sid)>>]
Tx2(ins, outs, kind1, fee1, x1, kind2, fee2, off, sid) ==
  [ins |-> ins, outs |-> outs, off |-> off,
   kerns |-> <<K(kind1, fee1, x1, sid), K(kind2, fee2, TB!Sum(outs, TB!R) - TB!Sum(ins, TB!R) - off - x1, sid + 1)>>]

\* L1: chain of three A -> B -> C, fan-out D (two kernels), join E (spends outputs of C and D),
\* F (no outputs), and two conflicting transactions: G double-spends A's input and re-creates an
\* output of D; H double-spends D's input and re-creates B's output.
c1 == In(6, 1)   c2 == In(5, 2)   c3 == In(4, 4)   c4 == In(3, 8)
c5 == In(6, 16)  c6 == In(2, 32)  c7 == In(2, 64)  c8 == In(3, 128)
O(c) == Out(c.v, c.r)
L1 == <<
  Tx1(<<c1>>, <<O(c2)>>, "plain", 1, 0, 1),                              \* A
  Tx1(<<c2>>, <<O(c3)>>, "hl", 1, 512, 2),                               \* B spends A
  Tx1(<<c3>>, <<O(c4)>>, "nrd", 1, 256, 3),                              \* C spends B
  Tx2(<<c5>>, <<O(c6), O(c7)>>, "plain", 1, 1, "hl", 1, 0 - 4096, 4),    \* D
  Tx1(<<c4, c6>>, <<O(c8)>>, "plain", 2, 0, 6),                          \* E joins C and D
  Tx1(<<c7>>, <<>>, "nrd", 2, 1024, 7),                                  \* F spends D, no outputs
  Tx1(<<c1>>, <<O(c6)>>, "plain", 4, 2048, 8),                           \* G conflicts with A and D
  Tx1(<<c5>>, <<O(c3)>>, "hl", 2, 0, 9) >>                               \* H conflicts with D and B

\* L2: two-in two-out diamond P -> Q -> {R, S} -> T (a zero-value output at the end)
d1 == In(7, 1)  d2 == In(3, 2)  d3 == In(3, 4)  d4 == In(2, 8)
d5 == In(2, 16) d6 == In(1, 32) d7 == In(1, 64) d8 == In(0, 128)
L2 == <<
  Tx1(<<d1>>, <<O(d2), O(d3)>>, "plain", 1, 256, 11),                    \* P
  Tx2(<<d2, d3>>, <<O(d4), O(d5)>>, "hl", 1, 3, "nrd", 1, 0 - 4096, 12), \* Q spends both outputs of P
  Tx1(<<d4>>, <<O(d6)>>, "plain", 1, 0, 14),                             \* R
  Tx1(<<d5>>, <<O(d7)>>, "hl", 1, 512, 15),                              \* S
  Tx1(<<d6, d7>>, <<O(d8)>>, "nrd", 2, 1024, 16) >>                      \* T joins R and S

\* L3 (thorough): a chain of four U -> V -> X -> Z, a second path U -> W -> X, W -> Y; W takes an
\* outside input next to an output of U and has two kernels; Y and Z have no outputs.
e1 == In(9, 1)  e2 == In(4, 2)  e3 == In(4, 4)  e4 == In(3, 8)
e5 == In(5, 16) e6 == In(2, 32) e7 == In(5, 64) e8 == In(1, 128)
L3 == <<
  Tx1(<<e1>>, <<O(e2), O(e3)>>, "plain", 1, 0, 21),                      \* U
  Tx1(<<e2>>, <<O(e4)>>, "hl", 1, 256, 22),                              \* V
  Tx2(<<e3, e5>>, <<O(e7), O(e6)>>, "nrd", 1, 5, "plain", 1, 2048, 23),  \* W
  Tx1(<<e4, e6>>, <<O(e8)>>, "nrd", 4, 512, 25),                         \* X
  Tx1(<<e7>>, <<>>, "plain", 5, 0 - 4096, 26),                           \* Y
  Tx1(<<e8>>, <<>>, "hl", 1, 1024, 27) >>                                \* Z

\* L4: one hot commitment X with three creators (a, c, e) and three spenders (b, d, f), and a chain
\* link Y between b and c.  a : U -> X, b : X -> Y, c : Y, V -> X is the re-creation of a spent
\* commitment; the sub-families of L4 show every shape of ShapeOf: chain {a,b}, loop {b,c} (nothing
\* but V remains), recreate {a,b,c} {a,b,e}, respend {a,b,d}, cycle {a,b,c,d} {a,e,b,d}, dup_output
\* {a,c} {a,e} {a,c,e}, double_spend {b,d} {b,d,f}, dup_output_after_cut {a,c,e,b},
\* double_spend_after_cut {a,b,d,f}, and with five transactions recreate_n / respend_n.
fU == In(5, 1)   fX == In(4, 2)   fY == In(3, 4)   fV == In(2, 8)
fZ == In(3, 16)  fW == In(7, 32)  fS == In(1, 64)  fT == In(2, 128)
L4 == <<
  Tx1(<<fU>>, <<O(fX)>>, "plain", 1, 0, 31),                             \* a creates X
  Tx1(<<fX>>, <<O(fY)>>, "hl", 1, 256, 32),                              \* b spends X
  Tx1(<<fY, fV>>, <<O(fX)>>, "nrd", 1, 512, 33),                         \* c spends b's output, re-creates X
  Tx1(<<fX>>, <<O(fZ)>>, "plain", 1, 1024, 34),                          \* d spends X (again)
  Tx2(<<fW>>, <<O(fX), O(fS)>>, "plain", 1, 7, "hl", 1, 2048, 35),       \* e creates X too (two kernels)
  Tx1(<<fX>>, <<O(fT)>>, "hl", 2, 0 - 4096, 37) >>                       \* f spends X too

\* L5: two hot commitments at once: p : U -> X, Y; q : X -> Z; r : Y -> Z2; s : Z, W -> X re-creates
\* X; t : Z2, W2 -> Y re-creates Y.
gU == In(9, 1)   gX == In(4, 2)   gY == In(4, 4)   gZ == In(3, 8)
gZ2 == In(3, 16) gW == In(2, 32)  gW2 == In(3, 64)
L5 == <<
  Tx1(<<gU>>, <<O(gX), O(gY)>>, "plain", 1, 256, 41),                    \* p
  Tx1(<<gX>>, <<O(gZ)>>, "nrd", 1, 0, 42),                               \* q
  Tx1(<<gY>>, <<O(gZ2)>>, "hl", 1, 512, 43),                             \* r
  Tx1(<<gZ, gW>>, <<O(gX)>>, "plain", 1, 0 - 4096, 44),                  \* s
  Tx1(<<gZ2, gW2>>, <<O(gY)>>, "hl", 2, 1024, 45) >>                     \* t

\* L6: a, b, c, d of L4 where c re-creates X with ANOTHER valid range proof than a's (pv = 1)
OutPv(c, pv) == [v |-> c.v, r |-> c.r, cb |-> FALSE, pf |-> TRUE, pv |-> pv]
L6 == <<
  Tx1(<<fU>>, <<OutPv(fX, 0)>>, "plain", 1, 0, 31),
  Tx1(<<fX>>, <<OutPv(fY, 0)>>, "hl", 1, 256, 32),
  Tx1(<<fY, fV>>, <<OutPv(fX, 1)>>, "nrd", 1, 512, 33),
  Tx1(<<fX>>, <<OutPv(fZ, 0)>>, "plain", 1, 1024, 34) >>

\* L7: seven independent transactions whose offsets cancel in every way: a and b carry o and -o (pair),
\* b, c, d sum to zero (triple), e is a bystander with another offset (a group that cancels inside a
\* family whose total does not: [[a, b], e] meets the zero sum on the way), g carries
\* minus the previous header's total (the header total of the block of {g} is zero) and h brings
\* {a, d, h} to it as well.  De-aggregating e from {a, b, e} leaves a remainder whose offset is zero,
\* de-aggregating {a, b} from it has a known subset whose offset is zero.
PrevC == 16384
h(n) == In(2, n)
L7 == <<
  Tx1(<<h(1)>>,   <<O(In(1, 2))>>,    "plain", 1, 768, 51),                 \* a   o
  Tx1(<<h(4)>>,   <<O(In(1, 8))>>,    "hl",    1, 0 - 768, 52),             \* b  -o
  Tx1(<<h(16)>>,  <<O(In(1, 32))>>,   "nrd",   1, 256, 53),                 \* c   b + c + d = 0
  Tx1(<<h(64)>>,  <<O(In(1, 128))>>,  "plain", 1, 512, 54),                 \* d
  Tx2(<<h(256)>>, <<O(In(0, 512))>>,  "plain", 1, 7, "hl", 1, 1024, 55),    \* e   (two kernels)
  Tx1(<<h(4096)>>, <<O(In(1, 32768))>>, "hl",  1, 0 - PrevC, 58),           \* g  -prev
  Tx1(<<h(65536)>>, <<O(In(1, 131072))>>, "plain", 1, 0 - PrevC - 1280, 59) >>   \* h   a + d + h = -prev

\* the representation of the inputs each library transaction is realised in: CommitOnly, FeaturesAndCommit
\* with plain features, FeaturesAndCommit claiming coinbase features (the aggregate never shows it)
IvOf(l, i) == <<"co", "fc", "fcb">>[1 + ((l + i) % 3)]
WithIv(L, l) == [i \in 1..Len(L) |-> [ins |-> L[i].ins, outs |-> L[i].outs, off |-> L[i].off, kerns |-> L[i].kerns, iv |-> IvOf(l, i)]]
\* quick tier: families of L7 hold at most three transactions (every form of cancelling offsets shows with three)
MaxFamilyQ(l) == IF l = 7 THEN 3 ELSE MaxFamily
MaxFamilyT(l) == IF l = 7 THEN 4 ELSE MaxFamily
LibrariesC == <<L1, L2>>
LibrariesT == <<WithIv(L1, 1), WithIv(L2, 2), WithIv(L3, 3), WithIv(L4, 4), WithIv(L5, 5), WithIv(L6, 6), WithIv(L7, 7)>>
\* the shapes the libraries must exhibit with families of <= 4 (vacuity guard)
WantedShapes == {"once", "chain", "recreate", "respend", "cycle", "dup_output", "double_spend",
                 "dup_output_after_cut", "double_spend_after_cut"}
ShapesCovered == phase = "root" => WantedShapes \subseteq UNION {ShapesOfLibrary(l) : l \in 1..Len(Libraries)}
RewardsC == << [out |-> [v |-> 0, r |-> 8192, cb |-> TRUE, pf |-> TRUE], kern |-> K("cb", 0, 8192, 90)],
               [out |-> [v |-> 0, r |-> 8192, cb |-> TRUE, pf |-> TRUE], kern |-> K("cb", 0, 8192, 91)],
               [out |-> [v |-> 0, r |-> 8192, cb |-> TRUE, pf |-> TRUE], kern |-> K("cb", 0, 8192, 92)],
               [out |-> [v |-> 0, r |-> 8192, cb |-> TRUE, pf |-> TRUE], kern |-> K("cb", 0, 8192, 93)],
               [out |-> [v |-> 0, r |-> 8192, cb |-> TRUE, pf |-> TRUE], kern |-> K("cb", 0, 8192, 94)],
               [out |-> [v |-> 0, r |-> 8192, cb |-> TRUE, pf |-> TRUE], kern |-> K("cb", 0, 8192, 95)],
               [out |-> [v |-> 0, r |-> 8192, cb |-> TRUE, pf |-> TRUE], kern |-> K("cb", 0, 8192, 96)] >>

\* ---- direction A: one case per family with every plan and every de-aggregation
RECURSIVE PlanJson(_)
PlanJson(p) == IF IsLeaf(p) THEN p.t ELSE [i \in 1..Len(p.g) |-> PlanJson(p.g[i])]
Proj(t) == IF IsErr(t) THEN [err |-> TRUE]
           ELSE [err |-> FALSE, ins |-> t.ins, outs |-> t.outs, kerns |-> [i \in 1..Len(t.kerns) |-> t.kerns[i].sid], off |-> t.off]
\* per plan: does it exist, do its parts exist, and - for the route through the pool - which part the
\* lacking pool lacks and what retrieve_transactions then reports (kernels by sid)
PlanRec(p, i, cb) ==
  LET parts == Parts(p, Txs)
      pok == \A j \in 1..Len(parts) : ~IsErr(parts[j])
      e == IF IsLeaf(p) THEN parts[1] ELSE Aggregate(parts)
  IN  [ok |-> ~IsErr(e), parts_ok |-> pok,
       pool |-> IF pok /\ Len(parts) >= 1 /\ ~IsErr(cb)
                THEN [parts |-> [n \in 1..Len(parts) |-> Sids(parts[n].kerns)]]
                ELSE [none |-> TRUE]]
Case ==
  LET n == Len(fam)
      ps == SetToSeq(Plans(n))
      ag == Aggregable(Txs)
      hot == SetToSeq({x \in Touched(Txs) : NIn(Txs, x) + NOut(Txs, x) >= 2})
      subsets == IF Independent(Txs) /\ n >= 2 THEN SetToSeq({S \in SUBSET (1..n) : S # {} /\ S # 1..n}) ELSE <<>>
      prevs == SetToSortSeq(PrevOffsets, LT)
      b0 == BlockOf(Txs, Rewards[lib], Prev0)
      recs == [i \in 1..Len(ps) |-> PlanRec(ps[i], i, IF ag THEN Compact(b0) ELSE Err)]
  IN  [lib |-> lib, fam |-> fam, txs |-> Txs, conflict_free |-> ConflictFree(Txs), independent |-> Independent(Txs),
       aggregable |-> ag, nondegenerate |-> NonDegenerate(Txs), proof_variants |-> ProofVariants(Txs),
       cancel |-> SetToSeq(CancelForms(Txs)),
       shapes |-> SetToSeq(Shapes(Txs)),
       hot |-> [i \in 1..Len(hot) |-> [c |-> hot[i], o |-> NOut(Txs, hot[i]), i |-> NIn(Txs, hot[i]),
                                      shape |-> ShapeOf(NOut(Txs, hot[i]), NIn(Txs, hot[i]))]],
       plans |-> [i \in 1..Len(ps) |-> PlanJson(ps[i])],
       \* every plan is refused or yields `expect` (OrderGroupingIndependent)
       plan_ok |-> [i \in 1..Len(ps) |-> recs[i].ok],
       parts_ok |-> [i \in 1..Len(ps) |-> recs[i].parts_ok],
       expect |-> Proj(All),
       deaggs |-> [i \in 1..Len(subsets) |->
                     [sub |-> SetToSortSeq(subsets[i], LT),
                      expect |-> Proj(Aggregate(Sub(Txs, (1..n) \ subsets[i])))]],
       \* one block per previous offset (the first one, on top of the largest, is the one hydrated through the pool)
       bystanders |-> Bystanders,
       via_pool |-> [i \in 1..Len(ps) |-> recs[i].pool],
       blocks |-> IF ag THEN [k \in 1..Len(prevs) |->
                                LET prev == prevs[Len(prevs) + 1 - k]
                                    b == BlockOf(Txs, Rewards[lib], prev)
                                IN  [cb_out |-> b.body.outs[Len(b.body.outs)], cb_kern |-> Rewards[lib].kern,
                                     prev |-> prev, total |-> b.total, height |-> BlockHeight,
                                     expect |-> Proj(b.body)]]
                  ELSE <<>>]
NoPlans == phase # "plan"
NoPlanChoices(n) == {}
Emit == AtFamily => PrintT(<<"AGGCASE", ToJson(Case)>>)
===========================================================================
