\* careless variant: fee / kernel tests applied to the submitted aggregate instead of the deaggregated remainder; must violate NoUnderpaid
SPECIFICATION MCSpecRec
CONSTANTS
  Atoms <- AtomsSmall
  Subs <- SubsSmall
  DupCommits <- DupSmall
  DupCreators <- DupCreatorsSmall
  DupSpenders <- DupSpendersSmall
  Trunk = 5
  Maturity = 3
  MaxPool = 1
  MaxStem = 2
  FeeBase = 1000
  MaxTxWeight = 226
  MaxBlockWeight = 250
  MineWeight = 120
  FeeFirst = TRUE
  TimedAlways = TRUE
  StemRecheck = "always"
  FeeOnRemainder = FALSE
  EvictMode = "nodeps"
  ReconcileMature = TRUE
  NrdEnabled = FALSE
  NrdHeight = 9
  ShortReorg = FALSE
  MaxBlocks = 2
  MaxSteps = 3
  MaxBlockTxs = 1
  MaxReorgDepth = 0
  SimProfile = "mixed"
VIEW View
INVARIANTS EmitNoUnderpaid
