--------------------------- MODULE MC_PMMRStoreGen ---------------------------
(* Bounded configurations of PMMRStore and the direction-A generator.       *)
(* `hist` records the actions with their protocol arguments and, after      *)
(* every action, the reference the store must be observationally equal to   *)
(* (lv = data of every leaf, rm = removed leaves as 0-based insertion       *)
(* indices).  Root and proof-path terms depend on the leaves only; they are *)
(* printed once per leaf count as SHAPE lines (MMR.tla's construction with  *)
(* the insertion index in the leaf terms) and the harness puts lv[idx] in.  *)
EXTENDS PMMRStore, TLC, Json, SequencesExt, Randomization

CONSTANTS FinishUnits,   \* Finish (emit the behaviour) is allowed once this many units were begun
          MaxLen,        \* no new unit / compaction / reopen once the history is this long
          RemoveFanout   \* 0: any live leaf may be removed; k > 0: k random candidates (simulation weight)

VARIABLES hist, fin
mcvars == <<vars, hist, fin>>

Sorted(S) == SetToSortSeq(S, LAMBDA x, y : x < y)

Shape(n) == LET f == ForestOf(n) IN
  [n |-> n, size |-> M!Size(f), root |-> M!RootTerm(f), lp |-> f.lp,
   proofs |-> [i \in 1..n |-> M!ProofPathD(f, f.lp[i])]]
ASSUME \A n \in 0..MaxLeaves : PrintT(<<"SHAPE", ToJson(Shape(n))>>)

Step(k, a) == /\ hist' = Append(hist, [k |-> k, a |-> a, lv |-> Cur'.leaves,
                                       rm |-> Sorted({i - 1 : i \in Cur'.removed})])
              /\ UNCHANGED fin

RewindSteps(b) ==
  IF b = Len(bnd) THEN <<[size |-> BSize(b), rm |-> <<>>]>>
  ELSE [j \in 1..(Len(bnd) - b) |-> LET k == Len(bnd) - j IN [size |-> BSize(k), rm |-> Sorted(StepRm(k))]]

Short == Len(hist) < MaxLen

MCInit == Init /\ hist = <<>> /\ fin = FALSE

RemoveCand == IF RemoveFanout = 0 \/ Cardinality(Live(work)) <= RemoveFanout THEN Live(work)
              ELSE RandomSubset(RemoveFanout, Live(work))

Finish == /\ phase = "idle" /\ cnt.units >= FinishUnits
          /\ fin' = TRUE /\ UNCHANGED <<vars, hist>>

MCNext ==
  /\ ~fin
  /\ \/ Short /\ Begin /\ Step("Begin", [unit |-> cnt'.units])
     \/ \E b \in 1..Len(bnd) : Rewind(b) /\ Step("Rewind", [b |-> b, size |-> BSize(b), rm |-> Sorted(RewindRm(b)),
                                                         steps |-> RewindSteps(b)])
     \/ AppendLeaf(NewData) /\ Step("Append", [d |-> NewData])
     \/ \E i \in RemoveCand : Remove(i) /\ Step("Remove", [i |-> i - 1, pos |-> LeafPos0(i)])
     \/ Commit /\ Step("Commit", [nb |-> Len(bnd')])
     \/ Discard /\ Step("Discard", [nb |-> Len(bnd)])
     \/ \E b \in 1..Len(bnd) : Short /\ Compact(b) /\ Step("Compact", [b |-> b, size |-> BSize(b), rm |-> Sorted(CompactRm(b))])
     \/ Short /\ Reopen /\ Step("Reopen", [n |-> cnt.units])
     \/ Finish

MCSpec == MCInit /\ [][MCNext]_mcvars

View == <<vars, fin>>

Emit == fin => PrintT(<<"BEH", ToJson(hist)>>)
===========================================================================
