--------------------------- MODULE MC_PMMRStoreGen ---------------------------
(* Bounded configurations of PMMRStore and the direction-A generator.       *)
(* `hist` records the actions with their protocol arguments and, after      *)
(* every action, the reference the store must be observationally equal to   *)
(* (lv = data of every leaf, rm = removed leaves as 0-based insertion       *)
(* indices).  Root and proof-path terms depend on the leaves only; they are *)
(* printed once per leaf count as SHAPE lines (MMR.tla's construction with  *)
(* the insertion index in the leaf terms) and the harness puts lv[idx] in.  *)
EXTENDS PMMRStore, TLC, Json, SequencesExt, Randomization

CONSTANTS FinishUnits,   \* Finish (emit the behaviour) is allowed once this many units were begun
          MaxLen,        \* no new unit / compaction / reopen once the history is this long
          SampleK,       \* emit one finished behaviour in SampleK (1 = all)
          FinishLen,     \* ... and the history has at least this many steps
          RemoveFanout   \* 0: any live leaf may be removed; k > 0: k random candidates (simulation weight)

VARIABLES hist, fin,
          tag    \* per finished unit: how it ended (kept in the VIEW so that discarded units and no-op
                 \* rewinds, which are invisible in the reference, still get their own behaviours)
mcvars == <<vars, hist, fin, tag>>

Sorted(S) == SetToSortSeq(S, LAMBDA x, y : x < y)

Shape(n) == LET f == ForestOf(n) IN
  [n |-> n, size |-> M!Size(f), root |-> M!RootTerm(f), lp |-> f.lp,
   proofs |-> [i \in 1..n |-> M!ProofPathD(f, f.lp[i])]]
ASSUME \A n \in 0..MaxLeaves : PrintT(<<"SHAPE", ToJson(Shape(n))>>)

Step(k, a) == /\ hist' = Append(hist, [k |-> k, a |-> a, lv |-> Cur'.leaves,
                                       rm |-> Sorted({i - 1 : i \in Cur'.removed})])
              /\ UNCHANGED fin
              /\ tag' = IF k = "Commit" THEN Append(tag, <<"C", IF cnt.rew = 1 THEN wb ELSE 0>>)
                        ELSE IF k = "Discard" THEN Append(tag, <<"D", IF cnt.rew = 1 THEN wb ELSE 0, NL(work), Cardinality(work.removed)>>)
                        ELSE tag

RewindSteps(b) ==
  IF b = Len(bnd) THEN <<[size |-> BSize(b), rm |-> <<>>]>>
  ELSE [j \in 1..(Len(bnd) - b) |-> LET k == Len(bnd) - j IN [size |-> BSize(k), rm |-> Sorted(StepRm(k))]]

Short == Len(hist) < MaxLen
\* simulation weights: with RemoveFanout > 0 (simulation configs) some actions are offered only now and then
Sim == RemoveFanout > 0
Coin(n) == ~Sim \/ RandomElement(1..n) = 1

MCInit == Init /\ hist = <<>> /\ fin = FALSE /\ tag = <<>>

RemoveCand == IF RemoveFanout = 0 \/ Cardinality(Live(work)) <= RemoveFanout THEN Live(work)
              ELSE RandomSubset(RemoveFanout, Live(work))

Finish == /\ phase = "idle" /\ cnt.units >= FinishUnits /\ Len(hist) >= FinishLen /\ (Coin(3) \/ ~Short \/ cnt.units >= MaxUnits)
          /\ fin' = TRUE /\ UNCHANGED <<vars, hist, tag>>

MCNext ==
  /\ ~fin
  /\ \/ Short /\ Begin /\ Step("Begin", [unit |-> cnt'.units])
     \/ \E b \in 1..Len(bnd) : Coin(3) /\ Rewind(b) /\ Step("Rewind", [b |-> b, size |-> BSize(b), rm |-> Sorted(RewindRm(b)),
                                                         steps |-> RewindSteps(b)])
     \/ AppendLeaf(NewData) /\ Step("Append", [d |-> NewData])
     \/ \E i \in RemoveCand : Remove(i) /\ Step("Remove", [i |-> i - 1, pos |-> LeafPos0(i)])
     \/ (Coin(5) \/ cnt.apps >= MaxAppends \/ cnt.rems >= MaxRemoves) /\ Commit /\ Step("Commit", [nb |-> Len(bnd')])
     \/ Coin(20) /\ Discard /\ Step("Discard", [nb |-> Len(bnd)])
     \/ \E b \in 1..Len(bnd) : Short /\ Coin(5) /\ Compact(b) /\ Step("Compact", [b |-> b, size |-> BSize(b), rm |-> Sorted(CompactRm(b))])
     \/ Short /\ Coin(4) /\ Reopen /\ Step("Reopen", [n |-> cnt.units])
     \/ Finish

MCSpec == MCInit /\ [][MCNext]_mcvars

View == <<vars, fin, tag>>

Emit == (fin /\ (SampleK = 1 \/ RandomElement(1..SampleK) = 1)) => PrintT(<<"BEH", ToJson(hist)>>)
===========================================================================
