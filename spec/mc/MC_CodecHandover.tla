------------------------- MODULE MC_CodecHandover -------------------------
(* Bounded instance of CodecHandover.tla and the plan generator (direction A): every plan is     *)
(* replayed on the real Handshake::initiate / accept followed by the real Codec on the same      *)
(* socket (h_codec handover).                                                                    *)
EXTENDS CodecHandover, Json

PingF == FrameRec("fixed", 3, 16, 16, 0, 0)
CapsF == FrameRec("fixed", 5, 4, 4, 0, 0)
Headers1 == FrameRec("headers", 9, 2 + 257, 0, 1, 1)
UnkF == FrameRec("unknown", 250, 40, 0, 0, 0)
Follows == {<<>>, <<PingF>>, <<PingF, CapsF>>, <<Headers1, PingF>>, <<UnkF, PingF>>, <<CapsF, PingF, PingF>>}

Places == {"h5", "hdr", "mid", "last", "end"}
\* candidate cuts: everywhere in the handshake message and in the frame behind it, the edges of the next
Cut(i, a) == [f |-> i, at |-> a, k |-> 0]
Cands(fo) == {Cut(0, a) : a \in Places}
               \cup (IF Len(fo) >= 1 THEN {Cut(1, a) : a \in Places} ELSE {})
               \cup (IF Len(fo) >= 2 THEN {Cut(2, a) : a \in {"h5", "end"}} ELSE {})
\* cut lists: none (ONE write), one, two (in stream order)
CutLists(fo) == {<<>>} \cup {<<c>> : c \in Cands(fo)}
                  \cup {<<c, d>> : c \in Cands(fo), d \in Cands(fo)}
Ordered(p) == /\ \A j \in 1..Len(p.cuts) : Off(p, p.cuts[j]) > 0 /\ Off(p, p.cuts[j]) < TotalOf(p)
              /\ \A j \in 1..Len(p.cuts) - 1 : Off(p, p.cuts[j]) < Off(p, p.cuts[j + 1])
SetPlans == {p \in {[role |-> r, follow |-> fo, cuts |-> cs] :
                      r \in {"initiate", "accept"}, fo \in Follows, cs \in UNION {CutLists(f2) : f2 \in Follows}} :
               /\ p.cuts \in CutLists(p.follow) /\ Ordered(p)}
\* every split point of the handshake message itself (header AND body), the rest in the same write
\* as the tail of the message or alone
SweepPlans == {[role |-> r, follow |-> fo, cuts |-> <<[f |-> 0, at |-> "b", k |-> s]>>] :
                 r \in {"initiate", "accept"}, fo \in {<<PingF>>}, s \in 1..(HDR + HSBODY - 1)}
              \cup {[role |-> r, follow |-> <<PingF>>, cuts |-> <<[f |-> 0, at |-> "b", k |-> s], Cut(0, "end")>>] :
                 r \in {"initiate", "accept"}, s \in {HDR + 1, HDR + HSBODY \div 2, HDR + HSBODY - 1}}
AllPlans == SetPlans \cup SweepPlans
\* probe (Buffered = TRUE): HandoverExact must FAIL on the one-write plan
ProbePlans == {[role |-> "initiate", follow |-> <<PingF>>, cuts |-> <<>>]}

RECURSIVE StartsRel(_, _, _)
StartsRel(fo, i, acc) == IF i > Len(fo) THEN <<>> ELSE <<acc>> \o StartsRel(fo, i + 1, acc + HDR + fo[i].body)
Case(p) == [role |-> p.role, cuts |-> p.cuts, coalesced |-> Coalesced(p),
            frames |-> p.follow, expect |-> [i \in 1..Len(p.follow) |-> ExpectOf(p.follow[i], i)],
            classes |-> [i \in 1..Len(p.follow) |-> ClassOf(p.follow[i])],
            starts |-> StartsRel(p.follow, 1, 0), total |-> TotalOf(p) - HsEnd, silent |-> {},
            hs_model_size |-> HsEnd,
            model_offsets |-> [j \in 1..Len(p.cuts) |-> Off(p, p.cuts[j])]]
EmitSpec == Init /\ [][FALSE]_vars
Emit == PrintT(<<"HANDOVER", ToJson(Case(plan))>>)
===========================================================================
