SPECIFICATION Spec
CONSTANTS
  ModelDecoders = {"Ping::read", "msg::read_message<Hand>", "Codec::read", "SegmentRequest::read", "BitmapSegment::read"}
  ModelLens = {0, 1, 12}
  Env <- GoodEnv
CONSTRAINT Bounded
INVARIANTS OutcomeOK ConsumedOK AllocBounded Progress InCallOK StepKnown FrameLimitOK ServeBounded
