SPECIFICATION Spec
CONSTANTS
  ModelDecoders = {"Ping::read", "TxKernel::read", "msg::read_message<Hand>"}
  ModelLens = {0, 1, 4}
  Env <- GoodEnv
CONSTRAINT Bounded
INVARIANTS OutcomeOK ConsumedOK AllocBounded Progress InCallOK StepKnown
