SPECIFICATION Spec
CONSTANTS
  ModelDecoders = {"Ping::read", "TxKernel::read", "msg::read_message<Hand>", "Codec::read", "BitmapSegment::read"}
  ModelLens = {0, 1, 4, 12}
  Env <- GoodEnv
CONSTRAINT Bounded
INVARIANTS OutcomeOK ConsumedOK AllocBounded Progress InCallOK StepKnown FrameLimitOK ServeBounded
