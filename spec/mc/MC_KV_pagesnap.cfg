\* careless variant (a fresh read transaction for every further page of keys): a batch committed between two page loads is seen
\* in part - must violate IterInOrder (anti-vacuity of SnapStable across page boundaries)
SPECIFICATION MCSpec
CONSTANTS
  NS = 1
  NK = 3
  Vals = {1}
  MaxDepth = 1
  NR = 1
  NT = 1
  Writers = {1}
  ItThreads = {1}
  RdThreads = {}
  MapInit = 10
  UsedInit = 0
  Chunk = 10
  PutCost = 0
  TxnBeforeGate = FALSE
  NestedCloseClearsMark = FALSE
  ReadNotCounted = FALSE
  SqueezedFits = TRUE
  ReopenClampsMap = FALSE
  LiveSized = FALSE
  Page = 1
  PageBySkipCur = FALSE
  PageFreshSnap = TRUE
  BatchMax = 1
  MaxOps = 12
  WithReads = FALSE
  Stride = 1
  Offset = 0
VIEW View
INVARIANTS TypeOK
PROPERTIES IterInOrder
