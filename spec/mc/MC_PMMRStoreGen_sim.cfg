SPECIFICATION MCSpec
CONSTANTS
  MaxLeaves = 40
  MaxUnits = 14
  MaxAppends = 6
  MaxRemoves = 4
  Stride = 64
  FinishUnits = 5
  MaxLen = 140
  SampleK = 1
  FinishLen = 90
  RemoveFanout = 1
INVARIANTS Emit
