---------------------------- MODULE MC_Cuckoo ----------------------------
(* Tiny graphs read from IOEnv.GRAPHS (one JSON record per line:          *)
(* {gid, variant, K, N, E: [[u,v],...]}); TLC enumerates every simple     *)
(* K-cycle of every graph and prints it (direction A expectation).        *)
EXTENDS Cuckoo, TLC, Json, IOUtils, SequencesExt
GraphsFromFile == ndJsonDeserialize(IOEnv.GRAPHS)

SortedEdges(p) == SetToSortSeq(EdgesOf(p), LAMBDA a, b : a < b)
\* one line per cycle found
Emit == closed => PrintT(<<"CYC", ToJson([gid |-> G0.gid, c |-> SortedEdges(path)])>>)
\* a closed walk's sorted edges are an accepted proof; the same edges in another order, with
\* one missing, or with one repeated are not
ClosedAccepted == closed =>
    LET s == SortedEdges(path) IN
    /\ Accept(G0, s)
    /\ ~Accept(G0, Reverse(s))
    /\ ~Accept(G0, Tail(s))
    /\ ~Accept(G0, Append(s, s[Len(s)]))
    /\ ~Accept(G0, [s EXCEPT ![1] = s[2]])
    /\ ~Accept(G0, [s EXCEPT ![Len(s)] = G0.N])
==========================================================================
