---------------------------- MODULE MC_PMMRStore ----------------------------
(* Exhaustive check of the protocol/reference model itself (no history).     *)
EXTENDS PMMRStore, TLC
=============================================================================
