--------------------------- MODULE MC_Dandelion ---------------------------
EXTENDS Dandelion, Json, FiniteSetsExt
(* Bounded configurations of Dandelion.tla and the behaviour generator for direction A
   (exhaustive with a history variable hidden by VIEW, and TLC -simulate). *)

A(i, o) == [ins |-> i, outs |-> o, fee |-> 300000]
\* Universe (Utxo0 = mature coinbases 1..4; weights: 1 in / 1 out = 25, 2 in / 1 out = 26, 1 in / 5 out = 109):
\*  1  coinbase 1 -> 101                 2  coinbase 2 -> 102
\*  3  101 -> 103 (child of 1)           4  coinbase 1 -> 104 (double spend of 1)
\*  5  102, 103 -> 105 (child of 2 and 3)
\*  6  coinbase 3 -> 110..114            7  coinbase 4 -> 115..119   (6 + 7 = 218 <= 226 < 6 + 7 + 2 = 243: an
\*                                                                    aggregate the fluff phase cannot admit)
AtomsFull == <<A({1}, {101}), A({2}, {102}), A({101}, {103}), A({1}, {104}), A({102, 103}, {105}),
               A({3}, 110..114), A({4}, 115..119)>>
SubsFull == {{a} : a \in 1..7} \cup {{1, 3}, {1, 2}, {2, 3}}
AtomsSmall == <<A({1}, {101}), A({2}, {102}), A({101}, {103}), A({1}, {104})>>
SubsSmall == {{a} : a \in 1..4} \cup {{1, 3}}
AtomsTiny == <<A({1}, {101}), A({101}, {103}), A({1}, {104})>>          \* parent, child, double spend of the parent
SubsTiny == {{1}, {2}, {3}, {1, 2}}
\* three independent transactions of which only two fit into one (MaxTxWeight = 60 in the configurations using it)
AtomsHeavy == <<A({1}, {101}), A({2}, {102}), A({3}, {103})>>
SubsHeavy == {{1}, {2}, {3}}
\* two independent transactions that do not fit into one (MaxTxWeight = 40)
AtomsHeavy2 == <<A({1}, {101}), A({2}, {102})>>
SubsHeavy2 == {{1}, {2}}

CONSTANTS MaxBlockTxs, SimProfile
BlockChoices == UNION {kSubset(n, AtomIds) : n \in 0..MaxBlockTxs}
BlockAll == SUBSET AtomIds

VARIABLES hist
mcvars == <<chain, txpool, stempool, epoch, connected, mpc, last, nsteps, hist>>

Proj == [txpool |-> txpool, stempool |-> stempool, height |-> Height, epoch |-> epoch,
         expired |-> IsExpired, connected |-> connected, mpc |-> mpc]
Record == hist' = Append(hist, [last |-> last', proj |-> Proj'])

\* the history starts with a pseudo step for Init (which chooses the peers connected at the start)
MCInit == Init /\ hist = <<[last |-> last, proj |-> Proj]>>
\* exhaustive runs without history: the source of a submission is only enumerated where something reads it
\* (stem_tx_accepted in a fluff epoch); elsewhere it is only recorded in the entry, which VIEW leaves out
MCSubmitAny == \E t \in Subs, stem \in BOOLEAN :
               \E src \in (IF stem /\ ~epoch.stem /\ AlwaysStemOurs THEN {"PushApi", "Broadcast"} ELSE {"Broadcast"}) :
               \E np \in (IF stem /\ Relaying(src) THEN RelayChoices ELSE {0}) :
               \E sendok \in (IF stem /\ Relaying(src) /\ NextRelay(np) # 0 THEN BOOLEAN ELSE {TRUE}) :
                 /\ Submit(t, src, stem, sendok, np)
                 \* a refused submission that leaves both pools as they are only changes `last`: not explored (the
                 \* configurations with a history, which Next drives, keep them)
                 /\ (last'.res # "reject" \/ stempool' # stempool)
\* (one named disjunct per action of the specification, so that -coverage reports each)
cSubmit == MCSubmitAny /\ UNCHANGED hist
cMonitorFluffPhase == MonitorFluffPhase /\ UNCHANGED hist
cMonitorExpired == ExpiredAny /\ UNCHANGED hist
cEpochRollover == RolloverAny /\ UNCHANGED hist
cConnectBlock == ConnectAny /\ UNCHANGED hist
cAdvanceClock == AdvanceAny /\ UNCHANGED hist
cPeerChange == PeersAny /\ UNCHANGED hist
MCNext == cSubmit \/ cMonitorFluffPhase \/ cMonitorExpired \/ cEpochRollover \/ cConnectBlock \/ cAdvanceClock \/ cPeerChange
MCSpec == MCInit /\ [][MCNext]_mcvars
MCNextRec == Next /\ Record
MCSpecRec == MCInit /\ [][MCNextRec]_mcvars
\* What distinguishes states for the exhaustive runs: everything the actions and the properties read. Left out (first
\* representative wins): the recorded source of the entries (read by nothing after admission) and the arguments of the
\* last action that no property looks at.
LastView == IF last.k = "Submit" /\ last.res = "reject" /\ ~(last.stem /\ last.why = "conflict") THEN <<last.k, last.res>>
            ELSE IF last.k = "Submit" THEN <<last.k, last.t, last.stem, last.res, last.why, last.ev>>
            ELSE IF last.k = "Expired" THEN <<last.k, last.res, last.outs, last.ev>>
            ELSE IF last.k = "FluffPhase" THEN <<last.k, last.res, last.ev>>
            ELSE IF last.k = "Rollover" THEN <<last.k, last.res>>
            ELSE <<last.k>>
View == <<chain, TxsOf(txpool), [i \in 1..Len(stempool) |-> <<stempool[i].tx, stempool[i].age>>], epoch, connected, mpc,
          LastView, nsteps>>
\* liveness: the monitor keeps running and the clock keeps advancing (no history, no step bound)
MCFairSpec == MCInit /\ [][MCNext]_mcvars
              /\ WF_mcvars(cMonitorFluffPhase) /\ WF_mcvars(cMonitorExpired)
              /\ WF_mcvars(cEpochRollover) /\ WF_mcvars(cAdvanceClock)

\* the action properties restated over mcvars
MCS4 == [][last'.k \in {"FluffPhase", "Expired"} => (StemAtoms \ StemAtoms') \subseteq PubAtoms']_mcvars
MCNoSilentDrop ==
  [][\A x \in SeqToSet(TxsOf(stempool)) \ SeqToSet(TxsOf(stempool')) : SettledIn(x, PubAtoms', Conf', U')]_mcvars
MCRejectKeepsPools ==
  [][(last'.k = "Submit" /\ last'.res = "reject") =>
        /\ txpool' = txpool
        /\ stempool' = stempool \/ (last'.stem /\ last'.why = "conflict" /\ Len(stempool') = Len(stempool) + 1
                                     /\ stempool'[Len(stempool')].tx = last'.t)]_mcvars
MCEpochOnlyAtRollover ==
  [][(epoch'.stem # epoch.stem \/ epoch'.age < epoch.age) => last'.k = "Rollover" /\ last'.res = "rolled"]_mcvars

\* ---------------- simulation (behaviour generation): one weighted random successor per step ----------------
Pick(S) == RandomElement(S)
SimSubmit ==
  \E r \in {Pick(1..10)} :
  \E c3 \in {{Pick(Subs), Pick(Subs), Pick(Subs)}} :
  \* mostly submissions that are accepted now; sometimes whatever comes (duplicates, conflicts, children of private txs)
  \E good \in {{t \in c3 : Fluff(t, "Broadcast", txpool, stempool).res # "reject" \/ Stem(t, "Broadcast", TRUE, 0).res # "reject"}} :
  \E t \in {IF r <= 7 /\ good # {} THEN Pick(good) ELSE Pick(c3)} :
  \E st \in {Pick(1..10)} : \E sr \in {Pick(1..3)} : \E ok \in {Pick(1..6)} :
  \E stem \in {IF SimProfile = "fluffy" THEN st <= 5 ELSE st <= 8} :
  \E src \in {IF sr = 1 THEN "PushApi" ELSE "Broadcast"} :
  \E np \in {IF stem /\ Relaying(src) THEN Pick(RelayChoices) ELSE 0} :
     Submit(t, src, stem, IF stem /\ Relaying(src) /\ NextRelay(np) # 0 THEN ok # 1 ELSE TRUE, np)
SimRollover ==
  \E st \in {IF IsExpired THEN Pick(1..10) <= (IF SimProfile = "fluffy" THEN 3 ELSE 6) ELSE TRUE} :
  \E np \in {IF ~IsExpired \/ connected = {} THEN 0 ELSE Pick(connected)} : EpochRollover(st, np)
SimConnect ==
  \E r \in {Pick(1..6)} :
  \E a1 \in {Pick(AtomIds)} : \E a2 \in {Pick(AtomIds)} :
  \E b1 \in {IF ValidBlock({a1}, chain) THEN {a1} ELSE {}} :
  \E b2 \in {IF ValidBlock(b1 \cup {a2}, chain) THEN b1 \cup {a2} ELSE b1} :
  \E B \in {IF r = 1 THEN {}
            ELSE IF r = 2 /\ ValidBlock(PubAtoms, chain) THEN PubAtoms            \* what a miner takes from the public pool
            ELSE IF r = 3 /\ StemAtoms # {} /\ ValidBlock(PubAtoms \cup StemAtoms, chain) THEN PubAtoms \cup StemAtoms
            ELSE b2} : ConnectBlock(B)
SimAdvance == \E d \in {Pick(Ticks)} : AdvanceClock(d)
SimPeers == \E c \in {Pick((SUBSET Peers) \ {connected})} : PeerChange(c)
SimNext ==
  IF mpc = 1 /\ (AtomicMonitor \/ Pick(1..2) = 1) THEN (\E j \in {Pick(0..Jitter)} : MonitorExpired(j))
  ELSE IF mpc = 2 /\ (AtomicMonitor \/ Pick(1..2) = 1) THEN SimRollover
  ELSE
  \E r \in {Pick(1..20)} :
     IF r <= 7 THEN SimSubmit
     ELSE IF r <= 11 /\ mpc = 0 THEN MonitorFluffPhase
     ELSE IF r <= 11 THEN SimSubmit
     ELSE IF r <= 16 THEN SimAdvance
     ELSE IF r <= 18 /\ Len(chain) < MaxBlocks THEN SimConnect
     ELSE IF r <= 18 THEN SimAdvance
     ELSE IF Cardinality(Peers) > 0 THEN SimPeers ELSE SimAdvance
MCSimSpec == MCInit /\ [][SimNext /\ Record]_mcvars

Done == nsteps = MaxSteps
Behaviour == [cfg |-> [agg |-> AggSecs, embargo |-> EmbargoSecs, jitter |-> Jitter, epochsecs |-> EpochSecs,
                       maxtxweight |-> MaxTxWeight, always |-> AlwaysStemOurs, atomic |-> AtomicMonitor,
                       utxo0 |-> Utxo0, peers |-> Peers],
              atoms |-> Atoms, steps |-> hist]
Emit == Done => PrintT(<<"DANDBEH", ToJson(Behaviour)>>)
=========================================================================
