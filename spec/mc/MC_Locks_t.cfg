SPECIFICATION Spec
CONSTANTS
  ProtosIn <- ProtosFromFile
  NThreads = 3
  OpsPerThread = 2
INVARIANTS NoDeadlock LockSane
