SPECIFICATION Spec
CONSTANTS
  ProtosIn <- ProtosFromFile
  ViewsIn <- ViewsFromFile
  NThreads = 3
  OpsPerThread = 2
INVARIANTS NoDeadlock LockSane ViewsOK GuardedOK ViewsRecorded
