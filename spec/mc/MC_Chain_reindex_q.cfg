\* C02: restarts on a damaged output_pos index (any one entry lost and/or any one key pointed at any leaf or beyond
\* the MMR) at every point of every history of 2 deliveries over trunk 3 + 2 blocks with 1-in-1-out spends:
\* init_output_pos_index must give back the index a clean run maintains (IndexConsistent)
SPECIFICATION MCSpecX
CONSTANTS
  Trunk = 3
  MaxBlocks = 2
  Diffs = {1}
  Pool <- Pool2
  PoolVal <- PoolVal2
  Maturity = 3
  Flags = {}
  MaxDeliveries = 2
  HeadersFirst = FALSE
  SimProfile = "mixed"
  TxShapes = "small"
VIEW View
CONSTRAINT RecentParents
INVARIANTS TypeOK HeadValidated BodiesValid UnspentIsReplay IndexConsistent NoDupUnspent EnumInv SpentIdxInv SumsInv OnlyValidRemembered
PROPERTIES MCRejectLeavesState
