SPECIFICATION Spec
CONSTANTS
  Nodes = {"n1", "n2"}
  Versions = {1, 2, 3, 1000, 2000}
  Genesis = {"g1", "g2"}
  RingCap = 3
  MaxConns = 4
INVARIANTS TypeOK Negotiated GenesisRefused SelfRefused NoFalseRefusal InFlightRemembered
