SPECIFICATION Spec
CONSTANTS
  MaxLeaves = 260
  TermLeaves = 260
INVARIANTS EmitBig BigProofsOK
