SPECIFICATION Spec
CONSTANTS
  HDR = 11
  HSBODY = 81
  BUFSZ = 8192
  Buffered = FALSE
  Plans <- AllPlans
INVARIANTS TypeOK NoOverread HandoverExact
