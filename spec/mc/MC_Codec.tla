---------------------------- MODULE MC_Codec ----------------------------
(* Bounded instances of Codec.tla for C19 and the case generator (direction A). *)
EXTENDS Codec, Json

\* honest messages -----------------------------------------------------------
Ping == Fixed(3, 16)
FixedKinds == {Ping, Fixed(4, 16), Fixed(5, 4), Fixed(8, BH), Fixed(10, 32), Fixed(12, 32), Fixed(16, 40),
               Fixed(18, 4), Fixed(19, 32), Fixed(20, 32), Fixed(21, 41), Fixed(23, 41), Fixed(25, 41), Fixed(27, 41)}
PeerAddrsF(c, i) == Counted(6, 4, 7, 256, c, i)
LocatorF(c, i) == Counted(7, 1, 32, 20, c, i)
CountedKinds == {PeerAddrsF(0, 0), PeerAddrsF(1, 1), PeerAddrsF(3, 3), PeerAddrsF(256, 256),
                 LocatorF(0, 0), LocatorF(1, 1), LocatorF(20, 20)}
\* the longest honest PeerAddrs message: MAX_PEER_ADDRS IPv6 entries (1 + 16 + 2 bytes each)
PeerAddrs6F(c, i) == Counted(6, 4, 19, 256, c, i)
MaxHonest == {PeerAddrs6F(1, 1), PeerAddrs6F(256, 256)}
\* n = 0: what `locate_headers` answers when it has nothing newer
HeadersKinds == {HeadersF(n, n, 0) : n \in {0, 1, 31, 32, 33, 64}}
EmptyHeaders == HeadersF(0, 0, 0)
\* headers of different sizes in one list (the proof of work of a header takes edge_bits x proof size
\* bits: 257, 258, 259 bytes for 10, 11, 12 edge bits here; `next_len` over-reads BHMAX for that reason)
Mix3 == <<BH, BH + 1, BH + 2>>
MixedHeaders == {HeadersM(n, n, 0, Mix3) : n \in {1, 2, 3, 33, 64}} \cup {HeadersM(4, 4, 0, <<BH + 2, BH>>)}
\* a full reply to GetHeaders: MAX_BLOCK_HEADERS headers, 16 batches
FullHeaders == {HeadersF(512, 512, 0), HeadersM(512, 512, 0, Mix3)}
ArchiveKinds == {Archive(a) : a \in {0, 1, 47999, 48000, 48001, 96001}}
UnknownKinds == {Unknown(99, 0), Unknown(99, 1), Unknown(250, 40), Unknown(200, Limit(200))}

\* messages with version-dependent / structured bodies, built by the harness with the node's own
\* constructors and serialised by `Msg::new` at the version of the connection -----------------
Versions == {1, 2, 3, 1000}
Obj(kind, nin, nout, kern, ids, nh, nlv, np) ==
  [kind |-> kind, nin |-> nin, nout |-> nout, kern |-> kern, ids |-> ids, nh |-> nh, nl |-> nlv, np |-> np]
\* three single-kernel transactions aggregated: a plain, a height-locked and an NRD kernel
Tx3 == Obj("tx", 3, 3, <<"plain", "heightlocked", "nrd">>, 0, 0, 0, 0)
Tx1 == Obj("tx", 1, 1, <<"plain">>, 0, 0, 0, 0)
\* a block with the coinbase and Tx1 / its compact form (coinbase in full, one short id)
Block1 == Obj("block", 1, 2, <<"coinbase", "plain">>, 0, 0, 0, 0)
CBlock1 == Obj("cblock", 0, 1, <<"coinbase">>, 1, 0, 0, 0)
KSeg == Obj("kseg", 0, 0, <<"plain", "heightlocked", "nrd", "coinbase">>, 0, 1, 4, 2)
RSeg == Obj("rseg", 0, 0, <<>>, 0, 1, 2, 1)
OSeg == Obj("oseg", 0, 0, <<>>, 0, 2, 3, 1)
BSeg == Obj("bseg", 0, 0, <<>>, 5, 0, 2, 1)
BuiltAt(v) == {Built(15, Tx3, v), Built(14, Tx3, v), Built(15, Tx1, v), Built(11, Block1, v), Built(13, CBlock1, v),
               Built(28, KSeg, v), Built(26, RSeg, v), Built(24, OSeg, v), Built(22, BSeg, v)}
BuiltKinds == UNION {BuiltAt(v) : v \in Versions}
BuiltSeqs == UNION {{<<Built(15, Tx3, v), Ping, Built(14, Tx3, v)>>, <<Built(11, Block1, v), Built(28, KSeg, v)>>,
                     <<HeadersF(33, 33, 0), Built(14, Tx1, v), Built(13, CBlock1, v), Ping>>,
                     <<Built(24, OSeg, v), Built(22, BSeg, v), Built(26, RSeg, v), Unknown(250, 40), Built(15, Tx1, v)>>} : v \in Versions}
Honest0 == FixedKinds \cup CountedKinds \cup HeadersKinds \cup ArchiveKinds \cup UnknownKinds
Honest1 == MaxHonest \cup MixedHeaders \cup BuiltKinds
Honest == Honest0 \cup Honest1

\* frames that must be refused ------------------------------------------------
TAIL == 40   \* bytes following a refused header that must stay unread
OverLimit == {Raw(t, TRUE, Limit(t) + 1, TAIL, 0, 0) : t \in 0..28} \cup {Raw(99, TRUE, Limit(99) + 1, TAIL, 0, 0)}
Huge == {Raw(t, TRUE, 1073741824, TAIL, 0, 0) : t \in {3, 9, 11, 17, 99}}
\* announced lengths over the whole range of the u64 length field (msg.rs compares u64s, codec.rs
\* casts to usize): representatives beyond TLC's integers, see RawWire
WireLens == {"2147483648", "4294967296", "4294967312", "9223372036854775807", "9223372036854775808",
             "18446744073709551615"}
HugeWire == {RawWire(t, wl, TAIL) : t \in {3, 9, 99}, wl \in WireLens}
\* the network this node is on ("other": every chain type but Mainnet / Testnet); the two
\* magic bytes of a frame are those of a network or a corruption of the local ones
NetName == "other"
NetMain == "main"
NetTest == "test"
MagicKinds == ({"main", "test", "other", "b1", "b2", "b12"}) \ {NetName}
BadMagic0 == {Raw(3, FALSE, 16, 16, 16, 0), Raw(9, FALSE, 2 + BH, 2 + BH, 0, 1), Raw(99, FALSE, 8, 8, 0, 0)}
BadMagic == BadMagic0 \cup {RawMagic(3, mv, NetName, 16, 16, 16, 0) : mv \in MagicKinds}
              \cup {RawMagic(99, "b1", NetName, 8, 8, 0, 0), RawMagic(9, "b1", NetName, 2 + BH, 2 + BH, 0, 1)}
\* exactly at the limit: not refused on the header
NeedOf(t) == CASE t \in {3, 4} -> 16 [] t \in {5, 18} -> 4 [] t = 6 -> 4 + 3 * 7 [] t = 7 -> 1 + 32 [] t = 8 -> BH
               [] t \in {10, 12, 19, 20} -> 32 [] t = 16 -> 40 [] t = 17 -> 48 [] t \in {21, 23, 25, 27} -> 41
               [] OTHER -> -1
CountOf(t) == CASE t = 6 -> 3 [] t = 7 -> 1 [] OTHER -> 0
AtLimit == {Raw(t, TRUE, Limit(t), Limit(t), NeedOf(t), CountOf(t)) : t \in (0..28) \ {9, 17}}
\* item counts inconsistent with the length
BadCount == {HeadersF(2, 1, 0), HeadersF(1, 2, 0), HeadersF(0, 1, 0), HeadersF(1, 1, 5), HeadersF(33, 32, 0),
             HeadersF(32, 33, 0), HeadersF(3, 0, 0), HeadersF(0, 33, 0), HeadersF(1, 0, 7),
             Raw(9, TRUE, 1, 1, 0, 0), Raw(9, TRUE, 0, 0, 0, 0),
             PeerAddrsF(5, 2), PeerAddrsF(257, 257), LocatorF(3, 1), LocatorF(21, 21),
             \* crafted counts far above what the body holds (and above the caps): the refusal must not
             \* size anything by the announced count (1048576 PeerAddr = 32 MiB, 65536 = 2 MiB)
             PeerAddrsF(1048576, 0), PeerAddrsF(1048576, 1), PeerAddrsF(65536, 3), PeerAddrsF(300, 1),
             LocatorF(255, 1), LocatorF(255, 20), HeadersF(65535, 1, 0), HeadersF(65535, 0, 0), HeadersF(40000, 33, 0),
             Raw(3, TRUE, 15, 15, 16, 0), Raw(10, TRUE, 0, 0, 32, 0)}
\* a Headers frame of exactly the limit for its type (accepted on its header, then refused for
\* what follows the zero announced items): pins the limit of type 9 from below
AtLimit9 == {HeadersF(0, 0, Limit(9) - 2)}
\* bodies shorter than what the message needs (one byte short, and empty), for every decodable type
Decodable == {3, 4, 5, 6, 7, 8, 10, 12, 16, 17, 18, 19, 20, 21, 23, 25, 27}
ShortBody == {Raw(t, TRUE, NeedOf(t) - 1, NeedOf(t) - 1, NeedOf(t), CountOf(t)) : t \in Decodable}
               \cup {Raw(t, TRUE, 0, 0, NeedOf(t), 0) : t \in Decodable}
\* decodable body followed by bytes the count does not account for: refused by the statement
\* (AtLimit frames of the decodable types are of this kind too)
Trailing == {PeerAddrsF(1, 3), LocatorF(0, 2), Raw(3, TRUE, 20, 20, 16, 0), Raw(17, TRUE, 60, 60, 48, 0)}
               \cup {Raw(t, TRUE, NeedOf(t) + 1, NeedOf(t) + 1, NeedOf(t), CountOf(t)) : t \in {3, 4, 5, 6, 7, 8, 10, 12, 16, 18, 19, 20, 21, 23, 25, 27}}
\* handshake messages are not accepted once the connection is up
Unexpected == {Raw(1, TRUE, 60, 60, -1, 0), Raw(2, TRUE, 40, 40, -1, 0), Raw(0, TRUE, 0, 0, -1, 0)}
\* (the additions of round 4 follow one lead frame in the quick tier, every lead in the thorough one)
Refused0 == OverLimit \cup Huge \cup BadMagic0 \cup BadCount \cup Unexpected
Refused1 == HugeWire \cup (BadMagic \ BadMagic0) \cup ShortBody \cup AtLimit9
Refused == Refused0 \cup Refused1

AllKinds == Honest \cup Refused \cup AtLimit \cup Trailing
\* small alphabets for the longer streams
Core == {Ping, PeerAddrsF(3, 3), HeadersF(33, 33, 0), Archive(48001), Unknown(250, 40), HeadersF(1, 1, 0)}
Lead == {Ping, HeadersF(33, 33, 0), Archive(1), Unknown(99, 1), EmptyHeaders}

SeqsOf(K, n) == [1..n -> K]
Singles == SeqsOf(AllKinds, 1)
\* (the kinds added in round 4 are paired with the lead frames and, version by version, with each other)
Pairs == SeqsOf(Honest0, 2) \cup {<<a, b>> : a \in Honest1, b \in Lead} \cup {<<b, a>> : a \in Honest1, b \in Lead}
           \cup UNION {SeqsOf(BuiltAt(v), 2) : v \in Versions}
AfterLead == {<<a, b>> : a \in Lead, b \in Refused0 \cup AtLimit \cup Trailing} \cup {<<Ping, b>> : b \in Refused1}
AfterLeadFull == {<<a, b>> : a \in Lead, b \in Refused \cup AtLimit \cup Trailing}
Deep == SeqsOf(Core, 3) \cup SeqsOf(Core, 4)
Deep3 == SeqsOf(Core, 3)

\* A refused frame in the MIDDLE of a stream: what follows it is valid and must never be read
\* (the connection ends at the refused frame, CodecConn.tla).  Bare headers (nothing of the
\* announced body present) put the next valid frame right behind the refused header.
RefusedMid == {Raw(3, FALSE, 0, 0, 0, 0), Raw(3, FALSE, 16, 16, 16, 0), Raw(99, FALSE, 22, 22, 0, 0),
               Raw(3, TRUE, Limit(3) + 1, 0, 0, 0), Raw(9, TRUE, Limit(9) + 1, 0, 0, 0),
               Raw(99, TRUE, Limit(99) + 1, 0, 0, 0), Raw(11, TRUE, 1073741824, 0, 0, 0),
               Raw(3, TRUE, Limit(3) + 1, TAIL, 0, 0), HeadersF(2, 1, 0), PeerAddrsF(257, 257),
               Raw(3, TRUE, 15, 15, 16, 0), Raw(2, TRUE, 40, 40, -1, 0)}
Tails == {<<Ping>>, <<HeadersF(1, 1, 0), Ping>>}
MidRefusal == {<<b>> \o t : b \in RefusedMid, t \in Tails}
                 \cup {<<a, b>> \o t : a \in {Ping, HeadersF(33, 33, 0), Unknown(99, 1)}, b \in RefusedMid, t \in {<<Ping>>}}
AroundEmpty == {<<EmptyHeaders, b>> : b \in Honest} \cup {<<a, EmptyHeaders>> : a \in Honest}
                  \cup {<<Ping, EmptyHeaders, Ping>>, <<EmptyHeaders, EmptyHeaders, HeadersF(33, 33, 0)>>}
FullSeqs == {<<f>> : f \in FullHeaders} \cup {<<HeadersM(512, 512, 0, Mix3), Ping>>}
\* (thorough) a Headers frame of exactly the limit filled with headers: 2908 items and 170 bytes more
AtLimitHeaders == {<<HeadersF(2908, 2908, Limit(9) - 2 - 2908 * BH)>>}
StreamsQuick == Singles \cup AfterLead \cup SeqsOf(Core, 2) \cup Deep3 \cup AroundEmpty \cup MidRefusal
                  \cup BuiltSeqs \cup FullSeqs
StreamsFull == Singles \cup Pairs \cup AfterLeadFull \cup Deep \cup AroundEmpty \cup MidRefusal
                  \cup BuiltSeqs \cup FullSeqs \cup AtLimitHeaders
\* the subset on which per-action coverage is collected (MC_Codec_cov.cfg): every action taken here is
\* taken in the exhaustive runs, whose stream sets contain this one
StreamsCov == Singles \cup MidRefusal \cup SeqsOf(Core, 2)
\* another network (MC_Codec_net_*.cfg: NetName, MaxBlockSize of that chain type; no block headers:
\* their proof of work cannot be produced there)
NetFrames == {Ping, Fixed(5, 4), PeerAddrsF(3, 3), Unknown(99, 1)}
StreamsNet == {<<a>> : a \in NetFrames} \cup {<<Ping, b, Ping>> : b \in {RawMagic(3, mv, NetName, 16, 16, 16, 0) : mv \in MagicKinds}}
                \cup {<<RawMagic(3, mv, NetName, 16, 16, 16, 0)>> : mv \in MagicKinds}
                \cup {<<Ping, Raw(t, TRUE, Limit(t) + 1, TAIL, 0, 0)>> : t \in {3, 11, 13, 15, 22, 99}}
                \cup {<<Raw(11, TRUE, Limit(11), Limit(11), -1, 0)>>, <<Unknown(200, Limit(200)), Ping>>}
\* probe (MC_Codec_probe_version.cfg, VersionSkew = 1000): a reader that decodes with its own
\* protocol version instead of the negotiated one - Faithful is expected to FAIL
StreamsVersionProbe == {<<Built(15, Tx3, 1)>>}
\* probe (MC_Codec_probe_hoist.cfg, TimeoutPerChunk = FALSE): the model must tell the two
\* placements of set_stream_timeout apart (NoDesync is expected to FAIL there)
StreamsProbe == {<<Ping, Ping>>}

\* why a frame ends the connection ("" if it does not): used for the violation signatures only
RefusalKind(f) == LET c == FrameClass(f) IN
  IF ~f.magic THEN "bad_magic" ELSE IF f.len > Limit(f.t) THEN "over_limit"
  ELSE IF c = "badcount" THEN "bad_count" ELSE IF c = "baddecode" THEN "bad_body"
  ELSE IF c = "unexpected" THEN "unexpected_type" ELSE IF c = "trailing" THEN "trailing_bytes" ELSE ""
\* Case generator: one line per stream with what the property demands of it.
RECURSIVE StartsOf(_, _)
StartsOf(s, i) == IF i > Len(s) THEN <<>> ELSE <<StartOf(s, i)>> \o StartsOf(s, i + 1)
\* `silent`: the candidate boundaries at which the model lets the peer pause for longer than the
\* header timeout (Silence); the harness places its 2.3-2.6 s pauses there and at offsets that
\* satisfy the same predicate
Case(s) == [frames |-> s, expect |-> ExpectedSeq(s), total |-> Total(s), starts |-> StartsOf(s, 1),
            version |-> WriterVersion(s), net |-> NetName,
            classes |-> [i \in 1..Len(s) |-> FrameClass(s[i])],
            silent |-> {c \in Cuts(s) : SilenceOK(s, c)},
            kinds |-> [i \in 1..Len(s) |-> RefusalKind(s[i])],
            alloc_max |-> [i \in 1..Len(s) |-> AllocBound(s[i])]]
EmitSpec == Init /\ [][FALSE]_vars
Emit == PrintT(<<"CODECCASE", ToJson(Case(stream))>>)
=========================================================================
