SPECIFICATION MCSpec
CONSTANTS
  MaxLeaves = 6
  WithSubtrees = TRUE
  MaxSteps = 40
  Mut = "none"
  FullRewindSets = FALSE
VIEW ViewNoLen
INVARIANT Refinement
INVARIANT EmitStates
CHECK_DEADLOCK FALSE
