SPECIFICATION MCSpec
CONSTANTS
  Kinds = {"honest", "bad"}
  BatchSize = 2
  ValidateFirst = FALSE
  RootCheck = FALSE
  ResetClearsBitmap = TRUE
  MaxAdds = 100000
  MaxBad = 100000
  MaxDup = 100000
VIEW View
INVARIANTS NeverFinaliseWrongRoots
