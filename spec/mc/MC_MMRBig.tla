---------------------------- MODULE MC_MMRBig ----------------------------
EXTENDS MC_MMR
\* Direction A beyond the exhaustive replay: MMRs with 6..9 peaks and subtrees of height 6..8 (sizes around
\* powers of two): root term, peak terms and the proof paths of a few leaves (first, last, the two middle ones,
\* the last leaf of the first peak) - the replay compares the real PMMR's root / peaks / merkle_proof / verify.
BigSizes == {63, 64, 65, 95, 127, 128, 129, 191, 200, 255, 256, 257, 260}
BigLeaves(s) == LET n == NL(s) IN {1, n, n - 1, (n + 1) \div 2, (n \div 2) + 1, Pow2(BitLen(n) - 1)}
RECURSIVE SetSeq(_)
SetSeq(S) == IF S = {} THEN <<>> ELSE LET x == CHOOSE x \in S : \A y \in S : x <= y IN <<x>> \o SetSeq(S \ {x})
BigCase(s) == [size |-> Size(s), nl |-> NL(s), root |-> RootTerm(s), peaks |-> s.pk,
               peakterms |-> [i \in 1..Len(s.pk) |-> s.tm[s.pk[i] + 1]],
               proofs |-> LET ix == SetSeq(BigLeaves(s)) IN
                          [j \in 1..Len(ix) |-> [pos |-> s.lp[ix[j]], d |-> Data(ix[j] - 1), path |-> ProofPathD(s, s.lp[ix[j]])]]]
EmitBig == (NL(m) \in BigSizes) => PrintT(<<"MMRBIG", ToJson(BigCase(m))>>)
\* the emitted proofs verify and their corruptions are refused in the model as well
BigProofsOK == (NL(m) \in BigSizes) =>
    \A i \in BigLeaves(m) :
      /\ Verify(RootTerm(m), Data(i-1), m.lp[i], ProofPathD(m, m.lp[i]), Size(m))
      /\ \A c \in Corruptions(m, i) : ~Verify(RootTerm(m), c.d, c.pos, c.path, Size(m))
      /\ MerkleProofV(m, {}, Size(m), m.lp[i]) = [ok |-> TRUE, path |-> ProofPathD(m, m.lp[i])]
=======================================================================
