\* the code's protocol without process death and without a horizon: deadlock free (some thread can always move)
SPECIFICATION LiveSpec
CONSTANTS
  NS = 1
  NK = 1
  Vals = {1}
  MaxDepth = 1
  NR = 1
  NT = 2
  Writers = {1, 2}
  ItThreads = {1, 2}
  RdThreads = {1, 2}
  MapInit = 10
  UsedInit = 9
  Chunk = 10
  PutCost = 1
  TxnBeforeGate = FALSE
  NestedCloseClearsMark = FALSE
  ReadNotCounted = FALSE
  SqueezedFits = TRUE
  ReopenClampsMap = FALSE
  LiveSized = FALSE
  Page = 1
  PageBySkipCur = FALSE
  PageFreshSnap = FALSE
  BatchMax = 1
  MaxOps = 14
  WithReads = FALSE
  Stride = 1
  Offset = 0
VIEW LiveView
CONSTRAINT LiveBound
CHECK_DEADLOCK TRUE
INVARIANTS TypeOK CountAgrees MarkAgrees NoRemapUnderTxn NoHolderParked GateLive PageWalk NoMapFull
