---------------------------- MODULE MC_Wire ----------------------------
(* Case enumeration for Wire.tla: type x shape class x protocol version.   *)
(* Every initial state is one case; the invariants are the grammar checks  *)
(* and Emit prints the case for the harness (direction A).                 *)
EXTENDS Wire, Json

CONSTANTS Tier           \* "quick" | "thorough"   (StrictAddr is declared in Wire)

VARIABLE c
vars == <<c>>

G(nrd, chain) == [nrd |-> nrd, chain |-> chain]
GA == G(TRUE, "auto")
Case(ty, v, x, g, sh) == [ty |-> ty, ver |-> v, val |-> x, g |-> g, sh |-> sh, emit |-> TRUE, readable |-> TRUE, pert |-> TRUE, via |-> "trusted"]

-----------------------------------------------------------------------------
(* value generators; p = symbol prefix *)
KFV(p, kind, fc, xc) ==
    CASE kind = "Plain"        -> [t |-> "Plain", fee |-> NV(p \o "fee", fc)]
      [] kind = "Coinbase"     -> [t |-> "Coinbase"]
      [] kind = "HeightLocked" -> [t |-> "HeightLocked", fee |-> NV(p \o "fee", fc), lock |-> NV(p \o "lock", xc)]
      [] kind = "NRD"          -> [t |-> "NRD", fee |-> NV(p \o "fee", fc), rel |-> NV(p \o "rel", xc)]
KFShapes == {[kind |-> "Plain", fc |-> f, xc |-> "zero"] : f \in FeeCls}
            \cup {[kind |-> "Coinbase", fc |-> "fee_any", xc |-> "zero"]}
            \cup {[kind |-> "HeightLocked", fc |-> f, xc |-> x] : f \in FeeCls, x \in LockCls}
            \cup {[kind |-> "NRD", fc |-> f, xc |-> x] : f \in FeeCls, x \in RelOK}
KernV(p, kind, fc, xc) == [feat |-> KFV(p, kind, fc, xc), excess |-> p \o "ex", sig |-> p \o "sig"]
DefX(kind) == IF kind = "NRD" THEN "rel_any" ELSE "any"
KernItem(p, kind, r) == KernV(p, kind, "fee_any", DefX(kind)) @@ [r |-> r]
OutV(p, f) == [f |-> f, c |-> p \o "c", proof |-> p \o "proof"]

KFCases == {Case("KernelFeatures", v, KFV("k.", s.kind, s.fc, s.xc), GA, s) : s \in KFShapes, v \in Versions}
KernCases == {Case("TxKernel", v, KernV("k.", s.kind, s.fc, s.xc), GA, s) : s \in KFShapes, v \in Versions}
IOCases == {Case(ty, v, [f |-> f, c |-> "x.c"], GA, [f |-> f]) : ty \in {"Input", "OutputIdentifier"}, f \in {0, 1}, v \in Versions}
           \cup {Case("Output", v, OutV("o.", f), GA, [f |-> f]) : f \in {0, 1}, v \in Versions}

(* bodies *)
Perms(n) == CASE n = 0 -> {<<>>} [] n = 1 -> {<<1>>} [] n = 2 -> {<<1, 2>>, <<2, 1>>}
              [] n = 3 -> {<<1, 2, 3>>, <<3, 2, 1>>, <<2, 3, 1>>} [] OTHER -> {[j \in 1..n |-> j]}
KindsBlock == <<"Coinbase", "Plain", "NRD", "HeightLocked">>
KindsTx    == <<"Plain", "HeightLocked", "NRD", "Plain">>
KindAt(kinds, j) == kinds[((j - 1) % 4) + 1]
InputsV(var, n, perm, cb) ==
    IF var = "FC" THEN [var |-> "FC", items |-> [j \in 1..n |-> [f |-> IF cb THEN j % 2 ELSE 0, c |-> "i" \o ToString(j) \o ".c",
                                                                 ri |-> j, rc |-> perm[j]]]]
    ELSE [var |-> "CO", items |-> [j \in 1..n |-> [c |-> "i" \o ToString(j) \o ".c", rc |-> j]]]
BodyV(var, ni, perm, no, nk, kinds, cb) ==
    [inputs |-> InputsV(var, ni, perm, cb),
     outputs |-> [j \in 1..no |-> OutV("o" \o ToString(j) \o ".", IF cb THEN j % 2 ELSE 0) @@ [r |-> j]],
     kernels |-> [j \in 1..nk |-> KernItem("k" \o ToString(j) \o ".", KindAt(kinds, j), j)]]
IdPerm(n) == [j \in 1..n |-> j]
SmallShapes == {[var |-> var, ni |-> ni, perm |-> pm, no |-> no, nk |-> nk] :
                  var \in {"FC", "CO"}, ni \in 0..3, pm \in Perms(3) \cup Perms(2) \cup Perms(1) \cup Perms(0), no \in 0..2, nk \in 0..3}
Shapes == {s \in SmallShapes : Len(s.perm) = s.ni /\ (s.var = "CO" => s.perm = IdPerm(s.ni))
                               /\ (Tier = "quick" => (s.no < 2 \/ s.nk < 2))}
BigShapes(maxw) == {[var |-> "FC", ni |-> maxw, perm |-> IdPerm(maxw), no |-> 0, nk |-> 0],
                    [var |-> "CO", ni |-> maxw, perm |-> IdPerm(maxw), no |-> 0, nk |-> 0],
                    [var |-> "FC", ni |-> maxw % OutputW, perm |-> IdPerm(maxw % OutputW), no |-> maxw \div OutputW, nk |-> 0],
                    [var |-> "CO", ni |-> maxw % KernelW, perm |-> IdPerm(maxw % KernelW), no |-> 0, nk |-> maxw \div KernelW]}
ShSum(s) == [var |-> s.var, ni |-> s.ni, no |-> s.no, nk |-> s.nk]
BodyCaseOf(ty, s, v, kinds, cb, wrap(_)) ==
    [Case(ty, v, wrap(BodyV(s.var, s.ni, s.perm, s.no, s.nk, kinds, cb)), GA, ShSum(s)) EXCEPT !.emit = (s.perm = IdPerm(s.ni))]

HdrV(p, cls, tcls, eb, chain) ==
    [version |-> NV(p \o "version", cls), height |-> NV(p \o "height", cls), ts |-> NV(p \o "ts", tcls),
     prev_hash |-> p \o "prev_hash", prev_root |-> p \o "prev_root", output_root |-> p \o "output_root",
     range_proof_root |-> p \o "range_proof_root", kernel_root |-> p \o "kernel_root",
     total_kernel_offset |-> p \o "total_kernel_offset", oms |-> NV(p \o "oms", cls), kms |-> NV(p \o "kms", cls),
     pow |-> [td |-> NV(p \o "td", cls), ss |-> NV(p \o "ss", cls), nonce |-> NV(p \o "nonce", cls),
              proof |-> [eb |-> eb, ps |-> ProofSize(chain), nonces |-> NV(p \o "nonces", IF cls = "zero" THEN "zero" ELSE IF cls = "max" THEN "ones" ELSE "any")]]]
DefHdr == HdrV("h.", "any", "ts_any", 10, "auto")

BodyCases == {BodyCaseOf("TransactionBody", s, v, KindsBlock, TRUE, LAMBDA b : b) : s \in Shapes \cup BigShapes(250), v \in Versions}
TxCases == {BodyCaseOf("Transaction", s, v, KindsTx, FALSE, LAMBDA b : [offset |-> "t.offset", body |-> b]) :
              s \in {s \in Shapes : s.no + s.nk + s.ni > 0 /\ (Tier = "quick" => s.ni \in {0, 2})} \cup BigShapes(226), v \in Versions}
BlockCases == {BodyCaseOf("Block", s, v, KindsBlock, TRUE, LAMBDA b : [header |-> DefHdr, body |-> b]) :
              s \in {s \in Shapes : Tier = "quick" => s.ni \in {0, 3}} \cup {s \in BigShapes(250) : s.no > 0}, v \in Versions}
CBlockCases == {Case("CompactBlock", v,
                     [header |-> DefHdr, nonce |-> NV("cb.nonce", "any"),
                      out_full |-> [j \in 1..no |-> OutV("o" \o ToString(j) \o ".", 1) @@ [r |-> j]],
                      kern_full |-> [j \in 1..nkf |-> KernItem("k" \o ToString(j) \o ".", "Coinbase", j)],
                      kern_ids |-> [j \in 1..nid |-> [id |-> "kid" \o ToString(j), r |-> j]]],
                     GA, [no |-> no, nkf |-> nkf, nid |-> nid]) : no \in 0..2, nkf \in 0..2, nid \in {0, 1, 3}, v \in Versions}

(* proofs of work *)
ProofCases == {[Case("Proof", 1000, [eb |-> eb, ps |-> ProofSize(ch), nonces |-> NV("p.nonces", cl)], G(TRUE, ch),
                     [eb |-> eb, chain |-> ch, cls |-> cl]) EXCEPT !.readable = ProofReadable(eb, ProofSize(ch))] :
                 eb \in 1..63, ch \in {"auto", "main"}, cl \in (IF Tier = "quick" THEN {"any", "ones"} ELSE {"any", "ones", "zero"})}
EbSet(ch) == IF ch = "auto" THEN {8, 10, 31, 63} ELSE {29, 31, 32, 63}
HdrCases == {Case("BlockHeader", v, HdrV("h.", cl, tc, eb, ch), G(TRUE, ch), [eb |-> eb, chain |-> ch, cls |-> cl, ts |-> tc]) :
               cl \in {"any", "zero", "max"}, tc \in TsOK, eb \in EbSet("auto") \cup EbSet("main"), ch \in {"auto", "main"}, v \in Versions}
HdrCases2 == {x \in HdrCases : x.sh.eb \in EbSet(x.sh.chain) /\ (Tier = "quick" => (x.sh.ts = "ts_any" \/ x.sh.cls = "any"))}
PowCases == {Case("ProofOfWork", v, HdrV("h.", cl, "ts_any", eb, "main").pow, G(TRUE, "main"), [eb |-> eb, cls |-> cl]) :
               cl \in {"any", "zero", "max"}, eb \in {29, 31, 33}, v \in {1, 1000}}

(* flat and p2p *)
FlatCases == {Case(ty, v, FlatVal(FlatG(ty), "m.", cl), GA, [cls |-> cl]) : ty \in FlatTypes, cl \in {"any", "zero", "max"}, v \in Versions}
AddrV(p, fam, icls) == IF fam = 4 THEN [fam |-> 4, ip |-> p \o "ip", port |-> NV(p \o "port", "any")]
                       ELSE [fam |-> 6, ip |-> p \o "ip", ipcls |-> icls, port |-> NV(p \o "port", "any")]
AddrKinds == {<<4, "ip4">>} \cup {<<6, cl>> : cl \in Ip6Classes}
AddrCases == {Case("PeerAddr", v, AddrV("a.", k[1], k[2]), GA, [fam |-> k[1], cls |-> k[2]]) : k \in AddrKinds, v \in {1, 1000}}
PeerAddrsCases == {Case("PeerAddrs", v, [peers |-> [j \in 1..n |-> AddrV("a" \o ToString(j) \o ".", IF j % 2 = 1 THEN 4 ELSE 6, "ip6_native")]],
                        GA, [n |-> n]) : n \in {0, 1, 2, 256}, v \in {1, 1000}}
LocatorCases == {Case("Locator", v, [hashes |-> [j \in 1..n |-> "l" \o ToString(j)]], GA, [n |-> n]) : n \in {0, 1, 20}, v \in {1, 1000}}
HandCases == {Case("Hand", v, [version |-> NV("m.version", "any"), capabilities |-> NV("m.capabilities", "caps"),
                               nonce |-> NV("m.nonce", "any"), total_difficulty |-> NV("m.td", "any"),
                               sender_addr |-> AddrV("s.", fs, "ip6_native"), receiver_addr |-> AddrV("r.", fr, "ip6_native"),
                               ualen |-> ul, ua |-> "m.ua", genesis |-> "m.genesis"], GA, [fs |-> fs, fr |-> fr, ualen |-> ul]) :
                fs \in {4, 6}, fr \in {4, 6}, ul \in {0, 13}, v \in {1, 1000}}
ShakeCases == {Case("Shake", v, [version |-> NV("m.version", "any"), capabilities |-> NV("m.capabilities", "caps"),
                                 total_difficulty |-> NV("m.td", "any"), ualen |-> ul, ua |-> "m.ua", genesis |-> "m.genesis"],
                    GA, [ualen |-> ul]) : ul \in {0, 13}, v \in {1, 1000}}
HeadersCases == {Case("Headers", v, [headers |-> [j \in 1..n |-> HdrV("h" \o ToString(j) \o ".", "any", "ts_any", 10, "auto")]], GA, [n |-> n]) :
                   n \in {0, 1, 3}, v \in {1, 1000}}

(* segments *)
SegKinds == <<"Plain", "Coinbase", "HeightLocked">>
SegV(lt, nh, nl, np) ==
    [id |-> [height |-> NV("s.height", "h7"), idx |-> NV("s.idx", "zero")],
     hpos |-> SubSeq(<<2, 6>>, 1, nh), hashes |-> [j \in 1..nh |-> "s.h" \o ToString(j)],
     lpos |-> SubSeq(<<0, 1, 3>>, 1, nl),
     leaves |-> [j \in 1..nl |-> IF lt = "kernel" THEN KernV("s.k" \o ToString(j) \o ".", SegKinds[j], "fee_any", "any")
                                 ELSE IF lt = "rproof" THEN [proof |-> "s.rp" \o ToString(j)]
                                 ELSE [f |-> j % 2, c |-> "s.o" \o ToString(j) \o ".c"]],
     proof |-> [j \in 1..np |-> "s.p" \o ToString(j)]]
SegCases == {Case(IF lt = "kernel" THEN "SegmentKernel" ELSE "SegmentOutId", v, SegV(lt, nh, nl, np), GA, [nh |-> nh, nl |-> nl, np |-> np]) :
               lt \in {"kernel", "outid"}, nh \in {0, 2}, nl \in {0, 1, 3}, np \in {0, 2}, v \in Versions}
            \cup {Case("SegmentProof", v, [proof |-> [j \in 1..np |-> "s.p" \o ToString(j)]], GA, [np |-> np]) : np \in {0, 1, 3}, v \in {1, 1000}}
NposSet(nch) == LET nb == nch * ChunkBits IN {n \in {0, 1, 4095, 4096, nb - 4096, nb - 4095, nb - 1, nb, nb \div 2} : n >= 0 /\ n <= nb}
BmV(h, blocks, np) == [id |-> [height |-> h, idx |-> NV("s.idx", "zero")], blocks |-> blocks,
                       proof |-> [j \in 1..np |-> "s.p" \o ToString(j)]]
BmCases == {Case("BitmapSegment", v, BmV(7, <<[nch |-> nch, npos |-> n, sym |-> "b1"]>>, np), GA, [nch |-> nch, npos |-> n]) :
               nch \in {1, 8, 64}, n \in NposSet(1) \cup NposSet(8) \cup NposSet(64), np \in {0, 2}, v \in {1, 1000}}
BmCases2 == {x \in BmCases : x.sh.npos \in NposSet(x.sh.nch)}
            \cup {Case("BitmapSegment", 1000, BmV(7, <<[nch |-> 64, npos |-> a, sym |-> "b1"], [nch |-> q[1], npos |-> q[2], sym |-> "b2"]>>, 1), GA,
                       [nch |-> 64 + q[1], npos |-> a + q[2]]) : q \in {<<1, 3>>, <<1, 512>>, <<8, 3>>, <<8, 4096>>}, a \in {5, 65536 - 7, 30000}}
(* every segment height: a segment of height h holds up to 2^h chunks, written as ceil(chunks / 64) blocks; each *)
(* block in the encoding its population selects (BlockMode): "idx" few bits set, "neg" few bits clear, "raw".    *)
BmEncs == <<"idx", "neg", "raw">>
BmEncNpos(enc, nch) == LET nb == nch * ChunkBits IN CASE enc = "idx" -> 5 [] enc = "neg" -> nb - 5 [] enc = "raw" -> nb \div 2
BmBlocks(n, EncOf(_)) ==
    LET nfull == n \div BlockChunks   rem == n % BlockChunks   nb == nfull + (IF rem > 0 THEN 1 ELSE 0)
    IN [j \in 1..nb |-> LET nch == IF j <= nfull THEN BlockChunks ELSE rem
                        IN [nch |-> nch, npos |-> BmEncNpos(EncOf(j), nch), sym |-> "b" \o ToString(j)]]
BmModes(bl) == [j \in 1..Len(bl) |-> BlockMode(bl[j])]
Min2(a, b) == IF a < b THEN a ELSE b
\* (a) heights 0..14 x encoding x version, at most two blocks (= the full segment up to height 7); height 14 is refused
BmHeightCases ==
    {[Case("BitmapSegment", v, BmV(h, BmBlocks(Min2(2^h, 128), LAMBDA j : enc), 1), GA,
           [h |-> h, enc |-> enc, chunks |-> Min2(2^h, 128), modes |-> BmModes(BmBlocks(Min2(2^h, 128), LAMBDA j : enc))])
      EXCEPT !.readable = (h <= BmMaxHeight)] : h \in 0..14, enc \in {"idx", "neg", "raw"}, v \in Versions}
\* (b) one chunk more than the height holds: writable, refused by the reader
BmOverCases ==
    {[Case("BitmapSegment", 1000, BmV(h, BmBlocks(2^h + 1, LAMBDA j : "idx"), 1), GA, [h |-> h, enc |-> "idx", chunks |-> 2^h + 1, over |-> TRUE])
      EXCEPT !.readable = FALSE] : h \in 0..(IF Tier = "quick" THEN 9 ELSE 13)}
\* (c) the full segment of the larger heights, encodings mixed over the blocks (no perturbations: size)
BmFullCases ==
    {[Case("BitmapSegment", 1000, BmV(h, BmBlocks(2^h, LAMBDA j : BmEncs[(j % 3) + 1]), 2), GA, [h |-> h, enc |-> "mixed", chunks |-> 2^h, full |-> TRUE])
      EXCEPT !.pert = FALSE] : h \in (IF Tier = "quick" THEN {8, 9, 13} ELSE 8..13)}
BmAll == BmCases2 \cup BmHeightCases \cup BmOverCases \cup BmFullCases

(* PIBD responses and the remaining stored / relayed records *)
SegShapes == {[nh |-> nh, nl |-> nl, np |-> np] : nh \in {0, 2}, nl \in {0, 1, 3}, np \in {0, 2}}
SyncCases ==
    {Case("SegmentRangeProof", v, SegV("rproof", sh.nh, sh.nl, sh.np), GA, sh) : sh \in SegShapes, v \in Versions}
    \cup {Case("SegmentResponseKernel", v, [block_hash |-> "r.block_hash", segment |-> SegV("kernel", sh.nh, sh.nl, sh.np)], GA, sh) :
             sh \in {x \in SegShapes : x.nl > 0 \/ x.nh = 0}, v \in Versions}
    \cup {Case("SegmentResponseRangeProof", v, [block_hash |-> "r.block_hash", segment |-> SegV("rproof", sh.nh, sh.nl, sh.np)], GA, sh) :
             sh \in {x \in SegShapes : x.nl > 0 \/ x.nh = 0}, v \in {1, 1000}}
    \cup {Case("OutputSegmentResponse", v, [response |-> [block_hash |-> "r.block_hash", segment |-> SegV("outid", sh.nh, sh.nl, sh.np)],
                                            output_bitmap_root |-> "r.bitmap_root"], GA, sh) :
             sh \in {x \in SegShapes : x.nl > 0 \/ x.nh = 0}, v \in {1, 1000}}
    \cup {Case("OutputBitmapSegmentResponse", v, [block_hash |-> "r.block_hash", output_root |-> "r.output_root",
                                                  segment |-> BmV(h, BmBlocks(Min2(2^h, 65), LAMBDA j : enc), np)], GA,
                [h |-> h, enc |-> enc, np |-> np]) : h \in {0, 3, 7}, enc \in {"idx", "raw"}, np \in {0, 2}, v \in {1, 1000}}
    \cup {Case("PeerError", v, [code |-> NV("e.code", cl), msglen |-> ml, msg |-> "e.msg"], GA, [cls |-> cl, msglen |-> ml]) :
             cl \in {"any", "zero", "max"}, ml \in {0, 1, 40}, v \in {1, 1000}}
    \cup {Case("BlockSums", v, [utxo_sum |-> "bs.utxo", kernel_sum |-> "bs.kernel"], GA, [n |-> 0]) : v \in Versions}
    \cup {Case("MerkleProof", v, [mmr_size |-> NV("mp.size", cl), path |-> [j \in 1..n |-> "mp.h" \o ToString(j)]], GA, [n |-> n, cls |-> cl]) :
             cl \in {"any", "max"}, n \in {0, 1, 7, 128}, v \in {1, 1000}}

(* the network readers: admissible (mined) header, same shapes as the trusted Block / CompactBlock cases *)
UHdrV(p) ==
    [version |-> NV(p \o "version", "one"), height |-> NV(p \o "height", "zero"), ts |-> NV(p \o "ts", "ts_zero"),
     prev_hash |-> p \o "prev_hash", prev_root |-> p \o "prev_root", output_root |-> p \o "output_root",
     range_proof_root |-> p \o "range_proof_root", kernel_root |-> p \o "kernel_root",
     total_kernel_offset |-> p \o "total_kernel_offset", oms |-> NV(p \o "oms", "zero"), kms |-> NV(p \o "kms", "zero"),
     pow |-> [td |-> NV(p \o "td", "any"), ss |-> NV(p \o "ss", "any"), nonce |-> NV(p \o "nonce", "mined"),
              proof |-> [eb |-> 10, ps |-> ProofSize("auto"), nonces |-> NV(p \o "nonces", "mined")]]]
Untrusted(x) == [x EXCEPT !.via = "untrusted"]
UCases ==
    {Untrusted(Case("BlockHeader", v, UHdrV("h."), GA, [eb |-> 10, chain |-> "auto", cls |-> "mined", ts |-> "ts_zero"])) : v \in {1, 1000}}
    \cup {Untrusted(BodyCaseOf("Block", s, v, KindsBlock, TRUE, LAMBDA b : [header |-> UHdrV("h."), body |-> b])) :
             s \in {s \in Shapes : (Tier = "quick" => s.ni \in {0, 2}) /\ (s.var = "FC" \/ s.ni = 0 \/ Tier # "quick")}, v \in Versions}
    \cup {Untrusted(Case("CompactBlock", v,
                     [header |-> UHdrV("h."), nonce |-> NV("cb.nonce", "any"),
                      out_full |-> [j \in 1..no |-> OutV("o" \o ToString(j) \o ".", 1) @@ [r |-> j]],
                      kern_full |-> [j \in 1..nkf |-> KernItem("k" \o ToString(j) \o ".", "Coinbase", j)],
                      kern_ids |-> [j \in 1..nid |-> [id |-> "kid" \o ToString(j), r |-> j]]],
                     GA, [no |-> no, nkf |-> nkf, nid |-> nid])) : no \in 0..2, nkf \in 0..2, nid \in {0, 1, 3}, v \in {1, 1000}}
\* a block whose input spends an output of the same block: the trusted reader takes it, the network reader's validate_read refuses it
CutBody(var) == [inputs |-> IF var = "FC" THEN [var |-> "FC", items |-> <<[f |-> 0, c |-> "o1.c", ri |-> 1, rc |-> 1]>>]
                                         ELSE [var |-> "CO", items |-> <<[c |-> "o1.c", rc |-> 1]>>],
                 outputs |-> <<OutV("o1.", 0) @@ [r |-> 1]>>,
                 kernels |-> <<KernItem("k1.", "Plain", 1)>>]
CutCases == {[Case("Block", v, [header |-> UHdrV("h."), body |-> CutBody(var)], GA, [var |-> var, cut_through |-> TRUE])
              EXCEPT !.via = via, !.readable = (via = "trusted")] :
                var \in {"FC", "CO"}, v \in Versions, via \in {"trusted", "untrusted"}}

Cases == UCases \cup CutCases \cup SyncCases \cup KFCases \cup KernCases \cup IOCases \cup BodyCases \cup TxCases \cup BlockCases \cup CBlockCases
         \cup ProofCases \cup HdrCases2 \cup PowCases \cup FlatCases \cup AddrCases \cup PeerAddrsCases \cup LocatorCases
         \cup HandCases \cup ShakeCases \cup HeadersCases \cup SegCases \cup BmAll

Init == c \in Cases
Next == UNCHANGED c
Spec == Init /\ [][Next]_vars

-----------------------------------------------------------------------------
L(x)  == Lay(x.ty, x.val, x.ver, x.g)
DV(x, lay, g) == DecVia(x.via, x.ty, lay, x.ver, g)
D(x)  == DV(x, L(x), x.g)
W(x)  == Writable(x.ty, x.val, x.ver)
Checkable(x) == W(x) /\ HasDecoder(x.ty)

RECURSIVE HasNRD(_)
HasNRD(lay) == \E i \in 1..Len(lay) :
                 \/ ("role" \in DOMAIN lay[i] /\ lay[i].role = "tag" /\ lay[i].bad = KFBad /\ lay[i].v = 3)
                 \/ (lay[i].k = "sorted" /\ \E j \in 1..Len(lay[i].items) : HasNRD(lay[i].items[j].body))

\* Decode(Layout(x, v), v) = Norm_v(x), everything consumed; unreadable proofs are refused
RoundTrip == Checkable(c) => IF c.readable THEN D(c).ok /\ D(c).r = <<>> /\ D(c).val = Norm(c.ty, c.val, c.ver)
                                           ELSE ~D(c).ok
\* Layout(Decode(bytes)) = bytes
ReEncode == (Checkable(c) /\ c.readable) => Lay(c.ty, D(c).val, c.ver, c.g) = L(c)
\* identity hash: independent of the version reported to the hash writer, and unchanged by a round trip at c.ver
HashStable == (c.ty \in HashTypes) =>
                 /\ \A hv \in Versions \cup {0} : HWrite(c.ty, c.val, hv) = HLay(c.ty, c.val)
                 /\ (Checkable(c) /\ c.readable) => HLay(c.ty, D(c).val) = HLay(c.ty, c.val)
\* anti-vacuity for HashStable: the Transaction hash (not an identity hash under the property) is NOT stable:
\* the full layout of the body in hash mode differs once v3 dropped the input features.
\* every canonical-rule perturbation is refused
PertsRefused == (Checkable(c) /\ c.readable /\ c.pert) => \A p \in Perts(L(c)) : ~DV(c, p.lay, c.g).ok
NrdOffRefused == (Checkable(c) /\ HasNRD(L(c))) => ~DV(c, L(c), [c.g EXCEPT !.nrd = FALSE]).ok
\* CommitOnly inputs cannot be written below v3 (UnsupportedProtocolVersion), everything else can
WritableOK == W(c) <=> ~(c.ty \in {"TransactionBody", "Transaction", "Block"}
                         /\ (IF c.ty = "TransactionBody" THEN c.val ELSE c.val.body).inputs.var = "CO"
                         /\ Len((IF c.ty = "TransactionBody" THEN c.val ELSE c.val.body).inputs.items) > 0 /\ c.ver <= 2)

\* bit packing definition: unpack . pack = id, non-zero padding refused (small widths, exhaustive)
PackOK == \A w \in 1..4 : \A a, b, d \in 0..(2^w - 1) :
            LET vals == <<a, b, d>>
                pl == PadLen(3 * w)
                good == PackBytes(w, vals, [i \in 1..pl |-> 0])
            IN /\ Unpack(w, 3, good) = Ok(vals, <<>>)
               /\ \A q \in 1..pl : ~Unpack(w, 3, PackBytes(w, vals, [i \in 1..pl |-> IF i = q THEN 1 ELSE 0])).ok
ASSUME PackOK

\* hashing-form layouts of the list elements of the VALUE (in the value's own order): the harness builds the
\* real value's lists in ascending blake2b(render(key)) order, never with the code's own sort
BodyOfCase(x) == IF x.ty = "TransactionBody" THEN x.val ELSE x.val.body
Keys(x) ==
    IF x.ty \in {"TransactionBody", "Transaction", "Block"} THEN
        LET b == BodyOfCase(x) IN
        [inputs |-> [j \in 1..Len(b.inputs.items) |-> IF b.inputs.var = "FC" THEN OutIdLay(b.inputs.items[j]) ELSE CommitLay(b.inputs.items[j])],
         outputs |-> [j \in 1..Len(b.outputs) |-> OutIdLay(b.outputs[j])],
         kernels |-> [j \in 1..Len(b.kernels) |-> KernHLay(b.kernels[j])]]
    ELSE IF x.ty = "CompactBlock" THEN
        [inputs |-> <<>>, outputs |-> [j \in 1..Len(x.val.out_full) |-> OutIdLay(x.val.out_full[j])],
         kernels |-> [j \in 1..Len(x.val.kern_full) |-> KernHLay(x.val.kern_full[j])]]
    ELSE [inputs |-> <<>>, outputs |-> <<>>, kernels |-> <<>>]
PertSeq(x) == IF Checkable(x) /\ x.readable /\ x.pert THEN SetToSeq({[cls |-> p.cls, lay |-> p.lay] : p \in Perts(L(x))}) ELSE <<>>
EmitRec(x) == [ty |-> x.ty, ver |-> x.ver, g |-> x.g, sh |-> x.sh, val |-> x.val, writable |-> W(x),
               readable |-> x.readable, decodable |-> HasDecoder(x.ty), readers |-> Readers, big |-> ~x.pert, via |-> x.via,
               lay |-> IF W(x) THEN L(x) ELSE <<>>,
               hlay |-> IF x.ty \in HashTypes THEN HLay(x.ty, x.val) ELSE <<>>,
               nrdoff |-> Checkable(x) /\ HasNRD(L(x)), keys |-> Keys(x),
               perts |-> PertSeq(x)]
Emit == c.emit => PrintT(<<"WIRECASE", ToJson(EmitRec(c))>>)
\* a few concrete packings for the harness interpreter's self-check
PackSamples == {<<w, vals, PackBytes(w, vals, [i \in 1..PadLen(3 * w) |-> 0])>> : w \in {3, 5, 7, 10, 13}, vals \in {<<1, 2, 3>>, <<5, 0, 7>>, <<2^3 - 1, 2^2, 1>>}}
EmitPack == (c.ty = "Proof" /\ c.val.eb = 1 /\ c.g.chain = "auto" /\ c.val.nonces.cls = "any") =>
              PrintT(<<"PACKCASE", ToJson(SetToSeq(PackSamples))>>)
=======================================================================
