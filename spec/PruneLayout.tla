--------------------------- MODULE PruneLayout ---------------------------
(***************************************************************************)
(* C08, physical layer: the representation a prunable MMR backend keeps on *)
(* disk (store/src/pmmr.rs PMMRBackend + store/src/prune_list.rs PruneList *)
(* + store/src/leaf_set.rs + the two append-only files) and the refinement *)
(* mapping onto the abstract reference of PMMRStore.tla: "leaves appended, *)
(* leaves removed, leaves compacted away".                                  *)
(*                                                                         *)
(* The code-shaped part transcribes, statement by statement:               *)
(*   PruneList::{get_shift, get_leaf_shift, calculate_next_*shift,         *)
(*     cleanup_subtree, append_single, append, is_pruned, new, open /      *)
(*     init_caches (build_*shift_cache), unpruned_iter}                    *)
(*   LeafSet::{removed_pre_cutoff, rewind}                                 *)
(*   PMMRBackend::{append, append_pruned_subtree + PMMR::push_pruned_      *)
(*     subtree, remove, rewind, pos_to_rm, removed_excl_roots,             *)
(*     check_compact, AppendOnlyFile::write_tmp_pruned}                    *)
(* with rank / select / maximum of the roaring bitmap spelled out on sets. *)
(* The definitional part says what the layout MEANS: a node is pruned iff  *)
(* every leaf beneath it has been compacted away; the prune list holds the *)
(* maximal pruned subtree roots; the hash file holds, in position order,   *)
(* exactly the nodes that are not pruned or are such a root; the data file *)
(* holds exactly the leaves that are not pruned or are a height-0 root;    *)
(* the shift of a position is the number of file records missing before it.*)
(* TLC checks that every reachable code-shaped state satisfies the meaning.*)
(***************************************************************************)
EXTENDS Naturals, Integers, Sequences, FiniteSets, TLC

CONSTANTS MaxLeaves,      \* bound on appended leaves
          WithSubtrees,   \* TRUE: the state-sync action AppendPrunedSubtree is enabled
          Mut             \* "none"; any other value plants one deliberate transcription error (probe configs:
                          \* TLC must then report Refinement violated, which shows the invariants have teeth)

VARIABLES n,      \* number of leaves ever appended and not rewound (abstract)
          spent,  \* abstract: 0-based positions of removed leaves
          cmp,    \* abstract: 0-based positions of leaves compacted away
          ls,     \* code: leaf_set, 0-based positions (the file keeps them 1-based)
          pl,     \* code: prune list record [bm, sc, lsc, err]
          hf,     \* code: hash file = sequence of 0-based positions whose hash is stored
          df,     \* code: data file = sequence of 0-based leaf positions whose data is stored
          cut,    \* protocol: number of leaves at the last compaction cutoff
          bad     \* an assert! / index panic of the transcribed code was hit

vars == <<n, spent, cmp, ls, pl, hf, df, cut, bad>>

---------------------------------------------------------------------------
(* Arithmetic of the (infinite) post-order binary forest, 0-based           *)
RECURSIVE Pow2(_), BitLen(_), H1(_), PopCount(_)
Pow2(k) == IF k = 0 THEN 1 ELSE 2 * Pow2(k - 1)
BitLen(x) == IF x = 0 THEN 0 ELSE 1 + BitLen(x \div 2)
PopCount(x) == IF x = 0 THEN 0 ELSE (x % 2) + PopCount(x \div 2)
\* height of the 1-based position p1: jump left until the position is "all ones"
H1(p1) == IF p1 = Pow2(BitLen(p1)) - 1 THEN BitLen(p1) - 1
          ELSE H1(p1 - (Pow2(BitLen(p1) - 1) - 1))
Height(p0) == H1(p0 + 1)
IsRightChild(p0) == Height(p0 + 1) = Height(p0) + 1
Parent(p0)  == IF IsRightChild(p0) THEN p0 + 1 ELSE p0 + Pow2(Height(p0) + 1)
Sibling(p0) == IF IsRightChild(p0) THEN p0 - (Pow2(Height(p0) + 1) - 1) ELSE p0 + Pow2(Height(p0) + 1) - 1
Leftmost(p0) == p0 + 2 - Pow2(Height(p0) + 1)
Subtree(p0) == Leftmost(p0)..p0
LeafPos(i) == 2 * i - PopCount(i)            \* 0-based position of the i-th leaf (0-based)
SizeOf(k)  == LeafPos(k)                     \* MMR size with k leaves = position of the next leaf
U == SizeOf(MaxLeaves) + 2 * MaxLeaves       \* positions the model ever looks at
AllLeaves == {LeafPos(i) : i \in 0..(2 * MaxLeaves)}
LeavesUnder(p0) == {q \in Subtree(p0) : Height(q) = 0}
NLeavesUpTo(p1) == Cardinality({q \in AllLeaves : q + 1 <= p1})   \* pmmr::n_leaves for leaf positions and sizes

Min(a, b) == IF a < b THEN a ELSE b
SetMax(S) == IF S = {} THEN 0 ELSE CHOOSE x \in S : \A y \in S : y <= x
RECURSIVE SortedSeq(_)
SortedSeq(S) == IF S = {} THEN <<>> ELSE LET x == CHOOSE x \in S : \A y \in S : x <= y IN <<x>> \o SortedSeq(S \ {x})
SeqSet(s) == {s[i] : i \in 1..Len(s)}
Prefix(s, k) == IF k >= Len(s) THEN s ELSE SubSeq(s, 1, k)

---------------------------------------------------------------------------
(* PruneList, code-shaped.  bm holds 1-based positions like the bitmap.     *)
EmptyPL == [bm |-> {}, sc |-> <<>>, lsc |-> <<>>, err |-> FALSE]
Rank(bm, x) == Cardinality({e \in bm : e <= x})
\* Bitmap::select(k): the k-th smallest element, 0-based; 0 stands for None
Select(bm, k) == IF k < Cardinality(bm) THEN CHOOSE e \in bm : Rank(bm, e) = k + 1 ELSE 0

\* shift_cache[min(idx, len) - 1]; an empty cache with idx > 0 is an index panic
CacheAt(c, idx) == IF Len(c) = 0 THEN -1 ELSE c[Min(idx, Len(c))]
GetShift(p, pos0) == LET idx == Rank(p.bm, 1 + pos0) IN IF idx = 0 THEN 0 ELSE CacheAt(p.sc, idx)
GetLeafShift(p, pos0) == LET idx == Rank(p.bm, 1 + pos0) IN IF idx = 0 THEN 0 ELSE CacheAt(p.lsc, idx)
IsRoot(p, pos0) == (1 + pos0) \in p.bm
IsPrunedC(p, pos0) ==
    \/ IsRoot(p, pos0)
    \/ LET root == Select(p.bm, Rank(p.bm, 1 + pos0)) IN root # 0 /\ pos0 \in Subtree(root - 1)
GetTotalShift(p) == GetShift(p, (IF p.bm = {} THEN 1 ELSE SetMax(p.bm)) - 1)
GetTotalLeafShift(p) == GetLeafShift(p, (IF p.bm = {} THEN 1 ELSE SetMax(p.bm)) - 1)

NextShift(p, pos0) ==
    (IF pos0 = 0 THEN 0 ELSE GetShift(p, pos0 - 1))
    + (IF IsRoot(p, pos0) THEN 2 * (Pow2(Height(pos0)) - 1) ELSE 0)
NextLeafShift(p, pos0) ==
    (IF pos0 = 0 THEN 0 ELSE GetLeafShift(p, pos0 - 1))
    + (IF IsRoot(p, pos0) THEN (IF Height(pos0) = 0 THEN (IF Mut = "leafshift" THEN 1 ELSE 0) ELSE Pow2(Height(pos0))) ELSE 0)

CleanupSubtree(p, pos0) ==
    LET lc0 == Leftmost(pos0)
        size == SetMax(p.bm)
    IN IF lc0 >= size THEN p
       ELSE LET idx == Rank(p.bm, lc0)
            IN [p EXCEPT !.sc = Prefix(p.sc, IF Mut = "cleanup" THEN idx + 1 ELSE idx), !.lsc = Prefix(p.lsc, idx),
                         !.bm = {e \in p.bm : ~(lc0 + 1 <= e /\ e <= size)}]

AppendSingle(p, pos0) ==
    LET p1 == [p EXCEPT !.bm = p.bm \cup {1 + pos0}, !.err = p.err \/ pos0 < SetMax(p.bm)]
        p2 == [p1 EXCEPT !.sc = Append(p1.sc, NextShift(p1, pos0))]
    IN [p2 EXCEPT !.lsc = Append(p2.lsc, NextLeafShift(p2, pos0))]

RECURSIVE AppendC(_, _)
AppendC(p, pos0) ==
    IF pos0 < SetMax(p.bm) THEN [p EXCEPT !.err = TRUE]      \* assert!: prune list append only
    ELSE IF IsPrunedC(p, Sibling(pos0)) THEN AppendC(p, Parent(pos0))
    ELSE AppendSingle(CleanupSubtree(p, pos0), pos0)

RECURSIVE FoldAppend(_, _)
FoldAppend(p, s) == IF s = <<>> THEN p ELSE FoldAppend(AppendC(p, Head(s) - 1), Tail(s))
NewC(bitmap) == FoldAppend(EmptyPL, SortedSeq(bitmap))      \* PruneList::new: append every 1-based pos in order

\* build_shift_cache / build_leaf_shift_cache: clear, then one push per entry, reading the cache being built
RECURSIVE BuildSC(_, _), BuildLSC(_, _)
BuildSC(p, s) == IF s = <<>> THEN p
                 ELSE BuildSC([p EXCEPT !.sc = Append(p.sc, NextShift(p, Head(s) - 1))], Tail(s))
BuildLSC(p, s) == IF s = <<>> THEN p
                  ELSE BuildLSC([p EXCEPT !.lsc = Append(p.lsc, NextLeafShift(p, Head(s) - 1))], Tail(s))
InitCaches(p) == LET s == SortedSeq(p.bm) IN BuildLSC(BuildSC([p EXCEPT !.sc = <<>>, !.lsc = <<>>], s), s)
OpenC(bitmapOnDisk) == InitCaches(NewC(bitmapOnDisk))       \* PruneList::open

\* UnprunedIterator over pruned_bintree_range_iter, cut at cutoff_pos (1-based positions)
RECURSIVE UnprunedWalk(_, _, _, _)
UnprunedWalk(ranges, cur, cutoff, acc) ==
    IF cur > cutoff THEN acc
    ELSE IF ranges # <<>> /\ cur >= Head(ranges)[1]
         THEN UnprunedWalk(Tail(ranges), Head(ranges)[2], cutoff, acc)      \* skip the excluded range
         ELSE UnprunedWalk(ranges, cur + 1, cutoff, acc \cup {cur})
RangesOf(p) == LET s == SortedSeq(p.bm) IN [i \in 1..Len(s) |-> <<1 + Leftmost(s[i] - 1), 1 + s[i]>>]   \* [start, end)
UnprunedIterC(p, cutoff) == UnprunedWalk(RangesOf(p), 1, cutoff, {})
UnprunedLeafIterC(p, cutoff) == {x \in UnprunedIterC(p, cutoff) : Height(x - 1) = 0}

---------------------------------------------------------------------------
(* Meaning of the layout (definitional)                                     *)
Pruned(L) == {q \in 0..U : LeavesUnder(q) \subseteq L}          \* every leaf beneath has been compacted away
Roots(L)  == {q \in Pruned(L) : Parent(q) \notin Pruned(L)}     \* maximal pruned subtrees
Kept(L, size) == {q \in 0..(size - 1) : q \notin Pruned(L) \/ q \in Roots(L)}
KeptLeaves(L, size) == {q \in Kept(L, size) : Height(q) = 0}

---------------------------------------------------------------------------
(* Backend, code-shaped                                                     *)
Init == /\ n = 0 /\ spent = {} /\ cmp = {} /\ ls = {} /\ pl = EmptyPL /\ hf = <<>> /\ df = <<>> /\ cut = 0 /\ bad = FALSE

\* PMMR::push + PMMRBackend::append: data record, the leaf hash and the hashes of the parents it completes;
\* the leaf position entered into the leaf set is re-derived from the data file size and the total leaf shift
AppendLeaf ==
    /\ n < MaxLeaves
    /\ LET size == Len(df) + 1
           idx  == size + GetTotalLeafShift(pl) - 1
           pos  == IF idx >= 0 THEN LeafPos(idx) ELSE -1
       IN /\ ls' = ls \cup {pos}
          /\ df' = Append(df, LeafPos(n))
          /\ hf' = hf \o [i \in 1..(SizeOf(n + 1) - SizeOf(n)) |-> SizeOf(n) + i - 1]
    /\ n' = n + 1
    /\ UNCHANGED <<spent, cmp, pl, cut, bad>>

\* PMMRBackend::remove = leaf_set.remove
Remove(l) ==
    /\ l \in ls
    /\ ls' = ls \ {l} /\ spent' = spent \cup {l}
    /\ UNCHANGED <<n, cmp, pl, hf, df, cut, bad>>

\* pos_to_rm: expand the removed leaves to the parents whose both children go; 1-based positions
RECURSIVE Climb(_, _, _)
Climb(p, expanded, current1) ==
    LET parent0 == Parent(current1 - 1)
        sibling0 == Sibling(current1 - 1)
        sibPruned == Mut # "climb" /\ IsRoot(p, sibling0)
        e1 == IF sibPruned THEN expanded \cup {1 + sibling0} ELSE expanded
    IN IF sibPruned \/ (1 + sibling0) \in e1
       THEN Climb(p, e1 \cup {1 + parent0}, 1 + parent0)
       ELSE e1
RECURSIVE Expand(_, _, _)
Expand(p, leaves, expanded) ==
    IF leaves = <<>> THEN expanded
    ELSE Expand(p, Tail(leaves), Climb(p, expanded \cup {Head(leaves)}, Head(leaves)))
RemovedExclRoots(removed) == {x \in removed : (1 + Parent(x - 1)) \in removed}

\* AppendOnlyFile::write_tmp_pruned: walk the records; when the current index is anywhere in the remaining
\* list the record is skipped and the FIRST entry of the list is dropped (literal transcription)
RECURSIVE WritePruned(_, _, _, _)
WritePruned(file, cur, prune, acc) ==
    IF cur > Len(file) THEN acc
    ELSE IF \E i \in 1..Len(prune) : prune[i] = cur - 1          \* current_pos is 0-based
         THEN WritePruned(file, cur + 1, Tail(prune), acc)
         ELSE WritePruned(file, cur + 1, prune, Append(acc, file[cur]))

\* LeafSet::removed_pre_cutoff (1-based)
RemovedPreCutoff(cutoffPos, rewindRm) ==
    LET bitmap == {1 + l : l \in ls} \ {x \in 1..(U + 1) : x > cutoffPos}
        b2 == bitmap \cup rewindRm
        flipped == {x \in 1..cutoffPos : x \notin b2} \cup {x \in b2 : x > cutoffPos}
    IN flipped \cap UnprunedLeafIterC(pl, cutoffPos)

\* PMMRBackend::check_compact(cutoff_pos, rewind_rm_pos)
Compact(k, rewindRm0) ==
    /\ k \in cut..n
    /\ LET cutoffPos == SizeOf(k)
           rewindRm == {1 + l : l \in rewindRm0}
           leavesRemoved == RemovedPreCutoff(cutoffPos, rewindRm)
           posToRm == RemovedExclRoots(Expand(pl, SortedSeq(leavesRemoved), {}))
           hashIdx == [i \in 1..Cardinality(posToRm) |-> LET pos1 == SortedSeq(posToRm)[i] IN pos1 - GetShift(pl, pos1 - 1) - 1]
           leafToRm == SortedSeq({x \in posToRm : Height(x - 1) = 0})
           dataIdx == [i \in 1..Len(leafToRm) |-> NLeavesUpTo(leafToRm[i]) - GetLeafShift(pl, leafToRm[i]) - 1]
       IN /\ hf' = WritePruned(hf, 1, hashIdx, <<>>)
          /\ df' = WritePruned(df, 1, dataIdx, <<>>)
          /\ pl' = NewC(pl.bm \cup leavesRemoved)
          /\ cmp' = cmp \cup {x - 1 : x \in leavesRemoved}
    /\ cut' = k
    /\ UNCHANGED <<n, spent, ls, bad>>

\* PMMR::rewind -> PMMRBackend::rewind(position, rewind_rm_pos): position is the size at a boundary
Rewind(k, rewindRm0) ==
    /\ k \in cut..n
    /\ LET position == SizeOf(k)
           shift == IF position = 0 THEN 0 ELSE GetShift(pl, position - 1)
           leafShift == IF position = 0 THEN 0 ELSE GetLeafShift(pl, position)
       IN /\ ls' = {l \in ls : 1 + l <= position} \cup rewindRm0
          /\ hf' = Prefix(hf, position - shift)
          /\ df' = Prefix(df, NLeavesUpTo(position) - (IF Mut = "rewind" THEN 0 ELSE leafShift))
    /\ n' = k
    /\ spent' = {l \in spent : l < SizeOf(k)} \ rewindRm0
    /\ UNCHANGED <<cmp, pl, cut, bad>>

\* close and open the backend: the prune list is rebuilt from its file (bitmap of roots) and the caches
\* are recomputed from scratch
Reopen ==
    /\ pl' = OpenC(pl.bm)
    /\ UNCHANGED <<n, spent, cmp, ls, hf, df, cut, bad>>

\* State sync: PMMR::push_pruned_subtree(hash, pos0) on a backend whose size is exactly the subtree's first
\* position: one hash record for the subtree root, PruneList::append(pos0), then one record per parent that
\* the new root completes together with the peaks to its left.  The protocol (a segment never carries two
\* sibling pruned roots: the sender's own prune list has rolled them up) is a guard here.
RECURSIVE ParentsCompleted(_, _)
ParentsCompleted(pos0, acc) == IF IsRightChild(pos0) THEN ParentsCompleted(Parent(pos0), Append(acc, Parent(pos0))) ELSE acc
AppendPrunedSubtree(pos0) ==
    /\ WithSubtrees
    /\ Height(pos0) >= 1
    /\ Leftmost(pos0) = SizeOf(n)
    /\ n + Cardinality(LeavesUnder(pos0)) <= MaxLeaves
    /\ (Mut = "noguard" \/ ~IsPrunedC(pl, Sibling(pos0)))
    /\ hf' = (hf \o <<pos0>>) \o ParentsCompleted(pos0, <<>>)
    /\ pl' = AppendC(pl, pos0)
    /\ n' = n + Cardinality(LeavesUnder(pos0))
    /\ spent' = spent \cup LeavesUnder(pos0)
    /\ cmp' = cmp \cup LeavesUnder(pos0)
    /\ cut' = n'
    /\ UNCHANGED <<ls, df, bad>>

\* A unit of work that appended a pruned subtree and is then DISCARDED instead of synced: PMMRBackend::discard
\* restores the two files and the leaf set but not the prune list (it was changed in memory by
\* append_pruned_subtree).  State sync never discards such a unit (segments are validated before they are
\* applied), so the action is outside the protocol; it exists only under the probe switch, where TLC shows
\* that the layout breaks (the real backend reproduces it: unpruned_size 5 instead of 3).
SubtreeThenDiscard(pos0) ==
    /\ Mut = "discard" /\ WithSubtrees
    /\ Height(pos0) >= 1 /\ Leftmost(pos0) = SizeOf(n)
    /\ n + Cardinality(LeavesUnder(pos0)) <= MaxLeaves
    /\ pl' = AppendC(pl, pos0)
    /\ UNCHANGED <<n, spent, cmp, ls, hf, df, cut, bad>>

LiveBelow(k) == {l \in spent \ cmp : l < SizeOf(k)}
\* the "removed since the boundary" bitmaps the model tries: none, each single leaf, all (Full: every subset)
CONSTANT FullRewindSets
RWChoices(k) == IF FullRewindSets THEN SUBSET LiveBelow(k)
                ELSE {rw \in SUBSET LiveBelow(k) : Cardinality(rw) <= 1 \/ rw = LiveBelow(k)}
Next ==
    \/ AppendLeaf
    \/ \E l \in ls : Remove(l)
    \/ \E k \in cut..n : \E rw \in RWChoices(k) : Compact(k, rw)
    \/ \E k \in cut..n : \E rw \in RWChoices(k) : Rewind(k, rw)
    \/ Reopen
    \/ \E p0 \in 0..U : AppendPrunedSubtree(p0)
    \/ \E p0 \in 0..U : SubtreeThenDiscard(p0)

Spec == Init /\ [][Next]_vars

---------------------------------------------------------------------------
(* Invariants: the code-shaped state means what the definition says         *)
NoPanic == ~bad /\ ~pl.err /\ (\A i \in 1..Len(pl.sc) : pl.sc[i] >= 0) /\ (\A i \in 1..Len(pl.lsc) : pl.lsc[i] >= 0)

\* definitional number of records missing before pos0, given the pruned set P and its maximal roots R
MissingIn(P, R, pos0, leavesOnly) ==
    Cardinality({q \in 0..pos0 : /\ q \in P /\ q \notin R /\ (leavesOnly => Height(q) = 0)
                                  /\ \E r \in R : r <= pos0 /\ q \in Subtree(r)})

RefinementOn(P, R, K, KL, size) ==
    LET s == SortedSeq(pl.bm) IN
    \* RootsAreMaximal
    /\ pl.bm = {1 + r : r \in R}
    \* CachesMeanMissingRecords
    /\ Len(pl.sc) = Len(s) /\ Len(pl.lsc) = Len(s)
    /\ \A i \in 1..Len(s) : /\ pl.sc[i] = MissingIn(P, R, s[i] - 1, FALSE)
                            /\ pl.lsc[i] = MissingIn(P, R, s[i] - 1, TRUE)
    \* ShiftsMeanMissingRecords
    /\ \A q \in K : /\ GetShift(pl, q) = MissingIn(P, R, q, FALSE)
                    /\ (Height(q) = 0 => GetLeafShift(pl, q) = MissingIn(P, R, q, TRUE))
    \* IsPrunedMeansAllLeavesGone
    /\ \A q \in 0..(size - 1) : IsPrunedC(pl, q) = (q \in P)
    \* HashFileIsKept, DataFileIsKeptLeaves
    /\ hf = SortedSeq(K)
    /\ df = SortedSeq(KL)
    \* Addressing: get_from_file / get_data_from_file find the record of the position asked for
    /\ \A q \in K : LET i == 1 + q - GetShift(pl, q) IN i \in 1..Len(hf) /\ hf[i] = q
    /\ \A q \in KL : LET i == NLeavesUpTo(q + 1) - GetLeafShift(pl, 1 + q) IN i \in 1..Len(df) /\ df[i] = q
    \* UnprunedIterIsComplement
    /\ UnprunedIterC(pl, size) = {1 + q : q \in (0..(size - 1)) \ P}

LeafSetIsUnspent == ls = {LeafPos(i) : i \in 0..(n - 1)} \ spent
CompactedWereSpent == cmp \subseteq spent /\ \A l \in cmp : l < SizeOf(cut)
UnprunedSize == Len(hf) + GetTotalShift(pl) = SizeOf(n)       \* PMMRBackend::unpruned_size
\* a reopened prune list is the one kept in memory (the caches are a function of the roots)
ReopenIsStutter == OpenC(pl.bm) = pl

Refinement ==
    LET size == SizeOf(n)
        P == Pruned(cmp)
        R == {q \in P : Parent(q) \notin P}
        K == {q \in 0..(size - 1) : q \notin P \/ q \in R}
        KL == {q \in K : Height(q) = 0}
    IN /\ NoPanic /\ RefinementOn(P, R, K, KL, size)
       /\ LeafSetIsUnspent /\ CompactedWereSpent /\ UnprunedSize /\ ReopenIsStutter
=============================================================================
