----------------------------- MODULE Difficulty -----------------------------
(***************************************************************************)
(* Difficulty retarget and header-version schedule of grin: a TRANSCRIPTION *)
(* over the naturals of                                                     *)
(*   core/src/consensus.rs : header_version, valid_header_version,          *)
(*        secondary_pow_ratio, graph_weight, damp, clamp, next_difficulty,  *)
(*        next_dma_difficulty, next_wtema_difficulty, ar_count,             *)
(*        secondary_pow_scaling                                             *)
(*   core/src/global.rs    : difficulty_data_to_vector (pre-genesis         *)
(*        padding), min_edge_bits, base_edge_bits, initial_graph_weight,    *)
(*        min_wtema_graph_weight, max_block_weight per chain type           *)
(* It is an oracle and a case generator, not a state machine (property C04, *)
(* second sentence).  A *window* is the sequence the code's cursor yields:  *)
(* LATEST header first, each entry [ts, diff, scal, sec] = timestamp,       *)
(* network difficulty of that header, its secondary_scaling, is_secondary.  *)
(*                                                                         *)
(* Domain (the code panics outside it; no header of a chain is outside it): *)
(*   DMA   (header version < 5): Len(w) >= 1                                *)
(*   WTEMA (header version = 5): Len(w) >= 2                                *)
(*   timestamps non-decreasing towards the head (the code subtracts in u64) *)
(* TLC integers are 32-bit, the code computes in u64.  The transcription is *)
(* exact as long as no intermediate product reaches 2^31:                   *)
(*   DMA   : (sum of the 60 difficulties) * 60 < 2^31                       *)
(*           (every difficulty <= 2^19 is enough), ts < 2^31,               *)
(*           (ts[1]-ts[2]) * 60 < 2^31 for padded windows                   *)
(*   AR    : (sum of the 60 scalings) * 90 < 2^31 (every scaling <= 390000) *)
(*   WTEMA : last difficulty * 14400 < 2^31  (difficulty <= 149000)         *)
(* InRange states this; values beyond are not covered by this engine.       *)
(***************************************************************************)
EXTENDS Naturals, Sequences, FiniteSets

CONSTANT ChainParams   \* chain type name -> record of that chain type's constants

-----------------------------------------------------------------------------
(* consensus.rs constants *)
BLOCK_TIME_SEC       == 60
HOUR_SEC             == 3600
HOUR_HEIGHT          == HOUR_SEC \div BLOCK_TIME_SEC      \* 60
DAY_HEIGHT           == 24 * HOUR_HEIGHT                  \* 1440
WEEK_HEIGHT          == 7 * DAY_HEIGHT                    \* 10080
YEAR_HEIGHT          == 52 * WEEK_HEIGHT                  \* 524160
HARD_FORK_INTERVAL   == YEAR_HEIGHT \div 2                \* 262080
TESTING_HARD_FORK_INTERVAL == 3
DMA_WINDOW           == HOUR_HEIGHT                       \* 60
WTEMA_HALF_LIFE      == 4 * HOUR_SEC                      \* 14400
BLOCK_TIME_WINDOW    == DMA_WINDOW * BLOCK_TIME_SEC       \* 3600
CLAMP_FACTOR         == 2
DMA_DAMP_FACTOR      == 3
AR_SCALE_DAMP_FACTOR == 13
MIN_DMA_DIFFICULTY   == DMA_DAMP_FACTOR
MIN_AR_SCALE         == AR_SCALE_DAMP_FACTOR
BASE_EDGE_BITS       == 24
SECOND_POW_EDGE_BITS == 29
DEFAULT_MIN_EDGE_BITS == 31
OUTPUT_WEIGHT        == 21
KERNEL_WEIGHT        == 3
LAST_HF_VERSION      == 5

Min(a, b) == IF a <= b THEN a ELSE b
Max(a, b) == IF a >= b THEN a ELSE b
SatSub(a, b) == IF a >= b THEN a - b ELSE 0       \* u64::saturating_sub

RECURSIVE Pow2(_)
Pow2(n) == IF n = 0 THEN 1 ELSE 2 * Pow2(n - 1)

(* graph_weight(height, edge_bits) with the chain type's base_edge_bits; edge_bits >= base *)
GraphWeightB(base, height, eb) ==
  LET xpr == IF eb = 31 /\ height >= YEAR_HEIGHT
             THEN SatSub(eb, 1 + (height - YEAR_HEIGHT) \div WEEK_HEIGHT)
             ELSE eb
  IN (2 * Pow2(eb - base)) * xpr

C32_GRAPH_WEIGHT == (2 * Pow2(32 - BASE_EDGE_BITS)) * 32      \* 16384
UNIT_DIFFICULTY  == (2 * Pow2(SECOND_POW_EDGE_BITS - BASE_EDGE_BITS)) * SECOND_POW_EDGE_BITS  \* 1856

(***************************************************************************)
(* The four chain types (global.rs).  sched = "interval": version =         *)
(* min(5, 1 + height / interval); sched = "list": the four testnet heights. *)
(* initialDifficulty of Mainnet/Testnet (1_000_000 * 1856) is recorded for  *)
(* reference only; it is not used by the retarget.                          *)
(***************************************************************************)
GrinChainParams ==
  [ AutomatedTesting |->
      [ sched |-> "interval", interval |-> TESTING_HARD_FORK_INTERVAL, forks |-> <<>>,
        minEdgeBits |-> 10, baseEdgeBits |-> 10, proofSize |-> 8,
        initialGraphWeight |-> GraphWeightB(10, 0, 10),          \* 20
        minWtema |-> GraphWeightB(10, 0, 10),                    \* 20
        maxBlockWeight |-> 250 ],
    UserTesting |->
      [ sched |-> "interval", interval |-> TESTING_HARD_FORK_INTERVAL, forks |-> <<>>,
        minEdgeBits |-> 15, baseEdgeBits |-> 15, proofSize |-> 42,
        initialGraphWeight |-> GraphWeightB(15, 0, 15),          \* 30
        minWtema |-> GraphWeightB(15, 0, 15),
        maxBlockWeight |-> 250 ],
    Testnet |->
      [ sched |-> "list", interval |-> 0, forks |-> <<185040, 298080, 552960, 642240>>,
        minEdgeBits |-> DEFAULT_MIN_EDGE_BITS, baseEdgeBits |-> BASE_EDGE_BITS, proofSize |-> 42,
        initialGraphWeight |-> GraphWeightB(BASE_EDGE_BITS, 0, SECOND_POW_EDGE_BITS),   \* 1856
        minWtema |-> GraphWeightB(BASE_EDGE_BITS, 0, SECOND_POW_EDGE_BITS),
        maxBlockWeight |-> 40000 ],
    Mainnet |->
      [ sched |-> "interval", interval |-> HARD_FORK_INTERVAL, forks |-> <<>>,
        minEdgeBits |-> DEFAULT_MIN_EDGE_BITS, baseEdgeBits |-> BASE_EDGE_BITS, proofSize |-> 42,
        initialGraphWeight |-> GraphWeightB(BASE_EDGE_BITS, 0, SECOND_POW_EDGE_BITS),   \* 1856
        minWtema |-> C32_GRAPH_WEIGHT,                                                  \* 16384
        maxBlockWeight |-> 40000 ] ]

ChainTypeNames == {"AutomatedTesting", "UserTesting", "Testnet", "Mainnet"}

-----------------------------------------------------------------------------
(* header_version / valid_header_version *)
HeaderVersion(p, height) ==
  IF p.sched = "interval"
  THEN Min(LAST_HF_VERSION, 1 + height \div p.interval)
  ELSE 1 + Cardinality({i \in 1..Len(p.forks) : height >= p.forks[i]})

ValidHeaderVersion(p, height, v) == v = HeaderVersion(p, height)

GraphWeight(p, height, eb) == GraphWeightB(p.baseEdgeBits, height, eb)

(***************************************************************************)
(* pow/types.rs : ProofOfWork::to_difficulty(height)                        *)
(*   = Difficulty::from_num( Proof::scaled_difficulty(scale) )              *)
(*   scale = secondary_scaling            if edge_bits = SECOND_POW_EDGE_BITS*)
(*         = graph_weight(height, eb)     otherwise  (from_proof_adjusted)  *)
(*   scaled_difficulty(scale) = min(2^64-1, (scale * 2^64) div max(1, H))   *)
(*   from_num(n) = max(n, 1)                                                *)
(* where H = the first 8 bytes (big endian) of blake2b-256 of the proof's   *)
(* nonces packed at edge_bits bits each.  The hash itself is a primitive;   *)
(* the arithmetic is not.  TLC integers are 32-bit, so the trace carries    *)
(* the leading 30 bits of H (h30 = H div 2^34, measured by the harness with *)
(* its own packing + blake2b, not with Proof::hash) and the specification   *)
(* decides the quotient from the longest prefix hp of k bits (k <= 30) for  *)
(* which scale * 2^k still fits:   H in [hp*2^(64-k), (hp+1)*2^(64-k))  so  *)
(*     (scale*2^k) div (hp+1)  <=  (scale*2^64) div H  <=  (scale*2^k) div hp*)
(* The two bounds coincide for almost every hash when the quotient is small *)
(* against 2^k (AutomatedTesting: scale 20, k = 26); where they do not, the *)
(* value is left free inside the bracket.                                   *)
(***************************************************************************)
ProofScale(p, height, eb, scaling) ==
  IF eb = SECOND_POW_EDGE_BITS THEN scaling ELSE GraphWeight(p, height, eb)

RECURSIVE PrefixBits(_, _)
PrefixBits(scale, k) == IF k = 0 \/ scale <= 2147483647 \div Pow2(k) THEN k ELSE PrefixBits(scale, k - 1)

ProofDifficultyLo(scale, h30) ==
  LET k  == PrefixBits(scale, 30)
      hp == h30 \div Pow2(30 - k)
  IN Max(1, (scale * Pow2(k)) \div (hp + 1))

(* 0: no upper bound can be stated with this prefix (hp = 0: the hash has k leading zero bits) *)
ProofDifficultyHi(scale, h30) ==
  LET k  == PrefixBits(scale, 30)
      hp == h30 \div Pow2(30 - k)
  IN IF hp = 0 THEN 0 ELSE Max(1, (scale * Pow2(k)) \div hp)

ProofDifficultyOK(scale, h30, d) ==
  /\ d >= ProofDifficultyLo(scale, h30)
  /\ (ProofDifficultyHi(scale, h30) # 0 => d <= ProofDifficultyHi(scale, h30))

(* secondary_pow_ratio *)
SecondaryPowRatio(height) == SatSub(90, height \div ((2 * YEAR_HEIGHT) \div 90))

(* damp / clamp *)
Damp(actual, goal, f)  == (actual + (f - 1) * goal) \div f
Clamp(actual, goal, f) == Max(goal \div f, Min(actual, goal * f))

Entry(ts, diff, scal, sec) == [ts |-> ts, diff |-> diff, scal |-> scal, sec |-> sec]

(***************************************************************************)
(* difficulty_data_to_vector: take DMA_WINDOW+1 entries; if fewer, append   *)
(* simulated pre-genesis entries spaced by the last real interval (60 s if  *)
(* only one entry) with the LATEST entry's difficulty, the initial graph    *)
(* weight as scaling and is_secondary = true, timestamps saturating at 0;   *)
(* then reverse (result: earliest first, index 1..61 = code index 0..60).   *)
(***************************************************************************)
DataToVector(p, w) ==
  LET need  == DMA_WINDOW + 1
      n     == Min(Len(w), need)
      delta == IF n > 1 THEN w[1].ts - w[2].ts ELSE BLOCK_TIME_SEC
      lastF == [i \in 1..need |->
                  IF i <= n THEN w[i]
                  ELSE Entry(SatSub(w[n].ts, (i - n) * delta), w[1].diff, p.initialGraphWeight, TRUE)]
  IN [i \in 1..need |-> lastF[need + 1 - i]]

RECURSIVE SumDiff(_, _, _), SumScal(_, _, _), CountSec(_, _, _)
SumDiff(d, lo, hi)  == IF lo > hi THEN 0 ELSE d[lo].diff + SumDiff(d, lo + 1, hi)
SumScal(d, lo, hi)  == IF lo > hi THEN 0 ELSE d[lo].scal + SumScal(d, lo + 1, hi)
CountSec(d, lo, hi) == IF lo > hi THEN 0 ELSE (IF d[lo].sec THEN 1 ELSE 0) + CountSec(d, lo + 1, hi)

(* secondary_pow_scaling(height, &diff_data[1..]) : d is the 61-vector, entries 2..61 are used *)
AdjCount(height, d) ==
  LET targetPct   == SecondaryPowRatio(height)
      targetCount == DMA_WINDOW * targetPct
      arCount     == 100 * CountSec(d, 2, DMA_WINDOW + 1)
  IN Clamp(Damp(arCount, targetCount, AR_SCALE_DAMP_FACTOR), targetCount, CLAMP_FACTOR)

SecondaryPowScaling(height, d) ==
  LET scaleSum == SumScal(d, 2, DMA_WINDOW + 1)
      scale    == (scaleSum * SecondaryPowRatio(height)) \div Max(1, AdjCount(height, d))
  IN Max(MIN_AR_SCALE, scale)

(* next_dma_difficulty *)
AdjTs(d) == Clamp(Damp(d[DMA_WINDOW + 1].ts - d[1].ts, BLOCK_TIME_WINDOW, DMA_DAMP_FACTOR),
                  BLOCK_TIME_WINDOW, CLAMP_FACTOR)

NextDma(p, height, w) ==
  LET d       == DataToVector(p, w)
      diffSum == SumDiff(d, 2, DMA_WINDOW + 1)
  IN [diff |-> Max(1, Max(MIN_DMA_DIFFICULTY, (diffSum * BLOCK_TIME_SEC) \div AdjTs(d))),
      scal |-> SecondaryPowScaling(height, d)]

(* next_wtema_difficulty: only the last two headers matter; no more secondary PoW *)
NextWtema(p, height, w) ==
  LET lastBlockTime == w[1].ts - w[2].ts
      nextDiff == (w[1].diff * WTEMA_HALF_LIFE) \div (WTEMA_HALF_LIFE - BLOCK_TIME_SEC + lastBlockTime)
  IN [diff |-> Max(p.minWtema, Max(nextDiff, 1)), scal |-> 0]

IsWtema(p, height) == HeaderVersion(p, height) >= LAST_HF_VERSION

Defined(p, height, w) == IF IsWtema(p, height) THEN Len(w) >= 2 ELSE Len(w) >= 1

(* next_difficulty *)
NextDifficulty(p, height, w) ==
  IF IsWtema(p, height) THEN NextWtema(p, height, w) ELSE NextDma(p, height, w)

-----------------------------------------------------------------------------
(* Well-formed input within the 32-bit exactness range stated in the header comment. *)
MAXI == 2147483647
Monotone(w) == \A i \in 1..Len(w) - 1 : w[i].ts >= w[i + 1].ts
InRange(p, height, w) ==
  /\ Defined(p, height, w) /\ Monotone(w)
  /\ \A i \in 1..Len(w) : w[i].ts <= MAXI /\ w[i].diff >= 1
  /\ IF IsWtema(p, height)
     THEN w[1].diff <= MAXI \div WTEMA_HALF_LIFE
     ELSE LET n == Min(Len(w), DMA_WINDOW + 1) IN
          /\ (IF n > 1 THEN w[1].ts - w[2].ts ELSE 0) <= MAXI \div (DMA_WINDOW + 1)
          /\ \A i \in 1..n : w[i].diff <= 524288 /\ w[i].scal <= 390000

(***************************************************************************)
(* Properties of the retarget (second sentence of C04), checked by TLC over *)
(* every enumerated window (MC_Difficulty) -- derived from the formulas:    *)
(*  DMA:  damp(x, 3600, 3) = (x + 7200) / 3 >= 2400, so the lower clamp     *)
(*        (1800) is never reached and adj_ts is in [2400, 7200]; hence      *)
(*        max(3, S/120) <= next <= max(3, S/40) where S = sum of the 60     *)
(*        window difficulties (between 1/2 and 3/2 of the window average).  *)
(*  AR:   adj_count in [30*pct, 120*pct] (clamp 2 around 60*pct), hence for *)
(*        pct > 0:  max(13, C/120) <= scaling <= max(13, C/30), C = sum of  *)
(*        the 60 window scalings;  pct = 0 gives exactly 13.                *)
(*  WTEMA: timestamps strictly increase, so the divisor is >= 14341:        *)
(*        minWtema <= next <= max(minWtema, last*14400/14341); there is no  *)
(*        lower clamp other than the minimum (next >= last*14400/(14340+t)).*)
(***************************************************************************)
MinOK(p, height, w) ==
  LET r == NextDifficulty(p, height, w) IN
  IF IsWtema(p, height) THEN r.diff >= p.minWtema /\ r.diff >= 1 /\ r.scal = 0
  ELSE r.diff >= MIN_DMA_DIFFICULTY /\ r.scal >= MIN_AR_SCALE

StepOK(p, height, w) ==
  LET r == NextDifficulty(p, height, w) IN
  IF IsWtema(p, height)
  THEN /\ r.diff <= Max(p.minWtema, (w[1].diff * WTEMA_HALF_LIFE) \div (WTEMA_HALF_LIFE - BLOCK_TIME_SEC))
       /\ (w[1].ts > w[2].ts =>
             r.diff <= Max(p.minWtema, (w[1].diff * WTEMA_HALF_LIFE) \div (WTEMA_HALF_LIFE - BLOCK_TIME_SEC + 1)))
       /\ r.diff >= (w[1].diff * WTEMA_HALF_LIFE) \div (WTEMA_HALF_LIFE - BLOCK_TIME_SEC + (w[1].ts - w[2].ts))
  ELSE LET d == DataToVector(p, w)
           S == SumDiff(d, 2, DMA_WINDOW + 1)
           C == SumScal(d, 2, DMA_WINDOW + 1)
           pct == SecondaryPowRatio(height)
       IN /\ AdjTs(d) >= 2400 /\ AdjTs(d) <= BLOCK_TIME_WINDOW * CLAMP_FACTOR
          /\ r.diff >= Max(MIN_DMA_DIFFICULTY, S \div 120)
          /\ r.diff <= Max(MIN_DMA_DIFFICULTY, S \div 40)
          /\ AdjCount(height, d) >= (DMA_WINDOW * pct) \div CLAMP_FACTOR
          /\ AdjCount(height, d) <= DMA_WINDOW * pct * CLAMP_FACTOR
          /\ (pct > 0 => r.scal >= Max(MIN_AR_SCALE, C \div 120) /\ r.scal <= Max(MIN_AR_SCALE, C \div 30))
          /\ (pct = 0 => r.scal = MIN_AR_SCALE)

(* every padded vector has exactly 61 entries with non-decreasing timestamps: the function is total on its domain *)
VectorOK(p, w) ==
  LET d == DataToVector(p, w) IN
  /\ DOMAIN d = 1..(DMA_WINDOW + 1)
  /\ \A i \in 1..DMA_WINDOW : d[i].ts <= d[i + 1].ts
  /\ \A i \in 1..(DMA_WINDOW + 1) : d[i].diff >= 1
=============================================================================
