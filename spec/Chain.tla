------------------------------- MODULE Chain -------------------------------
(***************************************************************************)
(* Block/header acceptance pipeline of a grin node (chain/src/chain.rs,    *)
(* pipe.rs, txhashset/txhashset.rs, utxo_view.rs), implementation-shaped:  *)
(* header db, body db, body head, header head, the output MMR as a leaf    *)
(* sequence with an unspent leaf set, the output_pos index, the per-block  *)
(* spent index used for rewinding, stored block sums, the orphan pool.     *)
(* Next to it the DEFINITIONAL oracle: Replay(Path(b)) = state obtained by *)
(* applying b's ancestors from genesis, Valid(b), Work(b).                 *)
(*                                                                         *)
(* Decides (with the conformance harness h_chain):                         *)
(*   C02  UnspentIsReplay, IndexConsistent, SpentIdxInv                    *)
(*   C03  HeadValidated, HeadMaxWork, HeadMonotone, Confluence             *)
(*   C06  RejectLeavesState (action property)                              *)
(*   C13  MaturityInv, LockInv (via Valid)                                 *)
(*   C01  SumsInv (history clause)                                         *)
(***************************************************************************)
EXTENDS Naturals, Integers, Sequences, FiniteSets, TLC

CONSTANTS
  Trunk,         \* number of empty blocks 1..Trunk pre-minted in a line and already processed at Init
  MaxBlocks,     \* number of further blocks minted (ids Trunk+1..Trunk+MaxBlocks; genesis = 0)
  Diffs,         \* per-block difficulty choices
  Pool,          \* pool (non-coinbase) commitment ids, integers >= 100
  PoolVal,       \* [Pool -> value in units]
  Maturity,      \* coinbase maturity
  Flags,         \* corruption flags available to Mint ("ok" always available)
  MaxDeliveries, \* bound on Process* steps
  HeadersFirst,  \* TRUE: all headers are delivered (in id order) before any body (C03 setting)
  TxShapes       \* "none" | "small" (1-in-1-out) | "locks" (1-in-1-out, lock heights) | "nrd" (1-in-1-out, NRD kernels) | "full" (<=2 in, <=2 out, locks)
                 \* | "locks2" / "nrd2": as "locks" / "nrd" with up to TWO transactions (two kernels) per block and per pool query
                 \* | "nrdoff": as "nrd2" while the node's NRD feature flag is off (every NRD kernel is refused)

Reward == 4      \* units (1 unit = 15 grin in the harness)
Fee == 1

NoTx == [ins |-> {}, outs |-> {}, lock |-> 0]
HasTx(t) == t.outs # {}
\* the `lock` field of a transaction encodes its kernel: 0 = plain, 1..999 = height-locked at that
\* height, 1000 + 10*k + r = no-recent-duplicate kernel with excess key k and relative height r
IsNrd(t) == t.lock >= 1000
NrdKey(t) == (t.lock - 1000) \div 10
NrdRel(t) == (t.lock - 1000) % 10
LockH(t) == IF t.lock < 1000 THEN t.lock ELSE 0
NrdKeys == {1, 2}
NrdFrom == 9      \* first height whose header version allows NRD kernels (AutomatedTesting: HF every 3 blocks)
NrdEnabled == TxShapes # "nrdoff"     \* global::is_nrd_enabled()
ShapeLocks == TxShapes \in {"full", "locks", "locks2"}
ShapeNrd == TxShapes \in {"nrd", "nrd2", "nrdoff"}
ShapeTwo == TxShapes \in {"locks2", "nrd2", "nrdoff"}
\* compaction constants of the AutomatedTesting chain type (global.rs)
Horizon == 20         \* cut_through_horizon
CompactEvery == 60    \* Chain::compact runs only when head >= tail + Horizon + CompactEvery
SyncThreshold == 20   \* state_sync_threshold
ArchiveInterval == 10 \* txhashset_archive_interval

VARIABLES
  tree,     \* [0..k -> block record] all minted blocks
  n,        \* the node state (one record, see InitNode)
  ndel,     \* number of deliveries so far
  last      \* last action and its result (observation only; hidden by the VIEW in MC configs)
vars == <<tree, n, ndel, last>>

Ids == DOMAIN tree
Parent(b) == tree[b].parent
Height(b) == tree[b].height

RECURSIVE Path(_)
Path(b) == IF b = 0 THEN <<0>> ELSE Append(Path(Parent(b)), b)
RECURSIVE IsAnc(_, _)     \* a is an ancestor of b (or equal)
IsAnc(a, b) == IF a = b THEN TRUE ELSE IF b = 0 \/ Height(a) >= Height(b) THEN FALSE ELSE IsAnc(a, Parent(b))
RECURSIVE Work(_)
Work(b) == IF b = 0 THEN 1 ELSE Work(Parent(b)) + tree[b].diff
RECURSIVE LCA(_, _)
LCA(a, b) == IF a = b THEN a
             ELSE IF Height(a) > Height(b) THEN LCA(Parent(a), b)
             ELSE IF Height(b) > Height(a) THEN LCA(a, Parent(b))
             ELSE LCA(Parent(a), Parent(b))
\* blocks strictly after ancestor a up to b, in chain order
RECURSIVE Segment(_, _)
Segment(a, b) == IF a = b THEN <<>> ELSE Append(Segment(a, Parent(b)), b)

\* A block carries up to two transactions (tx, tx2; tx2 only if tx): Block::new aggregates them, so the body has
\* the union of their inputs and outputs and one kernel per transaction.  (Trees of other modules may lack tx2.)
Tx2(b) == IF "tx2" \in DOMAIN tree[b] THEN tree[b].tx2 ELSE NoTx
BTxs(b) == {t \in {tree[b].tx, Tx2(b)} : HasTx(t)}
BIns(b) == tree[b].tx.ins \cup Tx2(b).ins
BOuts(b) == tree[b].tx.outs \cup Tx2(b).outs
NTxs(b) == (IF HasTx(tree[b].tx) THEN 1 ELSE 0) + (IF HasTx(Tx2(b)) THEN 1 ELSE 0)
BlockFee(b) == Fee * NTxs(b)
\* lock height of a body = the MAX of its kernels' lock heights (TransactionBody::lock_height, Block::verify_kernel_lock_heights)
MaxLock2(t, t2) == IF LockH(t) >= LockH(t2) THEN LockH(t) ELSE LockH(t2)       \* (an absent transaction has lock 0)
BMaxLock(b) == MaxLock2(tree[b].tx, Tx2(b))
BNrd(b) == {t \in {tree[b].tx, Tx2(b)} : IsNrd(t)}
Val(c) == IF c < 100 THEN Reward + (IF c = 0 THEN 0 ELSE BlockFee(c)) ELSE PoolVal[c]
RECURSIVE SumVal(_)
SumVal(S) == IF S = {} THEN 0 ELSE LET c == CHOOSE x \in S : TRUE IN Val(c) + SumVal(S \ {c})

\* canonical order of the outputs of block b inside the output MMR (the real order is by
\* commitment bytes and is not observable through the projection)
RECURSIVE SetToSeq(_)
SetToSeq(S) == IF S = {} THEN <<>> ELSE LET c == CHOOSE x \in S : \A y \in S : x <= y IN <<c>> \o SetToSeq(S \ {c})
BlockOuts(b) == [i \in 1..Cardinality(BOuts(b)) |->
                    [c |-> SetToSeq(BOuts(b))[i], cb |-> FALSE, h |-> Height(b)]]
                \o <<[c |-> b, cb |-> TRUE, h |-> Height(b)]>>

-----------------------------------------------------------------------------
(* UTXO state = [outs: Seq(leaf), unspent: SUBSET 1..Len(outs)]             *)

EmptyU == [outs |-> <<>>, unspent |-> {}]
LeafOf(u, c) == {i \in u.unspent : u.outs[i].c = c}       \* unspent leaves carrying commitment c

\* Stateless body rules (Block::validate): balance, lock height, cut-through.
BodyOK(b) ==
  /\ tree[b].flag \notin {"badSums"}
  /\ BMaxLock(b) <= Height(b)                               \* every kernel's lock height, i.e. the largest
  /\ (BNrd(b) # {} => (NrdEnabled /\ Height(b) >= NrdFrom))  \* verify_nrd_kernels_for_header_version
  /\ BIns(b) \cap BOuts(b) = {}
  /\ HasTx(tree[b].tx) => SumVal(tree[b].tx.ins) = SumVal(tree[b].tx.outs) + Fee
  /\ HasTx(Tx2(b)) => SumVal(Tx2(b).ins) = SumVal(Tx2(b).outs) + Fee

\* the first body rule that refuses b (observation for signatures and reach quotas, never compared with an error kind)
BodyWhy(b) == IF tree[b].flag = "badSums" THEN "sums"
              ELSE IF BMaxLock(b) > Height(b) THEN (IF \E t \in BTxs(b) : LockH(t) <= Height(b) /\ LockH(t) > 0 THEN "lock_one_of_two_locked"
                                                         ELSE IF NTxs(b) = 2 THEN "lock_one_of_two" ELSE "lock")
              ELSE IF BNrd(b) # {} /\ ~(NrdEnabled /\ Height(b) >= NrdFrom) THEN (IF NrdEnabled THEN "nrd_header_version" ELSE "nrd_disabled")
              ELSE IF BIns(b) \cap BOuts(b) # {} THEN "cut_through" ELSE "unbalanced"

\* Stateless header rules (validate_header + validate_root in the header extension)
HeaderOK(b) == tree[b].flag \notin {"badTime", "badPrevRoot"}

\* Contextual rules of block b on UTXO state u (verify_coinbase_maturity, validate_utxo)
UtxoOK(u, b) ==
  /\ \A c \in BIns(b) : LeafOf(u, c) # {}                                   \* every input is unspent here
  /\ \A c \in BIns(b) : \A i \in LeafOf(u, c) : u.outs[i].cb => u.outs[i].h + Maturity <= Height(b)
  /\ \A c \in BOuts(b) \cup {b} : LeafOf(u, c) = {}                         \* no duplicate of an unspent commitment

\* late checks, after the block has been applied to the working MMRs
\* (output root, output MMR size, kernel root, range-proof root, kernel MMR size of the header)
LateFlags == {"badRoot", "badSize", "badKernelRoot", "badRproofRoot", "badKernelSize"}
LateOK(b) == tree[b].flag \notin LateFlags

SpentLeaves(u, b) == UNION {LeafOf(u, c) : c \in BIns(b)}
ApplyU(u, b) ==
  LET k == Len(u.outs)
      new == BlockOuts(b)
  IN [outs |-> u.outs \o new,
      unspent |-> (u.unspent \ SpentLeaves(u, b)) \cup (k+1..k+Len(new))]

-----------------------------------------------------------------------------
(* The definitional oracle *)

GenesisU == [outs |-> <<[c |-> 0, cb |-> TRUE, h |-> 0]>>, unspent |-> {1}]

RECURSIVE Replay(_)
Replay(b) == IF b = 0 THEN GenesisU ELSE ApplyU(Replay(Parent(b)), b)

\* heights (ascending) at which an NRD kernel with excess key k occurs on the chain ending in b
RECURSIVE NrdHist(_, _)
NrdHist(b, k) == IF b = 0 THEN <<>>
                 ELSE IF \E t \in BNrd(b) : NrdKey(t) = k THEN Append(NrdHist(Parent(b), k), Height(b))
                 ELSE NrdHist(Parent(b), k)
\* relative lock: the same excess must not have occurred fewer than `rel` blocks earlier on this fork
\* (kernel t at height h against the earlier occurrences `hist` of its excess)
NrdOKt(hist, t, h) == IsNrd(t) => (hist = <<>> \/ h - hist[Len(hist)] >= NrdRel(t))
\* two NRD kernels of one block carry different excesses (Mint), so each is judged against the parent's history
NrdOKb(b) == \A t \in BNrd(b) : NrdOKt(NrdHist(Parent(b), NrdKey(t)), t, Height(b))

RECURSIVE Valid(_)
Valid(b) == IF b = 0 THEN TRUE
            ELSE /\ Valid(Parent(b)) /\ HeaderOK(b) /\ BodyOK(b)
                 /\ UtxoOK(Replay(Parent(b)), b)
                 /\ NrdOKb(b)
                 /\ LateOK(b)

RECURSIVE HeaderChainOK(_)
HeaderChainOK(b) == IF b = 0 THEN TRUE ELSE HeaderOK(b) /\ HeaderChainOK(Parent(b))

-----------------------------------------------------------------------------
(* Node state *)

InitNode == [hdrs |-> {0}, bodies |-> {0}, head |-> 0, hhead |-> 0,
             u |-> GenesisU,
             opos |-> {<<0, 1>>},          \* output_pos index: set of <<commit, leaf>>
             nrd |-> [k \in NrdKeys |-> <<>>],    \* recent-kernel index: excess key -> heights (stack)
             spentIdx |-> [x \in {0} |-> {}],     \* block -> set of leaves it spent (blocks applied on a winning chain)
             sums |-> {0},                 \* blocks with stored block sums
             orph |-> <<>>,                \* orphan pool in insertion order
             tail |-> -1,                  \* body tail height (-1 = not set): set by the first stored block, moved by compaction,
                                           \* full blocks below it have been removed
             hz |-> 0]                     \* rewind horizon: height of the horizon block of the last compaction; the pruned MMR
                                           \* files can no longer be rewound below it

OposLeaf(nd, c) == {p[2] : p \in {q \in nd.opos : q[1] = c}}

\* --- implementation-shaped UTXO operations driven by the indices (not by Replay) ---
\* validate_input through the output_pos index
ImplLeafOf(u, opos, c) == {i \in {p[2] : p \in {q \in opos : q[1] = c}} : i \in u.unspent /\ u.outs[i].c = c}

ImplUtxoOK(u, opos, b) ==
  /\ \A c \in BIns(b) : ImplLeafOf(u, opos, c) # {}
  /\ \A c \in BIns(b) : \A i \in ImplLeafOf(u, opos, c) : u.outs[i].cb => u.outs[i].h + Maturity <= Height(b)
  /\ \A c \in BOuts(b) \cup {b} : ImplLeafOf(u, opos, c) = {}

UtxoWhy(u, opos, b) ==
  IF \E c \in BIns(b) : ImplLeafOf(u, opos, c) = {} THEN "input_not_unspent"
  ELSE IF \E c \in BIns(b) : \E i \in ImplLeafOf(u, opos, c) : u.outs[i].cb /\ u.outs[i].h + Maturity > Height(b)
       THEN (IF \E c \in BIns(b) : \E i \in ImplLeafOf(u, opos, c) : u.outs[i].cb /\ u.outs[i].h + Maturity = Height(b) + 1
             THEN "immature_coinbase_by_one" ELSE "immature_coinbase")
  ELSE "duplicate_commitment"

ImplSpent(u, opos, b) == UNION {ImplLeafOf(u, opos, c) : c \in BIns(b)}

\* apply_block: push outputs (+index), prune inputs (-index), save spent index
ImplApply(st, b) ==
  LET u == st.u
      k == Len(u.outs)
      new == BlockOuts(b)
      sp == ImplSpent(u, st.opos, b)
      spc == {u.outs[i].c : i \in sp}
  IN [u |-> [outs |-> u.outs \o new, unspent |-> (u.unspent \ sp) \cup (k+1..k+Len(new))],
      opos |-> ({p \in st.opos : p[1] \notin spc /\ p[1] \notin {new[j].c : j \in 1..Len(new)}})
               \cup {<<new[j].c, k + j>> : j \in 1..Len(new)},
      spentIdx |-> [x \in DOMAIN st.spentIdx \cup {b} |-> IF x = b THEN sp ELSE st.spentIdx[x]],
      sums |-> st.sums \cup {b},
      nrd |-> [kk \in DOMAIN st.nrd |-> IF \E t \in BNrd(b) : NrdKey(t) = kk THEN Append(st.nrd[kk], Height(b)) ELSE st.nrd[kk]],
      ok |-> st.ok]

\* rewind_single_block: truncate to the previous header's size, unspend via the spent index,
\* delete index entries of the block's outputs, restore index entries of unspent leaves
ImplRewindOne(st, b) ==
  LET u == st.u
      keep == Len(u.outs) - Len(BlockOuts(b))
      sp == IF b \in DOMAIN st.spentIdx THEN st.spentIdx[b] ELSE {}
      created == {BlockOuts(b)[j].c : j \in 1..Len(BlockOuts(b))}
      u2 == [outs |-> SubSeq(u.outs, 1, keep), unspent |-> {i \in u.unspent : i <= keep} \cup sp]
  IN [st EXCEPT !.u = u2,
                \* kernel_index.rewind for EVERY NRD kernel of the block: drop entries above the previous header
                !.nrd = [kk \in DOMAIN st.nrd |-> IF \E t \in BNrd(b) : NrdKey(t) = kk
                                                   THEN SelectSeq(st.nrd[kk], LAMBDA h : h < Height(b)) ELSE st.nrd[kk]],
                !.opos = {p \in st.opos : p[1] \notin created /\ p[1] \notin {u2.outs[i].c : i \in sp}}
                         \cup {<<u2.outs[i].c, i>> : i \in sp}]

\* apply_kernel_rules: peek the most recent entry of the recent-kernel index
ImplNrdOK(idx, b) == \A t \in BNrd(b) : NrdOKt(idx[NrdKey(t)], t, Height(b))

RECURSIVE ImplRewindTo(_, _, _)
\* rewind from block `from` (current extension head) down to ancestor `to`
ImplRewindTo(st, from, to) == IF from = to THEN st ELSE ImplRewindTo(ImplRewindOne(st, from), Parent(from), to)

RECURSIVE ImplApplyFork(_, _, _)
\* re-apply fork blocks in order with maturity/utxo/late re-checks; ok flag records failure
ImplApplyFork(st, blocks, i) ==
  IF i > Len(blocks) \/ ~st.ok THEN st
  ELSE LET b == blocks[i] IN
       IF ImplUtxoOK(st.u, st.opos, b) /\ ImplNrdOK(st.nrd, b) /\ LateOK(b)
       THEN ImplApplyFork(ImplApply(st, b), blocks, i + 1)
       ELSE [st EXCEPT !.ok = FALSE]

-----------------------------------------------------------------------------
(* process_block_header (pipe.rs) *)

KnownInPipe(nd, b) ==      \* check_known
  Work(b) <= Work(nd.head) /\ (b = nd.head \/ (nd.head # 0 /\ b = Parent(nd.head)) \/ b \in nd.bodies)

\* returns [nd, ok]
ProcHeader(nd, b) ==
  IF KnownInPipe(nd, b) THEN [nd |-> nd, ok |-> TRUE]
  ELSE IF Parent(b) \notin nd.hdrs THEN [nd |-> nd, ok |-> FALSE]
  ELSE IF b \in nd.hdrs /\ ~(Work(b) > Work(nd.hhead)) THEN [nd |-> nd, ok |-> TRUE]
  ELSE IF ~HeaderOK(b) THEN [nd |-> nd, ok |-> FALSE]
  ELSE [nd |-> [nd EXCEPT !.hdrs = @ \cup {b},
                          !.hhead = IF Work(b) > Work(nd.hhead) THEN b ELSE @],
        ok |-> TRUE]

(* sync_block_headers (pipe::process_block_headers): a batch of consecutive headers, all or nothing.
   Every header is validated against its predecessor (which may be earlier in the same batch) and
   saved; then the header MMR is rewound to the fork point and the fork headers are re-applied with
   their prev_root checked; the header head moves only if the last header has more work.          *)
RECURSIVE BatchOK(_, _, _)
BatchOK(nd, seq, i) ==
  IF i > Len(seq) THEN TRUE
  ELSE /\ (Parent(seq[i]) \in nd.hdrs \/ (i > 1 /\ Parent(seq[i]) = seq[i-1]))
       /\ HeaderOK(seq[i])
       /\ BatchOK(nd, seq, i + 1)
ProcHeaders(nd, seq) ==
  IF seq = <<>> THEN [nd |-> nd, ok |-> TRUE]
  ELSE IF ~BatchOK(nd, seq, 1) THEN [nd |-> nd, ok |-> FALSE]
  ELSE LET lastb == seq[Len(seq)] IN
       [nd |-> [nd EXCEPT !.hdrs = @ \cup {seq[i] : i \in 1..Len(seq)},
                          !.hhead = IF Work(lastb) > Work(nd.hhead) THEN lastb ELSE @],
        ok |-> TRUE]
\* the last k blocks of the path to b, in chain order
LastK(b, k) == LET p == Path(b) IN SubSeq(p, Len(p) - k + 1, Len(p))

(* process_block_single (chain.rs) + pipe::process_block as three stages, each one critical
   section (or one unlocked read) of the code, so that ChainConc.tla can interleave them:
     ProcHeader   the header section (own batch, committed on success)
     PreBody      is_known + check_orphan, read outside the chain locks
     BodyStage    pipe::process_block under the header-MMR and txhashset write locks
   Result classes: "reject" | "known" | "orphan" | "ok_head" | "ok_fork"                    *)
PreBody(nd, b) ==
  IF b = nd.head \/ (Work(b) <= Work(nd.head) /\ b \in nd.bodies) THEN [nd |-> nd, res |-> "known"]     \* is_known
  ELSE IF ~(Parent(b) = nd.head \/ Parent(b) \in nd.bodies)                                           \* check_orphan
       THEN [nd |-> [nd EXCEPT !.orph = IF \E i \in 1..Len(@) : @[i] = b THEN @ ELSE Append(@, b)], res |-> "orphan"]
  ELSE [nd |-> nd, res |-> "go"]

\* `note` = the adapter notification (block_accepted with determine_status): <<>> or one record
\* [b, st: "next" | "reorg" | "fork", fp: fork point], as the pool and the network layer receive it
NoNote == <<>>
\* `why`: the stage at which a refused block fails (observation only)
BodyStage(n1, b) ==
  IF KnownInPipe(n1, b) THEN [nd |-> n1, res |-> "known", note |-> NoNote, why |-> "-"]
  ELSE IF Parent(b) \notin n1.hdrs THEN [nd |-> n1, res |-> "reject", note |-> NoNote, why |-> "no_prev_header"]      \* prev_header_store (cannot happen sequentially)
  ELSE IF ~BodyOK(b) THEN [nd |-> n1, res |-> "reject", note |-> NoNote, why |-> BodyWhy(b)]
  ELSE
    LET prev == Parent(b)
        fp == LCA(n1.head, prev)
        st0 == [u |-> n1.u, opos |-> n1.opos, spentIdx |-> n1.spentIdx, sums |-> n1.sums, nrd |-> n1.nrd, ok |-> TRUE]
        st1 == ImplRewindTo(st0, n1.head, fp)
        st2 == ImplApplyFork(st1, Segment(fp, prev), 1)
    IN IF \E x \in {Segment(fp, prev)[i] : i \in 1..Len(Segment(fp, prev))} : x \notin n1.bodies
       THEN [nd |-> n1, res |-> "reject", note |-> NoNote, why |-> "fork_body_missing"]      \* a fork body is missing (get_block fails)
       ELSE IF ~st2.ok THEN [nd |-> n1, res |-> "reject", note |-> NoNote, why |-> "fork_reapply"]
       ELSE IF ~ImplUtxoOK(st2.u, st2.opos, b) THEN [nd |-> n1, res |-> "reject", note |-> NoNote,
                                                      why |-> IF fp # n1.head THEN "after_rewind:" \o UtxoWhy(st2.u, st2.opos, b) ELSE UtxoWhy(st2.u, st2.opos, b)]
       ELSE IF ~ImplNrdOK(st2.nrd, b) THEN [nd |-> n1, res |-> "reject", note |-> NoNote,
                                             why |-> IF Cardinality(BNrd(b)) = 2 THEN "nrd_relative_two_kernels" ELSE "nrd_relative"]
       ELSE IF ~LateOK(b) THEN [nd |-> n1, res |-> "reject", note |-> NoNote,
                                 why |-> IF NTxs(b) > 0 THEN tree[b].flag \o "_with_tx" ELSE tree[b].flag]
       ELSE LET st3 == ImplApply(st2, b) IN
            IF Work(b) > Work(n1.head)
            THEN [nd |-> [n1 EXCEPT !.u = st3.u, !.opos = st3.opos, !.spentIdx = st3.spentIdx,
                                    !.sums = st3.sums, !.nrd = st3.nrd, !.bodies = @ \cup {b}, !.head = b,
                                    !.tail = IF @ = -1 THEN Height(b) ELSE @],
                  res |-> "ok_head", why |-> "-",
                  \* determine_status asks whether the previous head is on the HEADER chain (header MMR), which
                  \* follows the header head, not the body head: a block that merely extends the head is reported
                  \* as a reorg while the header head is on another fork, and a real reorg as "next" when the
                  \* previous head is an ancestor of the header head
                  note |-> <<[b |-> b, st |-> IF Height(n1.head) <= Height(b) /\ IsAnc(n1.head, n1.hhead) THEN "next" ELSE "reorg", fp |-> fp]>>]
            ELSE [nd |-> [n1 EXCEPT !.bodies = @ \cup {b}, !.tail = IF @ = -1 THEN Height(b) ELSE @], res |-> "ok_fork", why |-> "-",
                  note |-> <<[b |-> b, st |-> "fork", fp |-> fp]>>]

ProcBlockSingle(nd, b) ==
  LET ph == ProcHeader(nd, b) IN
  IF ~ph.ok THEN [nd |-> nd, res |-> "reject", note |-> NoNote, why |-> "header"]
  ELSE LET pb == PreBody(ph.nd, b) IN
       IF pb.res # "go" THEN [nd |-> pb.nd, res |-> pb.res, note |-> NoNote, why |-> "-"] ELSE BodyStage(pb.nd, b)

\* check_orphans(height): process (in insertion order) all orphans at that height; if any
\* was accepted continue with the next height.
RemoveAt(sq, h) == SelectSeq(sq, LAMBDA x : Height(x) # h)
TakeAt(sq, h) == SelectSeq(sq, LAMBDA x : Height(x) = h)

RECURSIVE ProcOrphanList(_, _, _, _, _)
ProcOrphanList(nd, lst, i, acc, notes) ==
  IF i > Len(lst) THEN [nd |-> nd, accepted |-> acc, notes |-> notes]
  ELSE LET r == ProcBlockSingle(nd, lst[i]) IN
       ProcOrphanList(r.nd, lst, i + 1, acc \/ r.res \in {"ok_head", "ok_fork"}, notes \o r.note)

\* returns [nd, notes]
RECURSIVE CheckOrphansN(_, _, _)
CheckOrphansN(nd, h, notes) ==
  LET lst == TakeAt(nd.orph, h) IN
  IF lst = <<>> THEN [nd |-> nd, notes |-> notes]
  ELSE LET r == ProcOrphanList([nd EXCEPT !.orph = RemoveAt(@, h)], lst, 1, FALSE, notes) IN
       IF r.accepted THEN CheckOrphansN(r.nd, h + 1, r.notes) ELSE [nd |-> r.nd, notes |-> r.notes]
CheckOrphans(nd, h) == CheckOrphansN(nd, h, <<>>).nd

\* returns [nd, res, notes]: notes = the notifications of the call in order (the block itself, then retried orphans)
ProcBlock(nd, b) ==
  LET r == ProcBlockSingle(nd, b) IN
  IF r.res \in {"ok_head", "ok_fork"}
  THEN LET c == CheckOrphansN(r.nd, Height(b) + 1, r.note) IN [nd |-> c.nd, res |-> r.res, notes |-> c.notes, why |-> r.why]
  ELSE [nd |-> r.nd, res |-> r.res, notes |-> <<>>, why |-> r.why]

-----------------------------------------------------------------------------
(* Chain::compact (chain.rs): rewrites the pruned MMR files up to the horizon (no change of the
   abstract UTXO state, roots or indices), removes full blocks - with their block sums and spent
   index - below the cutoff height, re-initialises the output_pos and recent-kernel indices and
   moves the body tail.  A stutter on everything a user observes except the stored bodies.
   Reorganisations that fork below the horizon of an earlier compaction are outside this model. *)
SatSub(a, b) == IF a > b THEN a - b ELSE 0
CanCompact(nd) == nd.tail = -1 \/ Height(nd.head) >= nd.tail + Horizon + CompactEvery
CompactNode(nd) ==
  IF ~CanCompact(nd) THEN nd
  ELSE LET H == Height(nd.head)
           arch == SatSub(H, SyncThreshold) - (SatSub(H, SyncThreshold) % ArchiveInterval)   \* txhashset_archive_header
           cutoff == IF arch < SatSub(H, Horizon) THEN arch ELSE SatSub(H, Horizon)
       IN IF cutoff = 0 THEN [nd EXCEPT !.hz = SatSub(H, Horizon)]
          ELSE [nd EXCEPT !.tail = cutoff, !.hz = SatSub(H, Horizon),
                          !.bodies = {b \in @ : Height(b) >= cutoff},
                          !.sums = {b \in @ : Height(b) >= cutoff},
                          !.spentIdx = [x \in {y \in DOMAIN nd.spentIdx : Height(y) >= cutoff} |-> nd.spentIdx[x]]]

-----------------------------------------------------------------------------
(* Minting: any syntactically well-formed block on any existing parent *)

AllCommits == (Ids \cup Pool)           \* every commitment that may ever be named by an input
Subsets12(S, two) == {{a} : a \in S} \cup (IF two THEN {{a, b} : a \in S, b \in S} ELSE {})
TxChoices(h) ==
  IF TxShapes = "none" THEN {NoTx}
  ELSE {NoTx} \cup
       {[ins |-> I, outs |-> O, lock |-> lk] :
          I \in Subsets12(AllCommits, TxShapes = "full"),
          O \in Subsets12(Pool, TxShapes = "full"),
          lk \in (IF ShapeLocks THEN {0, h, h + 1}
                  ELSE IF ShapeNrd THEN {0} \cup {1000 + 10 * k + r : k \in NrdKeys, r \in {1, 2}}
                  ELSE {0})}
\* a second transaction next to t: disjoint from it (Block::new would cut a spend of t's output through), and a
\* second NRD kernel carries the other excess
Tx2Choices(h, t) ==
  IF ~ShapeTwo \/ ~HasTx(t) THEN {NoTx}
  ELSE {NoTx} \cup {t2 \in TxChoices(h) \ {NoTx} :
                      /\ (t2.ins \cup t2.outs) \cap (t.ins \cup t.outs) = {}
                      /\ ~(IsNrd(t) /\ IsNrd(t2) /\ NrdKey(t) = NrdKey(t2))}

Mint2(p, d, t, t2, f) ==
  LET id == Cardinality(Ids) IN
  /\ id <= Trunk + MaxBlocks
  /\ ndel = 0
  /\ t.ins \cap t.outs = {} /\ t2.ins \cap t2.outs = {}
  /\ id \notin t.ins \cup t2.ins        \* cannot spend its own coinbase
  /\ HasTx(t) => SumVal(t.ins) = SumVal(t.outs) + Fee      \* only value-balanced bodies are minted (badSums is a flag)
  /\ HasTx(t2) => (HasTx(t) /\ SumVal(t2.ins) = SumVal(t2.outs) + Fee)
  /\ (t2.ins \cup t2.outs) \cap (t.ins \cup t.outs) = {}
  /\ ~(IsNrd(t) /\ IsNrd(t2) /\ NrdKey(t) = NrdKey(t2))
  \* blocks corrupted at the header or body stage carry no transaction (keeps the product of choices small); blocks
  \* that fail LATE (after their inputs were pruned and their outputs pushed on the working MMRs) may carry some
  /\ (f \notin LateFlags \cup {"ok"} => ~HasTx(t))
  /\ tree' = [x \in Ids \cup {id} |-> IF x = id THEN [parent |-> p, height |-> Height(p) + 1, diff |-> d, tx |-> t, tx2 |-> t2, flag |-> f]
                                                ELSE tree[x]]
  /\ last' = [k |-> "Mint", b |-> id, res |-> "-"]
  /\ UNCHANGED <<n, ndel>>
Mint(p, d, t, f) == Mint2(p, d, t, NoTx, f)

\* exhaustive configurations: late flags combine with a transaction for the flags named in LateTxFlags only
LateTxFlags == {"badRproofRoot", "badKernelSize"}
MintAny == \E p \in Ids, d \in Diffs, f \in Flags \cup {"ok"} :
             \E t \in (IF f \in LateTxFlags \cup {"ok"} THEN TxChoices(Height(p) + 1) ELSE {NoTx}) :
               \E t2 \in (IF f = "ok" THEN Tx2Choices(Height(p) + 1, t) ELSE {NoTx}) : Mint2(p, d, t, t2, f)

AllMinted == Cardinality(Ids) = Trunk + MaxBlocks + 1
\* headers-first discipline for the C03 configuration
HeadersDone == \A b \in Ids : HeaderChainOK(b) => b \in n.hdrs

DeliverHeader(b) ==
  /\ AllMinted /\ ndel < MaxDeliveries
  /\ (HeadersFirst => /\ ~HeadersDone
                      /\ \A x \in Ids : (x < b /\ HeaderChainOK(x)) => x \in n.hdrs)   \* id order is topological
  /\ LET r == ProcHeader(n, b) IN
       /\ n' = r.nd
       /\ last' = [k |-> "ProcessHeader", b |-> b, res |-> IF r.ok THEN "ok" ELSE "reject"]
  /\ ndel' = ndel + 1
  /\ UNCHANGED tree

DeliverBlock(b) ==
  /\ AllMinted /\ ndel < MaxDeliveries
  /\ (HeadersFirst => HeadersDone)
  /\ LET r == ProcBlock(n, b) IN
       /\ n' = r.nd
       /\ last' = [k |-> "ProcessBlock", b |-> b, res |-> r.res, notes |-> r.notes, why |-> r.why]
  /\ ndel' = ndel + 1
  /\ UNCHANGED tree

\* sync_block_headers takes the caller's sync head sh (any header the caller knows; the header-sync loop
\* tracks the tip of the fork it is following there).  It must not influence the node's state: the header
\* head moves on more work than the stored header head only.  It only decides the returned new sync head:
\* Some(last) iff sh is not on the chain of the batch's last header or the last header has more work.
SyncRet(sh, lastb) == IF ~IsAnc(sh, lastb) \/ Work(lastb) > Work(sh) THEN "some" ELSE "none"
DeliverHeadersFrom(b, k, sh) ==
  /\ AllMinted /\ ndel < MaxDeliveries /\ ~HeadersFirst
  /\ k \in 1..Height(b) /\ k <= 3
  /\ sh \in n.hdrs
  /\ LET r == ProcHeaders(n, LastK(b, k)) IN
       /\ n' = r.nd
       /\ last' = [k |-> "SyncHeaders", b |-> b, res |-> IF r.ok THEN "ok" ELSE "reject", cnt |-> k,
                    sh |-> sh, ret |-> IF r.ok THEN SyncRet(sh, b) ELSE "-"]
  /\ ndel' = ndel + 1
  /\ UNCHANGED tree
DeliverHeaders(b, k) ==
  /\ AllMinted /\ ndel < MaxDeliveries /\ ~HeadersFirst
  /\ k \in 1..Height(b) /\ k <= 3
  /\ LET r == ProcHeaders(n, LastK(b, k)) IN
       /\ n' = r.nd
       /\ last' = [k |-> "SyncHeaders", b |-> b, res |-> IF r.ok THEN "ok" ELSE "reject", cnt |-> k,
                    sh |-> n.hhead, ret |-> IF r.ok THEN SyncRet(n.hhead, b) ELSE "-"]
  /\ ndel' = ndel + 1
  /\ UNCHANGED tree

Reopen ==
  /\ AllMinted /\ ndel < MaxDeliveries /\ ndel > 0 /\ last.k # "Reopen"
  /\ n' = [n EXCEPT !.orph = <<>>]
  /\ last' = [k |-> "Reopen", b |-> 0, res |-> "ok"]
  /\ ndel' = ndel + 1
  /\ UNCHANGED tree

(* TxHashSet::init_output_pos_index, run by Chain::init (every Reopen) and by Chain::compact: make the output_pos
   index consistent with the unspent leaves again.  Phase 1 walks the index and deletes every entry that does not
   point at an unspent leaf holding the key's commitment and being that commitment's indexed position; phase 2 adds
   an entry (with the height of the first best-chain header whose output MMR covers the position = the creation
   height) for every unspent leaf whose commitment has no entry left.                                            *)
InitOpos(u, opos0) ==
  LET PosOf(idx, c) == {p[2] : p \in {q \in idx : q[1] = c}}
      keep == {p \in opos0 : /\ p[2] \in u.unspent
                             /\ p[2] \in PosOf(opos0, u.outs[p[2]].c)      \* get_output_pos(out.commitment()) = pos
                             /\ p[1] = u.outs[p[2]].c}                       \* is_match_output_pos_key
      missing == {i \in u.unspent : PosOf(keep, u.outs[i].c) = {}}
  IN keep \cup {<<u.outs[i].c, i>> : i \in missing}
\* A restart on a DAMAGED index (entries lost: `del`, a set of commitments; stale / misdirected entries present:
\* `stale`, a function commitment -> leaf, one entry per key as in the key-value store).  The rebuild must give
\* back the index a clean run maintains - IndexConsistent and the unchanged projection decide.
DamagedOpos(nd, del, stale) == {p \in nd.opos : p[1] \notin del /\ p[1] \notin DOMAIN stale}
                               \cup {<<c, stale[c]>> : c \in DOMAIN stale}
Reindex(del, stale) ==
  /\ AllMinted /\ ndel < MaxDeliveries /\ ndel > 0 /\ last.k \notin {"Reopen", "Reindex"}
  /\ n' = [n EXCEPT !.orph = <<>>, !.opos = InitOpos(n.u, DamagedOpos(n, del, stale))]
  /\ last' = [k |-> "Reindex", b |-> 0, res |-> "ok", del |-> del,
               \* for the harness: the key, the commitment sitting at the leaf it is pointed to (-1: beyond the MMR) and whether that leaf is unspent
               stale |-> {[c |-> c, at |-> IF stale[c] <= Len(n.u.outs) THEN n.u.outs[stale[c]].c ELSE -1, live |-> stale[c] \in n.u.unspent] : c \in DOMAIN stale}]
  /\ ndel' = ndel + 1
  /\ UNCHANGED tree

(* Chain::unspent_outputs_by_pmmr_index(start, max_count, max_index): the unspent outputs in MMR order, from a
   position, at most max_count of them, not beyond a position; the caller resumes behind the last position
   returned.  In leaf indices:                                                                              *)
UnspentSeq(u) == SelectSeq([i \in 1..Len(u.outs) |-> i], LAMBDA i : i \in u.unspent)      \* ascending leaf index
EnumPage(u, from, cnt, upto) ==
  LET sq == SelectSeq(UnspentSeq(u), LAMBDA i : from <= i /\ i <= upto) IN SubSeq(sq, 1, IF cnt < Len(sq) THEN cnt ELSE Len(sq))
RECURSIVE EnumWalk(_, _, _, _)      \* all pages of size cnt concatenated
EnumWalk(u, from, cnt, upto) ==
  LET pg == EnumPage(u, from, cnt, upto) IN
  IF pg = <<>> THEN <<>> ELSE pg \o EnumWalk(u, pg[Len(pg)] + 1, cnt, upto)
\* what the walk must deliver: the commitments of the unspent leaves in MMR order (the order of the outputs of ONE
\* block is by commitment bytes in the code and by id here; the harness compares block-wise)
EnumOf(u) == LET sq == UnspentSeq(u) IN [j \in 1..Len(sq) |-> u.outs[sq[j]].c]
\* sizes the header of b commits to: output leaves and kernels (one per block + one per transaction) up to b
RECURSIVE OutCount(_)
OutCount(b) == IF b = 0 THEN 1 ELSE OutCount(Parent(b)) + Cardinality(BOuts(b)) + 1
RECURSIVE KernelCount(_)
KernelCount(b) == IF b = 0 THEN 1 ELSE KernelCount(Parent(b)) + 1 + NTxs(b)
RECURSIVE AncAt(_, _)
AncAt(b, h) == IF Height(b) <= h THEN b ELSE AncAt(Parent(b), h)
\* the scan bounded by the output MMR size of the ancestor a of the head: the currently unspent leaves up to it
EnumUpTo(nd, a) == {nd.u.outs[i].c : i \in {j \in nd.u.unspent : j <= OutCount(a)}}

\* the call is a no-op unless CanCompact; Next only takes it when it does something
\* (assumption of the model, see above: no minted block forks off below the new horizon)
ForksAbove(nd, h) == \A b \in Ids : IsAnc(b, nd.head) \/ Height(LCA(b, nd.head)) >= h
CompactCall ==
  /\ AllMinted /\ ndel < MaxDeliveries /\ ndel > 0 /\ last.k # "Compact"
  /\ (CanCompact(n) => ForksAbove(n, SatSub(Height(n.head), Horizon))) = TRUE   \* (= TRUE: evaluated as a state predicate, not split into sub-actions)
  /\ n' = CompactNode(n)
  /\ last' = [k |-> "Compact", b |-> 0, res |-> "ok"]
  /\ ndel' = ndel + 1
  /\ UNCHANGED tree

Compact == CompactNode(n) # n /\ CompactCall

(* Chain::reset_chain_head(header, rewind_headers = true) - the owner API's reset: rewind the body
   state to the fork point with the target, re-apply the target's branch from the stored bodies, then
   set BOTH heads to the target.  An operator action: the head may lose work (HeadMaxWork and
   HeadMonotone do not apply to it), the state must still be the replay of the new head.          *)
ResetNode(nd, b) ==
  IF b \notin nd.hdrs THEN [nd |-> nd, ok |-> FALSE]
  ELSE LET fp == LCA(nd.head, b)
           seg == Segment(fp, b)
           st0 == [u |-> nd.u, opos |-> nd.opos, spentIdx |-> nd.spentIdx, sums |-> nd.sums, nrd |-> nd.nrd, ok |-> TRUE]
           st1 == ImplRewindTo(st0, nd.head, fp)
           st2 == ImplApplyFork(st1, seg, 1)
       IN IF (\E i \in 1..Len(seg) : seg[i] \notin nd.bodies) \/ ~st2.ok THEN [nd |-> nd, ok |-> FALSE]
          ELSE [nd |-> [nd EXCEPT !.u = st2.u, !.opos = st2.opos, !.spentIdx = st2.spentIdx, !.sums = st2.sums,
                                  !.nrd = st2.nrd, !.head = b, !.hhead = b],
                ok |-> TRUE]
ResetHead(b) ==
  /\ AllMinted /\ ndel < MaxDeliveries /\ ndel > 0
  /\ Height(LCA(n.head, b)) >= n.hz
  /\ LET r == ResetNode(n, b) IN
       /\ n' = r.nd
       /\ last' = [k |-> "ResetHead", b |-> b, res |-> IF r.ok THEN "ok" ELSE "reject"]
  /\ ndel' = ndel + 1
  /\ UNCHANGED tree

(* A read-only rewind of the body state to an ancestor of the head that is not below the rewind
   horizon (what txhashset_read, the segmenter and fork processing rely on): the rewound UTXO state
   is the replay of that ancestor, so its roots validate against the ancestor's header.           *)
RewoundU(nd, b) == ImplRewindTo([u |-> nd.u, opos |-> nd.opos, spentIdx |-> nd.spentIdx, sums |-> nd.sums, nrd |-> nd.nrd, ok |-> TRUE],
                                nd.head, b).u
Probe(b) ==
  /\ AllMinted /\ ndel < MaxDeliveries /\ ndel > 0
  /\ IsAnc(b, n.head) /\ Height(b) >= n.hz
  /\ last' = [k |-> "Probe", b |-> b, res |-> IF RewoundU(n, b) = Replay(b) THEN "ok" ELSE "reject"]
  /\ ndel' = ndel + 1
  /\ UNCHANGED <<tree, n>>

(* The pool-facing queries of the chain (what TransactionPool asks before admitting a transaction):
   validate_tx (inputs unspent, outputs not duplicating an unspent commitment, NRD relative lock against
   the recent-kernel index), verify_coinbase_maturity and verify_tx_lock_height - all for the NEXT
   block, i.e. at height(body head) + 1, whatever the header head is.                              *)
\* The query is about the AGGREGATE of one or two transactions (what the pool holds after aggregation): the union of
\* their inputs and outputs, one kernel each; its lock height is the largest of the kernels' lock heights.
\* `spent` is what Chain::validate_inputs answers for the inputs: the outputs they would spend with their
\* creation heights, or "err" when one of them is not unspent.
TxQueryRes2(nd, t, t2) ==
  LET h == Height(nd.head) + 1
      T == {x \in {t, t2} : HasTx(x)}
      ins == t.ins \cup t2.ins
      outs == t.outs \cup t2.outs
      found == \A c \in ins : ImplLeafOf(nd.u, nd.opos, c) # {}
      utxo == /\ found
              /\ \A c \in outs : ImplLeafOf(nd.u, nd.opos, c) = {}
              \* with the feature flag off validate_tx enforces nothing about NRD kernels (the pool refuses them itself)
              /\ \A x \in T : (IsNrd(x) /\ NrdEnabled) => NrdOKt(nd.nrd[NrdKey(x)], x, h)
      mat == /\ found
             /\ \A c \in ins : \A i \in ImplLeafOf(nd.u, nd.opos, c) : nd.u.outs[i].cb => nd.u.outs[i].h + Maturity <= h
      lock == MaxLock2(t, t2) <= h
      spent == IF found THEN {[c |-> q[1], h |-> nd.u.outs[q[2]].h] :
                                 q \in {r \in ins \X (1..Len(nd.u.outs)) : r[2] \in ImplLeafOf(nd.u, nd.opos, r[1])}}
               ELSE {}
  IN [utxo |-> utxo, mat |-> mat, lock |-> lock, found |-> found, spent |-> spent]
TxQueryRes(nd, t) == TxQueryRes2(nd, t, NoTx)
QueryTx2(t, t2) ==
  /\ AllMinted /\ ndel < MaxDeliveries /\ ndel > 0
  /\ last' = [k |-> "QueryTx", b |-> 0, res |-> TxQueryRes2(n, t, t2), tx |-> t, tx2 |-> t2]
  /\ ndel' = ndel + 1
  /\ UNCHANGED <<tree, n>>
QueryTx(t) == QueryTx2(t, NoTx)

\* Trunk block k carries the transaction (coinbase of k-4 and the pool output 200+k-4 -> pool output
\* 200+k) iff the commitment 200+k is in Pool, so that in a long trunk nearly every old leaf is spent
\* and compaction really prunes (a leaf is only removed together with its spent sibling).
TrunkTx(k) == IF (200 + k) \in Pool /\ k >= 8
              THEN [ins |-> {k - 4} \cup (IF (200 + k - 4) \in Pool /\ k >= 12 THEN {200 + k - 4} ELSE {}), outs |-> {200 + k}, lock |-> 0]
              ELSE NoTx
TrunkTree == [x \in 0..Trunk |-> [parent |-> IF x = 0 THEN 0 ELSE x - 1, height |-> x, diff |-> 1, tx |-> TrunkTx(x), tx2 |-> NoTx, flag |-> "ok"]]
RECURSIVE TrunkNode(_)
TrunkNode(k) == IF k = 0 THEN InitNode ELSE ProcBlock(TrunkNode(k - 1), k).nd

Init == /\ tree = TrunkTree
        /\ n = TrunkNode(Trunk)
        /\ ndel = 0
        /\ last = [k |-> "Init", b |-> 0, res |-> "-"]

Next == \/ MintAny
        \/ \E b \in Ids \ {0} : DeliverHeader(b) \/ DeliverBlock(b) \/ (\E k \in 2..3 : DeliverHeaders(b, k))
        \/ Reopen
        \/ Compact
\* with restarts on a damaged output_pos index: any one entry lost and/or any one key pointed at any leaf (incl. one
\* beyond the MMR) - configurations that check the C02 invariants
StaleChoices == {<<>>} \cup {(c :> i) : c \in AllCommits, i \in 1..(Len(n.u.outs) + 1)}
NextX == Next \/ (\E d \in {{}} \cup {{c} : c \in AllCommits}, st \in StaleChoices : (d # {} \/ st # <<>>) /\ Reindex(d, st))

Spec == Init /\ [][Next]_vars

-----------------------------------------------------------------------------
(* Properties *)

BestProj(nd) == <<nd.head, nd.u, nd.opos, nd.nrd,
                  [b \in {x \in DOMAIN nd.spentIdx : IsAnc(x, nd.head)} |-> nd.spentIdx[b]],
                  {b \in nd.sums : IsAnc(b, nd.head)}>>

\* C03
HeadValidated == n.head \in n.bodies /\ Valid(n.head)
Accepted(nd, b) == b \in nd.bodies /\ \A a \in Ids : (IsAnc(a, b) /\ Height(a) >= nd.tail) => a \in nd.bodies
HeadMaxWork == \A b \in Ids : Accepted(n, b) => Work(b) <= Work(n.head)
BodiesValid == \A b \in n.bodies : Valid(b)              \* only valid blocks are ever stored
HeadMonotone == [][n'.head # n.head => Work(n'.head) > Work(n.head)]_vars

\* C02
UnspentIsReplay == n.u = Replay(n.head)
IndexConsistent == n.opos = {<<n.u.outs[i].c, i>> : i \in n.u.unspent}
NoDupUnspent == \A i, j \in n.u.unspent : n.u.outs[i].c = n.u.outs[j].c => i = j
\* the enumeration, whatever the page size, is the unspent set of the replay in MMR order; bounded by the output
\* MMR size of an ancestor it is what was unspent there minus what the chain spent since (spent outputs never
\* reappear in a bounded scan either)
EnumInv == /\ \A cnt \in 1..3 : EnumWalk(n.u, 1, cnt, Len(n.u.outs)) = UnspentSeq(Replay(n.head))
           /\ Len(n.u.outs) = OutCount(n.head)
           /\ \A b \in Ids : IsAnc(b, n.head) =>
                 LET k == Len(Replay(b).outs) IN
                 {i \in 1..k : i \in n.u.unspent} \subseteq Replay(b).unspent
SpentIdxInv == \A b \in Ids : (b # 0 /\ IsAnc(b, n.head) /\ Height(b) >= n.tail) =>
                   /\ b \in DOMAIN n.spentIdx
                   /\ n.spentIdx[b] = SpentLeaves(Replay(Parent(b)), b)
\* C01 (history clause): sums are stored for every best-chain block
SumsInv == \A b \in Ids : (IsAnc(b, n.head) /\ Height(b) >= n.tail) => b \in n.sums

\* C13: every best-chain block satisfied maturity and lock rules w.r.t. its own ancestors
MaturityLockInv == \A b \in Ids : (b # 0 /\ IsAnc(b, n.head)) =>
                      /\ \A t \in BTxs(b) : LockH(t) <= Height(b)          \* EVERY kernel of the block
                      /\ LET u == Replay(Parent(b)) IN
                           \A c \in BIns(b) : \A i \in LeafOf(u, c) : u.outs[i].cb => u.outs[i].h + Maturity <= Height(b)

\* C13 (relative locks): the recent-kernel index equals the NRD history of the best chain, and every
\* best-chain NRD kernel respects its relative height w.r.t. its own ancestors
NrdInv == /\ \A k \in NrdKeys : n.nrd[k] = NrdHist(n.head, k)
          /\ \A b \in Ids : (b # 0 /\ IsAnc(b, n.head)) => (NrdOKb(b) /\ (BNrd(b) # {} => NrdEnabled /\ Height(b) >= NrdFrom))

\* C06: a failing call, or one that does not move the head, leaves the best-chain state alone
RejectLeavesState == [][(n'.head = n.head /\ last'.k # "Compact") => BestProj(n') = BestProj(n)]_vars
\* rewinding inside the horizon restores the replay of the ancestor (C02, C08)
RewindInv == \A b \in Ids : (IsAnc(b, n.head) /\ Height(b) >= n.hz) => RewoundU(n, b) = Replay(b)
\* C08 (chain level): compaction changes nothing but the stored bodies / their sums and spent index
CompactIsStutter == [][last'.k = "Compact" =>
                         /\ n'.head = n.head /\ n'.hhead = n.hhead /\ n'.u = n.u /\ n'.opos = n.opos
                         /\ n'.nrd = n.nrd /\ n'.hdrs = n.hdrs /\ n'.orph = n.orph
                         /\ n'.tail >= n.tail /\ n'.head \in n'.bodies]_vars
\* and nothing but valid headers / fork blocks is remembered
OnlyValidRemembered == /\ \A b \in n.hdrs : HeaderChainOK(b)
                       /\ \A b \in n.bodies : Valid(b)

\* C03 Confluence: at quiescence (every valid block delivered, orphan pool empty of valid blocks) the
\* head is the unique maximum-work valid block and the state is its replay.
ValidIds == {b \in Ids : Valid(b)}
Quiescent == AllMinted /\ \A b \in ValidIds : b \in n.bodies \/ Height(b) < n.tail
MaxWorkValid == {b \in ValidIds : \A c \in ValidIds : Work(c) <= Work(b)}
Confluence == Quiescent => /\ n.head \in MaxWorkValid
                           /\ n.u = Replay(n.head)
\* every valid block whose ancestors' bodies are all stored is itself stored or (transiently) an orphan
\* that will be retried: nothing valid is silently dropped once its parent is accepted
OrphansRetried == \A i \in 1..Len(n.orph) : LET b == n.orph[i] IN ~(Parent(b) \in n.bodies /\ Valid(b))

TypeOK == /\ n.head \in Ids /\ n.hhead \in Ids
          /\ n.hdrs \subseteq Ids /\ n.bodies \subseteq n.hdrs
          /\ n.tail \in Int /\ n.tail >= -1 /\ n.hz \in 0..Height(n.head)
=============================================================================
