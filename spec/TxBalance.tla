----------------------------- MODULE TxBalance -----------------------------
(***************************************************************************)
(* C01 (transaction / block-body part): "no value is created".             *)
(*                                                                         *)
(* A commitment is a pair of small integers [v, r]: v value units (one     *)
(* unit = 15 grin, so the block subsidy is Reward = 4 units) and r the     *)
(* blinding scalar.  The real object is v*U*H + r*G; since H and G are     *)
(* independent generators, equality of sums of commitments is equality of  *)
(* the pairs <<sum v, sum r>>, which is all the rule set below uses.       *)
(*                                                                         *)
(* The module is a transcription of the acceptance rules in the order the  *)
(* code applies them                                                       *)
(*   Transaction::validate  = verify_features ; TransactionBody::validate  *)
(*                            (weight, NRD duplicates, sorted+unique,      *)
(*                            cut-through, range proofs, signatures) ;     *)
(*                            verify_kernel_sums(overage = fee, offset)    *)
(*   Block::validate(prev)  = TransactionBody::validate(AsBlock) ;         *)
(*                            kernel lock heights ; NRD/header version ;   *)
(*                            verify_coinbase ; verify_kernel_sums(        *)
(*                            overage = -Reward, total_offset - prev)      *)
(* together with the *definition* of conservation (NoValueCreated) and     *)
(* with a generator of valid bodies and of single-field corruptions of     *)
(* them.  It is an oracle and a case generator (DESIGN 1): the state       *)
(* machine only walks  root -> group -> values -> base -> corrupted ...    *)
(* TLC checks  Valid => NoValueCreated  (the rule set implies              *)
(* conservation) in every state, that every generated base is Valid, and   *)
(* that every single corruption is refused by the rule set.                *)
(***************************************************************************)
EXTENDS Integers, Sequences, FiniteSets, SequencesExt, TLC

CONSTANTS
  MaxIn, MaxOut, MaxKern,   \* shape bounds of the transaction part
  Vals,                     \* value units of plain commitments, e.g. 0..3
  NBlind,                   \* blinding scalars of commitments are 1..NBlind
  RPatterns,                \* stratification of the blinding scalars: pairs <<a, b>>; input i carries
                            \* 1 + (i-1+a) % NBlind, output j carries 1 + (j-1+b) % NBlind and the
                            \* coinbase output of a block 1 + (a+b) % NBlind
  Fees,                     \* fee units per fee-carrying kernel, e.g. {1,2}
  Offsets,                  \* kernel offsets, e.g. {-1,0,1}
  Splits,                   \* first-kernel excess candidates for two-kernel bodies
  PrevOffsets,              \* previous total kernel offsets seen by Block::validate
  MaxCorrupt                \* corruptions applied on top of a base (1 quick, 2 thorough)

VARIABLES phase, grp, vals, body, ctx, applied

vars == <<phase, grp, vals, body, ctx, applied>>

\* ---- consensus constants (core/src/consensus.rs, global.rs for AutomatedTesting), in model units
Reward         == 4
InputWeight    == 1
OutputWeight   == 21
KernelWeight   == 3
MaxBlockWeight == 250
MaxTxWeight    == MaxBlockWeight - (OutputWeight + KernelWeight)
Height         == 5       \* height of the block under validation
NrdVersion     == 4       \* first header version that may carry NRD kernels (HF3)

Kinds == {"plain", "hl", "nrd", "cb"}

\* ---- magnitudes.  TLC integers are 32 bit, so an amount is written in three "digits":
\*   v = a + 1000*b + 1000000*c   stands for   a * 15 grin  +  b * (2^40-1) nanogrin  +  c * 1 nanogrin
\* (the harness maps the digits; every amount below 1000 means what it always meant).  2^40-1 nanogrin
\* (~1099.5 grin) is FeeFields::FEE_MASK, the largest fee ONE kernel can carry; the fee of a body is the
\* SUM over its kernels and is not bounded by it.  Sums of amounts are sums of digits as long as no digit
\* exceeds 99 (AmountOk), which the generator respects and WellFormed demands of corrupted bodies.
MaxFee == 1000
Nano   == 1000000
DigitA(v) == v % 1000
DigitB(v) == (v \div 1000) % 1000
DigitC(v) == v \div 1000000
AmountOk(v) == v >= 0 /\ DigitA(v) <= 99 /\ DigitB(v) <= 99 /\ DigitC(v) <= 99
\* FeeFields::try_from: 1..FEE_MASK (zero is the harness' FeeFields::zero())
FeeFieldsOk(f) == f = 0 \/ f = MaxFee \/ (AmountOk(f) /\ DigitB(f) = 0 /\ DigitA(f) <= 73)

\* ---- arithmetic helpers
SeqSum(s) == FoldLeft(LAMBDA acc, e : acc + e, 0, s)
Map(s, F(_)) == [i \in 1..Len(s) |-> F(s[i])]
Filter(s, P(_)) == SelectSeq(s, P)
Sum(s, F(_)) == FoldLeft(LAMBDA acc, e : acc + F(e), 0, s)

V(c) == c.v
R(c) == c.r
X(k) == k.x
OutCb(o) == o.cb
OutPlain(o) == ~o.cb
KernCb(k) == k.kind = "cb"
KernPlain(k) == k.kind # "cb"
KFee(k) == IF k.kind = "cb" THEN 0 ELSE k.fee   \* TransactionBody::fee(): coinbase kernels carry no fee

Fee(b) == Sum(b.kerns, KFee)

Commit(e) == <<e.v, e.r>>
Dup(s, K(_)) == \E i, j \in 1..Len(s) : i < j /\ K(s[i]) = K(s[j])
OutIdent(o) == <<o.v, o.r, o.cb>>
Ident(k) == k

\* A sum of commitments as the pair <<sum v, sum r>> (positive minus negative)
CSum(pos, neg) == <<Sum(pos, V) - Sum(neg, V), Sum(pos, R) - Sum(neg, R)>>

\* ---- the rules, in code order. Each is a predicate on (b, c).
Weight(b) == Len(b.ins) * InputWeight + Len(b.outs) * OutputWeight + Len(b.kerns) * KernelWeight

RuleNoCoinbaseOutputs(b) == \A i \in 1..Len(b.outs) : ~b.outs[i].cb
RuleNoCoinbaseKernels(b) == \A i \in 1..Len(b.kerns) : b.kerns[i].kind # "cb"
RuleWeight(b, max) == Weight(b) <= max
RuleNoNrdDuplicates(b, c) ==
  c.nrd => ~\E i, j \in 1..Len(b.kerns) : i < j /\ b.kerns[i].kind = "nrd" /\ b.kerns[j].kind = "nrd"
                                                /\ b.kerns[i].x = b.kerns[j].x
RuleUnique(b) == ~Dup(b.ins, Commit) /\ ~Dup(b.outs, OutIdent) /\ ~Dup(b.kerns, Ident)
RuleCutThrough(b) ==   \* no commitment occurs twice among inputs and outputs together
  ~Dup(Map(b.ins, Commit) \o Map(b.outs, Commit), Ident)
\* The two rules below are evaluated by the code as ONE batch call each over the whole output / kernel
\* list (Output::batch_verify_proofs, TxKernel::batch_sig_verify): TxBalanceBatch.tla models the batch
\* layer (every batch size, every position of the forged item) and TxBalanceState.tla the same two rules
\* as the full-state validator applies them to the kernel MMR and the unspent outputs.
RuleRangeProofs(b) == \A i \in 1..Len(b.outs) : b.outs[i].pf
RuleSignatures(b) == \A i \in 1..Len(b.kerns) : b.kerns[i].sg
RuleLockHeights(b, c) == \A i \in 1..Len(b.kerns) : b.kerns[i].kind = "hl" => b.kerns[i].lock <= c.height
RuleNrdVersion(b, c) ==
  (\E i \in 1..Len(b.kerns) : b.kerns[i].kind = "nrd") => (c.nrd /\ c.ver >= NrdVersion)
\* Block::total_fees(): the plain u64 sum of the kernel fees (TransactionBody::fee(); saturating, but
\* 2^64 is out of reach: a block holds at most 40000/3 kernels of at most 2^40-1 nanogrin each).
\* The careless variant reads the total through FeeFields (aggregate_fee_fields), which refuses a total
\* above the single-kernel limit, and falls back to 0 (probe configuration MC_TxBalance_feeprobe).
\* an amount above 2^40-1 nanogrin, told by its digits (model integers do not order the digits by magnitude)
OverSingleKernelLimit(f) ==
  \/ DigitB(f) >= 2
  \/ DigitB(f) = 1 /\ (DigitA(f) > 0 \/ DigitC(f) > 0)
  \/ DigitB(f) = 0 /\ DigitA(f) >= 74
FeeViaFeeFields(b) == IF OverSingleKernelLimit(Fee(b)) THEN 0 ELSE Fee(b)
BlockTotalFees(b) == Fee(b)
\* Block::verify_coinbase: sum(coinbase outputs) - (Reward + fees)*H = sum(coinbase kernel excesses)
RuleCoinbase(b) ==
  LET cbo == Filter(b.outs, OutCb)
      cbk == Filter(b.kerns, KernCb)
  IN  <<Sum(cbo, V) - (Reward + BlockTotalFees(b)), Sum(cbo, R)>> = <<0, Sum(cbk, X)>>
\* Committed::verify_kernel_sums(overage, offset):
\*   sum(outputs) - sum(inputs) + overage*H = sum(kernel excesses) + offset*G
RuleKernelSums(b, overage, offset) ==
  LET u == CSum(b.outs, b.ins)
  IN  <<u[1] + overage, u[2]>> = <<0, Sum(b.kerns, X) + offset>>

\* The kernel offset of a block is what its header adds to the previous total.
BlockOffset(c) == c.total - c.prev

\* Transaction::validate takes the weighting from its caller (verify_weight): AsTransaction bounds the body by
\* the block weight less the room for a coinbase output and kernel, AsLimitedTransaction(m) by min(block weight, m)
\* less the same room (the pool's mineable selection), NoLimit skips the weight rule (pool aggregates).  Nothing
\* else depends on it: every other rule is applied under each weighting.
TxWeightings   == {"tx", "limited", "nolimit"}
CoinbaseWeight == OutputWeight + KernelWeight
LimitedMax     == 70       \* the m of AsLimitedTransaction(m) in the generated cases: the bound 46 is met exactly by 1 in / 2 out / 1 kernel
NoBound        == 1000000
TxWeightBound(w) ==
  CASE w = "tx"      -> MaxTxWeight
    [] w = "limited" -> (IF LimitedMax < MaxBlockWeight THEN LimitedMax ELSE MaxBlockWeight) - CoinbaseWeight
    [] OTHER         -> NoBound

TxRulesW(b, c, w) == <<
  <<"features_outputs", RuleNoCoinbaseOutputs(b)>>,
  <<"features_kernels", RuleNoCoinbaseKernels(b)>>,
  <<"weight",           RuleWeight(b, TxWeightBound(w))>>,
  <<"nrd_duplicates",   RuleNoNrdDuplicates(b, c)>>,
  <<"sorted_unique",    RuleUnique(b)>>,
  <<"cut_through",      RuleCutThrough(b)>>,
  <<"range_proofs",     RuleRangeProofs(b)>>,
  <<"signatures",       RuleSignatures(b)>>,
  <<"kernel_sums",      RuleKernelSums(b, Fee(b), b.off)>> >>

TxRules(b, c) == <<
  <<"features_outputs", RuleNoCoinbaseOutputs(b)>>,
  <<"features_kernels", RuleNoCoinbaseKernels(b)>>,
  <<"weight",           RuleWeight(b, MaxTxWeight)>>,
  <<"nrd_duplicates",   RuleNoNrdDuplicates(b, c)>>,
  <<"sorted_unique",    RuleUnique(b)>>,
  <<"cut_through",      RuleCutThrough(b)>>,
  <<"range_proofs",     RuleRangeProofs(b)>>,
  <<"signatures",       RuleSignatures(b)>>,
  <<"kernel_sums",      RuleKernelSums(b, Fee(b), b.off)>> >>

BlockRules(b, c) == <<
  <<"weight",           RuleWeight(b, MaxBlockWeight)>>,
  <<"nrd_duplicates",   RuleNoNrdDuplicates(b, c)>>,
  <<"sorted_unique",    RuleUnique(b)>>,
  <<"cut_through",      RuleCutThrough(b)>>,
  <<"range_proofs",     RuleRangeProofs(b)>>,
  <<"signatures",       RuleSignatures(b)>>,
  <<"lock_heights",     RuleLockHeights(b, c)>>,
  <<"nrd_version",      RuleNrdVersion(b, c)>>,
  <<"verify_coinbase",  RuleCoinbase(b)>>,
  <<"kernel_sums",      RuleKernelSums(b, 0 - Reward, BlockOffset(c))>> >>

Rules(b, c) == IF c.as = "tx" THEN TxRules(b, c) ELSE BlockRules(b, c)

FirstFailing(b, c) ==
  LET rs == Rules(b, c)
      bad == {i \in 1..Len(rs) : ~rs[i][2]}
  IN  IF bad = {} THEN "none" ELSE rs[CHOOSE i \in bad : \A j \in bad : i <= j][1]

TxValid(b, c) ==
  /\ RuleNoCoinbaseOutputs(b) /\ RuleNoCoinbaseKernels(b)
  /\ RuleWeight(b, MaxTxWeight) /\ RuleNoNrdDuplicates(b, c) /\ RuleUnique(b) /\ RuleCutThrough(b)
  /\ RuleRangeProofs(b) /\ RuleSignatures(b)
  /\ RuleKernelSums(b, Fee(b), b.off)
BlockBodyValid(b, c) ==
  /\ RuleWeight(b, MaxBlockWeight) /\ RuleNoNrdDuplicates(b, c) /\ RuleUnique(b) /\ RuleCutThrough(b)
  /\ RuleRangeProofs(b) /\ RuleSignatures(b)
  /\ RuleLockHeights(b, c) /\ RuleNrdVersion(b, c)
  /\ RuleCoinbase(b)
  /\ RuleKernelSums(b, 0 - Reward, BlockOffset(c))
Valid(b, c) == IF c.as = "tx" THEN TxValid(b, c) ELSE BlockBodyValid(b, c)
\* every rule but the weight rule (the part of the verdict that no weighting changes), and the verdict under a weighting
RestValid(b, c) ==
  IF c.as = "tx"
  THEN /\ RuleNoCoinbaseOutputs(b) /\ RuleNoCoinbaseKernels(b)
       /\ RuleNoNrdDuplicates(b, c) /\ RuleUnique(b) /\ RuleCutThrough(b)
       /\ RuleRangeProofs(b) /\ RuleSignatures(b)
       /\ RuleKernelSums(b, Fee(b), b.off)
  ELSE /\ RuleNoNrdDuplicates(b, c) /\ RuleUnique(b) /\ RuleCutThrough(b)
       /\ RuleRangeProofs(b) /\ RuleSignatures(b)
       /\ RuleLockHeights(b, c) /\ RuleNrdVersion(b, c)
       /\ RuleCoinbase(b)
       /\ RuleKernelSums(b, 0 - Reward, BlockOffset(c))
TxValidW(b, c, w) == RuleWeight(b, TxWeightBound(w)) /\ RestValid(b, c)
FirstFailingW(b, c, w) ==
  LET rs == TxRulesW(b, c, w)
      bad == {i \in 1..Len(rs) : ~rs[i][2]}
  IN  IF bad = {} THEN "none" ELSE rs[CHOOSE i \in bad : \A j \in bad : i <= j][1]

\* Inputs reach the validators in two representations: Inputs::CommitOnly (commitments) and
\* Inputs::FeaturesAndCommit (the commitment plus the output features the spender CLAIMS: field f of an input,
\* "cb" = coinbase; chain-level code checks the claim against the UTXO set, the rules above never read it).
\* Every rule reads commitments only (inputs_committed), so the verdict is the same under both; the generator
\* realises cases under both (MC_TxBalance!Realisations).
InputVariants == {"co", "fc"}

\* ---- the property (definition of conservation; no reference to the rules above)
AllProven(b) == (\A i \in 1..Len(b.outs) : b.outs[i].pf) /\ (\A i \in 1..Len(b.kerns) : b.kerns[i].sg)

TxNoValueCreated(b) ==
  /\ Sum(b.outs, V) + Sum(b.kerns, KFee) = Sum(b.ins, V)
  /\ Sum(b.outs, R) - Sum(b.ins, R) = Sum(b.kerns, X) + b.off
  /\ AllProven(b)
  /\ \A i \in 1..Len(b.outs) : ~b.outs[i].cb           \* a transaction claims no subsidy
  /\ \A i \in 1..Len(b.kerns) : b.kerns[i].kind # "cb"

BlockNoValueCreated(b, c) ==
  LET cbo == Filter(b.outs, OutCb)    pl == Filter(b.outs, OutPlain)
      cbk == Filter(b.kerns, KernCb)  pk == Filter(b.kerns, KernPlain)
      fees == Sum(pk, KFee)
  IN  /\ Sum(cbo, V) = Reward + fees                     \* the only new value: subsidy + fees ...
      /\ Sum(cbo, R) = Sum(cbk, X)                       \* ... claimed by coinbase outputs under coinbase kernels
      /\ Sum(pl, V) + fees = Sum(b.ins, V)               \* the rest moves existing value only
      /\ Sum(pl, R) - Sum(b.ins, R) = Sum(pk, X) + (c.total - c.prev)
      /\ AllProven(b)

NoValueCreated(b, c) == IF c.as = "tx" THEN TxNoValueCreated(b) ELSE BlockNoValueCreated(b, c)

\* Bodies on which libsecp refuses to compute a sum (point at infinity / zero scalar): there the
\* code may refuse a body the rules accept.  Only used to exempt cases from the converse
\* (anti-vacuity) comparison; never from the property's direction.
Degenerate(b, c) ==
  LET off == IF c.as = "tx" THEN b.off ELSE BlockOffset(c)
      cbo == Filter(b.outs, OutCb)
      cbk == Filter(b.kerns, KernCb)
  IN  \/ Len(b.kerns) = 0
      \/ Sum(b.kerns, X) = 0
      \/ Sum(b.kerns, X) + off = 0
      \/ Sum(b.outs, R) - Sum(b.ins, R) = 0
      \/ c.as = "block" /\ (cbk = <<>> \/ Sum(cbk, X) = 0 \/ Sum(cbo, R) = 0)

-----------------------------------------------------------------------------
\* Generator of valid bases

NonDec(s) == \A i \in 1..(Len(s) - 1) : s[i] <= s[i + 1]
KindIx(k) == CASE k = "plain" -> 1 [] k = "hl" -> 2 [] k = "nrd" -> 3 [] OTHER -> 4
TxKinds == {"plain", "hl", "nrd"}

\* big = TRUE: the fee-magnitude groups (1..3 kernels with fees from FeeClasses, one input per kernel)
BigGroups == {[as |-> a, ni |-> k, no |-> 1, nk |-> k, big |-> TRUE] : a \in {"tx", "block"}, k \in 1..3}
Groups ==
  {g \in [as : {"tx", "block"}, ni : 0..MaxIn, no : 0..MaxOut, nk : 0..MaxKern, big : {FALSE}] :
     IF g.as = "tx" THEN g.ni >= 1 /\ g.nk >= 1
     ELSE (g.nk = 0 <=> g.ni = 0) /\ (g.ni = 0 => g.no = 0)}
  \cup BigGroups

\* values, kernel kinds and fees of the transaction part; balanced by construction
NonDecSeqs(n) == {s \in [1..n -> Vals] : NonDec(s)}
KernelConfigs(n) ==
  {kf \in [kinds : [1..n -> TxKinds], fees : [1..n -> Fees]] :
     /\ \A i \in 1..(n - 1) : KindIx(kf.kinds[i]) <= KindIx(kf.kinds[i + 1])
     /\ \A i \in 1..(n - 1) : kf.kinds[i] = kf.kinds[i + 1] => kf.fees[i] <= kf.fees[i + 1]}
\* fee classes: one nanogrin, one model unit, the largest fee a single kernel can carry
FeeClasses == {Nano, 1, MaxFee}
BigKinds == <<"plain", "hl", "nrd">>
\* kernel i pays fees[i] out of an input of its own that carries fees[i] + one unit; the units go to one output
BigValueChoices(g) ==
  {[vin |-> [i \in 1..g.nk |-> f[i] + 1], vout |-> <<g.nk>>, kinds |-> [i \in 1..g.nk |-> BigKinds[i]], fees |-> f] :
     f \in {h \in [1..g.nk -> FeeClasses] : NonDec(h)}}
AllValueChoices(g) ==
  IF g.big THEN BigValueChoices(g) ELSE
  {[vin |-> t[1], vout |-> t[2], kinds |-> t[3].kinds, fees |-> t[3].fees] :
     t \in {u \in NonDecSeqs(g.ni) \X NonDecSeqs(g.no) \X KernelConfigs(g.nk) :
              SeqSum(u[1]) = SeqSum(u[2]) + SeqSum(u[3].fees)}}

ValueChoices(g) == AllValueChoices(g)     \* MC modules may substitute a sample

\* fs: the fee_shift (bits 40..43 of the fee field, FeeFields::fee_shift): a relay priority.  It is no value:
\* KFee is the masked fee whatever fs says, and no rule reads fs.
MkKernel(kind, fee, x, sid) ==
  [kind |-> kind, fee |-> fee, fs |-> 0, lock |-> IF kind = "hl" THEN Height ELSE 0,
   rel |-> IF kind = "nrd" THEN 1 ELSE 0, x |-> x, sg |-> TRUE, sid |-> sid]
MaxFeeShift == 15
\* a fee of a few nanogrin: shifted right by MaxFeeShift nothing is left of it (Transaction::shifted_fee)
NanoOnly(f) == f > 0 /\ DigitA(f) = 0 /\ DigitB(f) = 0
\* 2^40 nanogrin (one unit of the fee_shift bits read as an amount) = (2^40 - 1) + 1
ShiftBit == MaxFee + Nano

Blinds == 1..NBlind
Cyc(i, a) == 1 + ((i - 1 + a) % NBlind)

\* bases of the fee-magnitude groups: input blinds 1..nk, the output under blind 20, the coinbase under 9
BigBases(g, w) ==
  LET ins  == [i \in 1..g.nk |-> [v |-> w.vin[i], r |-> i]]
      outs == << [v |-> w.vout[1], r |-> 20, cb |-> FALSE, pf |-> TRUE] >>
      rin  == (g.nk * (g.nk + 1)) \div 2
      Kx(off) == [i \in 1..g.nk |-> IF i < g.nk THEN i ELSE 20 - rin - off - ((g.nk - 1) * g.nk) \div 2]
      txk(off) == [i \in 1..g.nk |-> MkKernel(w.kinds[i], w.fees[i], Kx(off)[i], i)]
      fees == SeqSum(w.fees)
  IN  IF g.as = "tx"
      THEN {[body |-> [ins |-> ins, outs |-> outs, kerns |-> txk(off), off |-> off],
             ctx |-> [as |-> "tx", prev |-> 0, total |-> 0, height |-> Height, ver |-> NrdVersion, nrd |-> TRUE]] :
              off \in Offsets}
      ELSE {[body |-> [ins |-> ins,
                       outs |-> Append(outs, [v |-> Reward + fees, r |-> 9, cb |-> TRUE, pf |-> TRUE]),
                       kerns |-> Append(txk(off), MkKernel("cb", 0, 9, g.nk + 1)),
                       off |-> 0],
             ctx |-> [as |-> "block", prev |-> prev, total |-> prev + off, height |-> Height,
                      ver |-> NrdVersion, nrd |-> TRUE]] : off \in Offsets, prev \in PrevOffsets}

AllBases(g, w) ==
  IF g.big THEN BigBases(g, w) ELSE
  LET Rin(p)  == [i \in 1..g.ni |-> Cyc(i, p.pat[1])]
      Rout(p) == [i \in 1..g.no |-> Cyc(i, p.pat[2])]
      Ins(p)  == [i \in 1..g.ni |-> [v |-> w.vin[i], r |-> Rin(p)[i]]]
      Outs(p) == [i \in 1..g.no |-> [v |-> w.vout[i], r |-> Rout(p)[i], cb |-> FALSE, pf |-> TRUE]]
      Xs(p)   == SeqSum(Rout(p)) - SeqSum(Rin(p)) - p.off
      TxParts ==
        {p \in [pat : RPatterns, off : Offsets, x1 : Splits] :
           /\ ~Dup(Ins(p) \o Outs(p), Commit)
           /\ g.nk <= 1 => p.x1 = CHOOSE s \in Splits : TRUE      \* unused: fix it
           /\ g.nk = 0 => p.off = 0
           /\ g.nk = 1 => Xs(p) # 0
           /\ g.nk = 2 => /\ Xs(p) - p.x1 # 0
                          /\ ~(w.kinds[1] = "nrd" /\ w.kinds[2] = "nrd" /\ p.x1 = Xs(p) - p.x1)}
      Build(p, prev) ==
        LET xs == Xs(p)
            kx == IF g.nk = 1 THEN <<xs>> ELSE IF g.nk = 2 THEN <<p.x1, xs - p.x1>> ELSE <<>>
            txk == [i \in 1..g.nk |-> MkKernel(w.kinds[i], w.fees[i], kx[i], i)]
            fees == SeqSum(w.fees)
            rcb == Cyc(1, p.pat[1] + p.pat[2])
        IN  IF g.as = "tx"
            THEN [body |-> [ins |-> Ins(p), outs |-> Outs(p), kerns |-> txk, off |-> p.off],
                  ctx |-> [as |-> "tx", prev |-> 0, total |-> 0, height |-> Height, ver |-> NrdVersion, nrd |-> TRUE]]
            ELSE [body |-> [ins |-> Ins(p),
                            outs |-> Append(Outs(p), [v |-> Reward + fees, r |-> rcb, cb |-> TRUE, pf |-> TRUE]),
                            kerns |-> Append(txk, MkKernel("cb", 0, rcb, g.nk + 1)),
                            off |-> 0],
                  ctx |-> [as |-> "block", prev |-> prev, total |-> prev + p.off, height |-> Height,
                           ver |-> NrdVersion, nrd |-> TRUE]]
  IN  IF g.as = "tx"
      THEN {Build(p, 0) : p \in TxParts}
      ELSE {Build(p, prev) : p \in TxParts, prev \in PrevOffsets}

Bases(g, w) == AllBases(g, w)             \* MC modules may substitute a sample

-----------------------------------------------------------------------------
\* Single-field corruptions.  Each yields [cls, body, ctx].

SetAt(s, i, e) == [s EXCEPT ![i] = e]
Idx(s) == 1..Len(s)
NewSid(b) == 50 + Len(b.kerns)
C(cls, b, c) == [cls |-> cls, body |-> b, ctx |-> c]
HasNrd(b) == \E i \in Idx(b.kerns) : b.kerns[i].kind = "nrd"

\* A model body can be realised iff amounts are non-negative and no kernel excess is the zero scalar.
WellFormed(b) ==
  /\ \A i \in Idx(b.ins) : AmountOk(b.ins[i].v)
  /\ \A i \in Idx(b.outs) : AmountOk(b.outs[i].v)
  /\ \A i \in Idx(b.kerns) : /\ b.kerns[i].x # 0 /\ b.kerns[i].fee >= 0 /\ FeeFieldsOk(b.kerns[i].fee)
                              /\ b.kerns[i].fs \in 0..MaxFeeShift /\ (b.kerns[i].fs > 0 => b.kerns[i].fee > 0)

RawCorruptions(b, c) ==
  \* amount +-1 on an output / input (proof regenerated for the new amount: only the sums can tell)
     {C("amount_out_plus",  [b EXCEPT !.outs[i].v = @ + 1], c) : i \in Idx(b.outs)}
  \cup {C("amount_out_minus", [b EXCEPT !.outs[i].v = @ - 1], c) : i \in {j \in Idx(b.outs) : b.outs[j].v > 0}}
  \cup {C("amount_in_plus",   [b EXCEPT !.ins[i].v = @ + 1], c) : i \in Idx(b.ins)}
  \cup {C("amount_in_minus",  [b EXCEPT !.ins[i].v = @ - 1], c) : i \in {j \in Idx(b.ins) : b.ins[j].v > 0}}
  \* the imbalance a sign error in the overage would hide: outputs exceed inputs by the fee (transaction),
  \* inputs exceed the non-coinbase outputs by twice the subsidy (block)
  \cup (IF c.as = "tx"
        THEN {C("amount_out_plus_twice_fee", [b EXCEPT !.outs[i].v = @ + 2 * Fee(b)], c) : i \in {j \in Idx(b.outs) : Fee(b) > 0}}
        ELSE {C("amount_in_plus_twice_reward", [b EXCEPT !.ins[i].v = @ + 2 * Reward], c) : i \in Idx(b.ins)})
  \* the fee the kernels declare is not paid: outputs equal inputs (what reading the overage as 0 would hide)
  \cup (IF c.as = "tx"
        THEN {C("amount_out_plus_fee", [b EXCEPT !.outs[i].v = @ + Fee(b)], c) : i \in {j \in Idx(b.outs) : Fee(b) > 0}}
        ELSE {})
  \* fee +-1 on a fee-carrying kernel, re-signed for the new fee
  \cup {C("fee_plus",  [b EXCEPT !.kerns[i].fee = @ + 1], c) : i \in {j \in Idx(b.kerns) : b.kerns[j].kind # "cb"}}
  \cup {C("fee_minus", [b EXCEPT !.kerns[i].fee = @ - 1], c) :
          i \in {j \in Idx(b.kerns) : b.kerns[j].kind # "cb" /\ b.kerns[j].fee > 0}}
  \* kernel offset +-1 (transaction: its offset; block: the header's total offset)
  \cup (IF c.as = "tx" THEN {C("offset_plus", [b EXCEPT !.off = @ + 1], c), C("offset_minus", [b EXCEPT !.off = @ - 1], c)}
        ELSE {C("offset_plus", b, [c EXCEPT !.total = @ + 1]), C("offset_minus", b, [c EXCEPT !.total = @ - 1])})
  \* excess +-1, re-signed under the new excess (a foreign kernel in place of the right one)
  \cup {C("excess_plus",  [b EXCEPT !.kerns[i].x = @ + 1, !.kerns[i].sid = NewSid(b)], c) :
          i \in {j \in Idx(b.kerns) : b.kerns[j].x # -1}}
  \cup {C("excess_minus", [b EXCEPT !.kerns[i].x = @ - 1, !.kerns[i].sid = NewSid(b)], c) :
          i \in {j \in Idx(b.kerns) : b.kerns[j].x # 1}}
  \* dropped / duplicated / foreign kernel
  \cup {C("kernel_dropped", [b EXCEPT !.kerns = RemoveAt(@, i)], c) : i \in Idx(b.kerns)}
  \cup {C("kernel_duplicated_identical", [b EXCEPT !.kerns = Append(@, b.kerns[i])], c) : i \in Idx(b.kerns)}
  \cup {C("kernel_duplicated_resigned", [b EXCEPT !.kerns = Append(@, [b.kerns[i] EXCEPT !.sid = NewSid(b)])], c) :
          i \in Idx(b.kerns)}
  \cup {C("kernel_foreign", [b EXCEPT !.kerns = Append(@, MkKernel("plain", f, 2, NewSid(b)))], c) : f \in {0, 1}}
  \* coinbase flag set / cleared on an output / a kernel (kernel re-signed for its new features)
  \cup {C("coinbase_flag_set_output", [b EXCEPT !.outs[i].cb = TRUE], c) : i \in {j \in Idx(b.outs) : ~b.outs[j].cb}}
  \cup {C("coinbase_flag_cleared_output", [b EXCEPT !.outs[i].cb = FALSE], c) : i \in {j \in Idx(b.outs) : b.outs[j].cb}}
  \cup {C("coinbase_flag_set_kernel", [b EXCEPT !.kerns[i] = MkKernel("cb", 0, @.x, NewSid(b))], c) :
          i \in {j \in Idx(b.kerns) : b.kerns[j].kind # "cb"}}
  \cup {C("coinbase_flag_cleared_kernel", [b EXCEPT !.kerns[i] = MkKernel("plain", 0, @.x, NewSid(b))], c) :
          i \in {j \in Idx(b.kerns) : b.kerns[j].kind = "cb"}}
  \* forged coinbase value with a compensating kernel: the coinbase output claims one unit more under
  \* a different blinding factor and the coinbase kernel is re-made to match that blinding factor
  \cup {C("coinbase_forged_value",
          LET m == CHOOSE n \in Idx(b.kerns) : b.kerns[n].kind = "cb"
          IN  [b EXCEPT !.outs[i].v = @ + 1, !.outs[i].r = @ + 1,
                        !.kerns[m] = MkKernel("cb", 0, @.x + 1, NewSid(b))], c) :
          i \in {j \in Idx(b.outs) : b.outs[j].cb /\ \E n \in Idx(b.kerns) : b.kerns[n].kind = "cb"}}
  \* a transaction that mints: coinbase output + coinbase kernel added to an otherwise valid transaction
  \cup (IF c.as = "tx"
        THEN {C("coinbase_minted_in_tx",
                [b EXCEPT !.outs = Append(@, [v |-> Reward, r |-> 2, cb |-> TRUE, pf |-> TRUE]),
                          !.kerns = Append(@, MkKernel("cb", 0, 2, NewSid(b)))], c)}
        ELSE {})
  \* the fees the block collects are paid to an ordinary output: the coinbase claims the bare subsidy and a
  \* plain output with a plain kernel of its own picks up the fees (every sum still balances)
  \cup (IF c.as = "block" /\ Fee(b) > 0
        THEN {C("fees_paid_to_plain_output",
                [[b EXCEPT !.outs[i].v = @ - Fee(b)]
                    EXCEPT !.outs = Append(@, [v |-> Fee(b), r |-> 5, cb |-> FALSE, pf |-> TRUE]),
                           !.kerns = Append(@, MkKernel("plain", 0, 5, NewSid(b)))], c) :
                i \in {j \in Idx(b.outs) : b.outs[j].cb /\ b.outs[j].v >= Reward + Fee(b)}}
        ELSE {})
  \* reward over-claim by a non-coinbase output: one unit moves from the coinbase output to a plain one
  \cup {C("reward_overclaim_plain_output", [b EXCEPT !.outs[i].v = @ + 1, !.outs[j].v = @ - 1], c) :
          i \in {m \in Idx(b.outs) : ~b.outs[m].cb}, j \in {m \in Idx(b.outs) : b.outs[m].cb /\ b.outs[m].v > 0}}
  \* swapped range proof / signature
  \cup {C("proof_swapped", [b EXCEPT !.outs[i].pf = FALSE], c) : i \in Idx(b.outs)}
  \cup {C("signature_swapped", [b EXCEPT !.kerns[i].sg = FALSE], c) : i \in Idx(b.kerns)}
  \* duplicated input / output, and a spend of an output of the same body
  \cup {C("input_duplicated", [b EXCEPT !.ins = Append(@, b.ins[i])], c) : i \in Idx(b.ins)}
  \cup {C("output_duplicated", [b EXCEPT !.outs = Append(@, b.outs[i])], c) : i \in Idx(b.outs)}
  \cup {C("spends_own_output", [b EXCEPT !.ins = Append(@, [v |-> 1, r |-> 4]),
                                         !.outs = Append(@, [v |-> 1, r |-> 4, cb |-> FALSE, pf |-> TRUE])], c)}
  \* an input spent but accounted for nowhere: it claims coinbase features (visible in the FeaturesAndCommit
  \* representation only); what leaving "coinbase spends" out of the sums would hide
  \cup {C("input_added_unaccounted", [b EXCEPT !.ins = Append(@, [v |-> 1, r |-> 6, f |-> "cb"])], c)}
  \* fee_shift set on a fee-carrying kernel (re-signed): the priority bits are no value, the body stays as valid as it was
  \cup {C("fee_shift_set", [b EXCEPT !.kerns[i].fs = s, !.kerns[i].sid = NewSid(b)], c) :
          i \in {j \in Idx(b.kerns) : b.kerns[j].kind # "cb" /\ b.kerns[j].fee > 0 /\ b.kerns[j].fs = 0}, s \in {1, MaxFeeShift}}
  \* ... the fee is not paid and the shift makes the shifted fee vanish: outputs equal inputs (transaction; what
  \* balancing against shifted_fee would hide)
  \cup (IF c.as = "tx" /\ NanoOnly(Fee(b))
        THEN {C("fee_shift_hides_unpaid_fee",
                [b EXCEPT !.kerns[i].fs = MaxFeeShift, !.kerns[i].sid = NewSid(b), !.outs[j].v = @ + Fee(b)], c) :
                i \in {k \in Idx(b.kerns) : b.kerns[k].fee > 0}, j \in Idx(b.outs)}
        ELSE {})
  \* ... the shift bits are read as part of the fee: the transaction pays 2^40 nanogrin more than its kernels say;
  \* in a block an input brings them and the coinbase claims them as if they were fees (what reading the fee
  \* without the mask would hide)
  \cup (IF c.as = "tx"
        THEN {C("fee_shift_bits_paid_as_fee",
                [b EXCEPT !.kerns[i].fs = 1, !.kerns[i].sid = NewSid(b), !.ins[j].v = @ + ShiftBit], c) :
                i \in {k \in Idx(b.kerns) : b.kerns[k].fee > 0}, j \in Idx(b.ins)}
        ELSE {C("fee_shift_bits_claimed_by_coinbase",
                [b EXCEPT !.kerns[i].fs = 1, !.kerns[i].sid = NewSid(b), !.ins[m].v = @ + ShiftBit, !.outs[j].v = @ + ShiftBit], c) :
                i \in {k \in Idx(b.kerns) : b.kerns[k].kind # "cb" /\ b.kerns[k].fee > 0}, m \in Idx(b.ins),
                j \in {k \in Idx(b.outs) : b.outs[k].cb}})
  \* block-only rules: lock height above the block height, NRD kernel before HF3 / with NRD disabled
  \cup (IF c.as = "block"
        THEN {C("lock_height_future", [b EXCEPT !.kerns[i].lock = c.height + 1], c) :
                i \in {j \in Idx(b.kerns) : b.kerns[j].kind = "hl"}}
             \cup (IF HasNrd(b) THEN {C("nrd_before_hf3", b, [c EXCEPT !.ver = NrdVersion - 1]),
                                      C("nrd_disabled", b, [c EXCEPT !.nrd = FALSE])} ELSE {})
        ELSE {})

Corruptions(b, c) == {k \in RawCorruptions(b, c) : WellFormed(k.body)}

CorruptionChoices(b, c, a) == Corruptions(b, c)     \* MC modules may substitute a sample

\* Classes that never yield a valid body when applied alone to a valid base (checked by TLC).
\* ("amount", "fee", "offset", "excess" pairs can compensate each other: thorough tier.)
AlwaysRefused == {
  "amount_out_plus_twice_fee", "amount_in_plus_twice_reward", "amount_out_plus_fee",
  "amount_out_plus", "amount_out_minus", "amount_in_plus", "amount_in_minus", "fee_plus", "fee_minus",
  "offset_plus", "offset_minus", "excess_plus", "excess_minus", "kernel_dropped",
  "kernel_duplicated_identical", "kernel_duplicated_resigned", "kernel_foreign",
  "coinbase_flag_set_output", "coinbase_flag_cleared_output", "coinbase_flag_set_kernel",
  "coinbase_flag_cleared_kernel", "coinbase_forged_value", "coinbase_minted_in_tx",
  "reward_overclaim_plain_output", "fees_paid_to_plain_output", "proof_swapped", "signature_swapped", "input_duplicated",
  "output_duplicated", "spends_own_output", "lock_height_future", "nrd_before_hf3", "nrd_disabled",
  "input_added_unaccounted", "fee_shift_hides_unpaid_fee", "fee_shift_bits_paid_as_fee", "fee_shift_bits_claimed_by_coinbase"}
\* Classes that leave the verdict as it was (checked by TLC)
VerdictPreserving == {"fee_shift_set"}

-----------------------------------------------------------------------------
\* The walk  root -> group -> values -> base -> corrupted (-> corrupted)

NoBody == [ins |-> <<>>, outs |-> <<>>, kerns |-> <<>>, off |-> 0]
NoCtx  == [as |-> "tx", prev |-> 0, total |-> 0, height |-> Height, ver |-> NrdVersion, nrd |-> TRUE]

Init ==
  /\ phase = "root" /\ grp = [as |-> "tx", ni |-> 0, no |-> 0, nk |-> 0, big |-> FALSE] /\ vals = <<>>
  /\ body = NoBody /\ ctx = NoCtx /\ applied = <<>>

ChooseGroup ==
  /\ phase = "root"
  /\ \E g \in Groups : grp' = g
  /\ phase' = "group"
  /\ UNCHANGED <<vals, body, ctx, applied>>

ChooseValues ==
  /\ phase = "group"
  /\ \E w \in ValueChoices(grp) : vals' = w
  /\ phase' = "values"
  /\ UNCHANGED <<grp, body, ctx, applied>>

ChooseBase ==
  /\ phase = "values"
  /\ \E bc \in Bases(grp, vals) : body' = bc.body /\ ctx' = bc.ctx
  /\ phase' = "body"
  /\ UNCHANGED <<grp, vals, applied>>

Corrupt ==
  /\ phase = "body"
  /\ Len(applied) < MaxCorrupt
  /\ \E k \in CorruptionChoices(body, ctx, applied) :
       /\ body' = k.body /\ ctx' = k.ctx
       /\ applied' = Append(applied, k.cls)
  /\ UNCHANGED <<phase, grp, vals>>

Next == ChooseGroup \/ ChooseValues \/ ChooseBase \/ Corrupt

Spec == Init /\ [][Next]_vars

\* ---- what TLC checks
HasBody == phase = "body"

\* The rule set implies conservation, for transactions and for block bodies.
ValidImpliesNoValueCreated == HasBody => (Valid(body, ctx) => NoValueCreated(body, ctx))
\* Generated bases are accepted (the antecedent above is not vacuous).
BasesAreValid == (HasBody /\ applied = <<>>) => Valid(body, ctx)
\* Every single-field corruption of a valid body is refused by the rule set.
SingleCorruptionRefused == (HasBody /\ Len(applied) = 1 /\ applied[1] \in AlwaysRefused) => ~Valid(body, ctx)
\* Definitions agree the other way round on what the generator produces (sanity of NoValueCreated):
\* a body that conserves value and is refused is refused by a structural rule, not by the sums.
\* The ordered rule tables (used to name the first failing stage) and the conjunctions agree.
TablesAgree == HasBody => (Valid(body, ctx) <=> FirstFailing(body, ctx) = "none")
RefusedConservingIsStructural ==
  (HasBody /\ NoValueCreated(body, ctx) /\ ~Valid(body, ctx)) =>
     FirstFailing(body, ctx) \notin {"kernel_sums", "verify_coinbase", "range_proofs", "signatures"}

\* All of the above in one invariant (one evaluation of Valid per state: what the exhaustive
\* configurations check; the named invariants are used to diagnose a failure).
\* the verdict is the weight rule and the rest (named configuration)
ValidSplit ==
  HasBody => /\ Valid(body, ctx) <=> (RuleWeight(body, IF ctx.as = "tx" THEN MaxTxWeight ELSE MaxBlockWeight) /\ RestValid(body, ctx))
             /\ ctx.as = "tx" => \A w \in TxWeightings : TxValidW(body, ctx, w) <=> (FirstFailingW(body, ctx, w) = "none")
             /\ ctx.as = "tx" => (TxValidW(body, ctx, "tx") <=> Valid(body, ctx))
\* the fee shift is no value: setting it leaves the verdict as it was
FeeShiftIsNoValue == (HasBody /\ Len(applied) = 1 /\ applied[1] \in VerdictPreserving) => Valid(body, ctx)
\* conservation follows from the rules other than the weight rule, so under no weighting (NoLimit included) is a
\* body that creates value accepted
RestImpliesNoValueCreated == HasBody => (RestValid(body, ctx) => NoValueCreated(body, ctx))

AllChecks ==
  HasBody =>
    LET rv  == RestValid(body, ctx)
        wb  == IF ctx.as = "tx" THEN MaxTxWeight ELSE MaxBlockWeight
        v   == RuleWeight(body, wb) /\ rv            \* = Valid(body, ctx), see ValidSplit
        nvc == NoValueCreated(body, ctx)
        ff  == FirstFailing(body, ctx)
    IN  /\ v => nvc
        /\ v <=> (ff = "none")
        /\ applied = <<>> => v
        /\ (Len(applied) = 1 /\ applied[1] \in AlwaysRefused) => ~v
        /\ (nvc /\ ~v) => ff \notin {"kernel_sums", "verify_coinbase", "range_proofs", "signatures"}
        \* every weighting applies the same rest: AsLimitedTransaction is at least as strict as AsTransaction, NoLimit
        \* drops the weight rule only - and conservation never rested on it
        /\ rv => nvc
        /\ TxWeightBound("limited") <= TxWeightBound("tx") /\ TxWeightBound("tx") <= TxWeightBound("nolimit")
        /\ Weight(body) <= TxWeightBound("nolimit")
        /\ (Len(applied) = 1 /\ applied[1] \in VerdictPreserving) => v
=============================================================================
