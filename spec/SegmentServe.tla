---------------------------- MODULE SegmentServe ----------------------------
(***************************************************************************)
(* C16, SERVING side: which state a node offers to syncing peers and        *)
(* whether it holds that state.  One action per public call of              *)
(* chain/src/chain.rs on the serving node:                                  *)
(*   SyncHeaders(to)   sync_block_headers: the header chain grows to `to`   *)
(*                     (headers may run arbitrarily far ahead of bodies:    *)
(*                     a node still body-syncing, or restarted after a      *)
(*                     pause and already header-synced);                    *)
(*   ProcessBlocks(to) process_block for every block up to `to` (only       *)
(*                     blocks whose header is known);                       *)
(*   Compact           Chain::compact: outputs spent at or below the        *)
(*                     cut-through horizon (body head - Horizon) lose their *)
(*                     data; states below the horizon can no longer be      *)
(*                     reconstructed by rewind;                             *)
(*   Serve             Chain::segmenter() (txhashset_archive_header, cache  *)
(*                     lookup, init_segmenter = rewind to that header and   *)
(*                     snapshot the bitmap) followed by                     *)
(*                     Segmenter::{bitmap,output,rangeproof,kernel}_segment *)
(*                     for every identifier.                                *)
(* The state of the chain at header h is abstract: the node HOLDS it iff    *)
(* every block up to h was processed (h <= body) and h is not below the     *)
(* compaction horizon.  A segment produced from a held state is the honest  *)
(* segment of Segment.tla (validates against the header's roots); a         *)
(* segment "of" a state the node does not hold is whatever the files        *)
(* contain and does not validate.  So the clause "a segment produced by a   *)
(* node validates against the archive header's roots" is, on this side,     *)
(*   ServedStateHeld: the header the segmenter is labelled with is one      *)
(*   whose state the node holds (in particular at or below the body head).  *)
(* ArchiveFrom = "header" is the mutant "archive header derived from the    *)
(* header head" (the helper txhashset_archive_header_header_only is for the *)
(* RECEIVING side only); CompactAligned = FALSE lifts the usage-protocol    *)
(* restriction that the AutomatedTesting constants need (Horizon =          *)
(* Threshold: compaction only at body head % Interval = 0).  Both exist to  *)
(* show the invariant is not vacuous.                                       *)
(***************************************************************************)
EXTENDS Naturals, Integers, Sequences, TLC

CONSTANTS MaxH,            \* length of the chain the node is fed from
          Threshold,       \* global::state_sync_threshold()
          Interval,        \* global::txhashset_archive_interval()
          Horizon,         \* global::cut_through_horizon()
          CompactMin,      \* Chain::compact does nothing unless head >= tail + Horizon + 60
          Stops,           \* heights at which SyncHeaders / ProcessBlocks stop (a subset of 1..MaxH)
          ArchiveFrom,     \* "body" (the code) | "header" (mutant)
          CompactAligned   \* TRUE: Compact only at body % Interval = 0 (usage protocol on AutomatedTesting)

VARIABLES body,      \* height of the body head (all blocks 1..body processed)
          hdr,       \* height of the header head
          horizon,   \* states below this height are no longer reconstructible (0 = never compacted)
          seg,       \* height of the header the cached Segmenter is labelled with, -1 = none
          last       \* result of the last call: [k, ...]
svars == <<body, hdr, horizon, seg, last>>

\* txhashset_archive_header arithmetic (saturating)
ArchiveHeight(tip) == LET x == IF tip > Threshold THEN tip - Threshold ELSE 0 IN x - (x % Interval)
Tip == IF ArchiveFrom = "body" THEN body ELSE hdr

\* the node can produce the state at header h
Holds(h) == h <= body /\ h >= horizon

SInit == body = 0 /\ hdr = 0 /\ horizon = 0 /\ seg = -1 /\ last = [k |-> "Init"]

SyncHeaders(to) ==
  /\ to \in Stops /\ to > hdr
  /\ hdr' = to
  /\ last' = [k |-> "Headers", to |-> to, body |-> body, hdr |-> to]
  /\ UNCHANGED <<body, horizon, seg>>

ProcessBlocks(to) ==
  /\ to \in Stops /\ to > body
  /\ body' = to
  /\ hdr' = IF to > hdr THEN to ELSE hdr          \* process_block also extends the header chain
  /\ last' = [k |-> "Blocks", to |-> to, body |-> to, hdr |-> IF to > hdr THEN to ELSE hdr]
  /\ UNCHANGED <<horizon, seg>>

Compact ==
  /\ horizon = 0 /\ body >= CompactMin
  /\ CompactAligned => body % Interval = 0
  /\ horizon' = body - Horizon
  /\ last' = [k |-> "Compact", horizon |-> body - Horizon, body |-> body, hdr |-> hdr]
  /\ UNCHANGED <<body, hdr, seg>>

\* Chain::segmenter: a cached segmenter is reused only while its header is the current archive header
\* (not before the body head is an archive period past the threshold: until then the state offered is the genesis
\* state, whose header commits to no roots on the test chains the harness can build)
Serve ==
  /\ body >= Threshold + Interval
  /\ seg' = ArchiveHeight(Tip)
  /\ last' = [k |-> "Serve", for |-> ArchiveHeight(Tip), body |-> body, hdr |-> hdr,
              ahead |-> ArchiveHeight(hdr) > body,            \* the shape that tells "body" from "header"
              cached |-> (seg = ArchiveHeight(Tip)),
              valid |-> Holds(ArchiveHeight(Tip))]            \* every served segment validates against header `for`
  /\ UNCHANGED <<body, hdr, horizon>>

SNext == \/ \E to \in Stops : SyncHeaders(to) \/ ProcessBlocks(to)
         \/ Compact
         \/ Serve
SSpec == SInit /\ [][SNext]_svars

-----------------------------------------------------------------------------
STypeOK == /\ body \in 0..MaxH /\ hdr \in body..MaxH /\ horizon \in 0..MaxH /\ seg \in -1..MaxH

\* the archive header a node serves is at or below its body head ...
ArchiveAtOrBelowBody == seg # -1 /\ last.k = "Serve" => seg <= body
\* ... and its state is held, so every served segment validates against the roots of the header it is served for
ServedStateHeld == last.k = "Serve" => last.valid
\* the archive header is on an archive boundary and at least Threshold below the body head (or genesis)
ArchiveOnBoundary == last.k = "Serve" => (last.for % Interval = 0 /\ (last.for = 0 \/ last.for + Threshold <= body))
=============================================================================
