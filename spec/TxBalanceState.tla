--------------------------- MODULE TxBalanceState ---------------------------
(***************************************************************************)
(* C01, FULL-STATE layer: what Chain::validate(fast) =                     *)
(* txhashset::Extension::validate must demand of a state it did not build  *)
(* block by block (fast sync / txhashset_write, PIBD final validation,     *)
(* self check), on top of the batch layer (TxBalanceBatch.tla).            *)
(*                                                                         *)
(* A state is what the validator can see: the kernel list (kernel MMR),    *)
(* the unspent outputs with their range proofs (output / rangeproof MMR +  *)
(* leaf set) and, from the head header, the height and the total kernel    *)
(* offset.  Commitments are pairs of small integers as in TxBalance.tla:   *)
(* an output [v, r] is v*U*H + r*G, a kernel excess [xv, x] is             *)
(* xv*U*H + x*G.  Only an excess with xv = 0 is a public key somebody can  *)
(* sign for, and only an output with v >= 0 can carry a valid range proof  *)
(* (WellFormed); that is why the signature and proof checks are part of    *)
(* "no value is created": a kernel with xv # 0 absorbs xv newly minted     *)
(* units while every sum still balances.                                   *)
(*                                                                         *)
(* The rules, in code order (after the MMR hash / root / size checks,      *)
(* which the replay keeps consistent by construction):                     *)
(*   kernel_sums   sum(unspent) - supply*H = sum(excesses) + offset*G      *)
(*   range_proofs  every unspent output verifies   (full validation only)  *)
(*   signatures    every kernel verifies           (full validation only)  *)
(*                                                                         *)
(* States are generated from histories: n blocks, each a coinbase, some    *)
(* also spending the coinbase of three blocks earlier into two outputs     *)
(* (layouts), and single corruptions of them aimed at a kernel / an        *)
(* unspent output of a chosen block.  The module is an oracle and a plan   *)
(* generator like TxBalance.tla: the walk is root -> history -> corrupted. *)
(* The "large" plans put one forged single-kernel block at a chosen kernel *)
(* (output) index between balanced filler blocks, to reach the batch       *)
(* boundaries of the two walks of the validator.                           *)
(***************************************************************************)
EXTENDS TxBalanceBatch, SequencesExt

CONSTANTS
  MaxBlocks,        \* histories have 1..MaxBlocks blocks
  Minted            \* value units a forged kernel hides

VARIABLES sphase,   \* "root" | "batch" | "hist" | "state" | "large"
          bplan,    \* batch plan (TxBalanceBatch!Plan)
          hplan,    \* [n, layout, cls, h, slot]
          lplan     \* [items, n, idx, cap]

svars == <<sphase, bplan, hplan, lplan>>

Reward   == 4
Maturity == 3
CbR(h)   == 100 + h

SSum(s, F(_)) == FoldLeft(LAMBDA acc, e : acc + F(e), 0, s)
Flatten(ss) == FoldLeft(LAMBDA acc, e : acc \o e, <<>>, ss)

\* ---- histories
Layouts == {"plain", "spend_all", "spend_even", "spend_last"}
Spends(L, n) ==
  CASE L = "plain"      -> {}
    [] L = "spend_all"  -> (Maturity + 1)..n
    [] L = "spend_even" -> {h \in (Maturity + 1)..n : h % 2 = 0}
    [] L = "spend_last" -> IF n > Maturity THEN {n} ELSE {}

Classes == {"base", "kernel_minting", "kernel_sig_swapped", "proof_swapped",
            "excess_replaced", "amount_inflated", "offset_shifted"}
NoVar == [cls |-> "base", h |-> 0, slot |-> "none"]
Hits(var, cls, h, slot) == var.cls = cls /\ var.h = h /\ var.slot = slot

\* extra value carried by the coinbase output of block h (a minting coinbase kernel puts it there;
\* whoever spends that coinbase passes it on to its second output)
Bonus(var, h) == IF Hits(var, "kernel_minting", h, "cb") THEN Minted ELSE 0

CbOut(var, h) ==
  [v  |-> Reward + Bonus(var, h) + (IF Hits(var, "amount_inflated", h, "cb") THEN 1 ELSE 0),
   r  |-> CbR(h), cb |-> TRUE,
   pf |-> ~Hits(var, "proof_swapped", h, "cb")]
Kern(var, h, slot, kind, x, sid) ==
  [kind |-> kind, fee |-> 0, lock |-> 0, rel |-> 0,
   x   |-> x + (IF Hits(var, "excess_replaced", h, slot) THEN 1 ELSE 0),
   xv  |-> IF Hits(var, "kernel_minting", h, slot) THEN Minted ELSE 0,
   sg  |-> ~(Hits(var, "kernel_minting", h, slot) \/ Hits(var, "kernel_sig_swapped", h, slot)),
   sid |-> sid + (IF Hits(var, "excess_replaced", h, slot) THEN 1000 ELSE 0)]
CbKern(var, h) == Kern(var, h, "cb", "cb", CbR(h), h)
TxOff(var, h) == 2 * h + (IF Hits(var, "offset_shifted", h, "tx") THEN 1 ELSE 0)
SpendTx(var, h) ==
  LET s == h - Maturity
  IN  [ins   |-> << [v |-> Reward + Bonus(var, s), r |-> CbR(s)] >>,
       outs  |-> << [v  |-> 1 + (IF Hits(var, "kernel_minting", h, "tx") THEN Minted ELSE 0)
                              + (IF Hits(var, "amount_inflated", h, "o1") THEN 1 ELSE 0),
                     r  |-> 200 + h, cb |-> FALSE, pf |-> ~Hits(var, "proof_swapped", h, "o1")],
                    [v  |-> Reward - 1 + Bonus(var, s) + (IF Hits(var, "amount_inflated", h, "o2") THEN 1 ELSE 0),
                     r  |-> 300 + h, cb |-> FALSE, pf |-> ~Hits(var, "proof_swapped", h, "o2")] >>,
       \* honest excess: (200+h) + (300+h) - CbR(s) - 2h
       kerns |-> << Kern(var, h, "tx", "plain", 500 - CbR(s), 50 + h) >>,
       off   |-> TxOff(var, h)]
Block(var, L, n, h) ==
  [h |-> h, cb_out |-> CbOut(var, h), cb_kern |-> CbKern(var, h),
   txs |-> IF h \in Spends(L, n) THEN <<SpendTx(var, h)>> ELSE <<>>]
History(n, L, var) == [h \in 1..n |-> Block(var, L, n, h)]

\* ---- the state a history leaves behind
BlockOuts(b)  == <<b.cb_out>> \o Flatten([i \in 1..Len(b.txs) |-> b.txs[i].outs])
BlockIns(b)   == Flatten([i \in 1..Len(b.txs) |-> b.txs[i].ins])
BlockKerns(b) == <<b.cb_kern>> \o Flatten([i \in 1..Len(b.txs) |-> b.txs[i].kerns])
BlockOff(b)   == SSum(b.txs, LAMBDA t : t.off)
AllOuts(bs)   == Flatten([i \in 1..Len(bs) |-> BlockOuts(bs[i])])
AllIns(bs)    == Flatten([i \in 1..Len(bs) |-> BlockIns(bs[i])])
Kernels(bs)   == Flatten([i \in 1..Len(bs) |-> BlockKerns(bs[i])])
SpentSet(bs)  == {<<AllIns(bs)[i].v, AllIns(bs)[i].r>> : i \in 1..Len(AllIns(bs))}
Unspent(bs)   == LET sp == SpentSet(bs) IN SelectSeq(AllOuts(bs), LAMBDA o : <<o.v, o.r>> \notin sp)
TotalOff(bs)  == SSum(bs, BlockOff)
Supply(bs)    == Len(bs) * Reward          \* genesis carries no reward in the replayed chains

\* every input spends an earlier output of the history (the replay can apply the blocks)
Applicable(bs) ==
  LET outs == AllOuts(bs) IN \A i \in 1..Len(AllIns(bs)) : \E j \in 1..Len(outs) :
        <<outs[j].v, outs[j].r>> = <<AllIns(bs)[i].v, AllIns(bs)[i].r>>

\* nobody can sign for an excess that carries value; no proof exists for a negative amount
WellFormedState(bs) ==
  /\ \A i \in 1..Len(Kernels(bs)) : Kernels(bs)[i].xv # 0 => ~Kernels(bs)[i].sg
  /\ \A i \in 1..Len(AllOuts(bs)) : AllOuts(bs)[i].v < 0 => ~AllOuts(bs)[i].pf

\* ---- the rules of Extension::validate
RuleStateSums(bs) ==
  LET u == Unspent(bs) k == Kernels(bs)
  IN  <<SSum(u, LAMBDA o : o.v) - Supply(bs), SSum(u, LAMBDA o : o.r)>>
        = <<SSum(k, LAMBDA e : e.xv), SSum(k, LAMBDA e : e.x) + TotalOff(bs)>>
ForgedProofIdx(bs) == {i - 1 : i \in {j \in 1..Len(Unspent(bs)) : ~Unspent(bs)[j].pf}}
ForgedSigIdx(bs)   == {i - 1 : i \in {j \in 1..Len(Kernels(bs)) : ~Kernels(bs)[j].sg}}
\* implementation-shaped: the two walks of the validator over the batch layer
RuleStateProofs(bs) == Accepts(ProofWalkChecked(Len(Unspent(bs)), ProofBatch), ForgedProofIdx(bs))
RuleStateSigs(bs)   == Accepts(KernelWalkChecked(Len(Kernels(bs)), KernelBatch), ForgedSigIdx(bs))

FastValid(bs) == RuleStateSums(bs)
FullValid(bs) == RuleStateSums(bs) /\ RuleStateProofs(bs) /\ RuleStateSigs(bs)
StateFirstFailing(bs) ==
  IF ~RuleStateSums(bs) THEN "kernel_sums"
  ELSE IF ~RuleStateProofs(bs) THEN "range_proofs"
  ELSE IF ~RuleStateSigs(bs) THEN "signatures" ELSE "none"

\* ---- the block pipeline: Chain::process_block(b, opts) = pipe::validate_block (Block::validate against the
\* previous total offset) ; verify_block_sums ; apply.  The caller's Options say where the block comes from
\* (NONE: relayed, SYNC: body sync, MINE: mined here) - they are no part of the verdict: on top of a valid state
\* a block is accepted only if it balances by itself (coinbase claims the subsidy under its own kernel - these
\* histories carry no fees -, the rest moves value only, every kernel is a signed commitment to zero, every
\* output is proven).
PipelineOptions == {"NONE", "SYNC", "MINE"}
BlockBalanced(b) ==
  LET outs == BlockOuts(b) ins == BlockIns(b) ks == BlockKerns(b)
  IN  /\ b.cb_out.v = Reward /\ b.cb_out.r = b.cb_kern.x /\ b.cb_kern.xv = 0
      /\ <<SSum(outs, LAMBDA o : o.v) - SSum(ins, LAMBDA i : i.v) - Reward, SSum(outs, LAMBDA o : o.r) - SSum(ins, LAMBDA i : i.r)>>
            = <<SSum(ks, LAMBDA e : e.xv), SSum(ks, LAMBDA e : e.x) + BlockOff(b)>>
      /\ \A i \in 1..Len(outs) : outs[i].pf
      /\ \A i \in 1..Len(ks) : ks[i].sg /\ ks[i].xv = 0
PipelineAccepts(bs, h, opt) == BlockBalanced(bs[h])
\* a history all of whose blocks pass the pipeline leaves a state the full validation accepts (the pipeline
\* keeps the invariant the full-state equation states) - checked on the generated histories below

\* ---- the property (definition; no reference to the rules)
StateNoValueCreated(bs) ==
  LET u == Unspent(bs) k == Kernels(bs)
  IN  /\ SSum(u, LAMBDA o : o.v) = Supply(bs)                 \* the unspent value is the height-determined supply
      /\ \A i \in 1..Len(u) : u[i].v >= 0 /\ u[i].pf           \* made of non-negative, proven amounts
      /\ \A i \in 1..Len(k) : k[i].xv = 0 /\ k[i].sg           \* every kernel is a signed commitment to zero
      /\ SSum(u, LAMBDA o : o.r) = SSum(k, LAMBDA e : e.x) + TotalOff(bs)

\* ---- single corruptions of a history
KernelTargets(n, L) == {<<h, "cb">> : h \in 1..n} \cup {<<h, "tx">> : h \in Spends(L, n)}
\* outputs that are unspent in the final state
OutputTargets(n, L) ==
  {<<h, "cb">> : h \in {g \in 1..n : g + Maturity \notin Spends(L, n)}}
  \cup {<<h, "o1">> : h \in Spends(L, n)} \cup {<<h, "o2">> : h \in Spends(L, n)}
Var(cls, t) == [cls |-> cls, h |-> t[1], slot |-> t[2]]
AllVariants(n, L) ==
  {Var(c, t) : c \in {"kernel_minting", "kernel_sig_swapped", "excess_replaced"}, t \in KernelTargets(n, L)}
  \cup {Var(c, t) : c \in {"proof_swapped", "amount_inflated"}, t \in OutputTargets(n, L)}
  \cup {Var("offset_shifted", <<h, "tx">>) : h \in Spends(L, n)}

AlwaysRefusedState == Classes \ {"base"}
\* corruptions the sums cannot see: only the signature / proof verification stands in their way
SumsBlind == {"kernel_minting", "kernel_sig_swapped", "proof_swapped"}

AllHistories == {nl \in (1..MaxBlocks) \X Layouts : nl[2] = "plain" \/ Spends(nl[2], nl[1]) # {}}

\* ---- large plans: nk kernels (resp. outputs), one forged single-item block at index idx
\* (idx = -1: none), filler blocks of at most cap items
Fill(cnt, cap) ==
  [i \in 1..((cnt + cap - 1) \div cap) |-> IF i * cap <= cnt THEN cap ELSE cnt - (i - 1) * cap]
LargeSizes(items, n, idx, cap) ==
  IF idx < 0 THEN Fill(n, cap) ELSE Fill(idx, cap) \o <<0>> \o Fill(n - idx - 1, cap)    \* 0 marks the forged block
LargeBlocks(items, cls, n, idx, cap) ==
  LET sz == LargeSizes(items, n, idx, cap)
      var(h) == IF sz[h] = 0 THEN Var(cls, <<h, "cb">>) ELSE NoVar
  IN  [h \in 1..Len(sz) |->
         [h |-> h, cb_out |-> CbOut(var(h), h), cb_kern |-> CbKern(var(h), h), txs |-> <<>>,
          \* a filler block of k items: coinbase + (k-1) filler kernels, or + (k-1) zero-value outputs
          \* closed by one kernel
          fill_k |-> IF sz[h] = 0 THEN 0 ELSE IF items = "kernel" THEN sz[h] - 1 ELSE (IF sz[h] > 1 THEN 1 ELSE 0),
          fill_o |-> IF sz[h] = 0 \/ items = "kernel" THEN 0 ELSE sz[h] - 1]]
LargeCls(items) == IF items = "kernel" THEN "kernel_minting" ELSE "proof_swapped"
\* verdict of the walks on a large plan (filler blocks are balanced and honest by construction)
LargeFullValid(p) ==
  LET F == IF p.idx < 0 THEN {} ELSE {p.idx}
  IN  IF p.items = "kernel" THEN Accepts(KernelWalkChecked(p.n, KernelBatch), F)
      ELSE Accepts(ProofWalkChecked(p.n, ProofBatch), F)

\* ---- what the MC module chooses from
BatchPlanChoices == {}
HistoryChoices   == AllHistories
VariantChoices(n, L) == AllVariants(n, L)
LargePlanChoices == {}

NoBatch == Plan("none", "none", 0, {})
NoHist  == [n |-> 0, layout |-> "plain", var |-> NoVar]
NoLarge == [items |-> "none", n |-> 0, idx |-> -1, cap |-> 1]

SInit == sphase = "root" /\ bplan = NoBatch /\ hplan = NoHist /\ lplan = NoLarge

ChooseBatch ==
  /\ sphase = "root"
  /\ \E p \in BatchPlanChoices : bplan' = p
  /\ sphase' = "batch"
  /\ UNCHANGED <<hplan, lplan>>

ChooseHistory ==
  /\ sphase = "root"
  /\ \E nl \in HistoryChoices : hplan' = [n |-> nl[1], layout |-> nl[2], var |-> NoVar]
  /\ sphase' = "hist"
  /\ UNCHANGED <<bplan, lplan>>

CorruptState ==
  /\ sphase = "hist"
  /\ \E v \in VariantChoices(hplan.n, hplan.layout) : hplan' = [hplan EXCEPT !.var = v]
  /\ sphase' = "state"
  /\ UNCHANGED <<bplan, lplan>>

ChooseLarge ==
  /\ sphase = "root"
  /\ \E p \in LargePlanChoices : lplan' = p
  /\ sphase' = "large"
  /\ UNCHANGED <<bplan, hplan>>

SNext == ChooseBatch \/ ChooseHistory \/ CorruptState \/ ChooseLarge
SSpec == SInit /\ [][SNext]_svars

\* ---- what TLC checks
HasHist == sphase \in {"hist", "state"}
Cur == History(hplan.n, hplan.layout, hplan.var)

StateChecks ==
  HasHist =>
    LET bs == Cur
        fv == FullValid(bs)
    IN  /\ Applicable(bs) /\ WellFormedState(bs)
        /\ fv => StateNoValueCreated(bs)                                   \* the rules imply conservation
        /\ sphase = "hist" => fv                                           \* honest histories are accepted
        /\ sphase = "state" => ~fv                                         \* every single corruption is refused
        /\ (sphase = "state" /\ hplan.var.cls \in SumsBlind) =>           \* ... some of them by the signature /
              (FastValid(bs) /\ StateFirstFailing(bs) \in {"range_proofs", "signatures"})   \* proof check alone
        /\ (sphase = "state" /\ hplan.var.cls \notin SumsBlind) => StateFirstFailing(bs) = "kernel_sums"
        \* the pipeline, whatever its options: every block of an honest history passes; of a corrupted one exactly the
        \* corrupted block does not (the blocks before it are delivered through the real pipeline, the corrupted one is
        \* offered to it under every option set and must be refused); and if every block passes the state is valid
        /\ \A opt \in PipelineOptions : \A h \in 1..Len(bs) :
              PipelineAccepts(bs, h, opt) <=> ~(sphase = "state" /\ h = hplan.var.h)
        /\ (\A h \in 1..Len(bs) : BlockBalanced(bs[h])) => fv
        \* the rules as the validator evaluates them (batch walks) are the pointwise rules
        /\ RuleStateSigs(bs) <=> \A i \in 1..Len(Kernels(bs)) : Kernels(bs)[i].sg
        /\ RuleStateProofs(bs) <=> \A i \in 1..Len(Unspent(bs)) : Unspent(bs)[i].pf

BatchChecks ==
  sphase = "batch" =>
    (Accepts(DirectChecked(bplan.n), bplan.forged) <=> BatchOK(bplan.n, bplan.forged))

LargeChecks ==
  sphase = "large" =>
    /\ LargeFullValid(lplan) <=> (lplan.idx < 0)
    /\ lplan.idx < lplan.n

AllStateChecks == StateChecks /\ BatchChecks /\ LargeChecks
=============================================================================
