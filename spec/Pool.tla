------------------------------- MODULE Pool -------------------------------
(***************************************************************************)
(* Transaction pool of grin (pool/src/{transaction_pool,pool}.rs) on top   *)
(* of an abstract chain.  Properties C14 and the pool clause of C13.       *)
(*                                                                         *)
(* A transaction is a non-empty set of ATOMS (single-kernel transactions   *)
(* of a fixed universe); its inputs/outputs are those of the atoms after   *)
(* cut-through, its kernels are the atoms.  That is exactly the shape of   *)
(* transaction::aggregate, so "aggregated forms of already pooled          *)
(* transactions" are just bigger sets.  Commit ids below 100 are coinbase  *)
(* outputs, the id being the creation height (trunk blocks 0..Trunk).      *)
(*                                                                         *)
(* Submit follows TransactionPool::add_to_pool check by check.  Two        *)
(* switches select what the PROPERTY demands versus what the code at the   *)
(* pinned commit does:                                                     *)
(*   FeeFirst  = TRUE : the minimum fee is demanded whatever the fill level*)
(*             = FALSE: is_acceptable's order - capacity first, and a      *)
(*                      non-stem OverCapacity means "add, then evict"      *)
(*   EvictMode = "nodeps": any victim without dependants in the txpool,    *)
(*                      stempool re-validated afterwards (what joint       *)
(*                      validity demands; the choice is otherwise free)    *)
(*             = "any" : any entry, nothing re-validated (an eviction that *)
(*                      ignores dependants - used to show the invariants   *)
(*                      are not vacuous)                                   *)
(*   TimedAlways = TRUE : the height-dependent admission rules do not depend *)
(*                      on the fill level (FALSE: lock height skipped when  *)
(*                      the public pool is over capacity; anti-vacuity)     *)
(*   StemRecheck = "always": the stempool is re-validated on top of the     *)
(*                      public pool whenever a tx enters the public pool   *)
(*               = "touching": only when that tx shares a kernel or a spent*)
(*                      input with a stem tx (anti-vacuity variant: a stem *)
(*                      tx creating the same OUTPUT stays; violates        *)
(*                      StemJointlyValid)                                  *)
(*   FeeOnRemainder = TRUE : a fluff submission that contains already      *)
(*                      pooled transactions is deaggregated FIRST and the  *)
(*                      fee / kernel-variant / capacity tests are applied  *)
(*                      to the remainder (the entry that is admitted)      *)
(*                  = FALSE: tests applied to the aggregate as submitted   *)
(*                      (anti-vacuity variant; violates NoUnderpaid)       *)
(***************************************************************************)
EXTENDS Naturals, Integers, Sequences, FiniteSets, TLC

CONSTANTS Atoms,          \* [1..N -> [ins, outs, fee, shift, lock, nrd, feat, kord]]
                          \*   feat: "plain" - an ordinary transaction; "cbout" - its output carries the COINBASE feature
                          \*         bit; "cbker" - its kernel is a COINBASE kernel (fee 0). Only a block's reward may carry
                          \*         those: such a transaction fails standalone validation (Transaction::validate ->
                          \*         verify_features), whatever else is right about it (sums, proofs, signature all are:
                          \*         the output feature byte is covered by nothing)
                          \*   kord: where the kernel of this atom sorts among the kernels of an aggregate (kernels are sorted
                          \*         by hash): 0 = left to chance, else atoms with a smaller kord sort first. NOT a parameter
                          \*         of any rule below - the lock height of a transaction is the MAXIMUM over its kernels
                          \*         wherever they sit; the replay builds the kernels so that the order is the stated one
          DupCommits, DupCreators, DupSpenders,   \* derived from Atoms (see the ASSUME below)
          Subs,           \* submittable transactions: a set of sets of atom ids
          Trunk,          \* head height at start; coinbases 0..Trunk are unspent
          Maturity,       \* coinbase maturity (3 under AutomatedTesting)
          MaxPool, MaxStem,
          FeeBase,        \* accept_fee_base: minimum fee = weight * FeeBase
          MaxTxWeight,    \* global::max_tx_weight()   = max block weight - coinbase weight
          MaxBlockWeight, \* global::max_block_weight()
          MineWeight,     \* PoolConfig.mineable_max_weight
          FeeFirst, EvictMode,
          TimedAlways,    \* TRUE: lock height (and coinbase maturity, NRD) are demanded whatever the fill level of the pool -
                          \* what C13/C14 demand and what add_to_pool does; FALSE: the lock-height test sits behind the
                          \* capacity test (is_acceptable), and a non-stem OverCapacity means "admit, then evict" - the
                          \* careless variant: an over-capacity pool admits a tx locked to a future height
          StemRecheck,    \* "always": every tx that enters the public pool (submission or reorg cache) is followed by a
                          \* re-validation of the whole stempool on top of the new public pool - what "stem transactions
                          \* are jointly valid with the public pool" demands and what add_to_txpool does;
                          \* "touching": only when the new tx shares a kernel or a spent input with a stem tx (careless
                          \* variant: a stem tx creating the SAME OUTPUT as the new tx stays; violates StemJointlyValid)
          FeeOnRemainder, \* TRUE: kernel-variant / minimum-fee / capacity tests look at the transaction that is actually
                          \* admitted and relayed (the remainder after deaggregation) - what C14 demands and what
                          \* add_to_pool does; FALSE: they look at the transaction as submitted (careless variant:
                          \* an under-paying tx rides in aggregated with an already pooled, well-paying one)
          ShortReorg,     \* allow a heavier but shorter fork (2 blocks replaced by 1)
          NrdEnabled,     \* the node's NRD feature flag (global::is_nrd_enabled)
          NrdHeight,      \* first height whose header version admits NRD kernels (HF3: 9 under AutomatedTesting)
          ReconcileMature, \* TRUE: re-validation after a block / reorg also demands maturity and lock height
                          \* (what C13/C14 demand); FALSE: utxo and sums only, as Pool::reconcile does
          MaxBlocks, MaxSteps   \* model-checking bounds only

VARIABLES chain,      \* blocks connected after the trunk: sequence of sets of atoms
          txpool, stempool, cache,   \* sequences of transactions (sets of atoms), insertion order
          pending,    \* <<B>> when only the HEADER of the next block B has been delivered (header-first
                      \* propagation): the header chain is one ahead of the body chain; else <<>>
          last,       \* observation of the last action (result class etc.)
          nsteps
vars == <<chain, txpool, stempool, cache, pending, last, nsteps>>

AtomIds == DOMAIN Atoms
CoinbaseWeight == 24      \* one output (21) + one kernel (3)

SeqToSet(s) == {s[i] : i \in 1..Len(s)}
AtomsIn(s) == UNION SeqToSet(s)
MaxOf(S) == IF S = {} THEN 0 ELSE CHOOSE x \in S : \A y \in S : y <= x
RECURSIVE Pow2(_)
Pow2(n) == IF n = 0 THEN 1 ELSE 2 * Pow2(n - 1)

Spent(P) == UNION {Atoms[a].ins : a \in P}
Created(P) == UNION {Atoms[a].outs : a \in P}
\* Two atoms may create the SAME output commitment (same value, same key). What counts for a set of transactions applied
\* together (one aggregate / one block, i.e. after cut-through) is, per commitment, creations minus spends:
\*   +1 a new output (must not be unspent on the chain already), -1 a spend of a chain output, 0 cut through,
\*   anything else is a duplicate output / a double spend (transaction::cut_through refuses it)
Net(P, c) == Cardinality({a \in P : c \in Atoms[a].outs}) - Cardinality({a \in P : c \in Atoms[a].ins})
\* DupCommits: the commitments of the universe that more than one atom creates, with their creators and spenders.
\* Sets of atoms with at most one creator and one spender of each are handled with plain set algebra, which is the same
\* thing there and much faster for TLC. (Given as constants because TLC re-evaluates a defined constant expression at
\* every use - measured: 20x slower simulation; the ASSUME ties them to the universe.)
ASSUME /\ DupCommits = {c \in UNION {Atoms[a].outs : a \in DOMAIN Atoms} : Cardinality({a \in DOMAIN Atoms : c \in Atoms[a].outs}) > 1}
       /\ DupCreators = [c \in DupCommits |-> {a \in DOMAIN Atoms : c \in Atoms[a].outs}]
       /\ DupSpenders = [c \in DupCommits |-> {a \in DOMAIN Atoms : c \in Atoms[a].ins}]
\* at most one creator and one spender of every such commitment inside P: set algebra and counting agree
Plain(P) == \A c \in DupCommits : Cardinality(P \cap DupCreators[c]) <= 1 /\ Cardinality(P \cap DupSpenders[c]) <= 1
\* transaction::aggregate : cut-through of everything created and spent inside P
TxOf(P) == IF Plain(P) THEN [k |-> P, ins |-> Spent(P) \ Created(P), outs |-> Created(P) \ Spent(P)]
           ELSE LET cs == Spent(P) \cup Created(P)
                IN [k |-> P, ins |-> {c \in cs : Net(P, c) < 0}, outs |-> {c \in cs : Net(P, c) > 0}]
\* no commit spent twice or created twice inside P once cut-through is done
Consistent(P) == IF Plain(P) THEN \A a, b \in P : a # b => /\ Atoms[a].ins \cap Atoms[b].ins = {}
                                                          /\ Atoms[a].outs \cap Atoms[b].outs = {}
                 ELSE \A c \in Spent(P) \cup Created(P) : Net(P, c) \in {-1, 0, 1}
RECURSIVE FeeOf(_)
FeeOf(P) == IF P = {} THEN 0 ELSE LET a == CHOOSE y \in P : TRUE IN Atoms[a].fee + FeeOf(P \ {a})
ShiftOf(P) == MaxOf({Atoms[a].shift : a \in P})
PaidOf(P) == FeeOf(P) \div Pow2(ShiftOf(P))                 \* Transaction::shifted_fee
LockOf(P) == MaxOf({Atoms[a].lock : a \in P})                \* Transaction::lock_height
WeightOf(e) == Cardinality(e.ins) + 21 * Cardinality(e.outs) + 3 * Cardinality(e.k)
Underpaid(e) == PaidOf(e.k) < WeightOf(e) * FeeBase          \* shifted_fee < accept_fee
\* a body that is a real, balanced transaction: exactly the aggregate of its kernels' atoms
\* TransactionBody::verify_features: no output and no kernel of a transaction is flagged COINBASE
FeaturesOK(P) == \A a \in P : Atoms[a].feat = "plain"
WellFormed(e) == e.k # {} /\ Consistent(e.k) /\ e.ins = TxOf(e.k).ins /\ e.outs = TxOf(e.k).outs

----------------------------------------------------------------------------
\* abstract chain
Confirmed(ch) == UNION {ch[i] : i \in 1..Len(ch)}
\* block by block (a commitment may be created again after it has been spent)
RECURSIVE UtxoUpTo(_, _)
UtxoUpTo(ch, n) == IF n = 0 THEN 0..Trunk
                   ELSE LET t == TxOf(ch[n]) IN (UtxoUpTo(ch, n - 1) \ t.ins) \cup t.outs
Utxo(ch) == IF Plain(Confirmed(ch)) THEN ((0..Trunk) \cup Created(Confirmed(ch))) \ Spent(Confirmed(ch))
            ELSE UtxoUpTo(ch, Len(ch))
HeightOf(ch) == Trunk + Len(ch)
U == Utxo(chain)
Height == HeightOf(chain)
IsCoinbase(c) == c < 100
MatureAt(c, nextHeight) == ~IsCoinbase(c) \/ c + Maturity <= nextHeight

\* Chain::validate_tx of the aggregate of the atoms P (plus Transaction::validate of it)
JointOK(P, u) == IF Plain(P) THEN /\ Consistent(P)
                                  /\ (Spent(P) \ Created(P)) \subseteq u
                                  /\ (Created(P) \ Spent(P)) \cap u = {}
                 ELSE \A c \in Spent(P) \cup Created(P) :
                        LET n == Net(P, c) IN /\ n \in {-1, 0, 1}
                                              /\ (n = 1 => c \notin u)
                                              /\ (n = -1 => c \in u)
Disjoint(s) == \A i, j \in 1..Len(s) : i < j => s[i] \cap s[j] = {}
JointSeq(s, u) == Disjoint(s) /\ JointOK(AtomsIn(s), u) /\ FeaturesOK(AtomsIn(s))    \* (Transaction::validate of the aggregate)

\* what the chain's block pipeline demands of a block body made of the atoms B
ValidBlock(B, ch) ==
  /\ JointOK(B, Utxo(ch))
  /\ FeaturesOK(B)              \* Block::verify_coinbase: the only coinbase output / kernel is the reward (CoinbaseSumMismatch)
  /\ \A c \in TxOf(B).ins : MatureAt(c, HeightOf(ch) + 1)
  /\ LockOf(B) <= HeightOf(ch) + 1
  /\ \A a \in B : Atoms[a].nrd => NrdEnabled /\ HeightOf(ch) + 1 >= NrdHeight   \* Block::validate: NRDKernelPreHF3 / not enabled
  /\ WeightOf(TxOf(B)) + CoinbaseWeight <= MaxBlockWeight

----------------------------------------------------------------------------
\* Pool::add_to_pool : aggregate (extra + pool + new) must validate against the chain
CanAdd(pool, extra, x, u) == JointSeq(extra \o pool \o <<x>>, u)
\* Pool::reconcile : clear and re-add one by one (nh = height of the next block)
StillRipe(x, u, nh) == ReconcileMature => /\ LockOf(x) <= nh
                                          /\ \A c \in TxOf(x).ins \cap u : MatureAt(c, nh)
RECURSIVE Rebuild(_, _, _, _, _)
Rebuild(old, acc, extra, u, nh) ==
  IF old = <<>> THEN acc
  ELSE Rebuild(Tail(old), IF CanAdd(acc, extra, Head(old), u) /\ StillRipe(Head(old), u, nh)
                          THEN Append(acc, Head(old)) ELSE acc, extra, u, nh)
\* Pool::reconcile_block : drop entries sharing a kernel or an input with the block
ReconcileBlock(pool, B) ==
  SelectSeq(pool, LAMBDA x : x \cap B = {} /\ TxOf(x).ins \cap TxOf(B).ins = {})
Remove(pool, v) == SelectSeq(pool, LAMBDA x : x # v)
CachePush(ca, x) == LET c == Append(ca, x) IN IF Len(c) > MaxPool THEN Tail(c) ELSE c

\* TransactionPool::deaggregate_tx + transaction::deaggregate (subtracts the aggregate of the matching
\* pool entries; only balanced when nothing was cut through between the two parts)
Deagg(t) ==
  LET found == {x \in SeqToSet(txpool) : x \subseteq t}
      F == UNION found
  IN IF Cardinality(t) > 1 /\ found # {}
     THEN [k |-> t \ F, ins |-> TxOf(t).ins \ TxOf(F).ins, outs |-> TxOf(t).outs \ TxOf(F).outs]
     ELSE TxOf(t)

\* TransactionPool::verify_kernel_variants: NRD kernels need the feature flag and a HEAD of header version >= 4.
\* (The property only demands that the NEXT block may carry them, Height + 1 >= NrdHeight; the code is stricter by one
\* block. The behaviour generator does not submit NRD kernels at Height = NrdHeight - 1, where both are legitimate.)
NrdRefused(P) == \E a \in P : Atoms[a].nrd /\ (~NrdEnabled \/ Height < NrdHeight)

Rej(why) == [res |-> "reject", why |-> why, tp |-> txpool, sp |-> stempool, ca |-> cache, evict |-> FALSE, adm |-> {}]

\* the checks common to both paths after acceptability: validate, lock height, locate_spends, maturity.
\* Returns "" when all pass, else the reason.
Screen2(e, poolAtoms, withLock) ==
  IF ~FeaturesOK(e.k) THEN "invalid_features"       \* Transaction::validate starts with verify_features
  ELSE IF ~WellFormed(e) THEN "invalid"
  ELSE IF WeightOf(e) > MaxTxWeight THEN "weight"
  ELSE IF withLock /\ LockOf(e.k) > Height + 1 THEN "locked"
  ELSE LET fromUtxo == e.ins \ TxOf(poolAtoms).outs
       IN IF ~(fromUtxo \subseteq U) THEN "missing_input"
          ELSE IF \E c \in fromUtxo : ~MatureAt(c, Height + 1) THEN "immature"
          ELSE ""
Screen(e, poolAtoms) == Screen2(e, poolAtoms, TRUE)

\* the quick "do they touch" filter (shared kernel or shared spent input) - NOT enough to decide whether a stem tx
\* survives a new public-pool tx: output commitments have to be unique too
Touches(x, sp) == \E y \in SeqToSet(sp) : y \cap x # {} \/ TxOf(y).ins \cap TxOf(x).ins # {}
\* stempool.reconcile(txpool_agg) after a tx entered the public pool
Restem(sp, x, tp1, u, nh) == IF StemRecheck = "always" \/ Touches(x, sp) THEN Rebuild(sp, <<>>, tp1, u, nh) ELSE sp

\* add_to_txpool + add_to_reorg_cache + tx_accepted
AddFluff(x, sp0, over) ==
  IF ~CanAdd(txpool, <<>>, x, U)
  THEN [res |-> "reject", why |-> "conflict", tp |-> txpool, sp |-> sp0, ca |-> cache, evict |-> FALSE, adm |-> {}]
  ELSE LET tp1 == Append(txpool, x)
       IN [res |-> "ok_fluff", why |-> "", tp |-> tp1, sp |-> Restem(sp0, x, tp1, U, Height + 1),
           ca |-> CachePush(cache, x), evict |-> over, adm |-> x]

Fluff(t) ==
  IF t \in SeqToSet(txpool) THEN Rej("dup")
  ELSE LET e == Deagg(t)                                   \* deaggregate_tx comes first ...
           f == IF FeeOnRemainder THEN e ELSE TxOf(t)      \* ... so that the admission tests see the remainder
           over == Len(txpool) > MaxPool
       IN IF NrdRefused(f.k) THEN Rej("nrd")
          ELSE IF FeeFirst /\ Underpaid(f) THEN Rej("fee")
          ELSE IF ~over /\ Underpaid(f) THEN Rej("fee")
          ELSE LET \* careless order only: over capacity, the lock height is never looked at
                   s == Screen2(e, AtomsIn(txpool), TimedAlways \/ ~over)
               IN IF s # "" THEN Rej(s) ELSE AddFluff(e.k, stempool, over)

Stem(t, relay) ==
  IF t \in SeqToSet(stempool) THEN Fluff(t)
  ELSE IF t \in SeqToSet(txpool) THEN Rej("dup")
  ELSE LET e == TxOf(t)
       IN IF NrdRefused(t) THEN Rej("nrd")
          ELSE IF Len(txpool) > MaxPool \/ Len(stempool) > MaxStem THEN Rej("capacity")
          ELSE IF Underpaid(e) THEN Rej("fee")
          ELSE LET s == Screen(e, AtomsIn(txpool \o stempool))
               IN IF s # "" THEN Rej(s)
                  ELSE IF ~CanAdd(stempool, txpool, t, U) THEN Rej("conflict")
                  ELSE LET sp1 == Append(stempool, t)
                       IN IF relay
                          THEN [res |-> "ok_stem", why |-> "", tp |-> txpool, sp |-> sp1, ca |-> cache, evict |-> FALSE, adm |-> t]
                          ELSE AddFluff(t, sp1, FALSE)      \* the adapter refused the stem relay: fluff it

\* entries no other txpool entry depends on
\* = taking it out leaves a jointly valid public pool: no other entry spends one of its outputs (unless another
\* entry creates that output too), and it is not the spender that keeps two creators of the same output apart
Evictable(tp) == {x \in SeqToSet(tp) : JointOK(AtomsIn(Remove(tp, x)), U)}

\* Pool::evict_transaction / bucket_transactions AS IMPLEMENTED at the pinned commit. The property leaves the victim
\* free among Evictable; this function only PREDICTS which entry the code picks, so that (a) generated behaviours follow
\* the real pool through evictions instead of stopping at a differing legal victim and (b) an eviction that breaks
\* joint validity can be told apart by the rule that chose the victim (the known findings are those of THIS rule).
\*   entries in insertion order; an entry with an input in `rej`, or with more than one input found in the index of
\*   bucketed outputs, is rejected (its outputs go to `rej`); no indexed input: own bucket at the end; one: aggregate
\*   with that bucket if the aggregate is a transaction and the fee rate does not drop, else own bucket at the end -
\*   but its outputs are indexed under the PARENT's position either way; buckets sorted by (rate descending, age);
\*   the victim is the last transaction of the last bucket.
BRate(P) == FeeOf(P) \div WeightOf(TxOf(P))                  \* Transaction::fee_rate (plain fee, integer division)
RECURSIVE Buckets(_, _)
Buckets(s, st) ==
  IF s = <<>> THEN st
  ELSE LET x == Head(s)
           e == TxOf(x)
           hits == {c \in e.ins : c \notin st.rej /\ c \in DOMAIN st.idx}
           Index(pos) == [c \in DOMAIN st.idx \cup e.outs |-> IF c \in e.outs THEN pos ELSE st.idx[c]]
           Reject == [st EXCEPT !.rej = @ \cup e.outs]
           NewBucket(pos) == [st EXCEPT !.b = Append(@, [txs |-> <<x>>, atoms |-> x, rate |-> BRate(x)]), !.idx = Index(pos)]
       IN Buckets(Tail(s),
            IF e.ins \cap st.rej # {} \/ Cardinality(hits) > 1 THEN Reject
            ELSE IF hits = {} THEN NewBucket(Len(st.b) + 1)
            ELSE LET pos == st.idx[CHOOSE c \in hits : TRUE]
                     bk == st.b[pos]
                     P == bk.atoms \cup x
                 IN IF bk.atoms \cap x # {} \/ ~Consistent(P) THEN Reject
                    ELSE IF BRate(P) >= bk.rate
                         THEN [st EXCEPT !.b[pos] = [txs |-> Append(bk.txs, x), atoms |-> P, rate |-> BRate(P)], !.idx = Index(pos)]
                         ELSE NewBucket(pos))
CodeVictim(tp) ==
  LET b == Buckets(tp, [b |-> <<>>, idx |-> [c \in {} |-> 0], rej |-> {}]).b
  IN IF b = <<>> THEN {}
     ELSE LET lo == CHOOSE r \in {b[i].rate : i \in 1..Len(b)} : \A i \in 1..Len(b) : r <= b[i].rate
              i == MaxOf({j \in 1..Len(b) : b[j].rate = lo})      \* age = order of creation = position
          IN b[i].txs[Len(b[i].txs)]

\* The FORM in which the inputs of a submission are written - commitments only, or commitments with DECLARED output
\* features, truthful or not (coinbase labelled plain, plain labelled coinbase) - is deliberately not a parameter:
\* the declared features are covered by no signature, add_to_pool looks the spent outputs up (locate_spends) and
\* decides maturity from what the chain / the pool says they are, and the admitted entry carries the looked-up
\* features (convert_tx_v2). The behaviour generator (MC_Pool) attaches a form to every submission and the replay
\* demands the same verdict and the same pools whatever the form.
Submit(t, stem, relay) ==
  LET r == IF stem THEN Stem(t, relay) ELSE Fluff(t)
  IN /\ nsteps < MaxSteps
     /\ IF r.evict
        THEN \E v \in (IF EvictMode = "nodeps" THEN Evictable(r.tp) ELSE SeqToSet(r.tp)) :
               /\ txpool' = Remove(r.tp, v)
               /\ stempool' = IF EvictMode = "nodeps" THEN Rebuild(r.sp, <<>>, txpool', U, Height + 1) ELSE r.sp
               /\ last' = [k |-> "Submit", t |-> t, stem |-> stem, relay |-> relay, res |-> r.res, why |-> r.why,
                           adm |-> r.adm, evict |-> TRUE, pre |-> r.tp, allowed |-> Evictable(r.tp), victim |-> v,
                           codevictim |-> CodeVictim(r.tp)]
        ELSE /\ txpool' = r.tp
             /\ stempool' = r.sp
             /\ last' = [k |-> "Submit", t |-> t, stem |-> stem, relay |-> relay, res |-> r.res, why |-> r.why,
                         adm |-> r.adm, evict |-> FALSE, pre |-> <<>>, allowed |-> {}, victim |-> {}, codevictim |-> {}]
     /\ cache' = r.ca
     /\ nsteps' = nsteps + 1
     /\ UNCHANGED <<chain, pending>>

\* ChainToPoolAndNetAdapter::block_accepted with status Next: reconcile_block (+ time-based cache truncation,
\* which never fires within a behaviour: entries are younger than reorg_cache_period)
AfterBlock(B, ch) ==
  LET u == Utxo(ch)
      nh == HeightOf(ch) + 1
      tp1 == Rebuild(ReconcileBlock(txpool, B), <<>>, <<>>, u, nh)
      sp1 == Rebuild(ReconcileBlock(stempool, B), <<>>, tp1, u, nh)
  IN [tp |-> tp1, sp |-> sp1]

\* Only the header of the next block arrives (process_block_header).  Nothing the pool depends on changes:
\* "next block height", maturity and lock heights are all relative to the BODY head.
HeaderFirst(B) ==
  /\ nsteps < MaxSteps /\ Len(chain) < MaxBlocks
  /\ pending = <<>>
  /\ ValidBlock(B, chain)
  /\ pending' = <<B>>
  /\ last' = [k |-> "Header", d |-> 0, bs |-> <<B>>]
  /\ nsteps' = nsteps + 1
  /\ UNCHANGED <<chain, txpool, stempool, cache>>

ConnectBlock(B) ==
  /\ nsteps < MaxSteps /\ Len(chain) < MaxBlocks
  /\ pending = <<>> \/ pending = <<B>>
  /\ pending' = <<>>
  /\ ValidBlock(B, chain)
  /\ chain' = Append(chain, B)
  /\ LET r == AfterBlock(B, chain') IN txpool' = r.tp /\ stempool' = r.sp
  /\ last' = [k |-> "Connect", d |-> 0, bs |-> <<B>>]
  /\ nsteps' = nsteps + 1
  /\ UNCHANGED cache

\* TransactionPool::reconcile_reorg_cache : add_to_txpool for every cached entry, failures ignored
RECURSIVE ReAdd(_, _, _, _, _)
ReAdd(ca, tp, sp, u, nh) ==
  IF ca = <<>> THEN [tp |-> tp, sp |-> sp]
  ELSE LET x == Head(ca)
       IN IF CanAdd(tp, <<>>, x, u) /\ StillRipe(x, u, nh)
          THEN LET tp1 == Append(tp, x) IN ReAdd(Tail(ca), tp1, Restem(sp, x, tp1, u, nh), u, nh)
          ELSE ReAdd(Tail(ca), tp, sp, u, nh)

RECURSIVE ValidBranch(_, _)
ValidBranch(base, bs) == IF Len(bs) = 0 THEN TRUE
                         ELSE ValidBlock(bs[1], base) /\ ValidBranch(Append(base, bs[1]), SubSeq(bs, 2, Len(bs)))

\* The chain switches to another branch: the last d blocks are replaced by bs.  The blocks of the new branch
\* are reported as Fork (no pool action) until the one that overtakes, reported as Reorg: reconcile_block with
\* that block only, then reconcile_reorg_cache.  Either d+1 blocks of equal difficulty, or (ShortReorg) one
\* heavier block replacing two.
Reorg(d, bs) ==
  /\ nsteps < MaxSteps
  /\ pending = <<>>
  /\ d >= 1 /\ d <= Len(chain)
  /\ \/ Len(bs) = d + 1
     \/ ShortReorg /\ d = 2 /\ Len(bs) = 1
  /\ Len(chain) - d + Len(bs) <= MaxBlocks
  /\ LET base == SubSeq(chain, 1, Len(chain) - d)
     IN /\ ValidBranch(base, bs)
        /\ chain' = base \o bs
  /\ LET r1 == AfterBlock(bs[Len(bs)], chain')
         r2 == ReAdd(cache, r1.tp, r1.sp, Utxo(chain'), HeightOf(chain') + 1)
     IN txpool' = r2.tp /\ stempool' = r2.sp
  /\ last' = [k |-> "Reorg", d |-> d, bs |-> bs]
  /\ nsteps' = nsteps + 1
  /\ UNCHANGED <<cache, pending>>

\* Pool::prepare_mineable_transactions : some order of the pool (the bucket order - left free here), then
\* validate_raw_txs keeps a tx when the aggregate so far plus it validates within the miner's weight limit.
\* Weighting::AsLimitedTransaction: the miner's mineable_max_weight never lifts the limit above the consensus block
\* weight (a node may be CONFIGURED with a larger value), and room is left for the coinbase.
MineLimit == IF MineWeight < MaxBlockWeight THEN MineWeight ELSE MaxBlockWeight
RECURSIVE Greedy(_, _)
Greedy(s, acc) ==
  IF s = <<>> THEN acc
  ELSE LET P == acc \cup Head(s)
       IN Greedy(Tail(s), IF /\ acc \cap Head(s) = {} /\ JointOK(P, U)
                             /\ WeightOf(TxOf(P)) + CoinbaseWeight <= MineLimit THEN P ELSE acc)
Mineable == Greedy(txpool, {})

\* mine_block::get_block / build_block : the block template handed to a miner for the set S offered by the pool.
\*   prev    : it is built on the BODY head (Chain::head_header), never on a header that is ahead of its body
\*             (`pending`): the roots of the txhashset can only be computed on top of a block whose body is known
\*   claimed : the coinbase claims the block reward plus the PLAIN sum of the kernels' fee fields (Transaction::fee).
\*             The fee shift of a kernel only scales what the POOL demands (shifted_fee); the kernel sums of a block
\*             balance (Block::verify_coinbase, verify_kernel_sums with overage = reward + fees) exactly when the
\*             coinbase claims what the kernels carry - so get_block, which retries until build_block succeeds, only
\*             returns at all if claimed = FeeOf(S)
\*   late    : the header timestamp is after the head's even when the head's timestamp is ahead of the local clock
TemplateFor(S) == [prev |-> HeightOf(chain), height |-> HeightOf(chain) + 1, txs |-> S, claimed |-> FeeOf(S),
                   weight |-> WeightOf(TxOf(S)) + CoinbaseWeight]
\* what the chain's pipeline demands of a template (plus the miner's own limit)
TemplateOK(tm) == /\ tm.prev = Height /\ tm.height = Height + 1
                  /\ ValidBlock(tm.txs, chain)
                  /\ tm.claimed = FeeOf(tm.txs)
                  /\ tm.weight <= MineWeight /\ tm.weight <= MaxBlockWeight
PrepareMineable ==
  /\ nsteps < MaxSteps
  /\ last' = [k |-> "Mineable", set |-> Mineable]
  /\ nsteps' = nsteps + 1
  /\ UNCHANGED <<chain, txpool, stempool, cache, pending>>

Init == /\ chain = <<>> /\ txpool = <<>> /\ stempool = <<>> /\ cache = <<>> /\ pending = <<>>
        /\ last = [k |-> "Init"] /\ nsteps = 0

----------------------------------------------------------------------------
\* Invariants (C14)
PoolJointlyValid == JointSeq(txpool, U)
StemJointlyValid == JointSeq(txpool \o stempool, U)
\* C13 pool clause as a state property: nothing in the public pool is immature or height-locked for the next block
PoolMatureUnlocked ==
  /\ \A c \in TxOf(AtomsIn(txpool)).ins : MatureAt(c, Height + 1)
  /\ LockOf(AtomsIn(txpool)) <= Height + 1
Admitted == last.k = "Submit" /\ last.res # "reject"
NoUnderpaid == /\ Admitted => ~Underpaid(TxOf(last.adm))
               /\ \A x \in SeqToSet(txpool \o stempool) : ~Underpaid(TxOf(x))
NoOverweight == /\ Admitted => WeightOf(TxOf(last.adm)) <= MaxTxWeight
                /\ \A x \in SeqToSet(txpool \o stempool) : WeightOf(TxOf(x)) <= MaxTxWeight
\* C13: admission respects maturity and lock height at the moment of admission
AdmitMatureUnlocked ==
  Admitted => /\ LockOf(last.adm) <= Height + 1
              /\ \A c \in TxOf(last.adm).ins : c \in U => MatureAt(c, Height + 1)
MineableAccepted == /\ ValidBlock(Mineable, chain)
                    /\ WeightOf(TxOf(Mineable)) + CoinbaseWeight <= MineWeight
                    /\ TemplateOK(TemplateFor(Mineable))
=============================================================================
