------------------------------- MODULE Keys -------------------------------
(***************************************************************************)
(* C20 - keys, commitments, range-proof rewind, blinding algebra, builder.  *)
(*                                                                         *)
(* HONEST FRAMING.  Cryptographic determinism (HMAC-SHA512, secp256k1,      *)
(* bulletproofs) is outside TLA+.  This module is a WORLD MODEL / CASE      *)
(* TABLE and an ALGEBRA OVER KEY NAMES:                                     *)
(*  - secret keys, commitments, nonces are *names* (tuples of the arguments *)
(*    they are derived from); distinct names stand for distinct values      *)
(*    (injectivity of the primitives is the trusted base);                  *)
(*  - the rewind message formats, the depth / switch decoding and the       *)
(*    view-key walk are transcribed from core/src/libtx/proof.rs in the     *)
(*    shape of the implementation (byte fields b0 b1 sw dp c[1..4]);        *)
(*  - definitional oracles (the rewind matrix of the property statement)    *)
(*    are stated separately and TLC checks the transcription against them   *)
(*    for every case inside the bounds;                                     *)
(*  - blinding factors are vectors in the free abelian group over key names;*)
(*    blind_sum / add / split are transcribed and the identities of the     *)
(*    property are invariants.                                              *)
(* Direction A turns every emitted case into >= 5 seeded instantiations     *)
(* against the real ExtKeychain / proof / build / reward code.              *)
(*                                                                         *)
(* Three sub-models share this module; constant Part selects the one that   *)
(* Next explores: "rewind" (Create / Craft), "algebra" (Append), "builder"   *)
(* (Shape).                                                                 *)
(***************************************************************************)
EXTENDS Naturals, Integers, Sequences, FiniteSets, TLC

CONSTANTS
  Part,        \* "rewind" | "algebra" | "builder"
  Seeds,       \* wallet seeds (strings)
  Comps,       \* path component classes (strings); "c0" is the value 0 (= identifier padding)
  HardComps,   \* the classes >= 2^31 (hardened child numbers)
  Amts,        \* amount classes; "a0" is the amount 0
  MaxDepth,    \* deepest path (4 = ExtKeychainPath)
  VKMaxDepth,  \* view keys are created for prefixes up to this depth
  MaxOuts,     \* outputs per world
  Fmts,        \* message formats that Craft may use: subset of {"new","legacy","wallet1","sw2"}
  KeyNames,    \* blinding algebra: names of non-zero keys (derived "d*" and raw "r*")
  MaxTerms,    \* blinding algebra: longest expression
  MaxIO,       \* builder: most inputs / outputs
  MaxUnit,     \* builder: largest unit count of one input / output
  FeeClasses, ScaleClasses, KernClasses, ViaClasses, CbFeeClasses

VARIABLES world, outs, expr, shape
vars == <<world, outs, expr, shape>>

Modes == {"Regular", "None"}
Fams  == {"new", "legacy"}          \* proof-builder generations = nonce families
ZeroComp == "c0"
Min(a, b) == IF a < b THEN a ELSE b

-----------------------------------------------------------------------------
(* ---------------- names for keys, commitments, nonces ------------------- *)

Paths == UNION {[1..d -> Comps] : d \in 0..MaxDepth}

\* Identifier: depth byte + four components, unused ones are 0 (ExtKeychainPath::new(d, ..))
Ident(p) == [depth |-> Len(p), c |-> [i \in 1..4 |-> IF i <= Len(p) THEN p[i] ELSE ZeroComp]]
\* derive_key walks path[0..depth) only
EffPath(id) == [i \in 1..Min(id.depth, 4) |-> id.c[i]]
XPrv(seed, ep) == <<"xprv", seed, ep>>
Blind(seed, id, amt, mode) ==
  IF mode = "Regular" THEN <<"switch", amt, XPrv(seed, EffPath(id))>> ELSE XPrv(seed, EffPath(id))
CommitN(seed, id, amt, mode) == <<"commit", amt, Blind(seed, id, amt, mode)>>
RootId == Ident(<<>>)

\* ProofBuilder: rewind_hash = H(public root key); LegacyProofBuilder: root_hash = derive_key(0, root, Regular)
NonceSecret(fam, seed) ==
  IF fam = "legacy" THEN <<"root_hash", Blind(seed, RootId, "a0", "Regular")>>
  ELSE <<"rewind_hash", <<"xpub", seed>>>>
Nonce(fam, seed, commit) == <<NonceSecret(fam, seed), commit>>

ModeByte(mode) == IF mode = "None" THEN 0 ELSE 1
\* 20-byte proof message as fields: b0 b1 sw dp + 16 bytes of path
Msg(fmt, id, mode) ==
  CASE fmt = "new"     -> [b0 |-> 0, b1 |-> 0, sw |-> ModeByte(mode), dp |-> id.depth, c |-> id.c]
    [] fmt = "legacy"  -> [b0 |-> 0, b1 |-> 0, sw |-> 0, dp |-> 0, c |-> id.c]
    [] fmt = "wallet1" -> [b0 |-> 0, b1 |-> 1, sw |-> ModeByte(mode), dp |-> id.depth, c |-> id.c]
    [] fmt = "sw2"     -> [b0 |-> 0, b1 |-> 0, sw |-> 2, dp |-> id.depth, c |-> id.c]

Args == [seed : Seeds, path : Paths, amt : Amts, mode : Modes, fam : Fams, fmt : Fmts]
Honest(a) == a.fam = a.fmt

\* The output (commitment + proof) that creation yields for arguments a.
MkOut(a) ==
  LET id == Ident(a.path)
      cm == CommitN(a.seed, id, a.amt, a.mode) IN
  [args |-> a, commit |-> cm,
   proof |-> [cm |-> cm, nonce |-> Nonce(a.fam, a.seed, cm), val |-> a.amt, msg |-> Msg(a.fmt, id, a.mode)]]

\* bulletproof verification: the proof is bound to the commitment it was made for
Verifies(commit, proof) == proof.cm = commit

-----------------------------------------------------------------------------
(* ---------------- rewind, in the shape of proof.rs ---------------------- *)

NoneR == [t |-> "none"]
UnsupR == [t |-> "unsupported"]          \* ViewKey::commit(.., Regular) = Err(SwitchCommitment)
SomeR(amt, id, mode) == [t |-> "some", amt |-> amt, id |-> id, mode |-> mode]
ModeOf(b) == IF b = 0 THEN "None" ELSE "Regular"

\* ProofBuilder::check_output
CheckNew(seed, commit, amt, m) ==
  IF m.b0 # 0 \/ m.b1 # 0 THEN NoneR
  ELSE IF m.sw \notin {0, 1} THEN NoneR
  ELSE LET id == [depth |-> Min(m.dp, 4), c |-> m.c]
           mode == ModeOf(m.sw) IN
       IF CommitN(seed, id, amt, mode) = commit THEN SomeR(amt, id, mode) ELSE NoneR

\* LegacyProofBuilder::check_output: depth 3 and the regular switch commitment are assumed
CheckLegacy(seed, commit, amt, m) ==
  IF m.b0 # 0 \/ m.b1 # 0 \/ m.sw # 0 \/ m.dp # 0 THEN NoneR
  ELSE LET id == [depth |-> 3, c |-> m.c] IN
       IF CommitN(seed, id, amt, "Regular") = commit THEN SomeR(amt, id, "Regular") ELSE NoneR

\* impl ProofBuild for ViewKey: vk = [seed, prefix]; the key is walked from the view key's own
\* position along path[vk.depth .. depth) by *public* derivation.
CheckView(vk, commit, amt, m) ==
  IF m.b0 # 0 \/ m.b1 # 0 THEN NoneR
  ELSE IF m.sw \notin {0, 1} THEN NoneR
  ELSE LET id == [depth |-> Min(m.dp, 4), c |-> m.c]
           mode == ModeOf(m.sw)
           d == id.depth
           vd == Len(vk.prefix) IN
       IF vd > d THEN NoneR
       ELSE IF vd > 0 /\ d > 0 /\ vk.prefix[vd] # id.c[vd] THEN NoneR
       ELSE IF \E i \in (vd + 1)..d : id.c[i] \in HardComps THEN NoneR
       ELSE IF mode = "Regular" THEN UnsupR
       ELSE LET ep == vk.prefix \o [i \in 1..(d - vd) |-> id.c[vd + i]] IN
            IF <<"commit", amt, XPrv(vk.seed, ep)>> = commit THEN SomeR(amt, id, mode) ELSE NoneR

FamOf(kind) == IF kind = "legacy" THEN "legacy" ELSE "new"   \* the view key shares rewind_hash

\* proof::rewind(secp, builder, commit, None, proof)
Rewind(rw, commit, proof) ==
  IF Nonce(FamOf(rw.kind), rw.seed, commit) # proof.nonce THEN NoneR
  ELSE CASE rw.kind = "new"    -> CheckNew(rw.seed, commit, proof.val, proof.msg)
         [] rw.kind = "legacy" -> CheckLegacy(rw.seed, commit, proof.val, proof.msg)
         [] rw.kind = "view"   -> CheckView(rw, commit, proof.val, proof.msg)

KeychainRewinders == [kind : Fams, seed : Seeds, prefix : {<<>>}]
VKPrefixes == UNION {[1..d -> Comps] : d \in 0..VKMaxDepth}
ViewRewinders == [kind : {"view"}, seed : Seeds, prefix : VKPrefixes]
Rewinders == KeychainRewinders \cup ViewRewinders

-----------------------------------------------------------------------------
(* ---------------- definitional oracles (the property) ------------------- *)

Triple(a) == SomeR(a.amt, Ident(a.path), a.mode)
\* what each builder generation promises to recover
InDomain(a) == a.fam = "new" \/ (Len(a.path) = 3 /\ a.mode = "Regular")
IsPrefix(p, q) == Len(p) <= Len(q) /\ \A i \in 1..Len(p) : p[i] = q[i]
ViewMatch(vk, a) ==
  /\ a.fam = "new" /\ vk.seed = a.seed /\ IsPrefix(vk.prefix, a.path)
  /\ \A i \in (Len(vk.prefix) + 1)..Len(a.path) : a.path[i] \notin HardComps

\* rewinding with the same seed and the same builder generation recovers exactly
\* <<amount, path, mode>>; every other keychain recovers nothing
KeychainMatrixOK ==
  \A o \in outs : Honest(o.args) =>
    \A rw \in KeychainRewinders :
      Rewind(rw, o.commit, o.proof) =
        IF rw.seed = o.args.seed /\ rw.kind = o.args.fam /\ InDomain(o.args) THEN Triple(o.args) ELSE NoneR

\* the matching view key (same seed, prefix of the path, public derivation possible) recovers the
\* triple of a no-switch output; for the regular switch commitment the code answers
\* "unsupported" (view_key.rs); nobody else learns anything
ViewMatrixOK ==
  \A o \in outs : Honest(o.args) =>
    \A vk \in ViewRewinders :
      LET r == Rewind(vk, o.commit, o.proof) IN
      IF ViewMatch(vk, o.args)
        THEN r = (IF o.args.mode = "None" THEN Triple(o.args) ELSE UnsupR)
        ELSE r \in {NoneR, UnsupR} /\ (r = UnsupR => vk.seed = o.args.seed /\ o.args.mode = "Regular")

\* whatever is rewound (also a proof whose message has a foreign format), the answer is either
\* nothing or exactly the creation triple
NeverGarbage ==
  \A o \in outs : \A rw \in Rewinders :
    Rewind(rw, o.commit, o.proof) \in {NoneR, UnsupR, Triple(o.args)}

OtherSeedNothing ==
  \A o \in outs : \A rw \in Rewinders :
    rw.seed # o.args.seed => Rewind(rw, o.commit, o.proof) = NoneR

\* each generation rewinds only its own message format
OwnFormatOnly ==
  \A o \in outs : \A rw \in KeychainRewinders :
    Rewind(rw, o.commit, o.proof).t = "some" =>
      \/ o.args.fmt = rw.kind
      \/ (Len(o.args.path) = 0 /\ o.args.mode = "None" /\ o.args.fmt \in Fams)  \* both layouts are 20 zero bytes

ProofsVerify == \A o \in outs : Verifies(o.commit, o.proof)

\* determinism: equal arguments, equal outputs; different effective arguments, different commitments
Determinism == \A o1, o2 \in outs : o1.args = o2.args => o1 = o2
NoCollision ==
  \A o1, o2 \in outs :
    o1.commit = o2.commit =>
      /\ o1.args.seed = o2.args.seed /\ o1.args.path = o2.args.path
      /\ o1.args.amt = o2.args.amt /\ o1.args.mode = o2.args.mode

\* a proof moved to another commitment neither verifies nor rewinds
SwappedProofNothing ==
  \A o1, o2 \in outs :
    o1.commit # o2.commit =>
      /\ ~Verifies(o2.commit, o1.proof)
      /\ \A rw \in Rewinders : Rewind(rw, o2.commit, o1.proof) = NoneR

\* Siblings: argument records differing from a in exactly one coordinate (the case table attaches
\* them to every emitted case: their commitments differ, the proof does not transfer).
NextIn(S, x) == IF \E y \in S : y # x THEN CHOOSE y \in S : y # x ELSE x
Siblings(a) ==
  {[a EXCEPT !.seed = NextIn(Seeds, a.seed)], [a EXCEPT !.amt = NextIn(Amts, a.amt)],
   [a EXCEPT !.mode = NextIn(Modes, a.mode)]}
  \cup (IF Len(a.path) > 0
          THEN {[a EXCEPT !.path = SubSeq(a.path, 1, Len(a.path) - 1)],
                [a EXCEPT !.path = [a.path EXCEPT ![Len(a.path)] = NextIn(Comps, a.path[Len(a.path)])]]}
          ELSE {})
  \cup (IF Len(a.path) < MaxDepth THEN {[a EXCEPT !.path = Append(a.path, ZeroComp)]} ELSE {})
SiblingsOK ==
  \A o \in outs : \A b \in Siblings(o.args) :
    b # o.args =>
      /\ MkOut(b).commit # o.commit
      /\ ~Verifies(MkOut(b).commit, o.proof)
      /\ \A rw \in KeychainRewinders : Rewind(rw, MkOut(b).commit, o.proof) = NoneR

-----------------------------------------------------------------------------
(* ---------------- blinding-factor algebra over key names ---------------- *)

Zero == [n \in KeyNames |-> 0]
Unit(x) == [n \in KeyNames |-> IF n = x THEN 1 ELSE 0]      \* "z" (the zero key) maps to Zero
VAdd(a, b) == [n \in KeyNames |-> a[n] + b[n]]
VNeg(a) == [n \in KeyNames |-> 0 - a[n]]
IsZero(a) == a = Zero

Terms == [s : {1, -1}, n : KeyNames \cup {"z"}]
Count(e, s, n) == Cardinality({i \in DOMAIN e : e[i].s = s /\ e[i].n = n})

\* Keychain::blind_sum(BlindSum): partition into positive / negative lists, secp.blind_sum(pos, neg)
BlindSumImpl(e) == [n \in KeyNames |-> Count(e, 1, n) - Count(e, -1, n)]
\* BlindingFactor::add: zero operands are filtered out
AddImpl(a, b) == VAdd(a, b)
\* BlindingFactor::split(self, blind_1) = blind_sum([self], [blind_1])
SplitImpl(w, p) == VAdd(w, VNeg(p))
\* definitional value: left-to-right signed sum
RECURSIVE Val(_)
Val(e) == IF e = <<>> THEN Zero
          ELSE LET t == e[Len(e)] u == IF t.n = "z" THEN Zero ELSE Unit(t.n) IN
               VAdd(Val(SubSeq(e, 1, Len(e) - 1)), IF t.s = 1 THEN u ELSE VNeg(u))
\* commit(0, b): homomorphic image, commit_sum(pos, neg) of the per-term commitments
CommitSumN(e) == VAdd([n \in KeyNames |-> Count(e, 1, n)], VNeg([n \in KeyNames |-> Count(e, -1, n)]))

Swap(e, i) == [e EXCEPT ![i] = e[i + 1], ![i + 1] = e[i]]
Reverse(e) == [i \in 1..Len(e) |-> e[Len(e) + 1 - i]]

AlgSumIsValue == BlindSumImpl(expr) = Val(expr)
AlgPermutation ==
  /\ \A i \in 1..(Len(expr) - 1) : BlindSumImpl(Swap(expr, i)) = BlindSumImpl(expr)
  /\ BlindSumImpl(Reverse(expr)) = BlindSumImpl(expr)
AlgAddSubRestores ==
  \A x \in KeyNames :
    /\ BlindSumImpl(expr \o <<[s |-> 1, n |-> x], [s |-> -1, n |-> x]>>) = BlindSumImpl(expr)
    /\ SplitImpl(AddImpl(BlindSumImpl(expr), Unit(x)), Unit(x)) = BlindSumImpl(expr)
    /\ AddImpl(SplitImpl(BlindSumImpl(expr), Unit(x)), Unit(x)) = BlindSumImpl(expr)
AlgSplitSums ==
  \A k \in 0..Len(expr) :
    LET p == BlindSumImpl(SubSeq(expr, 1, k))
        w == BlindSumImpl(expr) IN
    /\ AddImpl(p, SplitImpl(w, p)) = w
    /\ SplitImpl(w, p) = BlindSumImpl(SubSeq(expr, k + 1, Len(expr)))
AlgCommitHom == CommitSumN(expr) = BlindSumImpl(expr)

-----------------------------------------------------------------------------
(* ---------------- builder clause ----------------------------------------- *)
(* A shape is a pair of multisets of unit counts (inputs, outputs) whose sums *)
(* are equal, plus fee / scale / kernel / entry-point classes.  Real values:  *)
(* value = units * scale, the first input also pays the fee.  Key names:      *)
(* <<"in", i>>, <<"out", j>>, <<"e", 0>> (the random kernel excess).           *)

Sorted(s) == \A i \in 1..(Len(s) - 1) : s[i] <= s[i + 1]
RECURSIVE SumSeq(_)
SumSeq(s) == IF s = <<>> THEN 0 ELSE s[Len(s)] + SumSeq(SubSeq(s, 1, Len(s) - 1))
UnitSeqs == {s \in UNION {[1..n -> 0..MaxUnit] : n \in 1..MaxIO} : Sorted(s)}
Shapes == {sh \in [ins : UnitSeqs, outs : UnitSeqs, fee : FeeClasses, scale : ScaleClasses,
                   kern : KernClasses, via : ViaClasses] : SumSeq(sh.ins) = SumSeq(sh.outs)}

BNames(sh) == {<<"in", i>> : i \in DOMAIN sh.ins} \cup {<<"out", j>> : j \in DOMAIN sh.outs} \cup {<<"e", 0>>}
BUnit(sh, x) == [n \in BNames(sh) |-> IF n = x THEN 1 ELSE 0]
\* blind_sum accumulated by the combinators: outputs positive, inputs negative
BuilderSum(sh) == [n \in BNames(sh) |-> IF n[1] = "e" THEN 0 ELSE IF n[1] = "out" THEN 1 ELSE -1]
BSub(a, b) == [n \in DOMAIN a |-> a[n] - b[n]]
BAdd(a, b) == [n \in DOMAIN a |-> a[n] + b[n]]
\* build::transaction / transaction_with_kernel: kernel excess e, offset = blind_sum.split(e)
\* partial_transaction: caller signs with the whole blind sum, offset zero
KernelExcess(sh) == IF sh.via = "partial" THEN BuilderSum(sh) ELSE BUnit(sh, <<"e", 0>>)
Offset(sh) == IF sh.via = "partial" THEN [n \in BNames(sh) |-> 0] ELSE BSub(BuilderSum(sh), BUnit(sh, <<"e", 0>>))
\* Transaction::validate: sum(outputs) - sum(inputs) + fee*H = kernel excess + offset*G
\* value part: units balance and the fee sits on the first input; blinding part:
\* reward::output(keychain, builder, key_id, fees): one coinbase output of value reward(fees) under
\* the regular switch commitment, kernel excess = output commitment - reward(fees)*H = blind*G.
\* block = TRUE: the pair is also put into a block whose transactions pay exactly these fees (one
\* kernel carries at most 2^40-1, so the 64-bit extreme is checked stand-alone only)
CbShapes == {sh \in [cbfee : CbFeeClasses, fam : Fams, depth : 0..MaxDepth, block : BOOLEAN] :
               sh.block => sh.cbfee # "cfmax64"}
IsCb(sh) == "cbfee" \in DOMAIN sh
CbArgs(sh, seed, path) == [seed |-> seed, path |-> path, amt |-> <<"reward", sh.cbfee>>, mode |-> "Regular",
                           fam |-> sh.fam, fmt |-> sh.fam]
\* the wallet finds its coinbase again iff the builder generation can express the path
CbRecoverable(sh) == sh.fam = "new" \/ sh.depth = 3

CoinbaseOK ==
  (shape # <<>> /\ IsCb(shape)) =>
    \A seed \in Seeds : \A p \in [1..shape.depth -> Comps] :
      LET o == MkOut(CbArgs(shape, seed, p)) IN
      /\ Verifies(o.commit, o.proof)
      /\ \A rw \in KeychainRewinders :
           Rewind(rw, o.commit, o.proof) =
             IF rw.seed = seed /\ rw.kind = shape.fam /\ CbRecoverable(shape) THEN Triple(o.args) ELSE NoneR

BuilderBalances ==
  (shape # <<>> /\ ~IsCb(shape)) =>
    /\ SumSeq(shape.ins) = SumSeq(shape.outs)
    /\ BAdd(KernelExcess(shape), Offset(shape)) = BuilderSum(shape)
    /\ \E n \in BNames(shape) : KernelExcess(shape)[n] # 0       \* the kernel key is never the zero key

-----------------------------------------------------------------------------
Init == world = <<>> /\ outs = {} /\ expr = <<>> /\ shape = <<>>

\* A wallet world: the seed that creates the first output, the depth of its path and the builder
\* generation in use (the remaining arguments and all later outputs are unconstrained).
Worlds == [seed : Seeds, depth : 0..MaxDepth, fam : Fams]
OpenWorld(w) ==
  /\ Part = "rewind" /\ world = <<>>
  /\ world' = w
  /\ UNCHANGED <<outs, expr, shape>>

Create(a) ==
  /\ Part = "rewind" /\ world # <<>> /\ Cardinality(outs) < MaxOuts
  /\ outs' = outs \cup {MkOut(a)}
  /\ UNCHANGED <<world, expr, shape>>

AppendTerm(t) ==
  /\ Part = "algebra" /\ Len(expr) < MaxTerms
  /\ expr' = Append(expr, t)
  /\ UNCHANGED <<world, outs, shape>>

ChooseShape(sh) ==
  /\ Part = "builder" /\ shape = <<>>
  /\ shape' = sh
  /\ UNCHANGED <<world, outs, expr>>

OpenAny == Part = "rewind" /\ world = <<>> /\ \E w \in Worlds : OpenWorld(w)
CreateFirst ==
  Part = "rewind" /\ world # <<>> /\ outs = {} /\
    \E p \in [1..world.depth -> Comps], amt \in Amts, mode \in Modes, fmt \in Fmts :
      Create([seed |-> world.seed, path |-> p, amt |-> amt, mode |-> mode, fam |-> world.fam, fmt |-> fmt])
CreateMore ==
  Part = "rewind" /\ world # <<>> /\ outs # {} /\ Cardinality(outs) < MaxOuts /\ \E a \in Args : Create(a)
AppendAny == Part = "algebra" /\ Len(expr) < MaxTerms /\ \E t \in Terms : AppendTerm(t)
ShapeAny == Part = "builder" /\ shape = <<>> /\ \E sh \in Shapes \cup CbShapes : ChooseShape(sh)

Next == OpenAny \/ CreateFirst \/ CreateMore \/ AppendAny \/ ShapeAny

Spec == Init /\ [][Next]_vars

TypeOK ==
  /\ world = <<>> \/ world \in Worlds
  /\ \A o \in outs : o.args \in Args
  /\ expr \in Seq(Terms)
  /\ \/ shape = <<>>
     \/ shape \in CbShapes
     \/ /\ DOMAIN shape = {"ins", "outs", "fee", "scale", "kern", "via"}
        /\ shape.ins \in UnitSeqs /\ shape.outs \in UnitSeqs /\ shape.fee \in FeeClasses
        /\ shape.scale \in ScaleClasses /\ shape.kern \in KernClasses /\ shape.via \in ViaClasses
=============================================================================
