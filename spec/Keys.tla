------------------------------- MODULE Keys -------------------------------
(***************************************************************************)
(* C20 - keys, commitments, range-proof rewind, blinding algebra, builder.  *)
(*                                                                         *)
(* HONEST FRAMING.  Cryptographic determinism (HMAC-SHA512, secp256k1,      *)
(* bulletproofs) is outside TLA+.  This module is a WORLD MODEL / CASE      *)
(* TABLE and an ALGEBRA OVER KEY NAMES:                                     *)
(*  - secret keys, commitments, nonces are *names* (tuples of the arguments *)
(*    they are derived from); distinct names stand for distinct values      *)
(*    (injectivity of the primitives is the trusted base);                  *)
(*  - the rewind message formats, the depth / switch decoding and the       *)
(*    view-key walk are transcribed from core/src/libtx/proof.rs in the     *)
(*    shape of the implementation (byte fields b0 b1 sw dp c[1..4]);        *)
(*  - definitional oracles (the rewind matrix of the property statement)    *)
(*    are stated separately and TLC checks the transcription against them   *)
(*    for every case inside the bounds;                                     *)
(*  - blinding factors are vectors in the free abelian group over key names;*)
(*    blind_sum / add / split are transcribed and the identities of the     *)
(*    property are invariants.                                              *)
(* Direction A turns every emitted case into >= 5 seeded instantiations     *)
(* against the real ExtKeychain / proof / build / reward code.              *)
(*                                                                         *)
(* Four sub-models share this module; constant Parts selects the ones that  *)
(* Next explores: "rewind" (Create / Craft), "algebra" (Append), "builder"   *)
(* (Shape, incl. the two-party exchange), "wallet" (pairs of keychain        *)
(* constructors: seed bytes of 16/32/64 bytes, mnemonic + passphrase,        *)
(* master-key masking).                                                      *)
(***************************************************************************)
EXTENDS Naturals, Integers, Sequences, FiniteSets, TLC

CONSTANTS
  Parts,       \* the sub-models explored: subset of {"rewind", "algebra", "builder", "wallet"}
  Seeds,       \* wallet seeds (strings)
  Comps,       \* path component classes (strings); "c0" is the value 0 (= identifier padding)
  HardComps,   \* the classes >= 2^31 (hardened child numbers)
  Amts,        \* amount classes; "a0" is the amount 0
  MaxDepth,    \* deepest path (4 = ExtKeychainPath)
  VKMaxDepth,  \* view keys are created for prefixes up to this depth
  MaxOuts,     \* outputs per world
  Fmts,        \* message formats that Craft may use: subset of
               \* {"new","legacy","wallet1","sw2","b0","dp5","dp255","dpm1"}
  KeyNames,    \* blinding algebra: names of non-zero keys (derived "d*" and raw "r*")
  MaxTerms,    \* blinding algebra: longest expression
  MaxIO,       \* builder: most inputs / outputs
  MaxUnit,     \* builder: largest unit count of one input / output
  FeeClasses, ScaleClasses, KernClasses, ViaClasses, CbFeeClasses

VARIABLES world, outs, expr, shape
vars == <<world, outs, expr, shape>>

Modes == {"Regular", "None"}
Fams  == {"new", "legacy"}          \* proof-builder generations = nonce families
ZeroComp == "c0"
Min(a, b) == IF a < b THEN a ELSE b

-----------------------------------------------------------------------------
(* ---------------- names for keys, commitments, nonces ------------------- *)

Paths == UNION {[1..d -> Comps] : d \in 0..MaxDepth}

\* Identifier: depth byte + four components.  The canonical identifier (ExtKeychainPath::new(d, ..)
\* with the unused components 0) is Ident(p); IdentP(p, pad) carries the value pad in the unused
\* components (an Identifier is 17 free bytes: nothing forces the padding to be zero).
JunkComp == "cj"                    \* a non-zero value that is not in Comps
IdentP(p, pad) == [depth |-> Len(p), c |-> [i \in 1..4 |-> IF i <= Len(p) THEN p[i] ELSE pad]]
Ident(p) == IdentP(p, ZeroComp)
\* derive_key walks path[0..depth) only
EffPath(id) == [i \in 1..Min(id.depth, 4) |-> id.c[i]]
XPrv(seed, ep) == <<"xprv", seed, ep>>
Blind(seed, id, amt, mode) ==
  IF mode = "Regular" THEN <<"switch", amt, XPrv(seed, EffPath(id))>> ELSE XPrv(seed, EffPath(id))
CommitN(seed, id, amt, mode) == <<"commit", amt, Blind(seed, id, amt, mode)>>
RootId == Ident(<<>>)

\* ProofBuilder: rewind_hash = H(public root key); LegacyProofBuilder: root_hash = derive_key(0, root, Regular)
NonceSecret(fam, seed) ==
  IF fam = "legacy" THEN <<"root_hash", Blind(seed, RootId, "a0", "Regular")>>
  ELSE <<"rewind_hash", <<"xpub", seed>>>>
Nonce(fam, seed, commit) == <<NonceSecret(fam, seed), commit>>

ModeByte(mode) == IF mode = "None" THEN 0 ELSE 1
\* 20-byte proof message as fields: b0 b1 sw dp + 16 bytes of path
Msg(fmt, id, mode) ==
  CASE fmt = "new"     -> [b0 |-> 0, b1 |-> 0, sw |-> ModeByte(mode), dp |-> id.depth, c |-> id.c]
    [] fmt = "legacy"  -> [b0 |-> 0, b1 |-> 0, sw |-> 0, dp |-> 0, c |-> id.c]
    [] fmt = "wallet1" -> [b0 |-> 0, b1 |-> 1, sw |-> ModeByte(mode), dp |-> id.depth, c |-> id.c]
    [] fmt = "sw2"     -> [b0 |-> 0, b1 |-> 0, sw |-> 2, dp |-> id.depth, c |-> id.c]
    \* reserved byte 0 set
    [] fmt = "b0"      -> [b0 |-> 1, b1 |-> 0, sw |-> ModeByte(mode), dp |-> id.depth, c |-> id.c]
    \* depth byte above 4 (check_output clamps it to 4), and depth byte one below the real depth
    [] fmt = "dp5"     -> [b0 |-> 0, b1 |-> 0, sw |-> ModeByte(mode), dp |-> 5, c |-> id.c]
    [] fmt = "dp255"   -> [b0 |-> 0, b1 |-> 0, sw |-> ModeByte(mode), dp |-> 255, c |-> id.c]
    [] fmt = "dpm1"    -> [b0 |-> 0, b1 |-> 0, sw |-> ModeByte(mode),
                           dp |-> IF id.depth = 0 THEN 0 ELSE id.depth - 1, c |-> id.c]

Args == [seed : Seeds, path : Paths, amt : Amts, mode : Modes, fam : Fams, fmt : Fmts]
Honest(a) == a.fam = a.fmt

\* extra_data of proof::create / verify / rewind: absent, or one of two different byte strings
Extras == {"none", "e1", "e2"}

\* The output (commitment + proof) that creation yields for arguments a, an identifier padded with
\* pad and extra data x.
MkOutPX(a, pad, x) ==
  LET id == IdentP(a.path, pad)
      cm == CommitN(a.seed, id, a.amt, a.mode) IN
  [args |-> a, commit |-> cm,
   proof |-> [cm |-> cm, nonce |-> Nonce(a.fam, a.seed, cm), val |-> a.amt, msg |-> Msg(a.fmt, id, a.mode),
              extra |-> x]]
MkOutP(a, pad) == MkOutPX(a, pad, "none")
MkOutX(a, x) == MkOutPX(a, ZeroComp, x)
MkOut(a) == MkOutPX(a, ZeroComp, "none")

\* bulletproof verification: the proof is bound to the commitment it was made for and to the extra
\* data it was made with
VerifiesX(commit, proof, y) == proof.cm = commit /\ proof.extra = y
Verifies(commit, proof) == VerifiesX(commit, proof, "none")

-----------------------------------------------------------------------------
(* ---------------- rewind, in the shape of proof.rs ---------------------- *)

NoneR == [t |-> "none"]
UnsupR == [t |-> "unsupported"]          \* ViewKey::commit(.., Regular) = Err(SwitchCommitment)
SomeR(amt, id, mode) == [t |-> "some", amt |-> amt, id |-> id, mode |-> mode]
ModeOf(b) == IF b = 0 THEN "None" ELSE "Regular"

\* ProofBuilder::check_output
CheckNew(seed, commit, amt, m) ==
  IF m.b0 # 0 \/ m.b1 # 0 THEN NoneR
  ELSE IF m.sw \notin {0, 1} THEN NoneR
  ELSE LET id == [depth |-> Min(m.dp, 4), c |-> m.c]
           mode == ModeOf(m.sw) IN
       IF CommitN(seed, id, amt, mode) = commit THEN SomeR(amt, id, mode) ELSE NoneR

\* LegacyProofBuilder::check_output: depth 3 and the regular switch commitment are assumed
CheckLegacy(seed, commit, amt, m) ==
  IF m.b0 # 0 \/ m.b1 # 0 \/ m.sw # 0 \/ m.dp # 0 THEN NoneR
  ELSE LET id == [depth |-> 3, c |-> m.c] IN
       IF CommitN(seed, id, amt, "Regular") = commit THEN SomeR(amt, id, "Regular") ELSE NoneR

\* impl ProofBuild for ViewKey: vk = [seed, prefix]; the key is walked from the view key's own
\* position along path[vk.depth .. depth) by *public* derivation.
CheckView(vk, commit, amt, m) ==
  IF m.b0 # 0 \/ m.b1 # 0 THEN NoneR
  ELSE IF m.sw \notin {0, 1} THEN NoneR
  ELSE LET id == [depth |-> Min(m.dp, 4), c |-> m.c]
           mode == ModeOf(m.sw)
           d == id.depth
           vd == Len(vk.prefix) IN
       IF vd > d THEN NoneR
       ELSE IF vd > 0 /\ d > 0 /\ vk.prefix[vd] # id.c[vd] THEN NoneR
       ELSE IF \E i \in (vd + 1)..d : id.c[i] \in HardComps THEN NoneR
       ELSE IF mode = "Regular" THEN UnsupR
       ELSE LET ep == vk.prefix \o [i \in 1..(d - vd) |-> id.c[vd + i]] IN
            IF <<"commit", amt, XPrv(vk.seed, ep)>> = commit THEN SomeR(amt, id, mode) ELSE NoneR

FamOf(kind) == IF kind = "legacy" THEN "legacy" ELSE "new"   \* the view key shares rewind_hash

\* proof::rewind(secp, builder, commit, extra_data = y, proof): secp.rewind_bullet_proof fails
\* (=> Ok(None)) unless the nonce and the extra data are the ones of creation
RewindX(rw, commit, y, proof) ==
  IF Nonce(FamOf(rw.kind), rw.seed, commit) # proof.nonce \/ proof.extra # y THEN NoneR
  ELSE CASE rw.kind = "new"    -> CheckNew(rw.seed, commit, proof.val, proof.msg)
         [] rw.kind = "legacy" -> CheckLegacy(rw.seed, commit, proof.val, proof.msg)
         [] rw.kind = "view"   -> CheckView(rw, commit, proof.val, proof.msg)
\* proof::rewind(secp, builder, commit, None, proof)
Rewind(rw, commit, proof) == RewindX(rw, commit, "none", proof)

KeychainRewinders == [kind : Fams, seed : Seeds, prefix : {<<>>}]
VKPrefixes == UNION {[1..d -> Comps] : d \in 0..VKMaxDepth}
ViewRewinders == [kind : {"view"}, seed : Seeds, prefix : VKPrefixes]
Rewinders == KeychainRewinders \cup ViewRewinders

-----------------------------------------------------------------------------
(* ---------------- definitional oracles (the property) ------------------- *)

Triple(a) == SomeR(a.amt, Ident(a.path), a.mode)
\* what each builder generation promises to recover
InDomain(a) == a.fam = "new" \/ (Len(a.path) = 3 /\ a.mode = "Regular")
IsPrefix(p, q) == Len(p) <= Len(q) /\ \A i \in 1..Len(p) : p[i] = q[i]
ViewMatch(vk, a) ==
  /\ a.fam = "new" /\ vk.seed = a.seed /\ IsPrefix(vk.prefix, a.path)
  /\ \A i \in (Len(vk.prefix) + 1)..Len(a.path) : a.path[i] \notin HardComps

\* rewinding with the same seed and the same builder generation recovers exactly
\* <<amount, path, mode>>; every other keychain recovers nothing
KeychainMatrixOK ==
  \A o \in outs : Honest(o.args) =>
    \A rw \in KeychainRewinders :
      Rewind(rw, o.commit, o.proof) =
        IF rw.seed = o.args.seed /\ rw.kind = o.args.fam /\ InDomain(o.args) THEN Triple(o.args) ELSE NoneR

\* the matching view key (same seed, prefix of the path, public derivation possible) recovers the
\* triple of a no-switch output; for the regular switch commitment the code answers
\* "unsupported" (view_key.rs); nobody else learns anything
ViewMatrixOK ==
  \A o \in outs : Honest(o.args) =>
    \A vk \in ViewRewinders :
      LET r == Rewind(vk, o.commit, o.proof) IN
      IF ViewMatch(vk, o.args)
        THEN r = (IF o.args.mode = "None" THEN Triple(o.args) ELSE UnsupR)
        ELSE r \in {NoneR, UnsupR} /\ (r = UnsupR => vk.seed = o.args.seed /\ o.args.mode = "Regular")

\* whatever is rewound (also a proof whose message has a foreign format), the answer is either
\* nothing or exactly the creation triple
NeverGarbage ==
  \A o \in outs : \A rw \in Rewinders :
    Rewind(rw, o.commit, o.proof) \in {NoneR, UnsupR, Triple(o.args)}

OtherSeedNothing ==
  \A o \in outs : \A rw \in Rewinders :
    rw.seed # o.args.seed => Rewind(rw, o.commit, o.proof) = NoneR

\* each generation rewinds only its own message layout: whenever a keychain rewinder answers, the
\* message is the one its own generation writes for these arguments, up to the clamp of the depth
\* byte (for depth 0 without switch commitment both layouts are 20 zero bytes)
Canon(m) == [m EXCEPT !.dp = Min(m.dp, 4)]
OwnFormatOnly ==
  \A o \in outs : \A rw \in KeychainRewinders :
    Rewind(rw, o.commit, o.proof).t = "some" =>
      LET id == Ident(o.args.path) IN
      Canon(Msg(o.args.fmt, id, o.args.mode)) = Canon(Msg(rw.kind, id, o.args.mode))

\* extra data: a proof verifies / rewinds only with the extra data it was created with; with the
\* right extra data the answer is the one of the plain matrix
ExtraDataBinds ==
  \A o \in outs : Honest(o.args) =>
    \A x, y \in Extras :
      LET ox == MkOutX(o.args, x) IN
      /\ ox.commit = o.commit
      /\ VerifiesX(ox.commit, ox.proof, y) <=> (x = y)
      /\ \A rw \in KeychainRewinders :
           RewindX(rw, ox.commit, y, ox.proof) = IF x = y THEN Rewind(rw, o.commit, o.proof) ELSE NoneR

\* identifier padding: the bytes behind the depth do not influence key or commitment; the proof
\* message carries them and rewinding returns the creation identifier byte for byte (every other
\* answer is unchanged)
PadMap(r, a, pad) == IF r.t = "some" /\ r.id = Ident(a.path) THEN [r EXCEPT !.id = IdentP(a.path, pad)] ELSE r
PadEquivalent(o, pad) ==
  LET oj == MkOutP(o.args, pad) IN
  /\ oj.commit = o.commit
  /\ \A rw \in Rewinders : Rewind(rw, oj.commit, oj.proof) = PadMap(Rewind(rw, o.commit, o.proof), o.args, pad)
\* (for messages that no builder writes the padding can decide between "nothing" and "unsupported" of a
\* view key - a depth byte above the real depth makes the padding part of the decoded path - so
\* equivalence is claimed for honest outputs; for all outputs the answer is nothing or the creation triple)
PaddingIgnored ==
  \A o \in outs :
    /\ Honest(o.args) => PadEquivalent(o, JunkComp)
    /\ MkOutP(o.args, JunkComp).commit = o.commit
    /\ \A rw \in Rewinders :
         Rewind(rw, o.commit, MkOutP(o.args, JunkComp).proof)
           \in {NoneR, UnsupR, SomeR(o.args.amt, IdentP(o.args.path, JunkComp), o.args.mode)}

\* Keychain::sign(msg, amount, id, switch) signs with derive_key(amount, id, switch): the signature
\* verifies under the public key commit - amount*H, i.e. iff the commitment's blinding key is the
\* signing key; it is bound to the message
SigN(seed, id, amt, mode, msg) == [msg |-> msg, key |-> Blind(seed, id, amt, mode)]
SigVerifies(sig, msg, commit) == sig.msg = msg /\ commit = <<"commit", commit[2], sig.key>>
SigOf(a, msg) == SigN(a.seed, Ident(a.path), a.amt, a.mode, msg)
\* the key of a no-switch output does not depend on the amount
SameKey(a, b) == a.seed = b.seed /\ a.path = b.path /\ a.mode = b.mode /\ (a.mode = "None" \/ a.amt = b.amt)

\* The five rewind-matrix invariants above evaluated over one table of answers per output (the same
\* conjuncts, literally; TLC evaluates Rewind once per rewinder instead of once per invariant).
RewindMatrixAll ==
  \A o \in outs :
    LET T == [rw \in Rewinders |-> Rewind(rw, o.commit, o.proof)] IN
    /\ Honest(o.args) =>
         \A rw \in KeychainRewinders :
           T[rw] = IF rw.seed = o.args.seed /\ rw.kind = o.args.fam /\ InDomain(o.args) THEN Triple(o.args) ELSE NoneR
    /\ Honest(o.args) =>
         \A vk \in ViewRewinders :
           LET r == T[vk] IN
           IF ViewMatch(vk, o.args)
             THEN r = (IF o.args.mode = "None" THEN Triple(o.args) ELSE UnsupR)
             ELSE r \in {NoneR, UnsupR} /\ (r = UnsupR => vk.seed = o.args.seed /\ o.args.mode = "Regular")
    /\ \A rw \in Rewinders : T[rw] \in {NoneR, UnsupR, Triple(o.args)}
    /\ \A rw \in Rewinders : rw.seed # o.args.seed => T[rw] = NoneR
    /\ \A rw \in KeychainRewinders :
         T[rw].t = "some" =>
           LET id == Ident(o.args.path) IN
           Canon(Msg(o.args.fmt, id, o.args.mode)) = Canon(Msg(rw.kind, id, o.args.mode))

ProofsVerify == \A o \in outs : Verifies(o.commit, o.proof)

\* determinism: equal arguments, equal outputs; different effective arguments, different commitments
Determinism == \A o1, o2 \in outs : o1.args = o2.args => o1 = o2
NoCollision ==
  \A o1, o2 \in outs :
    o1.commit = o2.commit =>
      /\ o1.args.seed = o2.args.seed /\ o1.args.path = o2.args.path
      /\ o1.args.amt = o2.args.amt /\ o1.args.mode = o2.args.mode

\* a proof moved to another commitment neither verifies nor rewinds
SwappedProofNothing ==
  \A o1, o2 \in outs :
    o1.commit # o2.commit =>
      /\ ~Verifies(o2.commit, o1.proof)
      /\ \A rw \in Rewinders : Rewind(rw, o2.commit, o1.proof) = NoneR

\* Siblings: argument records differing from a in exactly one coordinate (the case table attaches
\* them to every emitted case: their commitments differ, the proof does not transfer).
NextIn(S, x) == IF \E y \in S : y # x THEN CHOOSE y \in S : y # x ELSE x
Siblings(a) ==
  {[a EXCEPT !.seed = NextIn(Seeds, a.seed)], [a EXCEPT !.amt = NextIn(Amts, a.amt)],
   [a EXCEPT !.mode = NextIn(Modes, a.mode)]}
  \cup (IF Len(a.path) > 0
          THEN {[a EXCEPT !.path = SubSeq(a.path, 1, Len(a.path) - 1)],
                [a EXCEPT !.path = [a.path EXCEPT ![Len(a.path)] = NextIn(Comps, a.path[Len(a.path)])]]}
          ELSE {})
  \cup (IF Len(a.path) < MaxDepth THEN {[a EXCEPT !.path = Append(a.path, ZeroComp)]} ELSE {})
SiblingsOK ==
  \A o \in outs : \A b \in Siblings(o.args) :
    b # o.args =>
      LET cb == MkOut(b).commit IN
      /\ cb # o.commit
      /\ ~Verifies(cb, o.proof)
      /\ \A rw \in KeychainRewinders : Rewind(rw, cb, o.proof) = NoneR
SignOK ==
  \A o \in outs :
    /\ SigVerifies(SigOf(o.args, "m1"), "m1", o.commit)
    /\ ~SigVerifies(SigOf(o.args, "m1"), "m2", o.commit)
    /\ \A b \in Siblings(o.args) : SigVerifies(SigOf(b, "m1"), "m1", o.commit) <=> SameKey(o.args, b)

-----------------------------------------------------------------------------
(* ---------------- blinding-factor algebra over key names ---------------- *)

Zero == [n \in KeyNames |-> 0]
Unit(x) == [n \in KeyNames |-> IF n = x THEN 1 ELSE 0]      \* "z" (the zero key) maps to Zero
VAdd(a, b) == [n \in KeyNames |-> a[n] + b[n]]
VNeg(a) == [n \in KeyNames |-> 0 - a[n]]
IsZero(a) == a = Zero

Terms == [s : {1, -1}, n : KeyNames \cup {"z"}]
Count(e, s, n) == Cardinality({i \in DOMAIN e : e[i].s = s /\ e[i].n = n})

\* Keychain::blind_sum(BlindSum): partition into positive / negative lists, secp.blind_sum(pos, neg)
BlindSumImpl(e) == [n \in KeyNames |-> Count(e, 1, n) - Count(e, -1, n)]
\* BlindingFactor::add: zero operands are filtered out; nothing left = the zero factor, else
\* secp.blind_sum of what is left
AddImpl(a, b) ==
  LET ks == SelectSeq(<<a, b>>, LAMBDA v : ~IsZero(v)) IN
  IF ks = <<>> THEN Zero ELSE IF Len(ks) = 1 THEN ks[1] ELSE VAdd(ks[1], ks[2])
\* secp.blind_sum answers Err(InvalidSecretKey) for a zero total (left free, see the driver's
\* assumptions); add is defined for two zero operands by its own branch
AddDefined(a, b) == (IsZero(a) /\ IsZero(b)) \/ ~IsZero(VAdd(a, b))
SplitDefined(w, p) == ~IsZero(VAdd(w, VNeg(p)))
\* BlindingFactor::split(self, blind_1) = blind_sum([self], [blind_1])
SplitImpl(w, p) == VAdd(w, VNeg(p))
\* definitional value: left-to-right signed sum
RECURSIVE Val(_)
Val(e) == IF e = <<>> THEN Zero
          ELSE LET t == e[Len(e)] u == IF t.n = "z" THEN Zero ELSE Unit(t.n) IN
               VAdd(Val(SubSeq(e, 1, Len(e) - 1)), IF t.s = 1 THEN u ELSE VNeg(u))
\* commit(0, b): homomorphic image, commit_sum(pos, neg) of the per-term commitments
CommitSumN(e) == VAdd([n \in KeyNames |-> Count(e, 1, n)], VNeg([n \in KeyNames |-> Count(e, -1, n)]))

Swap(e, i) == [e EXCEPT ![i] = e[i + 1], ![i + 1] = e[i]]
Reverse(e) == [i \in 1..Len(e) |-> e[Len(e) + 1 - i]]

AlgSumIsValue == BlindSumImpl(expr) = Val(expr)
AlgPermutation ==
  /\ \A i \in 1..(Len(expr) - 1) : BlindSumImpl(Swap(expr, i)) = BlindSumImpl(expr)
  /\ BlindSumImpl(Reverse(expr)) = BlindSumImpl(expr)
AlgAddSubRestores ==
  \A x \in KeyNames :
    /\ BlindSumImpl(expr \o <<[s |-> 1, n |-> x], [s |-> -1, n |-> x]>>) = BlindSumImpl(expr)
    /\ SplitImpl(AddImpl(BlindSumImpl(expr), Unit(x)), Unit(x)) = BlindSumImpl(expr)
    /\ AddImpl(SplitImpl(BlindSumImpl(expr), Unit(x)), Unit(x)) = BlindSumImpl(expr)
AlgSplitSums ==
  \A k \in 0..Len(expr) :
    LET p == BlindSumImpl(SubSeq(expr, 1, k))
        w == BlindSumImpl(expr) IN
    /\ AddImpl(p, SplitImpl(w, p)) = w
    /\ SplitImpl(w, p) = BlindSumImpl(SubSeq(expr, k + 1, Len(expr)))
AlgCommitHom == CommitSumN(expr) = BlindSumImpl(expr)
\* zero operands (the tx pool adds a transaction offset to a header offset that is usually zero):
\* 0 + 0 = 0 and is defined; w + 0 = 0 + w = w; w split 0 = w; (0 split x) + w = w split x
AlgZeroOperands ==
  LET w == BlindSumImpl(expr) IN
  /\ AddDefined(Zero, Zero) /\ AddImpl(Zero, Zero) = Zero
  /\ AddDefined(w, Zero) /\ AddDefined(Zero, w)
  /\ AddImpl(w, Zero) = w /\ AddImpl(Zero, w) = w
  /\ SplitImpl(w, Zero) = w
  /\ \A x \in KeyNames :
       /\ SplitDefined(Zero, Unit(x))
       /\ AddImpl(SplitImpl(Zero, Unit(x)), w) = SplitImpl(w, Unit(x))
       /\ AddDefined(SplitImpl(Zero, Unit(x)), w) <=> SplitDefined(w, Unit(x))
\* Keychain::sign_with_blinding(msg, w): verifies under the homomorphic image of w (the commit_sum of
\* the per-term commitments)
AlgSignHom == SigVerifies([msg |-> "m1", key |-> BlindSumImpl(expr)], "m1", <<"commit", "a0", CommitSumN(expr)>>)

-----------------------------------------------------------------------------
(* ---------------- builder clause ----------------------------------------- *)
(* A shape is a pair of multisets of unit counts (inputs, outputs) whose sums *)
(* are equal, plus fee / scale / kernel / entry-point classes.  Real values:  *)
(* value = units * scale, the first input also pays the fee.  Key names:      *)
(* <<"in", i>>, <<"out", j>>, <<"e", 0>> (the random kernel excess).           *)

Sorted(s) == \A i \in 1..(Len(s) - 1) : s[i] <= s[i + 1]
RECURSIVE SumSeq(_)
SumSeq(s) == IF s = <<>> THEN 0 ELSE s[Len(s)] + SumSeq(SubSeq(s, 1, Len(s) - 1))
UnitSeqs == {s \in UNION {[1..n -> 0..MaxUnit] : n \in 1..MaxIO} : Sorted(s)}
Shapes == {sh \in [ins : UnitSeqs, outs : UnitSeqs, fee : FeeClasses, scale : ScaleClasses,
                   kern : KernClasses, via : ViaClasses] : SumSeq(sh.ins) = SumSeq(sh.outs)}

\* <<"o", 0>> / <<"k", 0>>: exchange only - the offset share party A picks, the extra key party B
\* adds through build::with_excess
BNames(sh) == {<<"in", i>> : i \in DOMAIN sh.ins} \cup {<<"out", j>> : j \in DOMAIN sh.outs}
                \cup {<<"e", 0>>, <<"o", 0>>, <<"k", 0>>}
BUnit(sh, x) == [n \in BNames(sh) |-> IF n = x THEN 1 ELSE 0]
\* blind_sum accumulated by the combinators: outputs positive, inputs negative
BuilderSum(sh) == [n \in BNames(sh) |-> IF n[1] = "out" THEN 1 ELSE IF n[1] = "in" THEN -1 ELSE 0]
BSub(a, b) == [n \in DOMAIN a |-> a[n] - b[n]]
BAdd(a, b) == [n \in DOMAIN a |-> a[n] + b[n]]
BZero(sh) == [n \in BNames(sh) |-> 0]

\* via = "exchange": the interactive two-party build.  Party A (sender) owns the first input (it
\* pays the fee) and everything party B does not own; party B (receiver) owns the last output
\* and, if there are several inputs, the last input.
\*   A: partial_transaction(empty, A's elements) -> blind_A; picks offset o; signs with blind_A - o
\*   B: partial_transaction over A's transaction (build::initial_tx or passed directly) with
\*      with_excess(k) and B's elements -> blind_B + k; signs with it; offset of the tx = o - k
\*   both: secnonce, calculate_partial_sig over the nonce / key sums, verify_partial_sig,
\*         add_signatures, verify_completed_sig; kernel excess = sum of the two public keys
PartyB(sh) ==
  IF sh.via # "exchange" THEN {}
  ELSE {<<"out", Len(sh.outs)>>} \cup (IF Len(sh.ins) >= 2 THEN {<<"in", Len(sh.ins)>>} ELSE {})
PartyA(sh) == {n \in BNames(sh) : n[1] \in {"in", "out"}} \ PartyB(sh)
PartySum(sh, S) == [n \in BNames(sh) |-> IF n \in S THEN BuilderSum(sh)[n] ELSE 0]
SignKey(sh, P) ==
  IF P = "A" THEN BSub(PartySum(sh, PartyA(sh)), BUnit(sh, <<"o", 0>>))
  ELSE BAdd(PartySum(sh, PartyB(sh)), BUnit(sh, <<"k", 0>>))
\* Schnorr partial signatures are linear in (nonce, key): s_P = nonce_P + e * key_P with the common
\* challenge e = H(nonce sum, key sum, msg)
PartialSig(sh, P) == [r |-> {P}, x |-> SignKey(sh, P)]
AddSigs(s1, s2) == [r |-> s1.r \cup s2.r, x |-> BAdd(s1.x, s2.x)]
SubSig(s, s1) == [r |-> s.r \ s1.r, x |-> BSub(s.x, s1.x)]
AggSigOK(s, parties, key) == s.r = parties /\ s.x = key

\* build::transaction / transaction_with_kernel: kernel excess e, offset = blind_sum.split(e)
\* partial_transaction: caller signs with the whole blind sum, offset zero
KernelExcess(sh) ==
  CASE sh.via = "partial"  -> BuilderSum(sh)
    [] sh.via = "exchange" -> BAdd(SignKey(sh, "A"), SignKey(sh, "B"))
    [] OTHER               -> BUnit(sh, <<"e", 0>>)
Offset(sh) ==
  CASE sh.via = "partial"  -> BZero(sh)
    [] sh.via = "exchange" -> BSub(BUnit(sh, <<"o", 0>>), BUnit(sh, <<"k", 0>>))
    [] OTHER               -> BSub(BuilderSum(sh), BUnit(sh, <<"e", 0>>))
\* Transaction::validate: sum(outputs) - sum(inputs) + fee*H = kernel excess + offset*G
\* value part: units balance and the fee sits on the first input; blinding part:
\* reward::output(keychain, builder, key_id, fees): one coinbase output of value reward(fees) under
\* the regular switch commitment, kernel excess = output commitment - reward(fees)*H = blind*G.
\* block = TRUE: the pair is also put into a block whose transactions pay exactly these fees (one
\* kernel carries at most 2^40-1, so the 64-bit extreme is checked stand-alone only)
CbShapes == {sh \in [cbfee : CbFeeClasses, fam : Fams, depth : 0..MaxDepth, block : BOOLEAN] :
               sh.block => sh.cbfee # "cfmax64"}
IsCb(sh) == "cbfee" \in DOMAIN sh
CbArgs(sh, seed, path) == [seed |-> seed, path |-> path, amt |-> <<"reward", sh.cbfee>>, mode |-> "Regular",
                           fam |-> sh.fam, fmt |-> sh.fam]
\* the wallet finds its coinbase again iff the builder generation can express the path
CbRecoverable(sh) == sh.fam = "new" \/ sh.depth = 3

CoinbaseOK ==
  (shape # <<>> /\ IsCb(shape)) =>
    \A seed \in Seeds : \A p \in [1..shape.depth -> Comps] :
      LET o == MkOut(CbArgs(shape, seed, p)) IN
      /\ Verifies(o.commit, o.proof)
      /\ \A rw \in KeychainRewinders :
           Rewind(rw, o.commit, o.proof) =
             IF rw.seed = seed /\ rw.kind = shape.fam /\ CbRecoverable(shape) THEN Triple(o.args) ELSE NoneR

BuilderBalances ==
  (shape # <<>> /\ ~IsCb(shape)) =>
    /\ SumSeq(shape.ins) = SumSeq(shape.outs)
    /\ BAdd(KernelExcess(shape), Offset(shape)) = BuilderSum(shape)
    /\ \E n \in BNames(shape) : KernelExcess(shape)[n] # 0       \* the kernel key is never the zero key

ExchangeOK ==
  (shape # <<>> /\ ~IsCb(shape) /\ shape.via = "exchange") =>
    LET sA == PartialSig(shape, "A")
        sB == PartialSig(shape, "B")
        all == AddSigs(sA, sB) IN
    /\ PartyA(shape) # {} /\ PartyB(shape) # {} /\ PartyA(shape) \cap PartyB(shape) = {}
    /\ <<"in", 1>> \in PartyA(shape)
    /\ BAdd(PartySum(shape, PartyA(shape)), PartySum(shape, PartyB(shape))) = BuilderSum(shape)
    /\ \A P \in {"A", "B"} : \E n \in BNames(shape) : SignKey(shape, P)[n] # 0
    \* the aggregate is a signature of both nonces under the kernel excess; a partial signature is
    \* one under its own key only; subtracting one partial signature leaves the other
    /\ AggSigOK(all, {"A", "B"}, KernelExcess(shape))
    /\ AggSigOK(sA, {"A"}, SignKey(shape, "A")) /\ ~AggSigOK(sA, {"A"}, SignKey(shape, "B"))
    /\ ~AggSigOK(sA, {"A", "B"}, KernelExcess(shape))
    /\ SubSig(all, sA) = sB /\ SubSig(all, sB) = sA

-----------------------------------------------------------------------------
(* ---------------- wallet constructors ------------------------------------ *)
(* "any seed / any other seed": the ways a keychain is made.  Seed bytes are   *)
(* sequences of 16-byte blocks (16, 32 or 64 bytes), so that seeds sharing a   *)
(* prefix exist; a mnemonic wallet is made from a word list and a passphrase   *)
(* (ExtKeychain::from_mnemonic), or from the 64 bytes mnemonic::to_seed yields *)
(* (from_seed); mask_master_key XORs a mask into the master secret.            *)

WBlocks == {"p", "q"}
WSeedBytes == UNION {[1..n -> WBlocks] : n \in {1, 2, 4}}
WWords == {"w1", "w2"}
WPass == {"", "x", "y"}                  \* "" = no passphrase
WMasks == {"m1", "m2"}
WMaskBase == <<"p", "q">>
Ctors == [k : {"seed"}, b : WSeedBytes]
           \cup [k : {"mnemonic", "mnemonic_seed"}, w : WWords, p : WPass]
           \cup [k : {"masked"}, b : {WMaskBase}, m : UNION {[1..n -> WMasks] : n \in 1..2}]

\* transcription
ToSeed(w, p) == <<"pbkdf2", w, <<"mnemonic", p>>>>          \* mnemonic::to_seed: salt = "mnemonic" ++ passphrase
NewMaster(bytes) == <<"hmac-sha512", bytes>>                \* ExtendedPrivKey::new_master over the WHOLE seed
SymDiff(S, x) == IF x \in S THEN S \ {x} ELSE S \cup {x}
RECURSIVE XorSet(_)
XorSet(ms) == IF ms = <<>> THEN {} ELSE SymDiff(XorSet(Tail(ms)), Head(ms))
Master(c) ==
  CASE c.k = "seed"          -> NewMaster(<<"raw", c.b>>)                 \* ExtKeychain::from_seed(bytes)
    [] c.k = "mnemonic"      -> NewMaster(ToSeed(c.w, c.p))              \* ExtKeychain::from_mnemonic(w, p)
    [] c.k = "mnemonic_seed" -> NewMaster(ToSeed(c.w, c.p))              \* from_seed(&to_seed(w, p))
    [] c.k = "masked"        -> LET S == XorSet(c.m) base == NewMaster(<<"raw", c.b>>) IN  \* mask_master_key, once per mask
                                IF S = {} THEN base ELSE <<"xor", base, S>>

\* definitional: which constructors denote the same wallet
IsMn(c) == c.k \in {"mnemonic", "mnemonic_seed"}
Occurs(ms, x) == Cardinality({i \in DOMAIN ms : ms[i] = x})
OddMasks(c) == IF c.k = "masked" THEN {x \in WMasks : Occurs(c.m, x) % 2 = 1} ELSE {}
IsRaw(c) == c.k \in {"seed", "masked"}
SameWallet(c1, c2) ==
  \/ (IsMn(c1) /\ IsMn(c2) /\ c1.w = c2.w /\ c1.p = c2.p)
  \/ (IsRaw(c1) /\ IsRaw(c2) /\ c1.b = c2.b /\ OddMasks(c1) = OddMasks(c2))

WalletArgs(c, path, amt, mode, fam) == [seed |-> Master(c), path |-> path, amt |-> amt, mode |-> mode, fam |-> fam, fmt |-> fam]
\* two wallets: the same wallet iff the same constructor arguments; the same wallet derives the
\* same keys / commitments and rewinds the other's outputs exactly, a different one recovers nothing
WalletsOK ==
  ("wallet" \in Parts /\ world # <<>> /\ "c1" \in DOMAIN world) =>
    LET c1 == world.c1
        c2 == world.c2
        same == SameWallet(c1, c2) IN
    /\ (Master(c1) = Master(c2)) <=> same
    /\ \A path \in {<<>>, <<ZeroComp>>} : \A amt \in Amts : \A mode \in Modes : \A fam \in Fams :
         LET a1 == WalletArgs(c1, path, amt, mode, fam)
             o1 == MkOut(a1)
             o2 == MkOut(WalletArgs(c2, path, amt, mode, fam))
             r == Rewind([kind |-> fam, seed |-> Master(c2), prefix |-> <<>>], o1.commit, o1.proof) IN
         /\ (o1.commit = o2.commit) <=> same
         /\ Verifies(o2.commit, o1.proof) <=> same
         /\ r = IF same /\ InDomain(a1) THEN Triple(a1) ELSE NoneR

-----------------------------------------------------------------------------
Init == world = <<>> /\ outs = {} /\ expr = <<>> /\ shape = <<>>

\* A wallet world: the seed that creates the first output, the depth of its path and the builder
\* generation in use (the remaining arguments and all later outputs are unconstrained).
Worlds == [seed : Seeds, depth : 0..MaxDepth, fam : Fams]
OpenWorld(w) ==
  /\ "rewind" \in Parts /\ world = <<>>
  /\ world' = w
  /\ UNCHANGED <<outs, expr, shape>>

Create(a) ==
  /\ "rewind" \in Parts /\ world # <<>> /\ Cardinality(outs) < MaxOuts
  /\ outs' = outs \cup {MkOut(a)}
  /\ UNCHANGED <<world, expr, shape>>

AppendTerm(t) ==
  /\ "algebra" \in Parts /\ Len(expr) < MaxTerms
  /\ expr' = Append(expr, t)
  /\ UNCHANGED <<world, outs, shape>>

ChooseShape(sh) ==
  /\ "builder" \in Parts /\ shape = <<>> /\ world = <<>>
  /\ shape' = sh
  /\ UNCHANGED <<world, outs, expr>>

OpenPair(c1, c2) ==
  /\ "wallet" \in Parts /\ world = <<>> /\ shape = <<>>
  /\ world' = [c1 |-> c1, c2 |-> c2]
  /\ UNCHANGED <<outs, expr, shape>>

OpenAny == "rewind" \in Parts /\ world = <<>> /\ \E w \in Worlds : OpenWorld(w)
CreateFirst ==
  "rewind" \in Parts /\ world # <<>> /\ outs = {} /\
    \E p \in [1..world.depth -> Comps], amt \in Amts, mode \in Modes, fmt \in Fmts :
      Create([seed |-> world.seed, path |-> p, amt |-> amt, mode |-> mode, fam |-> world.fam, fmt |-> fmt])
CreateMore ==
  "rewind" \in Parts /\ world # <<>> /\ outs # {} /\ Cardinality(outs) < MaxOuts /\ \E a \in Args : Create(a)
AppendAny == "algebra" \in Parts /\ Len(expr) < MaxTerms /\ \E t \in Terms : AppendTerm(t)
ShapeAny == "builder" \in Parts /\ shape = <<>> /\ world = <<>> /\ \E sh \in Shapes \cup CbShapes : ChooseShape(sh)
PairAny == "wallet" \in Parts /\ world = <<>> /\ shape = <<>> /\ \E c1, c2 \in Ctors : OpenPair(c1, c2)

Next == OpenAny \/ CreateFirst \/ CreateMore \/ AppendAny \/ ShapeAny \/ PairAny

Spec == Init /\ [][Next]_vars

TypeOK ==
  /\ world = <<>> \/ ("rewind" \in Parts /\ world \in Worlds) \/ ("wallet" \in Parts /\ world \in [c1 : Ctors, c2 : Ctors])
  /\ \A o \in outs : o.args \in Args
  /\ expr \in Seq(Terms)
  /\ \/ shape = <<>>
     \/ shape \in CbShapes
     \/ /\ DOMAIN shape = {"ins", "outs", "fee", "scale", "kern", "via"}
        /\ shape.ins \in UnitSeqs /\ shape.outs \in UnitSeqs /\ shape.fee \in FeeClasses
        /\ shape.scale \in ScaleClasses /\ shape.kern \in KernClasses /\ shape.via \in ViaClasses
=============================================================================
