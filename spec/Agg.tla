-------------------------------- MODULE Agg --------------------------------
(***************************************************************************)
(* C12: aggregation, cut-through, de-aggregation and compact-block         *)
(* hydration are faithful.                                                 *)
(*                                                                         *)
(* Transactions are the bodies of TxBalance.tla: inputs [v, r], outputs    *)
(* [v, r, cb, pf], kernels [kind, fee, lock, rel, x, sg, sid] and an       *)
(* integer offset.  The operators below are written in the shape of        *)
(*   transaction::aggregate / cut_through / deaggregate                    *)
(*   Block::from_reward, From<Block> for CompactBlock, Block::hydrate_from *)
(* (core/src/core/transaction.rs, block.rs, compact_block.rs): element     *)
(* lists are concatenated, cut-through removes matched input/output pairs  *)
(* one for one and refuses leftovers that are duplicated, offsets are      *)
(* summed.  Lists are compared as bags (the code sorts them by hash).      *)
(*                                                                         *)
(* Cut-through has BAG semantics: a commitment may occur several times      *)
(* among the inputs and outputs of a family before the cut (created, spent *)
(* and created again; spent, created and spent again; ...).  With o(x)     *)
(* outputs and i(x) inputs carrying commitment x, min(o, i) PAIRS cancel   *)
(* and |o - i| occurrences remain; the aggregate exists iff no commitment  *)
(* remains more than once (Aggregable).  Section "shapes" names the shapes *)
(* and states the verdict of each; PlanVerdict states when a bracketing is *)
(* refused (exactly when one of its groups is itself not aggregable) and   *)
(* that every bracketing that is not refused yields the same transaction.  *)
(*                                                                         *)
(* Offsets are summed as integers: a sum of offsets that cancel (o and -o, *)
(* a triple, a group inside a larger family, the family against the        *)
(* previous header's total) is the ZERO offset, a legitimate value - the   *)
(* aggregate, the block and the remainder of a de-aggregation exist and    *)
(* carry it (CancelForms names the forms, CancellationsCovered demands     *)
(* that the libraries show each of them).                                  *)
(*                                                                         *)
(* Inputs reach the code in two representations (Inputs::CommitOnly and    *)
(* Inputs::FeaturesAndCommit, with the output features the spender         *)
(* claims): a transaction may carry a field iv naming the one it is        *)
(* realised in.  Every operator below reads commitments only, so the       *)
(* representation of the operands never shows in a result (TxEq).          *)
(*                                                                         *)
(* Hydration has two routes: the transactions handed over directly         *)
(* (Hydrate) and the node's own - Pool::retrieve_transactions looks the    *)
(* kernels the compact block lists up in a pool that holds the family in   *)
(* some grouping next to unrelated entries (Retrieve), then hydrate_from.  *)
(*                                                                         *)
(* The module is an oracle and a case generator: the walk is               *)
(*   root -> library -> family (<= 4 transactions of the library)          *)
(*        -> plan (a permutation of the family with a bracketing)          *)
(* and TLC checks in every family / plan state the clauses of C12.         *)
(***************************************************************************)
EXTENDS Integers, Sequences, FiniteSets, SequencesExt, TLC

CONSTANTS
  Libraries,     \* sequence of libraries; a library is a sequence of valid transactions
  Rewards,       \* per library: [out |-> coinbase output without its value, kern |-> coinbase kernel]
  MaxFamily,     \* transactions per family (<= 4)
  PrevOffsets    \* total kernel offsets of the previous header (block clauses), a set containing 0

VARIABLES phase, lib, fam, plan

vars == <<phase, lib, fam, plan>>

TB == INSTANCE TxBalance WITH
        MaxIn <- 8, MaxOut <- 8, MaxKern <- 8, Vals <- {0}, NBlind <- 3, RPatterns <- {}, Fees <- {1},
        Offsets <- {0}, Splits <- {1}, PrevOffsets <- {0}, MaxCorrupt <- 0,
        phase <- "none", grp <- 0, vals <- 0, body <- 0, ctx <- 0, applied <- <<>>

Err == [err |-> TRUE]
IsErr(t) == "err" \in DOMAIN t
Commit(e) == <<e.v, e.r>>
BlockHeight == 9    \* first height whose header version (AutomatedTesting schedule) admits NRD kernels
TxCtx == [as |-> "tx", prev |-> 0, total |-> 0, height |-> TB!Height, ver |-> TB!NrdVersion, nrd |-> TRUE]

LT(a, b) == a < b
\* ---- bags as sequences
Count(s, e) == Cardinality({i \in 1..Len(s) : s[i] = e})
BagEq(s, t) == Len(s) = Len(t) /\ \A e \in ToSet(s) \cup ToSet(t) : Count(s, e) = Count(t, e)
HasDup(s) == \E i, j \in 1..Len(s) : i < j /\ s[i] = s[j]
Commits(s) == [i \in 1..Len(s) |-> Commit(s[i])]
RECURSIVE Concat(_)
Concat(ss) == IF ss = <<>> THEN <<>> ELSE Head(ss) \o Concat(Tail(ss))
SumOff(txs) == FoldLeft(LAMBDA acc, t : acc + t.off, 0, txs)

\* ---- transaction::cut_through: eliminate input/output pairs where the input spends the output,
\* one pair per match; what is left must not contain a duplicated input or a duplicated output.
RECURSIVE CutPairs(_, _)
CutPairs(ins, outs) ==
  LET M == {p \in (1..Len(ins)) \X (1..Len(outs)) : Commit(ins[p[1]]) = Commit(outs[p[2]])}
  IN  IF M = {} THEN [ins |-> ins, outs |-> outs]
      ELSE LET p == CHOOSE q \in M : \A q2 \in M : q[1] < q2[1] \/ (q[1] = q2[1] /\ q[2] <= q2[2])
           IN  CutPairs(RemoveAt(ins, p[1]), RemoveAt(outs, p[2]))

\* mode "after" is the code's: duplicates are judged on what is left after the cut.  The other modes
\* are careless variants kept to show that the plan families tell them apart (CarelessKilled):
\*   "early"  duplicates judged before the cut (refuses re-creation when presented flat)
\*   "set"    every input/output whose commitment occurs on the other side is removed (set semantics:
\*            a re-created output disappears with the spent one)
\*   "nodup"  no duplicate test at all (double spends and duplicate outputs pass)
CutModes == {"after", "early", "set", "nodup"}
CutThroughM(mode, ins, outs) ==
  LET c == CutPairs(ins, outs)
      mi == ToSet(Commits(ins)) \cap ToSet(Commits(outs))
  IN  CASE mode = "after" -> IF HasDup(Commits(c.ins)) \/ HasDup(Commits(c.outs)) THEN Err ELSE c
        [] mode = "early" -> IF HasDup(Commits(ins)) \/ HasDup(Commits(outs)) THEN Err ELSE c
        [] mode = "set"   -> LET r == [ins |-> SelectSeq(ins, LAMBDA e : Commit(e) \notin mi),
                                       outs |-> SelectSeq(outs, LAMBDA e : Commit(e) \notin mi)]
                             IN  IF HasDup(Commits(r.ins)) \/ HasDup(Commits(r.outs)) THEN Err ELSE r
        [] OTHER          -> c
CutThrough(ins, outs) == CutThroughM("after", ins, outs)

EmptyTx == [ins |-> <<>>, outs |-> <<>>, kerns |-> <<>>, off |-> 0]

\* ---- shapes: how often a commitment is created (o) and spent (i) inside a family, before the cut
AllIns(txs) == Concat([i \in 1..Len(txs) |-> txs[i].ins])
AllOuts(txs) == Concat([i \in 1..Len(txs) |-> txs[i].outs])
Touched(txs) == ToSet(Commits(AllIns(txs))) \cup ToSet(Commits(AllOuts(txs)))
NIn(txs, x) == Count(Commits(AllIns(txs)), x)
NOut(txs, x) == Count(Commits(AllOuts(txs)), x)
Net(txs, x) == NOut(txs, x) - NIn(txs, x)
ShapeOf(o, i) ==
  CASE o + i <= 1       -> "once"                      \* ordinary input or output
    [] o = 1 /\ i = 1   -> "chain"                     \* created and spent: the pair is cut
    [] o = 2 /\ i = 1   -> "recreate"                  \* created, spent, created again: one output remains
    [] o = 1 /\ i = 2   -> "respend"                   \* spent, created, spent again: one input remains
    [] i = 0            -> "dup_output"                \* created twice, never spent: refused
    [] o = 0            -> "double_spend"              \* spent twice, never created: refused
    [] o = i            -> "cycle"                     \* created and spent equally often: nothing remains
    [] o = i + 1        -> "recreate_n"
    [] i = o + 1        -> "respend_n"
    [] o > i + 1        -> "dup_output_after_cut"      \* two or more outputs remain: refused
    [] OTHER            -> "double_spend_after_cut"    \* two or more inputs remain: refused
RefusedShapes == {"dup_output", "double_spend", "dup_output_after_cut", "double_spend_after_cut"}
Shapes(txs) == {ShapeOf(NOut(txs, x), NIn(txs, x)) : x \in Touched(txs)}
\* some commitment is created more than once and not always with the same range proof
ProofVariants(txs) == \E e1, e2 \in ToSet(AllOuts(txs)) : Commit(e1) = Commit(e2) /\ e1 # e2
\* the aggregate of the family exists: after cancelling pairs no commitment is left twice
Aggregable(txs) == \A x \in Touched(txs) : Net(txs, x) \in {0 - 1, 0, 1}
\* ... and what is left then (as sets: nothing is left twice)
ResidualIns(txs) == {e \in ToSet(AllIns(txs)) : Net(txs, Commit(e)) = 0 - 1}
ResidualOuts(txs) == {e \in ToSet(AllOuts(txs)) : Net(txs, Commit(e)) = 1}

\* ---- transaction::aggregate
AggregateM(mode, txs) ==
  IF \E i \in 1..Len(txs) : IsErr(txs[i]) THEN Err
  ELSE IF Len(txs) = 0 THEN EmptyTx
  ELSE IF Len(txs) = 1 THEN txs[1]
  ELSE LET c == CutThroughM(mode, Concat([i \in 1..Len(txs) |-> txs[i].ins]), Concat([i \in 1..Len(txs) |-> txs[i].outs]))
       IN  IF IsErr(c) THEN Err
           ELSE [ins |-> c.ins, outs |-> c.outs,
                 kerns |-> Concat([i \in 1..Len(txs) |-> txs[i].kerns]),
                 off |-> SumOff(txs)]
Aggregate(txs) == AggregateM("after", txs)

\* An output may carry a field pv naming WHICH valid range proof of its commitment it carries (a
\* commitment created twice inside a family may come with two different proofs).  Cut-through knows
\* commitments only: which of the proofs the surviving output carries is left free here (any proof
\* some transaction of the family supplied, see ProofChoice); transactions are compared without it.
OutKey(o) == <<o.v, o.r, o.cb, o.pf>>
OutKeys(s) == [i \in 1..Len(s) |-> OutKey(s[i])]
TxEq(a, b) ==
  IF IsErr(a) \/ IsErr(b) THEN IsErr(a) /\ IsErr(b)
  ELSE BagEq(a.ins, b.ins) /\ BagEq(OutKeys(a.outs), OutKeys(b.outs)) /\ BagEq(a.kerns, b.kerns) /\ a.off = b.off

\* ---- transaction::deaggregate(mk, txs): what mk holds beyond aggregate(txs), offsets subtracted
Without(s, t) ==   \* elements of s not in t, first occurrence only (the code's contains() tests)
  LET keep == {i \in 1..Len(s) : ~\E j \in 1..Len(t) : t[j] = s[i]}
      first == {i \in keep : ~\E j \in keep : j < i /\ s[j] = s[i]}
  IN  SetToSortSeq(first, LT)
Deaggregate(mk, txs) ==
  LET tx == Aggregate(txs)
  IN  IF IsErr(mk) \/ IsErr(tx) THEN Err
      ELSE LET ii == Without(mk.ins, tx.ins) oo == Without(mk.outs, tx.outs) kk == Without(mk.kerns, tx.kerns)
           IN  [ins |-> [n \in 1..Len(ii) |-> mk.ins[ii[n]]], outs |-> [n \in 1..Len(oo) |-> mk.outs[oo[n]]],
                kerns |-> [n \in 1..Len(kk) |-> mk.kerns[kk[n]]], off |-> mk.off - tx.off]

\* ---- Block::from_reward, CompactBlock::from, Block::hydrate_from
BlockFrom(a, rw, prev) ==     \* a = aggregate(txs)
      IF IsErr(a) THEN Err
      ELSE LET fees == TB!Fee(a)
           IN  [body |-> [ins |-> a.ins,
                          outs |-> Append(a.outs, [rw.out EXCEPT !.v = TB!Reward + fees]),
                          kerns |-> Append(a.kerns, rw.kern), off |-> 0],
                total |-> prev + a.off, prev |-> prev]
BlockOf(txs, rw, prev) == BlockFrom(Aggregate(txs), rw, prev)
Compact(b) ==
  [total |-> b.total, prev |-> b.prev,
   out_full |-> SelectSeq(b.body.outs, TB!OutCb), kern_full |-> SelectSeq(b.body.kerns, TB!KernCb),
   kern_ids |-> SelectSeq(b.body.kerns, TB!KernPlain)]
Hydrate(cb, parts) ==
  IF \E i \in 1..Len(parts) : IsErr(parts[i]) THEN Err
  ELSE LET c == CutThrough(Concat([i \in 1..Len(parts) |-> parts[i].ins]), Concat([i \in 1..Len(parts) |-> parts[i].outs]))
       IN  IF IsErr(c) THEN Err
           ELSE [body |-> [ins |-> c.ins, outs |-> c.outs \o cb.out_full,
                           kerns |-> Concat([i \in 1..Len(parts) |-> parts[i].kerns]) \o cb.kern_full, off |-> 0],
                 total |-> cb.total, prev |-> cb.prev]
BlockEq(a, b) ==
  IF IsErr(a) \/ IsErr(b) THEN IsErr(a) /\ IsErr(b)
  ELSE TxEq(a.body, b.body) /\ a.total = b.total

\* ---- Pool::retrieve_transactions(cb.hash(), cb.nonce, cb.kern_ids()) as compact_block_received calls it.
\* A pool is a sequence of entries (transactions, possibly aggregates).  kern_ids are modelled as the
\* kernels themselves: a short id names its kernel under every nonce (collisions of the 48-bit ids are
\* outside the model), and the ORDER of the ids - which does depend on the nonce - must not matter.
\* Every entry that owns a listed kernel is returned ONCE, however many of its kernels are listed;
\* `missing` are the listed kernels no entry owns.
Owns(t, k) == \E i \in 1..Len(t.kerns) : t.kerns[i] = k
Retrieve(pool, cb) ==
  [txs |-> SelectSeq(pool, LAMBDA t : \E i \in 1..Len(cb.kern_ids) : Owns(t, cb.kern_ids[i])),
   missing |-> SelectSeq(cb.kern_ids, LAMBDA k : ~\E j \in 1..Len(pool) : Owns(pool[j], k))]
\* the pool of a receiving node: the block's transactions in some grouping between unrelated entries
PoolOf(parts, others) ==
  (IF Len(others) >= 1 THEN <<others[1]>> ELSE <<>>) \o parts \o (IF Len(others) >= 2 THEN Tail(others) ELSE <<>>)
\* the node's route: hydrate from what the pool returns, and only when nothing is missing
HydrateViaPool(cb, pool) ==
  LET r == Retrieve(pool, cb)
  IN  IF r.missing # <<>> THEN [err |-> TRUE, missing |-> r.missing] ELSE Hydrate(cb, r.txs)
Sids(ks) == [i \in 1..Len(ks) |-> ks[i].sid]

-----------------------------------------------------------------------------
\* Plans: a leaf [t |-> i] is the i-th transaction of the family, a node [g |-> <<plans>>] is
\* aggregate() applied to the results of its children in that order.
Leaf(i) == [t |-> i]
Node(ps) == [g |-> ps]
IsLeaf(p) == "t" \in DOMAIN p

RECURSIVE EvalM(_, _, _)
EvalM(mode, p, txs) == IF IsLeaf(p) THEN txs[p.t] ELSE AggregateM(mode, [i \in 1..Len(p.g) |-> EvalM(mode, p.g[i], txs)])
Eval(p, txs) == EvalM("after", p, txs)

RECURSIVE Leaves(_)
Leaves(p) == IF IsLeaf(p) THEN {p.t} ELSE UNION {Leaves(p.g[i]) : i \in 1..Len(p.g)}
RECURSIVE Groups(_)
Groups(p) == IF IsLeaf(p) THEN {} ELSE {p} \cup UNION {Groups(p.g[i]) : i \in 1..Len(p.g)}
\* the transactions a plan evaluates at its root (hydrate_from / from_reward take these)
Parts(p, txs) == IF IsLeaf(p) THEN <<Eval(p, txs)>> ELSE [i \in 1..Len(p.g) |-> Eval(p.g[i], txs)]
PartsOk(p, txs) == LET ps == Parts(p, txs) IN \A i \in 1..Len(ps) : ~IsErr(ps[i])

Perms(n) == {s \in [1..n -> 1..n] : \A i, j \in 1..n : i # j => s[i] # s[j]}
\* consecutive blocks of s given the set of cut positions
Blocks(s, cuts) ==
  LET n == Len(s)
      starts == SetToSortSeq({1} \cup {c + 1 : c \in cuts}, LT)
      ends == SetToSortSeq(cuts \cup {n}, LT)
  IN  [b \in 1..Len(starts) |-> Node([i \in 1..(ends[b] - starts[b] + 1) |-> Leaf(s[starts[b] + i - 1])])]
RECURSIVE FoldL(_, _)
FoldL(s, n) == IF n = 1 THEN Leaf(s[1]) ELSE Node(<<FoldL(s, n - 1), Leaf(s[n])>>)
RECURSIVE FoldR(_, _)
FoldR(s, i) == IF i = Len(s) THEN Leaf(s[i]) ELSE Node(<<Leaf(s[i]), FoldR(s, i + 1)>>)

Plans(n) ==
  IF n = 0 THEN {Node(<<>>)}
  ELSE UNION {
         (IF n = 1 THEN {Node(<<Leaf(s[1])>>)} ELSE
         {Node(Blocks(s, cuts)) : cuts \in SUBSET (1..(n - 1))}          \* one level of grouping (incl. all singletons)
         \cup {Node([i \in 1..n |-> Leaf(s[i])])}                         \* flat
         \cup {FoldL(s, n), FoldR(s, 1)})                                 \* nested binary, both ways
         : s \in Perms(n)}

PlanChoices(n) == Plans(n)     \* the emit configuration walks families only
\* ---- families
Lib == Libraries[lib]
Txs == [i \in 1..Len(fam) |-> Lib[fam[i]]]
MaxFamilyOf(l) == MaxFamily     \* MC modules may bound the families of a library more tightly
Families(l) == {SetToSortSeq(S, LT) : S \in {T \in SUBSET (1..Len(Libraries[l])) : Cardinality(T) <= MaxFamilyOf(l)}}

\* every commitment is created at most once and spent at most once within the family
ConflictFree(txs) ==
  /\ ~HasDup(Commits(Concat([i \in 1..Len(txs) |-> txs[i].ins])))
  /\ ~HasDup(Commits(Concat([i \in 1..Len(txs) |-> txs[i].outs])))
\* no transaction of the family spends an output of another one
Independent(txs) ==
  /\ ConflictFree(txs)
  /\ ToSet(Commits(Concat([i \in 1..Len(txs) |-> txs[i].ins]))) \cap ToSet(Commits(Concat([i \in 1..Len(txs) |-> txs[i].outs]))) = {}
Sub(txs, S) == [n \in 1..Cardinality(S) |-> txs[SetToSortSeq(S, LT)[n]]]

Init == phase = "root" /\ lib = 0 /\ fam = <<>> /\ plan = Node(<<>>)

ChooseLibrary ==
  /\ phase = "root"
  /\ \E l \in 1..Len(Libraries) : lib' = l
  /\ phase' = "library" /\ UNCHANGED <<fam, plan>>

ChooseFamily ==
  /\ phase = "library"
  /\ \E f \in Families(lib) : fam' = f
  /\ phase' = "family" /\ UNCHANGED <<lib, plan>>

ChoosePlan ==
  /\ phase = "family"
  /\ \E p \in PlanChoices(Len(fam)) : plan' = p
  /\ phase' = "plan" /\ UNCHANGED <<lib, fam>>

Next == ChooseLibrary \/ ChooseFamily \/ ChoosePlan
Spec == Init /\ [][Next]_vars

-----------------------------------------------------------------------------
\* What TLC checks
AtFamily == phase = "family"
AtPlan == phase = "plan"
All == Aggregate(Txs)

\* operands are valid transactions (the property quantifies over valid transactions)
OperandsValid == phase = "library" => \A i \in 1..Len(Lib) : TB!TxValid(Lib[i], TxCtx)

\* A family is aggregable iff after cancelling spend pairs no commitment is left twice.  Then the
\* aggregate keeps all kernels, sums the offsets, and keeps of the inputs and outputs exactly what
\* does not cancel: one input per commitment spent once more than created, one output per commitment
\* created once more than spent (for a conflict-free family: everything except the matched pairs);
\* the result is a valid transaction.  A family that is not aggregable (a commitment is left twice
\* as an input: double spend; twice as an output: duplicate output) is refused.
AggregateFaithful ==
  (AtFamily /\ Len(fam) >= 1) =>
    LET a == All
        I == AllIns(Txs)
        O == AllOuts(Txs)
        matched == ToSet(Commits(I)) \cap ToSet(Commits(O))
    IN  IF ~Aggregable(Txs) THEN IsErr(a)
        ELSE /\ ~IsErr(a)
             /\ BagEq(a.kerns, Concat([i \in 1..Len(Txs) |-> Txs[i].kerns]))
             /\ a.off = SumOff(Txs)
             /\ ~HasDup(a.ins) /\ ToSet(a.ins) = ResidualIns(Txs)
             /\ ~HasDup(Commits(a.outs)) /\ ToSet(OutKeys(a.outs)) = {OutKey(e) : e \in ResidualOuts(Txs)}
             /\ ToSet(a.outs) \subseteq ResidualOuts(Txs)
             /\ ConflictFree(Txs) =>
                  /\ BagEq(a.ins, SelectSeq(I, LAMBDA e : Commit(e) \notin matched))
                  /\ BagEq(OutKeys(a.outs), OutKeys(SelectSeq(O, LAMBDA e : Commit(e) \notin matched)))
             /\ TB!TxValid(a, TxCtx)

\* the verdict of every shape: the family is refused iff it shows one of the refused shapes, and a
\* conflict-free family (every commitment created at most once and spent at most once) never is
ShapeVerdicts ==
  AtFamily =>
    /\ Aggregable(Txs) <=> Shapes(Txs) \cap RefusedShapes = {}
    /\ ConflictFree(Txs) <=> Shapes(Txs) \subseteq {"once", "chain"}
    /\ ConflictFree(Txs) => Aggregable(Txs)

\* A plan is refused iff one of its groups, taken as a family of its own, is not aggregable (the
\* intermediate result would carry a commitment twice: [a, c] of a : U -> X, b : X -> Y, c : Y -> X
\* has no aggregate although [a, b, c] has one).
PlanRefused(p, txs) == \E q \in Groups(p) : ~Aggregable(Sub(txs, Leaves(q)))

\* The result does not depend on operand order or grouping, the error verdict included: every plan
\* either is refused (exactly as PlanRefused says) or yields the aggregate of the family.  Hence a
\* family that is not aggregable is refused by every plan, a conflict-free family by none, and for
\* the shapes in between (recreate, respend, cycle) flat and every plan whose groups are aggregable
\* agree.
OrderGroupingIndependent ==
  AtPlan =>
    LET e == Eval(plan, Txs)
    IN  /\ IsErr(e) <=> PlanRefused(plan, Txs)
        /\ ~IsErr(e) => TxEq(e, All)
        /\ ~IsErr(e) => ToSet(e.outs) \subseteq ToSet(AllOuts(Txs))     \* ProofChoice: a supplied proof, whichever
        /\ ~Aggregable(Txs) => IsErr(e)
        /\ ConflictFree(Txs) => ~IsErr(e)

\* de-aggregating a known subset of an independent family returns the remainder
DeaggregateRemainder ==
  (AtFamily /\ Independent(Txs) /\ Len(fam) >= 2) =>
    \A S \in SUBSET (1..Len(fam)) :
      (S # {} /\ S # 1..Len(fam)) =>
        TxEq(Deaggregate(All, Sub(Txs, S)), Aggregate(Sub(Txs, (1..Len(fam)) \ S)))

\* block -> compact block -> hydrated from the same transactions in any order / grouping whose
\* groups exist is the block; and the block built from those groups is that block too
BlockCtx(b) == [as |-> "block", prev |-> b.prev, total |-> b.total, height |-> BlockHeight, ver |-> TB!NrdVersion, nrd |-> TRUE]
Prev0 == CHOOSE p \in PrevOffsets : \A q \in PrevOffsets : p >= q
HydrateIdentity ==
  (AtPlan /\ Aggregable(Txs) /\ PartsOk(plan, Txs)) =>
    \A prev \in PrevOffsets :
      LET b == BlockOf(Txs, Rewards[lib], prev)
          parts == Parts(plan, Txs)
      IN  /\ BlockEq(Hydrate(Compact(b), parts), b)
          /\ BlockEq(BlockOf(parts, Rewards[lib], prev), b)

\* ... and so it is on the node's own route: the pool holds the family in that grouping (between
\* unrelated entries); retrieve_transactions returns exactly those entries, each once, nothing is
\* missing, and hydrating from them gives the block.  A pool that lacks one of the groups reports
\* exactly that group's kernels as missing (the node then asks for the full block).
Bystanders == LET o == SelectSeq([i \in 1..Len(Lib) |-> i], LAMBDA i : \A j \in 1..Len(fam) : fam[j] # i)
              IN  [i \in 1..(IF Len(o) < 2 THEN Len(o) ELSE 2) |-> Lib[o[i]]]
HydrateViaPoolIdentity ==
  (AtPlan /\ Aggregable(Txs) /\ PartsOk(plan, Txs)) =>
    LET b == BlockOf(Txs, Rewards[lib], Prev0)
        cb == Compact(b)
        parts == Parts(plan, Txs)
        r == Retrieve(PoolOf(parts, Bystanders), cb)
    IN  /\ r.missing = <<>> /\ BagEq(r.txs, parts)
        /\ BlockEq(HydrateViaPool(cb, PoolOf(parts, Bystanders)), b)
        /\ \A j \in 1..Len(parts) :
             LET q == Retrieve(PoolOf(RemoveAt(parts, j), Bystanders), cb)
             IN  BagEq(q.missing, parts[j].kerns) /\ BagEq(q.txs, RemoveAt(parts, j))

\* OrderGroupingIndependent, HydrateIdentity and HydrateViaPoolIdentity in one evaluation (each
\* aggregate computed once; the block body does not depend on the previous offset, the header total
\* is checked for every one); this is what the configurations check at the plan states
PlanChecks ==
  AtPlan =>
    LET all == All
        ag == Aggregable(Txs)
        parts == Parts(plan, Txs)
        pok == \A i \in 1..Len(parts) : ~IsErr(parts[i])
        e == IF IsLeaf(plan) THEN parts[1] ELSE Aggregate(parts)
        b == BlockFrom(all, Rewards[lib], Prev0)
        cb == Compact(b)
        pool == PoolOf(parts, Bystanders)
        r == Retrieve(pool, cb)
    IN  /\ IsErr(e) <=> PlanRefused(plan, Txs)
        /\ ~IsErr(e) => TxEq(e, all) /\ ToSet(e.outs) \subseteq ToSet(AllOuts(Txs))
        /\ ~ag => IsErr(e)
        /\ ConflictFree(Txs) => ~IsErr(e)
        /\ (ag /\ pok) => /\ BlockEq(Hydrate(cb, parts), b)
                          /\ BlockEq(BlockFrom(e, Rewards[lib], Prev0), b)
                          /\ \A prev \in PrevOffsets : BlockFrom(e, Rewards[lib], prev).total = prev + SumOff(Txs)
                          \* through the pool: what is retrieved is the grouping itself, so Hydrate above is the
                          \* hydration the node performs (HydrateViaPoolIdentity spells it out, every lacking pool included)
                          /\ r.missing = <<>> /\ r.txs = parts
                          /\ \A j \in {1, Len(parts)} \cap (1..Len(parts)) :
                               LET q == Retrieve(PoolOf(RemoveAt(parts, j), Bystanders), cb)
                               IN  BagEq(q.missing, parts[j].kerns) /\ q.txs = RemoveAt(parts, j)

\* and that block is a valid block body, on top of every previous offset
BlockValid ==
  (AtFamily /\ Aggregable(Txs)) =>
    \A prev \in PrevOffsets :
      LET b == BlockOf(Txs, Rewards[lib], prev)
      IN  ~IsErr(b) /\ b.total = prev + SumOff(Txs) /\ TB!BlockBodyValid(b.body, BlockCtx(b))

\* ---- offsets that cancel.  Offsets are chosen freely by whoever builds a transaction, so a family may
\* hold o and -o, three that sum to zero, such a group next to others (a grouping then meets the zero
\* sum on the way to a non-zero total), or add up to minus the previous header's total.  The sum is
\* the zero offset then (AggregateFaithful: a.off = SumOff; BlockValid: total = prev + SumOff;
\* DeaggregateRemainder: the remainder's offset is what is left) - nothing is refused for it.
NonZeroGroups(txs) == {S \in SUBSET (1..Len(txs)) : Cardinality(S) >= 2 /\ \A i \in S : txs[i].off # 0}
Cancelling(txs) == {S \in NonZeroGroups(txs) : SumOff(Sub(txs, S)) = 0}
CancelForms(txs) ==
  LET n == Len(txs)
      C == Cancelling(txs)
      tot == SumOff(txs)
  IN  {"pair" : S \in {T \in C : Cardinality(T) = 2}}
      \cup {"triple" : S \in {T \in C : Cardinality(T) = 3 /\ \A U \in C : ~(U \subseteq T /\ U # T)}}
      \cup {"inner" : S \in {T \in C : Cardinality(T) < n /\ tot # 0}}              \* zero on the way to a non-zero total
      \cup {"total" : S \in {T \in C : tot = 0}}                                  \* the aggregate's offset is zero
      \cup {"remainder" : S \in {T \in C : Cardinality(T) < n /\ Independent(txs)}} \* de-aggregating the rest leaves zero
      \cup {"known_subset" : S \in {T \in C : Cardinality(T) < n /\ Independent(txs) /\ tot # 0}} \* the known subset sums to zero
      \cup {"prev" : p \in {q \in PrevOffsets : q # 0 /\ q + tot = 0 /\ n >= 1}}    \* the header total is zero
WantedCancelForms == {"pair", "triple", "inner", "total", "remainder", "known_subset", "prev"}
OffsetsCancel(txs) == CancelForms(txs) # {}

\* libsecp can compute every sum of COMMITMENTS the code forms on the way (the converse direction is
\* comparable): no aggregate has a zero blinding or excess sum, as a transaction or inside its block.
\* (Offsets that cancel are not degenerate: see above.)
NonDegenerate(txs) ==
  LET a == Aggregate(txs)
  IN  IsErr(a) \/ Len(txs) = 0
      \/ /\ ~TB!Degenerate(a, TxCtx)
         /\ \A prev \in PrevOffsets : LET b == BlockFrom(a, Rewards[lib], prev) IN ~TB!Degenerate(b.body, BlockCtx(b))
LibrariesNonDegenerate == AtFamily => NonDegenerate(Txs)

\* vacuity guards (checked at the root state): the libraries exercise every shape, and for every
\* careless cut-through some family and plan of the libraries gives a different result
LibFamily(l, f) == [i \in 1..Len(f) |-> Libraries[l][f[i]]]
Kills(mode) ==
  \E l \in 1..Len(Libraries) : \E f \in Families(l) : \E p \in Plans(Len(f)) :
    ~TxEq(EvalM(mode, p, LibFamily(l, f)), Eval(p, LibFamily(l, f)))
CarelessKilled == phase = "root" => \A m \in CutModes \ {"after"} : Kills(m)
ShapesOfLibrary(l) == UNION {Shapes([i \in 1..Len(f) |-> Libraries[l][f[i]]]) : f \in Families(l)}
\* ... and every form of cancelling offsets
CancelFormsOfLibrary(l) == UNION {CancelForms(LibFamily(l, f)) : f \in Families(l)}
CancellationsCovered ==
  phase = "root" => WantedCancelForms \subseteq UNION {CancelFormsOfLibrary(l) : l \in 1..Len(Libraries)}
\* ... and both representations of inputs, also side by side in one family
InputVariantsOf(txs) == {IF "iv" \in DOMAIN txs[i] THEN txs[i].iv ELSE "co" : i \in 1..Len(txs)}
VariantsCovered ==
  phase = "root" => \E l \in 1..Len(Libraries) : \E f \in Families(l) : {"co", "fc", "fcb"} \subseteq InputVariantsOf(LibFamily(l, f))
=============================================================================
