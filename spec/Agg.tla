-------------------------------- MODULE Agg --------------------------------
(***************************************************************************)
(* C12: aggregation, cut-through, de-aggregation and compact-block         *)
(* hydration are faithful.                                                 *)
(*                                                                         *)
(* Transactions are the bodies of TxBalance.tla: inputs [v, r], outputs    *)
(* [v, r, cb, pf], kernels [kind, fee, lock, rel, x, sg, sid] and an       *)
(* integer offset.  The operators below are written in the shape of        *)
(*   transaction::aggregate / cut_through / deaggregate                    *)
(*   Block::from_reward, From<Block> for CompactBlock, Block::hydrate_from *)
(* (core/src/core/transaction.rs, block.rs, compact_block.rs): element     *)
(* lists are concatenated, cut-through removes matched input/output pairs  *)
(* one for one and refuses leftovers that are duplicated, offsets are      *)
(* summed.  Lists are compared as bags (the code sorts them by hash).      *)
(*                                                                         *)
(* The module is an oracle and a case generator: the walk is               *)
(*   root -> library -> family (<= 4 transactions of the library)          *)
(*        -> plan (a permutation of the family with a bracketing)          *)
(* and TLC checks in every family / plan state the clauses of C12.         *)
(***************************************************************************)
EXTENDS Integers, Sequences, FiniteSets, SequencesExt, TLC

CONSTANTS
  Libraries,     \* sequence of libraries; a library is a sequence of valid transactions
  Rewards,       \* per library: [out |-> coinbase output without its value, kern |-> coinbase kernel]
  MaxFamily,     \* transactions per family (<= 4)
  PrevOffset     \* total kernel offset of the previous header (block clauses)

VARIABLES phase, lib, fam, plan

vars == <<phase, lib, fam, plan>>

TB == INSTANCE TxBalance WITH
        MaxIn <- 8, MaxOut <- 8, MaxKern <- 8, Vals <- {0}, NBlind <- 3, RPatterns <- {}, Fees <- {1},
        Offsets <- {0}, Splits <- {1}, PrevOffsets <- {0}, MaxCorrupt <- 0,
        phase <- "none", grp <- 0, vals <- 0, body <- 0, ctx <- 0, applied <- <<>>

Err == [err |-> TRUE]
IsErr(t) == "err" \in DOMAIN t
Commit(e) == <<e.v, e.r>>
BlockHeight == 9    \* first height whose header version (AutomatedTesting schedule) admits NRD kernels
TxCtx == [as |-> "tx", prev |-> 0, total |-> 0, height |-> TB!Height, ver |-> TB!NrdVersion, nrd |-> TRUE]

LT(a, b) == a < b
\* ---- bags as sequences
Count(s, e) == Cardinality({i \in 1..Len(s) : s[i] = e})
BagEq(s, t) == Len(s) = Len(t) /\ \A e \in ToSet(s) \cup ToSet(t) : Count(s, e) = Count(t, e)
HasDup(s) == \E i, j \in 1..Len(s) : i < j /\ s[i] = s[j]
Commits(s) == [i \in 1..Len(s) |-> Commit(s[i])]
RECURSIVE Concat(_)
Concat(ss) == IF ss = <<>> THEN <<>> ELSE Head(ss) \o Concat(Tail(ss))
SumOff(txs) == FoldLeft(LAMBDA acc, t : acc + t.off, 0, txs)

\* ---- transaction::cut_through: eliminate input/output pairs where the input spends the output,
\* one pair per match; what is left must not contain a duplicated input or a duplicated output.
RECURSIVE CutPairs(_, _)
CutPairs(ins, outs) ==
  LET M == {p \in (1..Len(ins)) \X (1..Len(outs)) : Commit(ins[p[1]]) = Commit(outs[p[2]])}
  IN  IF M = {} THEN [ins |-> ins, outs |-> outs]
      ELSE LET p == CHOOSE q \in M : \A q2 \in M : q[1] < q2[1] \/ (q[1] = q2[1] /\ q[2] <= q2[2])
           IN  CutPairs(RemoveAt(ins, p[1]), RemoveAt(outs, p[2]))

CutThrough(ins, outs) ==
  LET c == CutPairs(ins, outs)
  IN  IF HasDup(Commits(c.ins)) \/ HasDup(Commits(c.outs)) THEN Err ELSE c

EmptyTx == [ins |-> <<>>, outs |-> <<>>, kerns |-> <<>>, off |-> 0]

\* ---- transaction::aggregate
Aggregate(txs) ==
  IF \E i \in 1..Len(txs) : IsErr(txs[i]) THEN Err
  ELSE IF Len(txs) = 0 THEN EmptyTx
  ELSE IF Len(txs) = 1 THEN txs[1]
  ELSE LET c == CutThrough(Concat([i \in 1..Len(txs) |-> txs[i].ins]), Concat([i \in 1..Len(txs) |-> txs[i].outs]))
       IN  IF IsErr(c) THEN Err
           ELSE [ins |-> c.ins, outs |-> c.outs,
                 kerns |-> Concat([i \in 1..Len(txs) |-> txs[i].kerns]),
                 off |-> SumOff(txs)]

TxEq(a, b) ==
  IF IsErr(a) \/ IsErr(b) THEN IsErr(a) /\ IsErr(b)
  ELSE BagEq(a.ins, b.ins) /\ BagEq(a.outs, b.outs) /\ BagEq(a.kerns, b.kerns) /\ a.off = b.off

\* ---- transaction::deaggregate(mk, txs): what mk holds beyond aggregate(txs), offsets subtracted
Without(s, t) ==   \* elements of s not in t, first occurrence only (the code's contains() tests)
  LET keep == {i \in 1..Len(s) : ~\E j \in 1..Len(t) : t[j] = s[i]}
      first == {i \in keep : ~\E j \in keep : j < i /\ s[j] = s[i]}
  IN  SetToSortSeq(first, LT)
Deaggregate(mk, txs) ==
  LET tx == Aggregate(txs)
  IN  IF IsErr(mk) \/ IsErr(tx) THEN Err
      ELSE LET ii == Without(mk.ins, tx.ins) oo == Without(mk.outs, tx.outs) kk == Without(mk.kerns, tx.kerns)
           IN  [ins |-> [n \in 1..Len(ii) |-> mk.ins[ii[n]]], outs |-> [n \in 1..Len(oo) |-> mk.outs[oo[n]]],
                kerns |-> [n \in 1..Len(kk) |-> mk.kerns[kk[n]]], off |-> mk.off - tx.off]

\* ---- Block::from_reward, CompactBlock::from, Block::hydrate_from
BlockOf(txs, rw, prev) ==
  LET a == Aggregate(txs)
  IN  IF IsErr(a) THEN Err
      ELSE LET fees == TB!Fee(a)
           IN  [body |-> [ins |-> a.ins,
                          outs |-> Append(a.outs, [rw.out EXCEPT !.v = TB!Reward + fees]),
                          kerns |-> Append(a.kerns, rw.kern), off |-> 0],
                total |-> prev + a.off, prev |-> prev]
Compact(b) ==
  [total |-> b.total, prev |-> b.prev,
   out_full |-> SelectSeq(b.body.outs, TB!OutCb), kern_full |-> SelectSeq(b.body.kerns, TB!KernCb),
   kern_ids |-> SelectSeq(b.body.kerns, TB!KernPlain)]
Hydrate(cb, parts) ==
  IF \E i \in 1..Len(parts) : IsErr(parts[i]) THEN Err
  ELSE LET c == CutThrough(Concat([i \in 1..Len(parts) |-> parts[i].ins]), Concat([i \in 1..Len(parts) |-> parts[i].outs]))
       IN  IF IsErr(c) THEN Err
           ELSE [body |-> [ins |-> c.ins, outs |-> c.outs \o cb.out_full,
                           kerns |-> Concat([i \in 1..Len(parts) |-> parts[i].kerns]) \o cb.kern_full, off |-> 0],
                 total |-> cb.total, prev |-> cb.prev]
BlockEq(a, b) ==
  IF IsErr(a) \/ IsErr(b) THEN IsErr(a) /\ IsErr(b)
  ELSE TxEq(a.body, b.body) /\ a.total = b.total

-----------------------------------------------------------------------------
\* Plans: a leaf [t |-> i] is the i-th transaction of the family, a node [g |-> <<plans>>] is
\* aggregate() applied to the results of its children in that order.
Leaf(i) == [t |-> i]
Node(ps) == [g |-> ps]
IsLeaf(p) == "t" \in DOMAIN p

RECURSIVE Eval(_, _)
Eval(p, txs) == IF IsLeaf(p) THEN txs[p.t] ELSE Aggregate([i \in 1..Len(p.g) |-> Eval(p.g[i], txs)])

Perms(n) == {s \in [1..n -> 1..n] : \A i, j \in 1..n : i # j => s[i] # s[j]}
\* consecutive blocks of s given the set of cut positions
Blocks(s, cuts) ==
  LET n == Len(s)
      starts == SetToSortSeq({1} \cup {c + 1 : c \in cuts}, LT)
      ends == SetToSortSeq(cuts \cup {n}, LT)
  IN  [b \in 1..Len(starts) |-> Node([i \in 1..(ends[b] - starts[b] + 1) |-> Leaf(s[starts[b] + i - 1])])]
RECURSIVE FoldL(_, _)
FoldL(s, n) == IF n = 1 THEN Leaf(s[1]) ELSE Node(<<FoldL(s, n - 1), Leaf(s[n])>>)
RECURSIVE FoldR(_, _)
FoldR(s, i) == IF i = Len(s) THEN Leaf(s[i]) ELSE Node(<<Leaf(s[i]), FoldR(s, i + 1)>>)

Plans(n) ==
  IF n = 0 THEN {Node(<<>>)}
  ELSE UNION {
         (IF n = 1 THEN {Node(<<Leaf(s[1])>>)} ELSE
         {Node(Blocks(s, cuts)) : cuts \in SUBSET (1..(n - 1))}          \* one level of grouping (incl. all singletons)
         \cup {Node([i \in 1..n |-> Leaf(s[i])])}                         \* flat
         \cup {FoldL(s, n), FoldR(s, 1)})                                 \* nested binary, both ways
         : s \in Perms(n)}

\* ---- families
Lib == Libraries[lib]
Txs == [i \in 1..Len(fam) |-> Lib[fam[i]]]
Families(l) == {SetToSortSeq(S, LT) : S \in {T \in SUBSET (1..Len(Libraries[l])) : Cardinality(T) <= MaxFamily}}

\* every commitment is created at most once and spent at most once within the family
ConflictFree(txs) ==
  /\ ~HasDup(Commits(Concat([i \in 1..Len(txs) |-> txs[i].ins])))
  /\ ~HasDup(Commits(Concat([i \in 1..Len(txs) |-> txs[i].outs])))
\* no transaction of the family spends an output of another one
Independent(txs) ==
  /\ ConflictFree(txs)
  /\ ToSet(Commits(Concat([i \in 1..Len(txs) |-> txs[i].ins]))) \cap ToSet(Commits(Concat([i \in 1..Len(txs) |-> txs[i].outs]))) = {}
Sub(txs, S) == [n \in 1..Cardinality(S) |-> txs[SetToSortSeq(S, LT)[n]]]

Init == phase = "root" /\ lib = 0 /\ fam = <<>> /\ plan = Node(<<>>)

ChooseLibrary ==
  /\ phase = "root"
  /\ \E l \in 1..Len(Libraries) : lib' = l
  /\ phase' = "library" /\ UNCHANGED <<fam, plan>>

ChooseFamily ==
  /\ phase = "library"
  /\ \E f \in Families(lib) : fam' = f
  /\ phase' = "family" /\ UNCHANGED <<lib, plan>>

ChoosePlan ==
  /\ phase = "family"
  /\ \E p \in Plans(Len(fam)) : plan' = p
  /\ phase' = "plan" /\ UNCHANGED <<lib, fam>>

Next == ChooseLibrary \/ ChooseFamily \/ ChoosePlan
Spec == Init /\ [][Next]_vars

-----------------------------------------------------------------------------
\* What TLC checks
AtFamily == phase = "family"
AtPlan == phase = "plan"
All == Aggregate(Txs)

\* operands are valid transactions (the property quantifies over valid transactions)
OperandsValid == phase = "library" => \A i \in 1..Len(Lib) : TB!TxValid(Lib[i], TxCtx)

\* aggregation of a conflict-free family never fails, keeps all kernels, sums the offsets, and keeps
\* inputs and outputs except exactly the matched spend pairs; the result is a valid transaction
AggregateFaithful ==
  (AtFamily /\ ConflictFree(Txs) /\ Len(fam) >= 1) =>
    LET a == All
        I == Concat([i \in 1..Len(Txs) |-> Txs[i].ins])
        O == Concat([i \in 1..Len(Txs) |-> Txs[i].outs])
        matched == ToSet(Commits(I)) \cap ToSet(Commits(O))
    IN  /\ ~IsErr(a)
        /\ BagEq(a.kerns, Concat([i \in 1..Len(Txs) |-> Txs[i].kerns]))
        /\ a.off = SumOff(Txs)
        /\ BagEq(a.ins, SelectSeq(I, LAMBDA e : Commit(e) \notin matched))
        /\ BagEq(a.outs, SelectSeq(O, LAMBDA e : Commit(e) \notin matched))
        /\ TB!TxValid(a, TxCtx)

\* the result does not depend on operand order or grouping
OrderGroupingIndependent == (AtPlan /\ ConflictFree(Txs)) => TxEq(Eval(plan, Txs), All)

\* de-aggregating a known subset of an independent family returns the remainder
DeaggregateRemainder ==
  (AtFamily /\ Independent(Txs) /\ Len(fam) >= 2) =>
    \A S \in SUBSET (1..Len(fam)) :
      (S # {} /\ S # 1..Len(fam)) =>
        TxEq(Deaggregate(All, Sub(Txs, S)), Aggregate(Sub(Txs, (1..Len(fam)) \ S)))

\* block -> compact block -> hydrated from the same transactions in any order / grouping is the block
HydrateIdentity ==
  (AtPlan /\ ConflictFree(Txs)) =>
    LET b == BlockOf(Txs, Rewards[lib], PrevOffset)
        parts == IF IsLeaf(plan) THEN <<Eval(plan, Txs)>> ELSE [i \in 1..Len(plan.g) |-> Eval(plan.g[i], Txs)]
    IN  BlockEq(Hydrate(Compact(b), parts), b)

\* and that block is a valid block body
BlockValid ==
  (AtFamily /\ ConflictFree(Txs)) =>
    LET b == BlockOf(Txs, Rewards[lib], PrevOffset)
    IN  ~IsErr(b) /\ TB!BlockBodyValid(b.body, [as |-> "block", prev |-> b.prev, total |-> b.total,
                                               height |-> BlockHeight, ver |-> TB!NrdVersion, nrd |-> TRUE])

\* libsecp can compute every sum the code forms on the way (the converse direction is comparable):
\* no group of non-zero offsets cancels, no aggregate has a zero blinding or excess sum
NonDegenerate(txs) ==
  /\ \A S \in SUBSET (1..Len(txs)) :
        S # {} => LET sub == Sub(txs, S)
                  IN  (\E i \in 1..Len(sub) : sub[i].off # 0) => (SumOff(sub) # 0 /\ PrevOffset + SumOff(sub) # 0)
  /\ LET a == Aggregate(txs) IN IsErr(a) \/ Len(txs) = 0 \/ ~TB!Degenerate(a, TxCtx)
LibrariesNonDegenerate == (AtFamily /\ ConflictFree(Txs)) => NonDegenerate(Txs)
=============================================================================
