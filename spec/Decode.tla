------------------------------- MODULE Decode -------------------------------
(***************************************************************************)
(* Property C11: feeding arbitrary bytes to any decoder reachable from the *)
(* network or the API yields a value or an error - never a panic, an       *)
(* abort, a hang, or an allocation beyond a small multiple of the input.   *)
(*                                                                         *)
(* HONEST SCOPE.  A TLA+ specification cannot enumerate byte strings.      *)
(* This module contributes exactly two things:                             *)
(*                                                                         *)
(*  (1) the CALL PROTOCOL AND RESOURCE CONTRACT every decoder call must    *)
(*      satisfy, as a small state machine                                  *)
(*          Idle --Begin(d, v, len)--> InCall --End(out, used, peak)--> Idle*)
(*      with out \in {ok, err}, used <= len, peak <= A(d) + B(d) * len,    *)
(*      and for decoders that loop over a stream (Codec::read,             *)
(*      msg::read_message) one Read step per delivered message, each of    *)
(*      which must consume at least one byte (progress).  TLC checks on    *)
(*      the machine that per-step progress bounds the number of reads by   *)
(*      the bytes consumed (so a stream of len bytes cannot be read more   *)
(*      than len times: no livelock), and the trace specification          *)
(*      spec/trace/DecodeTrace.tla accepts an execution recorded from the  *)
(*      real decoders only if every call is a behaviour of this machine.   *)
(*                                                                         *)
(*  (2) the STRUCTURE-AWARE MUTATION GENERATOR.  The harness exports the   *)
(*      abstract layout (sequence of field kinds and widths, recorded from *)
(*      the repository's own encoders) of every valid encoding; the        *)
(*      operators below enumerate, per layout and field, the mutation      *)
(*      classes of the property's quantifier: every integer field set to   *)
(*      0, 1, the decoder's limits -1/+0/+1, 2^16, 2^32-1, 2^63, 2^64-1    *)
(*      (as far as the width allows), tag bytes swept over 0..255,         *)
(*      truncation at every field boundary (and at every offset), a field  *)
(*      dropped, duplicated, or replaced by / preceded with a field        *)
(*      spliced from another message.  spec/mc/MC_Decode_gen enumerates    *)
(*      them with TLC and prints one plan per (layout, field).             *)
(*                                                                         *)
(*  (3) the CATALOGUE OF POST-DECODE STEPS.  A decoder returning Ok is not   *)
(*      the end of the untrusted path: the message handlers                *)
(*      (p2p/src/protocol.rs `consume`, servers/src/common/adapters.rs,    *)
(*      chain/src/pipe.rs up to the first store access, the desegmenter's  *)
(*      add_*_segment, the pool's add_to_pool up to the first chain        *)
(*      access, the API handlers) apply conversions, accessors and         *)
(*      stateless checks to the freshly decoded value unconditionally,     *)
(*      before anything has been validated (`BitmapSegment::into_segment`  *)
(*      on every OutputBitmapSegment, `UntrustedBlock -> Block`,           *)
(*      `Block::hydrate_from`, `Segment::validate`, identifier arithmetic, *)
(*      fee arithmetic ...).  PostSteps(d) lists them per decoder, in the  *)
(*      order the handlers run them; the machine runs them inside the call *)
(*      (PostStep) and the contract covers them: a call that ends while    *)
(*      step s is in progress still has out \in {ok, err} and stays within *)
(*      the resource bound.  The harness must implement exactly this       *)
(*      catalogue (MC_Decode_gen!StepsAgree compares it with the table the *)
(*      harness exports), every End event names the step in progress, and  *)
(*      the trace specification accepts a run only if every step it names  *)
(*      is in the catalogue (and the driver: only if every catalogued step *)
(*      was executed).  The identifier fields of segments get a JOINT      *)
(*      boundary plan (IdentOps: height 0..255 x idx near every 2^k, and   *)
(*      idx * 2^height on the wrap-around boundaries 2^62, 2^63, 2^64),    *)
(*      segment proofs a consistent re-encoding one hash short / long /    *)
(*      empty (ProofOps).                                                  *)
(*                                                                         *)
(* ALLOCATION BOUNDS (bytes live above the level at Begin, on the decoding *)
(* thread).  Fixed after measuring the honest maxima on valid encodings    *)
(* (see evidence/C11.json "honest_max_peak"):                              *)
(*   default            128 KiB + 16 * len                                 *)
(*        the constant covers the documented 100 000-byte single-read cap  *)
(*        of BinReader::read_fixed_bytes (ser.rs), which is allocated      *)
(*        before the bytes are known to exist; the factor covers the       *)
(*        in-memory form of an item (<= ~1.1 x wire) times Vec doubling    *)
(*        and the transient copy of a growing reallocation.                *)
(*   segment readers    1 MiB + 16 * len                                   *)
(*        SEGMENT_READ_PREALLOC_ITEMS (1024) items are pre-allocated       *)
(*        after only 8 bytes per item (the positions) were read: 1024      *)
(*        range proofs are 700 KiB.                                        *)
(*   bitmap segments    4 MiB + 16 * len                                   *)
(*        a bitmap block is a run-length style encoding: 4 bytes can stand *)
(*        for 8 KiB of bits; at most 128 blocks (height <= 13) = 1 MiB,    *)
(*        plus the 8192 chunks of the converted segment.                   *)
(*   Codec::read        largest message the header check admits           *)
(*        (4 * 2 * max_block_size: 61 KiB on AutomatedTesting, 10.3 MiB    *)
(*        on Mainnet; the buffer is reserved when the 11-byte header       *)
(*        arrives) + the bitmap-segment constant.                          *)
(* An over-allocation "by design" inside these constants is NOT flagged;   *)
(* anything driven by an untrusted count or length beyond them is.         *)
(***************************************************************************)
EXTENDS Naturals, Integers, Sequences, FiniteSets, TLC

KiB == 1024
MiB == 1024 * 1024

SegmentDecoders == {"Segment<OutputIdentifier>::read", "Segment<RangeProof>::read", "Segment<TxKernel>::read",
                    "SegmentResponse<RangeProof>::read", "SegmentResponse<TxKernel>::read", "OutputSegmentResponse::read"}
BitmapDecoders  == {"BitmapSegment::read", "OutputBitmapSegmentResponse::read"}
StreamDecoders  == {"Codec::read", "msg::read_message<Hand>", "msg::read_message<Shake>"}
BodyDecoders    == {"TransactionBody::read", "Transaction::read", "Block::read", "UntrustedBlock::read",
                    "CompactBlock::read", "UntrustedCompactBlock::read"}

\* largest message accepted by MsgHeaderWrapper::read: 4 * (2 * max_block_size), max_block_size = weight / 21 * 708
MaxBlockWeight(ct) == IF ct = "main" THEN 40000 ELSE 250
CodecMaxMsg(ct) == 8 * ((MaxBlockWeight(ct) \div 21) * 708)

AllocA(d, ct) ==
    CASE d \in SegmentDecoders -> 1 * MiB
      [] d \in BitmapDecoders  -> 4 * MiB
      [] d = "Codec::read"     -> CodecMaxMsg(ct) + 4 * MiB + 64 * KiB
      [] OTHER                 -> 128 * KiB
AllocB(d, ct) == 16
Bound(d, ct, len) == AllocA(d, ct) + AllocB(d, ct) * len

GoodOutcomes == {"ok", "err"}
AllOutcomes  == GoodOutcomes \cup {"panic", "abort", "hang"}

-----------------------------------------------------------------------------
(* (3) the catalogue of post-decode steps                                   *)
SegSteps == <<"SegmentIdentifier::arith", "Segment::segment_pos_range", "Segment::root", "Segment::first_unpruned_parent",
              "Segment::validate", "Segment::validate_with", "Segment::accessors", "Segment::parts">>
BitmapSteps == <<"BitmapSegment::into_segment">> \o SegSteps \o <<"BitmapAccumulator::append_chunk", "BitmapSegment::from<Segment>">>
SegReqSteps == <<"SegmentIdentifier::arith", "Segment::from_pmmr">>
TxSteps == <<"Transaction::validate_read", "Transaction::hash", "Transaction::fees", "Inputs::conversions", "TxKernel::verify",
             "Transaction::validate">>
HeaderSteps == <<"BlockHeader::accessors", "ProofOfWork::to_difficulty">>
BlockSteps == <<"Block::validate_read", "Block::hash">> \o HeaderSteps \o
              <<"Block::total_fees", "Inputs::conversions", "Block::verify_coinbase", "Block::validate", "CompactBlock::from<Block>">>
CompactSteps == <<"CompactBlock::accessors">> \o HeaderSteps \o <<"Block::hydrate_from", "Block::validate">>
MerkleSteps == <<"MerkleProof::verify", "MerkleProof::to_hex">>
\* Protocol::consume dispatches on the message type: Codec::read is followed by the steps of whatever it delivered
CodecSteps == <<"Message::fmt">> \o TxSteps \o <<"UntrustedBlock::into<Block>", "Block::validate_read", "Block::hash">> \o HeaderSteps \o
              <<"Block::total_fees", "Block::verify_coinbase", "Block::validate", "CompactBlock::from<Block>",
                "UntrustedCompactBlock::into<CompactBlock>", "CompactBlock::accessors", "Block::hydrate_from",
                "UntrustedBlockHeader::into<BlockHeader>", "Locator::accessors", "PeerAddrs::accessors",
                "TxHashSetArchive::attachment_meta", "SegmentIdentifier::arith", "Segment::from_pmmr", "BitmapSegment::into_segment",
                "Segment::segment_pos_range", "Segment::root", "Segment::first_unpruned_parent", "Segment::validate",
                "Segment::validate_with", "Segment::accessors", "Segment::parts", "BitmapAccumulator::append_chunk",
                "BitmapSegment::from<Segment>">>

PostSteps(d) ==
    CASE d \in SegmentDecoders -> SegSteps
      [] d \in BitmapDecoders  -> BitmapSteps
      [] d \in {"SegmentRequest::read", "SegmentIdentifier::read"} -> SegReqSteps
      [] d \in {"Transaction::read", "api::push_tx_hex", "json::Transaction"} -> TxSteps
      [] d = "TransactionBody::read" -> <<"TransactionBody::validate_read">>
      [] d = "TxKernel::read" -> <<"TxKernel::verify", "TxKernel::accessors">>
      [] d = "BlockHeader::read" -> HeaderSteps
      [] d = "UntrustedBlockHeader::read" -> <<"UntrustedBlockHeader::into<BlockHeader>">> \o HeaderSteps
      [] d = "Block::read" -> BlockSteps
      [] d = "UntrustedBlock::read" -> <<"UntrustedBlock::into<Block>">> \o BlockSteps
      [] d = "CompactBlock::read" -> CompactSteps
      [] d = "UntrustedCompactBlock::read" -> <<"UntrustedCompactBlock::into<CompactBlock>">> \o CompactSteps
      [] d \in {"MerkleProof::read", "MerkleProof::from_hex"} -> MerkleSteps
      [] d = "SegmentProof::read" -> <<"SegmentProof::reconstruct_root", "SegmentProof::validate", "SegmentProof::validate_with">>
      [] d \in {"Hand::read", "msg::read_message<Hand>"} -> <<"Hand::accessors">>
      [] d \in {"Shake::read", "msg::read_message<Shake>"} -> <<"Shake::accessors">>
      [] d = "PeerAddrs::read" -> <<"PeerAddrs::accessors">>
      [] d = "PeerAddr::read" -> <<"PeerAddr::as_key">>
      [] d = "Locator::read" -> <<"Locator::accessors">>
      [] d = "TxHashSetArchive::read" -> <<"TxHashSetArchive::attachment_meta">>
      [] d = "util::from_hex" -> <<"Commitment::from_vec", "Hash::from_vec">>
      [] d = "Codec::read" -> CodecSteps
      [] OTHER -> <<>>
StepSet(d) == {PostSteps(d)[i] : i \in 1..Len(PostSteps(d))}
StepName(d, i) == IF i = 0 THEN "" ELSE PostSteps(d)[i]

-----------------------------------------------------------------------------
(* (1) the protocol machine                                                *)
CONSTANTS ModelDecoders,   \* decoder names used by the bounded model
          ModelLens,       \* input lengths used by the bounded model
          Env              \* outcomes the modelled decoder may produce: GoodOutcomes = the contract

VARIABLES phase,   \* "idle" | "call" | "stream"
          cur,     \* [dec, ct, ver, len] of the call in progress
          used,    \* bytes consumed so far by the call in progress
          reads,   \* stream decoders: messages delivered so far by the call in progress
          pstep,   \* index in PostSteps(cur.dec) of the post-decode step in progress (0: the decoder itself is running)
          last     \* outcome record of the last finished call

vars == <<phase, cur, used, reads, pstep, last>>

NoCall == [dec |-> "-", ct |-> "auto", ver |-> 0, len |-> 0]
NoLast == [out |-> "ok", used |-> 0, reads |-> 0, peak |-> 0, len |-> 0, dec |-> "-", ct |-> "auto", step |-> ""]

Init == phase = "idle" /\ cur = NoCall /\ used = 0 /\ reads = 0 /\ pstep = 0 /\ last = NoLast

Begin(d, ct, v, len) ==
    /\ phase = "idle"
    /\ phase' = IF d \in StreamDecoders THEN "stream" ELSE "call"
    /\ cur' = [dec |-> d, ct |-> ct, ver |-> v, len |-> len]
    /\ used' = 0 /\ reads' = 0 /\ pstep' = 0
    /\ UNCHANGED last

\* the decoder returned a value (a stream decoder: delivered a message) and the handler runs its next unconditional step on it
PostStep ==
    /\ phase \in {"call", "stream"}
    /\ pstep < Len(PostSteps(cur.dec))
    /\ pstep' = pstep + 1
    /\ UNCHANGED <<phase, cur, used, reads, last>>

\* one delivered message of a stream decoder: it consumed n bytes.  The contract demands n >= 1.
Read(n) ==
    /\ phase = "stream"
    /\ n \in 0..(cur.len - used)
    /\ (Env = GoodOutcomes => n >= 1)
    /\ used' = used + n /\ reads' = reads + 1
    /\ pstep' = 0                          \* the steps start over on the message just delivered
    /\ UNCHANGED <<phase, cur, last>>

End(out, n, peak) ==
    /\ phase \in {"call", "stream"}
    /\ out \in Env
    /\ n \in 0..(cur.len - used)          \* bytes consumed by the final (failing or only) step
    /\ last' = [out |-> out, used |-> used + n, reads |-> reads, peak |-> peak, len |-> cur.len, dec |-> cur.dec, ct |-> cur.ct,
                 step |-> StepName(cur.dec, pstep)]   \* the call ended (returned, or panicked / aborted / hung) in this step
    /\ phase' = "idle" /\ cur' = NoCall /\ used' = 0 /\ reads' = 0 /\ pstep' = 0

PeakChoices(d, ct, len) == {0, Bound(d, ct, len)} \cup (IF Env = GoodOutcomes THEN {} ELSE {Bound(d, ct, len) + 1})

Next ==
    \/ \E d \in ModelDecoders, len \in ModelLens : Begin(d, "auto", 1, len)
    \/ \E n \in 0..3 : Read(n)
    \/ PostStep
    \/ \E out \in AllOutcomes, n \in 0..3 : \E p \in PeakChoices(cur.dec, cur.ct, cur.len) : End(out, n, p)

Spec == Init /\ [][Next]_vars

\* ---- the contract, as state predicates on the last finished call
OutcomeOK    == last.out \in GoodOutcomes
ConsumedOK   == last.used <= last.len
AllocBounded == last.peak <= Bound(last.dec, last.ct, last.len)
\* per-step progress (every Read consumed >= 1 byte) implies: a stream is read at most `used` <= len times
Progress     == last.reads <= last.used
InCallOK     == (phase = "stream" => reads <= used /\ used <= cur.len) /\ (phase = "idle" => used = 0 /\ reads = 0 /\ pstep = 0)
\* a call ends in the decoder itself or in one of the catalogued steps of that decoder
StepKnown    == last.step = "" \/ last.step \in StepSet(last.dec)

\* the same contract as an operator on a logged call, used by the trace specification
CallOK(d, ct, len, out, consumed, nreads, peak, step) ==
    /\ out \in GoodOutcomes
    /\ (step = "" \/ step \in StepSet(d))
    /\ consumed <= len
    /\ peak <= Bound(d, ct, len)
    /\ (d \in StreamDecoders => nreads <= consumed)

-----------------------------------------------------------------------------
(* (2) the mutation-plan generator over abstract layouts                    *)
(* A layout is [id, dec, ct, len, kinds: Seq(kind), w: Seq(width in bytes)] *)
(* kinds: "u8" "u16" "u32" "u64" integers; "len" the u64 length prefix of   *)
(* write_bytes; "b" raw bytes; "z" reserved zero bytes.                     *)
(* A value is [e, d] meaning 2^e + d (e = -1: just d), so that 2^63 and     *)
(* 2^64 - 1 never have to be computed by TLC (32-bit integers).             *)
IntKinds == {"u8", "u16", "u32", "u64", "len"}
\* value tokens of a JSON text (API parameters): "js" a string with its quotes, "jn" a number / literal.  Each is replaced
\* by the value classes 0..JsonClasses-1 (empty / odd-length / non-hex / non-ASCII / doubled / huge hex string, null,
\* negative, 0, 2^64-1, 2^64, 1e400, array, object, boolean, numeric string, one hex byte, lone surrogate escape).
JsonKinds == {"js", "jn"}
JsonClasses == 20
V(e, d) == [op |-> "set", e |-> e, d |-> d]
Lit(n) == V(-1, n)

\* limits enforced (or that ought to be enforced) by the readers of a decoder
Limits(d, ct) ==
    {100000, 1000000}        \* ser.rs: read_fixed_bytes cap, read_multi / MAX_SEGMENT_READ_ITEMS cap
    \cup (IF d = "PeerAddrs::read" \/ d = "Codec::read" THEN {256} ELSE {})                   \* MAX_PEER_ADDRS
    \cup (IF d = "Locator::read" \/ d = "Codec::read" THEN {20} ELSE {})                      \* MAX_LOCATORS
    \cup (IF d = "Codec::read" THEN {512} ELSE {})                                            \* MAX_BLOCK_HEADERS
    \cup (IF d \in BodyDecoders \/ d = "Codec::read"
          THEN {MaxBlockWeight(ct), MaxBlockWeight(ct) \div 21, MaxBlockWeight(ct) \div 3} ELSE {})  \* weight_by_iok
    \cup (IF d \in {"RangeProof::read", "Output::read"} \cup BodyDecoders \cup SegmentDecoders THEN {675} ELSE {})  \* MAX_PROOF_SIZE
    \cup (IF d \in SegmentDecoders \cup BitmapDecoders \cup {"SegmentProof::read", "Codec::read"} THEN {1024} ELSE {})  \* SEGMENT_READ_PREALLOC_ITEMS
    \cup (IF d \in BitmapDecoders THEN {13, 64, 128, 4096, 8192} ELSE {})                     \* bitmap_accumulator.rs

Around(ls) == UNION {{Lit(l - 1), Lit(l), Lit(l + 1)} : l \in ls}

\* boundary and huge values of the property's quantifier, as far as they fit in w bytes
ValueClasses(w, ls) ==
    LET fits(l) == (w = 1 /\ l < 255) \/ (w = 2 /\ l < 65535) \/ w >= 4
    IN  {Lit(0), Lit(1)} \cup Around({l \in ls : fits(l)})
        \cup (CASE w = 1 -> {Lit(2), Lit(3), Lit(4), Lit(127), Lit(128), Lit(254), Lit(255)}
                [] w = 2 -> {Lit(255), Lit(256), V(15, -1), V(15, 0), V(16, -2), V(16, -1)}
                [] w = 4 -> {V(16, -1), V(16, 0), V(31, -1), V(31, 0), V(32, -2), V(32, -1)}
                [] OTHER -> {V(16, 0), V(31, 0), V(32, -1), V(32, 0), V(63, -1), V(63, 0), V(64, -2), V(64, -1)})

\* rank of field i among the u8 fields of the layout (tag sweep budget)
U8Rank(lay, i) == Cardinality({j \in 1..i : lay.kinds[j] = "u8"})

\* mutation classes of field i of layout lay; donor = the layout spliced from
FieldOps(lay, i, donor, sweepFirst) ==
    LET k == lay.kinds[i]
        j == ((i * 5) % Len(donor.kinds)) + 1
    IN  (IF k \in IntKinds THEN ValueClasses(lay.w[i], Limits(lay.dec, lay.ct)) ELSE {})
        \cup (IF k \in JsonKinds THEN {[op |-> "json", k |-> n] : n \in 0..(JsonClasses - 1)} ELSE {})
        \cup (IF k = "u8" /\ U8Rank(lay, i) <= sweepFirst THEN {[op |-> "sweep"]} ELSE {})
        \cup {[op |-> "trunc"], [op |-> "drop"], [op |-> "dup"],
              [op |-> "splice", from |-> donor.id, g |-> j, mode |-> "replace"],
              [op |-> "splice", from |-> donor.id, g |-> j, mode |-> "insert"]}

\* Joint boundary plan of a segment identifier (layout fields ih: height u8, ii: idx u64; 0 = the layout has none).
\* The handlers compute idx * 2^height (leaf offset), 2 * offset (MMR position), offset + 2^height - 1 in wrapping release
\* arithmetic: heights 0..255 (256 = keep the valid one) against a few idx values; every idx within 1 of a power of two
\* against the heights around the limits of the readers; and idx chosen so that idx * 2^height is within 2^height of
\* 2^62, 2^63, 2^64.  The harness expands the cross products.
Keep == V(-2, 0)
Pow2Near == {V(k, dd) : k \in 0..63, dd \in {-1, 0, 1}}
IdentOps(lay) ==
    IF lay.ih = 0 THEN {}
    ELSE {[op |-> "ident", g |-> lay.ii, hs |-> {h \in 0..256 : TRUE}, vs |-> {Lit(0), Lit(1), Keep, V(62, 0), V(63, 0), V(64, -1)}],
          [op |-> "ident", g |-> lay.ii, hs |-> {0, 1, 2, 13, 14, 63, 64, 256}, vs |-> Pow2Near \cup {Lit(0), V(64, -2), V(64, -1)}],
          [op |-> "identprod", g |-> lay.ii, es |-> {62, 63, 64}, hs |-> {h \in 0..63 : TRUE}, ds |-> {-1, 0, 1}]}
\* a segment proof (layout field pf: its hash count; 0 = none) re-encoded one hash short, one hash long, empty
ProofOps(lay) == IF lay.pf = 0 THEN {} ELSE {[op |-> "proof", deltas |-> {-1, 0, 1}]}
IdentOK(lay) ==
    /\ lay.ih > 0 => /\ lay.ih \in 1..Len(lay.kinds) /\ lay.ii \in 1..Len(lay.kinds)
                     /\ lay.kinds[lay.ih] = "u8" /\ lay.kinds[lay.ii] = "u64"
    /\ lay.pf > 0 => lay.pf \in 1..Len(lay.kinds) /\ lay.kinds[lay.pf] = "u64"

\* fields mutated in a long layout (index lists of thousands of u16): the head, the tail, and a sample
FieldsOf(lay, maxFields) ==
    LET n == Len(lay.kinds)
    IN  IF n <= maxFields THEN 1..n
        ELSE (1..(maxFields - 16)) \cup ((n - 7)..n) \cup {i \in 1..n : i % 211 = 0 /\ i <= 211 * 8}

\* a plan is well formed if it names an existing field and a value that fits the field
PlanOK(lay, i, ops) ==
    /\ i \in 1..Len(lay.kinds)
    /\ \A o \in ops : o.op = "set" => (lay.kinds[i] \in IntKinds /\ (o.e >= 8 * lay.w[i] => (o.e = 8 * lay.w[i] /\ o.d < 0)))
    /\ \A o \in ops : o.op = "sweep" => lay.kinds[i] = "u8"
    /\ \A o \in ops : o.op = "json" => lay.kinds[i] \in JsonKinds /\ o.k \in 0..(JsonClasses - 1)
=============================================================================
