------------------------------- MODULE Decode -------------------------------
(***************************************************************************)
(* Property C11: feeding arbitrary bytes to any decoder reachable from the *)
(* network or the API yields a value or an error - never a panic, an       *)
(* abort, a hang, or an allocation beyond a small multiple of the input.   *)
(*                                                                         *)
(* HONEST SCOPE.  A TLA+ specification cannot enumerate byte strings.      *)
(* This module contributes exactly two things:                             *)
(*                                                                         *)
(*  (1) the CALL PROTOCOL AND RESOURCE CONTRACT every decoder call must    *)
(*      satisfy, as a small state machine                                  *)
(*          Idle --Begin(d, v, len)--> InCall --End(out, used, peak)--> Idle*)
(*      with out \in {ok, err}, used <= len, peak <= A(d) + B(d) * len,    *)
(*      and for decoders that loop over a stream (Codec::read,             *)
(*      msg::read_message) one Read step per delivered message, each of    *)
(*      which must consume at least one byte (progress).  TLC checks on    *)
(*      the machine that per-step progress bounds the number of reads by   *)
(*      the bytes consumed (so a stream of len bytes cannot be read more   *)
(*      than len times: no livelock), and the trace specification          *)
(*      spec/trace/DecodeTrace.tla accepts an execution recorded from the  *)
(*      real decoders only if every call is a behaviour of this machine.   *)
(*                                                                         *)
(*  (2) the STRUCTURE-AWARE MUTATION GENERATOR.  The harness exports the   *)
(*      abstract layout (sequence of field kinds and widths, recorded from *)
(*      the repository's own encoders) of every valid encoding; the        *)
(*      operators below enumerate, per layout and field, the mutation      *)
(*      classes of the property's quantifier: every integer field set to   *)
(*      0, 1, the decoder's limits -1/+0/+1, 2^16, 2^32-1, 2^63, 2^64-1    *)
(*      (as far as the width allows), tag bytes swept over 0..255,         *)
(*      truncation at every field boundary (and at every offset), a field  *)
(*      dropped, duplicated, or replaced by / preceded with a field        *)
(*      spliced from another message.  spec/mc/MC_Decode_gen enumerates    *)
(*      them with TLC and prints one plan per (layout, field).             *)
(*                                                                         *)
(*      LARGE INPUTS (same part, further plans): a repeated group          *)
(*      re-encoded with a limit's worth of verbatim copies of its first    *)
(*      item, also with a boundary value in every copy (RepeatOps); many    *)
(*      VALID items built by the real encoders at half / at / one over the  *)
(*      limits of both chain types (BigCounts); a block header moved to     *)
(*      every hard-fork boundary x header version x edge_bits class with    *)
(*      re-packed nonces (EraOps); a frame's announced length set to the    *)
(*      boundary of what its type admits, the body present (FrameLenOps);   *)
(*      JSON arrays of 0 .. 100 000 elements.                               *)
(*                                                                         *)
(*  (3) the CATALOGUE OF POST-DECODE STEPS.  A decoder returning Ok is not   *)
(*      the end of the untrusted path: the message handlers                *)
(*      (p2p/src/protocol.rs `consume`, servers/src/common/adapters.rs,    *)
(*      chain/src/pipe.rs up to the first store access, the desegmenter's  *)
(*      add_*_segment, the pool's add_to_pool up to the first chain        *)
(*      access, the API handlers) apply conversions, accessors and         *)
(*      stateless checks to the freshly decoded value unconditionally,     *)
(*      before anything has been validated (`BitmapSegment::into_segment`  *)
(*      on every OutputBitmapSegment, `UntrustedBlock -> Block`,           *)
(*      `Block::hydrate_from`, `Segment::validate`, identifier arithmetic, *)
(*      fee arithmetic ...).  PostSteps(d) lists them per decoder, in the  *)
(*      order the handlers run them; the machine runs them inside the call *)
(*      (PostStep) and the contract covers them: a call that ends while    *)
(*      step s is in progress still has out \in {ok, err} and stays within *)
(*      the resource bound.  The harness must implement exactly this       *)
(*      catalogue (MC_Decode_gen!StepsAgree compares it with the table the *)
(*      harness exports), every End event names the step in progress, and  *)
(*      the trace specification accepts a run only if every step it names  *)
(*      is in the catalogue (and the driver: only if every catalogued step *)
(*      was executed).  The identifier fields of segments get a JOINT      *)
(*      boundary plan (IdentOps: height 0..255 x idx near every 2^k, and   *)
(*      idx * 2^height on the wrap-around boundaries 2^62, 2^63, 2^64),    *)
(*      segment proofs a consistent re-encoding one hash short / long /    *)
(*      empty (ProofOps).                                                  *)
(*                                                                         *)
(* ALLOCATION BOUNDS (bytes live above the level at Begin, on the decoding *)
(* thread).  Fixed after measuring the honest maxima on valid encodings    *)
(* (see evidence/C11.json "honest_max_peak"):                              *)
(*   default            128 KiB + 16 * len                                 *)
(*        the constant covers the documented 100 000-byte single-read cap  *)
(*        of BinReader::read_fixed_bytes (ser.rs), which is allocated      *)
(*        before the bytes are known to exist; the factor covers the       *)
(*        in-memory form of an item (<= ~1.1 x wire) times Vec doubling    *)
(*        and the transient copy of a growing reallocation.                *)
(*   segment readers    1 MiB + 16 * len                                   *)
(*        SEGMENT_READ_PREALLOC_ITEMS (1024) items are pre-allocated       *)
(*        after only 8 bytes per item (the positions) were read: 1024      *)
(*        range proofs are 700 KiB.                                        *)
(*   bitmap segments    4 MiB + 16 * len                                   *)
(*        a bitmap block is a run-length style encoding: 4 bytes can stand *)
(*        for 8 KiB of bits; at most 128 blocks (height <= 13) = 1 MiB,    *)
(*        plus the 8192 chunks of the converted segment.                   *)
(*   Codec::read        largest message the header check admits           *)
(*        (4 * 2 * max_block_size: 61 KiB on AutomatedTesting, 10.3 MiB    *)
(*        on Mainnet; the buffer is reserved when the 11-byte header       *)
(*        arrives) + the bitmap-segment constant.                          *)
(* An over-allocation "by design" inside these constants is NOT flagged;   *)
(* anything driven by an untrusted count or length beyond them is.         *)
(*                                                                         *)
(* REFINEMENTS OF THE BOUNDS (derived from the decoders' own limits).       *)
(*   DecA(d)  a call that the DECODER ITSELF refused (out = err, no         *)
(*        post-decode step ran) is held to the decoder-only constant:       *)
(*        fixed-size decoders 8 KiB; PeerAddrs MAX_PEER_ADDRS * 32 B;       *)
(*        Locator MAX_LOCATORS * 32 B; bitmap segments 128 blocks of        *)
(*        64 chunks = 1 MiB (+ 128 KiB): the 4 MiB constant is for the      *)
(*        conversion and validation of a segment that decoded.              *)
(*   Codec::read, per frame.  MsgLimit(t) is the table max_msg_size of      *)
(*        p2p/src/msg.rs; the header check admits FrameAdmit(t) = 4 *       *)
(*        MsgLimit(t) bytes.  A call whose first frame header announces     *)
(*        more must consume exactly the 11 header bytes, deliver nothing,   *)
(*        and stay within 64 KiB; while only the first frame has been       *)
(*        worked on (consumed < announced + 22) the call is bounded by      *)
(*        min(announced, FrameAdmit(t)) + the constant of that body's       *)
(*        decoder + 64 KiB (+ 16 * len).                                    *)
(*   Serving a Get*Segment request.  The response is built by design and    *)
(*        its memory is not charged to the 41-byte request; instead         *)
(*        ServeOK demands that a FULL segment of every admitted identifier  *)
(*        height fits the frame limit of its response on Mainnet            *)
(*        (2^height * bytes per leaf <= MsgLimit(response)), and that the   *)
(*        response actually built does.                                     *)
(***************************************************************************)
EXTENDS Naturals, Integers, Sequences, FiniteSets, TLC

KiB == 1024
MiB == 1024 * 1024

SegmentDecoders == {"Segment<OutputIdentifier>::read", "Segment<RangeProof>::read", "Segment<TxKernel>::read",
                    "SegmentResponse<RangeProof>::read", "SegmentResponse<TxKernel>::read", "OutputSegmentResponse::read"}
BitmapDecoders  == {"BitmapSegment::read", "OutputBitmapSegmentResponse::read"}
StreamDecoders  == {"Codec::read", "msg::read_message<Hand>", "msg::read_message<Shake>"}
BodyDecoders    == {"TransactionBody::read", "Transaction::read", "Block::read", "UntrustedBlock::read",
                    "CompactBlock::read", "UntrustedCompactBlock::read"}

\* chain types: "auto" (AutomatedTesting), "main" (Mainnet), "test" (Testnet: Mainnet's limits, own magic and fork heights)
ChainTypes == {"auto", "main", "test"}
\* largest message accepted by MsgHeaderWrapper::read: 4 * (2 * max_block_size), max_block_size = weight / 21 * 708
MaxBlockWeight(ct) == IF ct \in {"main", "test"} THEN 40000 ELSE 250
MaxBlockSize(ct) == (MaxBlockWeight(ct) \div 21) * 708
CodecMaxMsg(ct) == 8 * MaxBlockSize(ct)

\* limit constants of the readers (p2p/src/msg.rs, core/src/ser.rs, core/src/core/pmmr/segment.rs, bitmap_accumulator.rs)
MaxPeerAddrs == 256
MaxLocators == 20
MaxBlockHeaders == 512
BitmapMaxBlocks == 128       \* segment height 13: 2^13 chunks / 64 chunks per block
BitmapBlockBytes == 8 * KiB  \* 64 chunks of 1024 bits

\* p2p/src/msg.rs max_msg_size, by message type number (enum Type); anything else is an unknown type
MsgTypes == 0..28
UnknownType == 29
MsgLimit(t, ct) ==
    CASE t = 0 -> 0                                   \* Error
      [] t = 1 -> 128                                 \* Hand
      [] t = 2 -> 88                                  \* Shake
      [] t \in {3, 4} -> 16                           \* Ping, Pong
      [] t = 5 -> 4                                   \* GetPeerAddrs
      [] t = 6 -> 4 + (1 + 16 + 2) * MaxPeerAddrs     \* PeerAddrs
      [] t = 7 -> 1 + 32 * MaxLocators                \* GetHeaders
      [] t = 8 -> 365                                 \* Header
      [] t = 9 -> 2 + 365 * MaxBlockHeaders           \* Headers
      [] t \in {10, 12, 19, 20} -> 32                 \* GetBlock, GetCompactBlock, GetTransaction, TransactionKernel
      [] t \in {11, 14, 15} -> MaxBlockSize(ct)       \* Block, StemTransaction, Transaction
      [] t = 13 -> MaxBlockSize(ct) \div 10           \* CompactBlock
      [] t = 16 -> 40                                 \* TxHashSetRequest
      [] t \in {17, 18} -> 64                         \* TxHashSetArchive, BanReason
      [] t \in {21, 23, 25, 27} -> 41                 \* Get*Segment
      [] t \in {22, 24, 26, 28} -> 2 * MaxBlockSize(ct)   \* *Segment
      [] OTHER -> MaxBlockSize(ct)                    \* unknown type: default_max_msg_size
TypeClass(t) == IF t \in MsgTypes THEN t ELSE UnknownType
FrameAdmit(t, ct) == 4 * MsgLimit(TypeClass(t), ct)
MaxFrameAdmit(ct) == CodecMaxMsg(ct)
FrameHeaderLen == 11

AllocA(d, ct) ==
    CASE d \in SegmentDecoders -> 1 * MiB
      [] d \in BitmapDecoders  -> 4 * MiB
      [] d = "Codec::read"     -> CodecMaxMsg(ct) + 4 * MiB + 64 * KiB
      [] OTHER                 -> 128 * KiB
\* (stratum requests are parsed into a free-form JSON tree, 32 bytes per value and twice that while its vector grows)
AllocB(d, ct) == IF d = "stratum::submit" THEN 64 ELSE 16
Bound(d, ct, len) == AllocA(d, ct) + AllocB(d, ct) * len

\* decoders that read a fixed number of bytes and no length-prefixed field
FixedDecoders == {"Hash::read", "ShortId::read", "KernelFeatures::read", "TxKernel::read", "Input::read", "CommitWrapper::read",
                  "OutputIdentifier::read", "BlockHeader::read", "UntrustedBlockHeader::read", "Proof::read", "ProofOfWork::read",
                  "SegmentIdentifier::read", "MsgHeaderWrapper::read", "Ping::read", "Pong::read", "GetPeerAddrs::read",
                  "PeerAddr::read", "BanReason::read", "TxHashSetRequest::read", "TxHashSetArchive::read", "SegmentRequest::read"}
\* the decoder-only constant: a call the decoder itself refused never ran a post-decode step
DecA(d, ct) ==
    CASE d \in FixedDecoders     -> 8 * KiB
      [] d = "PeerAddrs::read"   -> MaxPeerAddrs * 32 + 4 * KiB
      [] d = "Locator::read"     -> MaxLocators * 32 + 4 * KiB
      [] d \in BitmapDecoders    -> BitmapMaxBlocks * BitmapBlockBytes + 128 * KiB
      [] OTHER                   -> AllocA(d, ct)
\* constant of the decoder (and post-decode steps) of the body of a frame of type t
FrameBodyA(t) ==
    CASE t = 22 -> 4 * MiB
      [] t \in {24, 26, 28} -> 1 * MiB
      [] OTHER -> 128 * KiB
Min(a, b) == IF a <= b THEN a ELSE b
\* fr = [ty, len]: type and announced length of the first frame header of a Codec::read input (ty = -1: there is none)
NoFrame == [ty |-> -1, len |-> 0]
FrameRefused(ct, fr) == fr.ty >= 0 /\ fr.len > FrameAdmit(fr.ty, ct)
FirstFrameOnly(fr, consumed) == fr.ty >= 0 /\ consumed < fr.len + 2 * FrameHeaderLen
CodecBound(ct, len, fr, consumed) ==
    IF FrameRefused(ct, fr) THEN 64 * KiB + 16 * len
    ELSE IF FirstFrameOnly(fr, consumed)
         THEN Min(fr.len, FrameAdmit(fr.ty, ct)) + FrameBodyA(fr.ty) + 64 * KiB + 16 * len
         ELSE Bound("Codec::read", ct, len)
\* the allocation bound of one finished call
CallBound(d, ct, len, fr, out, consumed) ==
    IF d = "Codec::read" THEN CodecBound(ct, len, fr, consumed)
    ELSE IF out = "err" THEN DecA(d, ct) + AllocB(d, ct) * len
    ELSE Bound(d, ct, len)

\* ---- serving Get*Segment: bytes of one leaf on the wire (position + smallest item; a bitmap chunk: 128 raw bytes)
ServeKinds == {"kernel", "bitmap", "output", "rangeproof"}
ServeLeafBytes(k) == CASE k = "kernel" -> 8 + 98 [] k = "bitmap" -> 128 [] k = "output" -> 8 + 34 [] OTHER -> 8 + 683
ServeLimit == 2 * MaxBlockSize("main")
Pow2(n) == 2 ^ n
ServeOK(kind, h, resp) ==
    /\ kind \in ServeKinds
    /\ h < 22
    /\ Pow2(h) * ServeLeafBytes(kind) <= ServeLimit
    /\ resp <= ServeLimit

GoodOutcomes == {"ok", "err"}
AllOutcomes  == GoodOutcomes \cup {"panic", "abort", "hang"}

-----------------------------------------------------------------------------
(* (3) the catalogue of post-decode steps                                   *)
SegSteps == <<"SegmentIdentifier::arith", "Segment::segment_pos_range", "Segment::root", "Segment::first_unpruned_parent",
              "Segment::validate", "Segment::validate_with", "Segment::accessors", "Segment::parts">>
BitmapSteps == <<"BitmapSegment::into_segment">> \o SegSteps \o <<"BitmapAccumulator::append_chunk", "BitmapSegment::from<Segment>">>
SegReqSteps == <<"SegmentIdentifier::arith", "Segment::from_pmmr">>
\* "hooks::webhook_payload": servers/src/common/hooks.rs WebHook::on_{transaction,block,header}_received build and serialise
\* json!({"hash": .., "peer": .., "data": <the value>}) of a value that has not been validated yet (adapters.rs:
\* transaction_received, compact_block_received after hydration, header_received)
TxSteps == <<"Transaction::validate_read", "Transaction::hash", "hooks::webhook_payload", "Transaction::fees", "Inputs::conversions", "TxKernel::verify",
             "Transaction::validate">>
HeaderSteps == <<"BlockHeader::accessors", "ProofOfWork::to_difficulty">>
BlockSteps == <<"Block::validate_read", "Block::hash">> \o HeaderSteps \o
              <<"Block::total_fees", "Inputs::conversions", "Block::verify_coinbase", "Block::validate", "CompactBlock::from<Block>">>
CompactSteps == <<"CompactBlock::accessors">> \o HeaderSteps \o <<"Block::hydrate_from", "hooks::webhook_payload", "Block::validate">>
MerkleSteps == <<"MerkleProof::verify", "MerkleProof::to_hex">>
\* Protocol::consume dispatches on the message type: Codec::read is followed by the steps of whatever it delivered
CodecSteps == <<"Message::fmt">> \o TxSteps \o <<"UntrustedBlock::into<Block>", "Block::validate_read", "Block::hash">> \o HeaderSteps \o
              <<"Block::total_fees", "Block::verify_coinbase", "Block::validate", "CompactBlock::from<Block>",
                "UntrustedCompactBlock::into<CompactBlock>", "CompactBlock::accessors", "Block::hydrate_from",
                "UntrustedBlockHeader::into<BlockHeader>", "Locator::accessors", "PeerAddrs::accessors",
                "TxHashSetArchive::attachment_meta", "SegmentIdentifier::arith", "Segment::from_pmmr", "BitmapSegment::into_segment",
                "Segment::segment_pos_range", "Segment::root", "Segment::first_unpruned_parent", "Segment::validate",
                "Segment::validate_with", "Segment::accessors", "Segment::parts", "BitmapAccumulator::append_chunk",
                "BitmapSegment::from<Segment>">>

PostSteps(d) ==
    CASE d \in SegmentDecoders -> SegSteps
      [] d \in BitmapDecoders  -> BitmapSteps
      [] d \in {"SegmentRequest::read", "SegmentIdentifier::read"} -> SegReqSteps
      [] d \in {"Transaction::read", "api::push_tx_hex", "json::Transaction"} -> TxSteps
      [] d = "TransactionBody::read" -> <<"TransactionBody::validate_read">>
      [] d = "TxKernel::read" -> <<"TxKernel::verify", "TxKernel::accessors">>
      [] d = "BlockHeader::read" -> HeaderSteps \o <<"hooks::webhook_payload">>
      [] d = "UntrustedBlockHeader::read" -> <<"UntrustedBlockHeader::into<BlockHeader>">> \o HeaderSteps \o <<"hooks::webhook_payload">>
      [] d = "Block::read" -> BlockSteps
      [] d = "UntrustedBlock::read" -> <<"UntrustedBlock::into<Block>">> \o BlockSteps
      [] d = "CompactBlock::read" -> CompactSteps
      [] d = "UntrustedCompactBlock::read" -> <<"UntrustedCompactBlock::into<CompactBlock>">> \o CompactSteps
      [] d \in {"MerkleProof::read", "MerkleProof::from_hex"} -> MerkleSteps
      [] d = "SegmentProof::read" -> <<"SegmentProof::reconstruct_root", "SegmentProof::validate", "SegmentProof::validate_with">>
      [] d \in {"Hand::read", "msg::read_message<Hand>"} -> <<"Hand::accessors">>
      [] d \in {"Shake::read", "msg::read_message<Shake>"} -> <<"Shake::accessors">>
      [] d = "PeerAddrs::read" -> <<"PeerAddrs::accessors">>
      [] d = "PeerAddr::read" -> <<"PeerAddr::as_key">>
      [] d = "Locator::read" -> <<"Locator::accessors">>
      [] d = "TxHashSetArchive::read" -> <<"TxHashSetArchive::attachment_meta">>
      [] d = "util::from_hex" -> <<"Commitment::from_vec", "Hash::from_vec">>
      \* servers/src/mining/stratumserver.rs: the params of a "submit" request go to Handler::handle_submit (parameter parsing,
      \* header reconstruction from the submitted nonce / edge_bits / cycle, share difficulty, verify_size)
      [] d = "stratum::submit" -> <<"stratum::handle_submit">>
      [] d = "Codec::read" -> CodecSteps
      [] OTHER -> <<>>
StepSet(d) == {PostSteps(d)[i] : i \in 1..Len(PostSteps(d))}
StepName(d, i) == IF i = 0 THEN "" ELSE PostSteps(d)[i]

-----------------------------------------------------------------------------
(* (1) the protocol machine                                                *)
CONSTANTS ModelDecoders,   \* decoder names used by the bounded model
          ModelLens,       \* input lengths used by the bounded model
          Env              \* outcomes the modelled decoder may produce: GoodOutcomes = the contract

\* first frame headers used by the bounded model for Codec::read: none, a Ping frame at / over its admitted length
ModelFrames(d) == IF d = "Codec::read" THEN {NoFrame, [ty |-> 3, len |-> 64], [ty |-> 3, len |-> 65]} ELSE {NoFrame}
\* segment requests admitted by the serving step of the bounded model (Env = the contract: only those within ServeOK)
ModelServed == {<<>>, <<[kind |-> "kernel", h |-> 13, resp |-> 1000]>>, <<[kind |-> "kernel", h |-> 40, resp |-> 1000]>>}

VARIABLES phase,   \* "idle" | "call" | "stream"
          cur,     \* [dec, ct, ver, len] of the call in progress
          used,    \* bytes consumed so far by the call in progress
          reads,   \* stream decoders: messages delivered so far by the call in progress
          pstep,   \* index in PostSteps(cur.dec) of the post-decode step in progress (0: the decoder itself is running)
          last     \* outcome record of the last finished call

vars == <<phase, cur, used, reads, pstep, last>>

NoCall == [dec |-> "-", ct |-> "auto", ver |-> 0, len |-> 0, fr |-> NoFrame]
NoLast == [out |-> "ok", used |-> 0, reads |-> 0, peak |-> 0, len |-> 0, dec |-> "-", ct |-> "auto", step |-> "", fr |-> NoFrame, served |-> <<>>]

Init == phase = "idle" /\ cur = NoCall /\ used = 0 /\ reads = 0 /\ pstep = 0 /\ last = NoLast

Begin(d, ct, v, len, fr) ==
    /\ phase = "idle"
    /\ phase' = IF d \in StreamDecoders THEN "stream" ELSE "call"
    /\ cur' = [dec |-> d, ct |-> ct, ver |-> v, len |-> len, fr |-> fr]
    /\ used' = 0 /\ reads' = 0 /\ pstep' = 0
    /\ last' = NoLast                      \* (the record of the previous call has been judged: it does not multiply the states of this one)

\* the decoder returned a value (a stream decoder: delivered a message) and the handler runs its next unconditional step on it
PostStep ==
    /\ phase \in {"call", "stream"}
    /\ pstep < Len(PostSteps(cur.dec))
    /\ pstep' = pstep + 1
    /\ UNCHANGED <<phase, cur, used, reads, last>>

\* one delivered message of a stream decoder: it consumed n bytes.  The contract demands n >= 1.
Read(n) ==
    /\ phase = "stream"
    /\ n \in 0..(cur.len - used)
    /\ (Env = GoodOutcomes => n >= 1)
    /\ (Env = GoodOutcomes => ~FrameRefused(cur.ct, cur.fr))     \* a frame the header check refuses is never delivered
    /\ used' = used + n /\ reads' = reads + 1
    /\ pstep' = 0                          \* the steps start over on the message just delivered
    /\ UNCHANGED <<phase, cur, last>>

\* sv: the Get*Segment requests the serving step admitted during the call (sequence of [kind, h, resp])
End(out, n, peak, sv) ==
    /\ phase \in {"call", "stream"}
    /\ out \in Env
    /\ n \in 0..(cur.len - used)          \* bytes consumed by the final (failing or only) step
    \* the contract of a refused frame: the 11 header bytes and nothing else
    /\ (Env = GoodOutcomes /\ cur.dec = "Codec::read" /\ FrameRefused(cur.ct, cur.fr)) => (out = "err" /\ used + n = FrameHeaderLen)
    /\ (Env = GoodOutcomes => \A i \in 1..Len(sv) : ServeOK(sv[i].kind, sv[i].h, sv[i].resp))
    /\ (Env = GoodOutcomes => peak <= CallBound(cur.dec, cur.ct, cur.len, cur.fr, out, used + n))
    /\ last' = [out |-> out, used |-> used + n, reads |-> reads, peak |-> peak, len |-> cur.len, dec |-> cur.dec, ct |-> cur.ct,
                 step |-> StepName(cur.dec, pstep),   \* the call ended (returned, or panicked / aborted / hung) in this step
                 fr |-> cur.fr, served |-> sv]
    /\ phase' = "idle" /\ cur' = NoCall /\ used' = 0 /\ reads' = 0 /\ pstep' = 0

\* the bounded model tries no allocation, exactly the bound of the call that is ending, and one byte more
PeakChoices(out, n) == LET b == CallBound(cur.dec, cur.ct, cur.len, cur.fr, out, used + n) IN {0, b, b + 1}
ServedChoices == IF "Segment::from_pmmr" \in StepSet(cur.dec) THEN ModelServed ELSE {<<>>}

\* (bounded model only: the record of a judged call is dropped before the next call begins, so that the calls do not multiply)
Forget == phase = "idle" /\ last # NoLast /\ last' = NoLast /\ UNCHANGED <<phase, cur, used, reads, pstep>>
ModelBegin(d, len, fr) == last = NoLast /\ Begin(d, "auto", 1, len, fr)
Next ==
    \/ Forget
    \/ \E d \in ModelDecoders, len \in ModelLens : \E fr \in ModelFrames(d) : ModelBegin(d, len, fr)
    \/ \E n \in 0..3 : Read(n)
    \/ PostStep
    \/ \E out \in AllOutcomes, n \in {0, 1, 2, 3, FrameHeaderLen} : \E p \in PeakChoices(out, n) : \E sv \in ServedChoices : End(out, n, p, sv)

Spec == Init /\ [][Next]_vars

\* ---- the contract, as state predicates on the last finished call
OutcomeOK    == last.out \in GoodOutcomes
ConsumedOK   == last.used <= last.len
AllocBounded == last.peak <= CallBound(last.dec, last.ct, last.len, last.fr, last.out, last.used)
\* a frame announcing more than the header check admits: 11 bytes consumed, nothing delivered
FrameLimitOK == (last.dec = "Codec::read" /\ FrameRefused(last.ct, last.fr)) => (last.out = "err" /\ last.used = FrameHeaderLen /\ last.reads = 0)
\* every admitted segment request could be answered within the frame limit of its response
ServeBounded == \A i \in 1..Len(last.served) : ServeOK(last.served[i].kind, last.served[i].h, last.served[i].resp)
\* per-step progress (every Read consumed >= 1 byte) implies: a stream is read at most `used` <= len times
Progress     == last.reads <= last.used
InCallOK     == (phase = "stream" => reads <= used /\ used <= cur.len) /\ (phase = "idle" => used = 0 /\ reads = 0 /\ pstep = 0)
\* a call ends in the decoder itself or in one of the catalogued steps of that decoder
StepKnown    == last.step = "" \/ last.step \in StepSet(last.dec)

\* the same contract as an operator on a logged call, used by the trace specification
CallOK(d, ct, len, fr, out, consumed, nreads, peak, step, sv) ==
    /\ out \in GoodOutcomes
    /\ (step = "" \/ step \in StepSet(d))
    /\ consumed <= len
    /\ peak <= CallBound(d, ct, len, fr, out, consumed)
    /\ (d \in StreamDecoders => nreads <= consumed)
    /\ ((d = "Codec::read" /\ FrameRefused(ct, fr)) => (out = "err" /\ consumed = FrameHeaderLen /\ nreads = 0))
    /\ \A i \in 1..Len(sv) : ServeOK(sv[i].kind, sv[i].h, sv[i].resp)

-----------------------------------------------------------------------------
(* (2) the mutation-plan generator over abstract layouts                    *)
(* A layout is [id, dec, ct, len, kinds: Seq(kind), w: Seq(width in bytes)] *)
(* kinds: "u8" "u16" "u32" "u64" integers; "len" the u64 length prefix of   *)
(* write_bytes; "b" raw bytes; "z" reserved zero bytes.                     *)
(* A value is [e, d] meaning 2^e + d (e = -1: just d), so that 2^63 and     *)
(* 2^64 - 1 never have to be computed by TLC (32-bit integers).             *)
IntKinds == {"u8", "u16", "u32", "u64", "len"}
\* value tokens of a JSON text (API parameters): "js" a string with its quotes, "jn" a number / literal.  Each is replaced
\* by the value classes 0..JsonClasses-1 (empty / odd-length / non-hex / non-ASCII / doubled / huge hex string, null,
\* negative, 0, 2^64-1, 2^64, 1e400, array, object, boolean, numeric string, one hex byte, lone surrogate escape).
JsonKinds == {"js", "jn"}
JsonClasses == 20
\* "ja" a JSON array (the whole bracketed text; its elements are fields of their own): replaced by n copies of its first element
JsonArrayLens == {0, 1, 2, 7, 8, 9, 41, 42, 43, 84, 1000, 100000}
V(e, d) == [op |-> "set", e |-> e, d |-> d]
Lit(n) == V(-1, n)

\* limits enforced (or that ought to be enforced) by the readers of a decoder
Limits(d, ct) ==
    {100000, 1000000}        \* ser.rs: read_fixed_bytes cap, read_multi / MAX_SEGMENT_READ_ITEMS cap
    \cup (IF d = "PeerAddrs::read" \/ d = "Codec::read" THEN {256} ELSE {})                   \* MAX_PEER_ADDRS
    \cup (IF d = "Locator::read" \/ d = "Codec::read" THEN {20} ELSE {})                      \* MAX_LOCATORS
    \cup (IF d = "Codec::read" THEN {512} ELSE {})                                            \* MAX_BLOCK_HEADERS
    \cup (IF d \in BodyDecoders \/ d = "Codec::read"
          THEN {MaxBlockWeight(ct), MaxBlockWeight(ct) \div 21, MaxBlockWeight(ct) \div 3} ELSE {})  \* weight_by_iok
    \cup (IF d \in {"RangeProof::read", "Output::read"} \cup BodyDecoders \cup SegmentDecoders THEN {675} ELSE {})  \* MAX_PROOF_SIZE
    \cup (IF d \in SegmentDecoders \cup BitmapDecoders \cup {"SegmentProof::read", "Codec::read"} THEN {1024} ELSE {})  \* SEGMENT_READ_PREALLOC_ITEMS
    \cup (IF d \in BitmapDecoders THEN {13, 64, 128, 4096, 8192} ELSE {})                     \* bitmap_accumulator.rs

Around(ls) == UNION {{Lit(l - 1), Lit(l), Lit(l + 1)} : l \in ls}

\* boundary and huge values of the property's quantifier, as far as they fit in w bytes
ValueClasses(w, ls) ==
    LET fits(l) == (w = 1 /\ l < 255) \/ (w = 2 /\ l < 65535) \/ w >= 4
    IN  {Lit(0), Lit(1)} \cup Around({l \in ls : fits(l)})
        \cup (CASE w = 1 -> {Lit(2), Lit(3), Lit(4), Lit(127), Lit(128), Lit(254), Lit(255)}
                [] w = 2 -> {Lit(255), Lit(256), V(15, -1), V(15, 0), V(16, -2), V(16, -1)}
                [] w = 4 -> {V(16, -1), V(16, 0), V(31, -1), V(31, 0), V(32, -2), V(32, -1)}
                [] OTHER -> {V(16, 0), V(31, 0), V(32, -1), V(32, 0), V(63, -1), V(63, 0), V(64, -2), V(64, -1)})

\* rank of field i among the u8 fields of the layout (tag sweep budget)
U8Rank(lay, i) == Cardinality({j \in 1..i : lay.kinds[j] = "u8"})

\* mutation classes of field i of layout lay; donor = the layout spliced from
FieldOps(lay, i, donor, sweepFirst) ==
    LET k == lay.kinds[i]
        j == ((i * 5) % Len(donor.kinds)) + 1
    IN  (IF k \in IntKinds THEN ValueClasses(lay.w[i], Limits(lay.dec, lay.ct)) ELSE {})
        \cup (IF k \in JsonKinds THEN {[op |-> "json", k |-> n] : n \in 0..(JsonClasses - 1)} ELSE {})
        \cup (IF k = "ja" THEN {[op |-> "jarray", n |-> n] : n \in JsonArrayLens} ELSE {})
        \cup (IF k = "u8" /\ U8Rank(lay, i) <= sweepFirst THEN {[op |-> "sweep"]} ELSE {})
        \cup {[op |-> "trunc"], [op |-> "drop"], [op |-> "dup"],
              [op |-> "splice", from |-> donor.id, g |-> j, mode |-> "replace"],
              [op |-> "splice", from |-> donor.id, g |-> j, mode |-> "insert"]}

\* Joint boundary plan of a segment identifier (layout fields ih: height u8, ii: idx u64; 0 = the layout has none).
\* The handlers compute idx * 2^height (leaf offset), 2 * offset (MMR position), offset + 2^height - 1 in wrapping release
\* arithmetic: heights 0..255 (256 = keep the valid one) against a few idx values; every idx within 1 of a power of two
\* against the heights around the limits of the readers; and idx chosen so that idx * 2^height is within 2^height of
\* 2^62, 2^63, 2^64.  The harness expands the cross products.
Keep == V(-2, 0)
Pow2Near == {V(k, dd) : k \in 0..63, dd \in {-1, 0, 1}}
IdentOps(lay) ==
    IF lay.ih = 0 THEN {}
    ELSE {[op |-> "ident", g |-> lay.ii, hs |-> {h \in 0..256 : TRUE}, vs |-> {Lit(0), Lit(1), Keep, V(62, 0), V(63, 0), V(64, -1)}],
          [op |-> "ident", g |-> lay.ii, hs |-> {0, 1, 2, 13, 14, 63, 64, 256}, vs |-> Pow2Near \cup {Lit(0), V(64, -2), V(64, -1)}],
          [op |-> "identprod", g |-> lay.ii, es |-> {62, 63, 64}, hs |-> {h \in 0..63 : TRUE}, ds |-> {-1, 0, 1}]}
\* a segment proof (layout field pf: its hash count; 0 = none) re-encoded one hash short, one hash long, empty
ProofOps(lay) == IF lay.pf = 0 THEN {} ELSE {[op |-> "proof", deltas |-> {-1, 0, 1}]}
IdentOK(lay) ==
    /\ lay.ih > 0 => /\ lay.ih \in 1..Len(lay.kinds) /\ lay.ii \in 1..Len(lay.kinds)
                     /\ lay.kinds[lay.ih] = "u8" /\ lay.kinds[lay.ii] = "u64"
    /\ lay.pf > 0 => lay.pf \in 1..Len(lay.kinds) /\ lay.kinds[lay.pf] = "u64"

\* ---- MANY ITEMS.  A layout may carry repeated groups lay.grp[k] = <<c, a, z, e, bytes>>: count field c, the first item is the
\* fields a..z, the group ends with field e.  The group is re-encoded with n verbatim copies of its first item (count field
\* set to n) for n = every limit of the decoder, one less, one more, and as many copies as fit RepeatMaxBytes; and, at the
\* largest of those counts, with every copy carrying a boundary value in one of the item's own small integer fields (the
\* per-item limits - chunks per bitmap block, tag bytes - are only reached when the item count is).
ItemBytes(lay, g) == g[5]          \* bytes of the first item (exported with the group: <<c, a, z, e, bytes>>)
RepeatLimits(lay) == Limits(lay.dec, lay.ct) \cup {2, 64, 65}
RepeatCounts(lay, g, maxBytes) ==
    LET ib == ItemBytes(lay, g)
        fill == maxBytes \div ib
    IN  {n \in UNION {{l - 1, l, l + 1} : l \in RepeatLimits(lay)} \cup {fill} : n >= 2 /\ n <= fill}
\* the count field alone (the items stay as they are) set to every power of two and its successor up to 2^24: a limit
\* constant that has been moved is met whatever its new value is
CountOnly == {V(k, dd) : k \in 1..24, dd \in {0, 1}}
\* the first few small integer fields of the item
InnerFields(lay, g) == {i \in g[2]..g[3] : lay.kinds[i] \in {"u8", "u16"} /\ Cardinality({j \in g[2]..i : lay.kinds[j] \in {"u8", "u16"}}) <= 4}
\* a bitmap segment admits 2^height / 64 blocks: its blocks are repeated under the identifier {height 13, idx 0}
BitmapLayout(lay) == lay.dec \in BitmapDecoders \/ (lay.dec = "Codec::read" /\ lay.fty = 22)
RepeatOps(lay, maxBytes) ==
    {[op |-> "repeat", c |-> lay.grp[k][1], a |-> lay.grp[k][2], z |-> lay.grp[k][3], e |-> lay.grp[k][4],
      ns |-> RepeatCounts(lay, lay.grp[k], maxBytes),
      nis |-> {n \in RepeatCounts(lay, lay.grp[k], maxBytes \div 4) : n \in RepeatLimits(lay) /\ n <= 10000},
      cs |-> CountOnly,
      inner |-> {[g |-> i, vs |-> ValueClasses(lay.w[i], Limits(lay.dec, lay.ct))] : i \in InnerFields(lay, lay.grp[k])},
      idh |-> IF lay.ih > 0 /\ BitmapLayout(lay) THEN 13 ELSE -1]
     : k \in 1..Len(lay.grp)}
GroupsOK(lay) == \A k \in 1..Len(lay.grp) :
    LET g == lay.grp[k] IN g[1] \in 1..Len(lay.kinds) /\ g[1] < g[2] /\ g[2] <= g[3] /\ g[3] <= g[4] /\ g[4] <= Len(lay.kinds)
                           /\ lay.kinds[g[1]] \in IntKinds /\ g[5] >= 1

\* ---- HARD-FORK ERAS.  A layout that carries a block header (lay.hv / hh / he: its version, height and edge_bits fields;
\* 0 = none) gets the joint plan: heights around every hard-fork boundary of the layout's chain type x header versions
\* 0..6 x edge_bits classes (below / at / above the minimum of every chain type, the secondary size 29, the 63 / 64 limit of
\* Proof::read); the harness re-packs nonces of that width.  valid_header_version and every arm of create_pow_context
\* (cuckaroo, cuckarood, cuckaroom, cuckarooz, cuckatoo, none) are thereby run on untrusted (height, version, edge_bits).
HardForkHeights(ct) ==
    CASE ct = "main" -> {262080 * k : k \in 0..5}
      [] ct = "test" -> {0, 185040, 298080, 552960, 642240}
      [] OTHER       -> {3 * k : k \in 0..5}
EraHeights(ct) == {h \in UNION {{f - 1, f} : f \in HardForkHeights(ct)} : h >= 0}
EraVersions == 0..6
EraEdgeBits == {0, 1, 10, 28, 29, 30, 31, 32, 63, 64}
EraOps(lay) ==
    IF lay.hv = 0 THEN {}
    ELSE {[op |-> "era", g |-> lay.hh, e |-> lay.he, hs |-> EraHeights(lay.ct), vs |-> EraVersions, bs |-> EraEdgeBits]}
EraOK(lay) == lay.hv > 0 => /\ {lay.hv, lay.hh, lay.he} \subseteq 1..Len(lay.kinds)
                            /\ lay.kinds[lay.hv] = "u16" /\ lay.kinds[lay.hh] = "u64" /\ lay.kinds[lay.he] = "u8"

\* ---- FRAME LENGTHS.  A codec layout made of one frame of type lay.fty (>= 0) gets its announced length set to the
\* boundary of what the header check admits for that type, to multiples of it, and to the largest length any type
\* admits, with the announced body present in full (so that an admitted frame is read, a refused one is not).
FrameLens(t, ct) ==
    LET a == FrameAdmit(t, ct) IN
    {l \in {a - 1, a, a + 1, 2 * a, 16 * a + 1, MaxFrameAdmit(ct), MaxFrameAdmit(ct) + 1} : l >= 0}
FrameLenOps(lay) == IF lay.fty < 0 THEN {} ELSE {[op |-> "framelen", ls |-> FrameLens(lay.fty, lay.ct)]}
\* ---- SILENCE.  Every other stream input ends with the peer closing its side.  A Ping frame (one per chain type that has
\* one) is also delivered only up to `cut` bytes of its header, after which the peer stays connected and silent: the decoder
\* must still end (its header timeout), which the watchdog judges like any other hang.
SilentOps(lay) == IF lay.fty = 3 THEN {[op |-> "silent", cuts |-> {5}]} ELSE {}

\* ---- MANY VALID ITEMS.  The harness can build, with the repository's own encoders, the families of encodings it lists
\* (records [fam, kind, unit, limit, lo, cts]) at any item count; the counts are half the limit, the limit and one more,
\* where the limit of a "weight" family is max_block_weight / weight of one item, of a "count" family the named constant,
\* and a "height" family (a segment cut out of a real MMR) is taken at the two lowest identifier heights that are served.
NamedLimit(name) == CASE name = "MAX_PEER_ADDRS" -> MaxPeerAddrs [] name = "MAX_LOCATORS" -> MaxLocators
                      [] name = "MAX_BLOCK_HEADERS" -> MaxBlockHeaders [] OTHER -> 1
BigCounts(f, ct) ==
    IF f.kind = "height" THEN {f.lo, f.lo + 1}
    ELSE LET l == IF f.kind = "weight" THEN MaxBlockWeight(ct) \div f.unit ELSE NamedLimit(f.limit)
         IN  {l \div 2, l, l + 1}

\* fields mutated in a long layout (index lists of thousands of u16): the head, the tail, and a sample
FieldsOf(lay, maxFields) ==
    LET n == Len(lay.kinds)
    IN  IF n <= maxFields THEN 1..n
        ELSE (1..(maxFields - 16)) \cup ((n - 7)..n) \cup {i \in 1..n : i % 211 = 0 /\ i <= 211 * 8}

\* a plan is well formed if it names an existing field and a value that fits the field
PlanOK(lay, i, ops) ==
    /\ i \in 1..Len(lay.kinds)
    /\ \A o \in ops : o.op = "set" => (lay.kinds[i] \in IntKinds /\ (o.e >= 8 * lay.w[i] => (o.e = 8 * lay.w[i] /\ o.d < 0)))
    /\ \A o \in ops : o.op = "sweep" => lay.kinds[i] = "u8"
    /\ \A o \in ops : o.op = "json" => lay.kinds[i] \in JsonKinds /\ o.k \in 0..(JsonClasses - 1)
    /\ \A o \in ops : o.op = "jarray" => lay.kinds[i] = "ja"
=============================================================================
