----------------------------- MODULE PMMRStore -----------------------------
(***************************************************************************)
(* C08 (store level): a prunable, compactable, rewindable MMR store        *)
(* (store/src/pmmr.rs PMMRBackend driven through core PMMR) must be         *)
(* observationally equal to an UNPRUNED REFERENCE holding the same leaf     *)
(* history.  This module is that reference plus the usage protocol of       *)
(* chain/src/txhashset/txhashset.rs:                                        *)
(*                                                                         *)
(*   unit of work = Begin, optional Rewind(b) to a recorded boundary b that *)
(*   is not older than the last compaction boundary (PMMR::rewind(size_b,   *)
(*   bitmap of the 1-based positions of the leaves that existed at b and    *)
(*   were removed since)), then Append / Remove of live leaves, then Commit *)
(*   (backend.sync, a boundary is recorded) or Discard (backend.discard);   *)
(*   between units: Compact(b) at a boundary >= the previous compaction     *)
(*   boundary (check_compact(size_b, bitmap of 1-based positions removed    *)
(*   since b)) and Reopen (drop + PMMRBackend::new on the same directory).  *)
(*                                                                         *)
(* A reference is [leaves : Seq(data), removed : SUBSET 1..Len(leaves)];    *)
(* leaf i (1-based here, insertion index i-1 in the code) sits at 0-based   *)
(* MMR position LeafPos0(i).  EVERY observable is a function of a reference *)
(* only (Size, Root, Live, LeafData, LeafHash, Proof below, built from the  *)
(* MMR construction of MMR.tla with symbolic hash terms).  Compact, Reopen  *)
(* and Discard do not change `com`, hence none of the committed observables:*)
(* that is the property; the implementation is bound to it by replay        *)
(* (MC_PMMRStore) and trace validation (PMMRStoreTrace).                    *)
(*                                                                         *)
(* `gone` is the set of leaves whose data a compaction was allowed to       *)
(* delete physically; NoLiveLeafGone shows the protocol never needs them    *)
(* again (this is why Rewind below a compaction boundary is excluded).      *)
(***************************************************************************)
EXTENDS Naturals, Integers, Sequences, FiniteSets

CONSTANTS MaxLeaves,    \* bound on the number of leaves of a reference
          MaxUnits,     \* bound on Begin
          MaxAppends,   \* per unit
          MaxRemoves,   \* per unit
          Stride        \* data of a new leaf = unit number * Stride + insertion index (> MaxLeaves)

VARIABLES com,          \* committed reference
          work,         \* working reference (= com while idle)
          phase,        \* "idle" | "open"
          bnd,          \* recorded boundaries: Seq([nl, removed]); bnd[1] is the empty store
          wb,           \* boundary the working copy descends from
          lastCompact,  \* index into bnd of the last compaction boundary (1 initially)
          gone,         \* leaves that compaction may have deleted physically
          cnt,          \* counters [units, apps, rems, rew] (the last three are per unit)
          did           \* [compact, reopen]: done in the current idle period (at most one of each)

vars == <<com, work, phase, bnd, wb, lastCompact, gone, cnt, did>>

M == INSTANCE MMR WITH m <- <<>>, TermLeaves <- MaxLeaves

-----------------------------------------------------------------------------
(* References *)

EmptyRef == [leaves |-> <<>>, removed |-> {}]
NL(r)    == Len(r.leaves)
Live(r)  == (1..NL(r)) \ r.removed
Snap(r)  == [nl |-> NL(r), removed |-> r.removed]
Cur      == IF phase = "open" THEN work ELSE com

\* closed forms (shown equal to the construction by MC_MMR / C07, re-checked in FormsOK)
MMRSize(n)  == 2 * n - M!PopCount(n)
LeafPos0(i) == 2 * (i - 1) - M!PopCount(i - 1)     \* 0-based position of the i-th leaf (i >= 1)
Pos1(i)     == LeafPos0(i) + 1                      \* the same, 1-based as stored in the bitmaps

-----------------------------------------------------------------------------
(* Observables: functions of a reference only *)

RECURSIVE ForestOf(_)
ForestOf(n) == IF n = 0 THEN M!Empty ELSE M!AppendLeaf(ForestOf(n - 1))

\* MMR.tla labels the i-th leaf term with its insertion index; put the reference's data there
RECURSIVE SubstT(_, _)
SubstT(t, lv) == IF t[1] = "L" THEN <<"L", t[2], lv[t[3] + 1]>>
                 ELSE <<"N", t[2], SubstT(t[3], lv), SubstT(t[4], lv)>>

SizeOf(r)      == M!Size(ForestOf(NL(r)))
RootOf(r)      == IF NL(r) = 0 THEN "ZERO" ELSE SubstT(M!RootTerm(ForestOf(NL(r))), r.leaves)
LeafData(r, i) == r.leaves[i]
LeafHash(r, i) == <<"L", LeafPos0(i), r.leaves[i]>>
ProofOf(r, i)  == LET f == ForestOf(NL(r))
                      p == M!ProofPathD(f, f.lp[i])
                  IN [k \in 1..Len(p) |-> SubstT(p[k], r.leaves)]
Obs(r) == [size |-> SizeOf(r), root |-> RootOf(r), live |-> Live(r),
           leaf |-> [i \in Live(r) |-> [data |-> LeafData(r, i), hash |-> LeafHash(r, i), proof |-> ProofOf(r, i)]]]

-----------------------------------------------------------------------------
(* Protocol arguments *)

BSize(b)     == MMRSize(bnd[b].nl)
\* leaves that existed at boundary b and were removed since
RewindRm(b)  == {Pos1(i) : i \in (com.removed \ bnd[b].removed) \cap (1..bnd[b].nl)}
\* what txhashset::compact passes: every position spent between b and the head
CompactRm(b) == {Pos1(i) : i \in com.removed \ bnd[b].removed}
\* one rewind_single_block step from boundary k+1 back to k
StepRm(k)    == {Pos1(i) : i \in (bnd[k+1].removed \ bnd[k].removed) \cap (1..bnd[k].nl)}

-----------------------------------------------------------------------------
Init ==
  /\ com = EmptyRef /\ work = EmptyRef /\ phase = "idle"
  /\ bnd = <<Snap(EmptyRef)>> /\ wb = 1 /\ lastCompact = 1 /\ gone = {}
  /\ cnt = [units |-> 0, apps |-> 0, rems |-> 0, rew |-> 0]
  /\ did = [compact |-> FALSE, reopen |-> FALSE]

Begin ==
  /\ phase = "idle" /\ cnt.units < MaxUnits
  /\ phase' = "open" /\ work' = com /\ wb' = Len(bnd)
  /\ cnt' = [cnt EXCEPT !.units = @ + 1]
  /\ did' = [compact |-> FALSE, reopen |-> FALSE]
  /\ UNCHANGED <<com, bnd, lastCompact, gone>>

Rewind(b) ==
  /\ phase = "open" /\ cnt.rew = 0 /\ cnt.apps = 0 /\ cnt.rems = 0
  /\ b \in lastCompact..Len(bnd)
  /\ work' = [leaves |-> SubSeq(com.leaves, 1, bnd[b].nl), removed |-> bnd[b].removed]
  /\ wb' = b
  /\ cnt' = [cnt EXCEPT !.rew = 1]
  /\ UNCHANGED <<com, phase, bnd, lastCompact, gone, did>>

NewData == cnt.units * Stride + NL(work)

AppendLeaf(d) ==     \* (named AppendLeaf because Sequences!Append exists; event name "Append")
  /\ phase = "open" /\ d = NewData
  /\ cnt.apps < MaxAppends /\ NL(work) < MaxLeaves
  /\ work' = [work EXCEPT !.leaves = Append(@, d)]
  /\ cnt' = [cnt EXCEPT !.apps = @ + 1]
  /\ UNCHANGED <<com, phase, bnd, wb, lastCompact, gone, did>>

Remove(i) ==
  /\ phase = "open" /\ i \in Live(work) /\ cnt.rems < MaxRemoves
  /\ work' = [work EXCEPT !.removed = @ \cup {i}]
  /\ cnt' = [cnt EXCEPT !.rems = @ + 1]
  /\ UNCHANGED <<com, phase, bnd, wb, lastCompact, gone, did>>

Commit ==
  /\ phase = "open"
  /\ com' = work
  /\ bnd' = IF Snap(work) = bnd[wb] THEN SubSeq(bnd, 1, wb) ELSE Append(SubSeq(bnd, 1, wb), Snap(work))
  /\ wb' = Len(bnd')
  /\ phase' = "idle"
  /\ cnt' = [cnt EXCEPT !.apps = 0, !.rems = 0, !.rew = 0]
  /\ UNCHANGED <<work, lastCompact, gone, did>>

Discard ==
  /\ phase = "open"
  /\ work' = com /\ wb' = Len(bnd) /\ phase' = "idle"
  /\ cnt' = [cnt EXCEPT !.apps = 0, !.rems = 0, !.rew = 0]
  /\ UNCHANGED <<com, bnd, lastCompact, gone, did>>

Compact(b) ==
  /\ phase = "idle" /\ ~did.compact
  /\ b \in lastCompact..Len(bnd)
  /\ lastCompact' = b
  /\ gone' = gone \cup bnd[b].removed
  /\ did' = [did EXCEPT !.compact = TRUE]
  /\ UNCHANGED <<com, work, phase, bnd, wb, cnt>>

Reopen ==
  /\ phase = "idle" /\ ~did.reopen
  /\ did' = [did EXCEPT !.reopen = TRUE]
  /\ UNCHANGED <<com, work, phase, bnd, wb, lastCompact, gone, cnt>>

DoRewind  == \E b \in 1..Len(bnd) : Rewind(b)
DoAppend  == AppendLeaf(NewData)
DoRemove  == \E i \in 1..NL(work) : Remove(i)
DoCompact == \E b \in 1..Len(bnd) : Compact(b)

Next == Begin \/ DoRewind \/ DoAppend \/ DoRemove \/ Commit \/ Discard \/ DoCompact \/ Reopen

Spec == Init /\ [][Next]_vars

-----------------------------------------------------------------------------
(* Invariants *)

TypeOK ==
  /\ phase \in {"idle", "open"}
  /\ NL(com) <= MaxLeaves /\ NL(work) <= MaxLeaves
  /\ com.removed \subseteq 1..NL(com) /\ work.removed \subseteq 1..NL(work)
  /\ Len(bnd) >= 1 /\ lastCompact \in 1..Len(bnd) /\ wb \in 1..Len(bnd)
  /\ phase = "idle" => work = com /\ wb = Len(bnd)

\* boundaries are a history of one growing, only-ever-more-removed reference; the head is the last one
BoundariesOK ==
  /\ bnd[1] = Snap(EmptyRef)
  /\ Snap(com) = bnd[Len(bnd)]
  /\ \A k \in 1..Len(bnd) - 1 :
       /\ bnd[k].nl <= bnd[k+1].nl
       /\ bnd[k].removed \subseteq bnd[k+1].removed
       /\ bnd[k] # bnd[k+1]
  /\ phase = "open" => /\ SubSeq(work.leaves, 1, bnd[wb].nl) = SubSeq(com.leaves, 1, bnd[wb].nl)
                       /\ bnd[wb].removed \subseteq work.removed

\* what compaction may have deleted is never live again, in any state the protocol can reach
NoLiveLeafGone ==
  /\ gone \cap Live(com) = {}
  /\ gone \cap Live(work) = {}
  /\ \A b \in lastCompact..Len(bnd) : gone \subseteq bnd[b].removed

\* closed forms used for sizes and bitmap positions = the construction
FormsOK ==
  LET f == ForestOf(NL(Cur)) IN
  /\ M!Size(f) = MMRSize(NL(Cur))
  /\ \A i \in 1..NL(Cur) : f.lp[i] = LeafPos0(i)

\* State-space reduction for exhaustive runs (ACTION_CONSTRAINT): the removals of one unit happen in
\* increasing leaf order (every removed SET is still reached).
OrderedRemoves ==
  (phase = "open" /\ phase' = "open" /\ work'.removed # work.removed /\ cnt'.rew = cnt.rew) =>
     \A i \in work'.removed \ work.removed : \A j \in work.removed \ bnd[wb].removed : j < i

\* second reduction: within a unit all appends come before the removals
AppendsFirst == (phase = "open" /\ phase' = "open" /\ NL(work') > NL(work)) => cnt.rems = 0

\* the reference's proofs verify against the reference's root (transcribed verifier of MMR.tla)
ProofsVerify ==
  \A i \in Live(Cur) :
    M!Verify(RootOf(Cur), LeafData(Cur, i), LeafPos0(i), ProofOf(Cur, i), SizeOf(Cur))

\* Compact, Reopen and Discard are stutters on every committed observable (Obs is a function of com)
CommittedStutter ==
  [][(phase' = "idle" /\ ~(phase = "open" /\ com' = work)) => com' = com]_vars
\* and Begin / Rewind / Append / Remove never touch the committed reference
WorkIsPrivate == [][phase' = "open" => com' = com]_vars
=============================================================================
