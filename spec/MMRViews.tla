------------------------------ MODULE MMRViews ------------------------------
(***************************************************************************)
(* C07, second part: what can be OBSERVED of an MMR held in a backend      *)
(* (the array of node hashes tm, the set rm of removed leaf positions)     *)
(* through the reading interface of pmmr.rs (trait ReadablePMMR, shared by *)
(* PMMR, ReadonlyPMMR and RewindablePMMR::as_readonly) at the full size or *)
(* at an EARLIER size sz, and what PMMR::validate decides.                 *)
(*                                                                         *)
(* The operators ending in V transcribe the code (bounds, remove log,      *)
(* peaks(size), family_branch, bag_the_rhs, peak_path, merkle_proof,       *)
(* validate).  The invariants say that they equal the DEFINITION:          *)
(*   - a view at the size the MMR had with k leaves shows exactly the MMR  *)
(*     of the first k leaves (BuildN(k)): root, peaks, proof paths, and    *)
(*     nothing at or beyond its size;                                      *)
(*   - removed leaves change nothing but the answers about themselves      *)
(*     (no hash, no data, no proof) - in particular a removed last leaf    *)
(*     that is a peak of its own still contributes to peaks and root;      *)
(*   - RewindablePMMR::rewind(q) lands on the size of the MMR holding the  *)
(*     leaves below position q;                                            *)
(*   - validate accepts the honest array and refuses the alteration of any *)
(*     single hash that is a parent or has a parent (a lone leaf peak is   *)
(*     bound by the root only, not by validate).                           *)
(*                                                                         *)
(* INTERPRETATION of the symbolic hash terms of MMR.tla (the harness       *)
(* evaluates them with its own blake2b, not through grin_core):            *)
(*   [[ <<"L", pos, d>> ]]      = blake2b-256( be64(pos) || ser(elem d) )   *)
(*   [[ <<"N", idx, l, r>> ]]   = blake2b-256( be64(idx) || [[l]] || [[r]] )*)
(*   [[ "ZERO" ]]               = 32 zero bytes                            *)
(***************************************************************************)
EXTENDS MMR

None == <<"none">>
NoProof == [ok |-> FALSE, path |-> <<>>]
Some(sq) == SelectSeq(sq, LAMBDA x : x # None)
Rev(sq) == [i \in 1..Len(sq) |-> sq[Len(sq) + 1 - i]]

\* ReadablePMMR::get_from_file / get_peak_from_file of a view of size sz over the hash array of s
FromFileV(s, sz, p) == IF p >= sz \/ p >= Size(s) THEN None ELSE s.tm[p + 1]
\* ReadablePMMR::get_hash: leaves honour the remove log, parents do not
HashV(s, rm, sz, p) == IF p >= sz THEN None ELSE IF IsLeafC(p) /\ p \in rm THEN None ELSE FromFileV(s, sz, p)
\* ReadablePMMR::get_data: the insertion index of the leaf (Data) or nothing
DataV(s, rm, sz, p) == IF p >= sz \/ ~IsLeafC(p) \/ p \in rm THEN -1 ELSE Data(LeafToInsertionIndexC(p))

PeaksV(s, sz) == LET ps == PeaksC(sz) IN Some([i \in 1..Len(ps) |-> FromFileV(s, sz, ps[i])])
RootV(s, sz) == LET pk == PeaksV(s, sz) IN IF sz = 0 THEN "ZERO" ELSE IF pk = <<>> THEN None ELSE BagRight(pk, 1, sz)

BagRhsV(s, sz, peak) ==
  LET ps == SelectSeq(PeaksC(sz), LAMBDA x : x > peak)
      hs == Some([i \in 1..Len(ps) |-> FromFileV(s, sz, ps[i])])
  IN IF hs = <<>> THEN <<>> ELSE <<BagRight(hs, 1, sz)>>
PeakPathV(s, sz, peak) ==
  LET ps == SelectSeq(PeaksC(sz), LAMBDA x : x < peak)
      ls == Some([i \in 1..Len(ps) |-> FromFileV(s, sz, ps[i])])
  IN Rev(ls \o BagRhsV(s, sz, peak))
\* ReadablePMMR::merkle_proof
MerkleProofV(s, rm, sz, p) ==
  IF ~IsLeafC(p) \/ HashV(s, rm, sz, p) = None THEN NoProof
  ELSE LET fb == FamilyBranchC(p, sz)
           sibs == Some([i \in 1..Len(fb) |-> FromFileV(s, sz, fb[i][2])])
           peak == IF fb = <<>> THEN p ELSE fb[Len(fb)][1]
       IN [ok |-> TRUE, path |-> sibs \o PeakPathV(s, sz, peak)]

\* RewindablePMMR::rewind(q): the size of the view afterwards, by definition
RewindSizeD(s, q) == SizeAt(s, Cardinality({i \in 1..NL(s) : s.lp[i] < q}))

\* PMMR::validate over a hash array
ValidateV(tm) == \A n \in 0..(Len(tm) - 1) :
                   LET h == HeightC(n) IN h > 0 => tm[n + 1] = NodeTerm(n, tm[n - Pow2(h) + 1], tm[n])
Altered(tm, p) == [tm EXCEPT ![p + 1] = <<"J">>]
BoundByValidateD(s, p) == ~IsLeafD(s, p) \/ Par(s, p) # -1

\* removal patterns used by the invariants and handed to the replay (1-based leaf indices)
RmPatterns(s) ==
  LET n == NL(s) IN
  << [name |-> "none",          ix |-> <<>>],
     [name |-> "last",          ix |-> <<n>>],
     [name |-> "first",         ix |-> <<1>>],
     [name |-> "even",          ix |-> [j \in 1..((n + 1) \div 2) |-> 2 * j - 1]],
     [name |-> "all_but_first", ix |-> [j \in 1..(n - 1) |-> j + 1]],
     [name |-> "all",           ix |-> [j \in 1..n |-> j]] >>
RmPos(s, pat) == {s.lp[pat.ix[j]] : j \in 1..Len(pat.ix)}

-----------------------------------------------------------------------------
ViewsOK ==
  (KeepTerms(m) /\ NL(m) > 0) =>
    \A k \in 1..NL(m) :
      LET sz == SizeAt(m, k)
          b  == BuildN(k)
      IN /\ Size(b) = sz
         /\ PeaksV(m, sz) = [i \in 1..Len(b.pk) |-> b.tm[b.pk[i] + 1]]
         /\ RootV(m, sz) = RootTerm(b)
         /\ \A i \in 1..k : MerkleProofV(m, {}, sz, m.lp[i]) = [ok |-> TRUE, path |-> ProofPathD(b, m.lp[i])]
         /\ \A j \in 1..Len(RmPatterns(m)) :
              LET rm == RmPos(m, RmPatterns(m)[j]) IN
              \A i \in 1..NL(m) :
                LET p == m.lp[i] IN
                /\ (p \in rm \/ i > k) => /\ MerkleProofV(m, rm, sz, p) = NoProof
                                         /\ HashV(m, rm, sz, p) = None
                                         /\ DataV(m, rm, sz, p) = -1
                /\ (p \notin rm /\ i <= k) => /\ MerkleProofV(m, rm, sz, p) = MerkleProofV(m, {}, sz, p)
                                             /\ HashV(m, rm, sz, p) = b.tm[p + 1]
                                             /\ DataV(m, rm, sz, p) = Data(i - 1)
         /\ \A p \in 0..(Size(m) + 1) :
              /\ (p < sz /\ ~IsLeafD(m, p)) => /\ HashV(m, RmPos(m, RmPatterns(m)[6]), sz, p) = b.tm[p + 1]
                                              /\ MerkleProofV(m, {}, sz, p) = NoProof
              /\ p >= sz => /\ HashV(m, {}, sz, p) = None
                            /\ FromFileV(m, sz, p) = None
                            /\ IsLeafC(p) => MerkleProofV(m, {}, sz, p) = NoProof

RewindableOK ==
  \A q \in (IF KeepTerms(m) THEN 0 ELSE NewFrom(m))..Size(m) : RoundUpToLeafPosC(q) = RewindSizeD(m, q)

ValidateOK ==
  (KeepTerms(m) /\ NL(m) > 0) =>
    /\ ValidateV(m.tm)
    /\ \A p \in 0..(Size(m) - 1) : ValidateV(Altered(m.tm, p)) = ~BoundByValidateD(m, p)

\* "another position" for the verifier: ANY other position (a parent, a position at or beyond the size),
\* not only the positions of the other leaves (Corruptions in MMR.tla)
AnyPosOK ==
  (KeepTerms(m) /\ NL(m) > 0) =>
    \A i \in 1..NL(m) :
      \A q \in (0..(Size(m) + 3)) \ {m.lp[i]} :
        ~Verify(RootTerm(m), Data(i - 1), q, ProofPathD(m, m.lp[i]), Size(m))
=============================================================================
