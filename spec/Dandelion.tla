------------------------------ MODULE Dandelion ------------------------------
(***************************************************************************)
(* Engine X02: the stem / fluff life cycle of transactions (Dandelion++).  *)
(*                                                                         *)
(*   pool/src/transaction_pool.rs   add_to_pool (stem / fluff), add_to_stempool, add_to_txpool + the    *)
(*                                  stempool reconcile that follows, reconcile_block                     *)
(*   servers/src/grin/dandelion_monitor.rs   the monitor loop, process_fluff_phase, process_expired_entries, *)
(*                                  select_txs_cutoff                                                     *)
(*   servers/src/common/types.rs    DandelionEpoch (is_stem, is_expired, next_epoch, relay_peer)          *)
(*   servers/src/common/adapters.rs PoolToNetAdapter::{tx_accepted, stem_tx_accepted}, DandelionAdapter   *)
(*   callers: NetToChainAdapter::transaction_received (TxSource::Broadcast, stem flag of the message),   *)
(*            api push_transaction (TxSource::PushApi, stem = !fluff)                                     *)
(*                                                                         *)
(* A transaction is a non-empty set of ATOMS (single-kernel transactions of a fixed universe); inputs and  *)
(* outputs of a set are those of its atoms after cut-through, its kernels are the atoms - the shape of     *)
(* transaction::aggregate.  The chain is abstract: the unspent set and the height.                         *)
(*                                                                         *)
(* TIME.  The code stores absolute instants (PoolEntry.tx_at, DandelionEpoch.start_time) and compares      *)
(* `now - instant` with thresholds.  The model stores the AGES themselves (now - instant) and AdvanceClock *)
(* ages everything; ages saturate one tick above the largest threshold they are compared with, which is    *)
(* indistinguishable for the code and keeps the state space finite with a clock that never stops           *)
(* (liveness).  One tick is an arbitrary unit; Jitter is the random addend 0..30 s of the embargo          *)
(* (process_expired_entries) in ticks.                                                                     *)
(*                                                                         *)
(* Switches (TRUE / TRUE / TRUE / TRUE / FALSE is what the property demands and what the code does; the    *)
(* other values are careless variants used to show that the invariants are not vacuous):                   *)
(*   Restem            the stempool is re-validated on top of the public pool whenever a tx enters it      *)
(*   AnnounceStem      = TRUE: tx_accepted (broadcast) also fires for a tx that was only stem-accepted     *)
(*   ExpireInStemEpoch = FALSE: the monitor skips process_expired_entries in stem epochs                   *)
(*   FluffAll          = FALSE: the fluff phase aggregates only the entries older than AggSecs             *)
(*   DropOnFluffError  = TRUE: the fluff phase empties the stempool even when the aggregate is refused     *)
(***************************************************************************)
EXTENDS Naturals, Integers, Sequences, FiniteSets, TLC

CONSTANTS Atoms,          \* [1..N -> [ins, outs, fee]]
          Subs,           \* submittable transactions: a set of sets of atom ids
          Utxo0,          \* commitments unspent (and mature) at the start
          BlockSet,       \* bodies a connected block may have: a set of sets of atom ids
          AggSecs,        \* DandelionConfig.aggregation_secs (ticks)
          EmbargoSecs,    \* DandelionConfig.embargo_secs     (ticks)
          Jitter,         \* the random addend of the embargo: 0..Jitter ticks
          EpochSecs,      \* DandelionConfig.epoch_secs       (ticks)
          Ticks,          \* clock increments of AdvanceClock
          MaxTxWeight,    \* global::max_tx_weight()
          MaxBlockWeight, \* global::max_block_weight()
          Peers,          \* outbound peers that may be connected (ids >= 1; 0 = no relay)
          AlwaysStemOurs, \* DandelionConfig.always_stem_our_txs
          MaxBlocks, MaxSteps,     \* model-checking bounds only (MaxSteps = 0: unbounded)
          AtomicMonitor,  \* TRUE: nothing interleaves with one iteration of the monitor loop
          Churn,          \* TRUE: outbound peers connect and disconnect (FALSE: the set chosen at the start stays)
          Restem, AnnounceStem, ExpireInStemEpoch, FluffAll, DropOnFluffError

VARIABLES chain,      \* blocks connected so far: sequence of sets of atoms
          txpool,     \* public pool: sequence of [tx, src]           (insertion order)
          stempool,   \* stempool:    sequence of [tx, age, src]      (insertion order; age = now - tx_at)
          epoch,      \* DandelionEpoch: [stem, age, relay]; age = -1: start_time = None; relay = 0: None
          connected,  \* the outbound peers connected right now
          mpc,        \* where the monitor loop is: 0 before the fluff phase, 1 before the expired entries, 2 before the roll-over
          last,       \* observation of the last action: result class and the notifications it sent to the network
          nsteps
vars == <<chain, txpool, stempool, epoch, connected, mpc, last, nsteps>>

AtomIds == DOMAIN Atoms
SeqToSet(s) == {s[i] : i \in 1..Len(s)}
TxsOf(es) == [i \in 1..Len(es) |-> es[i].tx]
AtomsIn(txs) == UNION SeqToSet(txs)
Lesser(a, b) == IF a < b THEN a ELSE b

Spent(P) == UNION {Atoms[a].ins : a \in P}
Created(P) == UNION {Atoms[a].outs : a \in P}
\* transaction::aggregate : cut-through of everything created and spent inside P
TxOf(P) == [k |-> P, ins |-> Spent(P) \ Created(P), outs |-> Created(P) \ Spent(P)]
\* no commitment spent twice or created twice (transaction::cut_through refuses it)
Consistent(P) == \A a, b \in P : a # b => /\ Atoms[a].ins \cap Atoms[b].ins = {}
                                          /\ Atoms[a].outs \cap Atoms[b].outs = {}
Weight(e) == Cardinality(e.ins) + 21 * Cardinality(e.outs) + 3 * Cardinality(e.k)
WellFormed(e) == e.k # {} /\ Consistent(e.k) /\ e.ins = TxOf(e.k).ins /\ e.outs = TxOf(e.k).outs

ASSUME /\ \A t \in Subs : t # {} /\ t \subseteq AtomIds /\ Consistent(t)
       /\ \A B \in BlockSet : B \subseteq AtomIds
       /\ AggSecs <= EmbargoSecs /\ Jitter >= 0
       /\ 0 \notin Peers

----------------------------------------------------------------------------
\* abstract chain
Confirmed(ch) == UNION {ch[i] : i \in 1..Len(ch)}
Utxo(ch) == (Utxo0 \cup Created(Confirmed(ch))) \ Spent(Confirmed(ch))
U == Utxo(chain)
Height == Len(chain)

\* Chain::validate_tx of the aggregate of the atoms P (plus Transaction::validate of it)
JointOK(P, u) == /\ Consistent(P)
                 /\ (Spent(P) \ Created(P)) \subseteq u
                 /\ (Created(P) \ Spent(P)) \cap u = {}
Disjoint(s) == \A i, j \in 1..Len(s) : i < j => s[i] \cap s[j] = {}       \* no kernel twice
JointSeq(s, u) == Disjoint(s) /\ JointOK(AtomsIn(s), u)

\* Pool::add_to_pool : aggregate (extra + pool + new) must validate against the chain
CanAdd(pool, extra, x, u) == JointSeq(extra \o pool \o <<x>>, u)
\* Pool::reconcile : clear and re-add the entries one by one, failures dropped
RECURSIVE Rebuild(_, _, _, _)
Rebuild(old, acc, extra, u) ==
  IF old = <<>> THEN acc
  ELSE Rebuild(Tail(old), IF CanAdd(TxsOf(acc), extra, Head(old).tx, u) THEN Append(acc, Head(old)) ELSE acc, extra, u)
\* Pool::reconcile_block : drop entries sharing a kernel or an input with the block
ReconcileBlock(pool, B) ==
  SelectSeq(pool, LAMBDA x : x.tx \cap B = {} /\ TxOf(x.tx).ins \cap TxOf(B).ins = {})
\* Pool::validate_raw_txs : keep a tx when (extra + kept so far + it) validates
RECURSIVE ValidateRaw(_, _, _, _)
ValidateRaw(txs, acc, extra, u) ==
  IF txs = <<>> THEN acc
  ELSE ValidateRaw(Tail(txs), IF JointSeq(extra \o acc \o <<Head(txs)>>, u) THEN Append(acc, Head(txs)) ELSE acc, extra, u)

----------------------------------------------------------------------------
\* TransactionPool::add_to_pool
Rej(why, tp, sp) == [res |-> "reject", why |-> why, tp |-> tp, sp |-> sp, ev |-> <<>>]
Bcast(x) == [e |-> "bcast", tx |-> x, peer |-> 0]            \* PoolAdapter::tx_accepted -> Peers::broadcast_transaction
StemTo(x, p) == [e |-> "stem", tx |-> x, peer |-> p]         \* Peer::send_stem_transaction to the relay of the epoch

\* add_to_txpool (+ the stempool reconcile that follows) + add_to_reorg_cache + adapter.tx_accepted
AddPublic(x, src, tp, sp) ==
  IF ~CanAdd(TxsOf(tp), <<>>, x, U) THEN Rej("conflict", tp, sp)
  ELSE LET tp1 == Append(tp, [tx |-> x, src |-> src])
       IN [res |-> "ok_fluff", why |-> "", tp |-> tp1,
           sp |-> IF Restem THEN Rebuild(sp, <<>>, TxsOf(tp1), U) ELSE sp,
           ev |-> <<Bcast(x)>>]

\* deaggregate_tx + transaction::deaggregate: the aggregate of the pooled entries whose kernels are all in t is subtracted
Deagg(t, tp) ==
  LET found == {x \in SeqToSet(TxsOf(tp)) : x \subseteq t}
      F == UNION found
  IN IF Cardinality(t) > 1 /\ found # {}
     THEN [k |-> t \ F, ins |-> TxOf(t).ins \ TxOf(F).ins, outs |-> TxOf(t).outs \ TxOf(F).outs, de |-> TRUE]
     ELSE [k |-> t, ins |-> TxOf(t).ins, outs |-> TxOf(t).outs, de |-> FALSE]

\* add_to_pool(src, t, stem = false) on the pools tp / sp
Fluff(t, src, tp, sp) ==
  IF t \in SeqToSet(TxsOf(tp)) THEN Rej("dup", tp, sp)
  ELSE LET e == Deagg(t, tp)
       IN IF ~WellFormed(e) THEN Rej("invalid", tp, sp)
          ELSE IF Weight(e) > MaxTxWeight THEN Rej("weight", tp, sp)
          ELSE IF ~((e.ins \ TxOf(AtomsIn(TxsOf(tp))).outs) \subseteq U) THEN Rej("missing_input", tp, sp)   \* locate_spends
          ELSE AddPublic(e.k, IF e.de THEN "Deaggregate" ELSE src, tp, sp)

IsExpired == epoch.age = -1 \/ epoch.age > EpochSecs                  \* DandelionEpoch::is_expired
\* DandelionEpoch::relay_peer : keep the relay of the epoch while it is connected, else choose among the connected
RelayChoices == IF epoch.relay \in connected THEN {0} ELSE IF connected = {} THEN {0} ELSE connected
NextRelay(np) == IF epoch.relay \in connected THEN epoch.relay ELSE np

\* add_to_pool(src, t, stem = true); sendok: Peer::send_stem_transaction succeeds; np: the peer chosen if a new relay is needed
W(r, rl) == [res |-> r.res, why |-> r.why, tp |-> r.tp, sp |-> r.sp, ev |-> r.ev, relay |-> rl]
Stem(t, src, sendok, np) ==
  IF t \in SeqToSet(TxsOf(stempool)) THEN W(Fluff(t, src, txpool, stempool), epoch.relay)   \* seen twice: fluff it
  ELSE IF t \in SeqToSet(TxsOf(txpool)) THEN W(Rej("dup", txpool, stempool), epoch.relay)
  ELSE LET e == TxOf(t)
           poolAtoms == AtomsIn(TxsOf(txpool)) \cup AtomsIn(TxsOf(stempool))
       IN IF Weight(e) > MaxTxWeight THEN W(Rej("weight", txpool, stempool), epoch.relay)
          ELSE IF ~((e.ins \ TxOf(poolAtoms).outs) \subseteq U) THEN W(Rej("missing_input", txpool, stempool), epoch.relay)
          ELSE IF ~CanAdd(TxsOf(stempool), TxsOf(txpool), t, U) THEN W(Rej("conflict", txpool, stempool), epoch.relay)
          ELSE LET sp1 == Append(stempool, [tx |-> t, age |-> 0, src |-> src])           \* add_to_stempool
                   \* PoolToNetAdapter::stem_tx_accepted
                   want == epoch.stem \/ (src = "PushApi" /\ AlwaysStemOurs)
                   rl == IF want THEN NextRelay(np) ELSE epoch.relay
               IN IF ~want                              \* fluff epoch: held back for the monitor to aggregate
                  THEN [res |-> "ok_stem", why |-> "held", tp |-> txpool, sp |-> sp1,
                        ev |-> IF AnnounceStem THEN <<Bcast(t)>> ELSE <<>>, relay |-> rl]
                  ELSE IF rl # 0 /\ sendok
                  THEN [res |-> "ok_stem", why |-> "relayed", tp |-> txpool, sp |-> sp1,
                        ev |-> IF AnnounceStem THEN <<StemTo(t, rl), Bcast(t)>> ELSE <<StemTo(t, rl)>>, relay |-> rl]
                  \* no relay / send failed: fall back to fluff. The entry is in the stempool already; when the public
                  \* pool refuses it (it spends an output of a stem tx) add_to_pool returns the error and it stays there.
                  ELSE W(AddPublic(t, src, txpool, sp1), rl)

Bound == MaxSteps = 0 \/ nsteps < MaxSteps
Tick == nsteps' = IF MaxSteps = 0 THEN 0 ELSE nsteps + 1
Quiet == AtomicMonitor => mpc = 0      \* nothing interleaves with a monitor iteration

Submit(t, src, stem, sendok, np) ==
  /\ Bound /\ Quiet
  /\ src \in {"PushApi", "Broadcast"}
  /\ LET r == IF stem THEN Stem(t, src, sendok, np)
              ELSE W(Fluff(t, src, txpool, stempool), epoch.relay)
     IN /\ txpool' = r.tp
        /\ stempool' = r.sp
        /\ epoch' = [epoch EXCEPT !.relay = r.relay]
        /\ last' = [k |-> "Submit", t |-> t, src |-> src, stem |-> stem, sendok |-> sendok, np |-> np,
                    res |-> r.res, why |-> r.why, ev |-> r.ev]
  /\ Tick
  /\ UNCHANGED <<chain, connected, mpc>>

----------------------------------------------------------------------------
\* the monitor (one iteration of the loop of monitor_transactions = the three actions below in this order)
Older(sp, secs) == SelectSeq(sp, LAMBDA x : x.age > secs)             \* select_txs_cutoff

\* process_fluff_phase
FluffPhase ==
  LET idle == [res |-> "idle", t |-> {}, tp |-> txpool, sp |-> stempool, ev |-> <<>>]
      err(t) == [res |-> "error", t |-> t, tp |-> txpool, sp |-> IF DropOnFluffError THEN <<>> ELSE stempool, ev |-> <<>>]
  IN IF stempool = <<>> THEN idle
     ELSE IF ~IsExpired /\ Older(stempool, AggSecs) = <<>> THEN idle          \* give the txs more time to aggregate
     ELSE LET cand == IF FluffAll THEN stempool ELSE Older(stempool, AggSecs)
              good == ValidateRaw(TxsOf(cand), <<>>, TxsOf(txpool), U)
              agg == AtomsIn(good)
          IN IF agg = {} THEN err(agg)
             ELSE IF Weight(TxOf(agg)) > MaxTxWeight THEN err(agg)        \* agg_tx.validate(Weighting::AsTransaction)
             ELSE LET r == Fluff(agg, "Fluff", txpool, stempool)
                  IN IF r.res = "reject" THEN err(agg)
                     ELSE [res |-> "ok", t |-> agg, tp |-> r.tp, sp |-> r.sp, ev |-> r.ev]

MonitorFluffPhase ==
  /\ Bound /\ mpc = 0
  /\ mpc' = 1
  /\ IF epoch.stem                      \* `if !adapter.is_stem()`
     THEN /\ last' = [k |-> "FluffPhase", res |-> "skipped", t |-> {}, ev |-> <<>>]
          /\ UNCHANGED <<txpool, stempool>>
     ELSE LET r == FluffPhase
          IN /\ txpool' = r.tp /\ stempool' = r.sp
             /\ last' = [k |-> "FluffPhase", res |-> r.res, t |-> r.t, ev |-> r.ev]
  /\ Tick
  /\ UNCHANGED <<chain, epoch, connected>>

\* process_expired_entries : every entry of the snapshot is re-submitted as EmbargoExpired, errors only logged
RECURSIVE ExpireAll(_, _, _, _, _)
ExpireAll(es, tp, sp, ev, outs) ==
  IF es = <<>> THEN [tp |-> tp, sp |-> sp, ev |-> ev, outs |-> outs]
  ELSE LET r == Fluff(Head(es).tx, "EmbargoExpired", tp, sp)
       IN ExpireAll(Tail(es), r.tp, r.sp, ev \o r.ev, Append(outs, [tx |-> Head(es).tx, res |-> r.res, why |-> r.why]))

MonitorExpired(j) ==
  /\ Bound /\ mpc = 1
  /\ mpc' = 2
  /\ j \in 0..Jitter
  /\ IF ~ExpireInStemEpoch /\ epoch.stem
     THEN /\ last' = [k |-> "Expired", j |-> j, res |-> "skipped", outs |-> <<>>, ev |-> <<>>]
          /\ UNCHANGED <<txpool, stempool>>
     ELSE LET r == ExpireAll(Older(stempool, EmbargoSecs + j), txpool, stempool, <<>>, <<>>)
          IN /\ txpool' = r.tp /\ stempool' = r.sp
             /\ last' = [k |-> "Expired", j |-> j, res |-> "done", outs |-> r.outs, ev |-> r.ev]
  /\ Tick
  /\ UNCHANGED <<chain, epoch, connected>>

\* `if adapter.is_expired() { adapter.next_epoch() }` : DandelionEpoch::next_epoch draws stem / fluff and a relay
EpochRollover(st, np) ==
  /\ Bound /\ mpc = 2
  /\ mpc' = 0
  /\ IF IsExpired
     THEN /\ np \in (IF connected = {} THEN {0} ELSE connected)
          /\ epoch' = [stem |-> st, age |-> 0, relay |-> np]
          /\ last' = [k |-> "Rollover", res |-> "rolled", st |-> st, np |-> np, ev |-> <<>>]
     ELSE /\ st = TRUE /\ np = 0
          /\ UNCHANGED epoch
          /\ last' = [k |-> "Rollover", res |-> "kept", st |-> st, np |-> np, ev |-> <<>>]
  /\ Tick
  /\ UNCHANGED <<chain, txpool, stempool, connected>>

----------------------------------------------------------------------------
\* environment
CoinbaseWeight == 24      \* one output (21) + one kernel (3)
ValidBlock(B, ch) == JointOK(B, Utxo(ch)) /\ Weight(TxOf(B)) + CoinbaseWeight <= MaxBlockWeight
\* ChainToPoolAndNetAdapter::block_accepted -> TransactionPool::reconcile_block
ConnectBlock(B) ==
  /\ Bound /\ Quiet
  /\ Len(chain) < MaxBlocks
  /\ B \in BlockSet /\ ValidBlock(B, chain)
  /\ chain' = Append(chain, B)
  /\ LET u == Utxo(chain')
         tp1 == Rebuild(ReconcileBlock(txpool, B), <<>>, <<>>, u)
     IN /\ txpool' = tp1
        /\ stempool' = Rebuild(ReconcileBlock(stempool, B), <<>>, TxsOf(tp1), u)
  /\ last' = [k |-> "Connect", b |-> B, ev |-> <<>>]
  /\ Tick
  /\ UNCHANGED <<epoch, connected, mpc>>

AgeCap == EmbargoSecs + Jitter + 1
EpochCap == EpochSecs + 1
AdvanceClock(d) ==
  /\ Bound /\ Quiet
  /\ d \in Ticks
  /\ stempool' = [i \in 1..Len(stempool) |-> [stempool[i] EXCEPT !.age = Lesser(@ + d, AgeCap)]]
  /\ epoch' = [epoch EXCEPT !.age = IF @ = -1 THEN -1 ELSE Lesser(@ + d, EpochCap)]
  /\ last' = [k |-> "Advance", d |-> d, ev |-> <<>>]
  /\ Tick
  /\ UNCHANGED <<chain, txpool, connected, mpc>>

PeerChange(c) ==
  /\ Bound /\ Quiet /\ Churn
  /\ c \subseteq Peers /\ c # connected
  /\ connected' = c
  /\ last' = [k |-> "Peers", c |-> c, ev |-> <<>>]
  /\ Tick
  /\ UNCHANGED <<chain, txpool, stempool, epoch, mpc>>

Init == /\ chain = <<>> /\ txpool = <<>> /\ stempool = <<>>
        /\ epoch = [stem |-> TRUE, age |-> -1, relay |-> 0]            \* DandelionEpoch::new
        /\ connected \in SUBSET Peers
        /\ mpc = 0 /\ last = [k |-> "Init", ev |-> <<>>] /\ nsteps = 0

\* the arguments that cannot matter are fixed (np: only when stem_tx_accepted has to choose a relay; sendok: only when
\* there is a relay to send to)
Relaying(src) == epoch.stem \/ (src = "PushApi" /\ AlwaysStemOurs)
SubmitAny == \E t \in Subs, src \in {"PushApi", "Broadcast"}, stem \in BOOLEAN :
             \E np \in (IF stem /\ Relaying(src) THEN RelayChoices ELSE {0}) :
             \E sendok \in (IF stem /\ Relaying(src) /\ NextRelay(np) # 0 THEN BOOLEAN ELSE {TRUE}) :
               Submit(t, src, stem, sendok, np)
ExpiredAny == \E j \in 0..Jitter : MonitorExpired(j)
RolloverAny == \E st \in BOOLEAN, np \in Peers \cup {0} : EpochRollover(st, np)
ConnectAny == \E B \in BlockSet : ConnectBlock(B)
AdvanceAny == \E d \in Ticks : AdvanceClock(d)
PeersAny == \E c \in SUBSET Peers : PeerChange(c)
Next == SubmitAny \/ MonitorFluffPhase \/ ExpiredAny \/ RolloverAny \/ ConnectAny \/ AdvanceAny \/ PeersAny
Spec == Init /\ [][Next]_vars
\* the monitor thread keeps running and time passes
Fairness == WF_vars(MonitorFluffPhase) /\ WF_vars(ExpiredAny) /\ WF_vars(RolloverAny) /\ WF_vars(AdvanceAny)
FairSpec == Spec /\ Fairness

----------------------------------------------------------------------------
\* Properties
PubAtoms == AtomsIn(TxsOf(txpool))
StemAtoms == AtomsIn(TxsOf(stempool))
Conf == Confirmed(chain)
EvAtoms(kind) == UNION {last.ev[i].tx : i \in {j \in 1..Len(last.ev) : last.ev[j].e = kind}}
Sources == {"PushApi", "Broadcast", "Fluff", "EmbargoExpired", "Deaggregate"}

TypeOK == /\ \A i \in 1..Len(txpool) : txpool[i].tx \subseteq AtomIds /\ txpool[i].tx # {} /\ txpool[i].src \in Sources
          /\ \A i \in 1..Len(stempool) : /\ stempool[i].tx \subseteq AtomIds /\ stempool[i].tx # {}
                                         /\ stempool[i].age \in 0..AgeCap /\ stempool[i].src \in {"PushApi", "Broadcast"}
          /\ epoch.stem \in BOOLEAN /\ epoch.age \in -1..EpochCap /\ epoch.relay \in Peers \cup {0}
          /\ connected \subseteq Peers /\ mpc \in 0..2

\* (S1) the public pool applies on the chain, the stempool applies on top of it, no kernel is in both
PoolValid == JointSeq(TxsOf(txpool), U)
S1_StemValid == JointSeq(TxsOf(txpool) \o TxsOf(stempool), U)
\* insertion order is arrival order: an entry is never younger than a later one
StemAgesOrdered == \A i, j \in 1..Len(stempool) : i < j => stempool[i].age >= stempool[j].age

\* (S2) whatever was announced to the whole network in the last action is public now (in the txpool) and not in the
\* stempool; a transaction that was only stem-accepted is announced to nobody but (at most) the one relay peer of the
\* epoch, which is connected
S2_NoEarlyAnnounce ==
  /\ EvAtoms("bcast") \cap StemAtoms = {}
  /\ EvAtoms("bcast") \subseteq PubAtoms
  /\ (last.k = "Submit" /\ last.res = "ok_stem") =>
       /\ EvAtoms("bcast") = {}
       /\ Len(last.ev) <= 1
       /\ \A i \in 1..Len(last.ev) : last.ev[i].peer \in connected /\ last.ev[i].peer = epoch.relay /\ last.ev[i].tx = last.t
  /\ (last.k # "Submit") => EvAtoms("stem") = {}

\* (S3) bounded residence: right after process_expired_entries no entry is older than the embargo plus the largest
\* addend, unless its re-submission failed for a reason the model names
NamedFailures == {"missing_input", "conflict", "weight"}
S3_BoundedResidence ==
  (last.k = "Expired") =>
     \A i \in 1..Len(stempool) : stempool[i].age > EmbargoSecs + Jitter =>
        \E n \in 1..Len(last.outs) : /\ last.outs[n].tx = stempool[i].tx /\ last.outs[n].res = "reject"
                                     /\ last.outs[n].why \in NamedFailures
\* ... and in this model (pool never over capacity, fees paid) the exception never applies
S3_Strict == (last.k = "Expired") => \A i \in 1..Len(stempool) : stempool[i].age <= EmbargoSecs + Jitter

\* the fluff phase aggregates ALL stempool entries (which S1 makes jointly valid): a successful one leaves nothing behind
S5_FluffTakesAll == (last.k = "FluffPhase" /\ last.res = "ok") => stempool = <<>>

\* (S4) fluffing never loses a kernel: every kernel that leaves the stempool in a monitor step is in the public pool
S4_NoKernelLost ==
  [][last'.k \in {"FluffPhase", "Expired"} => (StemAtoms \ StemAtoms') \subseteq PubAtoms']_vars
\* no entry leaves the stempool silently: it is public or confirmed as a whole, or it has been overtaken (one of its
\* kernels is public / confirmed in another transaction - an aggregate cannot be taken apart), or one of its kernels can
\* no longer be valid on top of the public pool whatever else is added
DoomedIn(k, pub, u) == k \notin pub /\ \A S \in SUBSET (AtomIds \ pub) : k \in S => ~JointOK(pub \cup S, u)
Doomed(k) == DoomedIn(k, PubAtoms, U)
SettledIn(x, pub, conf, u) == \/ x \subseteq pub \/ x \subseteq conf
                              \/ x \cap (pub \cup conf) # {}
                              \/ \E k \in x : DoomedIn(k, pub, u)
NoSilentDrop ==
  [][\A x \in SeqToSet(TxsOf(stempool)) \ SeqToSet(TxsOf(stempool')) : SettledIn(x, PubAtoms', Conf', U')]_vars
\* a rejected submission changes neither pool - except the stem fallback refused by the public pool (the entry stays private)
RejectKeepsPools ==
  [][(last'.k = "Submit" /\ last'.res = "reject") =>
        /\ txpool' = txpool
        /\ stempool' = stempool \/ (last'.stem /\ last'.why = "conflict" /\ Len(stempool') = Len(stempool) + 1
                                     /\ stempool'[Len(stempool')].tx = last'.t)]_vars
\* the roll-over is the last thing an iteration does: the epoch only changes there (or its relay when a stem tx needs one)
EpochOnlyAtRollover ==
  [][(epoch'.stem # epoch.stem \/ epoch'.age < epoch.age) => last'.k = "Rollover" /\ last'.res = "rolled"]_vars

\* liveness: every stem-accepted transaction ends up public, confirmed, or overtaken / no longer valid
Live == \A x \in Subs : (x \in SeqToSet(TxsOf(stempool))) ~> SettledIn(x, PubAtoms, Conf, U)
=============================================================================
