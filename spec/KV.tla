-------------------------------- MODULE KV --------------------------------
(* C18 - grin_store::lmdb  Store / Batch / child() / iterators / map resize.           *)
(*                                                                                      *)
(* What the code does (store/src/lmdb.rs at the pinned commit):                         *)
(*  * Store::batch()  = maybe_resize(); enter_tx(); env.write_txn()  - ONE LMDB write   *)
(*    transaction; LMDB's writer mutex serialises batches of all threads, so at any     *)
(*    instant there is at most one open batch stack in the whole process (`stack`).     *)
(*  * Batch::child()  = env.nested_write_txn(&mut parent.write): a nested LMDB write    *)
(*    transaction. The parent is mutably borrowed while the child lives, hence only     *)
(*    the innermost level can be read or written. commit() of the child folds it into   *)
(*    its parent only; dropping it aborts it.                                           *)
(*  * Batch::get_ser / exists / iter read through write.nested_read_txn(): they see     *)
(*    the innermost write transaction's own view (its writes over its ancestors' over   *)
(*    the committed map).                                                               *)
(*  * Store::get_ser / exists / iter open a fresh read transaction: they see the last   *)
(*    committed map; an iterator keeps its read transaction (snapshot) until dropped.   *)
(*  * maybe_resize() (only called from batch()) enlarges the map iff more than 90 % is  *)
(*    used, and only once no transaction is open in the process (enter_tx gate):        *)
(*    it raises the flag `resizing` (from then on enter_tx lets nobody in), and the      *)
(*    enlargement itself (mdb_env_set_mapsize) is DEFERRED until the count of open       *)
(*    transactions (OpenTxs below) is 0. The batch that asked for it is parked at the    *)
(*    gate meanwhile (BeginWait .. Admit) and must NOT yet own LMDB's write transaction: *)
(*    set_mapsize refuses (EINVAL, only logged) while a write transaction is active, and *)
(*    the parked batch would then carry on against the old, full map. The constant       *)
(*    TxnBeforeGate = TRUE is that careless order (write_txn() before enter_tx()); it    *)
(*    exists only to show that NoMapFull / ResizeGate are not vacuous.                   *)
(*                                                                                      *)
(* Two formulations of the nested state are carried side by side and required to agree: *)
(*   stack  - overlays (puts / tombstones per level; reads resolve top-down)            *)
(*   shadow - what LMDB does: every nested transaction owns a full private view that    *)
(*            starts as a copy of its parent's and replaces it on commit.               *)
EXTENDS Integers, Sequences, FiniteSets

CONSTANTS NS,        \* key spaces (prefix databases) 1..NS
          NK,        \* keys 1..NK in every space (ordered as LMDB orders them)
          Vals,      \* values (positive integers; the harness maps them to byte strings)
          MaxDepth,  \* nesting bound: batch, child, grand-child ...
          NR,        \* outside iterator handles 1..NR (held by other threads)
          MapInit,   \* initial map size, in space units
          Chunk,     \* allocation chunk, in space units
          PutCost,   \* space units a put may newly allocate (0 switches space accounting off)
          BatchMax,  \* ASSUMPTION on callers: a batch allocates at most this many units
          TxnBeforeGate  \* FALSE: Batch::new = enter_tx() then write_txn() (the code, the property);
                         \* TRUE: write_txn() first - the waiting batch owns the write transaction (careless variant)

Spaces  == 1..NS
Keys    == 1..NK
Readers == 1..NR
Cells   == Spaces \X Keys
NoVal     == 0       \* absent
Untouched == -1      \* overlay has no entry for the cell

ASSUME Vals \subseteq (Nat \ {0})
\* The resize policy (RESIZE_PERCENT = 0.9, checked only when a batch is opened) keeps at
\* least 10 % of the map free at Begin. The property is claimed for batches below that.
ASSUME BatchMax * 10 <= MapInit /\ MapInit >= Chunk

VARIABLES committed,  \* [Cells -> Vals \cup {NoVal}]   durable, what every outside reader sees
          stack,      \* Seq of overlays: the open batch and its nested children
          shadow,     \* Seq of full views, same length as stack (LMDB-shaped formulation)
          snap,       \* [Readers -> snapshot held by an outside iterator, or NoSnap]
          mapSize, used, pend,   \* space accounting (units): map, high-water mark, open batch
          resizing,   \* EnvState.resizing: an enlargement has been requested and not yet carried out
          parked,     \* "no" | "gate": a batch() call waits at the enter_tx gate for the enlargement, owning nothing
                      \* | "gate_txn": it waits there while already owning LMDB's write transaction (careless variant only)
          act         \* label, arguments and RESULT of the last action (not part of the state view)

vars  == <<committed, stack, shadow, snap, mapSize, used, pend, resizing, parked, act>>
state == <<committed, stack, shadow, snap, mapSize, used, pend, resizing, parked>>
gate  == <<resizing, parked>>

Maps     == [Cells -> Vals \cup {NoVal}]
Overlays == [Cells -> Vals \cup {NoVal, Untouched}]
EmptyMap == [c \in Cells |-> NoVal]
EmptyOv  == [c \in Cells |-> Untouched]
NoSnap   == [open |-> FALSE]
Depth    == Len(stack)

-----------------------------------------------------------------------------
(* Definitions *)
ApplyOv(m, o) == [c \in Cells |-> IF o[c] = Untouched THEN m[c] ELSE o[c]]

RECURSIVE ApplyAll(_, _)
ApplyAll(m, s) == IF s = <<>> THEN m ELSE ApplyAll(ApplyOv(m, Head(s)), Tail(s))

\* definitional view of nesting level i (0 = committed): overlays applied bottom-up
ViewAt(i) == ApplyAll(committed, SubSeq(stack, 1, i))

\* implementation-shaped read: first level, from the innermost outwards, that has an entry
RECURSIVE LookupFrom(_, _)
LookupFrom(i, c) == IF i = 0 THEN committed[c]
                    ELSE IF stack[i][c] # Untouched THEN stack[i][c]
                    ELSE LookupFrom(i - 1, c)
Lookup(c) == LookupFrom(Depth, c)
TopView   == [c \in Cells |-> Lookup(c)]

\* ordered iteration over one key space of a map: <<key, value>> pairs, ascending keys
RECURSIVE IterFrom(_, _, _)
IterFrom(m, sp, k) == IF k > NK THEN <<>>
                      ELSE IF m[<<sp, k>>] # NoVal
                           THEN <<<<k, m[<<sp, k>>]>>>> \o IterFrom(m, sp, k + 1)
                           ELSE IterFrom(m, sp, k + 1)
IterRes(m, sp) == IterFrom(m, sp, 1)

\* resize policy of needs_resize() in integer arithmetic
NeedsResize == used * 10 > mapSize * 9 \/ mapSize < Chunk
NewSize == IF mapSize < Chunk THEN Chunk
           ELSE LET base == mapSize - (mapSize % Chunk)
                    cand == {base + i * Chunk : i \in 0..((used * 2) \div Chunk + 2)}
                    ok   == {t \in cand : used * 100 <= t * 65}
                IN CHOOSE t \in ok : \A t2 \in ok : t <= t2

NoReaderOpen == \A r \in Readers : snap[r] = NoSnap
\* what EnvState.open_txs_count has to equal at every instant (enter_tx increments, TxCounter::drop decrements):
\* the open outside read transactions plus the open batch. The enlargement waits for it to be 0 - a count that
\* drifts upwards (a lost decrement) means the enlargement, and with it every later store call, waits for ever.
OpenTxs == Cardinality({r \in Readers : snap[r] # NoSnap}) + (IF stack # <<>> THEN 1 ELSE 0)
GateOpen == ~resizing /\ parked = "no"

-----------------------------------------------------------------------------
Init == /\ committed = EmptyMap /\ stack = <<>> /\ shadow = <<>>
        /\ snap = [r \in Readers |-> NoSnap]
        /\ mapSize = MapInit /\ used = 0 /\ pend = 0
        /\ resizing = FALSE /\ parked = "no"
        /\ act = [k |-> "Init"]

(* ---- the writer: Store::batch() and everything done through the Batch ---- *)
Begin == /\ stack = <<>>                 \* LMDB writer mutex: one batch stack at a time
         /\ GateOpen
         /\ ~NeedsResize                 \* batch() resizes first (and waits for open readers): BeginWait
         /\ stack' = <<EmptyOv>> /\ shadow' = <<committed>> /\ pend' = 0
         /\ act' = [k |-> "Begin"]
         /\ UNCHANGED <<committed, snap, mapSize, used, gate>>

\* batch() on a map that is more than 90 % full: maybe_resize() raises `resizing`; the caller parks at the
\* enter_tx gate until the enlargement has been carried out (at once if OpenTxs = 0, else when the last open
\* transaction of the other threads is closed). (Two writers racing the needs_resize check are outside the model.)
BeginWait == /\ stack = <<>> /\ GateOpen /\ NeedsResize
             /\ resizing' = TRUE
             /\ parked' = IF TxnBeforeGate THEN "gate_txn" ELSE "gate"
             /\ act' = [k |-> "BeginWait"]
             /\ UNCHANGED <<committed, stack, shadow, snap, mapSize, used, pend>>

\* the gate opens: the parked batch gets (or, careless variant, already has) the write transaction and goes on
Admit == /\ parked # "no" /\ ~resizing /\ stack = <<>>
         /\ stack' = <<EmptyOv>> /\ shadow' = <<committed>> /\ pend' = 0
         /\ parked' = "no"
         /\ act' = [k |-> "Begin"]
         /\ UNCHANGED <<committed, snap, mapSize, used, resizing>>

Write(sp, key, v, name, cost) ==
         /\ Depth > 0 /\ pend + cost <= BatchMax
         /\ stack'  = [stack  EXCEPT ![Depth][<<sp, key>>] = v]
         /\ shadow' = [shadow EXCEPT ![Depth][<<sp, key>>] = v]
         /\ pend' = pend + cost
         /\ act' = [k |-> name, sp |-> sp, key |-> key, val |-> v]
         /\ UNCHANGED <<committed, snap, mapSize, used, gate>>
Put(sp, key, v) == v \in Vals /\ Write(sp, key, v, "Put", PutCost)
Del(sp, key)    == Write(sp, key, NoVal, "Del", 0)     \* deleting an absent key is a no-op, not an error

Read(a) == Depth > 0 /\ act' = a /\ UNCHANGED state
Get(sp, key)    == Read([k |-> "Get", sp |-> sp, key |-> key, res |-> Lookup(<<sp, key>>)])
Exists(sp, key) == Read([k |-> "Exists", sp |-> sp, key |-> key, res |-> Lookup(<<sp, key>>) # NoVal])
Iter(sp)        == Read([k |-> "Iter", sp |-> sp, res |-> IterRes(TopView, sp)])

Child == /\ Depth >= 1 /\ Depth < MaxDepth
         /\ stack' = Append(stack, EmptyOv)
         /\ shadow' = Append(shadow, shadow[Depth])
         /\ act' = [k |-> "Child"]
         /\ UNCHANGED <<committed, snap, mapSize, used, pend, gate>>

MergeOv(below, top) == [c \in Cells |-> IF top[c] # Untouched THEN top[c] ELSE below[c]]

CommitChild == /\ Depth >= 2
               /\ stack'  = SubSeq(stack, 1, Depth - 2) \o <<MergeOv(stack[Depth - 1], stack[Depth])>>
               /\ shadow' = SubSeq(shadow, 1, Depth - 2) \o <<shadow[Depth]>>
               /\ act' = [k |-> "CommitChild"]
               /\ UNCHANGED <<committed, snap, mapSize, used, pend, gate>>

DropChild == /\ Depth >= 2
             /\ stack'  = SubSeq(stack, 1, Depth - 1)
             /\ shadow' = SubSeq(shadow, 1, Depth - 1)
             /\ act' = [k |-> "DropChild"]
             /\ UNCHANGED <<committed, snap, mapSize, used, pend, gate>>

Commit == /\ Depth = 1
          /\ committed' = ApplyOv(committed, stack[1])
          /\ stack' = <<>> /\ shadow' = <<>>
          /\ used' = used + pend /\ pend' = 0      \* pessimistic: freed pages are never reused
          /\ act' = [k |-> "Commit"]
          /\ UNCHANGED <<snap, mapSize, gate>>

Drop == /\ Depth = 1
        /\ stack' = <<>> /\ shadow' = <<>> /\ pend' = 0
        /\ act' = [k |-> "Drop"]
        /\ UNCHANGED <<committed, snap, mapSize, used, gate>>

(* ---- other threads: Store::get_ser / exists / iter on fresh read transactions ---- *)
OutGetRes(m, sp, key)    == m[<<sp, key>>]
OutExistsRes(m, sp, key) == m[<<sp, key>>] # NoVal
OutRead(a) == ~resizing /\ act' = a /\ UNCHANGED state      \* enter_tx lets nobody in while `resizing` is up
OutGet(sp, key)    == OutRead([k |-> "OutGet", sp |-> sp, key |-> key, res |-> OutGetRes(committed, sp, key)])
OutExists(sp, key) == OutRead([k |-> "OutExists", sp |-> sp, key |-> key, res |-> OutExistsRes(committed, sp, key)])
OutIter(sp)        == OutRead([k |-> "OutIter", sp |-> sp, res |-> IterRes(committed, sp)])

OutIterOpen(r, sp) == /\ snap[r] = NoSnap /\ ~resizing
                      /\ snap' = [snap EXCEPT ![r] = [open |-> TRUE, m |-> committed, sp |-> sp, pos |-> 0]]
                      /\ act' = [k |-> "OutIterOpen", r |-> r, sp |-> sp]
                      /\ UNCHANGED <<committed, stack, shadow, mapSize, used, pend, gate>>

NextKeys(s) == {k2 \in Keys : k2 > s.pos /\ s.m[<<s.sp, k2>>] # NoVal}
OutIterNext(r) == /\ snap[r] # NoSnap
                  /\ LET s == snap[r] nk == NextKeys(s) IN
                     IF nk = {} THEN
                        /\ snap' = [snap EXCEPT ![r].pos = NK + 1]
                        /\ act' = [k |-> "OutIterNext", r |-> r, res |-> <<>>]
                     ELSE LET k1 == CHOOSE k2 \in nk : \A k3 \in nk : k2 <= k3 IN
                        /\ snap' = [snap EXCEPT ![r].pos = k1]
                        /\ act' = [k |-> "OutIterNext", r |-> r, res |-> <<k1, s.m[<<s.sp, k1>>]>>]
                  /\ UNCHANGED <<committed, stack, shadow, mapSize, used, pend, gate>>

OutIterClose(r) == /\ snap[r] # NoSnap
                   /\ snap' = [snap EXCEPT ![r] = NoSnap]
                   /\ act' = [k |-> "OutIterClose", r |-> r]
                   /\ UNCHANGED <<committed, stack, shadow, mapSize, used, pend, gate>>

(* ---- the environment ---- *)
\* mdb_env_set_mapsize, requested by BeginWait: carried out only once no transaction is open in the process
\* (OpenTxs = 0; nobody can get in meanwhile) - and the batch parked at the gate does not own the write transaction
Resize == /\ resizing /\ OpenTxs = 0 /\ parked # "gate_txn"
          /\ mapSize' = NewSize /\ resizing' = FALSE
          /\ act' = [k |-> "Resize"]
          /\ UNCHANGED <<committed, stack, shadow, snap, used, pend, parked>>

\* careless variant only: the parked batch owns LMDB's write transaction, mdb_env_set_mapsize answers EINVAL,
\* which is only logged; the flag is cleared all the same and the batch goes on against the old map
ResizeRefused == /\ resizing /\ NoReaderOpen /\ parked = "gate_txn"
                 /\ resizing' = FALSE
                 /\ act' = [k |-> "ResizeRefused"]
                 /\ UNCHANGED <<committed, stack, shadow, snap, mapSize, used, pend, parked>>

\* process death at any instant (in particular right before / right after Commit)
Crash == /\ stack' = <<>> /\ shadow' = <<>> /\ pend' = 0
         /\ snap' = [r \in Readers |-> NoSnap]
         /\ resizing' = FALSE /\ parked' = "no"
         /\ act' = [k |-> "Crash"]
         /\ UNCHANGED <<committed, mapSize, used>>

Next == \/ Begin \/ BeginWait \/ Admit \/ ResizeRefused \/ Child \/ CommitChild \/ DropChild \/ Commit \/ Drop \/ Resize \/ Crash
        \/ \E sp \in Spaces : \/ Iter(sp) \/ OutIter(sp)
                              \/ \E r \in Readers : OutIterOpen(r, sp)
                              \/ \E key \in Keys : \/ Del(sp, key) \/ Get(sp, key) \/ Exists(sp, key)
                                                   \/ OutGet(sp, key) \/ OutExists(sp, key)
                                                   \/ \E v \in Vals : Put(sp, key, v)
        \/ \E r \in Readers : OutIterNext(r) \/ OutIterClose(r)

Spec == Init /\ [][Next]_vars

-----------------------------------------------------------------------------
(* Properties *)
TypeOK == /\ committed \in Maps
          /\ Depth <= MaxDepth /\ Len(shadow) = Depth
          /\ \A i \in 1..Depth : stack[i] \in Overlays /\ shadow[i] \in Maps
          /\ \A r \in Readers : snap[r] = NoSnap \/
                (snap[r].open /\ snap[r].m \in Maps /\ snap[r].sp \in Spaces /\ snap[r].pos \in 0..NK + 1)
          /\ mapSize \in Nat /\ used \in Nat /\ pend \in 0..BatchMax
          /\ resizing \in BOOLEAN /\ parked \in {"no", "gate", "gate_txn"}
          /\ (parked = "gate_txn" => TxnBeforeGate)
          /\ (resizing => parked # "no") /\ (parked # "no" => stack = <<>>)

\* the overlay formulation, the definitional bottom-up view and LMDB's private-view
\* formulation agree at every level; inside reads resolve top-down to exactly that view
ShadowAgrees  == \A i \in 1..Depth : shadow[i] = ViewAt(i)
LookupTopDown == Depth > 0 => TopView = shadow[Depth]

\* no operation fails for lack of space (under the BatchMax assumption)
NoMapFull == used + pend <= mapSize
\* the map is never enlarged under an open transaction - in particular not under a write transaction owned by
\* the batch that waits for the enlargement - and no batch starts on a map that still needs to be enlarged
ResizeGate == [][/\ act'.k = "Resize" => (stack = <<>> /\ NoReaderOpen /\ parked = "gate")
                 /\ act'.k = "Begin" => ~NeedsResize]_vars
\* a batch waiting at the gate never owns the write transaction
WaiterOwnsNothing == parked # "gate_txn"

\* Isolation + atomicity: the committed map changes only at a top-level Commit, and then
\* to the whole view of the batch at once (every write of the batch and of every child
\* that was committed into it, nothing else).
CommitAtomic == [][committed' # committed =>
                      (act'.k = "Commit" /\ Depth = 1 /\ committed' = shadow[1] /\ stack' = <<>>)]_vars
\* a child's writes reach its parent's view only through CommitChild, and entirely
ChildFolds == [][act'.k = "CommitChild" =>
                      (shadow'[Depth - 1] = shadow[Depth] /\ committed' = committed)]_vars
\* dropping leaves no trace
DropNoTrace == [][/\ act'.k = "DropChild" => (shadow' = SubSeq(shadow, 1, Depth - 1) /\ committed' = committed)
                  /\ act'.k = "Drop" => (committed' = committed /\ stack' = <<>>)]_vars
\* outside iterators keep the snapshot they were opened on, which was the committed map
SnapStable == [][\A r \in Readers :
                   /\ (snap[r] # NoSnap /\ snap'[r] # NoSnap) => (snap'[r].m = snap[r].m /\ snap'[r].sp = snap[r].sp)
                   /\ (snap[r] = NoSnap /\ snap'[r] # NoSnap) => snap'[r].m = committed]_vars
\* resize and crash do not touch committed data; a crash discards exactly the open batch
ResizeStutter == [][act'.k \in {"Resize", "BeginWait", "ResizeRefused"} => UNCHANGED <<committed, stack, shadow, snap>>]_vars
CrashDurable  == [][act'.k = "Crash" => (committed' = committed /\ stack' = <<>>)]_vars
=============================================================================
