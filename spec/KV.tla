-------------------------------- MODULE KV --------------------------------
(* C18 - grin_store::lmdb  Store / Batch / child() / iterators / map resize.           *)
(*                                                                                      *)
(* What the code does (store/src/lmdb.rs at the pinned commit):                         *)
(*  * Store::batch()  = maybe_resize(); enter_tx(); env.write_txn()  - ONE LMDB write   *)
(*    transaction; LMDB's writer mutex serialises batches of all threads, so at any     *)
(*    instant there is at most one open batch stack in the whole process (`stack`).     *)
(*  * Batch::child()  = env.nested_write_txn(&mut parent.write): a nested LMDB write    *)
(*    transaction. The parent is mutably borrowed while the child lives, hence only     *)
(*    the innermost level can be read or written. commit() of the child folds it into   *)
(*    its parent only; dropping it aborts it.                                           *)
(*  * Batch::get_ser / exists / iter read through write.nested_read_txn(): they see     *)
(*    the innermost write transaction's own view (its writes over its ancestors' over   *)
(*    the committed map).                                                               *)
(*  * Store::get_ser / exists / iter open a fresh read transaction: they see the last   *)
(*    committed map; an iterator keeps its read transaction (snapshot) until dropped.   *)
(*  * maybe_resize() (only called from batch()) enlarges the map iff more than 90 % is  *)
(*    used, and only once no transaction is open in the process (enter_tx gate):        *)
(*    it raises the flag `resizing` (from then on enter_tx lets nobody in who does not   *)
(*    already hold a transaction), and the                                               *)
(*    enlargement itself (mdb_env_set_mapsize) is DEFERRED until the count of open       *)
(*    transactions (OpenTxs below) is 0. The batch that asked for it is parked at the    *)
(*    gate meanwhile (BeginWait .. Admit) and must NOT yet own LMDB's write transaction: *)
(*    set_mapsize refuses (EINVAL, only logged) while a write transaction is active, and *)
(*    the parked batch would then carry on against the old, full map. The constant       *)
(*    TxnBeforeGate = TRUE is that careless order (write_txn() before enter_tx()); it    *)
(*    exists only to show that NoMapFull / ResizeGate are not vacuous.                   *)
(*                                                                                      *)
(*  * enter_tx() is the gate EVERY transaction passes (Store::get_ser / exists / iter,     *)
(*    Batch::new): it counts the transaction in EnvState.open_txs_count (`cnt`) and in the *)
(*    calling thread's THREAD_TX_COUNTS entry (`mark[t]`); TxCounter::drop undoes both     *)
(*    when the transaction is closed. A thread may hold several transactions at once (an   *)
(*    iterator, a read in flight under it, a batch): the enlargement waits for cnt = 0,    *)
(*    which has to mean "no transaction of any thread is open" (OpenTxs = 0), and while    *)
(*    `resizing` is up the gate lets through exactly the threads that already hold a       *)
(*    transaction (mark[t] > 0) - making such a thread wait would be a deadlock: the       *)
(*    enlargement waits for the transaction it holds. Two careless variants exist only to  *)
(*    show that CountAgrees / NoRemapUnderTxn / NoHolderParked / GateLive are not vacuous: *)
(*    NestedCloseClearsMark = TRUE (the per-thread count is a mere mark that ANY close     *)
(*    wipes) and ReadNotCounted = TRUE (the counter guard of a plain read dies before the  *)
(*    read transaction does).                                                              *)
(*                                                                                      *)
(* Two formulations of the nested state are carried side by side and required to agree: *)
(*   stack  - overlays (puts / tombstones per level; reads resolve top-down)            *)
(*   shadow - what LMDB does: every nested transaction owns a full private view that    *)
(*            starts as a copy of its parent's and replaces it on commit.               *)
EXTENDS Integers, Sequences, FiniteSets

CONSTANTS NS,        \* key spaces (prefix databases) 1..NS
          NK,        \* keys 1..NK in every space (ordered as LMDB orders them)
          Vals,      \* values (positive integers; the harness maps them to byte strings)
          MaxDepth,  \* nesting bound: batch, child, grand-child ...
          NR,        \* store iterator handles 1..NR (each held by the thread that opened it)
          NT,        \* threads 1..NT
          Writers,   \* threads that open batches
          ItThreads, \* threads that open store iterators
          RdThreads, \* threads that keep single-key reads in flight (ReadBegin .. ReadEnd); {} switches them off
          MapInit,   \* initial map size, in space units
          UsedInit,  \* space already used at the start (lets the gate configurations start on a nearly full map)
          Chunk,     \* allocation chunk, in space units
          PutCost,   \* space units a put may newly allocate (0 switches space accounting off)
          BatchMax,  \* a batch allocates at most this many units. NoMapFull is claimed for SmallBatches (<= 10 % of the map) only
          SqueezedFits, \* TRUE: ASSUMPTION on callers - a batch opened by a thread that holds another transaction while the map
                     \* needs enlarging fits into what is left; FALSE: no such assumption (the letter of the property)
          ReopenClampsMap, \* FALSE: closing and reopening the environment gives back the map size that was persisted (the code);
                     \* TRUE: Store::new asks for one chunk, LMDB corrects that upwards to the size of the data (careless variant)
          TxnBeforeGate, \* FALSE: Batch::new = enter_tx() then write_txn() (the code, the property);
                         \* TRUE: write_txn() first - the waiting batch owns the write transaction (careless variant)
          NestedCloseClearsMark, \* FALSE: THREAD_TX_COUNTS counts the thread's open transactions (the code);
                         \* TRUE: it is a set of marks - closing ANY transaction of the thread wipes the mark (careless variant)
          LiveSized,     \* FALSE: env_size() = page size x LAST PAGE NUMBER, the high-water mark of the data file - what LMDB itself
                         \* compares with the map when it allocates (the code); TRUE: env_size() = the pages that hold live data
                         \* (pages on the free list "are going to be reused") - careless variant: under a reader that pins an old
                         \* snapshot freed pages are NOT reusable, rewrites make the file grow although the live data does not
          Page,          \* DatabaseIterator loads the keys of its snapshot page by page: Page keys at a time (10 000 in the code)
          PageBySkipCur, \* FALSE: the next page starts after the keys handed out so far (skip_total; the code);
                         \* TRUE: after the position within the current page (skip_cur) - careless variant: from the third page on
                         \* the second page is read again and again
          PageFreshSnap, \* FALSE: every page of keys (and every value) is read through the ONE read transaction the iterator was
                         \* opened with (the code); TRUE: load_next_keys() opens a fresh read transaction for each further page
                         \* (so as not to pin one snapshot for a long scan) - careless variant: the pages come from different
                         \* committed versions, the iterator sees part of a batch and, addressed by position, skips / repeats keys
          ReadNotCounted \* FALSE: Store::get_ser / exists hold their TxCounter for as long as their read transaction (the code);
                         \* TRUE: the guard is dropped as soon as the read transaction has been opened (careless variant)

Spaces  == 1..NS
Keys    == 1..NK
Readers == 1..NR
Threads == 1..NT
Cells   == Spaces \X Keys
NoVal     == 0       \* absent
Untouched == -1      \* overlay has no entry for the cell

ASSUME Vals \subseteq (Nat \ {0})
\* The resize policy (RESIZE_PERCENT = 0.9, checked only when a batch is opened) keeps at
\* least 10 % of the map free at Begin. The property is claimed for batches below that.
\* (MapInit < Chunk: a fresh production database - LMDB's default map is smaller than the 128 MiB chunk - is enlarged to one
\* chunk by the first batch(): the `mapSize < Chunk` arm of needs_resize; MC_KV_prodchunk)
ASSUME MapInit > 0 /\ Chunk > 0 /\ UsedInit \in 0..MapInit /\ Page \in Nat \ {0}
\* The map is enlarged only BETWEEN batches (Store::batch -> maybe_resize), never for the batch that needs the space:
\* a batch can count on the 10 % only. NoMapFull holds under SmallBatches /\ SqueezedFits; without them the code's policy
\* cannot hold it (MC_KV_bigbatch, MC_KV_squeeze violate NoMapFull; both counterexamples are reproduced on the real Store).
SmallBatches == BatchMax * 10 <= MapInit
ASSUME Writers \subseteq Threads /\ ItThreads \subseteq Threads /\ RdThreads \subseteq Threads

VARIABLES committed,  \* [Cells -> Vals \cup {NoVal}]   durable, what every outside reader sees
          stack,      \* Seq of overlays: the open batch and its nested children
          shadow,     \* Seq of full views, same length as stack (LMDB-shaped formulation)
          bown,       \* the thread that owns the open batch stack (0: no batch is open)
          snap,       \* [Readers -> snapshot held by a store iterator (and the thread holding it), or NoSnap]
          rd,         \* [Threads -> the single-key read the thread has in flight (Store::get_ser in the middle of its value), or NoRd]
          mapSize, used, pend,   \* space accounting (units): map, high-water mark, open batch
          squeezed,   \* the open batch was let through the gate on a map that needs enlarging (its thread holds another transaction)
          resizing,   \* EnvState.resizing: an enlargement has been requested and not yet carried out
          wait,       \* [Threads -> "no" | "gate": the thread's batch() call waits at the enter_tx gate for the enlargement, owning nothing
                      \*  | "gate_txn": it waits there while already owning LMDB's write transaction (careless variant TxnBeforeGate only)
                      \*  | "nested": it waits there for one more transaction while HOLDING one (reachable in careless variants only)]
          cnt,        \* EnvState.open_txs_count, as enter_tx / TxCounter::drop keep it
          mark,       \* [Threads -> the thread's THREAD_TX_COUNTS entry for this environment]
          torn,       \* history: the map has been replaced (munmap + mmap) under an open transaction
          act         \* label, arguments and RESULT of the last action (not part of the state view)

vars  == <<committed, stack, shadow, bown, snap, rd, mapSize, used, pend, squeezed, resizing, wait, cnt, mark, torn, act>>
state == <<committed, stack, shadow, bown, snap, rd, mapSize, used, pend, squeezed, resizing, wait, cnt, mark, torn>>
data  == <<committed, stack, shadow, bown, snap, rd>>
space == <<mapSize, used, pend, squeezed>>
gate  == <<resizing, wait, cnt, mark, torn>>

Maps     == [Cells -> Vals \cup {NoVal}]
Overlays == [Cells -> Vals \cup {NoVal, Untouched}]
EmptyMap == [c \in Cells |-> NoVal]
EmptyOv  == [c \in Cells |-> Untouched]
NoSnap   == [open |-> FALSE]
NoRd     == [open |-> FALSE]
Depth    == Len(stack)

-----------------------------------------------------------------------------
(* Definitions *)
ApplyOv(m, o) == [c \in Cells |-> IF o[c] = Untouched THEN m[c] ELSE o[c]]

RECURSIVE ApplyAll(_, _)
ApplyAll(m, s) == IF s = <<>> THEN m ELSE ApplyAll(ApplyOv(m, Head(s)), Tail(s))

\* definitional view of nesting level i (0 = committed): overlays applied bottom-up
ViewAt(i) == ApplyAll(committed, SubSeq(stack, 1, i))

\* implementation-shaped read: first level, from the innermost outwards, that has an entry
RECURSIVE LookupFrom(_, _)
LookupFrom(i, c) == IF i = 0 THEN committed[c]
                    ELSE IF stack[i][c] # Untouched THEN stack[i][c]
                    ELSE LookupFrom(i - 1, c)
Lookup(c) == LookupFrom(Depth, c)
TopView   == [c \in Cells |-> Lookup(c)]

\* ordered iteration over one key space of a map: <<key, value>> pairs, ascending keys
RECURSIVE IterFrom(_, _, _)
IterFrom(m, sp, k) == IF k > NK THEN <<>>
                      ELSE IF m[<<sp, k>>] # NoVal
                           THEN <<<<k, m[<<sp, k>>]>>>> \o IterFrom(m, sp, k + 1)
                           ELSE IterFrom(m, sp, k + 1)
IterRes(m, sp) == IterFrom(m, sp, 1)

\* resize policy of needs_resize() in integer arithmetic
\* `used` is the high-water mark (last page number): freed pages are counted as never reused - exactly true while a reader
\* pins the snapshot they belonged to (rewrites / deletes under a held iterator), pessimistic otherwise.
\* Live = what a live-page count would report: the initial fill plus one PutCost per cell that holds a value.
Live == UsedInit + PutCost * Cardinality({c \in Cells : committed[c] # NoVal})
SizeSeen == IF LiveSized THEN Live ELSE used
NeedsResize == SizeSeen * 10 > mapSize * 9 \/ mapSize < Chunk
NewSize == IF mapSize < Chunk THEN Chunk
           ELSE LET base == mapSize - (mapSize % Chunk)
                    cand == {base + i * Chunk : i \in 0..((used * 2) \div Chunk + 2)}
                    ok   == {t \in cand : used * 100 <= t * 65}
                IN CHOOSE t \in ok : \A t2 \in ok : t <= t2

\* DatabaseIterator::read_key_page: the keys of the snapshot, `skip` of them skipped, at most Page taken
KeyPage(L, skip) == SubSeq(L, skip + 1, IF skip + Page < Len(L) THEN skip + Page ELSE Len(L))
NoReaderOpen == \A r \in Readers : snap[r] = NoSnap
\* the transactions a thread holds at this instant: its iterators, its read in flight, its batch
HoldsIt(t) == Cardinality({r \in Readers : snap[r] # NoSnap /\ snap[r].th = t})
HoldsRd(t) == IF rd[t] # NoRd THEN 1 ELSE 0
HoldsB(t)  == IF stack # <<>> /\ bown = t THEN 1 ELSE 0
Holds(t)   == HoldsIt(t) + HoldsRd(t) + HoldsB(t)
\* what EnvState.open_txs_count has to equal at every instant (enter_tx increments, TxCounter::drop decrements):
\* EVERY open transaction of EVERY thread. The enlargement waits for it to be 0 - a count that drifts upwards (a lost
\* decrement) means the enlargement, and with it every later store call, waits for ever; a count that misses a
\* transaction means the map is replaced under it.
OpenTxs == Cardinality({r \in Readers : snap[r] # NoSnap}) + Cardinality({t \in Threads : rd[t] # NoRd})
           + (IF stack # <<>> THEN 1 ELSE 0)
Parked(t) == wait[t] # "no"
\* the thread can make a store call: it is neither asleep in the gate nor in the middle of a single-key read
\* (a read in flight is the innermost thing its thread does: iterator open -> look the item up -> go on)
Idle(t) == ~Parked(t) /\ rd[t] = NoRd

(* ---- the gate: Store::enter_tx / TxCounter::drop ---- *)
\* while `resizing` is up only a thread that already holds a transaction is let through
CanEnter(t) == ~resizing \/ mark[t] > 0
Entered(t)  == /\ cnt' = cnt + 1
               /\ mark' = [mark EXCEPT ![t] = IF NestedCloseClearsMark THEN 1 ELSE @ + 1]
Left(t)     == /\ cnt' = cnt - 1
               /\ mark' = [mark EXCEPT ![t] = IF NestedCloseClearsMark THEN 0 ELSE @ - 1]

-----------------------------------------------------------------------------
Init == /\ committed = EmptyMap /\ stack = <<>> /\ shadow = <<>> /\ bown = 0
        /\ snap = [r \in Readers |-> NoSnap] /\ rd = [t \in Threads |-> NoRd]
        /\ mapSize = MapInit /\ used = UsedInit /\ pend = 0 /\ squeezed = FALSE
        /\ resizing = FALSE /\ wait = [t \in Threads |-> "no"]
        /\ cnt = 0 /\ mark = [t \in Threads |-> 0] /\ torn = FALSE
        /\ act = [k |-> "Init"]

(* ---- the writer: Store::batch() and everything done through the Batch ---- *)
\* batch() that gets through the gate at once: either nothing is pending and the map has room (any thread), or the
\* calling thread already holds a transaction (an iterator, a read in flight): then maybe_resize() can only raise the
\* flag (the enlargement has to wait for that very transaction) and enter_tx lets the thread through - on the OLD map.
\* Such a batch (`squeezed`) is outside the property's quantifier (iterators "on other threads"): the assumption on
\* callers is then that it fits into what is left of the map.
Begin(t) == /\ t \in Writers /\ Idle(t)
            /\ stack = <<>>                 \* LMDB writer mutex: one batch stack at a time
            /\ (mark[t] > 0 \/ (~resizing /\ ~NeedsResize))
            /\ stack' = <<EmptyOv>> /\ shadow' = <<committed>> /\ bown' = t /\ pend' = 0
            /\ squeezed' = NeedsResize
            /\ resizing' = (resizing \/ NeedsResize)
            /\ Entered(t)
            /\ act' = [k |-> "Begin", t |-> t]
            /\ UNCHANGED <<committed, snap, rd, mapSize, used, wait, torn>>

\* batch() on a map that is more than 90 % full, by a thread that holds nothing: maybe_resize() raises `resizing`; the
\* caller parks at the enter_tx gate until the enlargement has been carried out (at once if cnt = 0, else when the last
\* open transaction of the other threads is closed). (Two writers racing the needs_resize check are outside the model.)
BeginWait(t) == /\ t \in Writers /\ Idle(t)
                /\ stack = <<>> /\ ~resizing /\ NeedsResize /\ mark[t] = 0
                /\ resizing' = TRUE
                /\ wait' = [wait EXCEPT ![t] = IF TxnBeforeGate THEN "gate_txn" ELSE "gate"]
                /\ act' = [k |-> "BeginWait", t |-> t]
                /\ UNCHANGED <<data, space, cnt, mark, torn>>

\* the gate opens: the parked batch gets (or, careless variant, already has) the write transaction and goes on
Admit(t) == /\ wait[t] \in {"gate", "gate_txn"} /\ ~resizing /\ stack = <<>>
            /\ stack' = <<EmptyOv>> /\ shadow' = <<committed>> /\ bown' = t /\ pend' = 0
            /\ squeezed' = FALSE
            /\ wait' = [wait EXCEPT ![t] = "no"]
            /\ Entered(t)
            /\ act' = [k |-> "Begin", t |-> t]
            /\ UNCHANGED <<committed, snap, rd, mapSize, used, resizing, torn>>

\* the thread that owns the batch is not stuck at the gate with some other call
BIdle == Depth > 0 /\ Idle(bown)

Write(sp, key, v, name, cost) ==
         /\ BIdle /\ pend + cost <= BatchMax
         /\ ((squeezed /\ SqueezedFits) => used + pend + cost <= mapSize)
         /\ stack'  = [stack  EXCEPT ![Depth][<<sp, key>>] = v]
         /\ shadow' = [shadow EXCEPT ![Depth][<<sp, key>>] = v]
         /\ pend' = pend + cost
         /\ act' = [k |-> name, sp |-> sp, key |-> key, val |-> v]
         /\ UNCHANGED <<committed, bown, snap, rd, mapSize, used, squeezed, gate>>
Put(sp, key, v) == v \in Vals /\ Write(sp, key, v, "Put", PutCost)
Del(sp, key)    == Write(sp, key, NoVal, "Del", 0)     \* deleting an absent key is a no-op, not an error

Read(a) == BIdle /\ act' = a /\ UNCHANGED state
Get(sp, key)    == Read([k |-> "Get", sp |-> sp, key |-> key, res |-> Lookup(<<sp, key>>)])
Exists(sp, key) == Read([k |-> "Exists", sp |-> sp, key |-> key, res |-> Lookup(<<sp, key>>) # NoVal])
Iter(sp)        == Read([k |-> "Iter", sp |-> sp, res |-> IterRes(TopView, sp)])

Child == /\ BIdle /\ Depth < MaxDepth
         /\ stack' = Append(stack, EmptyOv)
         /\ shadow' = Append(shadow, shadow[Depth])
         /\ act' = [k |-> "Child"]
         /\ UNCHANGED <<committed, bown, snap, rd, space, gate>>

MergeOv(below, top) == [c \in Cells |-> IF top[c] # Untouched THEN top[c] ELSE below[c]]

CommitChild == /\ BIdle /\ Depth >= 2
               /\ stack'  = SubSeq(stack, 1, Depth - 2) \o <<MergeOv(stack[Depth - 1], stack[Depth])>>
               /\ shadow' = SubSeq(shadow, 1, Depth - 2) \o <<shadow[Depth]>>
               /\ act' = [k |-> "CommitChild"]
               /\ UNCHANGED <<committed, bown, snap, rd, space, gate>>

DropChild == /\ BIdle /\ Depth >= 2
             /\ stack'  = SubSeq(stack, 1, Depth - 1)
             /\ shadow' = SubSeq(shadow, 1, Depth - 1)
             /\ act' = [k |-> "DropChild"]
             /\ UNCHANGED <<committed, bown, snap, rd, space, gate>>

Commit == /\ BIdle /\ Depth = 1
          /\ committed' = ApplyOv(committed, stack[1])
          /\ stack' = <<>> /\ shadow' = <<>> /\ bown' = 0
          /\ used' = used + pend /\ pend' = 0      \* pessimistic: freed pages are never reused
          /\ squeezed' = FALSE
          /\ Left(bown)
          /\ act' = [k |-> "Commit"]
          /\ UNCHANGED <<snap, rd, mapSize, resizing, wait, torn>>

Drop == /\ BIdle /\ Depth = 1
        /\ stack' = <<>> /\ shadow' = <<>> /\ bown' = 0 /\ pend' = 0
        /\ squeezed' = FALSE
        /\ Left(bown)
        /\ act' = [k |-> "Drop"]
        /\ UNCHANGED <<committed, snap, rd, mapSize, used, resizing, wait, torn>>

(* ---- Store::get_ser / exists / iter on fresh read transactions (any thread, whatever else it holds) ---- *)
OutGetRes(m, sp, key)    == m[<<sp, key>>]
OutExistsRes(m, sp, key) == m[<<sp, key>>] # NoVal
\* a read that is over within one step (enter_tx .. TxCounter::drop)
OutRead(t, a) == Idle(t) /\ CanEnter(t) /\ act' = a /\ UNCHANGED state
OutGet(t, sp, key)    == OutRead(t, [k |-> "OutGet", t |-> t, sp |-> sp, key |-> key, res |-> OutGetRes(committed, sp, key)])
OutExists(t, sp, key) == OutRead(t, [k |-> "OutExists", t |-> t, sp |-> sp, key |-> key, res |-> OutExistsRes(committed, sp, key)])
OutIter(t, sp)        == OutRead(t, [k |-> "OutIter", t |-> t, sp |-> sp, res |-> IterRes(committed, sp)])

\* Store::get_ser caught in the middle: the read transaction is open (ReadBegin), other threads and this thread's
\* other transactions go on, and when it returns (ReadEnd) it yields what was committed when it was opened
ReadBegin(t, sp, key) ==
         /\ t \in RdThreads /\ Idle(t) /\ CanEnter(t)
         /\ rd' = [rd EXCEPT ![t] = [open |-> TRUE, sp |-> sp, key |-> key, val |-> committed[<<sp, key>>]]]
         /\ IF ReadNotCounted THEN UNCHANGED <<cnt, mark>> ELSE Entered(t)
         /\ act' = [k |-> "ReadBegin", t |-> t, sp |-> sp, key |-> key]
         /\ UNCHANGED <<committed, stack, shadow, bown, snap, space, resizing, wait, torn>>

ReadEnd(t) == /\ rd[t] # NoRd /\ ~Parked(t)
              /\ rd' = [rd EXCEPT ![t] = NoRd]
              /\ IF ReadNotCounted THEN UNCHANGED <<cnt, mark>> ELSE Left(t)
              /\ act' = [k |-> "ReadEnd", t |-> t, sp |-> rd[t].sp, key |-> rd[t].key, res |-> rd[t].val]
              /\ UNCHANGED <<committed, stack, shadow, bown, snap, space, resizing, wait, torn>>

OutIterOpen(t, r, sp) ==
         /\ t \in ItThreads /\ Idle(t) /\ snap[r] = NoSnap /\ CanEnter(t)
         /\ LET pg == KeyPage(IterRes(committed, sp), 0) IN   \* DatabaseIterator::new loads the first page
            snap' = [snap EXCEPT ![r] = [open |-> TRUE, m |-> committed, sp |-> sp, pos |-> 0, th |-> t,
                                         keys |-> pg, cur |-> 0, tot |-> 0, done |-> (pg = <<>>)]]
         /\ Entered(t)
         /\ act' = [k |-> "OutIterOpen", t |-> t, r |-> r, sp |-> sp]
         /\ UNCHANGED <<committed, stack, shadow, bown, rd, space, resizing, wait, torn>>

NextKeys(s) == {k2 \in Keys : k2 > s.pos /\ s.m[<<s.sp, k2>>] # NoVal}
\* DatabaseIterator::next, implementation-shaped: hand out the next key of the loaded page (skip_cur, skip_total + 1); when
\* the page is used up load_next_keys() reads the next one (skip = skip_total) - an empty page ends the iteration.
\* `pos` keeps the definitional position (the last key handed out); PageWalk / IterInOrder tie the two together.
OutIterNext(r) == /\ snap[r] # NoSnap /\ Idle(snap[r].th)
                  /\ LET s == snap[r]
                         L == IterRes(IF PageFreshSnap THEN committed ELSE s.m, s.sp)
                         inpage == s.cur < Len(s.keys)
                         pg   == IF inpage THEN s.keys ELSE KeyPage(L, IF PageBySkipCur THEN s.cur ELSE s.tot)
                         cur0 == IF inpage THEN s.cur ELSE 0
                     IN IF s.done \/ pg = <<>> THEN
                        /\ snap' = [snap EXCEPT ![r].pos = NK + 1, ![r].done = TRUE, ![r].keys = <<>>, ![r].cur = 0]
                        /\ act' = [k |-> "OutIterNext", r |-> r, res |-> <<>>]
                     ELSE
                        /\ snap' = [snap EXCEPT ![r].pos = pg[cur0 + 1][1], ![r].keys = pg, ![r].cur = cur0 + 1, ![r].tot = s.tot + 1]
                        /\ act' = [k |-> "OutIterNext", r |-> r, res |-> pg[cur0 + 1]]
                  /\ UNCHANGED <<committed, stack, shadow, bown, rd, space, gate>>

OutIterClose(r) == /\ snap[r] # NoSnap /\ Idle(snap[r].th)
                   /\ snap' = [snap EXCEPT ![r] = NoSnap]
                   /\ Left(snap[r].th)
                   /\ act' = [k |-> "OutIterClose", r |-> r]
                   /\ UNCHANGED <<committed, stack, shadow, bown, rd, space, resizing, wait, torn>>

\* enter_tx does NOT let a thread through that holds a transaction (its mark says it holds none) while an enlargement
\* is pending: the thread sleeps in the gate with its transaction(s) open. Never enabled as long as mark[t] = Holds(t).
ParkNested(t) == /\ Idle(t) /\ resizing /\ mark[t] = 0 /\ Holds(t) > 0
                 /\ wait' = [wait EXCEPT ![t] = "nested"]
                 /\ act' = [k |-> "ParkNested", t |-> t]
                 /\ UNCHANGED <<data, space, resizing, cnt, mark, torn>>

(* ---- the environment ---- *)
\* mdb_env_set_mapsize, requested by maybe_resize(): carried out (by the requesting thread or by its helper thread)
\* once open_txs_count is 0 - which must mean that no transaction is open in the process (nobody can get in meanwhile)
\* - and the batch parked at the gate does not own the write transaction
Resize == /\ resizing /\ cnt = 0 /\ \A t \in Threads : wait[t] # "gate_txn"
          /\ mapSize' = NewSize /\ resizing' = FALSE
          /\ torn' = (torn \/ OpenTxs > 0)
          /\ act' = [k |-> "Resize"]
          /\ UNCHANGED <<data, used, pend, squeezed, wait, cnt, mark>>

\* careless variant only: the parked batch owns LMDB's write transaction, mdb_env_set_mapsize answers EINVAL,
\* which is only logged; the flag is cleared all the same and the batch goes on against the old map
ResizeRefused == /\ resizing /\ cnt = 0 /\ \E t \in Threads : wait[t] = "gate_txn"
                 /\ resizing' = FALSE
                 /\ act' = [k |-> "ResizeRefused"]
                 /\ UNCHANGED <<data, space, wait, cnt, mark, torn>>

\* process death (or a clean close) at any instant, in particular right before / right after Commit, and the restart:
\* the environment comes back with the committed data AND the map size that the last enlargement persisted
Crash == /\ stack' = <<>> /\ shadow' = <<>> /\ bown' = 0 /\ pend' = 0 /\ squeezed' = FALSE
         /\ mapSize' = IF ReopenClampsMap THEN (IF used > Chunk THEN used ELSE Chunk) ELSE mapSize
         /\ snap' = [r \in Readers |-> NoSnap] /\ rd' = [t \in Threads |-> NoRd]
         /\ resizing' = FALSE /\ wait' = [t \in Threads |-> "no"]
         /\ cnt' = 0 /\ mark' = [t \in Threads |-> 0]
         /\ act' = [k |-> "Crash"]
         /\ UNCHANGED <<committed, used, torn>>

NextNoCrash ==
        \/ ResizeRefused \/ Child \/ CommitChild \/ DropChild \/ Commit \/ Drop \/ Resize
        \/ \E t \in Threads : Begin(t) \/ BeginWait(t) \/ Admit(t) \/ ReadEnd(t) \/ ParkNested(t)
        \/ \E sp \in Spaces : \/ Iter(sp)
                              \/ \E t \in Threads : OutIter(t, sp) \/ \E r \in Readers : OutIterOpen(t, r, sp)
                              \/ \E key \in Keys : \/ Del(sp, key) \/ Get(sp, key) \/ Exists(sp, key)
                                                   \/ \E t \in Threads : OutGet(t, sp, key) \/ OutExists(t, sp, key) \/ ReadBegin(t, sp, key)
                                                   \/ \E v \in Vals : Put(sp, key, v)
        \/ \E r \in Readers : OutIterNext(r) \/ OutIterClose(r)
Next == NextNoCrash \/ Crash

Spec == Init /\ [][Next]_vars

-----------------------------------------------------------------------------
(* Properties *)
TypeOK == /\ committed \in Maps
          /\ Depth <= MaxDepth /\ Len(shadow) = Depth
          /\ \A i \in 1..Depth : stack[i] \in Overlays /\ shadow[i] \in Maps
          /\ bown \in Threads \cup {0} /\ (bown = 0 <=> stack = <<>>)
          /\ \A r \in Readers : snap[r] = NoSnap \/
                (snap[r].open /\ snap[r].m \in Maps /\ snap[r].sp \in Spaces /\ snap[r].pos \in 0..NK + 1 /\ snap[r].th \in Threads
                 /\ Len(snap[r].keys) <= Page /\ snap[r].cur \in 0..Len(snap[r].keys) /\ snap[r].tot \in Nat /\ snap[r].done \in BOOLEAN)
          /\ \A t \in Threads : rd[t] = NoRd \/
                (rd[t].open /\ rd[t].sp \in Spaces /\ rd[t].key \in Keys /\ rd[t].val \in Vals \cup {NoVal})
          /\ mapSize \in Nat /\ used \in Nat /\ pend \in 0..BatchMax
          /\ squeezed \in BOOLEAN /\ resizing \in BOOLEAN /\ torn \in BOOLEAN
          /\ wait \in [Threads -> {"no", "gate", "gate_txn", "nested"}]
          /\ cnt \in Nat /\ mark \in [Threads -> Nat]
          /\ \A t \in Threads : wait[t] = "gate_txn" => TxnBeforeGate

\* the overlay formulation, the definitional bottom-up view and LMDB's private-view
\* formulation agree at every level; inside reads resolve top-down to exactly that view
ShadowAgrees  == \A i \in 1..Depth : shadow[i] = ViewAt(i)
LookupTopDown == Depth > 0 => TopView = shadow[Depth]

\* no operation fails for lack of space (under the BatchMax assumption)
NoMapFull == used + pend <= mapSize
\* the head-room is used up by commits only: nothing else - a restart in particular - makes the free part of the map smaller
HeadroomKept == [][(mapSize' - used') < (mapSize - used) => act'.k = "Commit"]_vars
\* the gate's bookkeeping is exact: open_txs_count counts EVERY open transaction of every thread (iterators, reads in
\* flight, the batch), and a thread's own count says how many of them are its own
CountAgrees == cnt = OpenTxs
MarkAgrees  == \A t \in Threads : mark[t] = Holds(t)
\* the map is never replaced under an open transaction (the state-level face of ResizeGate)
NoRemapUnderTxn == ~torn
\* a thread that already holds a transaction never waits at the gate ...
NoHolderParked == \A t \in Threads : Parked(t) => Holds(t) = 0
\* ... or else nothing ever moves again: the enlargement waits for that transaction, its thread for the enlargement,
\* and every other thread for the flag to come down
GateLive == ~(resizing /\ \E t \in Threads : Parked(t) /\ Holds(t) > 0)
\* the map is never enlarged under an open transaction - in particular not under a write transaction owned by
\* the batch that waits for the enlargement - and a batch starts on a map that still needs to be enlarged only if
\* its thread holds another transaction (then the enlargement cannot take place before it)
ResizeGate == [][/\ act'.k = "Resize" => (OpenTxs = 0 /\ \A t \in Threads : wait[t] # "gate_txn")
                 /\ act'.k = "Begin" => (NeedsResize => (Holds(act'.t) > 0 /\ squeezed' /\ resizing'))]_vars
\* a batch waiting at the gate never owns the write transaction
WaiterOwnsNothing == \A t \in Threads : wait[t] # "gate_txn"

\* Isolation + atomicity: the committed map changes only at a top-level Commit, and then
\* to the whole view of the batch at once (every write of the batch and of every child
\* that was committed into it, nothing else).
CommitAtomic == [][committed' # committed =>
                      (act'.k = "Commit" /\ Depth = 1 /\ committed' = shadow[1] /\ stack' = <<>>)]_vars
\* a child's writes reach its parent's view only through CommitChild, and entirely
ChildFolds == [][act'.k = "CommitChild" =>
                      (shadow'[Depth - 1] = shadow[Depth] /\ committed' = committed)]_vars
\* dropping leaves no trace
DropNoTrace == [][/\ act'.k = "DropChild" => (shadow' = SubSeq(shadow, 1, Depth - 1) /\ committed' = committed)
                  /\ act'.k = "Drop" => (committed' = committed /\ stack' = <<>>)]_vars
\* store iterators keep the snapshot they were opened on, which was the committed map - whatever their own thread
\* (a batch of its own included) and the other threads commit meanwhile; the same for a read in flight
SnapStable == [][/\ \A r \in Readers :
                     /\ (snap[r] # NoSnap /\ snap'[r] # NoSnap) => (snap'[r].m = snap[r].m /\ snap'[r].sp = snap[r].sp /\ snap'[r].th = snap[r].th)
                     /\ (snap[r] = NoSnap /\ snap'[r] # NoSnap) => snap'[r].m = committed
                 /\ \A t \in Threads :
                     /\ (rd[t] # NoRd /\ rd'[t] # NoRd) => rd'[t] = rd[t]
                     /\ (rd[t] = NoRd /\ rd'[t] # NoRd) => rd'[t].val = committed[<<rd'[t].sp, rd'[t].key>>]
                     /\ (act'.k = "ReadEnd" /\ act'.t = t) => act'.res = rd[t].val]_vars
\* key paging is invisible: the page-by-page walk hands out exactly the snapshot's entries, in key order, each once, across
\* every page boundary (the count of keys handed out is the index of the last one in the snapshot's ordered list) ...
PageWalk == \A r \in Readers : snap[r] # NoSnap =>
                LET s == snap[r] L == IterRes(s.m, s.sp) IN
                /\ s.tot <= Len(L)
                /\ (s.pos = 0 => s.tot = 0)
                /\ (s.pos \in 1..NK => (s.tot >= 1 /\ L[s.tot][1] = s.pos))
                /\ (s.pos = NK + 1 => s.tot = Len(L))
\* ... and every single step yields what the definitional iterator (next greater key present in the snapshot) yields
IterInOrder == [][\A r \in Readers : (act'.k = "OutIterNext" /\ act'.r = r) =>
                     LET s == snap[r] nk == NextKeys(s) IN
                     act'.res = IF nk = {} THEN <<>>
                                ELSE LET k1 == CHOOSE k2 \in nk : \A k3 \in nk : k2 <= k3 IN <<k1, s.m[<<s.sp, k1>>]>>]_vars
\* resize and crash do not touch committed data; a crash discards exactly the open batch
ResizeStutter == [][act'.k \in {"Resize", "BeginWait", "ResizeRefused", "ParkNested"} => UNCHANGED <<committed, stack, shadow, snap, rd>>]_vars
CrashDurable  == [][act'.k = "Crash" => (committed' = committed /\ stack' = <<>>)]_vars
=============================================================================
