--------------------------- MODULE CodecHandover ---------------------------
(***************************************************************************)
(* C19 - the hand-over of one byte stream between its two readers.         *)
(* The handshake (p2p/src/handshake.rs) reads its Hand / Shake with        *)
(* `msg::read_message` on the bare TcpStream; everything behind that       *)
(* message belongs to the codec (`Codec::read`, started by conn::listen on *)
(* the same socket).  The writing peer may put the handshake message and   *)
(* the protocol messages that follow it into the same TCP write - "however *)
(* the byte stream is fragmented" includes being fragmented LESS.          *)
(*                                                                         *)
(*   plan     [role, follow, cuts]: who reads (initiate reads a Shake,     *)
(*            accept a Hand), the frames written behind the handshake      *)
(*            message, and where the writer cuts the byte stream into      *)
(*            writes (symbolic offsets, see Off)                           *)
(*   avail    bytes delivered so far (a whole write at a time)             *)
(*   taken    bytes taken out of the socket by read_message                *)
(*   got      bytes of the current item (header / body) parsed so far      *)
(*   fill     bytes sitting in a read buffer private to read_message       *)
(*            (always 0 in the code: it reads with read_exact on the       *)
(*            stream itself; the probe configuration gives it a BufReader) *)
(*   stage    "hdr" | "body" | "over"                                      *)
(*   codecAt  stream offset at which the codec starts reading              *)
(***************************************************************************)
EXTENDS Integers, Sequences, FiniteSets, TLC

CONSTANTS HDR,        \* MsgHeader::LEN
          HSBODY,     \* body length of the handshake message (abstract; only the order of offsets matters)
          BUFSZ,      \* capacity of the private read buffer in the probe configuration
          Buffered,   \* FALSE: read_message reads exactly what it parses (msg.rs); TRUE: probe
          Plans

VARIABLES plan, avail, taken, got, fill, stage, codecAt
vars == <<plan, avail, taken, got, fill, stage, codecAt>>

Min(a, b) == IF a < b THEN a ELSE b

\* frames behind the handshake message: the records of Codec.tla (honest frames only)
FrameRec(k, t, len, need, count, items) ==
  [k |-> k, t |-> t, magic |-> TRUE, len |-> len, body |-> len, need |-> need,
   count |-> count, items |-> items, extra |-> 0, att |-> 0]

\* message i of the combined stream: 0 is the handshake message, i >= 1 is follow[i]
BodyOf(p, i) == IF i = 0 THEN HSBODY ELSE p.follow[i].body
SizeOf(p, i) == HDR + BodyOf(p, i)
RECURSIVE StartOfMsg(_, _)
StartOfMsg(p, i) == IF i = 0 THEN 0 ELSE StartOfMsg(p, i - 1) + SizeOf(p, i - 1)
TotalOf(p) == StartOfMsg(p, Len(p.follow)) + SizeOf(p, Len(p.follow))
HsEnd == HDR + HSBODY

\* symbolic cut [f |-> message index, at |-> place] to byte offset
Off(p, c) == StartOfMsg(p, c.f) +
             CASE c.at = "h5" -> 5
               [] c.at = "hdr" -> HDR
               [] c.at = "mid" -> HDR + BodyOf(p, c.f) \div 2
               [] c.at = "last" -> SizeOf(p, c.f) - 1
               [] c.at = "end" -> SizeOf(p, c.f)
               [] c.at = "b" -> c.k           \* byte offset k inside the message (every split point)
Ends(p) == {Off(p, p.cuts[j]) : j \in 1..Len(p.cuts)} \cup {TotalOf(p)}
\* the write that carries the last byte of the handshake message also carries what follows
Coalesced(p) == Len(p.follow) > 0 /\ HsEnd \notin Ends(p)

Init == /\ plan \in Plans
        /\ avail = 0 /\ taken = 0 /\ got = 0 /\ fill = 0 /\ stage = "hdr" /\ codecAt = -1

Need == IF stage = "hdr" THEN HDR ELSE HSBODY

\* the next write of the peer arrives (only when the reader is blocked on an empty socket: plans
\* with fewer cuts are the schedules in which writes arrive together)
Deliver == /\ stage # "over" /\ taken = avail /\ fill = 0 /\ avail < TotalOf(plan)
           /\ avail' = CHOOSE e \in Ends(plan) : e > avail /\ \A x \in Ends(plan) : x > avail => e <= x
           /\ UNCHANGED <<plan, taken, got, fill, stage, codecAt>>

\* item complete: header parsed -> body; body parsed -> read_message returns, the codec takes over
Advance(g, f, tk) ==
  IF g < Need THEN /\ got' = g /\ stage' = stage /\ codecAt' = codecAt
  ELSE IF stage = "hdr" /\ HSBODY > 0 THEN /\ got' = 0 /\ stage' = "body" /\ codecAt' = codecAt
  ELSE \* whatever a private buffer still holds is dropped with it
       /\ got' = 0 /\ stage' = "over" /\ codecAt' = tk

\* read_exact on the stream itself: takes what is there, never more than the item needs
ReadExact == /\ ~Buffered /\ stage # "over" /\ avail > taken
             /\ LET k == Min(Need - got, avail - taken) IN
                /\ taken' = taken + k /\ Advance(got + k, 0, taken + k)
             /\ UNCHANGED <<plan, avail, fill>>

\* probe: a BufReader around the stream fills its buffer with whatever the socket offers ...
Fill == /\ Buffered /\ stage # "over" /\ fill = 0 /\ avail > taken
        /\ LET k == Min(BUFSZ, avail - taken) IN taken' = taken + k /\ fill' = k
        /\ UNCHANGED <<plan, avail, got, stage, codecAt>>
\* ... and serves read_exact from it
Consume == /\ Buffered /\ stage # "over" /\ fill > 0
           /\ LET k == Min(Need - got, fill) IN
              /\ fill' = fill - k /\ Advance(got + k, fill - k, taken)
           /\ UNCHANGED <<plan, avail, taken>>

Next == Deliver \/ ReadExact \/ Fill \/ Consume
Spec == Init /\ [][Next]_vars

---------------------------------------------------------------------------
TypeOK == /\ avail \in 0..TotalOf(plan) /\ taken \in 0..avail /\ got >= 0 /\ fill >= 0
          /\ stage \in {"hdr", "body", "over"}
\* read_message never takes a byte of what follows its message out of the socket
NoOverread == taken <= HsEnd
\* the codec starts exactly behind the handshake message: the frames that follow are its stream,
\* whatever the segmentation (Codec.tla then reads them faithfully)
HandoverExact == stage = "over" => codecAt = HsEnd /\ fill = 0
\* what the codec must deliver: the frames that follow, all of them, in order
Exp(r, t, n, fi) == [r |-> r, t |-> t, n |-> n, lo |-> 0, hi |-> 0, lax |-> FALSE, fi |-> fi]
ExpectOf(f, i) == IF f.k = "headers" THEN Exp("headers", f.t, f.count, i)
                  ELSE IF f.k = "unknown" THEN Exp("unknown", f.t, 0, i)
                  ELSE Exp("msg", f.t, f.count, i)
ClassOf(f) == IF f.k = "headers" THEN "headers" ELSE IF f.k = "unknown" THEN "unknown" ELSE "msg"
=============================================================================
