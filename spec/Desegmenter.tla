---------------------------- MODULE Desegmenter ----------------------------
(***************************************************************************)
(* C16, receiver side: chain/src/txhashset/desegmenter.rs as a state        *)
(* machine.  One action per public call:                                    *)
(*   AddSegment(tree, idx, kind)  add_{bitmap,output,rangeproof,kernel}_    *)
(*                                segment: VALIDATE against the archive     *)
(*                                header's roots, THEN cache (one entry per *)
(*                                identifier);                              *)
(*   ApplyNext                    apply_next_segments: one bitmap segment   *)
(*                                per call while the bitmap MMR is          *)
(*                                incomplete; then finalize_bitmap and, per *)
(*                                tree, a batch of cached segments with     *)
(*                                consecutive indices starting at the next  *)
(*                                required one;                             *)
(*   Reset                        the restart after a refused attempt       *)
(*   Finalize                     check_progress = complete, then           *)
(*                                check_update_leaf_set_state +             *)
(*                                validate_complete_state (root check       *)
(*                                against the archive header).              *)
(* A segment is abstract: [tree, idx, kind]; kind "honest" is what the      *)
(* Segmenter of an honest node produces for the archive header (sound by    *)
(* Segment.tla), every other kind is a corruption that Segment.tla shows    *)
(* is refused.  `applied[t]` is the sequence of good-flags of the segments  *)
(* applied to tree t, so "the state roots equal the archive header's" is    *)
(* AllGood.  The two switches ValidateFirst / RootCheck exist to show the   *)
(* invariants are not vacuous (mutant models).                              *)
(*                                                                         *)
(* Cfg describes the archive header's trees as seen by the identifier       *)
(* arithmetic (filled in from the real source chain):                       *)
(*   nseg[t], last[t][i] (0-based last position of segment i-1),            *)
(*   size_after[t][k+1] / leaves_after[t][k+1] (local MMR size / leaves     *)
(*   after k segments; k = 0 is the genesis-only store), cap[t] = 2^height, *)
(*   complete[t][i] (the segment carries every leaf: no pruned data),       *)
(*   cover[t][i] (segments present once segment i-1 is applied: i, or more  *)
(*   when the segment is fully pruned and stands for a larger pruned root). *)
(***************************************************************************)
EXTENDS Naturals, Integers, Sequences, FiniteSets, TLC

CONSTANTS Kinds, BatchSize, ValidateFirst, RootCheck, ResetClearsBitmap

M == INSTANCE MMR WITH m <- <<>>, MaxLeaves <- 0, TermLeaves <- 0

Trees  == {"bitmap", "output", "rangeproof", "kernel"}
PTrees == {"output", "rangeproof", "kernel"}

VARIABLES Cfg,        \* the archive header's trees (chosen once, never changes; see above)
          cache,      \* [tree -> set of [idx, good]] validated-but-unapplied segments (<= 1 per idx)
          applied,    \* [tree -> Seq(BOOLEAN)] good-flags of the segments applied, in order
          bmFinal,    \* bitmap_cache.is_some()
          txAcc,      \* the txhashset holds the received bitmap accumulator (set by finalize_bitmap only)
          finalised   \* "no" | "ok" | "err" (final check refused) | "apperr" (a batch could not be applied)
vars == <<Cfg, cache, applied, bmFinal, txAcc, finalised>>

NSeg(t)   == Cfg.nseg[t]
Count(t)  == Len(applied[t])
Local(t)  == Cfg.size_after[t][Count(t) + 1]
LocalLeaves(t) == Cfg.leaves_after[t][Count(t) + 1]
CachedIdx(t) == {e.idx : e \in cache[t]}
CeilDiv(a, b) == (a + b - 1) \div b

AllApplied == \A t \in Trees : Count(t) = NSeg(t) /\ \A i \in 1..Count(t) : applied[t][i]
\* the state roots equal the archive header's: every tree assembled from good segments and the output root's
\* bitmap half present in the txhashset
AllGood == AllApplied /\ txAcc
BitmapAccComplete == Count("bitmap") = NSeg("bitmap") /\ \A i \in 1..Count("bitmap") : applied["bitmap"][i]
Complete == bmFinal /\ \A t \in PTrees : Count(t) = NSeg(t)        \* check_progress

\* The bitmap MMR the receiver must expect for an archive header with nOutputs output leaves, by definition:
\* one 1024-bit chunk per started 1024 leaves, MMR size of that many leaves (closed form of MMR.tla, shown
\* equal to the construction by C07).  Desegmenter::calc_bitmap_mmr_sizes / expected_bitmap_mmr_size and the
\* serving side's BitmapAccumulator must both agree with it (Cfg.size_after["bitmap"] is derived from it).
ChunkBits == 1024
BitmapChunks(nOutputs)          == CeilDiv(nOutputs, ChunkBits)
ExpectedBitmapMMRSize(nOutputs) == M!InsertionToPmmrIndexC(BitmapChunks(nOutputs))

\* next_required_*_segment_index, 0-based, -1 = None
NextRequired(t) ==
  IF t = "bitmap"
  THEN LET cur == CeilDiv(LocalLeaves(t), Cfg.cap[t]) IN IF cur = NSeg(t) THEN -1 ELSE cur
  ELSE LET cur0 == IF Local(t) = 1 THEN 0 ELSE CeilDiv(LocalLeaves(t), Cfg.cap[t])
           theo == M!InsertionToPmmrIndexC(cur0 * Cfg.cap[t])
           cur  == IF (t # "kernel" \/ cur0 # NSeg(t)) /\ Local(t) < theo THEN cur0 - 1 ELSE cur0
       IN IF cur = NSeg(t) THEN -1 ELSE cur

\* next_desired_segments(large max): set of <<tree, idx>>
Desired ==
  IF ~bmFinal
  THEN {<<"bitmap", i>> : i \in {j \in 0..(NSeg("bitmap") - 1) :
                                   Cfg.last["bitmap"][j+1] > Local("bitmap") /\ j \notin CachedIdx("bitmap")}}
  ELSE UNION {LET n0 == NextRequired(t) IN
              IF n0 = -1 THEN {}
              ELSE {<<t, i>> : i \in {j \in n0..(NSeg(t) - 1) : Cfg.last[t][j+1] > Local(t) /\ j \notin CachedIdx(t)}}
                   \cup (IF n0 \notin CachedIdx(t) THEN {<<t, n0>>} ELSE {})
              : t \in PTrees}

-----------------------------------------------------------------------------
InitWith(c) ==
        /\ Cfg = c
        /\ cache = [t \in Trees |-> {}]
        /\ applied = [t \in Trees |-> <<>>]
        /\ bmFinal = FALSE
        /\ txAcc = FALSE
        /\ finalised = "no"

\* what Segment::validate / validate_with decide for this delivery (Segment.tla: honest => valid, any corruption => refused)
\* kind "poison_spent": an honest output / rangeproof segment in which the data of a leaf the root does not
\* depend on (spent, sibling spent) was altered: under a bitmap it validates like the honest one (Segment.tla:
\* corruptions outside DependsOn are accepted), without a bitmap every leaf is required and it is refused.
\* kind "split_root": an honest output / rangeproof segment with a pruned subtree root inside its range that
\* carries, in addition, the hashes of that root's two children.  The extra hashes are redundant (Segment.tla: the
\* root does not depend on them), so it validates exactly like the honest segment; the receiver cannot apply it
\* (two sibling pruned roots cannot be appended separately: PruneLayout.tla, probe `noguard`): its batch fails.
Valid(t, idx, kind) ==
  /\ \/ kind = "honest"
     \/ (kind \in {"poison_spent", "split_root"} /\ t \in {"output", "rangeproof"} /\ bmFinal)
  /\ idx < NSeg(t)
  /\ t = "output" => BitmapAccComplete /\ (bmFinal \/ Cfg.complete[t][idx + 1])   \* other root = accumulator root; bitmap None needs every leaf
  /\ t = "rangeproof" => (bmFinal \/ Cfg.complete[t][idx + 1])

Accepts(t, idx, kind) == IF ValidateFirst THEN Valid(t, idx, kind) ELSE TRUE

AddSegment(t, idx, kind) ==
  /\ finalised = "no"
  /\ cache' = IF Accepts(t, idx, kind) /\ idx \notin CachedIdx(t)
              THEN [cache EXCEPT ![t] = @ \cup {[idx |-> idx, good |-> kind = "honest", breaks |-> kind = "split_root"]}]
              ELSE cache
  /\ UNCHANGED <<Cfg, applied, bmFinal, txAcc, finalised>>

RECURSIVE Batch(_, _, _)
\* take_segment_batch: consecutive indices from `from`, at most n
Batch(t, from, n) == IF n = 0 \/ from \notin CachedIdx(t) THEN <<>> ELSE <<from>> \o Batch(t, from + 1, n - 1)

GoodOf(t, i) == (CHOOSE e \in cache[t] : e.idx = i).good
BreaksOf(t, i) == (CHOOSE e \in cache[t] : e.idx = i).breaks
SeqRange(sq) == {sq[i] : i \in 1..Len(sq)}
RECURSIVE Flags(_, _, _)
\* segments below the applied count are re-applications (idempotent), the others extend the tree.  A fully
\* pruned segment is applied as the pruned subtree root above it (push_pruned_subtree), which stands for
\* Cfg.cover[t][i+1] - i segments at once; the equally pruned segments after it are then re-applications.
Flags(t, b, cnt) == IF b = <<>> THEN <<>>
                    ELSE LET i  == Head(b)
                             nc == IF i >= cnt /\ Cfg.cover[t][i+1] > cnt THEN Cfg.cover[t][i+1] ELSE cnt
                         IN [j \in 1..(nc - cnt) |-> GoodOf(t, i)] \o Flags(t, Tail(b), nc)

\* The trees are processed in the order output, rangeproof, kernel, one extension per batch.  A batch is taken out
\* of the cache before it is applied; if it contains a segment that cannot be applied the whole batch is rolled
\* back (and lost), the call returns the error and the later trees are not touched: the attempt has failed
\* (finalised = "apperr"; state_sync.rs then runs the restart sequence, action Reset).
ApplyNext ==
  /\ finalised = "no"
  /\ IF NextRequired("bitmap") # -1
     THEN LET i == NextRequired("bitmap") IN
          IF i \in CachedIdx("bitmap")
          THEN /\ applied' = [applied EXCEPT !["bitmap"] = Append(@, GoodOf("bitmap", i))]
               /\ cache' = [cache EXCEPT !["bitmap"] = {e \in @ : e.idx # i}]
               /\ UNCHANGED <<bmFinal, txAcc, finalised>>
          ELSE UNCHANGED <<applied, cache, bmFinal, txAcc, finalised>>
     ELSE /\ bmFinal' = TRUE
          /\ txAcc' = (IF bmFinal THEN txAcc ELSE TRUE)        \* finalize_bitmap runs only while bitmap_cache is None
          /\ LET b == [t \in PTrees |-> IF NextRequired(t) = -1 THEN <<>> ELSE Batch(t, NextRequired(t), BatchSize)]
                 brk == [t \in PTrees |-> \E i \in SeqRange(b[t]) : BreaksOf(t, i)]
                 reached == [t \in PTrees |-> CASE t = "output" -> TRUE
                                                 [] t = "rangeproof" -> ~brk["output"]
                                                 [] t = "kernel" -> ~brk["output"] /\ ~brk["rangeproof"]]
             IN /\ applied' = [t \in Trees |-> IF t \in PTrees /\ reached[t] /\ ~brk[t]
                                                THEN applied[t] \o Flags(t, b[t], Count(t)) ELSE applied[t]]
                /\ cache' = [t \in Trees |-> IF t \in PTrees /\ reached[t]
                                              THEN {e \in cache[t] : e.idx \notin SeqRange(b[t])} ELSE cache[t]]
                /\ finalised' = IF \E t \in PTrees : reached[t] /\ brk[t] THEN "apperr" ELSE finalised
  /\ UNCHANGED Cfg

Finalize ==
  /\ finalised = "no" /\ Complete
  /\ finalised' = IF RootCheck /\ ~AllGood THEN "err" ELSE "ok"
  /\ UNCHANGED <<Cfg, cache, applied, bmFinal, txAcc>>

\* The PIBD-failure restart of state_sync.rs (check_run): Desegmenter::reset, reset_pibd_head,
\* reset_chain_head_to_genesis (the txhashset is rebuilt for the genesis state), reset_prune_lists; the same
\* desegmenter object then starts over.  ResetClearsBitmap = FALSE is the mutant "reset forgets bitmap_cache".
Reset ==
  /\ finalised \in {"err", "apperr"}
  /\ cache' = [t \in Trees |-> {}]
  /\ applied' = [t \in Trees |-> <<>>]
  /\ bmFinal' = (IF ResetClearsBitmap THEN FALSE ELSE bmFinal)
  /\ txAcc' = FALSE
  /\ finalised' = "no"
  /\ UNCHANGED Cfg

\* The state-archive path (Chain::txhashset_write on a node that has no state yet): the zip is unpacked into a
\* sandbox, opened for the archive header, rewound to it and validated in full (MMR hash consistency, roots and
\* sizes against the header, kernel sums, range proofs, kernel signatures) BEFORE anything is moved in place; a
\* refused archive leaves the node exactly where it was.  An archive is abstract: its kind.  "honest" is what
\* txhashset_read of an honest node produces; "extra_file" is the honest archive with an unexpected member (only
\* the expected files are unpacked); every other kind differs from the honest archive in something the state of
\* the archive header consists of (data of an unspent output / its features byte / its range proof, a kernel, a
\* hash, a missing or truncated file) and must be refused.
ArchiveKinds == {"honest", "extra_file", "data_output", "data_output_features", "data_rangeproof", "data_kernel",
                 "hash_output", "hash_kernel", "missing_file", "truncated_kernel"}
ArchiveGood(kind) == kind \in {"honest", "extra_file"}
ArchiveAccepts(kind) == ArchiveGood(kind)       \* validate-then-move: no switch (the mutant models are about segments)
Fresh == \A t \in Trees : Count(t) = 0 /\ cache[t] = {}
ArchiveWrite(kind) ==
  /\ finalised = "no" /\ Fresh /\ ~bmFinal
  /\ IF ArchiveAccepts(kind)
     THEN /\ applied' = [t \in Trees |-> [i \in 1..NSeg(t) |-> ArchiveGood(kind)]]
          /\ txAcc' = TRUE
          /\ finalised' = "ok"
     ELSE UNCHANGED <<applied, txAcc, finalised>>
  /\ UNCHANGED <<Cfg, cache, bmFinal>>

Next == \/ \E k \in ArchiveKinds : ArchiveWrite(k)
        \/ Reset
        \/ \E t \in Trees : \E idx \in 0..NSeg(t), k \in Kinds : AddSegment(t, idx, k)
        \/ ApplyNext
        \/ Finalize
Spec == (\E c \in {Cfg} : InitWith(c)) /\ [][Next]_vars   \* the MC / trace modules supply the configuration

-----------------------------------------------------------------------------
TypeOK == /\ \A t \in Trees : \A e \in cache[t] : e.idx \in 0..NSeg(t) /\ e.good \in BOOLEAN /\ e.breaks \in BOOLEAN /\ ~(e.good /\ e.breaks)
          /\ \A t \in Trees : Count(t) <= NSeg(t)
          /\ finalised \in {"no", "ok", "err", "apperr"}

\* Whatever it is sent, it never finalises a state whose roots differ from the archive header
NeverFinaliseWrongRoots == finalised = "ok" => AllGood
\* validate-then-cache: nothing corrupted is ever waiting to be applied, nothing corrupted is ever applied
OnlyGoodCached  == \A t \in Trees : \A e \in cache[t] : e.good
OnlyGoodApplied == \A t \in Trees : \A i \in 1..Count(t) : applied[t][i]
\* after any number of refused attempts and restarts: a retry assembled from good segments only has the archive
\* header's roots (so its final check passes and it finalises the same state)
GoodRetryHasRoots == (Complete /\ AllApplied) => AllGood
\* any arrival order ends in the same state: the only completed state is the canonical one
SameFinalState == Complete => (BitmapAccComplete /\ AllGood)
\* segments are applied in index order (applied[t] is a prefix of 0..n-1 by construction); once every
\* honest segment is cached or applied, apply_next_segments makes progress until completion
AllHonestIn == \A t \in Trees : \A i \in 0..(NSeg(t) - 1) : i < Count(t) \/ (\E e \in cache[t] : e.idx = i /\ e.good)
NoStall == (finalised = "no" /\ AllHonestIn /\ ~Complete) => ENABLED (ApplyNext /\ (applied' # applied \/ bmFinal' # bmFinal))
=============================================================================
