----------------------------- MODULE CodecPeer -----------------------------
(***************************************************************************)
(* C19 - the wiring of a live connection around handshake and codec        *)
(* (p2p/src/peer.rs, the writer half of p2p/src/conn.rs).                  *)
(*                                                                         *)
(* `Peer::accept` / `Peer::connect` run the handshake and hand the socket  *)
(* to `Peer::new`, which starts `conn::listen(conn, info.version, ..)`:    *)
(* a reader thread (`Codec::new(version, ..)`, results to the Protocol     *)
(* handler and from there to the NetAdapter; `Consumed::Response(msg)`     *)
(* goes to the send channel) and a writer thread (send channel ->          *)
(* `write_message`).  `Peer::send` serialises with                         *)
(* `Msg::new(type, msg, info.version)` and puts the message on the same    *)
(* channel.  The other end is a peer of protocol version rv that behaves:  *)
(* it serialises and decodes with the negotiated version.                  *)
(*                                                                         *)
(*   sc       the scenario: role of the node, rv, the operations           *)
(*            <<"in", m>> (the remote peer writes message m) and           *)
(*            <<"out", m>> (the node calls Peer::send_<m>), consumed from  *)
(*            the front: ip of them are done                               *)
(*   stage    "hs" | "up"                                                  *)
(*   nv       the negotiated version (PeerInfo.version)                    *)
(*   cv       the version the node's connection really uses (reader and    *)
(*            Msg::new)                                                    *)
(*   chan     the node's send channel (mpsc::sync_channel)                 *)
(*   wireIn   frames written by the remote peer, not yet read by the node  *)
(*   wireOut  frames written by the node's writer thread, not yet read     *)
(*   handed   what reached the node's NetAdapter, in order                 *)
(*   got      what the remote peer decoded, in order                       *)
(*   down     the node's reader gave up (a body that does not decode)      *)
(*                                                                         *)
(* The claim (property C19 for a whole connection): what one side writes   *)
(* is what the other side reads, in order and exactly once, for every      *)
(* protocol version of the remote peer; the connection uses the lower of   *)
(* the two versions in both directions.                                    *)
(***************************************************************************)
EXTENDS Integers, Sequences, FiniteSets, TLC

CONSTANTS LocalVersion,     \* PROTOCOL_VERSION of the node (1000)
          Scenarios,        \* set of [role, rv, ops]
          ChanCap,          \* SEND_CHANNEL_CAP (100)
          VersionFromInfo,  \* TRUE: peer.rs hands info.version to conn::listen and Msg::new
                            \* FALSE (probe): ProtocolVersion::local()
          WriteOnce         \* TRUE: the writer thread writes a message taken from the channel once
                            \* FALSE (probe): it keeps it for a retry although the write succeeded

VARIABLES sc, ip, stage, nv, cv, chan, wireIn, wireOut, handed, got, down
vars == <<sc, ip, stage, nv, cv, chan, wireIn, wireOut, handed, got, down>>

Min(a, b) == IF a < b THEN a ELSE b
\* Codec.tla VerClass: the three wire forms of kernels and inputs
VerClass(v) == IF v <= 1 THEN 1 ELSE IF v = 2 THEN 2 ELSE 3
\* messages whose body carries kernels or inputs
VerDep(m) == m \in {"tx", "stemtx", "block", "cblock"}
Frame(m, v) == [m |-> m, ver |-> v]
\* what a decoder of version v makes of a frame
Decode(f, v) == IF VerDep(f.m) /\ VerClass(f.ver) # VerClass(v) THEN "garbled" ELSE f.m
\* protocol.rs: the requests the handler answers through Consumed::Response
Response(m) == CASE m = "ping" -> "pong" [] m = "getpeers" -> "peeraddrs" [] m = "gettx" -> "tx"
                 [] m = "getblock" -> "block" [] m = "getheaders" -> "headers" [] OTHER -> ""

Ops == SubSeq(sc.ops, ip + 1, Len(sc.ops))
DoneOps == SubSeq(sc.ops, 1, ip)
Init == /\ sc \in Scenarios /\ ip = 0
        /\ stage = "hs" /\ nv = 0 /\ cv = 0
        /\ chan = <<>> /\ wireIn = <<>> /\ wireOut = <<>> /\ handed = <<>> /\ got = <<>> /\ down = FALSE

\* Handshake.tla Negotiated; Peer::new
Handshake == /\ stage = "hs"
             /\ stage' = "up"
             /\ nv' = Min(LocalVersion, sc.rv)
             /\ cv' = IF VersionFromInfo THEN Min(LocalVersion, sc.rv) ELSE LocalVersion
             /\ UNCHANGED <<sc, ip, chan, wireIn, wireOut, handed, got, down>>

RemoteWrites == /\ stage = "up" /\ Ops # <<>> /\ Head(Ops)[1] = "in"
                /\ wireIn' = Append(wireIn, Frame(Head(Ops)[2], nv))
                /\ ip' = ip + 1
                /\ UNCHANGED <<sc, stage, nv, cv, chan, wireOut, handed, got, down>>

\* ConnHandle::send: try_send, a full channel drops the message
Enqueue(c, f) == IF Len(c) < ChanCap THEN Append(c, f) ELSE c

\* reader thread: codec.read(), handler.consume(), Consumed::Response -> conn_handle.send
NodeReads == /\ stage = "up" /\ wireIn # <<>> /\ ~down
             /\ LET d == Decode(Head(wireIn), cv) IN
                IF d = "garbled"
                THEN down' = TRUE /\ UNCHANGED <<handed, chan>>
                ELSE /\ handed' = Append(handed, d)
                     /\ chan' = IF Response(d) # "" THEN Enqueue(chan, Frame(Response(d), cv)) ELSE chan
                     /\ UNCHANGED down
             /\ wireIn' = Tail(wireIn)
             /\ UNCHANGED <<sc, ip, stage, nv, cv, wireOut, got>>

\* Peer::send_*: Msg::new(type, msg, version) then ConnHandle::send
NodeSends == /\ stage = "up" /\ Ops # <<>> /\ Head(Ops)[1] = "out"
             /\ chan' = Enqueue(chan, Frame(Head(Ops)[2], cv))
             /\ ip' = ip + 1
             /\ UNCHANGED <<sc, stage, nv, cv, wireIn, wireOut, handed, got, down>>

\* writer thread: recv from the channel, write_message
WriterStep == /\ stage = "up" /\ chan # <<>> /\ Len(wireOut) + Len(got) < 3 * ChanCap
              /\ wireOut' = Append(wireOut, Head(chan))
              /\ chan' = IF WriteOnce THEN Tail(chan) ELSE chan
              /\ UNCHANGED <<sc, ip, stage, nv, cv, wireIn, handed, got, down>>

RemoteReads == /\ stage = "up" /\ wireOut # <<>>
               /\ got' = Append(got, Decode(Head(wireOut), nv))
               /\ wireOut' = Tail(wireOut)
               /\ UNCHANGED <<sc, ip, stage, nv, cv, chan, wireIn, handed, down>>

Next == Handshake \/ RemoteWrites \/ NodeReads \/ NodeSends \/ WriterStep \/ RemoteReads
Spec == Init /\ [][Next]_vars

---------------------------------------------------------------------------
RECURSIVE Names(_, _)
Names(ops, dir) == IF ops = <<>> THEN <<>>
                   ELSE (IF Head(ops)[1] = dir THEN <<Head(ops)[2]>> ELSE <<>>) \o Names(Tail(ops), dir)
RECURSIVE Responses(_)
Responses(ms) == IF ms = <<>> THEN <<>>
                 ELSE (IF Response(Head(ms)) # "" THEN <<Response(Head(ms))>> ELSE <<>>) \o Responses(Tail(ms))
IsPrefix(a, b) == Len(a) <= Len(b) /\ \A i \in 1..Len(a) : a[i] = b[i]
\* response names and names of the node's own sends are disjoint in the scenarios (checked by ScenarioOK)
RespNames == {"pong", "peeraddrs", "tx", "block", "headers"}
Sel(s, S) == SelectSeq(s, LAMBDA x : x \in S)
Quiet == Ops = <<>> /\ chan = <<>> /\ wireIn = <<>> /\ wireOut = <<>> /\ stage = "up"
OwnSends(s) == SelectSeq(s, LAMBDA x : x \notin RespNames)
ScenarioOK(x) == /\ \A i \in 1..Len(x.ops) : x.ops[i][1] \in {"in", "out"}
                 /\ \A i \in 1..Len(x.ops) : x.ops[i][1] = "out" => x.ops[i][2] \notin RespNames

TypeOK == /\ stage \in {"hs", "up"} /\ down \in BOOLEAN /\ Len(chan) <= ChanCap /\ ip \in 0..Len(sc.ops)
          /\ ScenarioOK(sc)
\* (1) node side: what reaches the adapter is what the remote peer wrote, in order
HandedFaithful == /\ IsPrefix(handed, Names(DoneOps, "in"))
                  /\ Quiet => handed = Names(sc.ops, "in")
\* (2) remote side: the answers arrive in the order of the requests, the node's own messages in the
\*     order of the Peer::send_* calls, each exactly once (the interleaving of the two is free: two
\*     threads feed the channel)
GotFaithful == /\ IsPrefix(Sel(got, RespNames), Responses(handed))
               /\ IsPrefix(OwnSends(got), Names(DoneOps, "out"))
               /\ Quiet => /\ Sel(got, RespNames) = Responses(Names(sc.ops, "in"))
                           /\ OwnSends(got) = Names(sc.ops, "out")
\* the connection uses the negotiated version, which is the lower of the two
VersionUsed == stage = "up" => nv = Min(LocalVersion, sc.rv) /\ cv = nv
\* nothing is garbled in either direction and the reader never gives up
NothingGarbled == ~down /\ (\A i \in 1..Len(got) : got[i] # "garbled") /\ (\A i \in 1..Len(handed) : handed[i] # "garbled")
=============================================================================
