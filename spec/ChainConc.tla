----------------------------- MODULE ChainConc -----------------------------
(***************************************************************************)
(* Concurrent use of the chain (property C17).  Threads run programs of    *)
(* public calls; every call is split into the CRITICAL SECTIONS the code   *)
(* really has (chain.rs):                                                  *)
(*   process_block(b)        = H  header section   (hpmmr:W, txhs:W, batch)*)
(*                             K  is_known + check_orphan (no chain lock)  *)
(*                             B  body section     (hpmmr:W, txhs:W, batch)*)
(*                             then check_orphans(height+1):               *)
(*                             O1 remove_by_height (orphan-pool lock)      *)
(*                             OH / OK / OB = H / K / B for each orphan    *)
(*   process_block_header(b) = HH header section                           *)
(*   get_unspent(c), head()  = one atomic read of committed state          *)
(* Sections of different threads interleave arbitrarily; each section is   *)
(* atomic because it holds both write locks from start to commit.  The     *)
(* stage operators are those of Chain.tla, so every Chain.tla invariant    *)
(* can be checked under all interleavings, and a linearised log of the     *)
(* real code's sections (lock hook) can be validated against this module.  *)
(***************************************************************************)
EXTENDS Chain

CONSTANTS TreeIn,      \* the block tree (function id -> block record), fixed for a run
          Threads,     \* set of thread ids
          Prog         \* [Threads -> Seq([k: "ProcessBlock"|"ProcessHeader", b: id])]

VARIABLES th,          \* per-thread control state
          results      \* per-thread sequence of finished call results
cvars == <<tree, n, ndel, last, th, results>>

IdleThread == [i |-> 1, st |-> "idle", b |-> 0, res |-> "-", oh |-> 0, lst |-> <<>>, j |-> 0, acc |-> FALSE]

CInit == /\ tree = TreeIn
         /\ n = TrunkNode(Trunk)
         /\ ndel = 0 /\ last = [k |-> "Init", b |-> 0, res |-> "-"]
         /\ th = [t \in Threads |-> IdleThread]
         /\ results = [t \in Threads |-> <<>>]

Ok(r) == r \in {"ok_head", "ok_fork"}
HasOp(t) == th[t].i <= Len(Prog[t])
Op(t) == Prog[t][th[t].i]

Finish(t, r, nd) ==
  /\ n' = nd
  /\ results' = [results EXCEPT ![t] = Append(@, r)]
  /\ th' = [th EXCEPT ![t] = [IdleThread EXCEPT !.i = th[t].i + 1]]

\* --- sections that hold the chain write locks ---
SecHH(t) == /\ th[t].st = "idle" /\ HasOp(t) /\ Op(t).k = "ProcessHeader"
            /\ LET r == ProcHeader(n, Op(t).b) IN Finish(t, IF r.ok THEN "ok" ELSE "reject", r.nd)

SecH(t) == /\ th[t].st = "idle" /\ HasOp(t) /\ Op(t).k = "ProcessBlock"
           /\ LET b == Op(t).b
                  r == ProcHeader(n, b)
              IN IF r.ok THEN /\ n' = r.nd
                              /\ th' = [th EXCEPT ![t].st = "K", ![t].b = b]
                              /\ UNCHANGED results
                 ELSE Finish(t, "reject", n)

SecB(t) == /\ th[t].st = "B"
           /\ LET r == BodyStage(n, th[t].b) IN
              IF Ok(r.res) THEN /\ n' = r.nd
                                /\ th' = [th EXCEPT ![t].st = "O1", ![t].res = r.res, ![t].oh = Height(th[t].b) + 1]
                                /\ UNCHANGED results
              ELSE Finish(t, r.res, r.nd)

NextOrphan(t, a, nd) ==
  LET acc2 == th[t].acc \/ a IN
  IF th[t].j < Len(th[t].lst)
  THEN /\ n' = nd /\ th' = [th EXCEPT ![t].j = @ + 1, ![t].acc = acc2, ![t].st = "OH"] /\ UNCHANGED results
  ELSE IF acc2 THEN /\ n' = nd /\ th' = [th EXCEPT ![t].oh = @ + 1, ![t].st = "O1", ![t].acc = FALSE] /\ UNCHANGED results
       ELSE Finish(t, th[t].res, nd)

CurOrphan(t) == th[t].lst[th[t].j]

SecOH(t) == /\ th[t].st = "OH"
            /\ LET r == ProcHeader(n, CurOrphan(t)) IN
               IF r.ok THEN /\ n' = r.nd /\ th' = [th EXCEPT ![t].st = "OK"] /\ UNCHANGED results
               ELSE NextOrphan(t, FALSE, n)

SecOB(t) == /\ th[t].st = "OB"
            /\ LET r == BodyStage(n, CurOrphan(t)) IN NextOrphan(t, Ok(r.res), r.nd)

\* --- steps outside the chain locks (not visible in the lock log) ---
\* check_orphan reads the head and the parent body (two store reads) and only then adds the block
\* to the orphan pool: the decision (StepK) and the insertion (StepKA) are separate steps
StepK(t) == /\ th[t].st = "K"
            /\ LET pb == PreBody(n, th[t].b) IN
               IF pb.res = "go" THEN /\ n' = n /\ th' = [th EXCEPT ![t].st = "B"] /\ UNCHANGED results
               ELSE IF pb.res = "orphan" THEN /\ n' = n /\ th' = [th EXCEPT ![t].st = "KA"] /\ UNCHANGED results
               ELSE Finish(t, pb.res, n)
AddOrphan(nd, b) == [nd EXCEPT !.orph = IF \E i \in 1..Len(@) : @[i] = b THEN @ ELSE Append(@, b)]
StepKA(t) == /\ th[t].st = "KA" /\ Finish(t, "orphan", AddOrphan(n, th[t].b))

StepO1(t) == /\ th[t].st = "O1"
             /\ LET lst == TakeAt(n.orph, th[t].oh)
                    nd == [n EXCEPT !.orph = RemoveAt(@, th[t].oh)]
                IN IF lst = <<>> THEN Finish(t, th[t].res, n)
                   ELSE /\ n' = nd
                        /\ th' = [th EXCEPT ![t].lst = lst, ![t].j = 1, ![t].acc = FALSE, ![t].st = "OH"]
                        /\ UNCHANGED results

StepOK(t) == /\ th[t].st = "OK"
             /\ LET pb == PreBody(n, CurOrphan(t)) IN
                IF pb.res = "go" THEN /\ n' = n /\ th' = [th EXCEPT ![t].st = "OB"] /\ UNCHANGED results
                ELSE IF pb.res = "orphan" THEN /\ n' = n /\ th' = [th EXCEPT ![t].st = "OKA"] /\ UNCHANGED results
                ELSE NextOrphan(t, FALSE, n)
StepOKA(t) == /\ th[t].st = "OKA" /\ NextOrphan(t, FALSE, AddOrphan(n, CurOrphan(t)))

Section(t) == SecHH(t) \/ SecH(t) \/ SecB(t) \/ SecOH(t) \/ SecOB(t)
Silent(t) == StepK(t) \/ StepKA(t) \/ StepO1(t) \/ StepOK(t) \/ StepOKA(t)

CNext == \E t \in Threads : (Section(t) \/ Silent(t)) /\ UNCHANGED <<tree, ndel, last>>
CSpec == CInit /\ [][CNext]_cvars

AllDone == \A t \in Threads : th[t].st = "idle" /\ ~HasOp(t)

-----------------------------------------------------------------------------
(* Safety under every interleaving: the Chain.tla state invariants *)
ConcSafe == /\ HeadValidated /\ BodiesValid /\ UnspentIsReplay /\ IndexConsistent /\ NoDupUnspent
            /\ SpentIdxInv /\ SumsInv /\ OnlyValidRemembered
ConcHeadMonotone == [][n'.head # n.head => Work(n'.head) > Work(n.head)]_cvars
\* readers only ever see committed states: every state between sections satisfies ConcSafe, and
\* the head always names a stored block
HeadStored == n.head \in n.bodies /\ n.hhead \in n.hdrs

(* When every thread has finished, the chain is in a state some sequential order of the same calls
   would produce.  A sufficient, checkable form: no valid block whose parent body is stored is left
   unprocessed in the orphan pool, and the head has maximal work among stored-ancestor blocks.   *)
FinalSequential == AllDone => (HeadMaxWork /\ OrphansRetried)
=============================================================================
