----------------------------- MODULE ChainConc -----------------------------
(***************************************************************************)
(* Concurrent use of the chain (property C17).  Threads run programs of    *)
(* public calls; every call is split into the CRITICAL SECTIONS the code   *)
(* really has (chain.rs):                                                  *)
(*   process_block(b)        = H  header section   (hpmmr:W, txhs:W, batch)*)
(*                             K  is_known + check_orphan (no chain lock)  *)
(*                             B  body section     (hpmmr:W, txhs:W, batch)*)
(*                             then check_orphans(height+1):               *)
(*                             O1 remove_by_height (orphan-pool lock)      *)
(*                             OH / OK / OB = H / K / B for each orphan    *)
(*   process_block_header(b) = HH header section                           *)
(*   compact()               = C  one section (or nothing when not due)    *)
(*   get_unspent(c), head()  = one atomic read of committed state          *)
(* Sections of different threads interleave arbitrarily; each section is   *)
(* atomic because it holds both write locks from start to commit.  The     *)
(* stage operators are those of Chain.tla, so every Chain.tla invariant    *)
(* can be checked under all interleavings, and a linearised log of the     *)
(* real code's sections (lock hook) can be validated against this module.  *)
(***************************************************************************)
EXTENDS Chain

CONSTANTS TreeIn,      \* the block tree (function id -> block record), fixed for a run
          Threads,     \* set of thread ids
          Prog,        \* [Threads -> Seq([k: "ProcessBlock"|"ProcessHeader"|"Compact", b: id])]
          MaxOrphans   \* capacity of the orphan pool (chain.rs MAX_ORPHAN_SIZE = 200)

VARIABLES th,          \* per-thread control state
          results      \* per-thread sequence of finished call results
cvars == <<tree, n, ndel, last, th, results>>

IdleThread == [i |-> 1, st |-> "idle", b |-> 0, res |-> "-", fr |-> <<>>]
\* fr = stack of orphan-retry frames [oh: height being retried, lst: orphans taken from the pool,
\*      j: index of the orphan in progress, acc: some orphan of this height was accepted]

CInit == /\ tree = TreeIn
         /\ n = TrunkNode(Trunk)
         /\ ndel = 0 /\ last = [k |-> "Init", b |-> 0, res |-> "-"]
         /\ th = [t \in Threads |-> IdleThread]
         /\ results = [t \in Threads |-> <<>>]

Ok(r) == r \in {"ok_head", "ok_fork"}
HasOp(t) == th[t].i <= Len(Prog[t])
Op(t) == Prog[t][th[t].i]
Top(t) == th[t].fr[Len(th[t].fr)]
CurOrphan(t) == Top(t).lst[Top(t).j]
SetTop(fr, f) == [fr EXCEPT ![Len(fr)] = f]
Pop(fr) == SubSeq(fr, 1, Len(fr) - 1)
NewFrame(h) == [oh |-> h, lst |-> <<>>, j |-> 0, acc |-> FALSE]

Finish(t, r, nd) ==
  /\ n' = nd
  /\ results' = [results EXCEPT ![t] = Append(@, r)]
  /\ th' = [th EXCEPT ![t] = [IdleThread EXCEPT !.i = th[t].i + 1]]

\* the orphan in progress (top frame) has been dealt with; a = it was accepted
RECURSIVE Advance(_, _, _, _)
Advance(t, fr, a, nd) ==
  LET f == fr[Len(fr)]
      acc2 == f.acc \/ a
  IN IF f.j < Len(f.lst)
     THEN /\ n' = nd /\ UNCHANGED results
          /\ th' = [th EXCEPT ![t].fr = SetTop(fr, [f EXCEPT !.j = @ + 1, !.acc = acc2]), ![t].st = "OH"]
     ELSE IF acc2
     THEN /\ n' = nd /\ UNCHANGED results
          /\ th' = [th EXCEPT ![t].fr = SetTop(fr, [f EXCEPT !.oh = @ + 1, !.acc = FALSE, !.lst = <<>>, !.j = 0]), ![t].st = "O1"]
     ELSE \* this retry loop is over: return to the caller
          IF Len(fr) = 1 THEN Finish(t, th[t].res, nd)
          ELSE Advance(t, Pop(fr), FALSE, nd)      \* nested loop was started by an orphan that returned Orphan

NextOrphan(t, a, nd) == Advance(t, th[t].fr, a, nd)

\* --- sections that hold the chain write locks ---
SecHH(t) == /\ th[t].st = "idle" /\ HasOp(t) /\ Op(t).k = "ProcessHeader"
            /\ LET r == ProcHeader(n, Op(t).b) IN Finish(t, IF r.ok THEN "ok" ELSE "reject", r.nd)

SecH(t) == /\ th[t].st = "idle" /\ HasOp(t) /\ Op(t).k = "ProcessBlock"
           /\ LET b == Op(t).b
                  r == ProcHeader(n, b)
              IN IF r.ok THEN /\ n' = r.nd
                              /\ th' = [th EXCEPT ![t].st = "K", ![t].b = b]
                              /\ UNCHANGED results
                 ELSE Finish(t, "reject", n)

SecB(t) == /\ th[t].st = "B"
           /\ LET r == BodyStage(n, th[t].b) IN
              IF Ok(r.res) THEN /\ n' = r.nd
                                /\ th' = [th EXCEPT ![t].st = "O1", ![t].res = r.res,
                                                     ![t].fr = <<NewFrame(Height(th[t].b) + 1)>>]
                                /\ UNCHANGED results
              ELSE Finish(t, r.res, r.nd)

SecOH(t) == /\ th[t].st = "OH"
            /\ LET r == ProcHeader(n, CurOrphan(t)) IN
               IF r.ok THEN /\ n' = r.nd /\ th' = [th EXCEPT ![t].st = "OK"] /\ UNCHANGED results
               ELSE NextOrphan(t, FALSE, n)

SecOB(t) == /\ th[t].st = "OB"
            /\ LET r == BodyStage(n, CurOrphan(t)) IN NextOrphan(t, Ok(r.res), r.nd)

\* Chain::compact(): (1) without a lock, looks at head and tail, returns at once unless head >= tail + horizon + 60,
\* and picks the archive header for the head it saw (StepCD; the archive height stays in th[t].b); (2) ONE section
\* under header_pmmr.read + txhashset.write + batch that rewrites the pruned MMR files up to the horizon of the head
\* it finds THEN (the head may have been reorganised to a lower block meanwhile), removes the full blocks below
\* min(archive height of step 1, that horizon) and moves the tail there (SecC).  As Chain.tla's CompactNode: a stutter
\* on everything a reader observes except the stored bodies.
ArchHeight(H) == SatSub(H, SyncThreshold) - (SatSub(H, SyncThreshold) % ArchiveInterval)
StepCD(t) == /\ th[t].st = "idle" /\ HasOp(t) /\ Op(t).k = "Compact"
             /\ IF CanCompact(n)
                THEN /\ n' = n /\ UNCHANGED results
                     /\ th' = [th EXCEPT ![t].st = "C", ![t].b = ArchHeight(Height(n.head))]
                ELSE Finish(t, "ok", n)
SecC(t) == /\ th[t].st = "C"
           /\ LET H == Height(n.head)
                  hor == SatSub(H, Horizon)
                  cutoff == IF th[t].b < hor THEN th[t].b ELSE hor
              IN Finish(t, "ok",
                        IF cutoff = 0 THEN [n EXCEPT !.hz = hor]
                        ELSE [n EXCEPT !.tail = cutoff, !.hz = hor,
                                       !.bodies = {b \in @ : Height(b) >= cutoff},
                                       !.sums = {b \in @ : Height(b) >= cutoff},
                                       !.spentIdx = [x \in {y \in DOMAIN n.spentIdx : Height(y) >= cutoff} |-> n.spentIdx[x]]])

\* --- steps outside the chain locks (not visible in the lock log) ---
\* check_orphan reads the head and the parent body (two store reads) and only then adds the block
\* to the orphan pool: the decision (StepK) and the insertion (StepKA) are separate steps.  After
\* the insertion the parent is looked up again and, if it has arrived meanwhile, the orphan's
\* height is retried at once (the call itself still returns Orphan).
StepK(t) == /\ th[t].st = "K"
            /\ LET pb == PreBody(n, th[t].b) IN
               IF pb.res = "go" THEN /\ n' = n /\ th' = [th EXCEPT ![t].st = "B"] /\ UNCHANGED results
               ELSE IF pb.res = "orphan" THEN /\ n' = n /\ th' = [th EXCEPT ![t].st = "KA"] /\ UNCHANGED results
               ELSE Finish(t, pb.res, n)
\* OrphanBlockPool::add: insert, and when the pool has grown beyond its capacity drop whole heights,
\* the farthest ahead first, until it is BELOW the capacity (the block just added may be among them).
\* (The age limit of 300 s is outside the model: no run lasts that long.)
TopHeight(sq) == CHOOSE h \in {Height(sq[i]) : i \in 1..Len(sq)} : \A j \in 1..Len(sq) : Height(sq[j]) <= h
RECURSIVE EvictAhead(_)
EvictAhead(sq) == LET s2 == RemoveAt(sq, TopHeight(sq)) IN IF Len(s2) < MaxOrphans THEN s2 ELSE EvictAhead(s2)
\* The pool is kept ordered by height, insertion order within a height (the real pool is a map plus a height index
\* holding the hashes of each height in insertion order): everything the model reads from it - TakeAt, RemoveAt,
\* membership, size, the eviction - depends on that order only, and insertions at different heights by different
\* threads commute instead of producing as many states as there are arrival orders.
InsertByHeight(sq, b) == LET k == Cardinality({i \in 1..Len(sq) : Height(sq[i]) <= Height(b)})
                         IN SubSeq(sq, 1, k) \o <<b>> \o SubSeq(sq, k + 1, Len(sq))
PoolAdd(sq, b) == LET a == IF \E i \in 1..Len(sq) : sq[i] = b THEN sq ELSE InsertByHeight(sq, b)
                  IN IF Len(a) > MaxOrphans THEN EvictAhead(a) ELSE a
AddOrphan(nd, b) == [nd EXCEPT !.orph = PoolAdd(@, b)]
StepKA(t) == /\ th[t].st = "KA"
             /\ LET nd == AddOrphan(n, th[t].b) IN
                IF Parent(th[t].b) \in nd.bodies
                THEN /\ n' = nd /\ UNCHANGED results
                     /\ th' = [th EXCEPT ![t].st = "O1", ![t].res = "orphan", ![t].fr = <<NewFrame(Height(th[t].b))>>]
                ELSE Finish(t, "orphan", nd)

StepO1(t) == /\ th[t].st = "O1"
             /\ LET f == Top(t)
                    lst == TakeAt(n.orph, f.oh)
                    nd == [n EXCEPT !.orph = RemoveAt(@, f.oh)]
                IN IF lst = <<>>
                   THEN (IF Len(th[t].fr) = 1 THEN Finish(t, th[t].res, n)
                         ELSE Advance(t, Pop(th[t].fr), FALSE, n))
                   ELSE /\ n' = nd /\ UNCHANGED results
                        /\ th' = [th EXCEPT ![t].fr = SetTop(@, [f EXCEPT !.lst = lst, !.j = 1, !.acc = FALSE]), ![t].st = "OH"]

StepOK(t) == /\ th[t].st = "OK"
             /\ LET pb == PreBody(n, CurOrphan(t)) IN
                IF pb.res = "go" THEN /\ n' = n /\ th' = [th EXCEPT ![t].st = "OB"] /\ UNCHANGED results
                ELSE IF pb.res = "orphan" THEN /\ n' = n /\ th' = [th EXCEPT ![t].st = "OKA"] /\ UNCHANGED results
                ELSE NextOrphan(t, FALSE, n)
StepOKA(t) == /\ th[t].st = "OKA"
              /\ LET x == CurOrphan(t)
                     nd == AddOrphan(n, x)
                 IN IF Parent(x) \in nd.bodies
                    THEN /\ n' = nd /\ UNCHANGED results           \* nested retry of that height
                         /\ th' = [th EXCEPT ![t].st = "O1", ![t].fr = Append(@, NewFrame(Height(x)))]
                    ELSE NextOrphan(t, FALSE, nd)

Section(t) == SecHH(t) \/ SecH(t) \/ SecB(t) \/ SecOH(t) \/ SecOB(t) \/ SecC(t)
Silent(t) == StepK(t) \/ StepKA(t) \/ StepO1(t) \/ StepOK(t) \/ StepOKA(t) \/ StepCD(t)

CNext == \E t \in Threads : (Section(t) \/ Silent(t)) /\ UNCHANGED <<tree, ndel, last>>
CSpec == CInit /\ [][CNext]_cvars

AllDone == \A t \in Threads : th[t].st = "idle" /\ ~HasOp(t)

-----------------------------------------------------------------------------
(* Safety under every interleaving: the Chain.tla state invariants *)
ConcSafe == /\ HeadValidated /\ BodiesValid /\ UnspentIsReplay /\ IndexConsistent /\ NoDupUnspent
            /\ SpentIdxInv /\ SumsInv /\ OnlyValidRemembered
ConcHeadMonotone == [][n'.head # n.head => Work(n'.head) > Work(n.head)]_cvars
\* readers only ever see committed states: every state between sections satisfies ConcSafe, and
\* the head always names a stored block
HeadStored == n.head \in n.bodies /\ n.hhead \in n.hdrs

(* When every thread has finished, the chain is in a state some sequential order of the same calls
   would produce.  A sufficient, checkable form: no valid block whose parent body is stored is left
   unprocessed in the orphan pool, and the head has maximal work among stored-ancestor blocks.   *)
FinalSequential == AllDone => (HeadMaxWork /\ OrphansRetried)
\* the orphan pool never holds more than its capacity between two steps
PoolBounded == Len(n.orph) <= MaxOrphans
=============================================================================
