------------------------------- MODULE Codec -------------------------------
(***************************************************************************)
(* C19 - peer message framing.  Implementation-shaped model of             *)
(* p2p/src/codec.rs `Codec::read_inner` reading a byte stream that another *)
(* peer wrote as a sequence of frames, delivered by the network in         *)
(* arbitrary fragments.  Bytes are abstracted to *counts*: the content of  *)
(* the stream is a function of the byte offset (frame layout), so the      *)
(* machine carries offsets only.                                           *)
(*                                                                         *)
(*   stream    sequence of abstract frames (chosen in Init, then constant) *)
(*   avail     bytes the network has delivered so far (fragment boundary)  *)
(*   pos       bytes the codec has taken out of the socket                 *)
(*   buf       bytes in the carry-over buffer `Codec.buffer`               *)
(*   pre,pend  `pre_len` and the bytes still missing in the running        *)
(*             `read_exact` (ReadExact steps make fragmentation explicit)  *)
(*   nl        `next_len` of the current loop iteration                    *)
(*   st        `Codec.state`: None | Header | BlockHeaders | Attachment    *)
(*   pc        call | loop | read | parse   (control point in read_inner)  *)
(*   want      attachment size the caller will announce through            *)
(*             `expect_attachment` before the next read (-1: none)         *)
(*   out       results returned by `read` so far                           *)
(*   halted    an error was returned (conn.rs leaves the read loop)        *)
(*   done      clean end of stream reached                                 *)
(*   tmo       read timeout installed on the socket by the last            *)
(*             `set_stream_timeout`: "hdr" (HEADER_IO_TIMEOUT, 2 s) or      *)
(*             "body" (BODY_IO_TIMEOUT, 60 s)                               *)
(*   sil       the writing peer has been silent for longer than the header *)
(*             timeout (and shorter than the body timeout) since the last  *)
(*             delivery                                                    *)
(*                                                                         *)
(* "Within the I/O timeouts" (the property's quantifier) is the predicate  *)
(* SilenceOK: a silence longer than the header timeout may occur between   *)
(* two frames (the reader polls again) and anywhere after the 11 header    *)
(* bytes of a frame (body, header items, attachment), where the body       *)
(* timeout governs; gaps shorter than the header timeout may occur         *)
(* anywhere (Deliver).                                                     *)
(*                                                                         *)
(* A definitional oracle `ExpectedSeq(stream)` states what the property    *)
(* demands for the frames alone; `Faithful` compares the two for every     *)
(* fragmentation.                                                          *)
(*                                                                         *)
(* The protocol version of the connection enters through the frames of     *)
(* kind "built": real transactions, blocks, compact blocks and segment     *)
(* responses whose wire size per version is computed here (ObjSize) and    *)
(* must be what the node's writer produces; the reader decodes with the    *)
(* same version (ReaderVersion) - the probe constant VersionSkew shows     *)
(* that the model notices a reader that does not.  Header lists carry      *)
(* items of different sizes (`mix`), which is why the reader over-reads    *)
(* BHMAX bytes per header and gives back what the header did not use.      *)
(***************************************************************************)
EXTENDS Integers, Sequences, FiniteSets, TLC

CONSTANTS Streams,        \* set of frame sequences explored (MC module)
          HDR,            \* MsgHeader::LEN = 11
          BH,             \* serialised size of one block header in the parameterisation (257)
          BHMAX,          \* header_size_bytes(63) = 310: over-estimate read per header
          BATCH,          \* HEADER_BATCH_SIZE = 32
          CHUNK,          \* attachment chunk = 48 000
          MaxBlockSize,   \* msg.rs max_block_size() = max_block_weight / 21 * 708
          TimeoutPerChunk,\* TRUE: `set_stream_timeout` runs before every `read_exact` (codec.rs);
                          \* FALSE: once per `read` call (probe configuration only)
          SerErrorsFatal, \* TRUE: every error returned by `read` ends the reader loop of conn.rs
                          \* (`try_break!`); FALSE: Error::Serialization is skipped like a timeout
                          \* (probe configuration only, see CodecConn.tla)
          VersionSkew     \* 0: the reader decodes with the protocol version the writer serialised with
                          \* (the version negotiated for the connection, `Codec.version`);
                          \* v > 0: the reader decodes every body with version v whatever the connection
                          \* negotiated (probe configuration only: `decode_message(.., ProtocolVersion::local())`)

VARIABLES stream, avail, pos, buf, pre, pend, nl, st, pc, want, out, halted, done, tmo, sil
vars == <<stream, avail, pos, buf, pre, pend, nl, st, pc, want, out, halted, done, tmo, sil>>

Min(a, b) == IF a < b THEN a ELSE b
Max(a, b) == IF a > b THEN a ELSE b

---------------------------------------------------------------------------
(* msg.rs: message types and the per-type size table                      *)
KnownType(t) == t \in 0..28
T_Headers == 9
T_Archive == 17
MaxMsgSize(t) ==
  CASE t = 0 -> 0
    [] t = 1 -> 128
    [] t = 2 -> 88
    [] t = 3 -> 16
    [] t = 4 -> 16
    [] t = 5 -> 4
    [] t = 6 -> 4 + (1 + 16 + 2) * 256
    [] t = 7 -> 1 + 32 * 20
    [] t = 8 -> 365
    [] t = 9 -> 2 + 365 * 512
    [] t = 10 -> 32
    [] t = 11 -> MaxBlockSize
    [] t = 12 -> 32
    [] t = 13 -> MaxBlockSize \div 10
    [] t = 14 -> MaxBlockSize
    [] t = 15 -> MaxBlockSize
    [] t = 16 -> 40
    [] t = 17 -> 64
    [] t = 18 -> 64
    [] t = 19 -> 32
    [] t = 20 -> 32
    [] t \in {21, 23, 25, 27} -> 41
    [] t \in {22, 24, 26, 28} -> 2 * MaxBlockSize
\* "TODO 4x the limits for now"; unknown types use the block size
Limit(t) == IF KnownType(t) THEN 4 * MaxMsgSize(t) ELSE 4 * MaxBlockSize

---------------------------------------------------------------------------
(* Abstract frames.  Every frame is a record                              *)
(*  [k, t, magic, len, body, need, count, items, extra, att]              *)
(*   t      type byte          magic  network magic correct               *)
(*   len    announced msg_len  body   body bytes actually in the stream   *)
(*   need   bytes the body decoder of type t consumes for this content    *)
(*          (-1: the decoder refuses the content, e.g. count above cap)   *)
(*   count  item count field   items  whole items carried                 *)
(*   extra  (Headers) bytes after the last whole header that are no header*)
(*   att    attachment bytes announced in the body and following the frame*)
(* Optional fields (absent in frames recorded by the harness, see the      *)
(* accessors below):                                                       *)
(*   mix    (headers / counted) the sizes of the items, repeated           *)
(*          cyclically: block headers differ in size with the edge bits of *)
(*          their proof of work, peer addresses with the address family    *)
(*   ver,obj (built) the protocol version the body was serialised with and *)
(*          the composition of the object (transaction, block, compact     *)
(*          block, segment response) - their wire form depends on it       *)
(*   mv     which two magic bytes the frame carries (label for the         *)
(*          renderer; `magic` says whether they are the local network's)   *)
(*   wlen   the announced length on the wire when it does not fit a TLC    *)
(*          integer (decimal string; `len` is then the abstraction 2^30:   *)
(*          the machine only ever compares `len` with a limit < 2^30)      *)
FrameSize(f) == HDR + f.body + f.att

\* ---- items of different sizes ---------------------------------------------------------
Has(f, fld) == fld \in DOMAIN f
MixOf(f) == IF Has(f, "mix") /\ f.mix # <<>> THEN f.mix ELSE <<BH>>
RECURSIVE SumTo(_, _)
SumTo(m, n) == IF n = 0 THEN 0 ELSE SumTo(m, n - 1) + m[n]
\* size of the j-th item (1-based) and the offset of the end of the j-th item in the item area
ItemSize(f, j) == LET m == MixOf(f) IN m[((j - 1) % Len(m)) + 1]
ItemEnd(f, j) == LET m == MixOf(f)  L == Len(m) IN (j \div L) * SumTo(m, L) + SumTo(m, j % L)

\* ---- bodies whose wire form depends on the protocol version -----------------------------
\* core/src/core/transaction.rs: kernels are written in a fixed 17-byte feature layout for version 1
\* and in a per-variant layout from version 2 on (KernelFeatures::write_v1 / write_v2); inputs
\* carry their feature byte up to version 2 and are bare commitments from version 3 on.
VerClass(v) == IF v <= 1 THEN 1 ELSE IF v = 2 THEN 2 ELSE 3
KernelSize(kf, v) ==
  (IF VerClass(v) = 1 THEN 17
   ELSE CASE kf = "plain" -> 9 [] kf = "coinbase" -> 1 [] kf = "heightlocked" -> 17 [] kf = "nrd" -> 11)
  + 33 + 64
RECURSIVE KernelsSize(_, _)
KernelsSize(ks, v) == IF ks = <<>> THEN 0 ELSE KernelSize(Head(ks), v) + KernelsSize(Tail(ks), v)
InputSize(v) == IF VerClass(v) = 3 THEN 33 ELSE 34
OutputSize == 1 + 33 + 8 + 675
\* PMMR segment: identifier, (pos, hash) of the pruned subtrees, (pos, leaf) of the leaves, proof hashes
SegSize(o, leaves) == 9 + 8 + o.nh * (8 + 32) + 8 + o.nl * 8 + leaves + 8 + o.np * 32
NoObj == [kind |-> "", nin |-> 0, nout |-> 0, kern |-> <<>>, ids |-> 0, nh |-> 0, nl |-> 0, np |-> 0]
\* serialised size of an object at protocol version v
ObjSize(o, v) ==
  CASE o.kind = "tx"     -> 32 + 24 + o.nin * InputSize(v) + o.nout * OutputSize + KernelsSize(o.kern, v)
    [] o.kind = "block"  -> BH + 24 + o.nin * InputSize(v) + o.nout * OutputSize + KernelsSize(o.kern, v)
    [] o.kind = "cblock" -> BH + 8 + 24 + o.nout * OutputSize + KernelsSize(o.kern, v) + o.ids * 6
    [] o.kind = "kseg"   -> 32 + SegSize(o, KernelsSize(o.kern, v))
    [] o.kind = "rseg"   -> 32 + SegSize(o, o.nl * (8 + 675))
    [] o.kind = "oseg"   -> 32 + SegSize(o, o.nl * 34) + 32
    \* output bitmap segment: one block of o.nl chunks with o.ids bits set, written as their positions
    [] o.kind = "bseg"   -> 32 + 9 + 2 + (1 + 1 + 2 + o.ids * 2) + 8 + o.np * 32 + 32
\* The protocol version of the connection.  The writer serialises every body with it
\* (`Msg::new(.., version)`), so the built frames of one stream carry one version; the reader
\* decodes with the same one (`Codec::new(version, ..)`) unless the probe constant says otherwise.
WriterVersion(s) == LET vs == {s[i].ver : i \in {j \in 1..Len(s) : s[j].k = "built"}} IN
                    IF vs = {} THEN 0 ELSE CHOOSE v \in vs : TRUE
OneVersion(s) == \A i, j \in 1..Len(s) : (s[i].k = "built" /\ s[j].k = "built") => s[i].ver = s[j].ver
ReaderVersion(s) == IF VersionSkew > 0 THEN VersionSkew ELSE WriterVersion(s)
\* what the body decoder of the reader makes of frame f: bytes consumed, -1 = refuses.  A reader of
\* another version reads the object as written iff the two versions give it the same wire form
\* (here: the same size - the forms differ in the width of every kernel's features and every input)
NeedAt(s, f) == IF f.k # "built" THEN f.need
                ELSE IF ObjSize(f.obj, ReaderVersion(s)) = f.len THEN f.need ELSE -1
RECURSIVE StartOf(_, _)
StartOf(s, i) == IF i = 1 THEN 0 ELSE StartOf(s, i - 1) + FrameSize(s[i - 1])
Total(s) == IF s = <<>> THEN 0 ELSE StartOf(s, Len(s)) + FrameSize(s[Len(s)])
\* index of the frame that starts at byte offset p (0 if none)
FrameAt(s, p) == LET c == {i \in 1..Len(s) : StartOf(s, i) = p} IN
                 IF c = {} THEN 0 ELSE CHOOSE i \in c : TRUE

\* Property-level classification of one frame (from the frame alone)
FrameClass(f) ==
  IF ~f.magic \/ f.len > Limit(f.t) THEN "refused"
  ELSE IF ~KnownType(f.t) THEN "unknown"
  ELSE IF f.t \in {0, 1, 2} THEN "unexpected"
  ELSE IF f.t = T_Headers
       THEN IF f.len >= 2 /\ f.count = f.items /\ f.extra = 0 THEN "headers" ELSE "badcount"
  ELSE IF f.need < 0 \/ f.need > f.len THEN "baddecode"
  ELSE IF f.need < f.len THEN "trailing"
  ELSE "msg"

\* "refused without reading or allocating the announced body": the largest single allocation
\* request while a frame is being read.  A frame refused on its header costs nothing that depends on
\* the frame; any other frame costs at most a constant factor of the bytes it actually carries
\* (16 covers in-memory items that are larger than their wire form) - never something that
\* depends on an item COUNT the body merely announces.
\* An attachment is streamed in chunks: the bytes a read carries are at most one chunk of it.
AllocBound(f) == IF FrameClass(f) = "refused" THEN 65536
                 ELSE 16 * (HDR + f.body + (IF f.att < CHUNK THEN f.att ELSE CHUNK)) + 65536

\* Frame constructors used by the model-checking and trace modules
Frame(k, t, magic, len, body, need, count, items, extra, att) ==
  [k |-> k, t |-> t, magic |-> magic, len |-> len, body |-> body, need |-> need,
   count |-> count, items |-> items, extra |-> extra, att |-> att,
   mix |-> <<>>, ver |-> 0, obj |-> NoObj, mv |-> IF magic THEN "ok" ELSE "b2", wlen |-> ""]
\* fixed-size body of sz bytes
Fixed(t, sz) == Frame("fixed", t, TRUE, sz, sz, sz, 0, 0, 0, 0)
\* count field of `base` bytes followed by items of isz bytes; the decoder refuses count > cap
Counted(t, base, isz, cap, count, items) ==
  [Frame("counted", t, TRUE, base + items * isz, base + items * isz,
         IF count > cap THEN -1 ELSE base + count * isz, count, items, 0, 0) EXCEPT !.mix = <<isz>>]
\* list of `items` block headers whose sizes cycle through `mix`, `extra` bytes of no header behind them
HeadersM(count, items, extra, mix) ==
  LET sz == (items \div Len(mix)) * SumTo(mix, Len(mix)) + SumTo(mix, items % Len(mix)) IN
  [Frame("headers", T_Headers, TRUE, 2 + sz + extra, 2 + sz + extra, 0, count, items, extra, 0) EXCEPT !.mix = mix]
HeadersF(count, items, extra) == HeadersM(count, items, extra, <<BH>>)
\* an object of composition o serialised by the writer at protocol version v (`Msg::new`)
Built(t, o, v) == [Frame("built", t, TRUE, ObjSize(o, v), ObjSize(o, v), ObjSize(o, v), 0, 0, 0, 0)
                     EXCEPT !.ver = v, !.obj = o]
Archive(att) == Frame("archive", T_Archive, TRUE, 48, 48, 48, 0, 0, 0, att)
Unknown(t, len) == Frame("unknown", t, TRUE, len, len, 0, 0, 0, 0, 0)
\* hand-crafted header: announced len, `body` bytes present, decoder would need `need`
Raw(t, magic, len, body, need, count) == Frame("raw", t, magic, len, body, need, count, 0, 0, 0)
\* the same with the two magic bytes named: mv is the network whose magic the frame carries
\* ("main" / "test" / "other") or a corruption of the local one ("b1": first byte, "b2": second, "b12": both)
RawMagic(t, mv, local, len, body, need, count) == [Raw(t, mv = local, len, body, need, count) EXCEPT !.mv = mv]
\* a header announcing a length beyond TLC's integers: the model value is 2^30 (the machine only
\* compares it with limits below 2^30), the wire carries `wl`
HugeLen == 1073741824
RawWire(t, wl, body) == [Raw(t, TRUE, HugeLen, body, 0, 0) EXCEPT !.wlen = wl]

\* Uniform result records.  r: msg | headers | att | unknown | err
Res(r, t, n, rem, fi, p, why) ==
  [r |-> r, t |-> t, n |-> n, rem |-> rem, fi |-> fi, pos |-> p, why |-> why, ok |-> TRUE]
\* Expected entries: [r, t, n, lo, hi, lax, fi]  (fi: index of the frame it stems from)
Exp(r, t, n, lo, hi, lax, fi) == [r |-> r, t |-> t, n |-> n, lo |-> lo, hi |-> hi, lax |-> lax, fi |-> fi]

FrameExpect(s, i) ==
  LET f == s[i]  b == StartOf(s, i)  c == FrameClass(f) IN
  CASE c = "refused"    -> <<Exp("err", f.t, 0, b + HDR, b + HDR, FALSE, i)>>
    [] c = "unknown"    -> <<Exp("unknown", f.t, 0, 0, 0, FALSE, i)>>
    [] c = "unexpected" -> <<Exp("err", f.t, 0, b + HDR + f.len, b + HDR + f.len, FALSE, i)>>
    [] c = "baddecode"  -> <<Exp("err", f.t, 0, b + HDR + f.len, b + HDR + f.len, FALSE, i)>>
    [] c = "badcount"   -> <<Exp("err", f.t, 0, b + HDR + Min(f.len, 2), b + HDR + f.len, FALSE, i)>>
    [] c = "headers"    -> <<Exp("headers", f.t, f.count, 0, 0, FALSE, i)>>
    \* "item counts inconsistent with its length": the body is longer than what its items need
    [] c = "trailing"   -> <<Exp("err", f.t, 0, b + HDR, b + HDR + f.len, FALSE, i)>>
    [] c = "msg"        -> IF f.t = T_Archive
                           THEN <<Exp("msg", f.t, f.count, 0, 0, FALSE, i), Exp("att", f.t, f.att, 0, 0, FALSE, i)>>
                           ELSE <<Exp("msg", f.t, f.count, 0, 0, FALSE, i)>>

\* Expected results of a whole stream: per frame, stopping after the first error.
RECURSIVE ExpectFrom(_, _)
ExpectFrom(s, i) ==
  IF i > Len(s) THEN <<>>
  ELSE LET e == FrameExpect(s, i) IN
       IF e[Len(e)].r = "err" THEN e ELSE e \o ExpectFrom(s, i + 1)
ExpectedSeq(s) == ExpectFrom(s, 1)

---------------------------------------------------------------------------
(* Candidate fragment boundaries: around every structural boundary of     *)
(* every frame.  (The harness additionally tries every single byte.)      *)
FrameCuts(s, i) ==
  LET f == s[i]  b == StartOf(s, i)  e == b + HDR + f.body IN
  {b + 1, b + 2, b + 3, b + HDR - 1, b + HDR, b + HDR + 1, b + HDR + 2, b + HDR + 3,
   b + HDR + 2 + ItemEnd(f, 1) - 1, b + HDR + 2 + ItemEnd(f, 1), b + HDR + 2 + ItemEnd(f, 1) + 1,
   b + HDR + 2 + BHMAX, b + HDR + 2 + BHMAX + 1,
   b + HDR + 2 + ItemEnd(f, 2), b + HDR + 2 + ItemEnd(f, 1) + BHMAX,
   b + HDR + 2 + ItemEnd(f, BATCH) - 1, b + HDR + 2 + ItemEnd(f, BATCH), b + HDR + 2 + ItemEnd(f, BATCH) + 1,
   e - 1, e, e + 1, e + CHUNK - 1, e + CHUNK, e + CHUNK + 1}
Cuts(s) == {c \in UNION {FrameCuts(s, i) : i \in 1..Len(s)} : c > 0 /\ c < Total(s)}

---------------------------------------------------------------------------
NoneSt == [tag |-> "None", known |-> FALSE, t |-> 0, len |-> 0, fi |-> 0, bl |-> 0, il |-> 0, acc |-> 0, left |-> 0]
HeaderSt(known, t, len, fi) == [NoneSt EXCEPT !.tag = "Header", !.known = known, !.t = t, !.len = len, !.fi = fi]
BlockHeadersSt(fi, bl, il, acc) == [NoneSt EXCEPT !.tag = "BlockHeaders", !.fi = fi, !.bl = bl, !.il = il, !.acc = acc]
AttachmentSt(fi, left) == [NoneSt EXCEPT !.tag = "Attachment", !.fi = fi, !.left = left]

Init == /\ stream \in Streams
        /\ avail = 0 /\ pos = 0 /\ buf = 0 /\ pre = 0 /\ pend = 0 /\ nl = 0
        /\ st = NoneSt /\ pc = "call" /\ want = -1 /\ out = <<>>
        /\ halted = FALSE /\ done = FALSE
        /\ tmo = "body"      \* a fresh socket has no read timeout: nothing fires within the body timeout
        /\ sil = FALSE

Running == ~halted /\ ~done

\* "Within the I/O timeouts": the byte offsets at which the writing peer may pause for longer than
\* HEADER_IO_TIMEOUT (always shorter than BODY_IO_TIMEOUT).  Between two frames, and anywhere from
\* the end of the 11 header bytes of a frame to the end of its body / attachment.  A pause of that
\* length inside the 11 header bytes is outside the property's quantifier.
SilenceOK(s, p) == \E i \in 1..Len(s) : LET b == StartOf(s, i) IN
                      p = b \/ (p >= b + HDR /\ p < b + FrameSize(s[i]))

\* The network hands over bytes up to some later boundary.  Delivering only when the reader is
\* blocked on an empty socket loses no behaviour: a read syscall returns min(wanted, available),
\* so any real schedule equals the lazy schedule cut where a syscall drained the socket.
\* Without a preceding Silence the gap is shorter than every timeout.
Deliver == /\ Running /\ pc = "read" /\ avail = pos /\ avail < Total(stream)
           /\ avail' \in {c \in Cuts(stream) \cup {Total(stream)} : c > avail}
           /\ sil' = FALSE
           /\ UNCHANGED <<stream, pos, buf, pre, pend, nl, st, pc, want, out, halted, done, tmo>>

\* The peer stays silent for longer than the header timeout (shorter than the body timeout)
\* before it sends the byte at offset `avail`.
Silence == /\ Running /\ pc = "read" /\ avail = pos /\ avail < Total(stream) /\ ~sil
           /\ SilenceOK(stream, avail)
           /\ sil' = TRUE
           /\ UNCHANGED <<stream, avail, pos, buf, pre, pend, nl, st, pc, want, out, halted, done, tmo>>

\* Codec::set_stream_timeout: header timeout while no frame is open, body timeout otherwise
TimeoutFor(s) == IF s.tag = "None" THEN "hdr" ELSE "body"

\* conn.rs: Consumed::Attachment(meta, file) => codec.expect_attachment(meta)
ExpectAttachment ==
  /\ Running /\ pc = "call" /\ want >= 0 /\ st.tag = "None"
  /\ st' = AttachmentSt(st.fi, want) /\ want' = -1
  /\ UNCHANGED <<stream, avail, pos, buf, pre, pend, nl, pc, out, halted, done, tmo, sil>>

\* read(): enter read_inner
Call == /\ Running /\ pc = "call" /\ want = -1
        /\ pc' = "loop"
        /\ tmo' = IF TimeoutPerChunk THEN tmo ELSE TimeoutFor(st)
        /\ UNCHANGED <<stream, avail, pos, buf, pre, pend, nl, st, want, out, halted, done, sil>>

\* Codec::next_len
NextLen == CASE st.tag = "None" -> HDR
             [] st.tag = "Header" /\ st.known /\ st.t = T_Headers -> Min(st.len, 2)
             [] st.tag = "Header" -> st.len
             [] st.tag = "BlockHeaders" -> Min(st.bl, BHMAX)
             [] st.tag = "Attachment" -> Min(st.left, CHUNK)

\* top of the loop: how many more bytes are needed on top of the carry-over buffer; the timeout
\* for the coming read_exact is chosen from the state of *this* iteration
Loop == /\ Running /\ pc = "loop"
        /\ nl' = NextLen
        /\ pre' = buf
        /\ LET toRead == Max(NextLen - buf, 0) IN
           /\ pend' = toRead
           /\ pc' = IF toRead > 0 THEN "read" ELSE "parse"
           /\ tmo' = IF TimeoutPerChunk /\ toRead > 0 THEN TimeoutFor(st) ELSE tmo
        /\ UNCHANGED <<stream, avail, pos, buf, st, want, out, halted, done, sil>>

\* one read syscall inside read_exact: takes what is there
ReadExact == /\ Running /\ pc = "read" /\ pend > 0 /\ avail > pos
             /\ LET k == Min(pend, avail - pos) IN
                /\ pos' = pos + k /\ buf' = buf + k /\ pend' = pend - k
                /\ pc' = IF pend - k = 0 THEN "parse" ELSE "read"
             /\ UNCHANGED <<stream, avail, pre, nl, st, want, out, halted, done, tmo, sil>>

\* The peer is silent for longer than the timeout in force: read_exact fails, the reserved bytes
\* are undone (`buffer.truncate(pre_len)`), conn.rs simply calls read again.  Under the header
\* timeout between two frames nothing was taken yet and nothing is lost.  Bytes that this
\* read_exact had already taken out of the socket are gone with the truncation: the next read
\* starts in the middle of the item (recorded as the error "lost"; NoDesync forbids it).  The body
\* timeout never expires (silences are shorter).
Timeout == /\ Running /\ pc = "read" /\ avail = pos /\ avail < Total(stream)
           /\ sil /\ tmo = "hdr"
           /\ buf' = pre /\ pend' = 0 /\ pc' = "call"
           /\ IF buf = pre
              THEN UNCHANGED <<out, halted>>
              ELSE /\ out' = Append(out, Res("err", st.t, 0, 0, st.fi, pos, "lost"))
                   /\ halted' = TRUE
           /\ UNCHANGED <<stream, avail, pos, pre, nl, st, want, done, tmo, sil>>

\* End of stream (peer closed).  Clean only between frames.
Eof == /\ Running /\ pc = "read" /\ avail = pos /\ avail = Total(stream)
       /\ buf' = pre /\ pend' = 0 /\ pc' = "call"
       /\ IF st.tag = "None" /\ pend = HDR /\ pre = 0
          THEN done' = TRUE /\ UNCHANGED <<out, halted>>
          ELSE /\ out' = Append(out, Res("err", st.t, 0, 0, st.fi, pos, "eof"))
               /\ halted' = TRUE /\ UNCHANGED done
       /\ UNCHANGED <<stream, avail, pos, pre, nl, st, want, tmo, sil>>

\* errors that `read` reports as Error::Serialization: a refused frame header (magic, length
\* above the limit) and a body / block header that does not decode
SerWhy == {"magic", "toolarge", "decode", "desync"}
FatalRes(res) == res.r = "err" /\ (SerErrorsFatal \/ res.why \notin SerWhy)

Return(res, newst, newbuf, w) ==
  /\ out' = Append(out, res) /\ st' = newst /\ buf' = newbuf /\ want' = w
  /\ pc' = "call" /\ halted' = FatalRes(res)
  /\ UNCHANGED <<stream, avail, pos, pre, pend, nl, done, tmo, sil>>

Continue(newst, newbuf) ==
  /\ st' = newst /\ buf' = newbuf /\ pc' = "loop"
  /\ UNCHANGED <<stream, avail, pos, pre, pend, nl, want, out, halted, done, tmo, sil>>

\* state None: the HDR bytes in the buffer are parsed as a message header (MsgHeaderWrapper::read)
ParseNone ==
  /\ st.tag = "None"
  /\ LET i == FrameAt(stream, pos - HDR) IN
     IF i = 0
     THEN Return(Res("err", 0, 0, 0, 0, pos, "desync"), NoneSt, 0, -1)
     ELSE LET f == stream[i] IN
          IF ~f.magic THEN Return(Res("err", f.t, 0, 0, i, pos, "magic"), NoneSt, 0, -1)
          ELSE IF f.len > Limit(f.t) THEN Return(Res("err", f.t, 0, 0, i, pos, "toolarge"), NoneSt, 0, -1)
          ELSE Continue(HeaderSt(KnownType(f.t), f.t, f.len, i), 0)

\* decode_message on a complete body
ParseBody ==
  /\ st.tag = "Header" /\ st.known /\ st.t # T_Headers
  /\ LET f == stream[st.fi] IN
     IF st.t \in {0, 1, 2}
     THEN Return(Res("err", st.t, 0, 0, st.fi, pos, "unexpected"), [NoneSt EXCEPT !.fi = st.fi], buf - nl, -1)
     ELSE IF NeedAt(stream, f) < 0 \/ NeedAt(stream, f) > st.len
     THEN Return(Res("err", st.t, 0, 0, st.fi, pos, "decode"), [NoneSt EXCEPT !.fi = st.fi], buf - nl, -1)
     ELSE IF NeedAt(stream, f) < st.len
     THEN \* the statement: a body whose length exceeds what its items account for is refused
          \* (codec.rs `decode_message` does not check that the body was consumed: the replay
          \* reports that as codec:trailing_bytes_accepted:<type>)
          Return(Res("err", st.t, 0, 0, st.fi, pos, "trailing"), [NoneSt EXCEPT !.fi = st.fi], buf - nl, -1)
     ELSE Return(Res("msg", st.t, f.count, 0, st.fi, pos, ""), [NoneSt EXCEPT !.fi = st.fi], buf - nl,
                 IF st.t = T_Archive THEN f.att ELSE -1)

\* list of headers: the item count comes first
ParseHeadersCount ==
  /\ st.tag = "Header" /\ st.known /\ st.t = T_Headers
  /\ LET f == stream[st.fi] IN
     IF st.len < 2
     THEN \* read_u16 fails on the short slice; the state is *not* reset (conn.rs closes anyway)
          Return(Res("err", st.t, 0, 0, st.fi, pos, "decode"), st, buf - nl, -1)
     ELSE Continue(BlockHeadersSt(st.fi, st.len - 2, f.count, 0), buf - nl)

\* unknown type: discard the body
ParseUnknown ==
  /\ st.tag = "Header" /\ ~st.known
  /\ Return(Res("unknown", st.t, 0, 0, st.fi, pos, ""), [NoneSt EXCEPT !.fi = st.fi], buf - nl, -1)

\* is there a well-formed header at body offset `off` of frame f with `have` bytes buffered?
\* (item j + 1 starts at `off`; the reader may hold more than the item: it over-reads up to BHMAX)
ItemAt(f, off) == LET m == MixOf(f)  L == Len(m)  S == SumTo(m, L)
                      c == {k \in 0..(L - 1) : SumTo(m, k) = off % S} IN
                  IF c = {} THEN -1
                  ELSE LET j == (off \div S) * L + (CHOOSE k \in c : TRUE) IN IF j < f.items THEN j ELSE -1
HeaderParses(f, off, have) == ItemAt(f, off) >= 0 /\ have >= ItemSize(f, ItemAt(f, off) + 1)

ParseBlockHeader ==
  /\ st.tag = "BlockHeaders"
  /\ LET f == stream[st.fi] IN
     IF st.bl = 0
     THEN \* no bytes left: an empty list (zero items announced) is a complete message,
          \* anything else is an incorrect item count
          IF st.il = 0
          THEN Return(Res("headers", T_Headers, 0, 0, st.fi, pos, ""), [NoneSt EXCEPT !.fi = st.fi], buf, -1)
          ELSE Return(Res("err", T_Headers, 0, 0, st.fi, pos, "count"), [NoneSt EXCEPT !.fi = st.fi], buf, -1)
     ELSE IF ~HeaderParses(f, (f.len - 2) - st.bl, buf)
     THEN Return(Res("err", T_Headers, 0, 0, st.fi, pos, "decode"), st, buf, -1)
     ELSE LET isz == ItemSize(f, ItemAt(f, (f.len - 2) - st.bl) + 1)   \* `reader.bytes_read()` of this header
              bl2 == Max(st.bl - isz, 0)
              il2 == st.il - 1            \* usize: a negative value stands for the wrapped one
              acc2 == st.acc + 1 IN
          IF acc2 = BATCH \/ il2 = 0
          THEN IF il2 = 0
               THEN IF bl2 > 0
                    THEN Return(Res("err", T_Headers, 0, 0, st.fi, pos, "count"), [NoneSt EXCEPT !.fi = st.fi], buf - isz, -1)
                    ELSE Return(Res("headers", T_Headers, acc2, 0, st.fi, pos, ""), [NoneSt EXCEPT !.fi = st.fi], buf - isz, -1)
               ELSE Return(Res("headers", T_Headers, acc2, il2, st.fi, pos, ""), BlockHeadersSt(st.fi, bl2, il2, 0), buf - isz, -1)
          ELSE Continue(BlockHeadersSt(st.fi, bl2, il2, acc2), buf - isz)

ParseAttachment ==
  /\ st.tag = "Attachment"
  /\ LET left2 == st.left - nl IN
     Return(Res("att", T_Archive, nl, left2, st.fi, pos, ""),
            IF left2 = 0 THEN [NoneSt EXCEPT !.fi = st.fi] ELSE AttachmentSt(st.fi, left2), buf - nl, -1)

Parse == /\ Running /\ pc = "parse"
         /\ (ParseNone \/ ParseBody \/ ParseHeadersCount \/ ParseUnknown \/ ParseBlockHeader \/ ParseAttachment)

Next == Deliver \/ Silence \/ ExpectAttachment \/ Call \/ Loop \/ ReadExact \/ Timeout \/ Eof \/ Parse
Spec == Init /\ [][Next]_vars

---------------------------------------------------------------------------
(* Invariants                                                             *)
TypeOK ==
  /\ avail \in 0..Total(stream) /\ pos \in 0..avail /\ buf >= 0 /\ pend >= 0 /\ pre >= 0
  /\ pc \in {"call", "loop", "read", "parse"}
  /\ st.tag \in {"None", "Header", "BlockHeaders", "Attachment"}
  /\ want >= -1 /\ halted \in BOOLEAN /\ done \in BOOLEAN
  /\ tmo \in {"hdr", "body"} /\ sil \in BOOLEAN
  /\ OneVersion(stream)

\* Merge the batches of one Headers frame / the chunks of one attachment: only totals, order and
\* the "remaining"/"left" bookkeeping matter, not the grouping.
RECURSIVE Norm(_)
Norm(s) ==
  IF s = <<>> THEN <<>>
  ELSE LET h == Head(s)  rest == Norm(Tail(s)) IN
       IF rest # <<>> /\ h.r \in {"headers", "att"} /\ Head(rest).r = h.r /\ Head(rest).fi = h.fi
       THEN LET r == Head(rest) IN
            <<[h EXCEPT !.n = h.n + r.n, !.rem = r.rem, !.pos = r.pos,
                        !.ok = h.ok /\ r.ok /\ h.rem = r.n + r.rem]>> \o Tail(rest)
       ELSE <<h>> \o rest

\* Header batches already handed over from a frame that is later refused for its count are
\* inherent to streaming and not constrained (but never more than the frame carries).
Streamed(s, o) == o.r = "headers" /\ FrameClass(s[o.fi]) = "badcount"
Visible(s, o) == SelectSeq(Norm(o), LAMBDA x : ~Streamed(s, x))

Agree(o, e) ==
  /\ o.r = e.r
  /\ (o.r \in {"msg", "unknown"} => o.t = e.t /\ o.n = e.n)
  /\ (o.r \in {"headers", "att"} => o.n = e.n /\ o.rem = 0 /\ o.ok)
  /\ (o.r = "err" => o.pos >= e.lo /\ o.pos <= e.hi)

SeqAgrees(o, e) ==
  \/ /\ Len(o) = Len(e) /\ \A j \in 1..Len(o) : Agree(o[j], e[j])
  \/ \* an entry the property leaves open (trailing bytes after a decodable body) may be refused
     /\ Len(o) <= Len(e) /\ Len(o) > 0
     /\ \A j \in 1..Len(o) - 1 : Agree(o[j], e[j])
     /\ e[Len(o)].lax /\ o[Len(o)].r = "err"

\* (1) what was read = what was written, for every fragmentation
Faithful == (done \/ halted) => SeqAgrees(Visible(stream, out), ExpectedSeq(stream))
\* every prefix of the results is a prefix of the expectation (nothing spurious on the way)
\* (`out` only changes in steps that lead to pc = "call" - Return, Timeout, Eof -, so the states with
\* pc = "call" show every value it takes; the guard only spares the recomputation in between)
PrefixOK == pc = "call" =>
            LET v == Visible(stream, out)  e == ExpectedSeq(stream) IN
            \A j \in 1..Len(v) : j <= Len(e) /\ (j < Len(v) => Agree(v[j], e[j]))
\* (2) the reader is never out of step with the frame boundaries, and no byte taken out of the
\*     socket is dropped by a read that timed out half-way
NoDesync == \A j \in 1..Len(out) : out[j].why \notin {"desync", "lost"}
\* while a frame is open every blocking read runs under the body timeout (a silence that the
\* property allows inside a body never makes a read fail); the header timeout is in force only
\* while the 11 header bytes are awaited
BodyTimeoutInBody == pc = "read" => tmo = TimeoutFor(st)
\* (3) a frame refused on its header costs the 11 header bytes only: nothing of the announced
\*     body is read, and the buffer never grows beyond what a checked header allows
RefusalCheap == \A j \in 1..Len(out) :
                  out[j].why \in {"magic", "toolarge"} =>
                     /\ out[j].pos = StartOf(stream, out[j].fi) + HDR
                     /\ (j = Len(out) => st.tag = "None" /\ buf = 0 /\ pos = out[j].pos)
BufferBounded ==
  /\ (\/ buf + pend <= Max(HDR, Max(BHMAX, CHUNK))
      \/ (st.tag = "Header" /\ buf + pend <= st.len /\ st.len <= Limit(st.t)))
  /\ (st.tag = "Header" => st.len <= Limit(st.t))
\* never reads beyond the announced end of the frame being decoded
NoOverread == st.tag \in {"Header", "BlockHeaders"} =>
                 pos <= StartOf(stream, st.fi) + HDR + stream[st.fi].len
\* (4) between messages the state is None and nothing is carried over
BackToNone == (pc = "call" /\ ~halted /\ want = -1) =>
                 \/ st.tag = "None" /\ buf = 0
                 \/ st.tag = "BlockHeaders" /\ st.il # 0
                 \/ st.tag = "Attachment"   \* left > 0, or a zero-size attachment just announced
DoneClean == done => st.tag = "None" /\ buf = 0 /\ pos = Total(stream)
\* more headers are never handed over than the frame carries
NoInvented == pc = "call" =>
              LET no == Norm(out) IN \A j \in 1..Len(no) : no[j].r = "headers" => no[j].n <= stream[no[j].fi].items
=============================================================================
