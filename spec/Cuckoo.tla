------------------------------- MODULE Cuckoo -------------------------------
(***************************************************************************)
(* C05.  What it means for a list of edge indices ("nonces") to be a valid *)
(* Cuck(at)oo-family proof in a given graph, for the five graph            *)
(* definitions grin verifies.  The graph itself (edge index -> endpoints)  *)
(* is an INPUT: the table is computed outside (harness, own siphash) from  *)
(* the header-derived keys.  Nothing here is transcribed from `verify`:    *)
(* the definitions are the published, graph-theoretic ones.                *)
(*                                                                         *)
(* A graph is a record                                                     *)
(*    [variant, K, N, E]   E[n+1] = <<u, v>> for edge index n \in 0..N-1   *)
(* (E may be a partial function when only some edges are known).           *)
(*                                                                         *)
(*  cuckatoo   bipartite, N nodes a side; nodes 2m and 2m+1 of one side    *)
(*             form a PAIR: a cycle enters a pair through one node and     *)
(*             leaves it through the other (u ~ u xor 1)                   *)
(*  cuckaroo   bipartite, N nodes a side; consecutive edges share a node   *)
(*  cuckarood  bipartite, N/2 nodes a side, DIRECTED: even-indexed edges   *)
(*             point U -> V, odd-indexed edges V -> U; a cycle is a        *)
(*             directed cycle (so it alternates even and odd edges)        *)
(*  cuckaroom  one node set of N nodes, DIRECTED u -> v                    *)
(*  cuckarooz  one node set of 2N nodes, undirected                        *)
(*                                                                         *)
(* Two forms of "these K edges are one simple cycle" are given:            *)
(*  - a path-extension state machine Start / Extend / Close whose closed   *)
(*    states are exactly the simple K-cycles (TLC enumerates them all),    *)
(*    with the same walk as a recursive predicate IsSimpleCycle;           *)
(*  - the degree form IsSimpleCycleDeg: every meeting point carries        *)
(*    exactly two edge ends of the right kind and the edges are connected. *)
(* The model checker shows they agree on everything it sees.               *)
(*                                                                         *)
(* The last definitional section models the node's entry point             *)
(* pow::verify_size(header): selection of the graph definition by chain    *)
(* type / header version / edge bits, and acceptance with the REQUIRED      *)
(* length a constant of the chain type while the header's nonce count is   *)
(* an input of the sender (machine and plans: spec/mc/MC_CuckooSize.tla).  *)
(***************************************************************************)
EXTENDS Integers, Sequences, FiniteSets

CONSTANT Graphs        \* sequence of graph records (see above)

VARIABLES g,           \* the graph being explored (one of Graphs)
          path,        \* the walk so far: sequence of [e |-> edge index, o |-> orientation]
          closed       \* TRUE once the walk has been closed into a cycle

vars == <<g, path, closed>>

Variants == {"cuckatoo", "cuckaroo", "cuckarood", "cuckaroom", "cuckarooz"}
Bipartite(var) == var \in {"cuckatoo", "cuckaroo", "cuckarood"}
Directed(var) == var \in {"cuckarood", "cuckaroom"}

\* number of nodes in one node set, per the variant's definition
NodeCount(var, N) == CASE var = "cuckarood" -> N \div 2
                       [] var = "cuckarooz" -> 2 * N
                       [] OTHER -> N

U(G, n) == G.E[n + 1][1]
V(G, n) == G.E[n + 1][2]

\* typed nodes <<partition, index>>
NodeU(G, n) == <<0, U(G, n)>>
NodeV(G, n) == <<IF Bipartite(G.variant) THEN 1 ELSE 0, V(G, n)>>

\* The two ends of an edge.  In the directed variants the edge points Tail -> Head.
Reversed(G, n) == G.variant = "cuckarood" /\ n % 2 = 1
TailOf(G, n) == IF Reversed(G, n) THEN NodeV(G, n) ELSE NodeU(G, n)
HeadOf(G, n) == IF Reversed(G, n) THEN NodeU(G, n) ELSE NodeV(G, n)

\* One step of a walk traverses edge s.e; orientation 0 goes Tail -> Head, 1 the other way
\* (only undirected variants may use 1).
Orients(G) == IF Directed(G.variant) THEN {0} ELSE {0, 1}
Step(e, o) == [e |-> e, o |-> o]
In(G, s) == IF s.o = 0 THEN TailOf(G, s.e) ELSE HeadOf(G, s.e)
Out(G, s) == IF s.o = 0 THEN HeadOf(G, s.e) ELSE TailOf(G, s.e)

\* A walk that left an edge through node x may continue with an edge entered through y iff
Meets(G, x, y) == IF G.variant = "cuckatoo"
                  THEN x[1] = y[1] /\ x[2] # y[2] /\ x[2] \div 2 = y[2] \div 2
                  ELSE x = y
\* The meeting point as an object a simple cycle may pass only once
Junction(G, x) == IF G.variant = "cuckatoo" THEN <<x[1], x[2] \div 2>> ELSE x

EdgesOf(p) == {p[i].e : i \in 1..Len(p)}
\* meeting points already used between consecutive steps of p
Passed(G, p) == {Junction(G, Out(G, p[i])) : i \in 1..Len(p) - 1}
LastOf(p) == p[Len(p)]

\* s may follow walk p: it meets p's last edge at a meeting point not used before
CanFollow(G, p, s) == /\ Meets(G, Out(G, LastOf(p)), In(G, s))
                      /\ Junction(G, Out(G, LastOf(p))) \notin Passed(G, p)
\* ... and, when s is not the closing step, that meeting point is not where the walk started
NotHome(G, p) == Junction(G, Out(G, LastOf(p))) # Junction(G, In(G, p[1]))

-----------------------------------------------------------------------------
(* The recursive walk predicate and the acceptance definition.             *)

MinOf(S) == CHOOSE x \in S : \A y \in S : x <= y
RangeOf(s) == {s[i] : i \in 1..Len(s)}

RECURSIVE Completes(_, _, _)
Completes(G, S, p) ==
    IF Len(p) = Cardinality(S)
    THEN CanFollow(G, p, p[1])
    ELSE \E e \in S \ EdgesOf(p) : \E o \in Orients(G) :
            /\ CanFollow(G, p, Step(e, o))
            /\ NotHome(G, p)
            /\ Completes(G, S, Append(p, Step(e, o)))

\* The edges S (a set of edge indices, at least two) form one simple cycle through all of
\* them.  A cycle can always be read starting from its lowest edge taken Tail -> Head.
IsSimpleCycle(G, S) == Cardinality(S) >= 2 /\ Completes(G, S, <<Step(MinOf(S), 0)>>)

\* Degree form: every meeting point touched carries exactly two edge ends, of two different
\* edges, of the right kind (cuckatoo: the two nodes of the pair; directed: one head and one
\* tail), and the edges hang together.
Ends(S) == {[e |-> n, h |-> b] : n \in S, b \in BOOLEAN}
EndNode(G, x) == IF x.h THEN HeadOf(G, x.e) ELSE TailOf(G, x.e)
EndsAt(G, S, j) == {x \in Ends(S) : Junction(G, EndNode(G, x)) = j}
JunctionsOf(G, S) == {Junction(G, EndNode(G, x)) : x \in Ends(S)}
GoodJunction(G, S, j) ==
    LET P == EndsAt(G, S, j) IN
    /\ Cardinality(P) = 2
    /\ \E x \in P : \E y \in P :
          /\ x.e # y.e
          /\ G.variant = "cuckatoo" => EndNode(G, x) # EndNode(G, y)
          /\ Directed(G.variant) => x.h # y.h
Touch(G, a, b) == \E x \in Ends({a}) : \E y \in Ends({b}) :
                     Junction(G, EndNode(G, x)) = Junction(G, EndNode(G, y))
RECURSIVE Grow(_, _, _, _)
Grow(G, S, R, i) == IF i = 0 THEN R
                    ELSE Grow(G, S, R \cup {b \in S : \E a \in R : Touch(G, a, b)}, i - 1)
Connected(G, S) == Grow(G, S, {MinOf(S)}, Cardinality(S)) = S
IsSimpleCycleDeg(G, S) == /\ Cardinality(S) >= 2
                          /\ \A j \in JunctionsOf(G, S) : GoodJunction(G, S, j)
                          /\ Connected(G, S)

\* THE PROPERTY: a proof (sequence of nonces) is valid in graph G iff
Ascending(seq) == \A i \in 1..Len(seq) - 1 : seq[i] < seq[i + 1]
InRange(G, seq) == \A i \in 1..Len(seq) : seq[i] \in 0..G.N - 1
Accept(G, seq) == /\ Len(seq) = G.K
                  /\ InRange(G, seq)
                  /\ Ascending(seq)
                  /\ IsSimpleCycle(G, RangeOf(seq))

\* Which graph definition verifies a header: the long-lived networks use cuckatoo above 29 edge
\* bits and, up to 29, the cuckaroo tweak of the header version in force at that height (none
\* from version 5 on); every other chain type uses cuckatoo only.
SelectVariant(chain, version, eb) ==
    IF chain \in {"mainnet", "testnet"}
    THEN IF eb > 29 THEN "cuckatoo"
         ELSE CASE version = 1 -> "cuckaroo"
                [] version = 2 -> "cuckarood"
                [] version = 3 -> "cuckaroom"
                [] version = 4 -> "cuckarooz"
                [] OTHER -> "none"
    ELSE "cuckatoo"

\* The boundary is a property of the edge bits alone on the long-lived networks: the secondary
\* (ASIC-resistant) proof of work is the 29-bit one, every primary size (31 and more) is cuckatoo.
SelectBoundary ==
    \A chain \in {"mainnet", "testnet"} : \A version \in 1..5 :
        /\ \A eb \in 30..63 : SelectVariant(chain, version, eb) = "cuckatoo"
        /\ \A eb \in 1..29 : SelectVariant(chain, version, eb) # "cuckatoo"
        /\ \A eb \in 1..29 : \A eb2 \in 1..29 : SelectVariant(chain, version, eb) = SelectVariant(chain, version, eb2)

-----------------------------------------------------------------------------
(* The weight of a graph size in the difficulty a proof achieves            *)
(* (difficulty = weight * 2^64 / hash of the packed nonces, for every size  *)
(* but the secondary one).  A graph of 2^eb edges weighs 2^(eb-base+1) * eb *)
(* ("number of siphash bits defining the graph"), base being the chain      *)
(* type's reference size.  31-bit graphs are phased out: from the end of    *)
(* the first year on their weight loses one "bit" at the start of every     *)
(* week and nothing is left from the 31st week on.                          *)

WeekHeight == 7 * 24 * 60
YearHeight == 52 * WeekHeight
BaseEdgeBits(chain) == CASE chain = "automated" -> 10
                         [] chain = "usertesting" -> 15
                         [] OTHER -> 24
WeightBits(eb, height) ==
    IF eb = 31 /\ height >= YearHeight
    THEN LET weeks == 1 + (height - YearHeight) \div WeekHeight
         IN IF weeks >= 31 THEN 0 ELSE 31 - weeks
    ELSE eb
GraphWeight(base, eb, height) == (2 ^ (eb - base + 1)) * WeightBits(eb, height)

\* what the rule is for (checked by TLC as an assumption of MC_CuckooSize): untouched during the
\* first year, never increasing, one step a week, gone after 30 weeks; other sizes do not depend
\* on the height; the 32-bit weight is the minimum difficulty constant 16384 of the main network
WeightRuleOK ==
    /\ \A h \in {0, 1, 100000, YearHeight - 1} : GraphWeight(24, 31, h) = 256 * 31
    /\ \A w \in 0..40 : \A d \in {0, 1, WeekHeight - 1} :
          LET h == YearHeight + w * WeekHeight + d IN
          /\ GraphWeight(24, 31, h) = 256 * (IF w >= 30 THEN 0 ELSE 30 - w)
          /\ GraphWeight(24, 31, h + 1) <= GraphWeight(24, 31, h)
          /\ \A eb \in {29, 30, 32, 33} : GraphWeight(24, eb, h) = GraphWeight(24, eb, 0)
    /\ GraphWeight(24, 32, 0) = 16384
    /\ GraphWeight(10, 10, 0) = 20

-----------------------------------------------------------------------------
(* The node's entry point pow::verify_size(header).  The header carries the *)
(* chain height (hence the header version), the edge bits and the nonce     *)
(* list; ALL of them are chosen by whoever built the header, the nonce      *)
(* COUNT included.  The required cycle length is a consensus constant of    *)
(* the chain type and of nothing else.                                      *)

Chains == {"mainnet", "testnet", "automated", "usertesting"}
ProofSize(chain) == IF chain = "automated" THEN 8 ELSE 42

\* a genuine cycle of whatever length: in the one-node-set graphs a self-loop is a 1-cycle
IsLoop(G, n) == ~Bipartite(G.variant) /\ U(G, n) = V(G, n)
IsCycleAnyLen(G, S) == /\ S # {}
                       /\ IF Cardinality(S) = 1 THEN IsLoop(G, MinOf(S)) ELSE IsSimpleCycle(G, S)

\* "seq is an ascending in-range list of k nonces that form one cycle": for k >= 2 this is Accept
\* with K = k.  (What a verifier that believed a length k handed to it would accept.)
AcceptLen(G, seq, k) == /\ Len(seq) = k
                        /\ InRange(G, seq)
                        /\ Ascending(seq)
                        /\ IsCycleAnyLen(G, RangeOf(seq))

\* Length classes of an attacker-chosen nonce count L against the required P (P even, >= 8)
LenClasses == {"zero", "one", "two", "four", "lt2", "lt1", "eq", "gt1", "gt2"}
LenClass(lc, P) == CASE lc = "zero" -> 0
                     [] lc = "one" -> 1
                     [] lc = "two" -> 2
                     [] lc = "four" -> 4
                     [] lc = "lt2" -> P - 2
                     [] lc = "lt1" -> P - 1
                     [] lc = "eq" -> P
                     [] lc = "gt1" -> P + 1
                     [] lc = "gt2" -> P + 2

\* The verdict of verify_size: GraphBy(var) is the header-seeded graph under definition var,
\* P the required length of the chain type.  No graph definition for the header: refused.
VerifySizeVerdict(chain, version, eb, P, GraphBy(_), seq) ==
    LET sv == SelectVariant(chain, version, eb) IN
    IF sv = "none" THEN "reject"
    ELSE IF Accept([GraphBy(sv) EXCEPT !.K = P], seq) THEN "accept" ELSE "reject"

-----------------------------------------------------------------------------
(* Path-extension machine: all simple K-cycles of every graph in Graphs.   *)

G0 == g

Init == /\ g \in RangeOf(Graphs)
        /\ path = <<>>
        /\ closed = FALSE

\* begin at edge e; every cycle is found from its lowest edge, taken Tail -> Head
Start(e) == /\ path = <<>>
            /\ path' = <<Step(e, 0)>>
            /\ UNCHANGED <<g, closed>>

Extend(e, o) == /\ ~closed
                /\ path # <<>>
                /\ Len(path) < G0.K
                /\ e > path[1].e
                /\ e \notin EdgesOf(path)
                /\ CanFollow(G0, path, Step(e, o))
                /\ NotHome(G0, path)
                /\ path' = Append(path, Step(e, o))
                /\ UNCHANGED <<g, closed>>

Close == /\ ~closed
         /\ Len(path) = G0.K
         /\ CanFollow(G0, path, path[1])
         /\ closed' = TRUE
         /\ UNCHANGED <<g, path>>

StartAny == \E e \in 0..G0.N - 1 : Start(e)
ExtendAny == \E e \in 0..G0.N - 1 : \E o \in Orients(G0) : Extend(e, o)
Next == StartAny \/ ExtendAny \/ Close

Spec == Init /\ [][Next]_vars

-----------------------------------------------------------------------------
(* Invariants                                                              *)

GraphOK(G) == /\ G.variant \in Variants
              /\ G.K >= 2
              /\ \A n \in 0..G.N - 1 : /\ U(G, n) \in 0..NodeCount(G.variant, G.N) - 1
                                       /\ V(G, n) \in 0..NodeCount(G.variant, G.N) - 1

TypeOK == /\ GraphOK(G0)
          /\ closed \in BOOLEAN
          /\ Len(path) <= G0.K
          /\ \A i \in 1..Len(path) : path[i].e \in 0..G0.N - 1 /\ path[i].o \in Orients(G0)

\* every walk built is a simple open walk: distinct edges, distinct meeting points
WalkSimple == /\ Cardinality(EdgesOf(path)) = Len(path)
              /\ Cardinality(Passed(G0, path)) = IF path = <<>> THEN 0 ELSE Len(path) - 1
              /\ \A i \in 1..Len(path) - 1 : Meets(G0, Out(G0, path[i]), In(G0, path[i + 1]))

\* a closed state is a cycle under both definitional forms
ClosedIsCycle == closed => /\ IsSimpleCycle(G0, EdgesOf(path))
                           /\ IsSimpleCycleDeg(G0, EdgesOf(path))

\* the two forms agree on every set of edges a walk passes through (cycles and non-cycles)
FormsAgree == Len(path) >= 2 => (IsSimpleCycle(G0, EdgesOf(path)) <=> IsSimpleCycleDeg(G0, EdgesOf(path)))

\* a directed cycle in the bipartite cuckarood graph uses as many even as odd edges
Balanced == (closed /\ G0.variant = "cuckarood") =>
               Cardinality({e \in EdgesOf(path) : e % 2 = 0}) = Cardinality({e \in EdgesOf(path) : e % 2 = 1})
=============================================================================
