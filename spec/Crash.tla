------------------------------- MODULE Crash -------------------------------
(***************************************************************************)
(* Crash/recovery contract of the node's persistence (property C09).       *)
(* A scenario is the ordered list of durable steps that one operation      *)
(* (block acceptance, fork block, reorg, header batch, compaction, ...)    *)
(* performs; the lists are CONSTANTS extracted from the real run through   *)
(* the cfg(grin_verif) crash points (file truncate / append / replace,     *)
(* temp-file rename, LMDB commit).  The process may die before any step.   *)
(* Recover's post-condition IS the property: the directory opens, the head *)
(* is a block of the previously accepted chain (old head, new head or an   *)
(* ancestor), full validation passes; Redeliver converges to the state of  *)
(* the never-interrupted node.                                             *)
(***************************************************************************)
EXTENDS Naturals, Sequences, FiniteSets

CONSTANT Scenarios   \* Seq([name: STRING, steps: Seq([l: STRING, file: BOOLEAN, top: BOOLEAN])])

VARIABLES sc,      \* index of the scenario being executed
          done,    \* number of durable steps executed
          phase,   \* "run" | "complete" | "crashed" | "recovered" | "redelivered"
          out      \* outcome observed after recovery
vars == <<sc, done, phase, out>>

Steps(s) == Scenarios[s].steps
NoOut == [opened |-> FALSE, head_on_chain |-> FALSE, valid |-> FALSE, input_converged |-> FALSE, converged |-> FALSE]

\* what the property allows after a crash
RecoverOK(o) == o.opened /\ o.head_on_chain /\ o.valid
\* re-delivering the interrupted input alone converges (input_converged), and so does re-delivering
\* everything above the recovered head followed by the input (converged)
RedeliverOK(o) == o.input_converged /\ o.converged

Init == /\ sc \in 1..Len(Scenarios) /\ done = 0 /\ phase = "run" /\ out = NoOut

Step == /\ phase = "run" /\ done < Len(Steps(sc))
        /\ done' = done + 1 /\ UNCHANGED <<sc, phase, out>>
Complete == /\ phase = "run" /\ done = Len(Steps(sc))
            /\ phase' = "complete" /\ UNCHANGED <<sc, done, out>>
Crash == /\ phase = "run"
         /\ phase' = "crashed" /\ UNCHANGED <<sc, done, out>>
Recover(o) == /\ phase \in {"crashed", "complete"}
              /\ RecoverOK(o)
              /\ out' = o /\ phase' = "recovered" /\ UNCHANGED <<sc, done>>
Redeliver == /\ phase = "recovered"
             /\ out' = [out EXCEPT !.converged = TRUE, !.input_converged = TRUE]
             /\ phase' = "redelivered" /\ UNCHANGED <<sc, done>>

Next == Step \/ Complete \/ Crash \/ Redeliver
        \/ \E o \in [opened : BOOLEAN, head_on_chain : BOOLEAN, valid : BOOLEAN, input_converged : {FALSE}, converged : {FALSE}] : Recover(o)
Spec == Init /\ [][Next]_vars

-----------------------------------------------------------------------------
\* Every file step of an operation precedes an LMDB top-level commit that publishes it:
\* a node that commits the database batch before its MMR files are on disk violates this
\* without a single crash being run.
\* (the step list is bound once per evaluation: Scenarios is read from a file by the MC / trace modules)
WriteOrder == LET st == Steps(sc) IN
              \A i \in 1..Len(st) : st[i].file => \E j \in (i+1)..Len(st) : st[j].top
\* an operation that writes anything ends by publishing it
EndsWithCommit == LET st == Steps(sc) IN Len(st) > 0 => st[Len(st)].l = "lmdb.commit.after top"
\* every crash prefix is recoverable by the contract (the contract is satisfiable)
Recoverable == phase \in {"recovered", "redelivered"} => RecoverOK(out)
TypeOK == done \in 0..Len(Steps(sc)) /\ phase \in {"run", "complete", "crashed", "recovered", "redelivered"}
=============================================================================
