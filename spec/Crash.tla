------------------------------- MODULE Crash -------------------------------
(***************************************************************************)
(* Crash/recovery contract of the node's persistence (property C09).       *)
(* A scenario is the ordered list of durable steps that one operation      *)
(* (block acceptance, fork block, reorg, header batch, compaction, ...)    *)
(* performs.  The lists are CONSTANTS extracted from the real run, in two  *)
(* layers recorded from the same execution:                                *)
(*   hook layer    - the cfg(grin_verif) crash points (file truncate /     *)
(*                   append / replace, temp-file rename, LMDB commit);     *)
(*   syscall layer - every libc persistence call on a file of the chain    *)
(*                   directory (write, pwrite, writev, ftruncate, rename,  *)
(*                   unlink, creating / truncating open, fsync, ...),      *)
(*                   recorded by an LD_PRELOAD interposer, i.e. independent*)
(*                   of where the hooks sit;                               *)
(* hookpos ties them: hookpos[j] = number of syscall-layer steps executed  *)
(* before hook step j.  The process may die before any step of either      *)
(* layer, and in the middle of a data write (torn write).                  *)
(* Recover's post-condition IS the property: the directory opens, the head *)
(* is a block of the previously accepted chain (old head, new head or an   *)
(* ancestor), full validation passes, the header chain state (header_head, *)
(* header MMR, height index) is that of an accepted header chain;          *)
(* Redeliver converges to the state of the never-interrupted node.         *)
(***************************************************************************)
EXTENDS Naturals, Sequences, FiniteSets

CONSTANT Scenarios
\* Seq([name    : STRING,
\*      steps   : Seq([l: STRING, file: BOOLEAN, top: BOOLEAN]),                      hook layer
\*      sys     : Seq([l: STRING, call: STRING, path: STRING, bytes: Nat,             syscall layer
\*                     mut: BOOLEAN, file: BOOLEAN, top: BOOLEAN, tearable: BOOLEAN]),
\*      hookpos : Seq(Nat),
\*      hookmode: {"all","sample"}, sysmode: {"all","sample"}, tornmode: {"all","sample","none"}])
\*  sys[i].mut      the call changes what a process reopening the directory can observe (a sync does not,
\*                  nor does a truncate to the current length): only those are distinct crash states
\*  sys[i].file     mut, on a file other than the LMDB data file
\*  sys[i].top      the write of the LMDB meta page: the instant a top-level commit is published
\*  sys[i].tearable a data write of >= 2 bytes to a file other than the LMDB data file

VARIABLES sc,      \* index of the scenario being executed
          layer,   \* "hook" | "sys": the step list being walked
          done,    \* number of durable steps of that layer executed
          torn,    \* the process died in the middle of step done+1 (half of its bytes written)
          phase,   \* "run" | "complete" | "crashed" | "recovered" | "redelivered"
          out      \* outcome observed after recovery
vars == <<sc, layer, done, torn, phase, out>>

Steps(s) == Scenarios[s].steps
Sys(s) == Scenarios[s].sys
Lay(s, ly) == IF ly = "hook" THEN Steps(s) ELSE Sys(s)
NoOut == [opened |-> FALSE, head_on_chain |-> FALSE, valid |-> FALSE, header_ok |-> FALSE,
          input_converged |-> FALSE, converged |-> FALSE]
Outcomes == [opened : BOOLEAN, head_on_chain : BOOLEAN, valid : BOOLEAN, header_ok : BOOLEAN,
             input_converged : {FALSE}, converged : {FALSE}]

\* what the property allows after a crash
RecoverOK(o) == o.opened /\ o.head_on_chain /\ o.valid /\ o.header_ok
\* re-delivering the interrupted input alone converges (input_converged), and so does re-delivering
\* everything above the recovered head followed by the input (converged); both compare body head, the
\* txhashset roots, header_head, the header MMR root and the height index with the uninterrupted node
RedeliverOK(o) == o.input_converged /\ o.converged

-----------------------------------------------------------------------------
\* the two layers
SetMax(S) == CHOOSE x \in S : \A y \in S : y <= x
\* (operators take the step list as an argument / bind it once with LET: the lists are read from a file
\*  by the MC / trace modules, and a bound value is evaluated once)
MutBeforeIn(y, n) == Cardinality({i \in 1..n : y[i].mut})        \* mutating calls among the first n
MutBefore(s, n) == MutBeforeIn(Sys(s), n)
\* crash state = number of mutating calls executed; two crash points with equal state leave the same directory
SysState(s, at) == MutBefore(s, at - 1)                           \* killed before syscall step `at`
HookState(s, j) == LET S == Scenarios[s] IN MutBeforeIn(S.sys, S.hookpos[j])   \* killed at hook step j
\* the syscall-layer crash points: before every mutating call, and after the last one
SysCrashPointsIn(y) == {i \in 1..Len(y) : y[i].mut} \cup {Len(y) + 1}
SysCrashPoints(s) == SysCrashPointsIn(Sys(s))
TornPointsIn(y) == {i \in 1..Len(y) : y[i].tearable}
TornPoints(s) == TornPointsIn(Sys(s))
\* the hook step that opens the window a syscall-layer crash point lies in (0: before the first hook)
OpenHookIn(hp, at) == LET J == {j \in 1..Len(hp) : hp[j] <= at - 1} IN IF J = {} THEN 0 ELSE SetMax(J)
OpenHook(s, at) == OpenHookIn(Scenarios[s].hookpos, at)

Init == /\ sc \in 1..Len(Scenarios) /\ layer \in {"hook", "sys"} /\ done = 0 /\ torn = FALSE
        /\ phase = "run" /\ out = NoOut

Step == /\ phase = "run" /\ done < Len(Lay(sc, layer))
        /\ done' = done + 1 /\ UNCHANGED <<sc, layer, torn, phase, out>>
Complete == /\ phase = "run" /\ done = Len(Lay(sc, layer))
            /\ phase' = "complete" /\ UNCHANGED <<sc, layer, done, torn, out>>
\* death before the next step (in the syscall layer only states that differ are distinguished)
Crash == /\ phase = "run"
         /\ layer = "sys" => LET y == Sys(sc) IN IF done = Len(y) THEN TRUE ELSE y[done + 1].mut
         /\ phase' = "crashed" /\ UNCHANGED <<sc, layer, done, torn, out>>
\* death in the middle of a data write: half of the bytes of step done+1 reached the file
CrashTorn == /\ phase = "run" /\ layer = "sys"
             /\ LET y == Sys(sc) IN IF done < Len(y) THEN y[done + 1].tearable ELSE FALSE
             /\ torn' = TRUE /\ phase' = "crashed" /\ UNCHANGED <<sc, layer, done, out>>
Recover(o) == /\ phase \in {"crashed", "complete"}
              /\ RecoverOK(o)
              /\ out' = o /\ phase' = "recovered" /\ UNCHANGED <<sc, layer, done, torn>>
Redeliver == /\ phase = "recovered"
             /\ out' = [out EXCEPT !.converged = TRUE, !.input_converged = TRUE]
             /\ phase' = "redelivered" /\ UNCHANGED <<sc, layer, done, torn>>

Next == Step \/ Complete \/ Crash \/ CrashTorn \/ Redeliver
        \/ \E o \in Outcomes : Recover(o)
Spec == Init /\ [][Next]_vars

-----------------------------------------------------------------------------
\* Every file step of an operation precedes an LMDB top-level commit that publishes it:
\* a node that commits the database batch before its MMR files are on disk violates this
\* without a single crash being run.  Stated on both layers (in the syscall layer the publishing
\* instant is the write of the LMDB meta page).
\* (the step lists are bound once per evaluation: Scenarios is read from a file by the MC / trace modules)
WriteOrderOf(st) == \A i \in 1..Len(st) : st[i].file => \E j \in (i+1)..Len(st) : st[j].top
\* (these depend on the scenario only: decided once per scenario, in its first state)
First == done = 0 /\ phase = "run" /\ layer = "hook"
WriteOrder == First => WriteOrderOf(Steps(sc))
SysWriteOrder == First => WriteOrderOf(Sys(sc))
\* an operation that writes anything ends by publishing it
EndsWithCommit == First => LET st == Steps(sc) IN Len(st) > 0 => st[Len(st)].l = "lmdb.commit.after top"
SysEndsWithCommit == First => LET y == Sys(sc)
                                   M == {i \in 1..Len(y) : y[i].mut} IN M # {} => y[SetMax(M)].top
\* the two recordings describe one execution: one position per hook step, in order, inside the syscall list;
\* every meta-page write lies inside a publishing commit of the hook layer ("before top" .. "after top"),
\* and such a commit publishes at most once
LayersAgree == First => LET S == Scenarios[sc] IN
               /\ Len(S.hookpos) = Len(S.steps)
               /\ \A j \in 1..Len(S.hookpos) : /\ S.hookpos[j] \in 0..Len(S.sys)
                                               /\ j > 1 => S.hookpos[j-1] <= S.hookpos[j]
               /\ \A j \in 1..Len(S.steps) : S.steps[j].top =>
                     /\ j < Len(S.steps)
                     /\ Cardinality({i \in (S.hookpos[j]+1)..S.hookpos[j+1] : S.sys[i].top}) <= 1
               /\ \A i \in 1..Len(S.sys) : S.sys[i].top =>
                     \E j \in 1..(Len(S.steps)-1) : S.steps[j].top /\ S.hookpos[j] < i /\ i <= S.hookpos[j+1]
\* every crash prefix is recoverable by the contract (the contract is satisfiable)
Recoverable == phase \in {"recovered", "redelivered"} => RecoverOK(out)
TypeOK == /\ done \in 0..Len(Lay(sc, layer)) /\ layer \in {"hook", "sys"} /\ torn \in BOOLEAN
          /\ phase \in {"run", "complete", "crashed", "recovered", "redelivered"}
          /\ torn => layer = "sys" /\ LET y == Sys(sc) IN IF done < Len(y) THEN y[done + 1].tearable ELSE FALSE
=============================================================================
