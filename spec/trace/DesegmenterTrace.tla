-------------------------- MODULE DesegmenterTrace --------------------------
(* Direction B for C16: an execution recorded from a real receiver           *)
(* (Chain::desegmenter on a header-synced Chain, deliveries through          *)
(* add_*_segment, apply_next_segments + check_progress, then                 *)
(* check_update_leaf_set_state + validate_complete_state) must be a          *)
(* behaviour of Desegmenter.tla: every logged verdict, completion flag,      *)
(* finalisation result and projection (segments applied per tree, the set    *)
(* returned by next_desired_segments) must equal the specification's.        *)
(* Several scenarios are batched in one file; each starts with a Reset event *)
(* carrying the configuration of its source chain.                           *)
EXTENDS Desegmenter, Json, IOUtils, TLC

VARIABLE l
tvars == <<vars, l>>

Rec == ndJsonDeserialize(IOEnv.TRACE)
IsEvent(k) == l <= Len(Rec) /\ Rec[l].k = k

ProjOK(p) ==
  /\ \A t \in PTrees : p.applied[t] = Len(applied'[t])
  /\ {<<p.desired[i][1], p.desired[i][2]>> : i \in 1..Len(p.desired)} = Desired'

TInit == l = 2 /\ Rec[1].k = "Reset" /\ InitWith(Rec[1].cfg)     \* the first event is consumed by Init

TReset == /\ IsEvent("Reset")
          /\ Cfg' = Rec[l].cfg
          /\ cache' = [t \in Trees |-> {}] /\ applied' = [t \in Trees |-> <<>>]
          /\ bmFinal' = FALSE /\ txAcc' = FALSE /\ finalised' = "no"

TAdd == /\ IsEvent("Add")
        /\ AddSegment(Rec[l].tree, Rec[l].idx, Rec[l].kind)
        /\ (Rec[l].verdict = "accept") = Accepts(Rec[l].tree, Rec[l].idx, Rec[l].kind)
        /\ ProjOK(Rec[l].proj)

TApply == /\ IsEvent("Apply")
          /\ Rec[l].res \in {"ok", "err"}
          /\ ApplyNext
          /\ (Rec[l].res = "err") = (finalised' = "apperr")
          /\ Rec[l].complete = Complete'
          /\ ProjOK(Rec[l].proj)

TFinalize == /\ IsEvent("Finalize")
             /\ IF Rec[l].res = "incomplete"
                THEN ~Complete /\ UNCHANGED vars
                ELSE Finalize /\ finalised' = Rec[l].res

\* the restart sequence after a refused attempt (desegmenter.reset, reset_pibd_head,
\* reset_chain_head_to_genesis, reset_prune_lists)
TRestart == /\ IsEvent("Restart")
            /\ Rec[l].res = "ok"
            /\ Reset
            /\ ProjOK(Rec[l].proj)

\* Chain::txhashset_write: accepted (and then the state is the archive header's) exactly when the model accepts
TArchive == /\ IsEvent("ArchiveWrite")
            /\ ArchiveWrite(Rec[l].kind)
            /\ (Rec[l].res = "ok") = (finalised' = "ok")
            /\ Rec[l].at_archive = (finalised' = "ok")

TNext == (TArchive \/ TReset \/ TAdd \/ TApply \/ TFinalize \/ TRestart) /\ l' = l + 1

TraceInit == TInit

\* the whole file was matched: after the last event l = Len(Rec) + 1
Accepted ==
  LET d == TLCGet("stats").diameter IN
  IF d = Len(Rec) THEN TRUE
  ELSE Print(<<"TRACE-REJECTED at event", d + 1, IF d + 1 <= Len(Rec) THEN Rec[d + 1] ELSE "eof">>, FALSE)
=============================================================================
