SPECIFICATION TSpec
CONSTANTS
  ChainParams <- GrinChainParams
POSTCONDITION Accepted
CHECK_DEADLOCK FALSE
