--------------------------- MODULE PMMRStoreTrace ---------------------------
(* Direction B for C08: a log recorded from a real PMMRBackend driven by the  *)
(* seeded random driver (h_pmmrstore record) is accepted iff every call is a  *)
(* PMMRStore action taken with exactly the protocol arguments the spec        *)
(* prescribes (boundary size, bitmap of 1-based positions) and the projection *)
(* of the REAL store logged after the call equals the spec's primed reference:*)
(* size, number of live leaves, the live leaf set (after Rewind and at every  *)
(* unit end / Compact / Reopen), and the harness's verdicts that root, every  *)
(* live leaf's data, hash and Merkle proof equal the unpruned twin holding    *)
(* Cur'.leaves and that removed leaves are invisible.                         *)
EXTENDS PMMRStore, TLC, Json, IOUtils
Rec == ndJsonDeserialize(IOEnv.TRACE)
VARIABLE l
tvars == <<vars, l>>

IsEvent(k) == l <= Len(Rec) /\ Rec[l].k = k /\ l' = l + 1
E == Rec[l]
SeqSet(s) == {s[i] : i \in 1..Len(s)}
SameSet(s, S) == Len(s) = Cardinality(S) /\ SeqSet(s) = S

Proj(deep) ==
  /\ E.ok
  /\ E.p.size = MMRSize(NL(Cur'))
  /\ E.p.bsize = E.p.size
  /\ E.p.nlive = Cardinality(Live(Cur'))
  /\ deep => /\ SameSet(E.p.live, {i - 1 : i \in Live(Cur')})
             /\ E.p.root_ok
             /\ E.p.leaves_ok

TInit == Init /\ l = 1

TBegin   == IsEvent("Begin") /\ Begin /\ E.unit = cnt'.units
TRewind  == /\ IsEvent("Rewind") /\ E.b \in 1..Len(bnd) /\ Rewind(E.b)
            /\ E.asize = BSize(E.b) /\ SameSet(E.rm, RewindRm(E.b)) /\ Proj(TRUE)
TAppend  == IsEvent("Append") /\ AppendLeaf(E.d) /\ Proj(FALSE)
TRemove  == IsEvent("Remove") /\ Remove(E.i + 1) /\ E.pos = LeafPos0(E.i + 1) /\ Proj(FALSE)
TCommit  == IsEvent("Commit") /\ Commit /\ E.nb = Len(bnd') /\ Proj(TRUE)
TDiscard == IsEvent("Discard") /\ Discard /\ E.nb = Len(bnd') /\ Proj(TRUE)
TCompact == /\ IsEvent("Compact") /\ E.b \in 1..Len(bnd) /\ Compact(E.b)
            /\ E.asize = BSize(E.b) /\ SameSet(E.rm, CompactRm(E.b)) /\ Proj(TRUE)
TReopen  == IsEvent("Reopen") /\ Reopen /\ Proj(TRUE)

TNext == TBegin \/ TRewind \/ TAppend \/ TRemove \/ TCommit \/ TDiscard \/ TCompact \/ TReopen
TSpec == TInit /\ [][TNext]_tvars

Accepted == LET d == TLCGet("stats").diameter IN
            IF d - 1 = Len(Rec) THEN TRUE
            ELSE Print(<<"TRACE-REJECTED at event", d, IF d <= Len(Rec) THEN Rec[d] ELSE "eof">>, FALSE)
=============================================================================
