---------------------------- MODULE CrashTrace ----------------------------
(* Outcomes recorded from real kills are accepted iff they satisfy the Recover / Redeliver   *)
(* post-conditions of Crash.tla at the recorded crash point of the recorded step list of the *)
(* recorded layer (hook layer: the child abort()ed at the k-th cfg(grin_verif) crash point;  *)
(* syscall layer: an LD_PRELOAD interposer killed the child before - or in the middle of -   *)
(* the k-th persistence call).  The post-condition of the run decides completeness: for the  *)
(* scenarios marked "all" every crash point of the layer (as DEFINED by Crash.tla) was run.  *)
EXTENDS Crash, Json, IOUtils, TLC
ScenariosFromFile == JsonDeserialize(IOEnv.STEPS)
Rec == ndJsonDeserialize(IOEnv.TRACE)
VARIABLE l
tvars == <<sc, layer, done, torn, phase, out, l>>

TInit == /\ l = 1 /\ sc = 1 /\ layer = "hook" /\ done = 0 /\ torn = FALSE /\ phase = "run" /\ out = NoOut

\* one event = one complete behaviour Step^(at-1) ; Crash | CrashTorn ; Recover(o) ; Redeliver of the spec
TCrash ==
  /\ l <= Len(Rec) /\ Rec[l].k = "Crash" /\ l' = l + 1
  /\ LET e == Rec[l]
         s == e.si                                        \* index of the scenario (checked against its name)
         S == Scenarios[s]
         st == IF e.layer = "hook" THEN S.steps ELSE S.sys
         o == [opened |-> e.opened, head_on_chain |-> e.head_on_chain, valid |-> e.valid, header_ok |-> e.header_ok,
               input_converged |-> e.input_converged, converged |-> e.converged]
     IN /\ S.name = e.scenario
        /\ e.layer \in {"hook", "sys"}
        /\ e.at \in 1..(Len(st) + 1)
        /\ (e.at <= Len(st) => st[e.at].l = e.label)      \* bound to the recorded step list
        \* the crash point is one the spec's Crash / CrashTorn actions allow, and the driver's notion of
        \* its crash state and of the enclosing hook window is the spec's
        /\ e.layer = "sys" => /\ IF e.torn THEN e.at \in TornPointsIn(S.sys) ELSE e.at \in SysCrashPointsIn(S.sys)
                              /\ e.win = OpenHookIn(S.hookpos, e.at)
                              /\ e.state = MutBeforeIn(S.sys, e.at - 1)
        /\ e.layer = "hook" => /\ ~e.torn
                               /\ e.state = MutBeforeIn(S.sys, IF e.at <= Len(st) THEN S.hookpos[e.at] ELSE Len(S.sys))
        \* Recover's and Redeliver's post-conditions decide the event; a failing event is reported
        \* (one line per event) and the validation continues so that every crash point is decided
        /\ (IF RecoverOK(o) /\ RedeliverOK(o) THEN TRUE ELSE PrintT(<<"CRASHVIOLATION", l>>))
        /\ sc' = s /\ layer' = e.layer /\ done' = e.at - 1 /\ torn' = e.torn /\ phase' = "redelivered" /\ out' = o

TSpec == TInit /\ [][TCrash]_tvars

\* crash points executed for a scenario / layer
RanIn(name, ly, tn) == {Rec[i].at : i \in {k \in 1..Len(Rec) : Rec[k].scenario = name /\ Rec[k].layer = ly /\ Rec[k].torn = tn}}
ExhaustiveIn(S) ==
     /\ S.hookmode = "all" => RanIn(S.name, "hook", FALSE) = 1..(Len(S.steps) + 1)
     /\ S.hookmode = "sample" => RanIn(S.name, "hook", FALSE) # {}
     /\ S.sysmode = "all" => RanIn(S.name, "sys", FALSE) = SysCrashPointsIn(S.sys)
     /\ S.sysmode = "sample" => RanIn(S.name, "sys", FALSE) # {}
     /\ S.tornmode = "all" => RanIn(S.name, "sys", TRUE) = TornPointsIn(S.sys)
     /\ S.tornmode = "sample" => (TornPointsIn(S.sys) # {} => RanIn(S.name, "sys", TRUE) # {})
Exhaustive == LET A == Scenarios IN \A s \in 1..Len(A) : ExhaustiveIn(A[s])
Accepted == LET d == TLCGet("stats").diameter IN
            IF d - 1 # Len(Rec) THEN Print(<<"TRACE-REJECTED at event", d, IF d <= Len(Rec) THEN Rec[d] ELSE "eof">>, FALSE)
            ELSE IF ~Exhaustive THEN Print(<<"TRACE-REJECTED: crash points of a layer marked exhaustive were not all executed">>, FALSE)
            ELSE TRUE
===========================================================================
