---------------------------- MODULE CrashTrace ----------------------------
(* Outcomes recorded from real kills are accepted iff they satisfy the Recover / Redeliver   *)
(* post-conditions of Crash.tla at the recorded crash point of the recorded step list.      *)
EXTENDS Crash, Json, IOUtils, TLC
ScenariosFromFile == JsonDeserialize(IOEnv.STEPS)
Rec == ndJsonDeserialize(IOEnv.TRACE)
VARIABLE l
tvars == <<sc, done, phase, out, l>>

ScIndex(name) == CHOOSE i \in 1..Len(Scenarios) : Scenarios[i].name = name

TInit == /\ l = 1 /\ sc = 1 /\ done = 0 /\ phase = "run" /\ out = NoOut

\* one event = one complete behaviour Step^(at-1) ; Crash ; Recover(o) ; Redeliver of the spec
TCrash ==
  /\ l <= Len(Rec) /\ Rec[l].k = "Crash" /\ l' = l + 1
  /\ LET e == Rec[l]
         s == ScIndex(e.scenario)
         st == Steps(s)
         o == [opened |-> e.opened, head_on_chain |-> e.head_on_chain, valid |-> e.valid, input_converged |-> e.input_converged, converged |-> e.converged]
     IN /\ e.at \in 1..(Len(st) + 1)
        /\ (e.at <= Len(st) => st[e.at].l = e.label)      \* bound to the recorded step list
        \* Recover's and Redeliver's post-conditions decide the event; a failing event is reported
        \* (one line per event) and the validation continues so that every crash point is decided
        /\ (IF RecoverOK(o) /\ RedeliverOK(o) THEN TRUE ELSE PrintT(<<"CRASHVIOLATION", l>>))
        /\ sc' = s /\ done' = e.at - 1 /\ phase' = "redelivered" /\ out' = o

TSpec == TInit /\ [][TCrash]_tvars
Accepted == LET d == TLCGet("stats").diameter IN
            IF d - 1 = Len(Rec) THEN TRUE
            ELSE Print(<<"TRACE-REJECTED at event", d, IF d <= Len(Rec) THEN Rec[d] ELSE "eof">>, FALSE)
===========================================================================
