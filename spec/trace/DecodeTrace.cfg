SPECIFICATION TSpec
CONSTANTS
  ModelDecoders = {}
  ModelLens = {}
  Env = {"ok", "err", "panic", "abort", "hang"}
POSTCONDITION Accepted
CHECK_DEADLOCK FALSE
